/-!
# Model of `search/tree.go` (treeList, treeListIterator, TreeIndex) — C07

`treeList` is an AVL tree with parent pointers and a stored balance factor per node
(`balance` = depth(right) − depth(left)).  Insertion and deletion walk down, link/unlink a node and
then *retrace* towards the root through the parent pointers (`rebalanceAfterInsert`,
`rebalanceBeforeDelete`), updating balance factors and rotating.  The model is the functional image of
that: structural recursion that returns, next to the new subtree, the flag "retracing continues above
this node" — the condition under which the Go loop does `child = parent; continue` instead of
`break`.  The four rotations carry the same balance-factor tables as the Go functions.  A nil
dereference in Go (a rotation whose pivot does not exist) is `none`; the theorems show it cannot
happen on a valid tree, the model does not assume it.

The model mirrors the code *after* the two C07 fixes (fixes/C07-*.patch): `length` counts the root
insertion and is only decremented when a node was removed; `start()` resets the iterator's node.

Keys are `Nat`, payloads any type `α` (for `TreeIndex` the payload of the token tree is itself a
`TreeList`).  `balance` is `Int` (Go: int8; the invariant keeps it in −1..1).
-/
namespace B6.Model.Avl

inductive Tree (α : Type) where
  | nil : Tree α
  | node (l : Tree α) (k : Nat) (p : α) (b : Int) (r : Tree α) : Tree α
  deriving Repr, DecidableEq

variable {α : Type}

namespace Tree

/-- `treeList.depth` -/
def height : Tree α → Nat
  | nil => 0
  | node l _ _ _ r => max (height l) (height r) + 1

/-- in-order contents -/
def toList : Tree α → List (Nat × α)
  | nil => []
  | node l k p _ r => toList l ++ (k, p) :: toList r

def keys : Tree α → List Nat
  | nil => []
  | node l k _ _ r => keys l ++ k :: keys r

/-- balance factor stored at the root (`0` for the empty tree; only used in statements) -/
def rootBal : Tree α → Int
  | nil => 0
  | node _ _ _ b _ => b

/-- `treeList.Lookup` -/
def lookup : Tree α → Nat → Option α
  | nil, _ => none
  | node l x xp _ r, k =>
    if x < k then lookup r k          -- ComparisonLess: node = node.right
    else if k < x then lookup l k     -- ComparisonGreater: node = node.left
    else some xp

/-! ## Rotations (`rotateLeft`, `rotateRight`, `rotateRightLeft`, `rotateLeftRight`)

`parent` is given by its fields (`pl`/`pr` = the subtree that is *not* `child`, key, payload); the
parent's old balance is not read by the Go functions either. -/

/-- `rotateLeft(parent, child)`, `child = parent.right` -/
def rotateLeft (pl : Tree α) (pk : Nat) (pp : α) (child : Tree α) : Option (Tree α) :=
  match child with
  | nil => none
  | node cl ck cp cb cr =>
    if cb = 0 then some (node (node pl pk pp 1 cl) ck cp (-1) cr)
    else some (node (node pl pk pp 0 cl) ck cp 0 cr)

/-- `rotateRight(parent, child)`, `child = parent.left` -/
def rotateRight (child : Tree α) (pk : Nat) (pp : α) (pr : Tree α) : Option (Tree α) :=
  match child with
  | nil => none
  | node cl ck cp cb cr =>
    if cb = 0 then some (node cl ck cp 1 (node cr pk pp (-1) pr))
    else some (node cl ck cp 0 (node cr pk pp 0 pr))

/-- `rotateRightLeft(parent, child)`, `child = parent.right`, pivot `child.left` -/
def rotateRightLeft (pl : Tree α) (pk : Nat) (pp : α) (child : Tree α) : Option (Tree α) :=
  match child with
  | node (node nl nk np nb nr) ck cp _ cr =>
    if nb > 0 then some (node (node pl pk pp (-1) nl) nk np 0 (node nr ck cp 0 cr))
    else if nb = 0 then some (node (node pl pk pp 0 nl) nk np 0 (node nr ck cp 0 cr))
    else some (node (node pl pk pp 0 nl) nk np 0 (node nr ck cp 1 cr))
  | _ => none

/-- `rotateLeftRight(parent, child)`, `child = parent.left`, pivot `child.right` -/
def rotateLeftRight (child : Tree α) (pk : Nat) (pp : α) (pr : Tree α) : Option (Tree α) :=
  match child with
  | node cl ck cp _ (node nl nk np nb nr) =>
    if nb < 0 then some (node (node cl ck cp 0 nl) nk np 0 (node nr pk pp 1 pr))
    else if nb = 0 then some (node (node cl ck cp 0 nl) nk np 0 (node nr pk pp 0 pr))
    else some (node (node cl ck cp (-1) nl) nk np 0 (node nr pk pp 0 pr))
  | _ => none

/-! ## Insert -/

/-- One iteration of `rebalanceAfterInsert` at `parent = (l, k, p, b, ·)` when `child == parent.right`
(the right subtree `r'` has just grown).  Result: the subtree now hanging where `parent` was, and
whether the loop continues with `child = parent`. -/
def insRetraceRight (l : Tree α) (k : Nat) (p : α) (b : Int) (r' : Tree α) : Option (Tree α × Bool) :=
  if b > 0 then
    match (if r'.rootBal < 0 then rotateRightLeft l k p r' else rotateLeft l k p r') with
    | some t => some (t, false)
    | none => none
  else
    let b' := b + 1
    some (node l k p b' r', b' != 0)

/-- the same for `child == parent.left` -/
def insRetraceLeft (l' : Tree α) (k : Nat) (p : α) (b : Int) (r : Tree α) : Option (Tree α × Bool) :=
  if b < 0 then
    match (if l'.rootBal > 0 then rotateLeftRight l' k p r else rotateRight l' k p r) with
    | some t => some (t, false)
    | none => none
  else
    let b' := b - 1
    some (node l' k p b' r, b' != 0)

/-- `treeList.Insert` below the root pointer: new subtree, "retracing continues", "a node was added". -/
def ins : Tree α → Nat → α → Option (Tree α × Bool × Bool)
  | nil, k, p => some (node nil k p 0 nil, true, true)
  | node l x xp b r, k, p =>
    if x < k then
      match ins r k p with
      | none => none
      | some (r', grew, added) =>
        if grew then
          match insRetraceRight l x xp b r' with
          | some (t, g) => some (t, g, added)
          | none => none
        else some (node l x xp b r', false, added)
    else if k < x then
      match ins l k p with
      | none => none
      | some (l', grew, added) =>
        if grew then
          match insRetraceLeft l' x xp b r with
          | some (t, g) => some (t, g, added)
          | none => none
        else some (node l' x xp b r, false, added)
    else some (node l k p b r, false, false)     -- ComparisonEqual: node.v = v

/-! ## Delete -/

/-- One iteration of `rebalanceBeforeDelete` at `parent` when `child == parent.left` (the left
subtree is about to lose / has lost one level; `l'` is that subtree after the removal). -/
def delRetraceLeft (l' : Tree α) (k : Nat) (p : α) (b : Int) (r : Tree α) : Option (Tree α × Bool) :=
  if b > 0 then
    let sb := r.rootBal            -- balance = sibling.balance
    match (if sb < 0 then rotateRightLeft l' k p r else rotateLeft l' k p r) with
    | some t => some (t, sb != 0)  -- `if balance == 0 { break }`
    | none => none
  else
    let b' := b + 1
    some (node l' k p b' r, b' != 1)   -- `if parent.balance == 1 { break }`

/-- the same for `child == parent.right` -/
def delRetraceRight (l : Tree α) (k : Nat) (p : α) (b : Int) (r' : Tree α) : Option (Tree α × Bool) :=
  if b < 0 then
    let sb := l.rootBal
    match (if sb > 0 then rotateLeftRight l k p r' else rotateRight l k p r') with
    | some t => some (t, sb != 0)
    | none => none
  else
    let b' := b - 1
    some (node l k p b' r', b' != -1)

/-- `findMinimum(node.right)` followed by `replaceInGrandparent(next, next.right)`, restricted to the
subtree it is called on: the subtree without its minimum, the minimum, and whether retracing continues
above the subtree.  `none` on the empty tree (Go: nil dereference) — `del` never calls it there. -/
def delMin : Tree α → Option (Tree α × Nat × α × Bool)
  | nil => none
  | node nil k p _ r => some (r, k, p, true)
  | node (node ll lk lp lb lr) k p b r =>
    match delMin (node ll lk lp lb lr) with
    | none => none
    | some (l', mk, mp, shrunk) =>
      if shrunk then
        match delRetraceLeft l' k p b r with
        | some (t, s) => some (t, mk, mp, s)
        | none => none
      else some (node l' k p b r, mk, mp, false)

/-- `treeList.DeleteKey` below the root pointer: new subtree, "retracing continues", "a node was removed".
With two children the successor node is grafted into the deleted node's place *after* the retrace
that started at the successor; the retrace reads balances and links only, so this is the subtree with
the successor's key and payload at the deleted node's position. -/
def del : Tree α → Nat → Option (Tree α × Bool × Bool)
  | nil, _ => some (nil, false, false)
  | node l x xp b r, k =>
    if x < k then
      match del r k with
      | none => none
      | some (r', shrunk, found) =>
        if shrunk then
          match delRetraceRight l x xp b r' with
          | some (t, s) => some (t, s, found)
          | none => none
        else some (node l x xp b r', false, found)
    else if k < x then
      match del l k with
      | none => none
      | some (l', shrunk, found) =>
        if shrunk then
          match delRetraceLeft l' x xp b r with
          | some (t, s) => some (t, s, found)
          | none => none
        else some (node l' x xp b r, false, found)
    else
      match l, r with
      | node .., node .. =>
        match delMin r with
        | none => none
        | some (r', mk, mp, shrunk) =>
          if shrunk then
            match delRetraceRight l mk mp b r' with
            | some (t, s) => some (t, s, true)
            | none => none
          else some (node l mk mp b r', false, true)
      | node .., nil => some (l, true, true)
      | nil, _ => some (r, true, true)

/-- shape-preserving payload update (a `*treeList` payload mutated through its pointer) -/
def update : Tree α → Nat → (α → α) → Tree α
  | nil, _, _ => nil
  | node l x xp b r, k, f =>
    if x < k then node l x xp b (update r k f)
    else if k < x then node (update l k f) x xp b r
    else node l x (f xp) b r

/-! ## Invariant -/

/-- binary-search-tree order -/
def Bst : Tree α → Prop
  | nil => True
  | node l k _ _ r => Bst l ∧ Bst r ∧ (∀ x ∈ keys l, x < k) ∧ (∀ x ∈ keys r, k < x)

/-- stored balance = height difference, and |balance| ≤ 1, at every node -/
def Bal : Tree α → Prop
  | nil => True
  | node l _ _ b r => Bal l ∧ Bal r ∧ b = (height r : Int) - (height l : Int) ∧ -1 ≤ b ∧ b ≤ 1

/-- what `treeList.Validate` checks (minus parent pointers, which the model does not have), with the
order condition in its global form -/
def Inv (t : Tree α) : Prop := Bst t ∧ Bal t

def Bst.dec : (t : Tree α) → Decidable (Bst t)
  | nil => isTrue trivial
  | node l k _ _ r =>
    have := Bst.dec l
    have := Bst.dec r
    by unfold Bst; exact inferInstance

instance (t : Tree α) : Decidable (Bst t) := Bst.dec t

def Bal.dec : (t : Tree α) → Decidable (Bal t)
  | nil => isTrue trivial
  | node l _ _ _ r =>
    have := Bal.dec l
    have := Bal.dec r
    by unfold Bal; exact inferInstance

instance (t : Tree α) : Decidable (Bal t) := Bal.dec t

instance (t : Tree α) : Decidable (Inv t) := by unfold Inv; exact inferInstance

/-! ## Walks used by the iterator -/

/-- `start()`: leftmost node -/
def min : Tree α → Option (Nat × α)
  | nil => none
  | node l k p _ _ =>
    match min l with
    | some m => some m
    | none => some (k, p)

/-- the descent of `Advance`: first entry with key ≥ `key` -/
def lowerBound : Tree α → Nat → Option (Nat × α)
  | nil, _ => none
  | node l x xp _ r, key =>
    if x < key then lowerBound r key              -- ComparisonLess: node = node.right
    else if key < x then                          -- ComparisonGreater: t.node = node; node = node.left
      match lowerBound l key with
      | some m => some m
      | none => some (x, xp)
    else some (x, xp)                             -- ComparisonEqual

/-- the step of `Next` from a live node with key `c` (leftmost of the right subtree, else the first
ancestor reached from its left subtree): first entry with key > `c` -/
def succ : Tree α → Nat → Option (Nat × α)
  | nil, _ => none
  | node l x xp _ r, c =>
    if c < x then
      match succ l c with
      | some m => some m
      | none => some (x, xp)
    else succ r c

end Tree

/-! ## treeList -/

structure TreeList (α : Type) where
  root : Tree α
  length : Int
  deriving Repr

namespace TreeList

def empty : TreeList α := ⟨.nil, 0⟩

/-- `treeList.Insert` (`none` = Go would panic) -/
def insert (t : TreeList α) (k : Nat) (p : α) : Option (TreeList α) :=
  match t.root.ins k p with
  | none => none
  | some (r, _, added) => some ⟨r, if added then t.length + 1 else t.length⟩

/-- `treeList.Delete` / `DeleteKey`; the flag says whether a node was removed (and marked deleted) -/
def delete (t : TreeList α) (k : Nat) : Option (TreeList α × Bool) :=
  match t.root.del k with
  | none => none
  | some (r, _, found) => some (⟨r, if found then t.length - 1 else t.length⟩, found)

def toList (t : TreeList α) : List (Nat × α) := t.root.toList

end TreeList

/-! ## treeListIterator

The iterator holds a node pointer.  In the model the node is identified by its key together with the
flag "this node has been unlinked" (`markDeleted`); a re-inserted key lives in a *new* node, so the
flag stays set.  Pointer walks are replaced by their functional images `Tree.min`, `Tree.succ`,
`Tree.lowerBound` on the current tree. -/

structure Iter where
  started : Bool := false
  node : Option (Nat × Bool) := none     -- key under the iterator, node marked deleted?
  done : Bool := false
  deriving Repr, DecidableEq

namespace Iter

/-- `start()` (after the fix: `t.node = nil` first) -/
def start (t : Tree α) (it : Iter) : Iter × Bool :=
  match t.min with
  | some (k, _) => ({ it with node := some (k, false), started := true }, true)
  | none => ({ it with node := none, started := true }, false)

/-- `Advance(key)` once `started` holds and the node is not a deleted one -/
def advanceLive (t : Tree α) (it : Iter) (key : Nat) : Iter × Bool :=
  match it.node with
  | none => (it, false)
  | some (c, _) =>
    if c < key then
      -- ascend to the first ancestor not below `key` (or the root), then descend
      match t.lowerBound key with
      | some (k', _) => ({ it with node := some (k', false) }, true)
      | none => ({ it with node := none, done := true }, false)
    else (it, true)

/-- `Advance(key)` after its `if !t.started { … }` block -/
def advanceStarted (t : Tree α) (it : Iter) (key : Nat) : Iter × Bool :=
  match it.node with
  | none => (it, false)                       -- `if t.node == nil { return false }`
  | some (c, true) =>
    -- deleted node: `t.started = false; return t.Advance(start) && t.Advance(key)`; the inner calls
    -- run `start()` and then stand on a live node (or fail)
    match ({ it with started := false }).start t with
    | (it1, false) => (it1, false)
    | (it1, true) =>
      match it1.advanceLive t c with
      | (it2, false) => (it2, false)
      | (it2, true) => it2.advanceLive t key
  | some (_, false) => it.advanceLive t key

/-- `Advance(key)` -/
def advance (t : Tree α) (it : Iter) (key : Nat) : Iter × Bool :=
  if it.started then it.advanceStarted t key
  else
    match it.start t with
    | (it', false) => (it', false)            -- `if !t.start() { return false }`
    | (it', true) => it'.advanceStarted t key

/-- `Next()` from a live node with key `c` -/
def nextLive (t : Tree α) (it : Iter) (c : Nat) : Iter × Bool :=
  match t.succ c with
  | some (k', _) => ({ it with node := some (k', false) }, true)
  | none => ({ it with done := true }, false)

/-- `Next()` -/
def next (t : Tree α) (it : Iter) : Iter × Bool :=
  if !it.started then it.start t else
  match it.node with
  | none => (it, false)
  | some (c, deleted) =>
    if it.done then (it, false)
    else if deleted then
      -- `t.started = false; ok := t.Advance(key); if ok && key(t.node) == key { return t.Next() }; return ok`
      match ({ it with started := false }).advance t c with
      | (it1, false) => (it1, false)
      | (it1, true) =>
        match it1.node with
        | some (c', _) => if c' = c then it1.nextLive t c else (it1, true)
        | none => (it1, true)     -- unreachable: a successful `Advance` stands on a node (`advance_ok_node`)
    else it.nextLive t c

/-- what `DeleteKey(k)` does to an open iterator when it removed a node: `node.markDeleted()` -/
def onDelete (it : Iter) (k : Nat) : Iter :=
  match it.node with
  | some (c, false) => if c = k then { it with node := some (c, true) } else it
  | _ => it

end Iter

/-! ## A list with open iterators, and histories -/

structure World (α : Type) where
  list : TreeList α
  iters : List Iter

inductive Op (α : Type) where
  | ins (k : Nat) (p : α)
  | del (k : Nat)
  | begin
  | next (i : Nat)
  | adv (i : Nat) (k : Nat)

/-- what an iterator call returned: iterator index, whether it was `Next`, the key now under the iterator -/
structure Event where
  iter : Nat
  isNext : Bool
  key : Option Nat        -- `none` = the call returned false
  deriving Repr, DecidableEq

namespace World

def empty : World α := ⟨TreeList.empty, []⟩

/-- One call.  `none` = a Go panic (never, on a valid tree) or an iterator index that does not exist. -/
def step (w : World α) : Op α → Option (World α × Option Event)
  | .ins k p =>
    match w.list.insert k p with
    | some l => some ({ w with list := l }, none)
    | none => none
  | .del k =>
    match w.list.delete k with
    | some (l, found) =>
      some ({ list := l, iters := if found then w.iters.map (·.onDelete k) else w.iters }, none)
    | none => none
  | .begin => some ({ w with iters := w.iters ++ [{}] }, none)
  | .next i =>
    match w.iters[i]? with
    | some it =>
      let (it', ok) := it.next w.list.root
      some ({ w with iters := w.iters.set i it' },
        some ⟨i, true, if ok then it'.node.map (·.1) else none⟩)
    | none => none
  | .adv i k =>
    match w.iters[i]? with
    | some it =>
      let (it', ok) := it.advance w.list.root k
      some ({ w with iters := w.iters.set i it' },
        some ⟨i, false, if ok then it'.node.map (·.1) else none⟩)
    | none => none

/-- run a history, collecting the worlds *before* each iterator event with the event -/
def run (w : World α) : List (Op α) → Option (World α × List Event)
  | [] => some (w, [])
  | op :: ops =>
    match w.step op with
    | none => none
    | some (w', e) =>
      match run w' ops with
      | none => none
      | some (w'', es) => some (w'', e.toList ++ es)

end World

/-! ## TreeIndex: a token tree whose payloads are value lists -/

structure Index where
  lists : TreeList (TreeList Nat)
  deriving Repr

namespace Index

def empty : Index := ⟨TreeList.empty⟩

/-- `TreeIndex.Add(v, tokens)` with `v = (k, g)` -/
def add (ix : Index) (k g : Nat) : List Nat → Option Index
  | [] => some ix
  | tok :: rest =>
    match ix.lists.root.lookup tok with
    | some lst =>
      match lst.insert k g with
      | some lst' => add ⟨{ ix.lists with root := ix.lists.root.update tok (fun _ => lst') }⟩ k g rest
      | none => none
    | none =>
      match (TreeList.empty : TreeList Nat).insert k g with
      | some lst' =>
        match ix.lists.insert tok lst' with
        | some ls => add ⟨ls⟩ k g rest
        | none => none
      | none => none

/-- `TreeIndex.Remove(v, tokens)` -/
def remove (ix : Index) (k : Nat) : List Nat → Option Index
  | [] => some ix
  | tok :: rest =>
    match ix.lists.root.lookup tok with
    | some lst =>
      match lst.delete k with
      | some (lst', _) => remove ⟨{ ix.lists with root := ix.lists.root.update tok (fun _ => lst') }⟩ k rest
      | none => none
    | none => remove ix k rest

end Index

end B6.Model.Avl
