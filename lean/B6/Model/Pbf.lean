/-!
Model of `osm/pbf.go` at the element / primitive-block level (property C27).

Inside the model: the `Writer` state machine (`WriteNode` / `WriteWay` / `WriteRelation` / `Flush` /
`resetBlock` / `lookupString`: one primitive group per block, flush on a change of element type and when
a group reaches `elementsPerGroup`, per-block string table whose entry 0 is reserved, delta coding of
dense IDs / coordinates, way refs and member IDs, dense `KeysVals` with a 0 terminator per node) and the
reader (`readRawOSMDataBlob` → `readPrimitiveGroup` → `fillNode` / `readDenseNodes` / `fillWay` /
`fillRelation` / `fillTags`, `decodeAngle`, the read options) over a structured `Block`.

Outside the model (trusted, exercised by the correspondence run only): protobuf marshalling, zlib, the
blob framing, the channel protocol that hands blobs to reader goroutines (C28), and floating point: a
node coordinate enters the model as the `int64` number of nano-degrees `int64(angle / .000000001)` and
leaves it as the `int64` `offset + granularity * value` that `decodeAngle` multiplies by `.000000001`.

All Go `int64` arithmetic is Lean `Int64` (two's complement, wrapping; `/` truncates like Go's).
String-table indices (`int32` / `uint32` in Go) are `Nat`: the model assumes fewer than 2^31 strings per
block.
-/
namespace B6.Model.Pbf

abbrev Str := String

structure Tag where
  key : Str
  value : Str
deriving DecidableEq, Repr, Inhabited

inductive MType where
  | node | way | relation
deriving DecidableEq, Repr, Inhabited

structure Member where
  type : MType
  id : Int64
  role : Str
deriving DecidableEq, Inhabited

/-- `osm.Node` / `osm.Way` / `osm.Relation`. A node's `lat`/`lon` are nano-degrees. -/
inductive Element where
  | node (id lat lon : Int64) (tags : List Tag)
  | way (id : Int64) (nodes : List Int64) (tags : List Tag)
  | relation (id : Int64) (members : List Member) (tags : List Tag)
deriving DecidableEq, Inhabited

/-! ## The block structure (`pb.PrimitiveBlock`, as far as the code touches it) -/

structure PNode where
  id : Int64
  lat : Int64
  lon : Int64
  keys : List Nat
  vals : List Nat
deriving DecidableEq, Inhabited

structure Dense where
  id : List Int64 := []
  lat : List Int64 := []
  lon : List Int64 := []
  keysVals : List Nat := []
deriving DecidableEq, Inhabited

structure PWay where
  id : Int64
  refs : List Int64
  keys : List Nat
  vals : List Nat
deriving DecidableEq, Inhabited

/-- `types`: 0 = NODE, 1 = WAY, 2 = RELATION (`pb.Relation_MemberType`). -/
structure PRel where
  id : Int64
  memids : List Int64
  types : List Nat
  roles : List Nat
  keys : List Nat
  vals : List Nat
deriving DecidableEq, Inhabited

structure Group where
  nodes : List PNode := []
  dense : Option Dense := none
  ways : List PWay := []
  rels : List PRel := []
deriving DecidableEq, Inhabited

/-- `strings` is the whole string table, entry 0 included. -/
structure Block where
  strings : List Str
  granularity : Int64
  latOffset : Int64
  lonOffset : Int64
  groups : List Group
deriving DecidableEq, Inhabited

/-! ## Integer leaves -/

def elementsPerGroup : Nat := 8000

/-- the proto default of `granularity` (the writer never sets the field) -/
def defaultGranularity : Int64 := 100

/-- `decodeAngle` without its final `.000000001 * float64(·)`. -/
def decodeAngle (angle offset granularity : Int64) : Int64 := offset + granularity * angle

/-- `encodeAngle` after its initial `int64(angle/.000000001)`; `none` = Go's integer-divide-by-zero panic. -/
def encodeAngle? (nano offset granularity : Int64) : Option Int64 :=
  if granularity = 0 then none else some ((nano - offset) / granularity)

/-- `encodeAngle` for a non-zero granularity (the writer's is always `defaultGranularity`). -/
def encodeAngle (nano offset granularity : Int64) : Int64 := (nano - offset) / granularity

/-- what a coordinate becomes after write + read: `decodeAngle (encodeAngle n 0 100) 0 100` -/
def quantCoord (n : Int64) : Int64 :=
  decodeAngle (encodeAngle n 0 defaultGranularity) 0 defaultGranularity

def quantise : Element → Element
  | .node id lat lon tags => .node id (quantCoord lat) (quantCoord lon) tags
  | e => e

/-- way refs / member IDs: `x[i] - x[i-1]`, starting from `last` -/
def deltaEnc (last : Int64) : List Int64 → List Int64
  | [] => []
  | x :: xs => (x - last) :: deltaEnc x xs

def deltaDec (last : Int64) : List Int64 → List Int64
  | [] => []
  | d :: ds => (d + last) :: deltaDec (d + last) ds

/-! ## Writer -/

def indexOf (s : Str) : List Str → Option Nat
  | [] => none
  | x :: xs => if x = s then some 0 else (indexOf s xs).map (· + 1)

/-- `lookupString`. `S` is `Stringtable.S[1:]` (entry 0 is reserved and never handed out, the Go map
`w.strings` holds exactly the strings of `S[1:]`); the result index counts entry 0. -/
def lookup (S : List Str) (s : Str) : Nat × List Str :=
  match indexOf s S with
  | some i => (i + 1, S)
  | none => (S.length + 1, S ++ [s])

/-- key and value index of every tag, in order (key looked up before value) -/
def encTags (S : List Str) : List Tag → List (Nat × Nat) × List Str
  | [] => ([], S)
  | t :: ts =>
    let (k, S1) := lookup S t.key
    let (v, S2) := lookup S1 t.value
    let (ps, S3) := encTags S2 ts
    ((k, v) :: ps, S3)

def encRoles (S : List Str) : List Member → List Nat × List Str
  | [] => ([], S)
  | m :: ms =>
    let (r, S1) := lookup S m.role
    let (rs, S2) := encRoles S1 ms
    (r :: rs, S2)

def kvOf : List (Nat × Nat) → List Nat
  | [] => []
  | (k, v) :: ps => k :: v :: kvOf ps

def typeCode : MType → Nat
  | .node => 0
  | .way => 1
  | .relation => 2

inductive WState where
  | new | dense | ways | rels
deriving DecidableEq, Repr, Inhabited

structure Writer where
  state : WState := .new
  /-- `block.Stringtable.S[1:]` -/
  strings : List Str := []
  /-- `w.dense.Id`, `.Lat`, `.Lon`, `.KeysVals`, most recent entry first (Go appends; the model conses and
  reverses when the group is looked at, so that a long group costs linear time in the driver) -/
  idRev : List Int64 := []
  latRev : List Int64 := []
  lonRev : List Int64 := []
  kvRev : List Nat := []
  /-- `group.Ways`, most recent first -/
  waysRev : List PWay := []
  /-- `group.Relations`, most recent first -/
  relsRev : List PRel := []
  lastID : Int64 := 0
  lastLat : Int64 := 0
  lastLon : Int64 := 0
  /-- the OSMData blobs written so far, most recent first -/
  outRev : List Block := []
deriving Inhabited

/-- `w.dense` -/
def Writer.dense (w : Writer) : Dense :=
  { id := w.idRev.reverse, lat := w.latRev.reverse, lon := w.lonRev.reverse, keysVals := w.kvRev.reverse }

/-- the blobs written so far, in file order -/
def Writer.out (w : Writer) : List Block := w.outRev.reverse

/-- the single primitive group of the block being assembled -/
def Writer.group (w : Writer) : Group :=
  match w.state with
  | .new => {}
  | .dense => { dense := some w.dense }
  | .ways => { ways := w.waysRev.reverse }
  | .rels => { rels := w.relsRev.reverse }

def Writer.block (w : Writer) : Block :=
  { strings := "" :: w.strings, granularity := defaultGranularity, latOffset := 0, lonOffset := 0,
    groups := [w.group] }

/-- `Flush` (with `resetBlock`) -/
def Writer.flush (w : Writer) : Writer :=
  match w.state with
  | .new => { w with strings := [], waysRev := [], relsRev := [] }
  | _ => { w with outRev := w.block :: w.outRev, state := .new, strings := [], waysRev := [], relsRev := [] }

def Writer.writeNode (w : Writer) (id lat lon : Int64) (tags : List Tag) : Writer :=
  let w := if w.state = .dense then w else
    { w.flush with state := .dense, idRev := [], latRev := [], lonRev := [], kvRev := [],
                   lastID := 0, lastLat := 0, lastLon := 0 }
  let dLat := encodeAngle lat 0 defaultGranularity - w.lastLat
  -- (the code passes `GetLatOffset()` for the longitude too; both offsets are 0 in a written block)
  let dLon := encodeAngle lon 0 defaultGranularity - w.lastLon
  let (ps, S) := encTags w.strings tags
  let w := { w with
    idRev := (id - w.lastID) :: w.idRev, latRev := dLat :: w.latRev, lonRev := dLon :: w.lonRev,
    kvRev := 0 :: ((kvOf ps).reverse ++ w.kvRev),
    lastID := id, lastLat := w.lastLat + dLat, lastLon := w.lastLon + dLon, strings := S }
  if w.idRev.length ≥ elementsPerGroup then w.flush else w

def Writer.writeWay (w : Writer) (id : Int64) (nodes : List Int64) (tags : List Tag) : Writer :=
  let w := if w.state = .ways then w else { w.flush with state := .ways, waysRev := [] }
  let (ps, S) := encTags w.strings tags
  let pw : PWay := { id := id, refs := deltaEnc 0 nodes, keys := ps.map (·.1), vals := ps.map (·.2) }
  let w := { w with waysRev := pw :: w.waysRev, strings := S }
  if w.waysRev.length ≥ elementsPerGroup then w.flush else w

def Writer.writeRelation (w : Writer) (id : Int64) (members : List Member) (tags : List Tag) : Writer :=
  let w := if w.state = .rels then w else { w.flush with state := .rels, relsRev := [] }
  let (rs, S1) := encRoles w.strings members
  let (ps, S2) := encTags S1 tags
  let pr : PRel := { id := id, memids := deltaEnc 0 (members.map (·.id)), types := members.map (typeCode ·.type),
                     roles := rs, keys := ps.map (·.1), vals := ps.map (·.2) }
  let w := { w with relsRev := pr :: w.relsRev, strings := S2 }
  if w.relsRev.length ≥ elementsPerGroup then w.flush else w

def Writer.write (w : Writer) : Element → Writer
  | .node id lat lon tags => w.writeNode id lat lon tags
  | .way id nodes tags => w.writeWay id nodes tags
  | .relation id members tags => w.writeRelation id members tags

/-- `NewWriter`, `WriteElement` for every element, final `Flush`: the data blocks of the file. -/
def writeAll (es : List Element) : List Block :=
  (es.foldl Writer.write {}).flush.out

/-! ## Reader -/

inductive Fail where
  | err | panic
deriving DecidableEq, Repr, Inhabited

structure Opts where
  skipTags : Bool := false
  skipNodes : Bool := false
  skipWays : Bool := false
  skipRels : Bool := false
deriving DecidableEq, Inhabited

/-- the elements emitted so far and how reading ended (`none` = no error) -/
structure Res where
  out : List Element
  fail : Option Fail
deriving DecidableEq, Inhabited

def Res.cons (e : Element) (r : Res) : Res := ⟨e :: r.out, r.fail⟩

/-- run `r`, and when it ended without error continue with `k` -/
def Res.andThen (r : Res) (k : Unit → Res) : Res :=
  match r.fail with
  | some f => ⟨r.out, some f⟩
  | none => let r' := k (); ⟨r.out ++ r'.out, r'.fail⟩

/-- emit `f x` for each `x`; stop at the first failure -/
def emitEach {α : Type} (f : α → Except Fail Element) : List α → Res
  | [] => ⟨[], none⟩
  | x :: xs =>
    match f x with
    | .error e => ⟨[], some e⟩
    | .ok el => (emitEach f xs).cons el

def fillTagsGo (S : List Str) : List Nat → List Nat → Except Fail (List Tag)
  | k :: ks, v :: vs =>
    match S[k]?, S[v]? with
    | some a, some b => (fillTagsGo S ks vs).map (fun ts => ⟨a, b⟩ :: ts)
    | _, _ => .error .err
  | _, _ => .ok []

/-- `fillTags` (both out-of-range checks return an error) -/
def fillTags (S : List Str) (keys vals : List Nat) : Except Fail (List Tag) :=
  if keys.length ≠ vals.length then .error .err else fillTagsGo S keys vals

def tagsOrSkip (o : Opts) (S : List Str) (keys vals : List Nat) : Except Fail (List Tag) :=
  if o.skipTags then .ok [] else fillTags S keys vals

/-- `fillNode` -/
def fillNode (o : Opts) (b : Block) (n : PNode) : Except Fail Element := do
  let tags ← tagsOrSkip o b.strings n.keys n.vals
  pure (.node n.id (decodeAngle n.lat b.latOffset b.granularity) (decodeAngle n.lon b.lonOffset b.granularity) tags)

/-- the tag loop of `readDenseNodes` from cursor position `j` on (the list is `keysVals[j:]`): the tags of
one node and the rest. Indices are not range-checked by the code: out of range = Go panic. -/
def takeTags (S : List Str) : List Nat → Except Fail (List Tag × List Nat)
  | [] => .ok ([], [])
  | 0 :: rest => .ok ([], rest)
  | [_] => .error .err
  | k :: v :: rest =>
    match S[k]?, S[v]? with
    | some a, some b => (takeTags S rest).map (fun (ts, r) => (⟨a, b⟩ :: ts, r))
    | _, _ => .error .panic

/-- `readDenseNodes`; `Lat[i]`/`Lon[i]` shorter than `Id` = index panic. -/
def readDense (o : Opts) (b : Block) : (lastID lastLat lastLon : Int64) →
    (ids lats lons : List Int64) → (kv : List Nat) → Res
  | _, _, _, [], _, _, _ => ⟨[], none⟩
  | lid, llat, llon, id :: ids, lats, lons, kv =>
    match lats, lons with
    | la :: lats', lo :: lons' =>
      let id' := id + lid
      let lat := decodeAngle (la + llat) b.latOffset b.granularity
      let lon := decodeAngle (lo + llon) b.lonOffset b.granularity
      match (if o.skipTags then .ok ([], kv) else takeTags b.strings kv) with
      | .error e => ⟨[], some e⟩
      | .ok (tags, kv') =>
        (readDense o b id' (la + llat) (lo + llon) ids lats' lons' kv').cons (.node id' lat lon tags)
    | _, _ => ⟨[], some .panic⟩

/-- `fillWay` -/
def fillWay (o : Opts) (b : Block) (w : PWay) : Except Fail Element := do
  let tags ← tagsOrSkip o b.strings w.keys w.vals
  pure (.way w.id (deltaDec 0 w.refs) tags)

def memberType? : Nat → Option MType
  | 0 => some .node
  | 1 => some .way
  | 2 => some .relation
  | _ => none

/-- the member loop of `fillRelation` (lengths already checked equal): unknown type = error, role index
out of range = panic, in that order per member. -/
def fillMembers (S : List Str) (last : Int64) : List Int64 → List Nat → List Nat → Except Fail (List Member)
  | d :: ds, t :: ts, r :: rs =>
    match memberType? t with
    | none => .error .err
    | some ty =>
      match S[r]? with
      | none => .error .panic
      | some role => (fillMembers S (d + last) ds ts rs).map (fun ms => ⟨ty, d + last, role⟩ :: ms)
  | _, _, _ => .ok []

/-- `fillRelation` -/
def fillRelation (o : Opts) (b : Block) (r : PRel) : Except Fail Element := do
  let tags ← tagsOrSkip o b.strings r.keys r.vals
  if r.memids.length ≠ r.roles.length then .error .err
  else if r.memids.length ≠ r.types.length then .error .err
  else do
    let ms ← fillMembers b.strings 0 r.memids r.types r.roles
    pure (.relation r.id ms tags)

/-- `readPrimitiveGroup` -/
def readGroup (o : Opts) (b : Block) (g : Group) : Res :=
  (if o.skipNodes then ⟨[], none⟩ else
    (emitEach (fillNode o b) g.nodes).andThen fun _ =>
      match g.dense with
      | none => ⟨[], none⟩
      | some d => readDense o b 0 0 0 d.id d.lat d.lon d.keysVals).andThen fun _ =>
  (if o.skipWays then ⟨[], none⟩ else emitEach (fillWay o b) g.ways).andThen fun _ =>
  (if o.skipRels then ⟨[], none⟩ else emitEach (fillRelation o b) g.rels)

def readGroups (o : Opts) (b : Block) : List Group → Res
  | [] => ⟨[], none⟩
  | g :: gs => (readGroup o b g).andThen fun _ => readGroups o b gs

/-- `readRawOSMDataBlob` on an unmarshalled block -/
def readBlock (o : Opts) (b : Block) : Res := readGroups o b b.groups

/-- `ReadPBFWithOptions` with one reader goroutine: the blocks in file order (the model stops at the first
failing block; the code may or may not go on after a failure — not part of the round trip). -/
def readAll (o : Opts) : List Block → Res
  | [] => ⟨[], none⟩
  | b :: bs => (readBlock o b).andThen fun _ => readAll o bs

/-- `ReadPBFWithOptions` with `g` reader goroutines. The blobs go through one FIFO channel, each goroutine
reads one block to the end before it takes the next, so goroutine `k` emits the blocks it happened to
receive, in file order. `assign[i]` = the goroutine that received block `i` (chosen by the scheduler).
Result: the stream of elements each goroutine passes to `emit(e, k)`. -/
def readCores (o : Opts) (bs : List Block) (assign : List Nat) (g : Nat) : List (List Element) :=
  (List.range g).map fun k =>
    ((bs.zip assign).filter (fun p => p.2 == k)).flatMap (fun p => (readBlock o p.1).out)

/-- The order in which the callback sees elements when several goroutines call it: some interleaving of
the per-goroutine streams (each goroutine calls `emit` sequentially; nothing orders calls of different
goroutines). `Shuffle streams out`: `out` is such an interleaving, using up every stream. -/
inductive Shuffle {α : Type} : List (List α) → List α → Prop where
  | nil {ss : List (List α)} : (∀ s ∈ ss, s = []) → Shuffle ss []
  | cons {ss : List (List α)} {k : Nat} {x : α} {rest out : List α} :
      ss[k]? = some (x :: rest) → Shuffle (ss.set k rest) out → Shuffle ss (x :: out)

/-- the input class of the known finding `cores-gt1-cross-block-order`: more than one reader goroutine and
more than one block in the file — only then can the callback see the elements in an order other than the
file's -/
def crossBlockClass (g nblocks : Nat) : Bool := decide (g > 1) && decide (nblocks > 1)

/-! ## `dense_tags_aligned`: the KeysVals cursor -/

/-- what is left of `keysVals` (i.e. `keysVals[j:]` for the cursor `j` of `readDenseNodes`) after the tag
loop has run for `n` nodes -/
def restAfter (S : List Str) : Nat → List Nat → Except Fail (List Nat)
  | 0, kv => .ok kv
  | n + 1, kv =>
    match takeTags S kv with
    | .error e => .error e
    | .ok (_, r) => restAfter S n r

end B6.Model.Pbf
