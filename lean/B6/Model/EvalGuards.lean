import B6.Model.VM
import B6.Model.Simplify
/-!
C23 — evaluating a request never crashes the server: the stages of `grpc/service.go:Evaluate` around
the VM, and the library functions whose guards were found missing by the sweep, each with the outcome
`panic` made explicit.  Every definition exists twice where the code was repaired: `…Old` mirrors the
code before the `fixes/C23-*.patch` (the witness of the defect is a theorem about it), the plain name
mirrors the repaired code in /repo's working tree.

* wire decoding (`b6.ExpressionFromProto`, `NewQueryFromProto`, `NewFeatureTypeFromProto`,
  `PointProtoToS2LatLng`, `CollectionExpressionFromProto`, `GeoJSONExpressionFromProto`): a request is
  a tree of messages whose message-valued fields may be absent (`Option`); proto3 enums are open
  (`Int`).
* `serviceEval`: `api.Simplify` (C22's model), `api.Evaluate` (C21's VM model), `b6.FromLiteral`.
* `api.NewHistogramFromCollection` (error looked at before the histogram is touched),
  the map-keyed counting functions (`count-values` & co: `api.CanUseAsMapKey`), `uniform` (comparison
  error remembered instead of `panic(err)`), `sample-points` (the stepping loop and its guard),
  `ingest.ValidateFeature` (representation matches the type of the ID).
-/
namespace B6.Model.EvalGuards
open B6.Model

/-! ### the wire form of a request -/

inductive PQuery where
  | unset                                         -- QueryProto without its oneof
  | all | empty
  | keyed (k : String)
  | tagged (k v : String)
  | typed (ftype : Int) (child : Option PQuery)
  | inter (qs : List PQuery)
  | union (qs : List PQuery)
  | cap (centre : Option (Int × Int)) (radius : String)
  | point (p : Option (Int × Int))
  | feature (ftype : Int) (ns : String) (value : Nat)
  | other (text : String)                         -- polyline, multipolygon, cells: no absent message inside
  deriving Repr, Inhabited

inductive PLit where
  | unset                                         -- LiteralNodeProto without its oneof
  | int (i : Int)
  | str (s : String)
  | query (q : PQuery)                            -- (a oneof member that is present is never nil on the wire)
  | featureID (ftype : Int) (ns : String) (value : Nat)
  | geojson
  | feature | pair | appliedChange              -- kinds `expressionFromProto` has no case for / refuses
  | other (kind text : String)                    -- float bool tag point path area nil route
  | collection (keys values : List PLit)
  deriving Repr, Inhabited

inductive PNode where
  | unset                                         -- NodeProto without its oneof
  | sym (s : String)
  | lit (l : PLit)
  | call (fn : Option PNode) (args : List PNode) (pipelined : Bool)
  | lam (params : List String) (body : Option PNode)
  deriving Repr, Inhabited

/-- `NewFeatureTypeFromProto` before the fix: any number outside the enum panicked -/
def featureTypeOld (n : Int) : Res String :=
  if n == 0 then .ok "invalid" else if n == 1 then .ok "point" else if n == 2 then .ok "path"
  else if n == 3 then .ok "area" else if n == 4 then .ok "relation" else if n == 5 then .ok "collection"
  else if n == 6 then .ok "expression" else .error .panic

/-- `NewFeatureTypeFromProto` (fix C23-feature-type-from-proto) -/
def featureType (n : Int) : String :=
  if n == 1 then "point" else if n == 2 then "path" else if n == 3 then "area" else if n == 4 then "relation"
  else if n == 5 then "collection" else if n == 6 then "expression" else "invalid"

/-- text of a decoded spatial query (carried opaquely by `Query.other`) -/
def pointText : Option (Int × Int) → String
  | some (a, b) => toString a ++ "," ++ toString b
  | none => "0,0"                                 -- fix C23-point-proto-nil: an absent message reads as its default

mutual
  /-- `NewQueryFromProto` -/
  def decodeQuery : PQuery → Res Query
    | .unset => .error .error
    | .all => .ok (.other "all")
    | .empty => .error .error                     -- no case for `Empty`: falls through to "Can't handle query"
    | .keyed k => .ok (.keyed k)
    | .tagged k v => .ok (.tagged k v)
    | .typed _ none => .error .error              -- `if q.Typed.Query != nil` else falls through to the error
    | .typed t (some c) =>
      match decodeQuery c with
      | .ok q => .ok (.typed (featureType t) q)
      | .error e => .error e
    | .inter qs => match decodeQueries qs with
      | .ok rs => .ok (.inter rs)
      | .error e => .error e
    | .union qs => match decodeQueries qs with
      | .ok rs => .ok (.union rs)
      | .error e => .error e
    | .cap c r => .ok (.other ("cap:" ++ pointText c ++ ":" ++ r))
    | .point p => .ok (.other ("point:" ++ pointText p))
    | .feature t ns v => .ok (.other ("feature:/" ++ featureType t ++ "/" ++ ns ++ "/" ++ toString v))
    | .other t => .ok (.other t)
  def decodeQueries : List PQuery → Res (List Query)
    | [] => .ok []
    | q :: qs => match decodeQuery q, decodeQueries qs with
      | .ok r, .ok rs => .ok (r :: rs)
      | .error e, _ => .error e
      | _, .error e => .error e
end

mutual
  /-- the same before the fixes: unknown feature types and absent points panic -/
  def decodeQueryOld : PQuery → Res Query
    | .unset => .error .error
    | .all => .ok (.other "all")
    | .empty => .error .error
    | .keyed k => .ok (.keyed k)
    | .tagged k v => .ok (.tagged k v)
    | .typed _ none => .error .error
    | .typed t (some c) =>
      match decodeQueryOld c with
      | .ok q => match featureTypeOld t with
        | .ok n => .ok (.typed n q)
        | .error e => .error e
      | .error e => .error e
    | .inter qs => match decodeQueriesOld qs with
      | .ok rs => .ok (.inter rs)
      | .error e => .error e
    | .union qs => match decodeQueriesOld qs with
      | .ok rs => .ok (.union rs)
      | .error e => .error e
    | .cap none _ => .error .panic
    | .cap (some c) r => .ok (.other ("cap:" ++ pointText (some c) ++ ":" ++ r))
    | .point none => .error .panic
    | .point (some p) => .ok (.other ("point:" ++ pointText (some p)))
    | .feature t ns v => match featureTypeOld t with
      | .ok n => .ok (.other ("feature:/" ++ n ++ "/" ++ ns ++ "/" ++ toString v))
      | .error e => .error e
    | .other t => .ok (.other t)
  def decodeQueriesOld : List PQuery → Res (List Query)
    | [] => .ok []
    | q :: qs => match decodeQueryOld q, decodeQueriesOld qs with
      | .ok r, .ok rs => .ok (r :: rs)
      | .error e, _ => .error e
      | _, .error e => .error e
end

mutual
  /-- the literal cases of `expressionFromProto`; a collection literal becomes an opaque value once all
  of its keys and values decoded (`CollectionExpressionFromProto`: lengths compared first) -/
  def decodeLit : PLit → Res Lit
    | .unset => .error .error
    | .int i => .ok (.int i)
    | .str s => .ok (.str s)
    | .query q => match decodeQuery q with
      | .ok r => .ok (.query r)
      | .error e => .error e
    | .featureID t ns v => .ok (.other "fid" ("/" ++ featureType t ++ "/" ++ ns ++ "/" ++ toString v))
    | .geojson => .error .error                   -- fix C23-geojson-literal-from-proto (was: panic "Unimplemented")
    | .feature => .error .error
    | .pair => .error .error
    | .appliedChange => .error .error
    | .other k t => .ok (.other k t)
    | .collection ks vs =>
      if ks.length != vs.length then .error .error
      else match decodeLits ks, decodeLits vs with
        | .ok _, .ok _ => .ok (.other "coll" (toString ks.length))
        | .error e, _ => .error e
        | _, .error e => .error e
  def decodeLits : List PLit → Res (List Lit)
    | [] => .ok []
    | l :: ls => match decodeLit l, decodeLits ls with
      | .ok r, .ok rs => .ok (r :: rs)
      | .error e, _ => .error e
      | _, .error e => .error e
end

mutual
  def decodeLitOld : PLit → Res Lit
    | .unset => .error .error
    | .int i => .ok (.int i)
    | .str s => .ok (.str s)
    | .query q => match decodeQueryOld q with
      | .ok r => .ok (.query r)
      | .error e => .error e
    | .featureID t ns v => match featureTypeOld t with
      | .ok n => .ok (.other "fid" ("/" ++ n ++ "/" ++ ns ++ "/" ++ toString v))
      | .error e => .error e
    | .geojson => .error .panic
    | .feature => .error .error
    | .pair => .error .error
    | .appliedChange => .error .error
    | .other k t => .ok (.other k t)
    | .collection ks vs =>
      if ks.length != vs.length then .error .error
      else match decodeLitsOld ks, decodeLitsOld vs with
        | .ok _, .ok _ => .ok (.other "coll" (toString ks.length))
        | .error e, _ => .error e
        | _, .error e => .error e
  def decodeLitsOld : List PLit → Res (List Lit)
    | [] => .ok []
    | l :: ls => match decodeLitOld l, decodeLitsOld ls with
      | .ok r, .ok rs => .ok (r :: rs)
      | .error e, _ => .error e
      | _, .error e => .error e
end

mutual
  /-- `expressionFromProto` on a node that is present -/
  def decodeNode : PNode → Res Expr
    | .unset => .error .error
    | .sym s => .ok (.sym s)
    | .lit l => match decodeLit l with
      | .ok r => .ok (.lit r)
      | .error e => .error e
    | .call none _ _ => .error .error              -- fix C23-expression-from-proto-nil (was: nil dereference)
    | .call (some fn) args p =>
      match decodeNode fn with                     -- the function first, then the arguments in order
      | .error e => .error e
      | .ok f => match decodeNodes args with
        | .ok as => .ok (.call f as p)
        | .error e => .error e
    | .lam _ none => .error .error                 -- fix C23-expression-from-proto-nil
    | .lam ps (some body) => match decodeNode body with
      | .ok b => .ok (.lam ps b)
      | .error e => .error e
  def decodeNodes : List PNode → Res (List Expr)
    | [] => .ok []
    | n :: ns => match decodeNode n with
      | .error e => .error e
      | .ok r => match decodeNodes ns with
        | .ok rs => .ok (r :: rs)
        | .error e => .error e
end

/-- `b6.ExpressionFromProto(request.Request)`: the request itself is a message field -/
def decode : Option PNode → Res Expr
  | none => .error .error                          -- fix C23-expression-from-proto-nil
  | some n => decodeNode n

mutual
  /-- before the fixes -/
  def decodeNodeOld : PNode → Res Expr
    | .unset => .error .error
    | .sym s => .ok (.sym s)
    | .lit l => match decodeLitOld l with
      | .ok r => .ok (.lit r)
      | .error e => .error e
    | .call none _ _ => .error .panic
    | .call (some fn) args p =>
      match decodeNodeOld fn with
      | .error e => .error e
      | .ok f => match decodeNodesOld args with
        | .ok as => .ok (.call f as p)
        | .error e => .error e
    | .lam _ none => .error .panic
    | .lam ps (some body) => match decodeNodeOld body with
      | .ok b => .ok (.lam ps b)
      | .error e => .error e
  def decodeNodesOld : List PNode → Res (List Expr)
    | [] => .ok []
    | n :: ns => match decodeNodeOld n with
      | .error e => .error e
      | .ok r => match decodeNodesOld ns with
        | .ok rs => .ok (r :: rs)
        | .error e => .error e
end

def decodeOld : Option PNode → Res Expr
  | none => .error .panic
  | some n => decodeNodeOld n

/-! ### the service path -/

/-- `b6.FromLiteral` on the result: numbers, strings and every opaque literal kind have a case;
queries, pairs and function values do not ("can't make literal from …") -/
def resultLiteral : Val → Bool
  | .int _ | .str _ | .other _ _ => true
  | _ => false

/-- `service.Evaluate` once the request is decoded: `Simplify`, compile and run, result to literal -/
def evalDecoded (fuel : Nat) (e : Expr) : Res Val :=
  match simplify e with
  | none => .error .fuel
  | some s =>
    match VM.run fuel s with
    | .error x => .error x
    | .ok v => if resultLiteral v then .ok v else .error .error

/-- `service.Evaluate` on a request as it arrives -/
def serviceEval (fuel : Nat) (request : Option PNode) : Res Val :=
  match decode request with
  | .error e => .error e
  | .ok e => evalDecoded fuel e

/-! ### library functions with their guards -/

/-- a collection as its consumer sees it: items, then the way iteration ends (`Next` returns an
error, or false) -/
structure Src where
  items : List (Val × Val)
  fails : Bool
  deriving Inhabited

/-- what `reflect.Value.Comparable` answers for a model value: function values, collections
(carried as `other "coll"`), areas and routes hold slices or funcs -/
def hashable : Val → Bool
  | .int _ | .str _ => true
  | .query _ => false
  | .other k _ => !(k == "coll" || k == "area" || k == "route" || k == "path")
  | .pair a b => hashable a && hashable b
  | _ => false

/-- the counting loop shared by `count-values`, `count-keys`, `count-valid-keys`, `sum-by-key` and
`api.countValues`: `counts[key]++` for every item, `key` chosen by `sel` -/
def countWith (guarded : Bool) (sel : Val × Val → Val) : List (Val × Val) → Bool → List (Val × Nat) → Res (List (Val × Nat))
  | [], fails, acc => if fails then .error .error else .ok acc
  | it :: rest, fails, acc =>
    let k := sel it
    if hashable k then
      let acc' := match acc.find? (fun p => p.1.render == k.render) with
        | some _ => acc.map (fun p => if p.1.render == k.render then (p.1, p.2 + 1) else p)
        | none => acc ++ [(k, 1)]
      countWith guarded sel rest fails acc'
    else if guarded then .error .error       -- fix C23-count-unhashable: api.CanUseAsMapKey
    else .error .panic                        -- "runtime error: hash of unhashable type"

def countValues (c : Src) : Res (List (Val × Nat)) := countWith true (·.2) c.items c.fails []
def countKeys (c : Src) : Res (List (Val × Nat)) := countWith true (·.1) c.items c.fails []
def countValuesOld (c : Src) : Res (List (Val × Nat)) := countWith false (·.2) c.items c.fails []

/-- `newBucketedHistogram` as far as its outcome is concerned: count, then bucket; `uniform` compares
every pair of values with `b6.Less`, which fails across kinds -/
def sameKind : Val → Val → Bool
  | .int _, .int _ => true
  | .str _, .str _ => true
  | .other k _, .other k' _ => k == k'
  | _, _ => false

def numericalFirst : List (Val × Nat) → Bool
  | (.int _, _) :: _ => true
  | (.other k _, _) :: _ => k == "float"
  | _ => false

def bucketed (guarded : Bool) (c : Src) : Res Nat :=
  match countWith guarded (·.2) c.items c.fails [] with
  | .error e => .error e
  | .ok kvs =>
    if numericalFirst kvs then
      match kvs with
      | [] => .ok 0
      | (k0, _) :: _ =>
        if kvs.all (fun p => sameKind k0 p.1) then .ok kvs.length
        else if guarded then .error .error   -- fix C23-histogram-mixed-values
        else .error .panic                    -- `panic(err) // Not graceful`
    else .ok kvs.length

/-- `NewHistogramFromCollection`: `h, err := …; h.CollectionID = id` -/
def histogramOld (c : Src) : Res Nat :=
  match bucketed false c with
  | .ok n => .ok n
  | .error .error => .error .panic              -- h is nil when err is not: dereferenced before err is looked at
  | .error e => .error e

/-- fix C23-histogram-error-before-use -/
def histogram (c : Src) : Res Nat := bucketed true c

/-- the loop of `appendUnseenSampledPoints` in integer units: the position advances by `step` until it
reaches `one`; `fuel` iterations are allowed (`none` = still running) -/
def sampleLoop (one : Int) (step : Int) : Nat → Int → Nat → Option Nat
  | 0, _, _ => none
  | fuel + 1, j, n =>
    if j ≥ one then some (n + 1)                -- `j = 1.0; done = true`, one last point
    else sampleLoop one step fuel (j + step) (n + 1)

/-- `sample-points` (fix C23-sample-points-distance: the distance must be greater than zero) -/
def samplePoints (one step : Int) (fuel : Nat) : Res (Option Nat) :=
  if step ≤ 0 then .error .error else .ok (sampleLoop one step fuel 0 0)

/-- `ingest.ValidateFeature` + `WrapFeature`: `idType` is the type of the feature's ID, `repr` the Go
type that represents it ("generic" = `*GenericFeature`, which is a `PhysicalFeature`) -/
def reprFits (idType repr : String) : Bool :=
  if idType == "point" || idType == "path" then repr == "generic"
  else if idType == "area" || idType == "relation" || idType == "collection" then repr == idType
  else true

def addFeatureOld (idType repr : String) : Res Unit :=
  if idType == "invalid" then .error .error
  else if reprFits idType repr then .ok () else .error .panic   -- `feature.(*AreaFeature)`

/-- fix C23-validate-feature-representation -/
def addFeature (idType repr : String) : Res Unit :=
  if idType == "invalid" then .error .error
  else if reprFits idType repr then .ok () else .error .error

end B6.Model.EvalGuards
