/-!
# Model of b6.FeatureID and its encodings (C31)

Mirrors, in /repo/src/diagonal.works/b6:
* `world.go`      `FeatureType.String`, `FeatureTypeFromString`, `FeatureID.IsValid/Less/String`,
                  `FeatureIDFromString`, `Marshal/UnmarshalJSON`, `Marshal/UnmarshalYAML`
* `protos.go`     `NewProtoFromFeatureID`, `NewFeatureIDFromProto` (+ the enum mapping)
* `ids.go`        `PointIDFromGBPostcode`, `PostcodeFromPointID`, `FeatureIDFromUKONSCode`,
                  `UKONSCodeFromFeatureID`
* `api/shell.go`  the `aliases` table, `idFrom*/idTo*`, `ParseFeatureIDToken`, `UnparseFeatureID`
* `ingest/compact/encoding.go`  `NamespaceTable.FillFromNamespaces/Encode`,
                  `CombineTypeAndNamespace`, `FeatureIDs.Less`

Go strings are byte strings: a `Bytes` is the list of byte values (the driver only ever supplies
values < 256; the theorems hold for every list of naturals).  A `uint64` is a `Nat` with an
explicit `< 2^64` hypothesis where the theorem needs it; the bit operations are `Nat` shifts/and/or on
values that are in range by construction.  `strconv.ParseUint(·,10,64)` and `strconv.Atoi` are
modelled from their documented behaviour (no sign / optional sign, decimal digits only, range error).
Go errors and panics are explicit: `parseToken` returns `none` for the `token[1:]` panic on the empty
token, otherwise the ID and whether `err != nil`.
-/
namespace B6.Model.FeatureID

abbrev Bytes := List Nat

open Lean in
/-- `bytes! "abc"` is the list literal of the UTF-8 bytes of the string literal (expanded at
elaboration time, so that proofs see a plain list of numerals). -/
macro "bytes!" s:str : term => do
  let bs : Array (TSyntax `term) :=
    (s.getString.toUTF8.toList.map (fun b => (Syntax.mkNumLit (toString b.toNat) : TSyntax `term))).toArray
  `(([$bs,*] : List Nat))

/-! ## Feature types -/

inductive FType where
  | point | path | area | relation | invalid | collection | expression
  deriving DecidableEq, Repr, Inhabited

/-- the Go constant (iota order; `FeatureTypeInvalid = FeatureTypeEnd = 4`) -/
def FType.toNat : FType → Nat
  | .point => 0 | .path => 1 | .area => 2 | .relation => 3 | .invalid => 4
  | .collection => 5 | .expression => 6

/-- `FeatureType.String` -/
def FType.name : FType → Bytes
  | .point => bytes! "point" | .path => bytes! "path" | .area => bytes! "area"
  | .relation => bytes! "relation" | .invalid => bytes! "invalid"
  | .collection => bytes! "collection" | .expression => bytes! "expression"

/-- `FeatureTypeFromString`: the loop `for t := Begin; t <= Expression; t++` (it passes through
`invalid`, whose name then also maps to `invalid`). -/
def ftypeFromString (s : Bytes) : FType :=
  if s = FType.name .point then .point
  else if s = FType.name .path then .path
  else if s = FType.name .area then .area
  else if s = FType.name .relation then .relation
  else if s = FType.name .invalid then .invalid
  else if s = FType.name .collection then .collection
  else if s = FType.name .expression then .expression
  else .invalid

/-- `pb.FeatureType` enum number (`NewProtoFromFeatureType`) -/
def FType.toProto : FType → Nat
  | .invalid => 0 | .point => 1 | .path => 2 | .area => 3 | .relation => 4
  | .collection => 5 | .expression => 6

/-- `NewFeatureTypeFromProto`: an unknown enum number names no feature type (`FeatureTypeInvalid`; it used to
panic until fixes/C23-feature-type-from-proto.patch).  The `Option` is kept for the callers' shape: it is
never `none`. -/
def ftypeFromProto : Nat → Option FType
  | 0 => some .invalid | 1 => some .point | 2 => some .path | 3 => some .area
  | 4 => some .relation | 5 => some .collection | 6 => some .expression | _ => some .invalid

/-! ## IDs -/

structure FeatureID where
  type : FType
  ns : Bytes
  value : Nat
  deriving DecidableEq, Repr, Inhabited

def invalidID : FeatureID := ⟨.invalid, [], 0⟩

/-- `FeatureID.IsValid` -/
def FeatureID.isValid (f : FeatureID) : Bool := f.ns ≠ [] && f.type ≠ .invalid

/-! ### decimal printing / parsing -/

/-- little-endian decimal digits; `fuel > n` always suffices -/
def digitsLE : Nat → Nat → List Nat
  | 0, _ => []
  | f + 1, n => (n % 10) :: (if n / 10 = 0 then [] else digitsLE f (n / 10))

/-- `%d` / `strconv.FormatUint(v, 10)` -/
def dec (n : Nat) : Bytes := ((digitsLE (n + 1) n).reverse).map (48 + ·)

def isDigit (c : Nat) : Bool := 48 ≤ c && c ≤ 57

/-- the digit loop of `strconv.ParseUint(s, 10, 64)`: syntax error on a non-digit, range error as
soon as the value leaves 64 bits -/
def parseDigits : Bytes → Nat → Option Nat
  | [], acc => some acc
  | c :: cs, acc =>
    if isDigit c then
      let acc' := acc * 10 + (c - 48)
      if acc' ≥ 2 ^ 64 then none else parseDigits cs acc'
    else none

/-- `strconv.ParseUint(s, 10, 64)`; `none` = `err != nil` -/
def parseUint (s : Bytes) : Option Nat :=
  if s = [] then none else parseDigits s 0

/-- `strconv.Atoi` on a 64-bit platform: optional sign, digits, must fit `int64`. -/
def atoi (s : Bytes) : Option Int :=
  match s with
  | [] => none
  | c :: rest =>
    let neg := c = 45
    let body := if c = 45 ∨ c = 43 then rest else s
    match parseUint body with
    | none => none
    | some u =>
      if neg then (if u > 2 ^ 63 then none else some (-(u : Int)))
      else (if u ≥ 2 ^ 63 then none else some (u : Int))

/-! ### String / FeatureIDFromString -/

/-- `FeatureID.String` : `fmt.Sprintf("%s/%s/%d", type, namespace, value)` -/
def idString (f : FeatureID) : Bytes := f.type.name ++ 47 :: (f.ns ++ 47 :: dec f.value)

/-- `strings.Index(s, "/")` for a single byte -/
def indexOf (c : Nat) : Bytes → Option Nat
  | [] => none
  | x :: xs => if x = c then some 0 else (indexOf c xs).map (· + 1)

/-- `strings.LastIndex(s, "/")` for a single byte -/
def lastIndexOf (c : Nat) (s : Bytes) : Option Nat :=
  (indexOf c s.reverse).map (fun k => s.length - 1 - k)

/-- `if len(s) > 0 && s[0] == '/' { s = s[1:] }` -/
def stripSlash : Bytes → Bytes
  | 47 :: t => t
  | s => s

/-- `FeatureIDFromString` -/
def fromString (s0 : Bytes) : FeatureID :=
  let s := stripSlash s0
  match indexOf 47 s, lastIndexOf 47 s with
  | some i, some j =>
    if i = j then invalidID else
    let t := ftypeFromString (s.take i)
    if t = .invalid then invalidID else
    match parseUint (s.drop (j + 1)) with
    | some v => ⟨t, (s.take j).drop (i + 1), v⟩
    | none => invalidID
  | _, _ => invalidID

/-! ### what the JSON and protobuf libraries do to a Go string

Both formats define a string as Unicode.  `encoding/json` writes every byte that does not start a valid
UTF-8 sequence (`utf8.DecodeRuneInString` = `RuneError`, width 1: stray continuation bytes, overlong forms,
surrogates, truncated sequences, 0xF5–0xFF) as U+FFFD, silently; `proto.Marshal` refuses the message. -/

def isCont (c : Nat) : Bool := 128 ≤ c && c ≤ 191

/-- width of the valid UTF-8 sequence at the head of the bytes, `none` when there is none -/
def utf8Width : Bytes → Option Nat
  | [] => none
  | c0 :: rest =>
    if c0 < 128 then some 1
    else if 194 ≤ c0 && c0 ≤ 223 then
      match rest with
      | c1 :: _ => if isCont c1 then some 2 else none
      | _ => none
    else if 224 ≤ c0 && c0 ≤ 239 then
      match rest with
      | c1 :: c2 :: _ =>
        let r := (c0 - 224) * 4096 + (c1 - 128) * 64 + (c2 - 128)
        if isCont c1 && isCont c2 && 2048 ≤ r && !(55296 ≤ r && r ≤ 57343) then some 3 else none
      | _ => none
    else if 240 ≤ c0 && c0 ≤ 244 then
      match rest with
      | c1 :: c2 :: c3 :: _ =>
        let r := (c0 - 240) * 262144 + (c1 - 128) * 4096 + (c2 - 128) * 64 + (c3 - 128)
        if isCont c1 && isCont c2 && isCont c3 && 65536 ≤ r && r ≤ 1114111 then some 4 else none
      | _ => none
    else none

/-- the string a JSON document carries for a Go string: invalid bytes become U+FFFD (`EF BF BD`) -/
def jsonCarryFuel : Nat → Bytes → Bytes
  | 0, _ => []
  | _ + 1, [] => []
  | fuel + 1, c :: cs =>
    match utf8Width (c :: cs) with
    | some w => (c :: cs).take w ++ jsonCarryFuel fuel ((c :: cs).drop w)
    | none => [239, 191, 189] ++ jsonCarryFuel fuel cs

def jsonCarry (s : Bytes) : Bytes := jsonCarryFuel s.length s

/-- valid UTF-8: what JSON carries unchanged and protobuf accepts in a `string` field -/
def validUTF8 (s : Bytes) : Bool := jsonCarry s == s

/-- the string handed to `json.Marshal` by `MarshalJSON` -/
def jsonString (f : FeatureID) : Bytes := idString f
/-- `UnmarshalJSON` once the library has produced the string -/
def fromJSONString (s : Bytes) : FeatureID := fromString s

/-- the string returned by `MarshalYAML` -/
def yamlString (f : FeatureID) : Bytes := 47 :: idString f
/-- `UnmarshalYAML` once the library has produced the string -/
def fromYAMLString (s : Bytes) : FeatureID :=
  match s with
  | [] => invalidID
  | _ :: t => fromString t

/-- `NewProtoFromFeatureID`: (enum number, namespace, value) -/
def toProto (f : FeatureID) : Nat × Bytes × Nat := (f.type.toProto, f.ns, f.value)
/-- `NewFeatureIDFromProto` of a non-nil message (never `none` since `ftypeFromProto` is total) -/
def fromProto (p : Nat × Bytes × Nat) : Option FeatureID :=
  (ftypeFromProto p.1).map fun t => ⟨t, p.2.1, p.2.2⟩

/-! ### Less -/

/-- Go's `<` on strings: bytewise lexicographic, a proper prefix is smaller -/
def lexLt : Bytes → Bytes → Bool
  | [], [] => false
  | [], _ :: _ => true
  | _ :: _, [] => false
  | a :: as, b :: bs => if a < b then true else if a = b then lexLt as bs else false

/-- `FeatureID.Less` -/
def less (a b : FeatureID) : Bool :=
  if a.type = b.type then
    if a.ns = b.ns then decide (a.value < b.value) else lexLt a.ns b.ns
  else decide (a.type.toNat < b.type.toNat)

/-! ### the compact index's order (ingest/compact/encoding.go) -/

def lexLe (a b : Bytes) : Bool := !lexLt b a

def insertNs (x : Bytes) : List Bytes → List Bytes
  | [] => [x]
  | y :: ys => if lexLe x y then x :: y :: ys else y :: insertNs x ys

/-- `sort.Sort(n.FromEncoded)` (equal strings are indistinguishable, so stability is irrelevant) -/
def sortNs : List Bytes → List Bytes
  | [] => []
  | x :: xs => insertNs x (sortNs xs)

/-- `NamespaceTable.FillFromNamespaces`: `FromEncoded` = sort ("" :: nss) -/
def fillTable (nss : List Bytes) : List Bytes := sortNs ([] :: nss)

/-- the loop `for i, ns := range FromEncoded { ToEncoded[ns] = Namespace(i) }`: the LAST index wins;
`Namespace` is a `uint16` -/
def encodeFrom (ns : Bytes) : List Bytes → Nat → Option Nat → Option Nat
  | [], _, acc => acc
  | x :: xs, i, acc => encodeFrom ns xs (i + 1) (if x = ns then some (i % 65536) else acc)

/-- `NamespaceTable.Encode`; `none` = the `Can't encode` panic -/
def encode (tbl : List Bytes) (ns : Bytes) : Option Nat := encodeFrom ns tbl 0 none

/-- `CombineTypeAndNamespace`: `TypeAndNamespace(t<<13) | TypeAndNamespace(ns)` on `uint16` -/
def combine (t : FType) (ns : Nat) : Nat := ((t.toNat <<< 13) % 65536) ||| (ns % 65536)

/-- the compact order key of an encoded ID -/
def compactKey (tbl : List Bytes) (f : FeatureID) : Option (Nat × Nat) :=
  (encode tbl f.ns).map fun e => (combine f.type e, f.value)

/-- `compact.FeatureIDs.Less` on keys -/
def keyLess (a b : Nat × Nat) : Bool :=
  if a.1 = b.1 then decide (a.2 < b.2) else decide (a.1 < b.1)

/-! ### postcodes and ONS codes (ids.go) -/

def nsOSMNode : Bytes := bytes! "openstreetmap.org/node"
def nsOSMWay : Bytes := bytes! "openstreetmap.org/way"
def nsOSMRelation : Bytes := bytes! "openstreetmap.org/relation"
def nsUKONS : Bytes := bytes! "statistics.gov.uk/datasets/regions"
def nsGBCodePoint : Bytes := bytes! "ordnancesurvey.co.uk/code-point"
def nsGBUPRN : Bytes := bytes! "ordnancesurvey.co.uk/uprn"

/-- `strings.ToUpper` as far as it can matter to `PointIDFromGBPostcode`: ASCII letters, and the two
non-ASCII runes whose upper case is ASCII (U+0131 `ı` → `I`, U+017F `ſ` → `S`); every other byte
≥ 0x80 is left alone (the postcode is then rejected, as in Go). -/
def toUpper : Bytes → Bytes
  | 196 :: 177 :: rest => 73 :: toUpper rest
  | 197 :: 191 :: rest => 83 :: toUpper rest
  | c :: rest => (if 97 ≤ c ∧ c ≤ 122 then c - 32 else c) :: toUpper rest
  | [] => []

/-- `strings.ToLower` on the output alphabet of `PostcodeFromPointID` (digits, `A`–`Z`) -/
def toLower (s : Bytes) : Bytes := s.map fun c => if 65 ≤ c ∧ c ≤ 90 then c + 32 else c

/-- value of one postcode element, `none` → `FeatureIDInvalid` -/
def pcElem (c : Nat) : Option Nat :=
  if 48 ≤ c ∧ c ≤ 57 then some (c - 48)
  else if 65 ≤ c ∧ c ≤ 90 then some (c - 65 + 10)
  else none

/-- the loop of `PointIDFromGBPostcode` (`first` = `i == 0`: no shift before the first element) -/
def pcFold : Bytes → Bool → Nat → Option Nat
  | [], _, id => some id
  | c :: cs, first, id =>
    match pcElem c with
    | none => none
    | some v => pcFold cs false (((if first then id else (id <<< 6) % 2 ^ 64)) ||| v)

/-- `PointIDFromGBPostcode` -/
def pointIDFromGBPostcode (s : Bytes) : FeatureID :=
  let p := toUpper (s.filter (· ≠ 32))
  if p.length < 5 ∨ p.length > 7 then invalidID else
  match pcFold p true 0 with
  | none => invalidID
  | some id => ⟨.point, nsGBCodePoint, ((id <<< 2) % 2 ^ 64) ||| (p.length - 5)⟩

/-- the loop of `PostcodeFromPointID` -/
def pcUnfold : Nat → Nat → Bytes → Option Bytes
  | 0, _, acc => some acc
  | n + 1, v, acc =>
    let e := v &&& 63
    if e < 10 then pcUnfold n (v >>> 6) ((48 + e) :: acc)
    else if e < 36 then pcUnfold n (v >>> 6) ((65 + (e - 10)) :: acc)
    else none

/-- `PostcodeFromPointID`; `none` = `("", false)` -/
def postcodeFromPointID (f : FeatureID) : Option Bytes :=
  if f.ns ≠ nsGBCodePoint then none else
  pcUnfold (5 + (f.value &&& 3)) (f.value >>> 2) []

/-- `FeatureIDFromUKONSCode` -/
def featureIDFromUKONSCode (code : Bytes) (year : Int) (t : FType) : FeatureID :=
  if code.length ≠ 9 then invalidID else
  match code with
  | [] => invalidID
  | letter :: digits =>
    match atoi digits with
    | none => invalidID
    | some n =>
      let codeBits := (letter % 256) <<< 40
      let yearBits := ((year - 1900) % 256).toNat <<< 32
      ⟨t, nsUKONS, codeBits ||| yearBits ||| (n % (2 ^ 64 : Int)).toNat⟩

/-- `string(byte(b))`: the UTF-8 encoding of the rune `b < 256` -/
def runeString (b : Nat) : Bytes := if b < 128 then [b] else [192 ||| (b >>> 6), 128 ||| (b &&& 63)]

/-- `%08d` -/
def pad8 (n : Nat) : Bytes := let d := dec n; List.replicate (8 - d.length) 48 ++ d

/-- `UKONSCodeFromFeatureID`; `none` = not ok -/
def ukONSCodeFromFeatureID (f : FeatureID) : Option (Bytes × Nat) :=
  if f.ns ≠ nsUKONS then none else
  let year := ((f.value >>> 32) &&& 255) + 1900
  let letter := runeString ((f.value >>> 40) &&& 255)
  some (letter ++ pad8 (f.value &&& 4294967295), year)

/-! ### shell aliases (api/shell.go) -/

inductive Codec where
  | uint | ons | codepoint
  deriving DecidableEq, Repr

structure Alias where
  pre : Bytes
  ns : Bytes
  type : FType
  codec : Codec

def aliases : List Alias := [
  ⟨bytes! "/n/", nsOSMNode, .point, .uint⟩,
  ⟨bytes! "/w/", nsOSMWay, .path, .uint⟩,
  ⟨bytes! "/a/", nsOSMWay, .area, .uint⟩,
  ⟨bytes! "/r/", nsOSMRelation, .relation, .uint⟩,
  ⟨bytes! "/uk/ons/", nsUKONS, .area, .ons⟩,
  ⟨bytes! "/gb/codepoint/", nsGBCodePoint, .point, .codepoint⟩,
  ⟨bytes! "/gb/uprn/", nsGBUPRN, .point, .uint⟩]

/-- `strings.Split(s, "/")` -/
def splitSlash : Bytes → List Bytes
  | [] => [[]]
  | c :: cs =>
    if c = 47 then [] :: splitSlash cs
    else match splitSlash cs with
      | [] => [[c]]
      | p :: ps => (c :: p) :: ps

/-- `alias.FromString(&alias, token)` given `rest = token[len(prefix):]`: the ID and `err != nil` -/
def Alias.fromRest (a : Alias) (rest : Bytes) : FeatureID × Bool :=
  match a.codec with
  | .uint =>
    match parseUint rest with
    | some v => (⟨a.type, a.ns, v⟩, false)
    | none => (invalidID, true)
  | .ons =>
    let id := match splitSlash rest with
      | [y, code] =>
        match atoi y with
        | some year => featureIDFromUKONSCode code year a.type
        | none => invalidID
      | _ => invalidID
    (id, !id.isValid)
  | .codepoint => (pointIDFromGBPostcode rest, false)

/-- `alias.ToString(&alias, id)` -/
def Alias.toToken (a : Alias) (f : FeatureID) : Bytes :=
  match a.codec with
  | .uint => a.pre ++ dec f.value
  | .ons =>
    match ukONSCodeFromFeatureID f with
    | some (code, year) => a.pre ++ dec year ++ 47 :: code
    | none => idString invalidID
  | .codepoint => a.pre ++ toLower ((postcodeFromPointID f).getD [])

/-- the alias loop of `ParseFeatureIDToken` -/
def findByPrefix (token : Bytes) : List Alias → Option Alias
  | [] => none
  | a :: as => if a.pre.isPrefixOf token then some a else findByPrefix token as

/-- `ParseFeatureIDToken`: `none` = panic (`token[1:]` of the empty token); else (id, err != nil) -/
def parseToken (token : Bytes) : Option (FeatureID × Bool) :=
  match findByPrefix token aliases with
  | some a => some (a.fromRest (token.drop a.pre.length))
  | none =>
    match token with
    | [] => none
    | _ :: t => let id := fromString t; some (id, !id.isValid)

/-- the alias loop of `UnparseFeatureID` -/
def findByID (f : FeatureID) : List Alias → Option Alias
  | [] => none
  | a :: as => if a.ns = f.ns ∧ (a.type = .invalid ∨ a.type = f.type) then some a else findByID f as

/-- `UnparseFeatureID` as in the unchanged tree: the alias form is used whenever namespace and type
match, whether or not the alias codec can represent the value. -/
def unparseOriginal (f : FeatureID) (abbreviate : Bool) : Bytes :=
  if abbreviate then
    match findByID f aliases with
    | some a => a.toToken f
    | none => 47 :: idString f
  else 47 :: idString f

/-- `UnparseFeatureID` with fixes/C31-unparse-alias-fallback.patch: the alias form is used only when it
parses back to the ID, otherwise the canonical form is printed. -/
def unparse (f : FeatureID) (abbreviate : Bool) : Bytes :=
  if abbreviate then
    match findByID f aliases with
    | some a =>
      let tok := a.toToken f
      if a.fromRest (tok.drop a.pre.length) = (f, false) then tok else 47 :: idString f
    | none => 47 :: idString f
  else 47 :: idString f

end B6.Model.FeatureID
