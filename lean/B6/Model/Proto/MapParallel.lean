import B6.Model.Proto.Basic
/-!
# `map-parallel` (api/functions/map.go, `mapParallelCollection`) as an interleaving transition system

```
Begin():     in[i], out[i] := make(chan expressionPair, 1)  for i < n = context.Cores;  go run()
run():       g, c := errgroup.WithContext(ctx)
  worker i:  for pair := range in[i] { v, err := f(pair.Value)
                                       if err != nil { return err }                          -- first error wins, cancels c
                                       select { case out[i] <- result: case <-c.Done(): return nil } }
             return nil
  dispatcher: for ok && err == nil { ok, err = it.Next()
                 if ok && err == nil { select { case in[write % n] <- item: case <-c.Done(): err = c.Err() }; write++ } }
              for i := range in { close(in[i]) }; return err     -- the source's error, if no goroutine failed before
  m.err = g.Wait()                                  -- step `store`: the field the consumer will read
  for i := range out { close(out[i]) }              -- step `close`: only now can a consumer see a closed out[i]
Next():      read++; if current, ok = <-out[read % n]; ok { return true, nil }; return false, m.err
```
The ORDER of `store` and `close` matters: `Next()` reads `m.err` as soon as it sees its channel closed.  `step`
has the order of the code (store, then close); `stepSwapped` is the protocol with the two statements exchanged
(`err := g.Wait(); close all out; m.err = err`), kept to show what goes wrong (`Props/C25.lean`).
Items are their indices `0 … N-1` (the value of item `k` is `f xs[k]`; `fails k` = `f` fails on it).  Lane `j` is
`in[j]` → worker `j` → `out[j]`, each channel a one-slot buffer.  Leaving the dispatcher's loop and closing all
`in` channels are two steps (`closing`); the closes of all `in`, `g.Wait()` + `m.err = …`, the closes of all `out`,
and an errgroup `return err` are one step each.  Cancellation of the caller's context is outside the model.
-/
namespace B6.Model.Proto.MapParallel
open B6.Model.Proto

structure Cfg where
  n : Nat                -- cores
  N : Nat                -- items the source iterator yields (before it ends or fails)
  fails : Nat → Bool
  /-- does the source iterator end with an ERROR (when asked for item `N`)?  Lazy collections report a failing item
  either as `(false, err)` (`filter` with a failing predicate) or as `(true, err)` (`map`, `map-items`, and whatever
  passes their result on); the dispatcher's loop `for ok && err == nil` stops in both cases, so the model has one
  step for both.  The source's error is written as the index `N` in `gerr` / `merr` / `fin`. -/
  srcFails : Bool := false

inductive Wk where
  | idle                 -- blocked in `range in[i]`
  | busy (k : Nat)       -- about to call f on item k
  | holding (k : Nat)    -- f succeeded; in the select { out[i] <- result | <-c.Done() }
  | failing (k : Nat)    -- f failed; about to `return err`
  | exited
deriving DecidableEq, Repr

structure Lane where
  inq : Option Nat
  wk : Wk
  outq : Option Nat
deriving DecidableEq, Repr

inductive D where
  | running | closing | exited
deriving DecidableEq, Repr

structure St where
  lanes : List Lane
  write : Nat
  disp : D
  inClosed : Bool
  gerr : Option Nat              -- the group's error = the item whose failure was returned first; c is cancelled iff it is set
  merr : Option Nat              -- the field m.err (nil until it is assigned)
  stored : Bool                  -- `m.err = g.Wait()` has been executed
  outClosed : Bool               -- every out[i] is closed
  read : Nat                     -- values the consumer has taken
  out : List Nat                 -- … in order
  fin : Option (Option Nat)      -- the consumer's last Next() returned (false, m.err)
deriving DecidableEq, Repr

def init (c : Cfg) : St :=
  { lanes := List.replicate c.n { inq := none, wk := Wk.idle, outq := none }, write := 0, disp := D.running,
    inClosed := false, gerr := none, merr := none, stored := false, outClosed := false, read := 0, out := [], fin := none }

def allExited (s : St) : Prop := ∀ l ∈ s.lanes, l.wk = Wk.exited
instance (s : St) : Decidable (allExited s) := by unfold allExited; exact inferInstance

def setLane (s : St) (j : Nat) (l : Lane) : St := { s with lanes := s.lanes.set j l }

def dispStep (c : Cfg) (s : St) : List St :=
  match s.disp with
  | .running =>
      if s.write < c.N then
        (match s.lanes[s.write % c.n]? with
          | some l => guard (l.inq = none)
              { s with lanes := s.lanes.set (s.write % c.n) { l with inq := some s.write }, write := s.write + 1 }
          | none => [])
        ++ guard (s.gerr.isSome = true) { s with disp := D.closing }           -- select: `<-c.Done()`
      else [{ s with disp := D.closing }]                                        -- the iterator is exhausted
  | .closing =>
      -- close every in[i]; `return err`: the group keeps it if it is the first error (and cancels)
      [{ s with disp := D.exited, inClosed := true,
                gerr := if s.gerr.isSome then s.gerr else if c.srcFails then some c.N else none }]
  | .exited => []

def workerStep (c : Cfg) (s : St) (j : Nat) (l : Lane) : List St :=
  match l.wk with
  | .idle =>
      (match l.inq with
        | some k => [setLane s j { l with inq := none, wk := Wk.busy k }]
        | none => guard (s.inClosed = true) (setLane s j { l with wk := Wk.exited }))
  | .busy k => [setLane s j { l with wk := if c.fails k then Wk.failing k else Wk.holding k }]
  | .holding k =>
      guard (l.outq = none) (setLane s j { l with wk := Wk.idle, outq := some k })
      ++ guard (s.gerr.isSome = true) (setLane s j { l with wk := Wk.exited })     -- the result is dropped
  | .failing k =>
      [{ s with lanes := s.lanes.set j { l with wk := Wk.exited }, gerr := if s.gerr.isSome then s.gerr else some k }]
  | .exited => []

def consumerStep (c : Cfg) (s : St) : List St :=
  match s.lanes[s.read % c.n]? with
  | some l =>
      (match l.outq with
        | some k => [{ s with lanes := s.lanes.set (s.read % c.n) { l with outq := none }, out := s.out ++ [k], read := s.read + 1 }]
        | none => guard (s.outClosed = true) { s with fin := some s.merr })
  | none => []

def step (c : Cfg) (s : St) : List St :=
  if s.fin.isSome then [] else
    dispStep c s
    ++ guard (s.disp = D.exited ∧ allExited s ∧ s.stored = false) { s with merr := s.gerr, stored := true }   -- m.err = g.Wait()
    ++ guard (s.stored = true ∧ s.outClosed = false) { s with outClosed := true }                               -- close every out[i]
    ++ consumerStep c s
    ++ forWorkers s.lanes (workerStep c s)

def terminal (s : St) : Bool := s.fin.isSome

/-- the steps of one lane's worker together with everybody else's: `t ∈ stepsAt c s j → t ∈ step c s`
(`Lemmas/ProtoMapParallel.lean`); what the driver uses so that a replay costs O(lanes) per step -/
def stepsAt (c : Cfg) (s : St) (j : Nat) : List St :=
  if s.fin.isSome then [] else
    dispStep c s
    ++ guard (s.disp = D.exited ∧ allExited s ∧ s.stored = false) { s with merr := s.gerr, stored := true }
    ++ guard (s.stored = true ∧ s.outClosed = false) { s with outClosed := true }
    ++ consumerStep c s
    ++ (match s.lanes[j]? with
        | some l => workerStep c s j l
        | none => [])

/-- the protocol with `m.err = …` moved after the closes: `err := g.Wait(); close every out[i]; m.err = err` -/
def stepSwapped (c : Cfg) (s : St) : List St :=
  if s.fin.isSome then [] else
    dispStep c s
    ++ guard (s.disp = D.exited ∧ allExited s ∧ s.outClosed = false) { s with outClosed := true }               -- close every out[i]
    ++ guard (s.outClosed = true ∧ s.stored = false) { s with merr := s.gerr, stored := true }                   -- m.err = err
    ++ consumerStep c s
    ++ forWorkers s.lanes (workerStep c s)

end B6.Model.Proto.MapParallel
