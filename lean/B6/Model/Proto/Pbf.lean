import B6.Model.Proto.Basic
/-!
# `osm.ReadPBFWithOptions` as an interleaving transition system (pbf.go)

```
c := make(chan *blob, cores); ctx, cancel := context.WithCancel(…); wg.Add(cores + 1)
reader:    readBlobErr = readBlobs(r, c, ctx)      -- for each blob: select { case c <- b: case <-ctx.Done(): return ctx.Err() }
           for i := 0; i < cores; i++ {
             select { case c <- &blob{Type: blobTypeDone}: case <-ctx.Done(): } }   -- OLD code: plain `c <- done`
           wg.Done()
worker i:  for { select { case <-ctx.Done(): return
                          case b := <-c:
                            if b.Type == OSMData { if err := readOSMDataBlob(b, f, …); err != nil {   -- emit per element, stops at the first error
                                                     readOSMDataErr = err; cancel(); return } }       -- OLD code: no `return`
                            else if b.Type == Done { return } } }
main:      wg.Wait(); cancel(); close(c); if readBlobErr != nil && readBlobErr != context.Canceled { return readBlobErr }
           return readOSMDataErr
```
`Pbf` mirrors the code after `fixes/C28-readpbf-cancel.patch`, `PbfOld` the code before it.  Blob `k` holds `size k`
elements (the header blob every file starts with is a blob of size 0: it travels through the channel and is
ignored); `fails k j` = the callback fails on element `j` of blob `k`.  I/O and decoding errors of `readBlobs` are
outside the model (so `readBlobErr` is nil or `context.Canceled`, and the function returns `readOSMDataErr`).
-/
namespace B6.Model.Proto.Pbf
open B6.Model.Proto

structure Cfg where
  g : Nat
  n : Nat
  size : Nat → Nat
  fails : Nat → Nat → Bool

inductive Msg where
  | data (k : Nat)
  | done
deriving DecidableEq, Repr

inductive W where
  | idle | busy (k j : Nat) | failing | exited
deriving DecidableEq, Repr

/-- the reader goroutine -/
inductive R where
  | reading              -- inside readBlobs
  | sending (j : Nat)    -- j done-blobs offered so far
  | finished             -- wg.Done()
deriving DecidableEq, Repr

structure St where
  next : Nat
  rd : R
  stopped : Bool         -- readBlobs returned through the Done arm
  queue : List Msg
  cancelled : Bool
  ws : List W
  oerr : Bool            -- readOSMDataErr != nil
  ret : Option Bool
  failed : Bool
  calls : Nat
  late : Nat             -- history: data blobs received by a worker after readBlobs saw the cancellation
deriving DecidableEq, Repr

def init (c : Cfg) : St :=
  { next := 0, rd := R.reading, stopped := false, queue := [], cancelled := false, ws := List.replicate c.g W.idle,
    oerr := false, ret := none, failed := false, calls := 0, late := 0 }

def allExited (s : St) : Prop := ∀ w ∈ s.ws, w = W.exited
instance (s : St) : Decidable (allExited s) := by unfold allExited; exact inferInstance

def readerStep (c : Cfg) (s : St) : List St :=
  match s.rd with
  | .reading =>
      if s.next < c.n then
        guard (s.queue.length < c.g) { s with queue := s.queue ++ [Msg.data s.next], next := s.next + 1 }
        ++ guard (s.cancelled = true) { s with rd := R.sending 0, stopped := true }
      else [{ s with rd := R.sending 0 }]                                         -- EOF
  | .sending j =>
      if j < c.g then
        guard (s.queue.length < c.g) { s with queue := s.queue ++ [Msg.done], rd := R.sending (j + 1) }
        ++ guard (s.cancelled = true) { s with rd := R.sending (j + 1) }
      else [{ s with rd := R.finished }]
  | .finished => []

def recv (c : Cfg) (s : St) (i : Nat) : List St :=
  match s.queue with
  | Msg.data k :: q =>
      [{ s with queue := q, ws := s.ws.set i (if c.size k = 0 then W.idle else W.busy k 0),
                late := if s.stopped then s.late + 1 else s.late }]
  | Msg.done :: q => [{ s with queue := q, ws := s.ws.set i W.exited }]
  | [] => []

def workerStep (c : Cfg) (s : St) (i : Nat) : W → List St
  | .idle => guard (s.cancelled = true) { s with ws := s.ws.set i W.exited } ++ recv c s i
  | .busy k j =>
      if c.fails k j then [{ s with ws := s.ws.set i W.failing, failed := true, calls := s.calls + 1 }]
      else if j + 1 < c.size k then [{ s with ws := s.ws.set i (W.busy k (j + 1)), calls := s.calls + 1 }]
      else [{ s with ws := s.ws.set i W.idle, calls := s.calls + 1 }]
  | .failing => [{ s with ws := s.ws.set i W.exited, oerr := true, cancelled := true }]
  | .exited => []

def step (c : Cfg) (s : St) : List St :=
  if s.ret.isSome then [] else
    readerStep c s
    ++ guard (s.rd = R.finished ∧ allExited s) { s with ret := some s.oerr }     -- wg.Wait(); …; return readOSMDataErr
    ++ forWorkers s.ws (workerStep c s)

def terminal (s : St) : Bool := s.ret.isSome

end B6.Model.Proto.Pbf

/-! ## The protocol before the fix -/
namespace B6.Model.Proto.PbfOld
open B6.Model.Proto

structure Cfg where
  g : Nat
  n : Nat
  size : Nat → Nat
  fails : Nat → Nat → Bool

inductive Msg where
  | data (k : Nat) | done
deriving DecidableEq, Repr

inductive W where
  | idle | busy (k j : Nat) | failing | exited
deriving DecidableEq, Repr

inductive R where
  | reading | sending (j : Nat) | finished
deriving DecidableEq, Repr

structure St where
  next : Nat
  rd : R
  queue : List Msg
  cancelled : Bool
  ws : List W
  oerr : Bool
  ret : Option Bool
  failed : Bool
  calls : Nat
deriving DecidableEq, Repr

def init (c : Cfg) : St :=
  { next := 0, rd := R.reading, queue := [], cancelled := false, ws := List.replicate c.g W.idle,
    oerr := false, ret := none, failed := false, calls := 0 }

def allExited (s : St) : Prop := ∀ w ∈ s.ws, w = W.exited
instance (s : St) : Decidable (allExited s) := by unfold allExited; exact inferInstance

def readerStep (c : Cfg) (s : St) : List St :=
  match s.rd with
  | .reading =>
      if s.next < c.n then
        guard (s.queue.length < c.g) { s with queue := s.queue ++ [Msg.data s.next], next := s.next + 1 }
        ++ guard (s.cancelled = true) { s with rd := R.sending 0 }
      else [{ s with rd := R.sending 0 }]
  | .sending j =>
      if j < c.g then
        guard (s.queue.length < c.g) { s with queue := s.queue ++ [Msg.done], rd := R.sending (j + 1) }   -- plain `c <- done`
      else [{ s with rd := R.finished }]
  | .finished => []

def recv (c : Cfg) (s : St) (i : Nat) : List St :=
  match s.queue with
  | Msg.data k :: q => [{ s with queue := q, ws := s.ws.set i (if c.size k = 0 then W.idle else W.busy k 0) }]
  | Msg.done :: q => [{ s with queue := q, ws := s.ws.set i W.exited }]
  | [] => []

def workerStep (c : Cfg) (s : St) (i : Nat) : W → List St
  | .idle => guard (s.cancelled = true) { s with ws := s.ws.set i W.exited } ++ recv c s i
  | .busy k j =>
      if c.fails k j then [{ s with ws := s.ws.set i W.failing, failed := true, calls := s.calls + 1 }]
      else if j + 1 < c.size k then [{ s with ws := s.ws.set i (W.busy k (j + 1)), calls := s.calls + 1 }]
      else [{ s with ws := s.ws.set i W.idle, calls := s.calls + 1 }]
  | .failing => [{ s with ws := s.ws.set i W.idle, oerr := true, cancelled := true }]   -- no `return`: back to the select
  | .exited => []

def step (c : Cfg) (s : St) : List St :=
  if s.ret.isSome then [] else
    readerStep c s
    ++ guard (s.rd = R.finished ∧ allExited s) { s with ret := some s.oerr }
    ++ forWorkers s.ws (workerStep c s)

def terminal (s : St) : Bool := s.ret.isSome

end B6.Model.Proto.PbfOld
