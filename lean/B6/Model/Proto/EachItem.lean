import B6.Model.Proto.Basic
/-!
# `encoding.Uint64Map.EachItem` as an interleaving transition system (uint64map.go)

```
feeder (the caller):  feed: for bucket := 0; bucket < B; bucket++ {
                        select { case buckets <- bucket:          -- unbuffered: rendezvous with a worker in `range buckets`
                                 case <-cancel: break feed } }    -- OLD code: plain `break`, which only leaves the select
                      close(buckets); wg.Wait(); return cause
worker i:             for bucket := range buckets {
                        for each distinct id j of the bucket, ascending { err = f(id, tags, i); stop at the first error }
                        if err != nil { break } }                 -- OLD code: see `EachItemOld` below
                      if err != nil { lock; cause = err; cancel <- {}; unlock }   -- cancel has capacity g: never blocks
                      wg.Done()
```
`EachItem` mirrors the code after `fixes/C28-eachitem-cancel.patch`, `EachItemOld` the code before it.
`size k` = number of distinct ids in bucket `k` (one callback each), `fails k j` = the callback fails on the
`j`-th id of bucket `k`.  History variables (not read by the protocol): `failed`, `calls`, `after`.
-/
namespace B6.Model.Proto.EachItem
open B6.Model.Proto

structure Cfg where
  g : Nat
  n : Nat
  size : Nat → Nat
  fails : Nat → Nat → Bool

inductive W where
  | idle                 -- blocked in `range buckets`
  | busy (k j : Nat)     -- about to call f on the j-th id of bucket k
  | failing              -- f returned an error; about to record it, send the cancel token and leave
  | exited
deriving DecidableEq, Repr

structure St where
  next : Nat             -- the feeder's loop variable
  stopped : Bool         -- the feeder left the loop through `break feed`
  closed : Bool          -- close(buckets) done
  ws : List W
  tokens : Nat           -- items in `cancel`
  cause : Bool           -- `cause != nil`
  ret : Option Bool      -- EachItem returned (some true = an error)
  failed : Bool          -- history: some callback returned an error
  calls : Nat            -- history: callbacks started
  after : Nat            -- history: callbacks started after the first failing callback had returned
deriving DecidableEq, Repr

def init (c : Cfg) : St :=
  { next := 0, stopped := false, closed := false, ws := List.replicate c.g W.idle, tokens := 0,
    cause := false, ret := none, failed := false, calls := 0, after := 0 }

def inLoop (c : Cfg) (s : St) : Prop := s.closed = false ∧ s.stopped = false ∧ s.next < c.n
instance (c : Cfg) (s : St) : Decidable (inLoop c s) := by unfold inLoop; exact inferInstance

def allExited (s : St) : Prop := ∀ w ∈ s.ws, w = W.exited
instance (s : St) : Decidable (allExited s) := by unfold allExited; exact inferInstance

/-- worker `i` receives bucket `s.next` (an empty bucket leaves it in `range buckets`) -/
def hand (c : Cfg) (s : St) (i : Nat) : St :=
  { s with next := s.next + 1, ws := s.ws.set i (if c.size s.next = 0 then W.idle else W.busy s.next 0) }

def workerStep (c : Cfg) (s : St) (i : Nat) : W → List St
  | .idle => guard (s.closed = true) { s with ws := s.ws.set i W.exited }
  | .busy k j =>
      if c.fails k j then [{ s with ws := s.ws.set i W.failing, failed := true, calls := s.calls + 1, after := if s.failed then s.after + 1 else s.after }]
      else if j + 1 < c.size k then [{ s with ws := s.ws.set i (W.busy k (j + 1)), calls := s.calls + 1, after := if s.failed then s.after + 1 else s.after }]
      else [{ s with ws := s.ws.set i W.idle, calls := s.calls + 1, after := if s.failed then s.after + 1 else s.after }]
  | .failing => [{ s with ws := s.ws.set i W.exited, cause := true, tokens := s.tokens + 1 }]
  | .exited => []

/-- all enabled successors -/
def step (c : Cfg) (s : St) : List St :=
  if s.ret.isSome then [] else
    forWorkers s.ws (fun i w => guard (inLoop c s ∧ w = W.idle) (hand c s i))                    -- select: send arm
    ++ guard (inLoop c s ∧ 0 < s.tokens) { s with tokens := s.tokens - 1, stopped := true }       -- select: `<-cancel: break feed`
    ++ guard (s.closed = false ∧ ¬ inLoop c s) { s with closed := true }                          -- close(buckets)
    ++ guard (s.closed = true ∧ allExited s) { s with ret := some s.cause }                       -- wg.Wait(); return cause
    ++ forWorkers s.ws (workerStep c s)

def terminal (s : St) : Bool := s.ret.isSome

end B6.Model.Proto.EachItem

/-! ## The protocol before the fix -/
namespace B6.Model.Proto.EachItemOld
open B6.Model.Proto

structure Cfg where
  g : Nat
  n : Nat
  size : Nat → Nat
  fails : Nat → Nat → Bool
  /-- does the callback fail again when it is called a second time for the same id? -/
  refails : Nat → Nat → Bool

inductive W where
  | idle
  | busy (k j : Nat)
  | trailing (k j : Nat)   -- the inner loop was left by `break` at id j; about to run the trailing `f(ids[start], …)` — on id j again
  | failing
  | exited
deriving DecidableEq, Repr

structure St where
  next : Nat
  closed : Bool
  ws : List W
  tokens : Nat
  cause : Bool
  ret : Option Bool
  failed : Bool
  calls : Nat
deriving DecidableEq, Repr

def init (c : Cfg) : St :=
  { next := 0, closed := false, ws := List.replicate c.g W.idle, tokens := 0,
    cause := false, ret := none, failed := false, calls := 0 }

def inLoop (c : Cfg) (s : St) : Prop := s.closed = false ∧ s.next < c.n
instance (c : Cfg) (s : St) : Decidable (inLoop c s) := by unfold inLoop; exact inferInstance

def allExited (s : St) : Prop := ∀ w ∈ s.ws, w = W.exited
instance (s : St) : Decidable (allExited s) := by unfold allExited; exact inferInstance

def hand (c : Cfg) (s : St) (i : Nat) : St :=
  { s with next := s.next + 1, ws := s.ws.set i (if c.size s.next = 0 then W.idle else W.busy s.next 0) }

def workerStep (c : Cfg) (s : St) (i : Nat) : W → List St
  | .idle => guard (s.closed = true) { s with ws := s.ws.set i W.exited }
  | .busy k j =>
      if j + 1 < c.size k then
        -- a call inside `for i := 1; …`: an error only leaves that inner loop
        if c.fails k j then [{ s with ws := s.ws.set i (W.trailing k j), failed := true, calls := s.calls + 1 }]
        else [{ s with ws := s.ws.set i (W.busy k (j + 1)), calls := s.calls + 1 }]
      else
        -- the trailing call for the last id
        if c.fails k j then [{ s with ws := s.ws.set i W.failing, failed := true, calls := s.calls + 1 }]
        else [{ s with ws := s.ws.set i W.idle, calls := s.calls + 1 }]
  | .trailing k j =>
      -- `err = f(ids[start], tags[start:], …)` with start still at the failing id: err is overwritten
      if c.refails k j then [{ s with ws := s.ws.set i W.failing, calls := s.calls + 1 }]
      else [{ s with ws := s.ws.set i W.idle, calls := s.calls + 1 }]
  | .failing => [{ s with ws := s.ws.set i W.exited, cause := true, tokens := s.tokens + 1 }]
  | .exited => []

def step (c : Cfg) (s : St) : List St :=
  if s.ret.isSome then [] else
    forWorkers s.ws (fun i w => guard (inLoop c s ∧ w = W.idle) (hand c s i))
    ++ guard (inLoop c s ∧ 0 < s.tokens) { s with tokens := s.tokens - 1, next := s.next + 1 }   -- `break` leaves the select only
    ++ guard (s.closed = false ∧ ¬ inLoop c s) { s with closed := true }
    ++ guard (s.closed = true ∧ allExited s) { s with ret := some s.cause }
    ++ forWorkers s.ws (workerStep c s)

def terminal (s : St) : Bool := s.ret.isSome

end B6.Model.Proto.EachItemOld
