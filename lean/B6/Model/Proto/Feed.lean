import B6.Model.Proto.Basic
/-!
# Producer → buffered channel → `g` callback goroutines, cancelled through a context

One model for three functions that have the same shape (features.go, mutable.go):

```
MemoryFeatureSource.Read (after fixes/C28-memoryfeaturesource-read-cancel.patch)      watch = true
  c := make(chan Feature, cores); ctx, cancel := context.WithCancel(ctx)
  feed i:    for { select { case <-ctx.Done(): return
                            case f, ok := <-c: if !ok { return }
                                               if err := emit(f, i); err != nil { cause = err; cancel(); return } } }
  producer:  produce: for _, f := range m { select { case c <- f: case <-ctx.Done(): break produce } }
             close(c); wg.Wait(); return cause

eachIngestFeature / ModifiedTags.EachModifiedTag (unchanged code)                      watch = false
  c := make(chan T, goroutines); g, gc := errgroup.WithContext(…)
  worker i:  for x := range c { if err := each(x, i); err != nil { return err } }; return nil
             -- errgroup: the first non-nil error is kept (`cause`) and cancels gc (`cancelled`)
  producer:  for … { select { case <-gc.Done(): break/return   case c <- x: } }
             close(c); return g.Wait()
```
`watch` says whether an idle worker also selects on the context.  Items are `0 … n-1` in the order the producer
sends them; `fails k` = the callback fails on item `k`.  `FeedOld` is `MemoryFeatureSource.Read` before the fix.
History variables: `failed`, `calls`, `late` (items received by a worker after the producer saw the cancellation).
With `ext = true` the environment may cancel the context at any step (the caller's `ctx` of `Read`).
-/
namespace B6.Model.Proto.Feed
open B6.Model.Proto

structure Cfg where
  g : Nat                -- goroutines = capacity of the channel
  n : Nat
  fails : Nat → Bool
  watch : Bool
  /-- may the environment cancel the caller's context (at any step)?  `MemoryFeatureSource.Read` derives its context
  from one the caller passes in; the errgroup functions use `context.Background()`. -/
  ext : Bool := false

inductive W where
  | idle                 -- blocked in the receive / select
  | busy (k : Nat)       -- about to call the callback on item k
  | failing              -- the callback returned an error; about to record it, cancel and return
  | exited
deriving DecidableEq, Repr

structure St where
  next : Nat
  stopped : Bool         -- the producer left its loop through the Done arm
  closed : Bool
  queue : List Nat
  cancelled : Bool
  ws : List W
  cause : Bool
  ret : Option Bool
  failed : Bool
  calls : Nat
  late : Nat
deriving DecidableEq, Repr

def init (c : Cfg) : St :=
  { next := 0, stopped := false, closed := false, queue := [], cancelled := false,
    ws := List.replicate c.g W.idle, cause := false, ret := none, failed := false, calls := 0, late := 0 }

def inLoop (c : Cfg) (s : St) : Prop := s.closed = false ∧ s.stopped = false ∧ s.next < c.n
instance (c : Cfg) (s : St) : Decidable (inLoop c s) := by unfold inLoop; exact inferInstance

def allExited (s : St) : Prop := ∀ w ∈ s.ws, w = W.exited
instance (s : St) : Decidable (allExited s) := by unfold allExited; exact inferInstance

/-- worker `i` takes the head of the channel -/
def recv (s : St) (i : Nat) : List St :=
  match s.queue with
  | k :: q => [{ s with queue := q, ws := s.ws.set i (W.busy k), late := if s.stopped then s.late + 1 else s.late }]
  | [] => guard (s.closed = true) { s with ws := s.ws.set i W.exited }      -- closed and drained

def workerStep (c : Cfg) (s : St) (i : Nat) : W → List St
  | .idle => guard (c.watch = true ∧ s.cancelled = true) { s with ws := s.ws.set i W.exited } ++ recv s i
  | .busy k =>
      if c.fails k then [{ s with ws := s.ws.set i W.failing, failed := true, calls := s.calls + 1 }]
      else [{ s with ws := s.ws.set i W.idle, calls := s.calls + 1 }]
  | .failing => [{ s with ws := s.ws.set i W.exited, cause := true, cancelled := true }]
  | .exited => []

def step (c : Cfg) (s : St) : List St :=
  if s.ret.isSome then [] else
    guard (inLoop c s ∧ s.queue.length < c.g) { s with queue := s.queue ++ [s.next], next := s.next + 1 }   -- select: send arm
    ++ guard (inLoop c s ∧ s.cancelled = true) { s with stopped := true }                                    -- select: Done arm
    ++ guard (s.closed = false ∧ ¬ inLoop c s) { s with closed := true }
    ++ guard (s.closed = true ∧ allExited s) { s with ret := some s.cause }
    ++ guard (c.ext = true ∧ s.cancelled = false) { s with cancelled := true }                               -- environment: the caller cancels
    ++ forWorkers s.ws (workerStep c s)

def terminal (s : St) : Bool := s.ret.isSome

end B6.Model.Proto.Feed

/-! ## `MemoryFeatureSource.Read` before the fix: the producer sends without looking at the context, and a
goroutine whose callback failed keeps reading -/
namespace B6.Model.Proto.FeedOld
open B6.Model.Proto

structure Cfg where
  g : Nat
  n : Nat
  fails : Nat → Bool

inductive W where
  | idle | busy (k : Nat) | failing | exited
deriving DecidableEq, Repr

structure St where
  next : Nat
  closed : Bool
  queue : List Nat
  cancelled : Bool
  ws : List W
  cause : Bool
  ret : Option Bool
  failed : Bool
  calls : Nat
deriving DecidableEq, Repr

def init (c : Cfg) : St :=
  { next := 0, closed := false, queue := [], cancelled := false,
    ws := List.replicate c.g W.idle, cause := false, ret := none, failed := false, calls := 0 }

def inLoop (c : Cfg) (s : St) : Prop := s.closed = false ∧ s.next < c.n
instance (c : Cfg) (s : St) : Decidable (inLoop c s) := by unfold inLoop; exact inferInstance

def allExited (s : St) : Prop := ∀ w ∈ s.ws, w = W.exited
instance (s : St) : Decidable (allExited s) := by unfold allExited; exact inferInstance

def recv (s : St) (i : Nat) : List St :=
  match s.queue with
  | k :: q => [{ s with queue := q, ws := s.ws.set i (W.busy k) }]
  | [] => guard (s.closed = true) { s with ws := s.ws.set i W.exited }

def workerStep (c : Cfg) (s : St) (i : Nat) : W → List St
  | .idle => guard (s.cancelled = true) { s with ws := s.ws.set i W.exited } ++ recv s i
  | .busy k =>
      if c.fails k then [{ s with ws := s.ws.set i W.failing, failed := true, calls := s.calls + 1 }]
      else [{ s with ws := s.ws.set i W.idle, calls := s.calls + 1 }]
  | .failing => [{ s with ws := s.ws.set i W.idle, cause := true, cancelled := true }]   -- no `return`: back to the select
  | .exited => []

def step (c : Cfg) (s : St) : List St :=
  if s.ret.isSome then [] else
    guard (inLoop c s ∧ s.queue.length < c.g) { s with queue := s.queue ++ [s.next], next := s.next + 1 }   -- plain `c <- f`
    ++ guard (s.closed = false ∧ ¬ inLoop c s) { s with closed := true }
    ++ guard (s.closed = true ∧ allExited s) { s with ret := some s.cause }
    ++ forWorkers s.ws (workerStep c s)

def terminal (s : St) : Bool := s.ret.isSome

end B6.Model.Proto.FeedOld
