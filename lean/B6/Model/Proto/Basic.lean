/-!
# L8 — interleaving transition systems (shared by the protocol models of C28 and C25)

A protocol model is a state type with `step : σ → List σ` (ALL enabled successors of a state: one entry per
enabled process step; an unbuffered send is a rendezvous with a receiver blocked in receive, a buffered
channel a bounded queue, `select` the union of its enabled arms) and a `terminal` predicate.  Granularity:
one channel operation / callback / lock region = one atomic step (the modelling assumption of DESIGN §3/§8).

`Reachable` is the reflexive-transitive closure of `step` from the initial state; positive results are
invariants over `Reachable` (induction over steps, `Reachable.invariant`), negative ones an explicit
schedule (`runSched`: a list of indices into the successor lists) checked by `decide`.
-/
namespace B6.Model.Proto

/-- states reachable from `init` by `step` (reflexive-transitive closure) -/
inductive Reachable {σ : Type} (step : σ → List σ) (init : σ) : σ → Prop
  | refl : Reachable step init init
  | tail {s s' : σ} : Reachable step init s → s' ∈ step s → Reachable step init s'

/-- induction principle: a predicate that holds initially and is preserved by every step holds in every
reachable state -/
theorem Reachable.invariant {σ : Type} {step : σ → List σ} {init : σ} (P : σ → Prop)
    (h0 : P init) (hs : ∀ s s', P s → s' ∈ step s → P s') : ∀ s, Reachable step init s → P s := by
  intro s h
  induction h with
  | refl => exact h0
  | tail _ hm ih => exact hs _ _ ih hm

/-- the same with the reachability of the pre-state available (to use earlier invariants) -/
theorem Reachable.invariant' {σ : Type} {step : σ → List σ} {init : σ} (P : σ → Prop)
    (h0 : P init) (hs : ∀ s s', Reachable step init s → P s → s' ∈ step s → P s') :
    ∀ s, Reachable step init s → P s := by
  intro s h
  induction h with
  | refl => exact h0
  | tail hr hm ih => exact hs _ _ hr ih hm

/-- follow a schedule: the `c`-th enabled successor at every step -/
def runSched {σ : Type} (step : σ → List σ) : σ → List Nat → Option σ
  | s, [] => some s
  | s, c :: cs => match (step s)[c]? with
    | some s' => runSched step s' cs
    | none => none

theorem Reachable.of_runSched {σ : Type} {step : σ → List σ} {init : σ} :
    ∀ (sched : List Nat) (s s' : σ), Reachable step init s → runSched step s sched = some s' →
      Reachable step init s' := by
  intro sched
  induction sched with
  | nil => intro s s' hr h; simp [runSched] at h; exact h ▸ hr
  | cons c cs ih =>
    intro s s' hr h
    simp only [runSched] at h
    split at h
    · next s1 hs1 => exact ih s1 s' (Reachable.tail hr (List.mem_of_getElem? hs1)) h
    · exact absurd h (by simp)

/-- no step is enabled although the run is not over -/
def deadlocked {σ : Type} (step : σ → List σ) (terminal : σ → Bool) (s : σ) : Bool :=
  (step s).isEmpty && !terminal s

/-- all successors produced by the workers: `f i w` lists the steps worker `i` can take in state `w` -/
def forWorkers {ω σ : Type} (ws : List ω) (f : Nat → ω → List σ) : List σ :=
  (List.range ws.length).flatMap fun i => match ws[i]? with
    | some w => f i w
    | none => []

theorem mem_forWorkers {ω σ : Type} {ws : List ω} {f : Nat → ω → List σ} {s' : σ} :
    s' ∈ forWorkers ws f ↔ ∃ i w, ws[i]? = some w ∧ s' ∈ f i w := by
  simp only [forWorkers, List.mem_flatMap, List.mem_range]
  constructor
  · rintro ⟨i, _, h⟩
    split at h
    · next w hw => exact ⟨i, w, hw, h⟩
    · simp at h
  · rintro ⟨i, w, hw, h⟩
    refine ⟨i, ?_, ?_⟩
    · exact (List.getElem?_eq_some_iff.mp hw).1
    · simp [hw, h]

/-- a step that is enabled iff `p` holds -/
def guard {σ : Type} (p : Prop) [Decidable p] (x : σ) : List σ := if p then [x] else []

@[simp] theorem mem_guard {σ : Type} {p : Prop} [Decidable p] {x y : σ} : y ∈ guard p x ↔ p ∧ y = x := by
  unfold guard; split <;> simp_all

/-! ### worker lists: `ws.set i w` -/

theorem getElem?_set_some {α : Type} {l : List α} {i j : Nat} {x y : α} (h : (l.set i x)[j]? = some y) :
    (j = i ∧ y = x) ∨ (j ≠ i ∧ l[j]? = some y) := by
  rw [List.getElem?_set] at h
  by_cases hij : i = j
  · subst hij
    simp only [↓reduceIte] at h
    split at h
    · left; exact ⟨rfl, by simpa using h.symm⟩
    · simp at h
  · right; simp only [hij, ↓reduceIte] at h; exact ⟨fun e => hij e.symm, h⟩

theorem getElem?_set_self' {α : Type} {l : List α} {i : Nat} {w x : α} (h : l[i]? = some w) :
    (l.set i x)[i]? = some x :=
  List.getElem?_set_self (List.getElem?_eq_some_iff.mp h).1

theorem mem_set_cases {α : Type} {l : List α} {i : Nat} {x y : α} (h : y ∈ l.set i x) : y = x ∨ y ∈ l := by
  rcases List.mem_iff_getElem?.mp h with ⟨j, hj⟩
  rcases getElem?_set_some hj with ⟨_, e⟩ | ⟨_, e⟩
  · exact Or.inl e
  · exact Or.inr (List.mem_of_getElem? e)

/-- every element of `ws.set i x` other than `x` was already there, at an index other than `i` -/
theorem mem_set_other {α : Type} {l : List α} {i : Nat} {x y : α} (h : y ∈ l.set i x) :
    y = x ∨ ∃ j, j ≠ i ∧ l[j]? = some y := by
  rcases List.mem_iff_getElem?.mp h with ⟨j, hj⟩
  rcases getElem?_set_some hj with ⟨_, e⟩ | ⟨n, e⟩
  · exact Or.inl e
  · exact Or.inr ⟨j, n, e⟩

/-- counting over a worker list after one worker moved from `w` to `x` (no truncated subtraction) -/
theorem countP_set_of_getElem? {α : Type} {p : α → Bool} {l : List α} {i : Nat} {w x : α} (h : l[i]? = some w) :
    (l.set i x).countP p + (if p w = true then 1 else 0) = l.countP p + (if p x = true then 1 else 0) := by
  obtain ⟨hi, e⟩ := List.getElem?_eq_some_iff.mp h
  rw [List.countP_set hi, e]
  by_cases hp : p w = true
  · have : 0 < l.countP p := List.countP_pos_iff.mpr ⟨w, List.mem_of_getElem? h, hp⟩
    simp only [hp, ↓reduceIte]; omega
  · simp only [hp]; simp

end B6.Model.Proto
