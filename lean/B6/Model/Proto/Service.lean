import B6.Model.Proto.Basic
/-!
# Lock-protocol model of the b6 gRPC service — C40

Anchors: `grpc/service.go` (`service.Evaluate`, `ListWorlds`, `DeleteWorld`), `ingest/worlds.go`
(`MutableWorlds`), `api/evaluator.go` (same upgrade sequence).

    func (s *service) Evaluate(...) {
        s.lock.RLock(); defer s.lock.RUnlock()                    -- rlock … finalRUnlock
        w := s.worlds.FindOrCreateWorld(root)                      -- find   (under MutableWorlds.lock)
        v, err := api.Evaluate(simplified, &context)               -- eval   (reads w; computes the change)
        if change, ok := v.(ingest.Change); ok {
            s.lock.RUnlock(); s.lock.Lock()                        -- upRUnlock, wlock
            v, err = apply(change)                                 -- apply  (writes w)
            s.lock.Unlock(); s.lock.RLock()                        -- wunlock, rlock2
        } … }

* Clients: one request each — `query wid` (evaluate, non-change value), `change wid rules` (evaluate to a
  change), `delete wid`, `list`.
* A world is a spec map `key ↦ value` (a key stands for one (feature, tag key) pair).  A change-producing
  expression is a list of rules `guard → write`: the guard is evaluated on the world **as read under the
  read lock**, the resulting writes are applied **later under the write lock** — this is the upgrade gap.
* `MutableWorlds` is a heap of world objects plus a map world-ID ↦ object; `FindOrCreateWorld`, `DeleteWorld`
  and `ListWorlds` are atomic steps here (their bodies run under `MutableWorlds.lock` and contain no blocking
  operation; the mutex itself is the model `B6.Model.Proto.Worlds`).  A deleted world object stays in the
  heap (an evaluate that fetched it earlier still writes to it — the orphan).
* `sync.RWMutex`: `RLock` needs no writer holding; with `pref = true` it is also refused while a writer waits
  (Go's writer preference); `Lock` needs no holder at all.  Every theorem is for both values of `pref`.
* Ghost state (never read by a real transition): `log` — the requests in the order in which they take effect,
  `logged` per client.  A `query` is logged at `find`; a `change` at `apply`, or — if its world object is
  deleted first — just before that `delete` (its writes can no longer be seen); `delete`/`list` at their step.
-/
namespace B6.Model.Proto.Service

abbrev Key := Nat
abbrev Val := Nat
/-- a world: spec map (association list; first match wins) -/
abbrev World := List (Key × Val)

def wget (w : World) (k : Key) : Option Val :=
  match w with
  | [] => none
  | (k', v) :: rest => if k' = k then some v else wget rest k

def wset (w : World) (k : Key) (v : Val) : World :=
  match w with
  | [] => [(k, v)]
  | (k', v') :: rest => if k' = k then (k, v) :: rest else (k', v') :: wset rest k v

def wdel (w : World) (k : Key) : World := w.filter (fun p => p.1 != k)

inductive Write where
  | set (k : Key) (v : Val)
  | del (k : Key)
  | fail (k : Key)      -- an element that fails when applied (add-tag on a missing feature `k`, an invalid feature)
  deriving DecidableEq, Repr, Hashable

def Write.key : Write → Key
  | .set k _ => k
  | .del k => k
  | .fail k => k

def Write.isFail : Write → Bool
  | .fail _ => true
  | _ => false

/-- `guard = some (k, true)`: only if `k` is present in the world read; `some (k, false)`: only if absent. -/
structure Rule where
  guard : Option (Key × Bool)
  write : Write
  deriving DecidableEq, Repr, Hashable

def guardHolds (w : World) : Option (Key × Bool) → Bool
  | none => true
  | some (k, present) => (wget w k).isSome == present

/-- evaluating the expression on the world read: the change (a list of writes) -/
def evalRules (w : World) (rs : List Rule) : List Write :=
  match rs with
  | [] => []
  | r :: rest => if guardHolds w r.guard then r.write :: evalRules w rest else evalRules w rest

def applyWrite (w : World) : Write → World
  | .set k v => wset w k v
  | .del k => wdel w k
  | .fail _ => w

/-- `Change.Apply`: the elements in order, stopping at the first one that fails (what was applied stays) -/
def applyWrites (w : World) : List Write → World
  | [] => w
  | .fail _ :: _ => w
  | wr :: rest => applyWrites (applyWrite w wr) rest

/-- `Apply` returns an error -/
def applyFails (ws : List Write) : Bool := ws.any Write.isFail

inductive Req where
  | query (wid : Nat)
  | change (wid : Nat) (rules : List Rule)
  | delete (wid : Nat)
  | list
  deriving DecidableEq, Repr, Hashable

/-! ## The reference: requests one at a time -/

/-- world ID ↦ world -/
abbrev View := List (Nat × World)

def vfind (v : View) (wid : Nat) : Option World :=
  match v with
  | [] => none
  | (i, w) :: rest => if i = wid then some w else vfind rest wid

def vset (v : View) (wid : Nat) (w : World) : View :=
  match v with
  | [] => [(wid, w)]
  | (i, w') :: rest => if i = wid then (wid, w) :: rest else (i, w') :: vset rest wid w

def verase (v : View) (wid : Nat) : View := v.filter (fun p => p.1 != wid)

/-- one request executed alone; `base` is the content of a freshly created world -/
def serialStep (base : World) (v : View) : Req → View
  | .query wid => match vfind v wid with
    | some _ => v
    | none => vset v wid base
  | .change wid rs => match vfind v wid with
    | some w => vset v wid (applyWrites w (evalRules w rs))
    | none => vset v wid (applyWrites base (evalRules base rs))
  | .delete wid => verase v wid
  | .list => v

def serialRun (base : World) (v : View) (rs : List Req) : View := rs.foldl (serialStep base) v

/-- what a request answers (as far as the tie observes it) -/
inductive Resp where
  | nothing                   -- delete-world
  | err                       -- the change failed while being applied
  | ids (fs : List Nat)       -- the features the applied change modified (key / 8), in order
  | count (n : Nat)           -- a query: how many keys the world has
  | worlds (ws : List Nat)    -- list-worlds ([] = only the default world is reported)
  deriving DecidableEq, Repr

/-- the answer of a request executed alone on view `v` -/
def respOf (base : World) (v : View) : Req → Resp
  | .query wid => .count (match vfind v wid with | some w => w.length | none => base.length)
  | .change wid rs =>
    let w := match vfind v wid with | some w => w | none => base
    let ws := evalRules w rs
    if applyFails ws then .err else .ids (ws.map (fun x => x.key / 8))
  | .delete _ => .nothing
  | .list => .worlds (v.map (·.1))

/-- requests one at a time, with their answers -/
def serialRunResp (base : World) (v : View) : List Req → View × List Resp
  | [] => (v, [])
  | r :: rest =>
    let out := serialRunResp base (serialStep base v r) rest
    (out.1, respOf base v r :: out.2)

/-! ## The concurrent system -/

inductive Pc where
  | rlock | find | eval | upRUnlock | wlock | apply | wunlock | rlock2 | finalRUnlock
  | mapop   -- delete / list: the one step under `MutableWorlds.lock`
  | done
  deriving DecidableEq, Repr, Hashable

structure Client where
  req : Req
  pc : Pc
  obj : Option Nat := none       -- the world object `FindOrCreateWorld` returned
  change : List Write := []      -- the change computed under the read lock
  logged : Bool := false         -- ghost
  deriving DecidableEq, Repr, Hashable

structure State where
  base : World
  readers : Nat
  writer : Bool
  heap : List World
  map : List (Nat × Nat)         -- world ID ↦ heap index
  clients : List Client
  log : List Req                 -- ghost
  deriving DecidableEq, Repr, Hashable

def mfind (m : List (Nat × Nat)) (wid : Nat) : Option Nat :=
  match m with
  | [] => none
  | (i, o) :: rest => if i = wid then some o else mfind rest wid

def merase (m : List (Nat × Nat)) (wid : Nat) : List (Nat × Nat) := m.filter (fun p => p.1 != wid)

def startPc : Req → Pc
  | .query _ => .rlock
  | .change _ _ => .rlock
  | .delete _ => .mapop
  | .list => .mapop

/-- the `i`-th world of the initial view is heap object `start + i` -/
def initMap : View → Nat → List (Nat × Nat)
  | [], _ => []
  | (wid, _) :: rest, o => (wid, o) :: initMap rest (o + 1)

/-- initial state: the worlds of `v0` exist, every client is about to start -/
def init (base : World) (v0 : View) (reqs : List Req) : State :=
  { base := base, readers := 0, writer := false,
    heap := v0.map (·.2),
    map := initMap v0 0,
    clients := reqs.map (fun r => { req := r, pc := startPc r }),
    log := [] }

def writerWaiting (s : State) : Bool := s.clients.any (fun c => c.pc == Pc.wlock)

def canRLock (pref : Bool) (s : State) : Bool := !s.writer && !(pref && writerWaiting s)

def canLock (s : State) : Bool := !s.writer && s.readers == 0

def setClient (s : State) (i : Nat) (c : Client) : State := { s with clients := s.clients.set i c }

/-- ghost: the unlogged holders of object `o` are logged (their writes are doomed) -/
def flushHolders (cs : List Client) (o : Nat) : List Client :=
  cs.map (fun c => if c.obj = some o ∧ c.logged = false then { c with logged := true } else c)

def doomed (cs : List Client) (o : Nat) : List Req :=
  (cs.filter (fun c => c.obj = some o ∧ c.logged = false)).map (·.req)

/-- the steps client `i` (currently `c`) can take: at most one -/
def clientStep (pref : Bool) (s : State) (i : Nat) (c : Client) : List State :=
  match c.pc with
  | .rlock =>
    guard (canRLock pref s = true) (setClient { s with readers := s.readers + 1 } i { c with pc := .find })
  | .find =>
    match c.req with
    | .query wid =>
      match mfind s.map wid with
      | some o => [setClient { s with log := s.log ++ [c.req] } i { c with pc := .eval, obj := some o, logged := true }]
      | none =>
        [setClient { s with heap := s.heap ++ [s.base], map := s.map ++ [(wid, s.heap.length)], log := s.log ++ [c.req] }
          i { c with pc := .eval, obj := some s.heap.length, logged := true }]
    | .change wid _ =>
      match mfind s.map wid with
      | some o => [setClient s i { c with pc := .eval, obj := some o }]
      | none =>
        [setClient { s with heap := s.heap ++ [s.base], map := s.map ++ [(wid, s.heap.length)] }
          i { c with pc := .eval, obj := some s.heap.length }]
    | _ => []
  | .eval =>
    match c.req, c.obj with
    | .query _, _ => [setClient s i { c with pc := .finalRUnlock }]
    | .change _ rs, some o =>
      match s.heap[o]? with
      | some w => [setClient s i { c with pc := .upRUnlock, change := evalRules w rs }]
      | none => []
    | _, _ => []
  | .upRUnlock => [setClient { s with readers := s.readers - 1 } i { c with pc := .wlock }]
  | .wlock => guard (canLock s = true) (setClient { s with writer := true } i { c with pc := .apply })
  | .apply =>
    match c.obj with
    | some o =>
      match s.heap[o]? with
      | some w =>
        [setClient { s with heap := s.heap.set o (applyWrites w c.change),
                            log := if c.logged then s.log else s.log ++ [c.req] }
          i { c with pc := .wunlock, logged := true }]
      | none => []
    | none => []
  | .wunlock => [setClient { s with writer := false } i { c with pc := .rlock2 }]
  | .rlock2 =>
    guard (canRLock pref s = true) (setClient { s with readers := s.readers + 1 } i { c with pc := .finalRUnlock })
  | .finalRUnlock => [setClient { s with readers := s.readers - 1 } i { c with pc := .done }]
  | .mapop =>
    match c.req with
    | .delete wid =>
      match mfind s.map wid with
      | some o =>
        [setClient { s with map := merase s.map wid, clients := flushHolders s.clients o,
                            log := s.log ++ doomed s.clients o ++ [c.req] }
          i { c with pc := .done, logged := true }]
      | none => [setClient { s with log := s.log ++ [c.req] } i { c with pc := .done, logged := true }]
    | .list => [setClient { s with log := s.log ++ [c.req] } i { c with pc := .done, logged := true }]
    | _ => []
  | .done => []

/-- all enabled successors -/
def step (pref : Bool) (s : State) : List State := forWorkers s.clients (clientStep pref s)

/-- A variant of the code in which the error of `apply` is looked at BEFORE the read lock is taken again:

    s.lock.Unlock(); if err != nil { return nil, err }; s.lock.RLock()

so a change that fails while being applied goes from `Unlock` straight to the deferred `RUnlock`. (The order in
`service.go` is `Unlock(); RLock(); if err != nil { return }`: there the failing path takes exactly the lock
steps of the succeeding one, which is what `clientStep` models.) -/
def clientStepEarlyReturn (pref : Bool) (s : State) (i : Nat) (c : Client) : List State :=
  match c.pc with
  | .wunlock =>
    [setClient { s with writer := false } i { c with pc := if applyFails c.change then .finalRUnlock else .rlock2 }]
  | _ => clientStep pref s i c

def stepEarlyReturn (pref : Bool) (s : State) : List State := forWorkers s.clients (clientStepEarlyReturn pref s)

def terminal (s : State) : Bool := s.clients.all (fun c => c.pc == Pc.done)

/-- what a caller of the service can observe afterwards: world ID ↦ content -/
def lookupWorld (s : State) (wid : Nat) : Option World :=
  match mfind s.map wid with
  | some o => s.heap[o]?
  | none => none

/-- the worlds as a view, in map order (for the driver) -/
def viewOf (s : State) : View :=
  s.map.filterMap (fun (wid, o) => match s.heap[o]? with | some w => some (wid, w) | none => none)

/-- `add-world-with-change id change` (`api/functions/change.go: addWorldWithChange`), evaluated INSIDE a read
phase — under the caller's `RLock` only, no upgrade:

    c.Worlds.DeleteWorld(id); return change.Apply(c.Worlds.FindOrCreateWorld(id))

the effect on the worlds of a client that is at `eval`: world `target` is unmapped, a fresh object is mapped and
written.  Not a client kind of `clientStep` (it would break `writer_excludes_readers` by construction); kept as
the effect function for the counterexample `B6.Props.C40.add_world_writes_during_read_phase`. -/
def addWorldEffect (s : State) (target : Nat) (ws : List Write) : State :=
  { s with map := merase s.map target ++ [(target, s.heap.length)], heap := s.heap ++ [applyWrites s.base ws] }

/-! ## The conflict class -/

def guardKeys (rs : List Rule) : List Key :=
  rs.filterMap (fun r => r.guard.map (·.1))

def writeKeys (rs : List Rule) : List Key := rs.map (·.write.key)

/-- `a`'s change reads (in a guard) a key of the same world that `b`'s change writes -/
def conflicts (a b : Req) : Bool :=
  match a, b with
  | .change w1 r1, .change w2 r2 => w1 == w2 && (guardKeys r1).any (fun k => (writeKeys r2).contains k)
  | _, _ => false

/-- no request's change depends on state another request writes -/
def conflictFree : List Req → Bool
  | [] => true
  | r :: rest => rest.all (fun r' => !conflicts r r' && !conflicts r' r) && conflictFree rest

end B6.Model.Proto.Service
