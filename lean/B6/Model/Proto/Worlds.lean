import B6.Model.Proto.Service
/-!
# `ingest.MutableWorlds` with its mutex — C40 (`one_world_per_id`)

    func (m *MutableWorlds) FindOrCreateWorld(id) MutableWorld {
        m.lock.Lock(); defer m.lock.Unlock()              -- lock … unlock
        w, ok := m.Mutable[id]                             -- body   (lookup)
        if !ok { w = NewMutableOverlayWorld(m.Base); m.Mutable[id] = w }   -- insert
        return w }
    func (m *MutableWorlds) DeleteWorld(id) { m.lock.Lock(); defer m.lock.Unlock(); delete(m.Mutable, id) }
    func (m *MutableWorlds) ListWorlds()    { m.lock.Lock(); defer m.lock.Unlock(); … range m.Mutable … }

Here the lookup and the insertion of `FindOrCreateWorld` are two separate steps, so that what the mutex buys
is visible: without it two callers could both miss and both insert, the second replacing the world object
the first one returned.  `m.Mutable[id] = w` is a Go map assignment (`mset`: replace or add).  `holder` is the
mutex with a ghost owner (`Unlock` is only ever called, deferred, by the goroutine that locked).
-/
namespace B6.Model.Proto.Worlds
open B6.Model.Proto B6.Model.Proto.Service

inductive Op where
  | findOrCreate (wid : Nat)
  | delete (wid : Nat)
  | list
  deriving DecidableEq, Repr

inductive Pc where
  | lock | body | insert | unlock | done
  deriving DecidableEq, Repr

structure Client where
  op : Op
  pc : Pc
  result : Option Nat := none    -- the world object returned by FindOrCreateWorld
  deriving DecidableEq, Repr

structure State where
  holder : Option Nat            -- index of the client holding `MutableWorlds.lock`
  map : List (Nat × Nat)         -- world ID ↦ world object
  next : Nat                     -- objects created so far
  clients : List Client
  deriving DecidableEq, Repr

/-- Go map assignment -/
def mset (m : List (Nat × Nat)) (wid o : Nat) : List (Nat × Nat) :=
  match m with
  | [] => [(wid, o)]
  | (i, x) :: rest => if i = wid then (wid, o) :: rest else (i, x) :: mset rest wid o

def setClient (s : State) (i : Nat) (c : Client) : State := { s with clients := s.clients.set i c }

def clientStep (s : State) (i : Nat) (c : Client) : List State :=
  match c.pc with
  | .lock => guard (s.holder = none) (setClient { s with holder := some i } i { c with pc := .body })
  | .body =>
    match c.op with
    | .findOrCreate wid =>
      match mfind s.map wid with
      | some o => [setClient s i { c with pc := .unlock, result := some o }]
      | none => [setClient s i { c with pc := .insert }]
    | .delete wid => [setClient { s with map := merase s.map wid } i { c with pc := .unlock }]
    | .list => [setClient s i { c with pc := .unlock }]
  | .insert =>
    match c.op with
    | .findOrCreate wid =>
      [setClient { s with map := mset s.map wid s.next, next := s.next + 1 } i
        { c with pc := .unlock, result := some s.next }]
    | _ => []
  | .unlock => [setClient { s with holder := none } i { c with pc := .done }]
  | .done => []

def step (s : State) : List State := forWorkers s.clients (clientStep s)

def terminal (s : State) : Bool := s.clients.all (fun c => c.pc == Pc.done)

def init (m : List (Nat × Nat)) (next : Nat) (ops : List Op) : State :=
  { holder := none, map := m, next := next, clients := ops.map (fun o => { op := o, pc := .lock }) }

end B6.Model.Proto.Worlds
