import B6.Model.Records
import B6.Model.Containers
/-!
# L6 — the compact index at feature level (C01; core Lean only)

`build : List Str → List Feature → Except BuildError Index` mirrors `compact.build` (ingest/compact/build.go)
composed from the record codecs of `B6.Model.Records` (L2) and the entry view of `Uint64Map` (`Entry` of
`B6.Model.Containers`, L1 — a map *is* its list of entries, which is what C09's `map_find_first`,
`map_find_first_with_tag`, `map_iterate` prove of the bytes):

* summary pass: counts per namespace → which feature blocks exist and their bucket bits
  (`bucketBitsForCount`, `tagBits`, the `NewUint64MapBuilder` normalisation), `PathAreas` /
  `RelationMembers` relationships (`FillReferences`), namespace table (`FillFromNamespaces`: sorted,
  index 0 = the invalid namespace, all OSM namespaces present);
* string table: a parameter (`strs`, any duplicate free list containing every key / string value / role;
  the Go builder picks a count-sorted order with an unstable sort);
* point scratch pass (`emitPoints`: `PointTag` / `PointPathTag` / `PointRelationTag` entries) and
  `combinePoints` (common / full / references-only records);
* path / area / relation records behind the `Validator` (its *result*: valid paths, areas over paths that
  are all present, valid and closed loops — C36 `validator_emits_spec`), clockwise closed paths inverted;
  S2's verdict on a closed path is an input (`Feature.oracle`);
* the reader: `find` (`findWithoutCache`, `newPhysicalFeatureFromTagged`, `MarshalledTags.AllTags`,
  `fromCompactValue`, `marshalledArea.fillGeometry`, `marshalledRelation.fillMembers`), `each`
  (`EachFeature`), `location` (`FindLocationByID`), `relationsOf` (`FindRelationsByFeature` = the relations among `findReferrers`, transitive).

A Go panic is `BuildError.panic` / `none`.  Outside the model: file header, protobuf header, mmap, the
search index, S2 (loop validity, orientation, `lastMarshalledLoopIsValid`: the loops of an explicit polygon that do not
survive E7 quantisation are removed by the driver before the model sees them — a per-loop oracle), floats
(coordinates are E7 integers throughout).
-/
namespace B6.Model.CompactIndex
open B6.Model.Varint B6.Model.Records
open B6.Model.Bits (combineTypeNs splitTypeNs)
open B6.Model.Containers (Entry)

/-- strings (namespaces, tag keys, string values, roles) as UTF-8 bytes -/
abbrev Str := Bytes

/-- Go's string `<`: byte-wise lexicographic -/
def strLt : Str → Str → Bool
  | [], [] => false
  | [], _ :: _ => true
  | _ :: _, [] => false
  | a :: as, b :: bs => if a < b then true else if b < a then false else strLt as bs

def kPoint : Str := [112, 111, 105, 110, 116]   -- "point"
def kPath : Str := [112, 97, 116, 104]          -- "path"
/-- "openstreetmap.org/node", "…/way", "…/relation" -/
def nsOsmPrefix : Str := [111, 112, 101, 110, 115, 116, 114, 101, 101, 116, 109, 97, 112, 46, 111, 114, 103, 47]
def nsOsmNode : Str := nsOsmPrefix ++ [110, 111, 100, 101]
def nsOsmWay : Str := nsOsmPrefix ++ [119, 97, 121]
def nsOsmRel : Str := nsOsmPrefix ++ [114, 101, 108, 97, 116, 105, 111, 110]

/-! ## features -/

/-- `b6.FeatureID`; `typ` = 0 point, 1 path, 2 area, 3 relation (4 = `FeatureTypeInvalid`) -/
structure FID where
  typ : Nat
  ns : Str
  val : BitVec 64
deriving DecidableEq, Repr, Inhabited

def FID.invalid : FID := ⟨4, [], 0#64⟩
/-- `FeatureID.IsValid` -/
def FID.valid (i : FID) : Bool := !i.ns.isEmpty && i.typ != 4
/-- `FeatureID.Less` -/
def FID.lt (a b : FID) : Bool :=
  if a.typ = b.typ then (if a.ns = b.ns then decide (a.val.toNat < b.val.toNat) else strLt a.ns b.ns)
  else decide (a.typ < b.typ)

/-- one element of a path's geometry -/
inductive Elem where
  | ref (id : FID)
  | ll (p : LatLng)
deriving DecidableEq, Repr, Inhabited

/-- a tag value with its kind: `StringExpression`, `PointExpression`, `FeatureIDExpression`, `Expressions` -/
inductive Val where
  | str (s : Str)
  | pt (p : LatLng)
  | fid (id : FID)
  | list (xs : List Elem)
deriving DecidableEq, Repr, Inhabited

structure FTag where
  key : Str
  val : Val
deriving DecidableEq, Repr, Inhabited

/-- one polygon of an area: path ids, or explicit loops of E7 points -/
inductive Poly where
  | paths (ids : List FID)
  | loops (ls : List (List LatLng))
deriving DecidableEq, Repr, Inhabited

structure FMember where
  role : Str
  id : FID
deriving DecidableEq, Repr, Inhabited

structure Feature where
  id : FID
  tags : List FTag := []
  polys : List Poly := []
  members : List FMember := []
  /-- paths: S2's verdict on the loop of a closed path all of whose points resolve:
  0 = not asked, 1 = valid counter-clockwise, 2 = valid clockwise (inverted by the builder), 3 = invalid -/
  oracle : Nat := 0
deriving DecidableEq, Repr, Inhabited

def getTag (ts : List FTag) (k : Str) : Option Val := (ts.find? (·.key == k)).map (·.val)

def Elem.isValidRef : Elem → Bool
  | .ref id => id.valid
  | .ll _ => false

/-- the `path` tag's `Expressions` -/
def pathElems (f : Feature) : List Elem :=
  match getTag f.tags kPath with
  | some (.list xs) => xs
  | _ => []

/-- `Tags.GeometryLen` -/
def geometryLen (f : Feature) : Nat := if (getTag f.tags kPoint).isSome then 1 else (pathElems f).length

/-- the elements `Reference(i)` / `PointAt(i)`, `i < GeometryLen()` can see -/
def geomElems (f : Feature) : List Elem := (pathElems f).take (geometryLen f)

/-- `Tags.ClosedPath`: the first element and the element at index (number of valid references − 1) are the
same valid reference -/
def closedPath (es : List Elem) : Bool :=
  let n := (es.filter Elem.isValidRef).length
  match es.head?, (if n = 0 then none else es[n - 1]?) with
  | some (.ref a), some (.ref b) => a == b && a.valid
  | _, _ => false

/-- location of a point feature: its `point` tag -/
def pointLocation (f : Feature) : Option LatLng :=
  match getTag f.tags kPoint with
  | some (.pt p) => some p
  | _ => none

/-- `locations.FindLocationByID(id)` during validation: the scratch point blocks are searched by namespace
and value only -/
def sourceLocation (fs : List Feature) (id : FID) : Option LatLng :=
  (fs.find? fun f => f.id.typ == 0 && f.id.ns == id.ns && f.id.val == id.val && (pointLocation f).isSome).bind pointLocation

def elemLocation (fs : List Feature) : Elem → Option LatLng
  | .ll p => some p
  | .ref id => sourceLocation fs id

/-- `ingest.ValidatePath` says ok (the S2 part is the oracle) -/
def pathValid (fs : List Feature) (f : Feature) : Bool :=
  f.id.valid && decide (2 ≤ geometryLen f) && (geomElems f).all (fun e => (elemLocation fs e).isSome) &&
    (!closedPath (pathElems f) || f.oracle != 3)

/-- the path as `ValidatePath` leaves it in the source: clockwise closed paths are inverted in place -/
def inverted (f : Feature) : Bool := closedPath (pathElems f) && f.oracle == 2

def invertTag (t : FTag) : FTag :=
  match t.val with
  | .list xs => if t.key == kPath then ⟨t.key, .list xs.reverse⟩ else t
  | _ => t

/-- `invertPoints`: the first `path` tag is replaced by its reversal -/
def invertTags : List FTag → List FTag
  | [] => []
  | t :: ts => if t.key == kPath then invertTag t :: ts else t :: invertTags ts

def validated (fs : List Feature) (f : Feature) : Feature :=
  if f.id.typ == 1 && pathValid fs f && inverted f then { f with tags := invertTags f.tags } else f

/-- `Validator.isLoop` -/
def isLoop (fs : List Feature) (f : Feature) : Bool :=
  let es := pathElems f
  decide (3 ≤ geometryLen f) &&
    match es.head?, es.getLast? with
    | some a, some b =>
      (match elemLocation fs a, elemLocation fs b with
       | some x, some y => x == y
       | _, _ => false)
    | _, _ => false

/-- an area is emitted iff every path of its path polygons is in the source, valid and a loop -/
def areaKept (fs : List Feature) (a : Feature) : Bool :=
  a.polys.all fun p =>
    match p with
    | .paths ids => ids.all fun id =>
        match fs.find? (fun f => f.id == id) with
        | some f => f.id.typ == 1 && pathValid fs f && isLoop fs f
        | none => false
    | .loops _ => true

/-- what the validator lets through to the feature blocks (points are never dropped) -/
def kept (fs : List Feature) (f : Feature) : Bool :=
  match f.id.typ with
  | 1 => pathValid fs f
  | 2 => areaKept fs f
  | _ => true

/-! ## namespace table -/

def insertNs (s : Str) : List Str → List Str
  | [] => [s]
  | x :: xs => if s == x then x :: xs else if strLt s x then s :: x :: xs else x :: insertNs s xs

/-- the namespaces the summary pass sees for one feature -/
def mentioned (f : Feature) : List Str :=
  f.id.ns ::
    (match f.id.typ with
     | 1 => (geomElems f).filterMap fun e => match e with
         | .ref id => if id.valid then some id.ns else none
         | .ll _ => none
     | 2 => f.polys.flatMap fun p => match p with
         | .paths ids => ids.map (·.ns)
         | .loops _ => []
     | 3 => f.members.map (·.id.ns)
     | _ => [])

/-- `fillNamespaceTableFromSummary` + `FillFromNamespaces`: sorted, `""` first, OSM namespaces always in.
(The Go table holds `""` twice when a feature uses the empty namespace; such ids are invalid.) -/
def nsTable (fs : List Feature) : List Str :=
  ([] :: nsOsmNode :: nsOsmWay :: nsOsmRel :: fs.flatMap mentioned).foldr insertNs []

/-- `NamespaceTable.MaybeEncode` -/
def nsEncode (nt : List Str) (ns : Str) : Option Nat := nt.findIdx? (· == ns)
/-- `NamespaceTable.Decode`; `none` = panic -/
def nsDecode (nt : List Str) (n : Nat) : Option Str := nt[n]?

structure Ctx where
  nt : List Str
  strs : List Str
  osm : Namespaces
deriving Repr

def ns16 (n : Nat) : BitVec 16 := BitVec.ofNat 16 n

/-- `OSMNamespaces(nt)` -/
def osmNamespaces (nt : List Str) : Option Namespaces := do
  let n ← nsEncode nt nsOsmNode
  let w ← nsEncode nt nsOsmWay
  let r ← nsEncode nt nsOsmRel
  pure ⟨ns16 n, ns16 w, ns16 w, ns16 r⟩

def strId (strs : List Str) (s : Str) : Option Nat := strs.findIdx? (· == s)

/-! ## features → compact values (`toCompactValue`, `Tags.FromFeature`) -/

/-- `Reference{CombineTypeAndNamespace(id.Type, nt.Encode(id.Namespace)), id.Value}`; `none` = `Encode` panics -/
def mkRef (nt : List Str) (id : FID) : Option Reference :=
  (nsEncode nt id.ns).map fun n => ⟨combineTypeNs (BitVec.ofNat 64 id.typ) (ns16 n), id.val⟩

/-- `GeometryEncodingForPath`: 0 references, 1 lat/lngs, 2 mixed -/
def geomEncoding (es : List Elem) : Nat :=
  let r := es.any Elem.isValidRef
  let l := es.any (fun e => !e.isValidRef)
  if r && l then 2 else if r then 0 else 1

/-- `toCompactValue(v, s, nt, e)`; `none` = panic (type assertion, "not implemented", unknown string or
namespace).  A single feature id becomes a bare `*Reference`, for which `Records.Value` (like
`inferValueType`) has no case: see `hasFidTag`. -/
def toCompactValue (c : Ctx) (e : Option Nat) : Val → Option Value
  | .str s => (strId c.strs s).map fun i => Value.int (BitVec.ofNat 64 i)
  | .pt p => some (.point p)
  | .fid _ => none
  | .list xs =>
    match e with
    | some 0 => (xs.mapM fun (x : Elem) => match x with
        | .ref id => mkRef c.nt id
        | .ll _ => none).map Value.refs
    | some 1 => (xs.mapM fun (x : Elem) => match x with
        | .ll p => some p
        | .ref _ => none).map Value.latlngs
    | some 2 => (xs.mapM fun (x : Elem) => match x with
        | .ref id => (mkRef c.nt id).map fun r => (⟨r, LatLng.zero⟩ : RefLL)
        | .ll p => some ⟨Reference.invalid, p⟩).map Value.mixed
    | _ => none

/-- the geometry encoding `Tags.FromFeature` passes for every tag of `f` -/
def tagEncoding (f : Feature) : Option Nat :=
  if (getTag f.tags kPath).isSome then some (geomEncoding (geomElems f)) else none

def toCompactTags (c : Ctx) (f : Feature) : Option (List Tag) :=
  f.tags.mapM fun t => do
    let k ← strId c.strs t.key
    let v ← toCompactValue c (tagEncoding f) t.val
    pure ⟨BitVec.ofNat 64 k, v⟩

/-- a tag whose value is a single feature id (known finding `fid-tag-value`: not representable) -/
def hasFidTag (fs : List Feature) : Bool :=
  fs.any fun f => f.tags.any fun t => match t.val with
    | .fid _ => true
    | _ => false

/-! ## summary pass -/

def countWhere (fs : List Feature) (p : Feature → Bool) : Nat := (fs.filter p).length

/-- `Counts.PathPoints` of a namespace: valid references of every path, closing visit included -/
def pathPoints (fs : List Feature) (ns : Str) : Nat :=
  ((fs.filter (·.id.typ == 1)).flatMap fun f => (geomElems f).filter fun e => match e with
    | .ref id => id.valid && id.ns == ns
    | .ll _ => false).length

/-- the count `newFeatureBlockBuilders` sizes the block of `(ns, t)` with; 0 = no builder -/
def blockCount (fs : List Feature) (ns : Str) (t : Nat) : Nat :=
  match t with
  | 0 =>
    let pts := countWhere fs fun f => f.id.typ == 0 && f.id.ns == ns
    if pts > 0 then pts else pathPoints fs ns
  | _ => countWhere fs fun f => f.id.typ == t && f.id.ns == ns

def log2ceil (n : Nat) : Nat := if n ≤ 1 then 0 else Nat.log2 (n - 1) + 1
/-- `tagBits` of build.go -/
def tagBitsOf (t : Nat) : Nat := if t = 0 then 2 else 0
/-- `bucketBitsForCount`, then `NewUint64MapBuilder`'s `if bucketBits < tagBits` -/
def bucketBits (count t : Nat) : Nat := max (max 1 (log2ceil count)) (tagBitsOf t)

/-- `Relationships.FillReferences` after `sort.Sort`: the second components of the pairs whose first is `id`,
in `FeatureID.Less` order, equal neighbours merged -/
def insertFID (x : FID) : List FID → List FID
  | [] => [x]
  | y :: ys => if x == y then y :: ys else if x.lt y then x :: y :: ys else y :: insertFID x ys
def sortDedupFIDs (l : List FID) : List FID := l.foldr insertFID []

/-- `summary.PathAreas`: the areas (dropped ones included) that mention path `id` -/
def areasOfPath (fs : List Feature) (id : FID) : List FID :=
  sortDedupFIDs ((fs.filter fun a => a.id.typ == 2 && a.polys.any fun p => match p with
    | .paths ids => ids.contains id
    | .loops _ => false).map (·.id))

/-- `summary.RelationMembers`: the relations that list the non-point `id` as a member -/
def relationsOfMember (fs : List Feature) (id : FID) : List FID :=
  sortDedupFIDs ((fs.filter fun r => r.id.typ == 3 && r.members.any fun m => m.id == id && m.id.typ != 0).map (·.id))

/-! ## point scratch pass and `combinePoints` -/

inductive Scratch where
  | point (data : Bytes)
  | path (r : Reference)
  | rel (r : Reference)
deriving Repr

inductive BuildError where
  | panic (why : String)
  | fidTag            -- not a Go outcome: the model has no representation (finding `fid-tag-value`)
deriving Repr, DecidableEq

def orPanic {α : Type} (why : String) : Option α → Except BuildError α
  | some a => .ok a
  | none => .error (.panic why)

/-- `emitPoints` for one feature: (namespace, value) of the point block entry and the entry -/
def scratchOf (c : Ctx) (fs : List Feature) (f : Feature) : Except BuildError (List (Str × BitVec 64 × Scratch)) :=
  match f.id.typ with
  | 0 => do
    let ts ← orPanic "point tags" (toCompactTags c f)
    if !Tags.ok ts then .error (.panic "EncodeValueType") else
    pure [(f.id.ns, f.id.val, .point (Tags.enc 0#16 ts))]
  | 1 => do
    let r ← orPanic "path namespace" (mkRef c.nt f.id)
    let es := geomElems f
    let stop := if closedPath (pathElems f) then geometryLen f - 1 else geometryLen f
    pure ((es.take stop).filterMap fun e => match e with
      | .ref id => if id.valid then some (id.ns, id.val, Scratch.path r) else none
      | .ll _ => none)
  | 3 => do
    let r ← orPanic "relation namespace" (mkRef c.nt f.id)
    (f.members.filter (·.id.typ == 0)).mapM fun m =>
      if blockCount fs m.id.ns 0 = 0 then .error (.panic "No builder for type point") else pure (m.id.ns, m.id.val, Scratch.rel r)
  | _ => pure []

def dedupVals : List (BitVec 64) → List (BitVec 64)
  | [] => []
  | x :: xs => x :: (dedupVals xs).filter (· != x)

/-- the `PointTag` entry among the scratch entries of an id (the last one wins) -/
def scratchPoint (es : List Scratch) : Option Bytes :=
  es.foldl (fun acc e => match e with
    | .point d => some d
    | _ => acc) none

/-- the record `combinePoints` emits for an id -/
def combineWith (c : Ctx) (id : BitVec 64) (point : Option Bytes) (paths rels : List Reference) : Entry :=
  match point with
  | some d =>
    match paths, rels with
    | [p], [] => ⟨id, 0#64, d ++ Reference.enc (tnPath c.osm) p⟩                   -- PointTagCommon
    | _, _ => ⟨id, 1#64, d ++ PointReferences.enc c.osm ⟨paths, rels⟩⟩            -- PointTagFull
  | none => ⟨id, 2#64, PointReferences.enc c.osm ⟨paths, rels⟩⟩                  -- PointTagReferencesOnly

/-- `combinePoints` for the scratch entries of one id -/
def combine (c : Ctx) (id : BitVec 64) (es : List Scratch) : Entry :=
  combineWith c id (scratchPoint es)
    (es.filterMap fun e => match e with
      | .path r => some r
      | _ => none)
    (es.filterMap fun e => match e with
      | .rel r => some r
      | _ => none)

/-! ## path / area / relation records -/

def refsOf (c : Ctx) (ids : List FID) : Except BuildError (List Reference) :=
  ids.mapM fun id => orPanic "reference namespace" (mkRef c.nt id)

def pathRecord (c : Ctx) (fs : List Feature) (f : Feature) : Except BuildError Bytes := do
  let ts ← orPanic "path tags" (toCompactTags c f)
  let areas ← refsOf c (areasOfPath fs f.id)
  let rels ← refsOf c (relationsOfMember fs f.id)
  orPanic "Path.Marshal" (Path.marshal c.osm ⟨ts, areas, rels⟩)

/-- the running totals `FromS2Polygon` / `Area.FromFeature` record as boundaries: the index at which
every list but the first starts -/
def bounds {α : Type} (start : Nat) : List (List α) → List Nat
  | [] => []
  | [_] => []
  | l :: l' :: rest => (start + l.length) :: bounds (start + l.length) (l' :: rest)

/-- `FromS2Polygon` on a polygon whose loops all survive quantisation: boundaries + points -/
def polygonLL (ls : List (List LatLng)) : PolygonLL := ⟨(bounds 0 ls).map (BitVec.ofNat 64), ls.flatten⟩

/-- `PolygonGeometryLatLngs.IsValid` -/
def polygonValid (q : PolygonLL) : Bool := decide (2 < q.points.length)

/-- `Area.FromFeature`, references: before the paths of every polygon are appended, `start = len(paths)` is
recorded as a boundary if it is positive -/
def refStarts {α : Type} (start : Nat) : List (List α) → List Nat
  | [] => []
  | l :: rest => (if start > 0 then [start] else []) ++ refStarts (start + l.length) rest

def pathsOf : Poly → Option (List FID)
  | .paths ids => some ids
  | .loops _ => none
def loopsOf : Poly → Option (List (List LatLng))
  | .loops ls => some ls
  | .paths _ => none

/-- `Area.FromFeature`, mixed: one polygon (`none` = an explicit polygon that is dropped as invalid) -/
def mixedF (c : Ctx) : Poly → Except BuildError (Option PolygonMixed)
  | .paths ids => do
    let rs ← refsOf c ids
    pure (some (⟨rs, PolygonLL.zero⟩ : PolygonMixed))
  | .loops ls => pure (if polygonValid (polygonLL ls) then some ⟨[], polygonLL ls⟩ else none)

/-- `Area.FromFeature` (with fixes/C01-mixed-area.patch for the mixed case) -/
def areaGeometry (c : Ctx) (a : Feature) : Except BuildError AreaGeometry :=
  let r := a.polys.any fun p => (pathsOf p).isSome
  let l := a.polys.any fun p => (loopsOf p).isSome
  if r && l then do
    let ps ← a.polys.mapM (mixedF c)
    pure (.mixed (ps.filterMap id))
  else if r then do
    let idLists := a.polys.filterMap pathsOf
    let rs ← refsOf c idLists.flatten
    pure (.refs ⟨(refStarts 0 idLists).map (BitVec.ofNat 64), rs⟩)
  else
    pure (.latlngs (((a.polys.filterMap loopsOf).map polygonLL).filter polygonValid))

def areaRecord (c : Ctx) (fs : List Feature) (a : Feature) : Except BuildError Bytes := do
  let ts ← orPanic "area tags" (toCompactTags c a)
  let g ← areaGeometry c a
  let rels ← refsOf c (relationsOfMember fs a.id)
  orPanic "Area.Marshal" (Area.marshal c.osm ⟨ts, g, rels⟩)

/-- the `Namespaces` in the header of the block of `(ns, t)` (`addFeatureBlockBuilder`) -/
def blockHeader (c : Ctx) (t : Nat) (n : Nat) : Namespaces :=
  match t with
  | 0 => { c.osm with point := ns16 n }
  | 1 => { c.osm with path := ns16 n }
  | 2 => { c.osm with area := ns16 n }
  | _ => { c.osm with relation := ns16 n }

def relationRecord (c : Ctx) (fs : List Feature) (r : Feature) : Except BuildError Bytes := do
  let ts ← orPanic "relation tags" (toCompactTags c r)
  let ms ← r.members.mapM fun m => do
    let ref ← orPanic "member namespace" (mkRef c.nt m.id)
    let role ← orPanic "role" (strId c.strs m.role)
    pure (⟨BitVec.ofNat 64 m.id.typ, BitVec.ofNat 64 role, ref⟩ : Member)
  let rels ← refsOf c (relationsOfMember fs r.id)
  let n ← orPanic "relation namespace" (nsEncode c.nt r.id.ns)
  -- fixes/C01-relation-relations-primary.patch: marshalled against the header of the destination block
  orPanic "Relation.Marshal" (Relation.marshal 1#64 (blockHeader c 3 n) ⟨ts, ms, rels⟩)

/-! ## the index -/

structure Block where
  typ : Nat
  hdr : Namespaces
  bits : Nat
  tagBits : Nat
  entries : List Entry
deriving Repr

structure Index where
  nt : List Str
  strs : List Str
  blocks : List Block
deriving Repr

/-- the block namespaces in the order `WriteHeaders` writes them: by encoded namespace = by table position -/
def blockNamespaces (nt : List Str) : List (Nat × Str) := (List.range nt.length).zip nt

/-- the (type, encoded namespace, namespace) of the path / area / relation blocks, in `WriteHeaders` order -/
def blockKeys (nt : List Str) : List (Nat × Nat × Str) :=
  (blockNamespaces nt).flatMap fun (n, ns) => [(1, n, ns), (2, n, ns), (3, n, ns)]

def pointBlock (c : Ctx) (fs : List Feature) (scr : List (Str × BitVec 64 × Scratch)) (n : Nat) (ns : Str) : Option Block :=
  let mine := scr.filter (·.1 == ns)
  if mine.isEmpty then none else
  let ids := dedupVals (mine.map (·.2.1))
  some { typ := 0, hdr := blockHeader c 0 n, bits := bucketBits (blockCount fs ns 0) 0, tagBits := 2,
         entries := ids.map fun id => combine c id ((mine.filter (·.2.1 == id)).map (·.2.2)) }

/-- the record of a kept (validated) feature of type `t` -/
def recordOf (c : Ctx) (fs : List Feature) (t : Nat) (f : Feature) : Except BuildError Bytes :=
  match t with
  | 1 => pathRecord c fs f
  | 2 => areaRecord c fs f
  | _ => relationRecord c fs f

/-- the features of type `t` and namespace `ns` the validator lets through, as it leaves them -/
def keptOf (fs : List Feature) (t : Nat) (ns : Str) : List Feature :=
  (fs.filter fun f => f.id.typ == t && f.id.ns == ns && kept fs f).map (validated fs)

def entryOf (c : Ctx) (fs : List Feature) (t : Nat) (f : Feature) : Except BuildError Entry := do
  let d ← recordOf c fs t f
  pure ⟨f.id.val, 0#64, d⟩

def featureBlock (c : Ctx) (fs : List Feature) (t n : Nat) (ns : Str) : Except BuildError (Option Block) :=
  if (keptOf fs t ns).isEmpty then pure none else do
  let es ← (keptOf fs t ns).mapM (entryOf c fs t)
  pure (some { typ := t, hdr := blockHeader c t n, bits := bucketBits (blockCount fs ns t) t, tagBits := 0, entries := es })

def build (strs : List Str) (fs : List Feature) : Except BuildError Index := do
  if hasFidTag fs then .error .fidTag else
  let nt := nsTable fs
  let osm ← orPanic "OSM namespaces" (osmNamespaces nt)
  let c : Ctx := ⟨nt, strs, osm⟩
  -- every string the records need must be in the table (`Lookup` panics otherwise)
  let scr ← fs.mapM (scratchOf c fs)
  let scr := scr.flatten
  let pts := (blockNamespaces nt).filterMap fun (n, ns) => pointBlock c fs scr n ns
  let rest ← (blockKeys nt).mapM fun k => featureBlock c fs k.1 k.2.1 k.2.2
  pure ⟨nt, strs, pts ++ rest.filterMap id⟩

/-! ## the reader -/

def nssGet (n : Namespaces) (t : Nat) : BitVec 16 :=
  match t with
  | 0 => n.point
  | 1 => n.path
  | 2 => n.area
  | _ => n.relation

/-- `Uint64Map.FindFirst` on the entry view -/
def findFirst (es : List Entry) (id : BitVec 64) : Option Entry := es.find? fun e => e.id == id
/-- `Uint64Map.FindFirstWithTag` -/
def findFirstWithTag (es : List Entry) (id tag : BitVec 64) : Option Entry := es.find? fun e => e.id == id && e.tag == tag

/-- decode a reference into a feature id (`Split` + `nt.Decode`); `none` = `Decode` panics -/
def unRef (nt : List Str) (r : Reference) : Option FID :=
  let (t, ns) := splitTypeNs r.tn
  (nsDecode nt ns.toNat).map fun s => ⟨t.toNat, s, r.value⟩

/-- `fromCompactValue(v, s, nt)` (with fixes/C01-mixed-path-nil.patch); `nt = none` is the nil table the
point / area / relation readers pass: any reference then panics -/
def fromCompactValue (strs : List Str) (nt : Option (List Str)) : Value → Option Val
  | .int i => (strs[i.toNat]?).map Val.str
  | .point p => some (.pt p)
  | .latlngs l => some (.list (l.map Elem.ll))
  | .refs l => nt.bind fun t => (l.mapM fun r => (unRef t r).map Elem.ref).map Val.list
  | .mixed l => (l.mapM fun x =>
      if x.ref != Reference.invalid then nt.bind fun t => (unRef t x.ref).map Elem.ref
      else some (Elem.ll x.ll)).map Val.list

/-- `MarshalledTags.AllTags` -/
def allTags (strs : List Str) (nt : Option (List Str)) (tns : BitVec 16) (data : Bytes) : Option (List FTag) := do
  let (ts, _) ← Tags.dec tns data
  ts.mapM fun t => do
    let k ← strs[t.key.toNat]?
    let v ← fromCompactValue strs nt t.value
    pure ⟨k, v⟩

/-- the blocks `findWithoutCache` looks at: type `t`, header namespace of `t` = the encoded namespace -/
def blocksFor (ix : Index) (t : Nat) (ns : Str) : List Block :=
  match nsEncode ix.nt ns with
  | none => []
  | some n => ix.blocks.filter fun b => b.typ == t && nssGet b.hdr t == ns16 n

/-- the record of feature `id`: point entries that are not references-only, otherwise the `NoTag` entry;
`FindFeatureByID` goes on to the next block when a block has none -/
def lookupIn (b : Block) (id : FID) : Option (Block × Entry) :=
  match id.typ with
  | 0 => (findFirst b.entries id.val).bind fun e => if e.tag == 2#64 then none else some (b, e)
  | 2 => (findFirstWithTag b.entries id.val 0#64).bind fun e => if e.data.isEmpty then none else some (b, e)
  | _ => (findFirstWithTag b.entries id.val 0#64).map fun e => (b, e)

def lookup (ix : Index) (id : FID) : Option (Block × Entry) :=
  (blocksFor ix id.typ id.ns).findSome? fun b => lookupIn b id

/-- `FindLocationByID` (the point blocks of the loaded index) -/
def location (ix : Index) (id : FID) : Option LatLng :=
  (blocksFor ix 0 id.ns).findSome? fun b =>
    (findFirst b.entries id.val).bind fun e =>
      if e.tag == 2#64 then none else
      match allTags ix.strs none 0#16 e.data with
      | some ts => (match getTag ts kPoint with
          | some (.pt p) => some p
          | _ => none)
      | none => none

/-- one polygon of a loaded area: `Feature(i)` gives the paths, otherwise `Polygon(i)` the loops -/
def polyOfRefs (nt : List Str) (rs : List Reference) : Option Poly := (rs.mapM (unRef nt)).map Poly.paths

/-- split a list at the boundaries (`PolygonGeometryLatLngs.Polygon`, `AreaGeometryReferences.PathIDs`) -/
def splitAt {α : Type} (xs : List α) (start : Nat) : List Nat → List (List α)
  | [] => [xs.drop start]
  | b :: bs => ((xs.drop start).take (b - start)) :: splitAt xs b bs

def splitLoops (bs : List Nat) (pts : List LatLng) : List (List LatLng) := splitAt pts 0 bs

/-- `AreaGeometryMixed.PathIDs(i)` / `Polygon(i)`: one polygon of a mixed area -/
def mixedD (nt : List Str) (q : PolygonMixed) : Option Poly :=
  if q.paths.isEmpty then some (Poly.loops (splitLoops (q.ll.loops.map (·.toNat)) q.ll.points))
  else polyOfRefs nt q.paths

def polysOfGeometry (nt : List Str) : AreaGeometry → Option (List Poly)
  | .refs a => (a.paths.mapM (unRef nt)).map fun ids => (splitAt ids 0 (a.polygons.map (·.toNat))).map Poly.paths
  | .latlngs ps => some (ps.map fun q => Poly.loops (splitLoops (q.loops.map (·.toNat)) q.points))
  | .mixed ps => ps.mapM (mixedD nt)

/-- what the reader makes of the record of feature `id` found in a block with header `hdr`; `none` = reading
it panics.  Points, areas and relations read their tags with a nil namespace table. -/
def decodeFeature (strs nt : List Str) (hdr : Namespaces) (id : FID) (data : Bytes) : Option Feature :=
  match id.typ with
  | 0 => (allTags strs none 0#16 data).map fun ts => { id := id, tags := ts }
  | 1 => do
    let n ← nsEncode nt nsOsmNode
    let ts ← allTags strs (some nt) (combineTypeNs 0#64 (ns16 n)) data
    pure { id := id, tags := ts }
  | 2 => do
    let ts ← allTags strs none 0#16 data
    let (a, _) ← Area.dec hdr data
    let ps ← polysOfGeometry nt a.polygons
    pure { id := id, tags := ts, polys := ps }
  | _ => do
    let ts ← allTags strs none 0#16 data
    let (r, _) ← Relation.dec 1#64 hdr data
    let ms ← r.members.mapM fun m => do
      let role ← strs[m.role.toNat]?
      let mid ← unRef nt m.id
      pure (⟨role, mid⟩ : FMember)
    pure { id := id, tags := ts, members := ms }

/-- `FindFeatureByID(id)` and everything the harness reads off the result; `none` = not found;
`some none` = found but reading it panics -/
def find (ix : Index) (id : FID) : Option (Option Feature) :=
  (lookup ix id).map fun (b, e) => decodeFeature ix.strs ix.nt b.hdr id e.data

/-- the order `Uint64Map` iterates in: buckets (`id mod 2^bits`) in order, ids ascending within a bucket -/
def iterLe (bits : Nat) (x y : Entry) : Bool :=
  decide (x.id.toNat % 2 ^ bits < y.id.toNat % 2 ^ bits) ||
    (x.id.toNat % 2 ^ bits == y.id.toNat % 2 ^ bits && decide (x.id.toNat ≤ y.id.toNat))

def iterInsert (bits : Nat) (e : Entry) : List Entry → List Entry
  | [] => [e]
  | x :: xs => if iterLe bits e x then e :: x :: xs else x :: iterInsert bits e xs

/-- iteration order of a block: buckets in order, ids ascending within a bucket -/
def iterIds (b : Block) : List Entry := b.entries.foldr (iterInsert b.bits) []

/-- `EachFeature`: the ids in emission order (one goroutine) -/
def each (ix : Index) : List FID :=
  [0, 1, 2, 3].flatMap fun t =>
    (ix.blocks.filter (·.typ == t)).flatMap fun b =>
      (iterIds b).filterMap fun e =>
        if t == 0 && e.tag == 2#64 then none
        else (nsDecode ix.nt (nssGet b.hdr t).toNat).map fun ns => ⟨t, ns, e.id⟩

/-- the ids a list of references names, as features of type `t` that are in the index (`newRelation` /
`newArea` / `FindFeatureByID` not nil; a `Decode` that would panic never happens on a built index) -/
def presentRefs (ix : Index) (t : Nat) (rs : List Reference) (lookupFn : FID → Bool) : List FID :=
  (rs.filterMap fun r => (nsDecode ix.nt (splitTypeNs r.tn).2.toNat).map fun ns => (⟨t, ns, r.value⟩ : FID)).filter lookupFn

/-- paths and relations recorded with a point entry: a common record has one path and no relations -/
def pointRecordRefs (b : Block) (e : Entry) : List Reference × List Reference :=
  if e.tag == 0#64 then
    match CommonPoint.dec b.hdr e.data with
    | some (r, _) => ([r.path], [])
    | none => ([], [])
  else if e.tag == 1#64 then
    match FullPoint.dec b.hdr e.data with
    | some (r, _) => (r.refs.paths, r.refs.relations)
    | none => ([], [])
  else
    match PointReferences.dec b.hdr e.data with
    | some (r, _) => (r.paths, r.relations)
    | none => ([], [])

/-- the direct referrers of `id` as `findReferrers` collects them (after fix afe76d0): the paths through a point
(`findPathsByPoint`, present ones), the areas of a path (`fillAreasFromPath`), then the relations recorded with
the feature in every block of its namespace (`findDirectRelations`; for points also on references-only records,
each relation once per record) -/
def directReferrers (ix : Index) (id : FID) : List FID :=
  let bs := blocksFor ix id.typ id.ns
  let isIn : FID → Bool := fun x => (lookup ix x).isSome
  match id.typ with
  | 0 =>
    let recs := bs.filterMap fun b => (findFirst b.entries id.val).map (pointRecordRefs b)
    (presentRefs ix 1 (recs.flatMap (·.1)) isIn).eraseDups ++
      recs.flatMap fun r => presentRefs ix 3 r.2.eraseDups isIn
  | 1 =>
    let recs := bs.filterMap fun b => (findFirstWithTag b.entries id.val 0#64).bind fun e =>
      if e.data.isEmpty then none else (Path.dec b.hdr e.data).map (·.1)
    (recs.flatMap fun p => presentRefs ix 2 p.areas isIn) ++ recs.flatMap fun p => presentRefs ix 3 p.relations isIn
  | 2 =>
    bs.flatMap fun b => match findFirstWithTag b.entries id.val 0#64 with
      | some e => (match Area.dec b.hdr e.data with
          | some (a, _) => presentRefs ix 3 a.relations isIn
          | none => [])
      | none => []
  | 3 =>
    bs.flatMap fun b => match findFirstWithTag b.entries id.val 0#64 with
      | some e => (match Relation.dec 1#64 b.hdr e.data with
          | some (r, _) => presentRefs ix 3 r.relations isIn
          | none => [])
      | none => []
  | _ => []

/-- the breadth first search of `findReferrers`: `seen` starts empty, so a feature that refers to itself through a
cycle is found too; `fuel` bounds the number of features taken off the queue -/
def referrersLoop (direct : FID → List FID) : Nat → List FID → List FID → List FID
  | 0, _, found => found
  | _ + 1, [], found => found
  | fuel + 1, next :: queue, found =>
    let new := (direct next).foldl (fun acc x => if found.contains x || acc.contains x then acc else acc ++ [x]) []
    referrersLoop direct fuel (queue ++ new) (found ++ new)

/-- `findReferrers(id)` -/
def referrers (ix : Index) (id : FID) : List FID :=
  referrersLoop (directReferrers ix) ((ix.blocks.map (·.entries.length)).sum + 2) [id] []

/-- `FindRelationsByFeature`: the relations among the (transitive) referrers, each once -/
def relationsOf (ix : Index) (id : FID) : List FID := (referrers ix id).filter (·.typ == 3)

/-! ## what the round trip must return -/

/-- an explicit polygon keeps its loops if it has more than two points in total -/
def canonPolys (ps : List Poly) : List Poly :=
  ps.filter fun p => match p with
    | .paths _ => true
    | .loops ls => decide (2 < ls.flatten.length)

/-- the feature as the world built from the index must present it: coordinates are E7 already; a
clockwise closed path is stored inverted; explicit polygons with fewer than three points are dropped -/
def canon (fs : List Feature) (f : Feature) : Feature :=
  let g := validated fs f
  match f.id.typ with
  | 2 => { id := g.id, tags := g.tags, polys := canonPolys g.polys }
  | 3 => { id := g.id, tags := g.tags, members := g.members }
  | _ => { id := g.id, tags := g.tags }

/-! ## the domain of the round trip property -/

/-- an id the 16-bit `TypeAndNamespace` can hold (the code uses types 0–3) -/
def FID.ok (i : FID) : Bool := decide (i.typ < 8) && i.valid

/-- tag values the index can hold for a path: no single feature id (finding `fid-tag-value`); list elements
are lat/lngs or valid references -/
def Val.ok : Val → Bool
  | .str _ => true
  | .pt _ => true
  | .fid _ => false
  | .list xs => xs.all fun e => match e with
    | .ref id => id.ok
    | .ll _ => true

/-- tag values of points, areas and relations: strings and points -/
def Val.plain : Val → Bool
  | .str _ => true
  | .pt _ => true
  | _ => false

def stringsOf (f : Feature) : List Str :=
  (f.tags.flatMap fun t => t.key :: (match t.val with
    | .str s => [s]
    | _ => [])) ++ f.members.map (·.role)

/-- no Go slice is longer than this; below it no length word overflows -/
def sizeOK (f : Feature) : Bool :=
  decide (f.tags.length < 2 ^ 48) && decide (f.members.length < 2 ^ 48) && decide (f.polys.length < 2 ^ 48) &&
  decide ((f.polys.filterMap pathsOf).flatten.length < 2 ^ 48) &&
  f.tags.all (fun t => match t.val with
    | .list xs => decide (xs.length < 2 ^ 48)
    | _ => true) &&
  f.polys.all fun p => match p with
    | .paths ids => decide (ids.length < 2 ^ 48)
    | .loops ls => decide (ls.length < 2 ^ 48) && decide (ls.flatten.length < 2 ^ 48)

/-- a feature the builder keeps and the index can represent -/
def featureOK (fs : List Feature) (f : Feature) : Bool :=
  f.id.valid && decide (f.id.typ < 4) && sizeOK f &&
  match f.id.typ with
  | 0 => f.tags.all (·.val.plain) && (pointLocation f).isSome
  | 1 => f.tags.all (·.val.ok) && (getTag f.tags kPoint).isNone && pathValid fs f &&
      (geomElems f).all (fun e => match e with
        | .ref id => id.typ == 0
        | .ll _ => true) &&
      -- the only list-valued tag is the geometry (any other list would have to fit the path's own encoding)
      f.tags.all (fun t => match t.val with
        | .list xs => t.key == kPath && xs == pathElems f
        | _ => true)
  | 2 => f.tags.all (·.val.plain) && areaKept fs f &&
      f.polys.all fun p => match p with
        | .paths ids => !ids.isEmpty && ids.all fun id => id.typ == 1 && id.valid
        | .loops _ => true
  | _ => f.tags.all (·.val.plain) &&
      f.members.all fun m => m.id.valid && decide (m.id.typ < 4) && (m.id.typ != 0 || decide (0 < blockCount fs m.id.ns 0))

/-- finding class `point-member-without-block`: a relation lists a point whose namespace has no point block
(no point and no path point in it): `emitPoints` → `Reserve` panics "No builder for type point" -/
def hasPointMemberWithoutBlock (fs : List Feature) : Bool :=
  fs.any fun r => r.id.typ == 3 && r.members.any fun m => m.id.typ == 0 && blockCount fs m.id.ns 0 == 0

/-- finding class `list-tag-on-non-path`: a list-valued tag on a feature without a `path` tag: `toCompactValue`
gets `GeometryEncodingInvalid` and panics "not implemented" -/
def hasListTagOnNonPath (fs : List Feature) : Bool :=
  fs.any fun f => (getTag f.tags kPath).isNone && f.tags.any fun t => match t.val with
    | .list _ => true
    | _ => false

/-- no two features share an id -/
def idsDistinct : List Feature → Bool
  | [] => true
  | f :: fs => fs.all (fun g => g.id != f.id) && idsDistinct fs

/-- **the decidable domain of `compact_roundtrip`**: ids distinct, every feature kept by the builder's
validation and representable, the string table holds every string of the source, the tables fit their
fields.  The three recorded finding classes are excluded explicitly (they are also implied by `featureOK`):
an input is either in `Accepts`, or in one of `hasFidTag` / `hasPointMemberWithoutBlock` / `hasListTagOnNonPath`, or
outside the property's domain (duplicate ids, invalid paths, …). -/
def Accepts (strs : List Str) (fs : List Feature) : Bool :=
  idsDistinct fs && fs.all (featureOK fs) && !hasFidTag fs &&
  (fs.flatMap stringsOf).all (strs.contains ·) && decide (strs.length < 2 ^ 48) && decide ((nsTable fs).length ≤ 8192) &&
  decide (fs.length < 2 ^ 48) && !hasPointMemberWithoutBlock fs && !hasListTagOnNonPath fs

end B6.Model.CompactIndex
