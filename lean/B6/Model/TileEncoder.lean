/-!
# Vector-tile encoder (renderer/encoder.go) and an MVT 2.1 geometry / tag decoder  (core Lean only)

Model of `renderer.Encoder` as a state machine that appends `uint32` words to the current feature:

* `zigzag32`, `zigzagEncode`      — `zigzagEncode(value int) uint32` (`int32()` truncation, `<<1`, arithmetic `>>31`).
* `unzigzag32`                    — the decoding rule of the Mapbox Vector Tile spec 2.1 §4.3.2
                                     (`(p >> 1) ^ (-(p & 1))`, logical shift); `zigzagDecode` of encoder.go after
                                     fixes/C10-zigzag-decode.patch.  `zigzagDecodeArith` = the code before the repair.
* `Enc`                           — origin, cursor, key / value tables, finished features, current feature.
  `startFeature`, `moveTo`, `lineTo`, `closePath`, `xy`, `setID`, `tag`, `key` mirror the methods; an operation
  on an encoder without a current feature is the Go nil dereference → `none`.
* `encodePoint`, `encodeLineString`, `encodeLoop`, `encodePolygon` mirror `encodePoint`,
  `simplifyAndEncodeLineString`, `simplifyAndEncodePolygon` *given the projected integer points*
  (`projection.Project`, `Simplify` for > 1000 points and the `int(p.X)` truncation are outside the model).
  `encodeFeature` / `encodeLayer` mirror the body of the loops in `EncodeTile`; `backgroundLayer` = `newBackgroundLayer`.
* `decodeOps`, `decodeGeometry`   — a decoder written from the spec's command grammar (§4.3.1–4.3.4): cursor starts at
  (0,0), `MoveTo`/`LineTo` carry `count > 0` zigzag pairs relative to the cursor, `ClosePath` has count 1 and does
  not move the cursor; POINT = one MoveTo, LINESTRING = (MoveTo 1, LineTo n>0)*, POLYGON = (MoveTo 1, LineTo n>1,
  ClosePath)*.
* `decodeTags`                    — §4.4: consecutive (key index, value index) pairs into the layer tables.

Coordinates are unbounded `Int`; `zigzagEncode (x - cursor)` is exact for every Go `int` (64 bit) because the
wrap-around of the 64-bit subtraction commutes with the truncation to 32 bits.
-/
namespace B6.Model.TileEncoder

abbrev Pt := Int × Int

/-! ## zigzag -/

/-- `uint32(int32(value)<<1) ^ uint32(int32(value)>>31)` on the truncated 32-bit value -/
def zigzag32 (v : BitVec 32) : BitVec 32 := (v <<< 1) ^^^ (v.sshiftRight 31)

/-- MVT 2.1 §4.3.2 `value = ((p >> 1) ^ (-(p & 1)))`; encoder.go `zigzagDecode` after the repair -/
def unzigzag32 (w : BitVec 32) : BitVec 32 := (w >>> 1) ^^^ (-(w &&& 1#32))

/-- encoder.go `zigzagDecode` before fixes/C10-zigzag-decode.patch: `int32(value) >> 1` is an arithmetic shift -/
def zigzagDecodeArith (w : BitVec 32) : BitVec 32 := (w.sshiftRight 1) ^^^ (-(w &&& 1#32))

/-- `zigzagEncode(value int) uint32` -/
def zigzagEncode (value : Int) : UInt32 := UInt32.ofBitVec (zigzag32 (BitVec.ofInt 32 value))

/-- the signed value a spec-conforming reader gets from a parameter integer -/
def paramValue (w : UInt32) : Int := (unzigzag32 w.toBitVec).toInt

/-- `zigzagDecode(value uint32) int` (repaired code) -/
def zigzagDecode (w : UInt32) : Int := (unzigzag32 w.toBitVec).toInt

/-! ## command words -/

def cmdMoveTo : Nat := 1
def cmdLineTo : Nat := 2
def cmdClosePath : Nat := 7

/-- `(id & 0x7) | (uint32(count) << 3)` -/
def cmdWord (id : Nat) (count : Nat) : UInt32 :=
  (UInt32.ofNat id &&& (7 : UInt32)) ||| (UInt32.ofNat count <<< (3 : UInt32))

def cmdId (w : UInt32) : Nat := (w &&& (7 : UInt32)).toNat
def cmdCount (w : UInt32) : Nat := (w >>> (3 : UInt32)).toNat

/-! ## encoder state -/

/-- `TileProto_Value` as far as the encoder fills it -/
inductive Val where
  | str (s : String)
  | int (i : Int)
  deriving DecidableEq, Repr, Inhabited

/-- what `Encoder.Tag` is handed: `string`, `int64`, `int`, or anything else (logged and ignored) -/
inductive TagArg where
  | str (s : String)
  | i64 (i : Int)
  | int (i : Int)
  | other
  deriving DecidableEq, Repr

structure Feat where
  ftype : Nat := 0              -- 0 unset, 1 POINT, 2 LINESTRING, 3 POLYGON
  id : Option Nat := none
  tags : List UInt32 := []
  geometry : List UInt32 := []
  deriving DecidableEq, Repr, Inhabited

structure Enc where
  ox : Int
  oy : Int
  cx : Int := 0
  cy : Int := 0
  keys : List String := []
  values : List Val := []
  prev : List Feat := []        -- features started earlier, in order
  cur : Option Feat := none     -- `e.feature` (nil until the first StartFeature)
  deriving Repr

def newEncoder (ox oy : Int) : Enc := { ox := ox, oy := oy }

/-- all features of the layer in order -/
def Enc.features (e : Enc) : List Feat := e.prev ++ e.cur.toList

def startFeature (e : Enc) : Enc :=
  { e with cx := e.ox, cy := e.oy, prev := e.prev ++ e.cur.toList, cur := some {} }

/-- apply `f` to the current feature; `none` = nil pointer dereference -/
def withCur (e : Enc) (f : Feat → Feat) : Option Enc :=
  match e.cur with
  | none => none
  | some c => some { e with cur := some (f c) }

def emit (e : Enc) (ws : List UInt32) : Option Enc :=
  withCur e fun c => { c with geometry := c.geometry ++ ws }

def setType (e : Enc) (t : Nat) : Option Enc := withCur e fun c => { c with ftype := t }
def setID (e : Enc) (id : Nat) : Option Enc := withCur e fun c => { c with id := some id }

def moveTo (e : Enc) (count : Nat) : Option Enc := emit e [cmdWord cmdMoveTo count]
def lineTo (e : Enc) (count : Nat) : Option Enc := emit e [cmdWord cmdLineTo count]
def closePath (e : Enc) : Option Enc := emit e [cmdWord cmdClosePath 1]

/-- the two parameter words `XY` appends when the cursor is `c` -/
def xyWords (c p : Pt) : List UInt32 := [zigzagEncode (p.1 - c.1), zigzagEncode (p.2 - c.2)]

def xy (e : Enc) (x y : Int) : Option Enc :=
  (emit e (xyWords (e.cx, e.cy) (x, y))).map fun e' => { e' with cx := x, cy := y }

/-- `e.Point(p)` for each point in turn -/
def xys : Enc → List Pt → Option Enc
  | e, [] => some e
  | e, p :: ps => (xy e p.1 p.2).bind fun e' => xys e' ps

/-! ### tags -/

/-- `e.key(key)`: index of the key, interned at the end when new -/
def internKey (keys : List String) (k : String) : List String × UInt32 :=
  if k ∈ keys then (keys, UInt32.ofNat (keys.idxOf k)) else (keys ++ [k], UInt32.ofNat keys.length)

/-- the value half of `Tag`: one `Values` list indexed by the two Go maps -/
def internVal (values : List Val) (v : Val) : List Val × UInt32 :=
  if v ∈ values then (values, UInt32.ofNat (values.idxOf v)) else (values ++ [v], UInt32.ofNat values.length)

def TagArg.val? : TagArg → Option Val
  | .str s => some (.str s)
  | .i64 i => some (.int i)
  | .int i => some (.int i)
  | .other => none

/-- `Encoder.Tag(key, value)` -/
def tag (e : Enc) (k : String) (a : TagArg) : Option Enc :=
  match a.val? with
  | none => some e                                  -- log.Printf, nothing else
  | some v =>
    let (values', vi) := internVal e.values v
    let (keys', ki) := internKey e.keys k
    (withCur e fun c => { c with tags := c.tags ++ [ki, vi] }).map fun e' =>
      { e' with keys := keys', values := values' }

def tags : Enc → List (String × TagArg) → Option Enc
  | e, [] => some e
  | e, (k, a) :: r => (tag e k a).bind fun e' => tags e' r

/-! ## the geometry encoders of encoder.go, on projected integer points -/

/-- `encodePoint` -/
def encodePoint (e : Enc) (p : Pt) : Option Enc := do
  let e ← setType (startFeature e) 1
  let e ← moveTo e 1
  xy e p.1 p.2

/-- `simplifyAndEncodeLineString`; `(*line)[0]` on an empty polyline is an index panic -/
def encodeLineString (e : Enc) (pts : List Pt) : Option Enc := do
  let e ← setType (startFeature e) 2
  match pts with
  | [] => none
  | p :: ps =>
    let e ← moveTo e 1
    let e ← xy e p.1 p.2
    let e ← lineTo e ps.length
    xys e ps

/-- the order in which a loop's points are written: holes backwards, keeping the first vertex -/
def ringOrder (hole : Bool) : List Pt → List Pt
  | [] => []
  | p :: ps => p :: (if hole then ps.reverse else ps)

/-- body of the loop over `polygon.Loops()` for one loop with `hole = loop.IsHole()` -/
def encodeLoop (e : Enc) (hole : Bool) (pts : List Pt) : Option Enc :=
  if pts.length > 1 then
    match pts with
    | [] => some e
    | p :: ps => do
      let e ← moveTo e 1
      let e ← xy e p.1 p.2
      let e ← lineTo e ps.length
      let e ← xys e (if hole then ps.reverse else ps)
      closePath e
  else some e

def encodeLoops : Enc → List (Bool × List Pt) → Option Enc
  | e, [] => some e
  | e, (h, pts) :: r => (encodeLoop e h pts).bind fun e' => encodeLoops e' r

/-- `simplifyAndEncodePolygon` -/
def encodePolygon (e : Enc) (loops : List (Bool × List Pt)) : Option Enc := do
  let e ← setType (startFeature e) 3
  encodeLoops e loops

/-- a feature geometry as `EncodeTile` sees it after projection -/
inductive Geom where
  | point (p : Pt)
  | line (pts : List Pt)
  | polygon (loops : List (Bool × List Pt))
  deriving Repr

/-- the `switch g := feature.Geometry.(type)` of `EncodeTile` -/
def encodeGeom (e : Enc) : Geom → Option Enc
  | .point p => encodePoint e p
  | .line pts => encodeLineString e pts
  | .polygon loops => encodePolygon e loops

structure FeatureIn where
  geom : Geom
  id : Nat
  tags : List (String × String)     -- in the order the Go map iteration produced them

/-- body of `for _, feature := range layer.Features` -/
def encodeFeature (e : Enc) (f : FeatureIn) : Option Enc :=
  (encodeGeom e f.geom).bind fun e1 =>
    (if f.id ≠ 0 then setID e1 f.id else some e1).bind fun e2 =>
      tags e2 (f.tags.map fun (k, v) => (k, TagArg.str v))

def encodeFeatures : Enc → List FeatureIn → Option Enc
  | e, [] => some e
  | e, f :: r => (encodeFeature e f).bind fun e' => encodeFeatures e' r

/-- origin of a tile: `int(location.X<<TileExtent)` -/
def tileOrigin (x y : Nat) : Pt := ((x * 4096 : Nat), (y * 4096 : Nat))

/-- one non-empty layer of `EncodeTile` -/
def encodeLayer (x y : Nat) (fs : List FeatureIn) : Option Enc :=
  encodeFeatures (newEncoder (tileOrigin x y).1 (tileOrigin x y).2) fs

/-- `newBackgroundLayer` -/
def backgroundLayer : Option Enc := do
  let e ← setType (startFeature (newEncoder 0 0)) 3
  let e ← moveTo e 1
  let e ← xy e 0 0
  let e ← lineTo e 3
  let e ← xy e 4095 0
  let e ← xy e 4095 4095
  let e ← xy e 0 4095
  closePath e

/-! ## decoder (MVT 2.1 §4.3) -/

inductive Op where
  | moveTo (pts : List Pt)
  | lineTo (pts : List Pt)
  | closePath
  deriving DecidableEq, Repr

inductive Mode where
  | cmd                                                   -- a CommandInteger is expected
  | px (id rem : Nat) (acc : List Pt)                     -- dX of the next of `rem ≥ 1` pairs is expected
  | py (id rem : Nat) (acc : List Pt) (x : Int)           -- dY is expected
  deriving DecidableEq, Repr

structure DState where
  cur : Pt := (0, 0)
  ops : List Op := []
  mode : Mode := .cmd
  deriving DecidableEq, Repr

def mkOp (id : Nat) (pts : List Pt) : Op := if id = cmdMoveTo then .moveTo pts else .lineTo pts

def dstep (s : DState) (w : UInt32) : Option DState :=
  match s.mode with
  | .cmd =>
    let id := cmdId w
    let n := cmdCount w
    if id = cmdMoveTo ∨ id = cmdLineTo then
      if n = 0 then none else some { s with mode := .px id n [] }
    else if id = cmdClosePath then
      if n = 1 then some { s with ops := s.ops ++ [.closePath] } else none
    else none
  | .px id rem acc => some { s with mode := .py id rem acc (s.cur.1 + paramValue w) }
  | .py id rem acc x =>
    let p : Pt := (x, s.cur.2 + paramValue w)
    if rem ≤ 1 then some { cur := p, ops := s.ops ++ [mkOp id (acc ++ [p])], mode := .cmd }
    else some { cur := p, ops := s.ops, mode := .px id (rem - 1) (acc ++ [p]) }

def drun : DState → List UInt32 → Option DState
  | s, [] => some s
  | s, w :: ws => (dstep s w).bind fun s' => drun s' ws

/-- the command sequence of a geometry; `none` = not a well-formed command stream -/
def decodeOps (ws : List UInt32) : Option (List Op) :=
  (drun {} ws).bind fun s => if s.mode = .cmd then some s.ops else none

/-- §4.3.4.2 -/
def asPoints : List Op → Option (List Pt)
  | [.moveTo pts] => some pts
  | _ => none

/-- §4.3.4.3 (one or more line strings) -/
def asLines : List Op → Option (List (List Pt))
  | [] => some []
  | .moveTo [p] :: .lineTo qs :: rest => (asLines rest).map fun r => (p :: qs) :: r
  | _ => none

/-- §4.3.4.4 (rings; exterior / interior is decided by the sign of the area) -/
def asRings : List Op → Option (List (List Pt))
  | [] => some []
  | .moveTo [p] :: .lineTo qs :: .closePath :: rest =>
    if qs.length ≥ 2 then (asRings rest).map fun r => (p :: qs) :: r else none
  | _ => none

inductive Decoded where
  | points (pts : List Pt)
  | lines (ls : List (List Pt))
  | rings (rs : List (List Pt))
  deriving DecidableEq, Repr

/-- decode the geometry of a feature of type `t` (1 POINT, 2 LINESTRING, 3 POLYGON).  A LINESTRING must hold at
least one line; a POLYGON with no ring at all (an empty S2 polygon) decodes to no rings. -/
def decodeGeometry (t : Nat) (ws : List UInt32) : Option Decoded :=
  (decodeOps ws).bind fun ops =>
    if t = 1 then (asPoints ops).map .points
    else if t = 2 then (if ops = [] then none else (asLines ops).map .lines)
    else if t = 3 then (asRings ops).map .rings
    else none

/-- twice the signed area of a closed ring by the surveyor's formula (§4.3.4.4), on integers -/
def cross (a b : Pt) : Int := a.1 * b.2 - b.1 * a.2

def pathSum : List Pt → Int
  | a :: b :: r => cross a b + pathSum (b :: r)
  | _ => 0

def area2 : List Pt → Int
  | [] => 0
  | p :: ps => pathSum (p :: ps ++ [p])

/-- §4.4.1 feature tags → (key, value) pairs through the layer tables -/
def decodeTags (keys : List String) (values : List Val) : List UInt32 → Option (List (String × Val))
  | [] => some []
  | [_] => none
  | k :: v :: r =>
    match keys[k.toNat]?, values[v.toNat]?, decodeTags keys values r with
    | some key, some val, some rest => some ((key, val) :: rest)
    | _, _, _ => none

/-! ## what a reader should see -/

def rel (o : Pt) (p : Pt) : Pt := (p.1 - o.1, p.2 - o.2)

/-- the rings a polygon is expected to decode to: loops with fewer than two points are not drawn, holes come
backwards from their first vertex, coordinates relative to the tile origin -/
def expectedRings (o : Pt) (loops : List (Bool × List Pt)) : List (List Pt) :=
  (loops.filter fun l => l.2.length > 1).map fun l => (ringOrder l.1 l.2).map (rel o)

def Geom.expected (o : Pt) : Geom → Decoded
  | .point p => .points [rel o p]
  | .line pts => .lines [pts.map (rel o)]
  | .polygon loops => .rings (expectedRings o loops)

/-- the points in the order the encoder visits them -/
def Geom.visited : Geom → List Pt
  | .point p => [p]
  | .line pts => pts
  | .polygon loops => ((loops.filter fun l => l.2.length > 1).map fun l => ringOrder l.1 l.2).flatten

def inInt32 (d : Int) : Prop := -2147483648 ≤ d ∧ d < 2147483648

instance (d : Int) : Decidable (inInt32 d) := by unfold inInt32; infer_instance

/-- every cursor delta along the visited points (starting at `c`) fits an int32 -/
def DeltasOk : Pt → List Pt → Prop
  | _, [] => True
  | c, p :: ps => inInt32 (p.1 - c.1) ∧ inInt32 (p.2 - c.2) ∧ DeltasOk p ps

instance : (c : Pt) → (ps : List Pt) → Decidable (DeltasOk c ps)
  | _, [] => isTrue trivial
  | c, p :: ps =>
    have := instDecidableDeltasOk p ps
    by unfold DeltasOk; infer_instance

/-- shapes the command grammar can express: a line has 2 … 2^29 points; a loop has 0, 1 (not drawn) or 3 … 2^29
points (the command count has 29 bits) -/
def Geom.wellFormed : Geom → Prop
  | .point _ => True
  | .line pts => 2 ≤ pts.length ∧ pts.length ≤ 2 ^ 29
  | .polygon loops => ∀ l ∈ loops, l.2.length ≠ 2 ∧ l.2.length ≤ 2 ^ 29

def Geom.ftype : Geom → Nat
  | .point _ => 1
  | .line _ => 2
  | .polygon _ => 3

end B6.Model.TileEncoder
