/-!
# Model of `graph.ShortestPathSearch` (b6/graph/graph.go)

What is mirrored (function by function):

* `reachable{point, visited, distance, segment}`                → `Entry` (keyed by point in `Table` = `byPoint`)
* `NewShortestPathSearchFromPoint` (connected origin / nothing) → `initTable origins`
* `AddOrUpdate` (strict `r.distance > distance` decrease-key, else insert) → `addOrUpdate`
* the body of the `for ss.Next()` loop of `ExpandSearch` / `ExpandSearchTo`
  (`!ok || !next.visited`, `IsUseable`, `r.distance+weight < maxDistance`) → `relax`
* one iteration of the outer loop after `heap.Pop` (mark visited, traverse) → `expand`
* `container/heap` on `queue` (`Push` = append+`up`, `Pop` = swap+`down`+remove last, `Fix`)  → `Heap.*`
  and the whole loop with the real binary heap                  → `runH` (`ExpandSearch` when `to = none`,
  `ExpandSearchTo` with its `+Inf` sentinel and both early-stop conditions when `to = some _`)
* `BuildRoute` / `BuildPath` (follow `segment.FirstFeatureID()` back until `SegmentInvalid`) → `buildRoute`

Abstraction used by the theorems (Props/C30): the heap is "some minimum" — `IsMin t p` — and a search is any
sequence of `expand` steps at such minima (`Reach`).  `runH` resolves that choice exactly as `container/heap`
does and *checks* at run time (`isMinB`) that every pop is such a minimum, so every successful `runH` run is
a `Reach` run (`runH_reach`, proved in Props).  `runHU` is the same loop without the check (the code as it
is); `Lemmas/DijkstraHeap.lean` proves the heap invariant, so the check never fails and `runHU = runH`.

Weights live in an abstract ordered additive structure `Cost` with exactly the laws the proofs use; IEEE
doubles (without NaN) satisfy them (`+` is monotone under rounding, `a ≤ a + w` for `0 ≤ w`), `Nat` does
(instance below; the correspondence run uses integer-valued float weights, for which float addition is exact).

Outside the model: `pathStates`, `byArea`/`PointsAndAreas`, origins from buildings, `Traverse` itself (its
result is an input: `Graph.adj`), `FillCountsAndDistancesFromPaths`.
-/
namespace B6.Model.Dijkstra

/-- Operations the code uses on distances: `+`, `<` (and `0` for the origin). -/
class Cost (α : Type) extends Add α, LE α, LT α where
  zero : α
  decLt : ∀ a b : α, Decidable (a < b)

instance {α} [Cost α] (a b : α) : Decidable (a < b) := Cost.decLt a b

/-- The laws the proofs need (and nothing else): a total preorder, `<` is its strict part,
addition on the right is monotone, adding a non-negative weight does not decrease. -/
class LawfulCost (α : Type) [Cost α] : Prop where
  le_refl : ∀ a : α, a ≤ a
  le_trans : ∀ {a b c : α}, a ≤ b → b ≤ c → a ≤ c
  le_total : ∀ a b : α, a ≤ b ∨ b ≤ a
  lt_iff_not_le : ∀ {a b : α}, a < b ↔ ¬ b ≤ a
  add_le_add_right : ∀ {a b : α} (w : α), a ≤ b → a + w ≤ b + w
  le_add_of_nonneg : ∀ (a : α) {w : α}, Cost.zero ≤ w → a ≤ a + w

instance : Cost Nat where
  zero := 0
  decLt := fun a b => inferInstanceAs (Decidable (a < b))

instance : LawfulCost Nat where
  le_refl := Nat.le_refl
  le_trans := Nat.le_trans
  le_total := Nat.le_total
  lt_iff_not_le := by intro a b; exact Nat.not_le.symm
  add_le_add_right := by intro a b w h; exact Nat.add_le_add_right h w
  le_add_of_nonneg := by intro a w _; exact Nat.le_add_right a w

/-- One `b6.Segment` as returned by `World.Traverse`, with what the search asks about it. -/
structure Edge (P S α : Type) where
  seg : S          -- (path, first index, last index)
  first : P        -- segment.FirstFeatureID()
  last : P         -- segment.LastFeatureID()
  usable : Bool    -- weights.IsUseable(segment)
  weight : α       -- weights.Weight(segment)
deriving DecidableEq, Repr

/-- `w.Traverse(point)` in order. -/
structure Graph (P S α : Type) where
  adj : P → List (Edge P S α)

/-- `reachable` without the heap index. `back = none` is `b6.SegmentInvalid`. -/
structure Entry (P S α : Type) where
  visited : Bool
  dist : α
  back : Option (Edge P S α)
deriving Repr

/-- `byPoint`: association list, first binding wins, updated in place, new keys appended. -/
abbrev Table (P S α : Type) := List (P × Entry P S α)

section
variable {P S α : Type} [DecidableEq P] [Cost α]

def tget : Table P S α → P → Option (Entry P S α)
  | [], _ => none
  | (k, e) :: rest, p => if k = p then some e else tget rest p

def tput : Table P S α → P → Entry P S α → Table P S α
  | [], p, e => [(p, e)]
  | (k, x) :: rest, p, e => if k = p then (k, e) :: rest else (k, x) :: tput rest p e

/-- `NewShortestPathSearchFromPoint` for a connected point: one entry, distance 0, no segment.
(`FillOriginsFromBuildings` may queue the same point twice; the second copy is behaviourally invisible,
here a repeated origin is simply entered once.) -/
def initTable (origins : List P) : Table P S α :=
  origins.foldl (fun t o => match tget t o with
    | some _ => t
    | none => tput t o { visited := false, dist := Cost.zero, back := none }) []

/-- What `AddOrUpdate` did to the heap (needed by the heap simulation only). -/
inductive Touch where
  | nothing | pushed | decreased
deriving DecidableEq, Repr

/-- `AddOrUpdate(segment, distance)` (point features only). -/
def addOrUpdateK (t : Table P S α) (e : Edge P S α) (d : α) : Table P S α × Touch :=
  match tget t e.last with
  | some r =>
    if d < r.dist then (tput t e.last { r with dist := d, back := some e }, .decreased)   -- r.distance > distance
    else (t, .nothing)
  | none => (tput t e.last { visited := false, dist := d, back := some e }, .pushed)

/-- body of `for ss.Next()` for one segment, `d = r.distance` of the popped entry -/
def relaxK (max d : α) (t : Table P S α) (e : Edge P S α) : Table P S α × Touch :=
  let skip := match tget t e.last with
    | some n => n.visited
    | none => false
  if skip then (t, .nothing)
  else if e.usable then
    if d + e.weight < max then addOrUpdateK t e (d + e.weight) else (t, .nothing)
  else (t, .nothing)

def relax (max d : α) (t : Table P S α) (e : Edge P S α) : Table P S α := (relaxK max d t e).1

/-- `s.byPoint[r.point].visited = true` -/
def markVisited (t : Table P S α) (p : P) : Option (Table P S α × Entry P S α) :=
  match tget t p with
  | none => none                      -- Go: nil dereference (cannot happen for a popped entry)
  | some r => some (tput t p { r with visited := true }, r)

/-- One iteration of `ExpandSearch`'s outer loop for the popped point `p`. -/
def expand (g : Graph P S α) (max : α) (t : Table P S α) (p : P) : Option (Table P S α) :=
  match markVisited t p with
  | none => none
  | some (t1, r) => some ((g.adj p).foldl (relax max r.dist) t1)

/-- `p` may be returned by `heap.Pop`: it is queued (in the table, not yet visited) and no queued entry is
strictly closer. -/
def IsMin (t : Table P S α) (p : P) : Prop :=
  ∃ ep, tget t p = some ep ∧ ep.visited = false ∧
    ∀ q eq, tget t q = some eq → eq.visited = false → ¬ (eq.dist < ep.dist)

def isMinB (t : Table P S α) (p : P) : Bool :=
  match tget t p with
  | none => false
  | some ep => !ep.visited && t.all (fun (q, _) =>
      match tget t q with
      | some eq => eq.visited || !(decide (eq.dist < ep.dist))
      | none => true)

/-- every entry has been popped: the queue is empty -/
def allVisited (t : Table P S α) : Bool := t.all (fun (_, e) => e.visited)

/-! ### BuildRoute -/

/-- `b6.Step` plus the full segment (`BuildPath`). -/
structure Step (P S α : Type) where
  dest : P
  via : Edge P S α
  cost : α

/-- `BuildRoute(destination)`: `none` = the Go loop would never end (fuel = number of entries + 1 is enough
for an acyclic back-pointer structure). Steps come out origin first, as after the Go reversal. -/
def buildRoute (t : Table P S α) : Nat → P → List (Step P S α) → Option (P × List (Step P S α))
  | 0, _, _ => none
  | n + 1, p, acc =>
    match tget t p with
    | some r =>
      match r.back with
      | some b => buildRoute t n b.first ({ dest := p, via := b, cost := r.dist } :: acc)
      | none => some (p, acc)
    | none => some (p, acc)

/-! ### `container/heap` over `queue` (entries identified by their point) -/
namespace Heap

def less (t : Table P S α) (h : Array P) (i j : Nat) : Option Bool := do
  let a ← h[i]?
  let b ← h[j]?
  let ea ← tget t a
  let eb ← tget t b
  pure (decide (ea.dist < eb.dist))

def swap (h : Array P) (i j : Nat) : Option (Array P) := do
  let a ← h[i]?
  let b ← h[j]?
  pure ((h.setIfInBounds i b).setIfInBounds j a)

/-- `heap.up(h, j)` -/
def up (t : Table P S α) : Nat → Array P → Nat → Option (Array P)
  | 0, _, _ => none
  | fuel + 1, h, j =>
    let i := (j - 1) / 2
    if j = 0 then some h             -- Go: i == j (integer division of -1 gives 0)
    else do
      let lt ← less t h j i
      if !lt then pure h
      else
        let h' ← swap h i j
        up t fuel h' i

/-- the child `down` compares with: `j2` if it exists and is `Less` than `j1`, else `j1` -/
def pickChild (t : Table P S α) (h : Array P) (j1 n : Nat) : Option Nat :=
  if j1 + 1 < n then
    match less t h (j1 + 1) j1 with
    | none => none
    | some pick2 => some (if pick2 then j1 + 1 else j1)
  else some j1

/-- `heap.down(h, i0, n)`; returns the array and the final position -/
def down (t : Table P S α) : Nat → Array P → Nat → Nat → Option (Array P × Nat)
  | 0, _, _, _ => none
  | fuel + 1, h, i, n =>
    if 2 * i + 1 ≥ n then some (h, i)
    else
      match pickChild t h (2 * i + 1) n with
      | none => none
      | some j =>
        match less t h j i with
        | none => none
        | some lt =>
          if !lt then some (h, i)
          else
            match swap h i j with
            | none => none
            | some h' => down t fuel h' j n

/-- `heap.Push` after the entry is in the table -/
def push (t : Table P S α) (h : Array P) (p : P) : Option (Array P) :=
  let h' := h.push p
  up t (h'.size + 1) h' (h'.size - 1)

/-- `heap.Pop`: swap(0, n-1); down(0, n-1); remove last -/
def pop (t : Table P S α) (h : Array P) : Option (P × Array P) :=
  if h.size = 0 then none
  else do
    let n := h.size - 1
    let h1 ← swap h 0 n
    let (h2, _) ← down t (h.size + 1) h1 0 n
    let p ← h2[n]?
    pure (p, h2.pop)

/-- `r.index`: where the entry of `p` sits in the queue (kept up to date by `Swap`/`Push` in the Go code) -/
def indexOf (h : Array P) (p : P) : Nat → Nat → Option Nat
  | 0, _ => none
  | fuel + 1, k => if h[k]? = some p then some k else if k + 1 < h.size then indexOf h p fuel (k + 1) else none

/-- `heap.Fix(h, r.index)` -/
def fix (t : Table P S α) (h : Array P) (p : P) : Option (Array P) := do
  let i ← indexOf h p h.size 0
  let (h1, i') ← down t (h.size + 1) h i h.size
  if i' > i then pure h1 else up t (h.size + 1) h1 i

end Heap

/-- search state with the real queue -/
structure HState (P S α : Type) where
  t : Table P S α
  heap : Array P

/-- one segment of the inner loop, table and heap together; the table component is `relax` by construction -/
def relaxH (max d : α) (s : Option (HState P S α)) (e : Edge P S α) : Option (HState P S α) :=
  match s with
  | none => none
  | some s =>
    let (t', k) := relaxK max d s.t e
    match k with
    | .nothing => some { t := t', heap := s.heap }
    | .pushed => (Heap.push t' s.heap e.last).map fun h => { t := t', heap := h }
    | .decreased => (Heap.fix t' s.heap e.last).map fun h => { t := t', heap := h }

inductive Outcome (P S α : Type) where
  | done (s : HState P S α)          -- loop ended
  | invalidPop (p : P)               -- the heap returned something that is not a queued minimum
  | stuck                            -- heap simulation failed (entry missing from table / index) or fuel ran out

/-- `if r.point == to || destination.distance < r.distance { break }` (`ExpandSearchTo` only);
`destination` is the `byPoint` entry of `to`. -/
def stopNow (to : Option P) (p : P) (t1 : Table P S α) (r : Entry P S α) : Bool :=
  match to with
  | none => false
  | some dest => decide (p = dest) || (match tget t1 dest with
      | some de => decide (de.dist < r.dist)
      | none => false)

/-- `ExpandSearch` (`to = none`) / `ExpandSearchTo` after the sentinel push (`to = some dest`). -/
def runH (g : Graph P S α) (max : α) (to : Option P) : Nat → HState P S α → Outcome P S α
  | 0, s => if s.heap.size = 0 then .done s else .stuck
  | fuel + 1, s =>
    if s.heap.size = 0 then .done s
    else
      match Heap.pop s.t s.heap with
      | none => .stuck
      | some (p, h1) =>
        if !isMinB s.t p then .invalidPop p
        else
          match markVisited s.t p with
          | none => .stuck
          | some (t1, r) =>
            if stopNow to p t1 r then .done { t := t1, heap := h1 }
            else
              match (g.adj p).foldl (relaxH max r.dist) (some { t := t1, heap := h1 }) with
              | none => .stuck
              | some s' => runH g max to fuel s'

/-- The loop exactly as the Go code has it: no check on what the heap returns. `runHU = runH` whenever the
queue is a well-formed heap of the unvisited entries (`runHU_eq_runH` in Props/C30). -/
def runHU (g : Graph P S α) (max : α) (to : Option P) : Nat → HState P S α → Outcome P S α
  | 0, s => if s.heap.size = 0 then .done s else .stuck
  | fuel + 1, s =>
    if s.heap.size = 0 then .done s
    else
      match Heap.pop s.t s.heap with
      | none => .stuck
      | some (p, h1) =>
        match markVisited s.t p with
        | none => .stuck
        | some (t1, r) =>
          if stopNow to p t1 r then .done { t := t1, heap := h1 }
          else
            match (g.adj p).foldl (relaxH max r.dist) (some { t := t1, heap := h1 }) with
            | none => .stuck
            | some s' => runHU g max to fuel s'

/-- the queue after `NewShortestPathSearchFromPoint`: the origin if it is connected, nothing otherwise
(`origins` = `[from]` or `[]`; a list keeps the multi-origin form of `FillOriginsFromBuildings`, entered once each) -/
def dedup : List P → List P
  | [] => []
  | x :: xs => x :: (dedup xs).filter (fun y => y ≠ x)

def initHeap (origins : List P) : Array P := (dedup origins).toArray

/-- `NewShortestPathSearchFromPoint`, then `ExpandSearch(max)`. -/
def search (g : Graph P S α) (max : α) (origins : List P) (fuel : Nat) : Outcome P S α :=
  runH g max none fuel { t := initTable origins, heap := initHeap origins }

/-- `search` without the run-time check (the code as it is) -/
def searchU (g : Graph P S α) (max : α) (origins : List P) (fuel : Nat) : Outcome P S α :=
  runHU g max none fuel { t := initTable origins, heap := initHeap origins }

def sentinelTable (origins : List P) (dest : P) (inf : α) : Table P S α :=
  tput (initTable origins) dest { visited := false, dist := inf, back := none }

/-- state after the first three statements of `ExpandSearchTo(dest)` (after fix
C30-expandsearchto-known-destination): a destination the search already knows (the origin itself) keeps its
entry; otherwise the `+Inf` placeholder is entered and pushed. `none`: the heap simulation failed. -/
def searchToStart (origins : List P) (dest : P) (inf : α) : Option (HState P S α) :=
  match tget (initTable origins : Table P S α) dest with
  | some _ => some { t := initTable origins, heap := initHeap origins }
  | none =>
    (Heap.push (sentinelTable origins dest inf : Table P S α) (initHeap origins) dest).map
      fun h => { t := sentinelTable origins dest inf, heap := h }

/-- `…FromPoint` then `ExpandSearchTo(dest, max)`; `inf` stands for `math.Inf(1)`: any value that is
not below a distance the search can record (the driver passes `max + 1`). -/
def searchTo (g : Graph P S α) (max inf : α) (origins : List P) (dest : P) (fuel : Nat) : Outcome P S α :=
  match searchToStart origins dest inf with
  | none => .stuck
  | some s => runH g max (some dest) fuel s

def searchToU (g : Graph P S α) (max inf : α) (origins : List P) (dest : P) (fuel : Nat) : Outcome P S α :=
  match searchToStart origins dest inf with
  | none => .stuck
  | some s => runHU g max (some dest) fuel s

/-! ### `ComputeAccessibility`: `PointDistances` + `FillCountsAndDistancesFromPaths` (after fix
C30-accessibility-keeps-node-distances)

For every recorded point, every segment of its `BuildPath` is walked; a point of such a segment that the search did
not reach itself gets a geometrically interpolated distance (opaque here: `none`), reached points keep the
distance the search found. `segPoints seg` = the points of the path between the segment's two indices. -/

/-- points that get an interpolated value: on a segment of some recorded route, not reached by the search -/
def interpolatedPoints (t : Table P S α) (segPoints : S → List P) : List P :=
  dedup ((t.flatMap fun (p, _) =>
    match buildRoute t (t.length + 1) p [] with
    | some (_, steps) => steps.flatMap fun st => segPoints st.via.seg
    | none => []).filter fun q => (tget t q).isNone)

/-- the distance map `ComputeAccessibility` returns: `some d` = the search's distance, `none` = interpolated -/
def accessibility (t : Table P S α) (segPoints : S → List P) : List (P × Option α) :=
  t.map (fun (p, e) => (p, some e.dist)) ++ (interpolatedPoints t segPoints).map (fun q => (q, none))

def accGet : List (P × Option α) → P → Option (Option α)
  | [], _ => none
  | (k, v) :: rest, p => if k = p then some v else accGet rest p

end
end B6.Model.Dijkstra
