/-!
# Model of the reverse-reference index (ingest/features.go, ingest/mutable.go) — C15

`FeatureReferencesByID` is a Go `map[FeatureID][]Reference`: for every *target* ID the list of
features that reference it.  An entry is either a plain `FeatureID` (areas, relations, collections)
or a `*IndexedFeatureID` (generic features, i.e. paths: the entry also carries the position of the
target inside the path).  The model keeps both.

Modelled as written:
* `AddFeature`   — `addFeature` (per reference: look for an entry with the same source, overwrite its
  index when it is an indexed entry, otherwise append);
* `RemoveFeature`— `removeFeature`, the in-loop slice deletion on a Go-slice model (`removeLoop`:
  the `range` header is evaluated once, so the loop runs over the ORIGINAL length and reads the
  CURRENT backing array; `cur[i+1:]` beyond `len` is Go's slice-bounds panic = `none`);
* `findReferences` — the recursion with the visited test (the repaired code, fixes/C15-*.patch) as
  an explicit stack (`dfs`); `dfsOld` is the code before the repair (no visited test);
* `FeatureReferencesByID.FindReferences`, `BasicMutableWorld.FindReferences`,
  `MutableOverlayWorld.FindReferences`, `BasicMutableWorld/MutableOverlayWorld.AddFeature`
  (reference maintenance only; validation is outside this model).
-/
namespace B6.Model.RefIndex

/-- feature ID: (feature type, value); the namespace is fixed. Types as in world.go:
point 0, path 1, area 2, relation 3, collection 5. -/
abbrev Id := Nat × Nat

/-- an entry of the index: the referencing feature and, for indexed entries, the position. -/
structure Ref where
  src : Id
  pos : Option Nat
deriving DecidableEq, Repr

/-- reference skeleton of a feature: its ID and `References()` in order. -/
structure Feature where
  id : Id
  refs : List Id
deriving DecidableEq, Repr

abbrev Index := List (Id × List Ref)

def lookup : Index → Id → Option (List Ref)
  | [], _ => none
  | (k, v) :: rest, t => if k = t then some v else lookup rest t

/-- `(*f)[t] = rs` -/
def setKey : Index → Id → List Ref → Index
  | [], t, rs => [(t, rs)]
  | (k, v) :: rest, t, rs => if k = t then (k, rs) :: rest else (k, v) :: setKey rest t rs

/-- `(*f)[t]` read through the `ok` test: an absent key has no entries. -/
def entries (ix : Index) (t : Id) : List Ref :=
  match lookup ix t with
  | some rs => rs
  | none => []

/-- generic features (points, paths) take their references from the `path` tag: indexed entries. -/
def isGeneric (id : Id) : Bool := decide (id.1 ≤ 1)

def mkRef (fid : Id) (i : Nat) : Ref := if isGeneric fid then ⟨fid, some i⟩ else ⟨fid, none⟩

/-- one iteration of the loop of `AddFeature` (reference number `i`, target `t`). -/
def addRef (ix : Index) (fid : Id) (i : Nat) (t : Id) : Index :=
  match lookup ix t with
  | none => setKey ix t [mkRef fid i]
  | some rs =>
    if rs.any (fun r => decide (r.src = fid)) then
      setKey ix t (rs.map fun r => if r.src = fid ∧ r.pos.isSome then { r with pos := some i } else r)
    else setKey ix t (rs ++ [mkRef fid i])

def addRefs (ix : Index) (fid : Id) : Nat → List Id → Index
  | _, [] => ix
  | i, t :: ts => addRefs (addRef ix fid i t) fid (i + 1) ts

/-- `FeatureReferencesByID.AddFeature` -/
def addFeature (ix : Index) (f : Feature) : Index := addRefs ix f.id 0 f.refs

/-- The inner loop of `RemoveFeature` on a Go slice: `arr` is the backing array (the `range` header
has length `n = arr.length`), `len` the current length of `(*f)[t]`; `k` iterations remain, the
current one is `i = n - k`. `none` = slice-bounds panic. -/
def removeLoop (fid : Id) (n : Nat) : Nat → List Ref → Nat → Option (List Ref × Nat)
  | 0, arr, len => some (arr, len)
  | k + 1, arr, len =>
    let i := n - (k + 1)
    match arr[i]? with
    | none => none
    | some r =>
      if r.src = fid then
        if i = n - 1 then
          removeLoop fid n k arr i                                -- (*f)[t] = (*f)[t][:i]
        else if i + 1 ≤ len then                                  -- append(cur[:i], cur[i+1:]...)
          removeLoop fid n k (arr.take i ++ (arr.drop (i + 1)).take (len - (i + 1)) ++ arr.drop (len - 1)) (len - 1)
        else none
      else removeLoop fid n k arr len

def removeFrom (fid : Id) (rs : List Ref) : Option (List Ref) :=
  match removeLoop fid rs.length rs.length rs rs.length with
  | some (arr, len) => some (arr.take len)
  | none => none

def removeRefs (ix : Index) (fid : Id) : List Id → Option Index
  | [] => some ix
  | t :: ts =>
    match lookup ix t with
    | none => removeRefs ix fid ts
    | some rs =>
      match removeFrom fid rs with
      | none => none
      | some rs' => removeRefs (setKey ix t rs') fid ts

/-- `FeatureReferencesByID.RemoveFeature`; `none` = panic. -/
def removeFeature (ix : Index) (f : Feature) : Option Index := removeRefs ix f.id f.refs

/-! ## findReferences -/

/-- identity of a `Reference` value used as a Go map key: plain `FeatureID`s compare by value,
`*IndexedFeatureID`s by pointer — one pointer per (target, source) entry. -/
inductive Key where
  | plain (src : Id)
  | ptr (tgt src : Id)
deriving DecidableEq, Repr

def Key.src : Key → Id
  | .plain s => s
  | .ptr _ s => s

def keyOf (t : Id) (r : Ref) : Key := if r.pos.isSome then .ptr t r.src else .plain r.src

/-- entries of `t` as work items (target, entry) -/
def work (ix : Index) (t : Id) : List (Id × Ref) := (entries ix t).map fun r => (t, r)

/-- `findReferences` after the repair: the recursion `for r in (*f)[id] { if m[r] {continue}; m[r] = true;
findReferences(r.Source()) }` with the call stack made explicit (the rest of each `for` loop stays on
the stack while the callee runs). `none` = out of fuel. -/
def dfs (ix : Index) : Nat → List (Id × Ref) → List Key → Option (List Key)
  | _, [], vis => some vis
  | 0, _ :: _, _ => none
  | fuel + 1, (t, r) :: rest, vis =>
    if keyOf t r ∈ vis then dfs ix fuel rest vis
    else dfs ix fuel (work ix r.src ++ rest) (keyOf t r :: vis)

/-- the code before the repair: no visited test (`m[r] = true` is idempotent). -/
def dfsOld (ix : Index) : Nat → List (Id × Ref) → List Key → Option (List Key)
  | _, [], vis => some vis
  | 0, _ :: _, _ => none
  | fuel + 1, (t, r) :: rest, vis =>
    dfsOld ix fuel (work ix r.src ++ rest) (if keyOf t r ∈ vis then vis else keyOf t r :: vis)

/-- total number of entries -/
def size : Index → Nat
  | [] => 0
  | (_, v) :: rest => v.length + size rest

/-- enough fuel for every index (theorem `dfs_terminates`). -/
def fuelFor (ix : Index) : Nat := (size ix + 1) * (size ix + 1) + 1

def typeOk (typed : List Nat) (id : Id) : Bool := typed.isEmpty || typed.contains id.1

/-- `FeatureReferencesByID.FindReferences(id, typed...)`: the sources of the visited references,
one per map key (Go map order: compare as multisets). `none` = does not terminate within the fuel. -/
def findReferences (ix : Index) (id : Id) (typed : List Nat) : Option (List Id) :=
  match dfs ix (fuelFor ix) (work ix id) [] with
  | some ks => some ((ks.map Key.src).filter (typeOk typed))
  | none => none

def findReferencesOld (fuel : Nat) (ix : Index) (id : Id) (typed : List Nat) : Option (List Id) :=
  match dfsOld ix fuel (work ix id) [] with
  | some ks => some ((ks.map Key.src).filter (typeOk typed))
  | none => none

/-! ## worlds -/

def findFeature (fs : List Feature) (id : Id) : Option Feature := fs.find? (fun f => decide (f.id = id))

def hasFeature (fs : List Feature) (id : Id) : Bool := (findFeature fs id).isSome

/-- `features[f.id] = f` -/
def putFeature : List Feature → Feature → List Feature
  | [], f => [f]
  | g :: rest, f => if g.id = f.id then f :: rest else g :: putFeature rest f

def dedup : List Id → List Id
  | [] => []
  | x :: xs => let r := dedup xs; if x ∈ r then r else x :: r

/-- `basicWorld/BasicMutableWorld.FindReferences`: existing features among the referrers, each once. -/
def basicFind (fs : List Feature) (ix : Index) (id : Id) (typed : List Nat) : Option (List Id) :=
  match findReferences ix id typed with
  | some srcs => some (dedup (srcs.filter (hasFeature fs)))
  | none => none

structure World where
  feats : List Feature
  ix : Index
deriving Repr

def World.empty : World := ⟨[], []⟩

/-- `NewFilledFeatureReferences` (the order of the Go map iteration does not change the entry SETS) -/
def fill (fs : List Feature) : Index := fs.foldl addFeature []

def removeAll (ix : Index) : List Feature → Option Index
  | [] => some ix
  | g :: gs => match removeFeature ix g with
    | some ix' => removeAll ix' gs
    | none => none

def current (fs : List Feature) (ids : List Id) : List Feature := ids.filterMap (findFeature fs)

/-- `BasicMutableWorld.AddFeature` after validation succeeded: `ModifiedFeatures.Update`
(remove the references of the existing version and of every existing referrer, merge, add them back).
The referrers alias the stored features, so the re-added versions are looked up after the merge. -/
def World.add (w : World) (f : Feature) : Option World :=
  match basicFind w.feats w.ix f.id [] with
  | none => none
  | some refIds =>
    let existing := (findFeature w.feats f.id).toList
    match removeAll w.ix (existing ++ current w.feats refIds) with
    | none => none
    | some ix1 =>
      let feats := putFeature w.feats f
      some ⟨feats, (f :: current feats refIds).foldl addFeature ix1⟩

/-! ### MutableOverlayWorld over a base that answers `FindReferences` -/

structure Overlay where
  base : List Feature      -- the current features of the base world (flat)
  feats : List Feature     -- m.features
  ix : Index               -- m.references
deriving Repr

/-- the base world's answer (a basic world over `base`) -/
def baseFind (o : Overlay) (id : Id) : Option (List Id) := basicFind o.base (fill o.base) id []

/-- `MutableOverlayWorld.FindFeatureByID` (ID only) -/
def Overlay.has (o : Overlay) (id : Id) : Bool := hasFeature o.feats id || hasFeature o.base id

def Overlay.get (o : Overlay) (id : Id) : Option Feature :=
  match findFeature o.feats id with
  | some f => some f
  | none => findFeature o.base id

/-- one round of the loop over the base referrers: the referrer itself, then the overlay's
referrers of it (typed) -/
def collectStep (ix : Index) (typed : List Nat) (acc : Option (List Id)) (b : Id) : Option (List Id) :=
  match acc, findReferences ix b typed with
  | some a, some rs => some (a ++ b :: rs)
  | _, _ => none

/-- the IDs collected by `MutableOverlayWorld.FindReferences` before the final lookup:
base referrers (skipping those shadowed by the overlay — the repair), the overlay's referrers of
each of them (typed), the overlay's referrers of `id` (typed). -/
def Overlay.collect (o : Overlay) (id : Id) (typed : List Nat) : Option (List Id) :=
  match baseFind o id with
  | none => none
  | some bs =>
    match (bs.filter (fun b => !hasFeature o.feats b)).foldl (collectStep o.ix typed) (some []),
          findReferences o.ix id typed with
    | some a, some rs => some (a ++ rs)
    | _, _ => none

/-- `MutableOverlayWorld.FindReferences(id, typed...)` -/
def Overlay.find (o : Overlay) (id : Id) (typed : List Nat) : Option (List Id) :=
  match o.collect id typed with
  | some ids => some (dedup ((ids.filter o.has).filter (typeOk typed)))
  | none => none

/-- the same before the repair of the shadow test (with the repaired `findReferences`) -/
def Overlay.findStale (o : Overlay) (id : Id) (typed : List Nat) : Option (List Id) :=
  match baseFind o id with
  | none => none
  | some bs =>
    match bs.foldl (collectStep o.ix typed) (some []), findReferences o.ix id typed with
    | some a, some rs => some (dedup (((a ++ rs).filter o.has).filter (typeOk typed)))
    | _, _ => none

/-- `MutableOverlayWorld.AddFeature` after validation succeeded (`NewModifiedFeaturesWithCopies` +
`Update`): every current referrer that lives only in the base is copied into the overlay — except
the feature itself when a reference cycle makes it one of its own referrers (the repair
fixes/C15-overlay-self-referrer-stale-copy.patch; before it the base version's references were
indexed for the new version). -/
def Overlay.add (o : Overlay) (f : Feature) : Option Overlay :=
  match o.find f.id [] with
  | none => none
  | some refIds =>
    let existing := (findFeature o.feats f.id).toList
    let inOverlay := refIds.filter (hasFeature o.feats)
    let toCopy := refIds.filter (fun r => !hasFeature o.feats r && decide (r ≠ f.id))
    let copies := toCopy.filterMap (findFeature o.base)
    match removeAll o.ix (existing ++ current o.feats inOverlay) with
    | none => none
    | some ix1 =>
      let feats := putFeature (copies.foldl putFeature o.feats) f
      some { o with feats := feats, ix := (f :: (current feats inOverlay ++ copies)).foldl addFeature ix1 }

/-- `MutableOverlayWorld.AddTag` with a search-indexed tag on a feature that lives only in the base:
the feature is copied into the overlay (its referrers are not). -/
def Overlay.copyUp (o : Overlay) (id : Id) : Overlay :=
  match findFeature o.feats id, findFeature o.base id with
  | none, some f => { o with feats := putFeature o.feats f, ix := addFeature o.ix f }
  | _, _ => o

/-- the features of the layered world: overlay versions shadow base versions -/
def Overlay.merged (o : Overlay) : List Feature :=
  o.feats ++ o.base.filter (fun b => !hasFeature o.feats b.id)

/-- `Snapshot`: the current state becomes the base of a fresh overlay -/
def Overlay.snapshot (o : Overlay) : Overlay := ⟨o.merged, [], []⟩

end B6.Model.RefIndex
