import B6.Model.Varint
import B6.Model.Bits
/-!
# L2 records — the compact record codecs of `ingest/compact/encoding.go` (core Lean only)

Every record kind `R` of the compact index has

* `R.enc … r : Bytes`   — the bytes `R.Marshal(…, buffer)` writes (its return value is their length),
* `R.ok r : Bool`       — `false` exactly when the Go `Marshal` panics (`EncodeValueType`, "Can't encode role",
                          "Can't encode member type")
                          or the value is not representable in Go (a slice longer than any Go slice can be: ≥ 2^62 / 2^63 elements),
* `R.marshal … r : Option Bytes := if R.ok r then some (R.enc … r) else none`,
* `R.dec … : Dec R`     — `R.Unmarshal(…, buffer)` on a *fresh* receiver: the decoded value and the returned
                          byte count; `none` = the Go code panics (slice out of range, "not implemented") or the
                          buffer is not well-formed (a broken varint, a count ≥ 2^63: the Go code then reads
                          garbage; no `Marshal` output is of this kind, see `B6.Props.C11`).

Conventions.  Go `uint64`/`int`/`int64` fields are `BitVec 64`, `int32` fields `BitVec 32`, `uint16`
(`TypeAndNamespace`, `Namespace`) `BitVec 16`: every value of the Go type is a value of the model type and
no theorem needs a range hypothesis on a field.  Arithmetic on the *encoded* words is written on `Nat` with the
`% 2^64` of a Go `uint64` made explicit (`v << 2` is `v * 4 % 2^64`; `x | t` with the low bits of `x` clear is
`x + t`), arithmetic on the fields themselves (`int64(a) - int64(b)`, `int32` deltas) is `BitVec` arithmetic,
which wraps like Go.  The primary namespace of every reference list is an explicit parameter.

`AreaGeomRefs.dec` / `AreaGeomLL.dec` mirror the *repaired* `Unmarshal` (fixes/C11-area-geometry-consumed.patch);
`AreaGeomRefs.decOld` / `AreaGeomLL.decOld` are the code before the repair (`return l + …`).
-/
namespace B6.Model.Records
open B6.Model.Varint

/-! ## decoders: `buffer ↦ (value, bytes consumed)` -/

/-- an `Unmarshal` function: the value it fills in and the `int` it returns. -/
abbrev Dec (α : Type) := Bytes → Option (α × Nat)

namespace Dec
def pure {α : Type} (a : α) : Dec α := fun _ => some (a, 0)
def fail {α : Type} : Dec α := fun _ => none
/-- `i := A.Unmarshal(buffer); i += B.Unmarshal(buffer[i:]); return i` -/
def andThen {α β : Type} (d : Dec α) (f : α → Dec β) : Dec β := fun bs =>
  match d bs with
  | none => none
  | some (a, n) =>
    match f a (bs.drop n) with
    | none => none
    | some (b, m) => some (b, n + m)
def map {α β : Type} (f : α → β) (d : Dec α) : Dec β := fun bs =>
  match d bs with
  | none => none
  | some (a, n) => some (f a, n)
/-- a loop over `xs` threading a state (`last`, …) and appending one decoded element per iteration. -/
def forEach {α γ σ : Type} (step : γ → σ → Dec (α × σ)) : List γ → σ → Dec (List α)
  | [], _ => pure []
  | x :: xs, s => (step x s).andThen fun r => (forEach step xs r.2).map (r.1 :: ·)
/-- `for j := 0; j < n; j++ { … }` -/
def times {α σ : Type} (step : σ → Dec (α × σ)) (n : Nat) (s : σ) : Dec (List α) :=
  forEach (fun (_ : Unit) => step) (List.replicate n ()) s
end Dec

/-- the marshalling loop matching `Dec.forEach`: per element the bytes written and the next state. -/
def encEach {α σ : Type} (f : σ → α → Bytes × σ) : σ → List α → Bytes
  | _, [] => []
  | s, a :: as => (f s a).1 ++ encEach f (f s a).2 as

/-- `binary.Uvarint` as a decoder (value `< 2^64`). -/
def dUvarint : Dec Nat := uvarint
/-- `binary.Varint` as a decoder. -/
def dVarint : Dec (BitVec 64) := varint
/-- a `uint64` read from the buffer and used as an `int` count: `≥ 2^63` is negative in Go — outside the model. -/
def dCount : Dec Nat := fun bs =>
  match uvarint bs with
  | some (v, n) => if v < 2 ^ 63 then some (v, n) else none
  | none => none

/-! ## value type and geometry words (`EncodeValueType`, `EncodeGeometry`, …) on `Nat` -/

/-- `ValueTypeBits = 2`; `e := v << 2; e |= t` (`t` = 0 string, 1 point, 2 expressions). -/
def encodeValueType (t v : Nat) : Nat := v * 4 % 2 ^ 64 + t
/-- `EncodeValueType` does not panic: `e>>2 == v`. -/
def valueTypeOk (v : Nat) : Bool := v * 4 % 2 ^ 64 / 4 == v
/-- `EncodeGeometry(e, l)` for `e` = 0 references, 1 lat/lngs, 2 mixed. -/
def encodeGeometry (e l : Nat) : Nat :=
  match e with
  | 0 => l * 2 % 2 ^ 64
  | 1 => l * 4 % 2 ^ 64 + 1
  | _ => l * 4 % 2 ^ 64 + 3
def geometryLen (v : Nat) : Nat := if v % 2 = 0 then v / 2 else v / 4
def geometryEncoding (v : Nat) : Nat := if v % 2 = 0 then 0 else if v / 2 % 2 = 0 then 1 else 2
/-- `DecodeValue`: `v, n := Uvarint(buffer); return v >> 2, n` -/
def dValue : Dec Nat := Dec.map (· / 4) dUvarint
/-- a slice length: one a Go slice can have (the runtime's allocation limit is 2^48 bytes; `l < 2^62` is all the
model needs: `uint64(l) << 2` does not wrap) and accepted by `EncodeValueType(…, EncodeGeometry(e, l))`. -/
def lenOk (e l : Nat) : Bool := decide (l < 2 ^ 62) && valueTypeOk (encodeGeometry e l)

/-! ## Reference -/

structure Reference where
  tn : BitVec 16
  value : BitVec 64
deriving DecidableEq, Repr, Inhabited

/-- `ReferenceInvald` -/
def Reference.invalid : Reference := ⟨0#16, 0#64⟩

/-- `Reference.Marshal(primary, buffer)`: explicit form when the namespace differs or bit 63 is set. -/
def Reference.enc (p : BitVec 16) (r : Reference) : Bytes :=
  if r.tn ≠ p ∨ 2 ^ 63 ≤ r.value.toNat then
    putUvarint (r.tn.toNat * 2 + 1) ++ putUvarint r.value.toNat
  else putUvarint (r.value.toNat * 2 % 2 ^ 64)

/-- `Reference.Unmarshal(primary, buffer)` -/
def Reference.dec (p : BitVec 16) : Dec Reference :=
  dUvarint.andThen fun v =>
    if v % 2 = 1 then dUvarint.map fun x => ⟨BitVec.ofNat 16 (v / 2), BitVec.ofNat 64 x⟩
    else Dec.pure ⟨p, BitVec.ofNat 64 (v / 2)⟩

/-! ## References (zigzag deltas on the primary namespace only) -/

/-- one iteration of `References.MarshalWithoutLength`; the state is `last`. -/
def References.encStep (p : BitVec 16) (last : BitVec 64) (r : Reference) : Bytes × BitVec 64 :=
  if r.tn = p then (Reference.enc p ⟨r.tn, zigzagEncode (r.value - last)⟩, r.value)
  else (Reference.enc p r, last)

def References.encBody (p : BitVec 16) (rs : List Reference) : Bytes := encEach (References.encStep p) 0#64 rs

/-- one iteration of `References.UnmarshalWithoutLength` -/
def References.decStep (p : BitVec 16) (last : BitVec 64) : Dec (Reference × BitVec 64) :=
  (Reference.dec p).map fun r =>
    if r.tn = p then (⟨r.tn, last + zigzagDecode r.value⟩, last + zigzagDecode r.value) else (r, last)

def References.decBody (p : BitVec 16) (l : Nat) : Dec (List Reference) := Dec.times (References.decStep p) l 0#64

def References.ok (rs : List Reference) : Bool := lenOk 0 rs.length
def References.enc (p : BitVec 16) (rs : List Reference) : Bytes :=
  putUvarint (encodeValueType 2 (encodeGeometry 0 rs.length)) ++ References.encBody p rs
def References.marshal (p : BitVec 16) (rs : List Reference) : Option Bytes :=
  if References.ok rs then some (References.enc p rs) else none
def References.dec (p : BitVec 16) : Dec (List Reference) :=
  dValue.andThen fun v => References.decBody p (geometryLen v)

/-- `References.Less` as `≤` (`!Less(b, a)`): by `TypeAndNamespace`, then by value. -/
def Reference.le (a b : Reference) : Bool :=
  if a.tn = b.tn then decide (a.value.toNat ≤ b.value.toNat) else decide (a.tn.toNat < b.tn.toNat)

def insertRef (r : Reference) : List Reference → List Reference
  | [] => [r]
  | x :: xs => if Reference.le r x then r :: x :: xs else x :: insertRef r xs
/-- the result of `sort.Sort(References)`: the order is total on `(tn, value)`, so every sorting
algorithm produces this list. -/
def sortRefs (rs : List Reference) : List Reference := rs.foldr insertRef []

/-! ## LatLng / LatLngs -/

structure LatLng where
  lat : BitVec 32
  lng : BitVec 32
deriving DecidableEq, Repr, Inhabited

def LatLng.zero : LatLng := ⟨0#32, 0#32⟩

/-- little-endian `uint32` (`binary.LittleEndian.PutUint32`) -/
def putU32 (v : BitVec 32) : Bytes := marshalUint64 v.toNat 4
def dU32 : Dec (BitVec 32) := fun bs =>
  if bs.length < 4 then none else some (BitVec.ofNat 32 (leValue (bs.take 4)), 4)
def putU16 (v : BitVec 16) : Bytes := marshalUint64 v.toNat 2
def dU16 : Dec (BitVec 16) := fun bs =>
  if bs.length < 2 then none else some (BitVec.ofNat 16 (leValue (bs.take 2)), 2)

/-- the word `LatLng.Marshal` gives to `EncodeValueType`: `ZigzagEncode(int64(l.LatE7))` -/
def LatLng.latWord (ll : LatLng) : Nat := (zigzagEncode (ll.lat.signExtend 64)).toNat
def LatLng.ok (ll : LatLng) : Bool := valueTypeOk ll.latWord
/-- `LatLng.Marshal` (a point tag value) -/
def LatLng.enc (ll : LatLng) : Bytes := putUvarint (encodeValueType 1 ll.latWord) ++ putU32 ll.lng
def LatLng.marshal (ll : LatLng) : Option Bytes := if ll.ok then some ll.enc else none
def LatLng.dec : Dec LatLng :=
  dValue.andThen fun lat => dU32.map fun lng => ⟨(zigzagDecode (BitVec.ofNat 64 lat)).setWidth 32, lng⟩

/-- `binary.PutVarint(int64(a - b))` with the `int32` subtraction wrapping first -/
def putDelta32 (a b : BitVec 32) : Bytes := putVarint ((a - b).signExtend 64)

def LatLngs.encStep (last : LatLng) (p : LatLng) : Bytes × LatLng :=
  (putDelta32 p.lat last.lat ++ putDelta32 p.lng last.lng, p)
def LatLngs.encBody (lls : List LatLng) : Bytes := encEach LatLngs.encStep LatLng.zero lls
def LatLngs.decStep (last : LatLng) : Dec (LatLng × LatLng) :=
  dVarint.andThen fun dlat => dVarint.map fun dlng =>
    let p : LatLng := ⟨last.lat + dlat.setWidth 32, last.lng + dlng.setWidth 32⟩
    (p, p)
def LatLngs.decBody (l : Nat) : Dec (List LatLng) := Dec.times LatLngs.decStep l LatLng.zero

def LatLngs.ok (lls : List LatLng) : Bool := lenOk 1 lls.length
def LatLngs.enc (lls : List LatLng) : Bytes :=
  putUvarint (encodeValueType 2 (encodeGeometry 1 lls.length)) ++ LatLngs.encBody lls
def LatLngs.marshal (lls : List LatLng) : Option Bytes := if LatLngs.ok lls then some (LatLngs.enc lls) else none
def LatLngs.dec : Dec (List LatLng) := dValue.andThen fun v => LatLngs.decBody (geometryLen v)

/-! ## Bits -/

/-- the byte holding up to 8 flags, bit `j` = element `j` -/
def byteOfBits : List Bool → Nat
  | [] => 0
  | b :: bs => b.toNat + 2 * byteOfBits bs
/-- `buffer[i] & (1<<k) != 0` for `k = 0 … n-1` -/
def bitsOfByte : Nat → Nat → List Bool
  | 0, _ => []
  | n + 1, v => (v % 2 == 1) :: bitsOfByte n (v / 2)

/-- the packed flag bytes of `Bits.Marshal` -/
def packBits : List Bool → Bytes
  | b0 :: b1 :: b2 :: b3 :: b4 :: b5 :: b6 :: b7 :: rest =>
    (byteOfBits [b0, b1, b2, b3, b4, b5, b6, b7]).toUInt8 :: packBits rest
  | [] => []
  | l => [(byteOfBits l).toUInt8]

/-- the two loops of `Bits.Unmarshal`: `blocks` full bytes, then one byte with `rem` flags if `rem ≠ 0`;
`none` = the buffer is too short (index panic). -/
def unpackBits : (blocks rem : Nat) → Dec (List Bool)
  | 0, 0, _ => some ([], 0)
  | 0, _ + 1, [] => none
  | 0, r + 1, b :: _ => some (bitsOfByte (r + 1) b.toNat, 1)
  | _ + 1, _, [] => none
  | k + 1, r, b :: bs =>
    match unpackBits k r bs with
    | none => none
    | some (l, n) => some (bitsOfByte 8 b.toNat ++ l, n + 1)

def Bits.ok (b : List Bool) : Bool := decide (b.length < 2 ^ 63)
def Bits.enc (b : List Bool) : Bytes := putUvarint b.length ++ packBits b
def Bits.marshal (b : List Bool) : Option Bytes := if Bits.ok b then some (Bits.enc b) else none
def Bits.dec : Dec (List Bool) := dCount.andThen fun l => unpackBits (l / 8) (l % 8)

/-! ## ReferencesAndLatLngs (a path whose points are partly references, partly lat/lngs) -/

structure RefLL where
  ref : Reference
  ll : LatLng
deriving DecidableEq, Repr, Inhabited

/-- an element is *either* a reference *or* a lat/lng (what `toCompactValue` builds): the flag bit says which
half is written, the other half is not. -/
def RefLL.canonical (x : RefLL) : Bool := x.ref == Reference.invalid || x.ll == LatLng.zero
def RefLL.isRef (x : RefLL) : Bool := x.ref != Reference.invalid

/-- state of the mixed loop: `last.Reference.Value`, `last.LatLng` -/
abbrev MixedState := BitVec 64 × LatLng

def RefLLs.encStep (p : BitVec 16) (s : MixedState) (x : RefLL) : Bytes × MixedState :=
  if x.isRef then
    let r := References.encStep p s.1 x.ref
    (r.1, (r.2, s.2))
  else
    let r := LatLngs.encStep s.2 x.ll
    (r.1, (s.1, r.2))

def RefLLs.decStep (p : BitVec 16) (isRef : Bool) (s : MixedState) : Dec (RefLL × MixedState) :=
  if isRef then (References.decStep p s.1).map fun r => (⟨r.1, LatLng.zero⟩, (r.2, s.2))
  else (LatLngs.decStep s.2).map fun r => (⟨Reference.invalid, r.1⟩, (s.1, r.2))

def RefLLs.ok (g : List RefLL) : Bool := lenOk 2 g.length
def RefLLs.enc (p : BitVec 16) (g : List RefLL) : Bytes :=
  putUvarint (encodeValueType 2 (encodeGeometry 2 g.length)) ++ Bits.enc (g.map RefLL.isRef)
    ++ encEach (RefLLs.encStep p) (0#64, LatLng.zero) g
def RefLLs.marshal (p : BitVec 16) (g : List RefLL) : Option Bytes :=
  if RefLLs.ok g then some (RefLLs.enc p g) else none
/-- `UnmarshalWithoutLength(l, …)`: the flags are a `Bits` record with its own length; `references[j]` for
`j ≥ len(references)` is an index panic. -/
def RefLLs.decBody (p : BitVec 16) (l : Nat) : Dec (List RefLL) :=
  Bits.dec.andThen fun flags =>
    if flags.length < l then Dec.fail
    else Dec.forEach (RefLLs.decStep p) (flags.take l) (0#64, LatLng.zero)
def RefLLs.dec (p : BitVec 16) : Dec (List RefLL) := dValue.andThen fun v => RefLLs.decBody p (geometryLen v)

/-! ## Tags -/

inductive Value where
  | int (v : BitVec 64)          -- `*Int`: index into the string table
  | point (ll : LatLng)          -- `*LatLng`
  | latlngs (l : List LatLng)    -- `*LatLngs`
  | refs (l : List Reference)    -- `*References`
  | mixed (l : List RefLL)       -- `*ReferencesAndLatLngs`
deriving DecidableEq, Repr, Inhabited

structure Tag where
  key : BitVec 64
  value : Value
deriving DecidableEq, Repr, Inhabited

def Value.ok : Value → Bool
  | .int v => valueTypeOk v.toNat
  | .point ll => ll.ok
  | .latlngs l => LatLngs.ok l
  | .refs l => References.ok l
  | .mixed l => RefLLs.ok l

/-- every mixed element is either a reference or a lat/lng (the domain of the round-trip property) -/
def Value.canonical : Value → Bool
  | .mixed l => l.all RefLL.canonical
  | _ => true

def Value.enc (tns : BitVec 16) : Value → Bytes
  | .int v => putUvarint (encodeValueType 0 v.toNat)
  | .point ll => ll.enc
  | .latlngs l => LatLngs.enc l
  | .refs l => References.enc tns l
  | .mixed l => RefLLs.enc tns l

def Int.dec : Dec (BitVec 64) := dValue.map (BitVec.ofNat 64)

/-- `inferValueType(buffer)` followed by `Value.Unmarshal(tns, buffer)`; `none` for the two
`panic("not implemented")` arms (type bits = 3). -/
def Value.dec (tns : BitVec 16) : Dec Value := fun bs =>
  match uvarint bs with
  | none => none
  | some (v, _) =>
    if v % 4 = 0 then (Int.dec.map Value.int) bs
    else if v % 4 = 1 then (LatLng.dec.map Value.point) bs
    else if v % 4 = 2 then
      (if geometryEncoding (v / 4) = 1 then (LatLngs.dec.map Value.latlngs) bs
       else if geometryEncoding (v / 4) = 0 then ((References.dec tns).map Value.refs) bs
       else ((RefLLs.dec tns).map Value.mixed) bs)
    else none

def Tag.enc (tns : BitVec 16) (t : Tag) : Bytes := putUvarint t.key.toNat ++ t.value.enc tns
def Tag.dec (tns : BitVec 16) : Dec Tag :=
  dUvarint.andThen fun k => (Value.dec tns).map fun v => ⟨BitVec.ofNat 64 k, v⟩

def Tags.ok (ts : List Tag) : Bool := decide (ts.length < 2 ^ 63) && ts.all (fun t => t.value.ok)
def Tags.canonical (ts : List Tag) : Bool := ts.all (fun t => t.value.canonical)
def Tags.enc (tns : BitVec 16) (ts : List Tag) : Bytes :=
  putUvarint ts.length ++ encEach (fun (_ : Unit) t => (Tag.enc tns t, ())) () ts
def Tags.marshal (tns : BitVec 16) (ts : List Tag) : Option Bytes :=
  if Tags.ok ts then some (Tags.enc tns ts) else none
def Tags.dec (tns : BitVec 16) : Dec (List Tag) :=
  dCount.andThen fun l => Dec.times (fun (_ : Unit) => (Tag.dec tns).map fun t => (t, ())) l ()

/-! ## Members -/

structure Member where
  type : BitVec 64   -- `b6.FeatureType` (an `int`); only 0..3 fit the `FeatureTypeBits = 2` bits
  role : BitVec 64   -- `int`, index into the string table
  id : Reference
deriving DecidableEq, Repr, Inhabited

/-- `role := uint64(member.Role) << FeatureTypeBits; role |= uint64(member.Type)` -/
def Member.word (m : Member) : Nat := m.role.toNat * 4 % 2 ^ 64 ||| m.type.toNat
/-- no "Can't encode role" panic -/
def Member.ok (m : Member) : Bool := m.role.toNat * 4 % 2 ^ 64 / 4 == m.role.toNat
/-- no "Can't encode member type" panic (fixes/C11-member-type-guard.patch): the type fits the
`FeatureTypeBits = 2` bits of the role word — point, path, area, relation; a negative `int` is `≥ 2^63` here -/
def Member.typeOk (m : Member) : Bool := decide (m.type.toNat < 4)
/-- `Members.Marshal` accepts the member: neither panic -/
def Member.fits (m : Member) : Bool := m.ok && m.typeOk
def Member.enc (p : BitVec 16) (m : Member) : Bytes := putUvarint m.word ++ Reference.enc p m.id
def Member.dec (p : BitVec 16) : Dec Member :=
  dUvarint.andThen fun w => (Reference.dec p).map fun id =>
    ⟨BitVec.ofNat 64 (w % 4), BitVec.ofNat 64 (w / 4), id⟩

def Members.ok (ms : List Member) : Bool := decide (ms.length < 2 ^ 63) && ms.all Member.fits
def Members.enc (p : BitVec 16) (ms : List Member) : Bytes :=
  putUvarint ms.length ++ encEach (fun (_ : Unit) m => (Member.enc p m, ())) () ms
def Members.marshal (p : BitVec 16) (ms : List Member) : Option Bytes :=
  if Members.ok ms then some (Members.enc p ms) else none
def Members.dec (p : BitVec 16) : Dec (List Member) :=
  dCount.andThen fun l => Dec.times (fun (_ : Unit) => (Member.dec p).map fun m => (m, ())) l ()

/-! ## delta coded ints (`encoding.MarshalDeltaCodedInts`) -/

def DeltaInts.encStep (last : BitVec 64) (v : BitVec 64) : Bytes × BitVec 64 :=
  (putUvarint (zigzagEncode (v - last)).toNat, v)
def DeltaInts.enc (vs : List (BitVec 64)) : Bytes := encEach DeltaInts.encStep 0#64 vs
def DeltaInts.decStep (last : BitVec 64) : Dec (BitVec 64 × BitVec 64) :=
  dUvarint.map fun u => (last + zigzagDecode (BitVec.ofNat 64 u), last + zigzagDecode (BitVec.ofNat 64 u))
def DeltaInts.dec (n : Nat) : Dec (List (BitVec 64)) := Dec.times DeltaInts.decStep n 0#64

/-! ## area geometries -/

structure AreaGeomRefs where
  polygons : List (BitVec 64)   -- `[]int`: index in `paths` at which polygon i+1 starts
  paths : List Reference
deriving DecidableEq, Repr, Inhabited

def AreaGeomRefs.ok (a : AreaGeomRefs) : Bool := decide (a.polygons.length < 2 ^ 63) && References.ok a.paths
def AreaGeomRefs.enc (p : BitVec 16) (a : AreaGeomRefs) : Bytes :=
  putUvarint (encodeGeometry 0 a.polygons.length) ++ DeltaInts.enc a.polygons ++ References.enc p a.paths
def AreaGeomRefs.marshal (p : BitVec 16) (a : AreaGeomRefs) : Option Bytes :=
  if a.ok then some (a.enc p) else none
/-- `AreaGeometryReferences.UnmarshalWithoutLength` -/
def AreaGeomRefs.decBody (p : BitVec 16) (l : Nat) : Dec AreaGeomRefs :=
  (DeltaInts.dec l).andThen fun polys => (References.dec p).map fun paths => ⟨polys, paths⟩
/-- `AreaGeometryReferences.Unmarshal`, repaired: `return i + a.UnmarshalWithoutLength(…)` -/
def AreaGeomRefs.dec (p : BitVec 16) : Dec AreaGeomRefs :=
  dUvarint.andThen fun v => AreaGeomRefs.decBody p (geometryLen v)
/-- `AreaGeometryReferences.Unmarshal` before the repair: `return l + a.UnmarshalWithoutLength(…)` —
the polygon count instead of the bytes of the header. -/
def AreaGeomRefs.decOld (p : BitVec 16) : Dec AreaGeomRefs := fun bs =>
  match uvarint bs with
  | none => none
  | some (v, i) =>
    match AreaGeomRefs.decBody p (geometryLen v) (bs.drop i) with
    | none => none
    | some (a, n) => some (a, geometryLen v + n)

structure PolygonLL where
  loops : List (BitVec 64)
  points : List LatLng
deriving DecidableEq, Repr, Inhabited

def PolygonLL.ok (q : PolygonLL) : Bool := decide (q.loops.length < 2 ^ 63) && LatLngs.ok q.points
def PolygonLL.enc (q : PolygonLL) : Bytes :=
  putUvarint q.loops.length ++ DeltaInts.enc q.loops ++ LatLngs.enc q.points
def PolygonLL.marshal (q : PolygonLL) : Option Bytes := if q.ok then some q.enc else none
def PolygonLL.dec : Dec PolygonLL :=
  dCount.andThen fun l => (DeltaInts.dec l).andThen fun loops => LatLngs.dec.map fun pts => ⟨loops, pts⟩

def AreaGeomLL.ok (ps : List PolygonLL) : Bool := decide (ps.length < 2 ^ 62) && ps.all PolygonLL.ok
def AreaGeomLL.enc (ps : List PolygonLL) : Bytes :=
  putUvarint (encodeGeometry 1 ps.length) ++ encEach (fun (_ : Unit) q => (PolygonLL.enc q, ())) () ps
def AreaGeomLL.marshal (ps : List PolygonLL) : Option Bytes := if AreaGeomLL.ok ps then some (AreaGeomLL.enc ps) else none
def AreaGeomLL.decBody (l : Nat) : Dec (List PolygonLL) :=
  Dec.times (fun (_ : Unit) => PolygonLL.dec.map fun q => (q, ())) l ()
def AreaGeomLL.dec : Dec (List PolygonLL) := dUvarint.andThen fun v => AreaGeomLL.decBody (geometryLen v)
def AreaGeomLL.decOld : Dec (List PolygonLL) := fun bs =>
  match uvarint bs with
  | none => none
  | some (v, i) =>
    match AreaGeomLL.decBody (geometryLen v) (bs.drop i) with
    | none => none
    | some (a, n) => some (a, geometryLen v + n)

structure PolygonMixed where
  paths : List Reference   -- `PolygonGeometryReferences`
  ll : PolygonLL           -- `PolygonGeometryLatLngs`
deriving DecidableEq, Repr, Inhabited

def PolygonLL.zero : PolygonLL := ⟨[], []⟩
def PolygonMixed.isRef (q : PolygonMixed) : Bool := !q.paths.isEmpty
/-- a mixed polygon is *either* a non-empty path list *or* lat/lng loops. -/
def PolygonMixed.canonical (q : PolygonMixed) : Bool := q.paths.isEmpty || q.ll == PolygonLL.zero
def PolygonMixed.ok (q : PolygonMixed) : Bool := if q.isRef then References.ok q.paths else q.ll.ok
def PolygonMixed.enc (p : BitVec 16) (q : PolygonMixed) : Bytes :=
  if q.isRef then References.enc p q.paths else q.ll.enc
def PolygonMixed.dec (p : BitVec 16) (isRef : Bool) : Dec PolygonMixed :=
  if isRef then (References.dec p).map fun rs => ⟨rs, PolygonLL.zero⟩
  else PolygonLL.dec.map fun q => ⟨[], q⟩

def AreaGeomMixed.ok (ps : List PolygonMixed) : Bool := decide (ps.length < 2 ^ 62) && ps.all PolygonMixed.ok
def AreaGeomMixed.enc (p : BitVec 16) (ps : List PolygonMixed) : Bytes :=
  putUvarint (encodeGeometry 2 ps.length) ++ Bits.enc (ps.map PolygonMixed.isRef)
    ++ encEach (fun (_ : Unit) q => (PolygonMixed.enc p q, ())) () ps
def AreaGeomMixed.marshal (p : BitVec 16) (ps : List PolygonMixed) : Option Bytes :=
  if AreaGeomMixed.ok ps then some (AreaGeomMixed.enc p ps) else none
def AreaGeomMixed.decBody (p : BitVec 16) (l : Nat) : Dec (List PolygonMixed) :=
  Bits.dec.andThen fun flags =>
    if flags.length < l then Dec.fail
    else Dec.forEach (fun isRef (_ : Unit) => (PolygonMixed.dec p isRef).map fun q => (q, ())) (flags.take l) ()
def AreaGeomMixed.dec (p : BitVec 16) : Dec (List PolygonMixed) :=
  dUvarint.andThen fun v => AreaGeomMixed.decBody p (geometryLen v)

inductive AreaGeometry where
  | refs (a : AreaGeomRefs)
  | latlngs (ps : List PolygonLL)
  | mixed (ps : List PolygonMixed)
deriving DecidableEq, Repr, Inhabited

def AreaGeometry.ok : AreaGeometry → Bool
  | .refs a => a.ok
  | .latlngs ps => AreaGeomLL.ok ps
  | .mixed ps => AreaGeomMixed.ok ps
def AreaGeometry.canonical : AreaGeometry → Bool
  | .mixed ps => ps.all PolygonMixed.canonical
  | _ => true
def AreaGeometry.enc (p : BitVec 16) : AreaGeometry → Bytes
  | .refs a => a.enc p
  | .latlngs ps => AreaGeomLL.enc ps
  | .mixed ps => AreaGeomMixed.enc p ps
/-- `UnmarshalAreaGeometry(primary, buffer)` -/
def AreaGeometry.dec (p : BitVec 16) : Dec AreaGeometry :=
  dUvarint.andThen fun v =>
    if geometryEncoding v = 0 then (AreaGeomRefs.decBody p (geometryLen v)).map AreaGeometry.refs
    else if geometryEncoding v = 1 then (AreaGeomLL.decBody (geometryLen v)).map AreaGeometry.latlngs
    else (AreaGeomMixed.decBody p (geometryLen v)).map AreaGeometry.mixed

/-! ## Namespaces and the feature records -/

/-- `Namespaces [b6.FeatureTypeEnd]Namespace`: one encoded namespace per feature type point/path/area/relation -/
structure Namespaces where
  point : BitVec 16
  path : BitVec 16
  area : BitVec 16
  relation : BitVec 16
deriving DecidableEq, Repr, Inhabited

def Namespaces.enc (n : Namespaces) : Bytes := putU16 n.point ++ putU16 n.path ++ putU16 n.area ++ putU16 n.relation
def Namespaces.dec : Dec Namespaces :=
  dU16.andThen fun a => dU16.andThen fun b => dU16.andThen fun c => dU16.map fun d => ⟨a, b, c, d⟩

/-- `nss.ForType(t)` / `nss[t]`; `none` = index out of range (panic) -/
def Namespaces.forType (n : Namespaces) (t : BitVec 64) : Option (BitVec 16) :=
  if t = 0#64 then some n.point else if t = 1#64 then some n.path
  else if t = 2#64 then some n.area else if t = 3#64 then some n.relation else none

def tnPoint (n : Namespaces) : BitVec 16 := B6.Model.Bits.combineTypeNs 0#64 n.point
def tnPath (n : Namespaces) : BitVec 16 := B6.Model.Bits.combineTypeNs 1#64 n.path
def tnArea (n : Namespaces) : BitVec 16 := B6.Model.Bits.combineTypeNs 2#64 n.area
def tnRelation (n : Namespaces) : BitVec 16 := B6.Model.Bits.combineTypeNs 3#64 n.relation

structure CommonPoint where
  tags : List Tag
  path : Reference
deriving DecidableEq, Repr, Inhabited

def CommonPoint.ok (c : CommonPoint) : Bool := Tags.ok c.tags
def CommonPoint.enc (n : Namespaces) (c : CommonPoint) : Bytes := Tags.enc 0#16 c.tags ++ Reference.enc (tnPath n) c.path
def CommonPoint.marshal (n : Namespaces) (c : CommonPoint) : Option Bytes := if c.ok then some (c.enc n) else none
def CommonPoint.dec (n : Namespaces) : Dec CommonPoint :=
  (Tags.dec 0#16).andThen fun ts => (Reference.dec (tnPath n)).map fun r => ⟨ts, r⟩

structure PointReferences where
  paths : List Reference
  relations : List Reference
deriving DecidableEq, Repr, Inhabited

def PointReferences.ok (p : PointReferences) : Bool := References.ok p.paths && References.ok p.relations
/-- `PointReferences.Marshal` sorts both lists in place first. -/
def PointReferences.sorted (p : PointReferences) : PointReferences := ⟨sortRefs p.paths, sortRefs p.relations⟩
def PointReferences.enc (n : Namespaces) (p : PointReferences) : Bytes :=
  References.enc (tnPath n) (sortRefs p.paths) ++ References.enc (tnRelation n) (sortRefs p.relations)
def PointReferences.marshal (n : Namespaces) (p : PointReferences) : Option Bytes := if p.ok then some (p.enc n) else none
def PointReferences.dec (n : Namespaces) : Dec PointReferences :=
  (References.dec (tnPath n)).andThen fun a => (References.dec (tnRelation n)).map fun b => ⟨a, b⟩

structure FullPoint where
  tags : List Tag
  refs : PointReferences
deriving DecidableEq, Repr, Inhabited

def FullPoint.ok (p : FullPoint) : Bool := Tags.ok p.tags && p.refs.ok
def FullPoint.sorted (p : FullPoint) : FullPoint := ⟨p.tags, p.refs.sorted⟩
def FullPoint.enc (n : Namespaces) (p : FullPoint) : Bytes := Tags.enc 0#16 p.tags ++ p.refs.enc n
def FullPoint.marshal (n : Namespaces) (p : FullPoint) : Option Bytes := if p.ok then some (p.enc n) else none
def FullPoint.dec (n : Namespaces) : Dec FullPoint :=
  (Tags.dec 0#16).andThen fun ts => (PointReferences.dec n).map fun r => ⟨ts, r⟩

structure Path where
  tags : List Tag
  areas : List Reference
  relations : List Reference
deriving DecidableEq, Repr, Inhabited

def Path.ok (p : Path) : Bool := Tags.ok p.tags && References.ok p.areas && References.ok p.relations
/-- `Path.Marshal` sorts `Areas` (only) in place first. -/
def Path.sorted (p : Path) : Path := ⟨p.tags, sortRefs p.areas, p.relations⟩
def Path.enc (n : Namespaces) (p : Path) : Bytes :=
  Tags.enc (tnPoint n) p.tags ++ References.enc (tnArea n) (sortRefs p.areas) ++ References.enc (tnRelation n) p.relations
def Path.marshal (n : Namespaces) (p : Path) : Option Bytes := if p.ok then some (p.enc n) else none
def Path.dec (n : Namespaces) : Dec Path :=
  (Tags.dec (tnPoint n)).andThen fun ts => (References.dec (tnArea n)).andThen fun a =>
    (References.dec (tnRelation n)).map fun r => ⟨ts, a, r⟩

structure Area where
  tags : List Tag
  polygons : AreaGeometry
  relations : List Reference
deriving DecidableEq, Repr, Inhabited

def Area.ok (a : Area) : Bool := Tags.ok a.tags && a.polygons.ok && References.ok a.relations
/-- `Area.Marshal` (repaired, fixes/C02-area-relations-primary.patch: relations against the relation namespace) -/
def Area.enc (n : Namespaces) (a : Area) : Bytes :=
  Tags.enc 0#16 a.tags ++ a.polygons.enc (tnPath n) ++ References.enc (tnRelation n) a.relations
def Area.marshal (n : Namespaces) (a : Area) : Option Bytes := if a.ok then some (a.enc n) else none
def Area.dec (n : Namespaces) : Dec Area :=
  (Tags.dec 0#16).andThen fun ts => (AreaGeometry.dec (tnPath n)).andThen fun g =>
    (References.dec (tnRelation n)).map fun r => ⟨ts, g, r⟩
/-- `Area.Marshal` before fixes/C02-area-relations-primary.patch: relations written against the *path* namespace. -/
def Area.encOld (n : Namespaces) (a : Area) : Bytes :=
  Tags.enc 0#16 a.tags ++ a.polygons.enc (tnPath n) ++ References.enc (tnPath n) a.relations

structure Relation where
  tags : List Tag
  members : List Member
  relations : List Reference
deriving DecidableEq, Repr, Inhabited

def Relation.ok (r : Relation) : Bool := Tags.ok r.tags && Members.ok r.members && References.ok r.relations
/-- the primary of the member list: `CombineTypeAndNamespace(primary, nss.ForType(primary))` -/
def memberPrimary (n : Namespaces) (t : BitVec 64) : Option (BitVec 16) :=
  (n.forType t).map fun ns => B6.Model.Bits.combineTypeNs t ns
def Relation.enc (mp : BitVec 16) (n : Namespaces) (r : Relation) : Bytes :=
  Tags.enc 0#16 r.tags ++ Members.enc mp r.members ++ References.enc (tnRelation n) r.relations
/-- `Relation.Marshal(primary, nss, buffer)`; `none` also when `primary` is not one of the four feature types. -/
def Relation.marshal (t : BitVec 64) (n : Namespaces) (r : Relation) : Option Bytes :=
  match memberPrimary n t with
  | none => none
  | some mp => if r.ok then some (r.enc mp n) else none
def Relation.decWith (mp : BitVec 16) (n : Namespaces) : Dec Relation :=
  (Tags.dec 0#16).andThen fun ts => (Members.dec mp).andThen fun ms =>
    (References.dec (tnRelation n)).map fun r => ⟨ts, ms, r⟩
def Relation.dec (t : BitVec 64) (n : Namespaces) : Dec Relation :=
  match memberPrimary n t with
  | none => Dec.fail
  | some mp => Relation.decWith mp n

/-! ## search index records -/

/-- `MarshalString` / `UnmarshalString` (strings are byte lists) -/
def Str.ok (s : Bytes) : Bool := decide (s.length < 2 ^ 63)
def Str.enc (s : Bytes) : Bytes := putUvarint s.length ++ s
def Str.marshal (s : Bytes) : Option Bytes := if Str.ok s then some (Str.enc s) else none
def Str.dec : Dec Bytes :=
  dCount.andThen fun l => fun bs => if bs.length < l then none else some (bs.take l, l)

structure NamespaceIndex where
  tn : BitVec 16
  index : BitVec 64   -- `int`
deriving DecidableEq, Repr, Inhabited

def NamespaceIndex.enc (x : NamespaceIndex) : Bytes := putUvarint x.tn.toNat ++ putUvarint x.index.toNat
def NamespaceIndex.dec : Dec NamespaceIndex :=
  dUvarint.andThen fun tn => dUvarint.map fun ix => ⟨BitVec.ofNat 16 tn, BitVec.ofNat 64 ix⟩

def NamespaceIndices.ok (xs : List NamespaceIndex) : Bool := decide (xs.length < 2 ^ 63)
def NamespaceIndices.enc (xs : List NamespaceIndex) : Bytes :=
  putUvarint xs.length ++ encEach (fun (_ : Unit) x => (NamespaceIndex.enc x, ())) () xs
def NamespaceIndices.marshal (xs : List NamespaceIndex) : Option Bytes :=
  if NamespaceIndices.ok xs then some (NamespaceIndices.enc xs) else none
def NamespaceIndices.dec : Dec (List NamespaceIndex) :=
  dCount.andThen fun l => Dec.times (fun (_ : Unit) => NamespaceIndex.dec.map fun x => (x, ())) l ()

structure PostingListHeader where
  token : Bytes
  features : BitVec 64   -- `int`
  namespaces : List NamespaceIndex
deriving DecidableEq, Repr, Inhabited

def PostingListHeader.ok (h : PostingListHeader) : Bool := Str.ok h.token && NamespaceIndices.ok h.namespaces
def PostingListHeader.enc (h : PostingListHeader) : Bytes :=
  Str.enc h.token ++ putUvarint h.features.toNat ++ NamespaceIndices.enc h.namespaces
def PostingListHeader.marshal (h : PostingListHeader) : Option Bytes := if h.ok then some h.enc else none
def PostingListHeader.dec : Dec PostingListHeader :=
  Str.dec.andThen fun tok => dUvarint.andThen fun f => NamespaceIndices.dec.map fun ns => ⟨tok, BitVec.ofNat 64 f, ns⟩

end B6.Model.Records
