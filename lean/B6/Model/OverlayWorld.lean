import B6.Spec.Referrers
/-!
# Model of layered worlds (ingest/overlay.go, the read path of ingest/mutable.go) — C16

* `overlayFeatures` — the two-way merge iterator behind `OverlayWorld.FindFeatures` and
  `MutableOverlayWorld.FindFeatures`: `Next`, `advanceBase` (skips base IDs present in `filter`),
  `FeatureID`, `Feature`, with the memoised IDs and the three flags, as written.
* `OverlayWorld` lookups (`FindFeatureByID`, `HasFeatureWithID`, `FindLocationByID`), `EachFeature`
  (overlay, then base filtered by the overlay's IDs) and the by-ID unions
  (`FindRelationsByFeature`, `FindCollectionsByFeature`, `FindAreasByPoint`, `FindReferences`)
  after the repairs in /verif/fixes/C16-*.patch (the reference queries: breadth-first closure over both
  layers); `…Old` / `findRefsUnion` are the same before the repairs.

A layer is a list of features (a basic world); what a layer answers to a reference query is the
transitive referrer set within that layer (C15).
-/
namespace B6.Model.OverlayWorld

/-- feature ID: (feature type, value), one namespace -/
abbrev Id := Nat × Nat

/-- `FeatureID.Less` -/
def idLt (a b : Id) : Bool := decide (a.1 < b.1) || (decide (a.1 = b.1) && decide (a.2 < b.2))

/-! ## the merge iterator -/

/-- a `b6.Features` iterator over a slice: `cur` is what `FeatureID()/Feature()` see -/
structure It (α : Type) where
  rest : List (Id × α)
  cur : Option (Id × α)

/-- `overlayFeatures` -/
structure OF (α : Type) where
  base : It α
  overlay : It α
  baseID : Id
  overlayID : Id
  baseOK : Bool
  overlayOK : Bool
  started : Bool

def OF.init {α : Type} (base overlay : List (Id × α)) : OF α :=
  { base := ⟨base, none⟩, overlay := ⟨overlay, none⟩, baseID := (0, 0), overlayID := (0, 0),
    baseOK := true, overlayOK := true, started := false }

/-- the `for` loop of `advanceBase` (entered with `baseOK` true): next base element whose ID is not in
the filter. Returns the iterator, `baseOK` and `baseID`. -/
def advLoop {α : Type} (filter : Id → Bool) (oldID : Id) : List (Id × α) → It α × Bool × Id
  | [] => (⟨[], none⟩, false, oldID)
  | x :: xs => if filter x.1 then advLoop filter x.1 xs else (⟨xs, some x⟩, true, x.1)

def OF.advanceBase {α : Type} (filter : Id → Bool) (o : OF α) : OF α :=
  if o.baseOK then
    let (it, ok, id) := advLoop filter o.baseID o.base.rest
    { o with base := it, baseOK := ok, baseID := id }
  else o

/-- `if o.overlayOK = o.overlay.Next(); o.overlayOK { o.overlayID = o.overlay.FeatureID() }` -/
def OF.advanceOverlay {α : Type} (o : OF α) : OF α :=
  match o.overlay.rest with
  | [] => { o with overlay := ⟨[], none⟩, overlayOK := false }
  | x :: xs => { o with overlay := ⟨xs, some x⟩, overlayOK := true, overlayID := x.1 }

/-- `overlayFeatures.Next` -/
def OF.next {α : Type} (filter : Id → Bool) (o : OF α) : OF α × Bool :=
  let o' :=
    if !o.started then
      { (o.advanceOverlay.advanceBase filter) with started := true }
    else if o.overlayOK then
      if o.baseOK then
        if idLt o.overlayID o.baseID then o.advanceOverlay
        else
          (if o.overlayID = o.baseID then o.advanceOverlay else o).advanceBase filter
      else o.advanceOverlay
    else o.advanceBase filter
  (o', o'.overlayOK || o'.baseOK)

/-- `overlayFeatures.FeatureID` -/
def OF.featureID {α : Type} (o : OF α) : Id :=
  if o.overlayOK then
    if o.baseOK then (if idLt o.overlayID o.baseID then o.overlayID else o.baseID)
    else o.overlayID
  else o.baseID

/-- which iterator `overlayFeatures.Feature` reads (`true` = overlay) -/
def OF.fromOverlay {α : Type} (o : OF α) : Bool :=
  if o.overlayOK then
    if o.baseOK then idLt o.overlayID o.baseID else true
  else false

/-- `overlayFeatures.Feature`; `none` = read of an iterator that has no current element (panic) -/
def OF.feature {α : Type} (o : OF α) : Option α :=
  if o.fromOverlay then o.overlay.cur.map (·.2) else o.base.cur.map (·.2)

/-- `for i.Next() { out = append(out, (i.FeatureID(), i.Feature())) }`; `none` = out of fuel or a
`Feature()` panic. The Boolean records the layer the feature was read from (`true` = overlay). -/
def OF.drain {α : Type} (filter : Id → Bool) : Nat → OF α → Option (List (Id × α × Bool))
  | 0, _ => none
  | fuel + 1, o =>
    let (o', ok) := o.next filter
    if ok then
      match o'.feature, OF.drain filter fuel o' with
      | some f, some rest => some ((o'.featureID, f, o'.fromOverlay) :: rest)
      | _, _ => none
    else some []

/-- the sorted merge the iterator is meant to compute, with the layer of each element (`true` = overlay) -/
def merge {α : Type} : List (Id × α) → List (Id × α) → List (Id × α × Bool)
  | [], ys => ys.map fun y => (y.1, y.2, false)
  | x :: xs, [] => (x :: xs).map fun x => (x.1, x.2, true)
  | x :: xs, y :: ys =>
    if idLt x.1 y.1 then (x.1, x.2, true) :: merge xs (y :: ys)
    else (y.1, y.2, false) :: merge (x :: xs) ys
termination_by xs ys => xs.length + ys.length

/-- everything `newOverlayFeatures(base, overlay, filter)` yields -/
def mergeIter {α : Type} (filter : Id → Bool) (base overlay : List (Id × α)) : Option (List (Id × α × Bool)) :=
  OF.drain filter (base.length + overlay.length + 2) (OF.init base overlay)

/-! ## layered worlds -/

/-- skeleton of a feature: version marker (tells the layers apart), references, location slot -/
structure Feat where
  id : Id
  ver : String
  refs : List Id
  loc : Option Nat
deriving DecidableEq, Repr

abbrev Layer := List Feat

def Layer.find (l : Layer) (id : Id) : Option Feat := List.find? (fun f => decide (f.id = id)) l

def Layer.has (l : Layer) (id : Id) : Bool := (l.find id).isSome

/-- `FindLocationByID` of a basic world: the feature exists and has a location -/
def Layer.loc (l : Layer) (id : Id) : Option Nat :=
  match l.find id with
  | some f => f.loc
  | none => none

structure OW where
  overlay : Layer
  base : Layer
deriving Repr

/-- `OverlayWorld.FindFeatureByID` -/
def OW.get (w : OW) (id : Id) : Option Feat :=
  match w.overlay.find id with
  | some f => some f
  | none => w.base.find id

/-- `OverlayWorld.HasFeatureWithID` -/
def OW.has (w : OW) (id : Id) : Bool := w.overlay.has id || w.base.has id

/-- `OverlayWorld.FindLocationByID` after the repair: a feature of the overlay answers for its ID -/
def OW.loc (w : OW) (id : Id) : Option Nat :=
  if w.overlay.has id then w.overlay.loc id else w.base.loc id

/-- before the repair: any failure in the overlay falls through to the base -/
def OW.locOld (w : OW) (id : Id) : Option Nat :=
  match w.overlay.loc id with
  | some l => some l
  | none => w.base.loc id

/-- `OverlayWorld.EachFeature`: the overlay's features, then the base's that the overlay lacks -/
def OW.each (w : OW) : List Feat := w.overlay ++ w.base.filter (fun f => !w.overlay.has f.id)

/-- the current feature set of the layered world -/
def OW.merged (w : OW) : Layer := w.each

/-! ### reference queries of one layer (a basic world: transitive, see C15) -/

/-- the reference skeleton used by the C15 specification -/
def Feat.toRef (f : Feat) : B6.Model.RefIndex.Feature := ⟨f.id, f.refs⟩

/-- `FindReferences(id)` of a basic world over `l`: the IDs of the features of `l` that reference `id`
directly or through other features of `l` (C15: `find_refs_spec`); `none` never occurs in practice
(`referrers` gives up only if its round bound is exceeded). -/
def Layer.referrers (l : Layer) (id : Id) : Option (List Id) :=
  B6.Spec.Referrers.referrers (l.map Feat.toRef) id

def typeOk (typed : List Nat) (id : Id) : Bool := typed.isEmpty || typed.contains id.1

def Layer.findRefs (l : Layer) (id : Id) (typed : List Nat) : Option (List Feat) :=
  match l.referrers id with
  | some rs => some (rs.filterMap fun s => if typeOk typed s then l.find s else none)
  | none => none

/-- `byID[f.id] = f` over a list: later entries win; keys in first-insertion order -/
def byIdUnion (xs : List Feat) : List Feat :=
  xs.foldl (fun acc f => if acc.any (fun g => decide (g.id = f.id)) then acc.map (fun g => if g.id = f.id then f else g) else acc ++ [f]) []

/-- the by-ID union of the two layers' own answers, without the base features the overlay shadows
(fixes/C16-overlay-union-skip-shadowed.patch) — correct only for layers that do not interleave along
reference chains; superseded by the closure below (fixes/C16-union-refs-closure.patch) -/
def OW.findRefsUnion (w : OW) (id : Id) (typed : List Nat) : Option (List Feat) :=
  match w.base.findRefs id typed, w.overlay.findRefs id typed with
  | some b, some o => some (byIdUnion (b.filter (fun f => !w.overlay.has f.id) ++ o))
  | _, _ => none

/-- one round of `OverlayWorld.FindReferences` for the queue element `x`: what the two layers answer for
`x` (untyped), without the base's answers that the overlay holds, and of those only the features whose
own `References()` contain `x` -/
def OW.stepCands (w : OW) (x : Id) : Option (List Feat) :=
  match w.base.findRefs x [], w.overlay.findRefs x [] with
  | some b, some o => some ((b.filter (fun f => !w.overlay.has f.id) ++ o).filter fun f => f.refs.contains x)
  | _, _ => none

/-- `if _, ok := byID[rid]; ok { continue }; byID[rid] = feature; queue = append(queue, rid)` -/
def visit (acc : List Feat × List Id) (f : Feat) : List Feat × List Id :=
  if acc.1.any (fun g => decide (g.id = f.id)) then acc else (acc.1 ++ [f], acc.2 ++ [f.id])

/-- the loop `for len(queue) > 0`: `acc` is `byID` in insertion order. `none` = out of fuel (or a layer
that does not answer). -/
def OW.bfs (w : OW) : Nat → List Id → List Feat → Option (List Feat)
  | _, [], acc => some acc
  | 0, _ :: _, _ => none
  | fuel + 1, x :: q, acc =>
    match w.stepCands x with
    | none => none
    | some cands => w.bfs fuel (q ++ (cands.foldl visit (acc, [])).2) (cands.foldl visit (acc, [])).1

/-- `OverlayWorld.FindReferences(id, typed…)` after fixes/C16-union-refs-closure.patch (the other three
queries call it with their type): breadth-first through the current version of every feature. -/
def OW.findRefs (w : OW) (id : Id) (typed : List Nat) : Option (List Feat) :=
  match w.bfs (w.base.length + w.overlay.length + 2) [id] [] with
  | some R => some (R.filter fun f => typeOk typed f.id)
  | none => none

/-- before both repairs -/
def OW.findRefsOld (w : OW) (id : Id) (typed : List Nat) : Option (List Feat) :=
  match w.base.findRefs id typed, w.overlay.findRefs id typed with
  | some b, some o => some (byIdUnion (b ++ o))
  | _, _ => none

/-- the answer the property demands: the referrers within the current feature set -/
def OW.specRefs (w : OW) (id : Id) (typed : List Nat) : Option (List Feat) := w.merged.findRefs id typed

/-- the layers do not interleave along reference chains: no base feature that survives references an
ID the overlay holds, and an overlay feature references outside the overlay only IDs whose base
feature (if any) references nothing. Outside this class the by-ID unions (`findRefsUnion`) missed or
invented referrers — the former finding `layer_crossing`, repaired by the closure `findRefs`. -/
def OW.independent (w : OW) : Bool :=
  (w.base.all fun y => w.overlay.has y.id || y.refs.all fun t => !w.overlay.has t) &&
  (w.overlay.all fun z => z.refs.all fun t => w.overlay.has t ||
    (w.base.all fun y => decide (y.id ≠ t) || y.refs.isEmpty))

end B6.Model.OverlayWorld
