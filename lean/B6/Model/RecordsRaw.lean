import B6.Model.Records
/-!
# L2 records, extras (core Lean only)

## 1. reused receivers of the two sum-like records

`ReferencesAndLatLngs.UnmarshalWithoutLength` and `AreaGeometryMixed.UnmarshalWithoutLength` resize the
receiver's slice (`for len < l { append(zero) }; s = s[0:l]`) and then, per element, fill in *only the half the
flag bit selects*: slot `j` of a receiver that already held data keeps its other half.  `…decInto old` is the
decoder with the receiver's previous contents `old` as a parameter (`old = []`: a fresh receiver — the only way
the code base uses them: `inferValueType` and `UnmarshalAreaGeometry` allocate).

## 2. leaf decoders on arbitrary (truncated) buffers

`R.decRaw` mirrors the Go `Unmarshal` of a leaf record on *any* buffer, using `uvarintRaw` (exactly
`binary.Uvarint`: `n = 0` and value 0 on a short buffer, `n < 0` on overflow) — the code never looks at `n`:
it carries on with value 0 and `i += n`.  Outcome `.ok value consumed` (`consumed : Int`, it can be 0) or
`.panic` (slice bounds / index out of range).  Slices have capacity = length here (the harness copies every
prefix into an exactly sized slice; Go checks `buffer[i:j]` against the capacity).
-/
namespace B6.Model.Records
open B6.Model.Varint

/-! ## reused receivers -/

/-- slot `0` of the resized receiver and the remaining slots: the old element, or the zero value appended -/
def splitSlot {α : Type} (zero : α) : List α → α × List α
  | [] => (zero, [])
  | o :: os => (o, os)

def RefLL.zero : RefLL := ⟨Reference.invalid, LatLng.zero⟩

/-- one iteration into slot `slot`: the half not selected by the flag is left as it was -/
def RefLLs.decStepInto (p : BitVec 16) (isRef : Bool) (slot : RefLL) (s : MixedState) : Dec (RefLL × MixedState) :=
  if isRef then (References.decStep p s.1).map fun r => (⟨r.1, slot.ll⟩, (r.2, s.2))
  else (LatLngs.decStep s.2).map fun r => (⟨slot.ref, r.1⟩, (s.1, r.2))

def RefLLs.decLoopInto (p : BitVec 16) : List Bool → List RefLL → MixedState → Dec (List RefLL)
  | [], _, _ => Dec.pure []
  | fl :: fls, old, s =>
    (RefLLs.decStepInto p fl (splitSlot RefLL.zero old).1 s).andThen fun r =>
      (RefLLs.decLoopInto p fls (splitSlot RefLL.zero old).2 r.2).map (r.1 :: ·)

def RefLLs.decBodyInto (old : List RefLL) (p : BitVec 16) (l : Nat) : Dec (List RefLL) :=
  Bits.dec.andThen fun flags =>
    if flags.length < l then Dec.fail
    else RefLLs.decLoopInto p (flags.take l) old (0#64, LatLng.zero)

/-- `ReferencesAndLatLngs.Unmarshal` into a receiver holding `old` -/
def RefLLs.decInto (old : List RefLL) (p : BitVec 16) : Dec (List RefLL) :=
  dValue.andThen fun v => RefLLs.decBodyInto old p (geometryLen v)

/-- what comes back when `g` is marshalled and unmarshalled into a receiver holding `old` -/
def RefLLs.overlay : List RefLL → List RefLL → List RefLL
  | _, [] => []
  | old, x :: xs =>
    (if x.isRef then ⟨x.ref, (splitSlot RefLL.zero old).1.ll⟩ else ⟨(splitSlot RefLL.zero old).1.ref, x.ll⟩)
      :: RefLLs.overlay (splitSlot RefLL.zero old).2 xs

/-- the stale halves under `g` are the ones `g` has anyway (executable form of `overlay old g = g`) -/
def RefLLs.compatible : List RefLL → List RefLL → Bool
  | _, [] => true
  | old, x :: xs =>
    (if x.isRef then (splitSlot RefLL.zero old).1.ll == x.ll else (splitSlot RefLL.zero old).1.ref == x.ref)
      && RefLLs.compatible (splitSlot RefLL.zero old).2 xs

def PolygonMixed.zero : PolygonMixed := ⟨[], PolygonLL.zero⟩

def PolygonMixed.decInto (p : BitVec 16) (isRef : Bool) (slot : PolygonMixed) : Dec PolygonMixed :=
  if isRef then (References.dec p).map fun rs => ⟨rs, slot.ll⟩
  else PolygonLL.dec.map fun q => ⟨slot.paths, q⟩

def AreaGeomMixed.decLoopInto (p : BitVec 16) : List Bool → List PolygonMixed → Dec (List PolygonMixed)
  | [], _ => Dec.pure []
  | fl :: fls, old =>
    (PolygonMixed.decInto p fl (splitSlot PolygonMixed.zero old).1).andThen fun q =>
      (AreaGeomMixed.decLoopInto p fls (splitSlot PolygonMixed.zero old).2).map (q :: ·)

def AreaGeomMixed.decBodyInto (old : List PolygonMixed) (p : BitVec 16) (l : Nat) : Dec (List PolygonMixed) :=
  Bits.dec.andThen fun flags =>
    if flags.length < l then Dec.fail else AreaGeomMixed.decLoopInto p (flags.take l) old

/-- `AreaGeometryMixed.Unmarshal` into a receiver holding `old` -/
def AreaGeomMixed.decInto (old : List PolygonMixed) (p : BitVec 16) : Dec (List PolygonMixed) :=
  dUvarint.andThen fun v => AreaGeomMixed.decBodyInto old p (geometryLen v)

def AreaGeomMixed.overlay : List PolygonMixed → List PolygonMixed → List PolygonMixed
  | _, [] => []
  | old, x :: xs =>
    (if x.isRef then ⟨x.paths, (splitSlot PolygonMixed.zero old).1.ll⟩ else ⟨(splitSlot PolygonMixed.zero old).1.paths, x.ll⟩)
      :: AreaGeomMixed.overlay (splitSlot PolygonMixed.zero old).2 xs

def AreaGeomMixed.compatible : List PolygonMixed → List PolygonMixed → Bool
  | _, [] => true
  | old, x :: xs =>
    (if x.isRef then (splitSlot PolygonMixed.zero old).1.ll == x.ll else (splitSlot PolygonMixed.zero old).1.paths == x.paths)
      && AreaGeomMixed.compatible (splitSlot PolygonMixed.zero old).2 xs

/-! ## leaf decoders on arbitrary buffers -/

inductive Raw (α : Type) where
  | ok (value : α) (consumed : Int)
  | panic
deriving DecidableEq, Repr

/-- `buffer[i:]` for an `int` `i`: a panic when `i < 0` or `i > len(buffer)` -/
def sliceFrom (bs : Bytes) (i : Int) : Option Bytes :=
  if i < 0 ∨ (bs.length : Int) < i then none else some (bs.drop i.toNat)

/-- `Reference.Unmarshal(primary, buffer)` on any buffer -/
def Reference.decRaw (p : BitVec 16) (bs : Bytes) : Raw Reference :=
  let r := uvarintRaw bs
  if r.1 % 2 = 1 then
    match sliceFrom bs r.2 with
    | none => .panic
    | some rest =>
      let x := uvarintRaw rest
      .ok ⟨BitVec.ofNat 16 (r.1 / 2), BitVec.ofNat 64 x.1⟩ (r.2 + x.2)
  else .ok ⟨p, BitVec.ofNat 64 (r.1 / 2)⟩ r.2

/-- `Int.Unmarshal` -/
def Int.decRaw (bs : Bytes) : Raw (BitVec 64) :=
  let r := uvarintRaw bs
  .ok (BitVec.ofNat 64 (r.1 / 4)) r.2

/-- `LatLng.Unmarshal`: `binary.LittleEndian.Uint32(buffer[i:])` needs four bytes -/
def LatLng.decRaw (bs : Bytes) : Raw LatLng :=
  let r := uvarintRaw bs
  match sliceFrom bs r.2 with
  | none => .panic
  | some rest =>
    if rest.length < 4 then .panic
    else .ok ⟨(zigzagDecode (BitVec.ofNat 64 (r.1 / 4))).setWidth 32, BitVec.ofNat 32 (leValue (rest.take 4))⟩ (r.2 + 4)

/-- `UnmarshalString`: `buffer[i : i+int(l)]` -/
def Str.decRaw (bs : Bytes) : Raw Bytes :=
  let r := uvarintRaw bs
  -- `int(l)`: values ≥ 2^63 are negative
  let l : Int := if r.1 < 2 ^ 63 then (r.1 : Int) else (r.1 : Int) - 2 ^ 64
  if r.2 < 0 ∨ r.2 + l < r.2 ∨ (bs.length : Int) < r.2 + l then .panic
  else .ok ((bs.drop r.2.toNat).take l.toNat) (r.2 + l)

/-- `NamespaceIndex.Unmarshal` -/
def NamespaceIndex.decRaw (bs : Bytes) : Raw NamespaceIndex :=
  let r := uvarintRaw bs
  match sliceFrom bs r.2 with
  | none => .panic
  | some rest =>
    let x := uvarintRaw rest
    .ok ⟨BitVec.ofNat 16 r.1, BitVec.ofNat 64 x.1⟩ (r.2 + x.2)

/-- `Namespaces.Unmarshal`: four `LittleEndian.Uint16(buffer[i:])`, each needs two bytes -/
def Namespaces.decRaw (bs : Bytes) : Raw Namespaces :=
  if bs.length < 8 then .panic
  else
    let u (k : Nat) : BitVec 16 := BitVec.ofNat 16 (leValue ((bs.drop k).take 2))
    .ok ⟨u 0, u 2, u 4, u 6⟩ 8

/-- `Bits.Unmarshal`: `ceil(l/8)` bytes are indexed after the length -/
def Bits.decRaw (bs : Bytes) : Raw (List Bool) :=
  let r := uvarintRaw bs
  if r.1 ≥ 2 ^ 63 then .panic   -- `(*b)[0:l]` with a negative `int(l)`… the resize loop does not run, the reslice panics
  else if r.1 = 0 then .ok [] r.2
  else
    match sliceFrom bs r.2 with
    | none => .panic
    | some rest =>
      match unpackBits (r.1 / 8) (r.1 % 8) rest with
      | none => .panic
      | some (b, n) => .ok b (r.2 + n)

/-- the results of decoding every proper prefix of `bs`, shortest first -/
def prefixResults {α : Type} (dec : Bytes → Raw α) (bs : Bytes) : List (Raw α) :=
  (List.range bs.length).map fun k => dec (bs.take k)

end B6.Model.Records
