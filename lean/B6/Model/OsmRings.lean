import B6.Model.Pbf
/-!
Model of the ring stitching in `osm/polygons.go` (`RelationToPolygon`): `indexWaysByEndNodes`,
`groupWaysIntoLoops` (ways joined end to end into loops, following the first other way recorded at the
joint node, until a way already seen is reached) and the node order of `waysToS2Loop` (each way forwards or
backwards, depending on which of its ends is the joint). Integer IDs only; S2 (`LoopFromPoints`, the
clockwise inversion) is outside — the harness reads the node order back from the loop's vertices, up to
that reversal.

`Ways` is the `osm.Ways` lookup (`WayMap`: a way's key is its ID); a way without nodes makes
`FirstNode()` panic.
-/
namespace B6.Model.OsmRings
open B6.Model.Pbf (Fail)

structure Way where
  id : Int64
  nodes : List Int64
deriving DecidableEq, Inhabited

/-- `ways.FindWay(id)` -/
def findWay (ws : List Way) (id : Int64) : Option Way := ws.find? (fun w => w.id == id)

/-- `(FirstNode(), LastNode())`; `none` = index panic -/
def ends (w : Way) : Option (Int64 × Int64) :=
  match w.nodes.head?, w.nodes.getLast? with
  | some a, some b => some (a, b)
  | _, _ => none

/-- `indexWaysByEndNodes` up to the map: checks every way member (`members` = the IDs of the relation's way
members, in order); `err` = a way is not found, `panic` = a way has no nodes -/
def checkMembers (ws : List Way) : List Int64 → Except Fail Unit
  | [] => .ok ()
  | id :: rest =>
    match findWay ws id with
    | none => .error .err
    | some w =>
      match ends w with
      | none => .error .panic
      | some _ => checkMembers ws rest

/-- `waysByNode[v]`: the member ways with an end at `v`, in member order, a way once per end -/
def incident (ws : List Way) (members : List Int64) (v : Int64) : List Int64 :=
  members.flatMap fun id =>
    match (findWay ws id).bind ends with
    | some (a, b) => (if a = v then [id] else []) ++ (if b = v then [id] else [])
    | none => []

/-- the inner `for` of `groupWaysIntoLoops`: `cur` is the current way, `joint` the node it is left through.
Returns the loop and the ways seen. `fuel`: every round either stops or marks a way seen. -/
def follow (ws : List Way) (members : List Int64) :
    Nat → (seen loop : List Int64) → (cur joint : Int64) → Except Fail (List Int64 × List Int64)
  | 0, _, _, _, _ => .error .panic
  | fuel + 1, seen, loop, cur, joint =>
    let loop := loop ++ [cur]
    match (incident ws members joint).find? (fun n => n != cur) with
    | none => .error .err
    | some next =>
      match (findWay ws next).bind ends with
      | none => .error .panic
      | some (a, b) =>
        let joint' := if joint = a then b else a
        if seen.contains next then .ok (loop, seen)
        else follow ws members fuel (next :: seen) loop next joint'

/-- the outer `for` of `groupWaysIntoLoops` -/
def group (ws : List Way) (members : List Int64) :
    (todo seen : List Int64) → (loops : List (List Int64)) → Except Fail (List (List Int64))
  | [], _, loops => .ok loops
  | id :: rest, seen, loops =>
    if seen.contains id then group ws members rest seen loops
    else
      match (findWay ws id).bind ends with
      | none => .error .panic
      | some (a, b) =>
        if a = b then group ws members rest (id :: seen) (loops ++ [[id]])
        else
          match follow ws members (members.length + 1) (id :: seen) [] id b with
          | .error e => .error e
          | .ok (loop, seen') => group ws members rest seen' (loops ++ [loop])

/-- `indexWaysByEndNodes` + `groupWaysIntoLoops` -/
def rings (ws : List Way) (members : List Int64) : Except Fail (List (List Int64)) :=
  match checkMembers ws members with
  | .error e => .error e
  | .ok () => group ws members members [] []

/-- the node order of `waysToS2Loop` from the joint on -/
def loopNodesFrom (ws : List Way) : Int64 → List Int64 → Option (List Int64)
  | _, [] => some []
  | joint, id :: rest =>
    match findWay ws id with
    | none => none
    | some w =>
      match ends w with
      | none => none
      | some (a, b) =>
        if a = joint then (loopNodesFrom ws b rest).map (w.nodes ++ ·)
        else (loopNodesFrom ws a rest).map (w.nodes.reverse ++ ·)

/-- `waysToS2Loop`: the nodes whose locations become the loop's vertices (`none`: empty loop or a way
without nodes = index panic) -/
def loopNodes (ws : List Way) (ids : List Int64) : Option (List Int64) :=
  match ids with
  | [] => none
  | id :: _ =>
    match (findWay ws id).bind ends with
    | none => none
    | some (a, _) => loopNodesFrom ws a ids

/-- a closed ring: every way is entered at the joint the previous one was left through (forwards or
backwards), and the last one is left through the node the first one was entered at -/
def closedFrom (ws : List Way) (start : Int64) : Int64 → List Int64 → Bool
  | joint, [] => joint == start
  | joint, id :: rest =>
    match (findWay ws id).bind ends with
    | none => false
    | some (a, b) =>
      if a = joint then closedFrom ws start b rest
      else if b = joint then closedFrom ws start a rest
      else false

/-- the joint after going through `ids` from `joint` on, each way forwards or backwards; `none` = some way
does not have the joint as an end (the ways are not joined end to end) -/
def thread (ws : List Way) : Int64 → List Int64 → Option Int64
  | joint, [] => some joint
  | joint, id :: rest =>
    match (findWay ws id).bind ends with
    | none => none
    | some (a, b) =>
      if a = joint then thread ws b rest
      else if b = joint then thread ws a rest
      else none

/-- the ways of the loop are joined end to end (each forwards or backwards), starting at the first way's
first node -/
def isChain (ws : List Way) (ids : List Int64) : Bool :=
  match ids with
  | [] => false
  | id :: _ =>
    match (findWay ws id).bind ends with
    | none => false
    | some (a, _) => (thread ws a ids).isSome

def isClosedRing (ws : List Way) (ids : List Int64) : Bool :=
  match ids with
  | [] => false
  | id :: _ =>
    match (findWay ws id).bind ends with
    | none => false
    | some (a, _) => closedFrom ws a a ids

/-- "the input ways form disjoint cycles": member IDs distinct, every member found with nodes, and every
node is the end of no member way or of exactly two way-ends -/
def disjointCycles (ws : List Way) (members : List Int64) : Bool :=
  decide members.Nodup &&
  members.all (fun id => ((findWay ws id).bind ends).isSome) &&
  members.all (fun id =>
    match (findWay ws id).bind ends with
    | some (a, b) => (incident ws members a).length == 2 && (incident ws members b).length == 2
    | none => false)

end B6.Model.OsmRings
