/-!
# Model of renderer/simplify.go — Douglas–Peucker line simplification (property C34)

Both algorithms exactly as written in Go (after fix C34-negative-tolerance: the split test is
`maxi > 0 && max > epsilon`), over an abstract point type `P` and an abstract distance type `D`:

* `Metric.dist a b p`   — Go `distance(a, b, p)` (floating point; a parameter, identical for both),
* `Metric.gt x y`       — Go `x > y` on float64 (NO order axioms are assumed: the theorems hold for
                          any relation, so NaN behaviour is covered),
* `Metric.zero`         — the `0.0` the running maximum starts from.

Go behaviours made explicit:  `Res.panic` = index out of range, `Res.nofuel` = the loop / recursion
did not finish within the fuel handed in by the top-level functions (`2·len+1` loop iterations,
recursion depth `len+1`); `Props/C34.lean` proves `nofuel` is never returned.

Slices: `points[0:maxi]` = `List.take maxi`, `points[maxi:]` = `List.drop maxi`;
the interval stack is a `List (begin × end)` whose head is the top of the Go stack.
-/
namespace B6.Model.DouglasPeucker

structure Metric (P D : Type) where
  dist : P → P → P → D
  gt : D → D → Bool
  zero : D

inductive Res (α : Type) where
  | ok (a : α)
  | panic
  | nofuel
  deriving DecidableEq, Repr

variable {P D : Type}

/-- The scan loop shared by both functions:
`for i := i0; …; i++ { if d := distance(a, b, points[i]); d > max { max = d; maxi = i } }`
over the interior points `ps` (already sliced out), starting at index `i`. -/
def scanFrom (m : Metric P D) (a b : P) : List P → Nat → D → Nat → D × Nat
  | [], _, mx, mi => (mx, mi)
  | p :: ps, i, mx, mi =>
    if m.gt (m.dist a b p) mx then scanFrom m a b ps (i + 1) (m.dist a b p) i
    else scanFrom m a b ps (i + 1) mx mi

/-- Go `points[b:e]` for `b ≤ e ≤ len`. -/
def slice (pts : List P) (b e : Nat) : List P := (pts.drop b).take (e - b)

/-! ## the recursive reference `referenceDouglasPeuckerSimplify` -/

/-- `max, maxi` after the loop `for i := 1; i < len(points)-1; i++` with chord
`points[0]`, `points[len-1]` (read only when the loop body runs). -/
def refScan (m : Metric P D) (pts : List P) : D × Nat :=
  match pts with
  | [] => (m.zero, 0)
  | a :: rest =>
    match rest.getLast? with
    | none => (m.zero, 0)
    | some b => scanFrom m a b rest.dropLast 1 m.zero 0

def refF (m : Metric P D) (eps : D) : Nat → List P → Res (List P)
  | 0, _ => .nofuel
  | f + 1, pts =>
    let s := refScan m pts
    if 0 < s.2 && m.gt s.1 eps then
      match refF m eps f (pts.take s.2) with         -- left  := ref(points[0:maxi])
      | .ok left =>
        match refF m eps f (pts.drop s.2) with       -- right := ref(points[maxi:])
        | .ok right =>
          if left.isEmpty then .panic                -- left[0:len(left)-1] with len(left) = 0
          else .ok (left.dropLast ++ right)
        | r => r
      | r => r
    else
      match pts.head?, pts.getLast? with             -- {points[0], points[len-1]}
      | some a, some b => .ok [a, b]
      | _, _ => .panic

/-- `referenceDouglasPeuckerSimplify(points, epsilon)` -/
def reference (m : Metric P D) (pts : List P) (eps : D) : Res (List P) :=
  refF m eps (pts.length + 1) pts

/-! ## the explicit-stack version `douglasPeuckerSimplify` -/

/-- `max, maxi` after `for i := top.begin + 1; i < top.end-1; i++` with chord `points[top.begin]`,
`points[top.end-1]`; `none` = index out of range. (`e - 1` on `Nat` is `0` for `e = 0`, where Go has
`-1`; in both the loop body does not run.) -/
def iterScan (m : Metric P D) (pts : List P) (b e : Nat) : Option (D × Nat) :=
  if b + 1 < e - 1 then
    match pts[b]?, pts[e - 1]? with
    | some a, some z => some (scanFrom m a z (slice pts (b + 1) (e - 1)) (b + 1) m.zero 0)
    | _, _ => none
  else some (m.zero, 0)

/-- the `for len(stack) > 0` loop; one unit of fuel per iteration -/
def loopF (m : Metric P D) (pts : List P) (eps : D) : Nat → List (Nat × Nat) → List P → Res (List P)
  | _, [], out => .ok out
  | 0, _ :: _, _ => .nofuel
  | f + 1, (b, e) :: st, out =>
    match iterScan m pts b e with
    | none => .panic
    | some s =>
      if 0 < s.2 && m.gt s.1 eps then
        -- stack = append(stack, interval{maxi, end}, interval{begin, maxi}); the last one is popped next
        loopF m pts eps f ((b, s.2) :: (s.2, e) :: st) out
      else
        match pts[b]? with                            -- simplified = append(simplified, points[top.begin])
        | some p => loopF m pts eps f st (out ++ [p])
        | none => .panic

/-- `douglasPeuckerSimplify(points, epsilon)` -/
def douglasPeucker (m : Metric P D) (pts : List P) (eps : D) : Res (List P) :=
  match loopF m pts eps (2 * pts.length + 1) [(0, pts.length)] [] with
  | .ok out =>
    match pts.getLast? with                           -- append(simplified, points[len(points)-1])
    | some z => .ok (out ++ [z])
    | none => .panic
  | r => r

/-- `renderer.Simplify(points, epsilon)` -/
def simplify (m : Metric P D) (pts : List P) (eps : D) : Res (List P) :=
  if pts.length < 2 then
    match pts.head? with                              -- []r2.Point{points[0]}
    | some p => .ok [p]
    | none => .panic
  else douglasPeucker m pts eps

end B6.Model.DouglasPeucker
