import B6.Model.Pbf
/-!
Model of the OSM → feature mapping (property C29): `ingest/osm.go` (`NewFeatureSourceFromPBF`,
`pbfSource.Read`, `reassembleMultiPolygon`, `isWayClosed`, `isRelationArea`, `FillTagsFromOSM`,
`osmTagMapping` / `KeyForOSMKey`, the ID constructors) and `ingest/features.go`
(`GenericFeature.FillFromOSM`, `AreaFeature.FillFromOSMWay`, `Tags.ModifyOrAddTag`, `Tags.GeometryLen`).

`ingest es` is the list of features the feature source emits for the OSM elements `es`, in order (one
reader goroutine); `world` is what the basic world builder keeps of them for a geometrically well formed
input (features keyed by ID, later ones replace earlier ones; the path of a clockwise closed way is
reversed by `ValidatePath` — which ways are clockwise is an S2 computation and enters as a parameter).

The model mirrors the code after the fixes `fixes/C29-relation-member-area-id.patch` (member IDs are chosen
by the *member's* ID; `memberIDBeforeFix` is what the code did before) and
`fixes/C29-reserved-geometry-keys.patch` (OSM keys `point`/`path` become `osm:point`/`osm:path`;
`keyForOSMKeyBeforeFix`).

OSM elements are `B6.Model.Pbf.Element`s; for this property a node's `lat`/`lon` are E7 integers (only
carried through to the `point` tag). Geometry (S2) is outside the model.
-/
namespace B6.Model.Osm
open B6.Model.Pbf (Element Tag Member MType Fail)

inductive FType where
  | point | path | area | relation
deriving DecidableEq, Repr, Inhabited

/-- the three OSM namespaces `openstreetmap.org/node|way|relation` -/
inductive NS where
  | node | way | relation
deriving DecidableEq, Repr, Inhabited

structure FID where
  type : FType
  ns : NS
  value : UInt64
deriving DecidableEq, Inhabited

inductive Value where
  | str (s : String)
  /-- `point` tag: the node's location -/
  | point (lat lon : Int64)
  /-- `path` tag: `Expressions` of `FeatureIDExpression`s -/
  | ids (l : List FID)
deriving DecidableEq, Inhabited

structure FTag where
  key : String
  value : Value
deriving DecidableEq, Inhabited

inductive Feature where
  /-- `GenericFeature` (points and paths) -/
  | generic (id : FID) (tags : List FTag)
  /-- `AreaFeature`: one list of path IDs per polygon -/
  | area (id : FID) (tags : List FTag) (polygons : List (List FID))
  /-- `RelationFeature` -/
  | relation (id : FID) (tags : List FTag) (members : List (FID × String))
deriving DecidableEq, Inhabited

def Feature.id : Feature → FID
  | .generic id _ => id
  | .area id _ _ => id
  | .relation id _ _ => id

def Feature.tags : Feature → List FTag
  | .generic _ t => t
  | .area _ t _ => t
  | .relation _ t _ => t

/-! ## IDs (`uint64(id)` of an `int64`: two's complement) -/

def u (i : Int64) : UInt64 := i.toUInt64

/-- `FromOSMNodeID` -/
def pointID (i : Int64) : FID := ⟨.point, .node, u i⟩
/-- `FromOSMWayID` -/
def pathID (i : Int64) : FID := ⟨.path, .way, u i⟩
/-- `AreaIDFromOSMWayID` -/
def wayAreaID (i : Int64) : FID := ⟨.area, .way, u i⟩
/-- `FromOSMRelationID` -/
def relID (i : Int64) : FID := ⟨.relation, .relation, u i⟩
/-- `AreaIDFromOSMRelationID` -/
def relAreaID (i : Int64) : FID := ⟨.area, .relation, u i⟩

/-! ## Tags -/

/-- `osmTagMapping`, entry by entry -/
def osmTagMapping : List (String × String) :=
  [ ("amenity", "#amenity"), ("barrier", "#barrier"), ("boundary", "#boundary"), ("bridge", "#bridge"),
    ("building", "#building"), ("highway", "#highway"), ("landuse", "#landuse"), ("leisure", "#leisure"),
    ("natural", "#natural"), ("network", "#network"), ("place", "#place"), ("railway", "#railway"),
    ("route", "#route"), ("shop", "#shop"), ("tourism", "#tourism"), ("water", "#water"),
    ("waterway", "#waterway"), ("fhrs:id", "@fhrs:id"), ("wikidata", "@wikidata"), ("wikipedia", "@wikipedia") ]

def lookupKey (k : String) : List (String × String) → Option String
  | [] => none
  | (a, b) :: rest => if a = k then some b else lookupKey k rest

/-- `KeyForOSMKey` (after `fixes/C29-reserved-geometry-keys.patch`: the two keys b6 keeps a feature's
geometry under are moved out of the way) -/
def keyForOSMKey (k : String) : String :=
  match lookupKey k osmTagMapping with
  | some m => m
  | none => if k = "point" ∨ k = "path" then "osm:" ++ k else k

/-- before that fix an OSM key `point` / `path` was kept as it is -/
def keyForOSMKeyBeforeFix (k : String) : String :=
  match lookupKey k osmTagMapping with
  | some m => m
  | none => k

/-- `FillTagsFromOSM` -/
def mapTags (ts : List Tag) : List FTag := ts.map fun t => ⟨keyForOSMKey t.key, .str t.value⟩

/-- `Tags.ModifyOrAddTag`: the first tag with that key gets the value, otherwise the tag is appended -/
def modifyOrAdd (k : String) (v : Value) : List FTag → List FTag
  | [] => [⟨k, v⟩]
  | t :: ts => if t.key = k then ⟨k, v⟩ :: ts else t :: modifyOrAdd k v ts

/-- `osm.Tags.Tag(key)`: the value of the first tag with that key -/
def tagValue (k : String) : List Tag → Option String
  | [] => none
  | t :: ts => if t.key = k then some t.value else tagValue k ts

/-! ## Which elements are areas -/

/-- `isWayClosed`; `none` = the index panic on a way without nodes -/
def wayClosed? (nodes : List Int64) : Option Bool :=
  match nodes with
  | [] => none
  | n :: _ => some (nodes.getLast? == some n)

/-- `isRelationArea` -/
def isRelationArea (tags : List Tag) : Bool := tagValue "type" tags == some "multipolygon"

/-- the two `IDSet`s of `pbfSource`, as lists of `uint64` IDs -/
structure Sets where
  areaWays : List UInt64 := []
  areaRels : List UInt64 := []
deriving Inhabited

/-- the second pass of `NewFeatureSourceFromPBF` (nodes skipped) -/
def collect : List Element → Except Fail Sets
  | [] => .ok {}
  | .node .. :: es => collect es
  | .way id nodes _ :: es =>
    match wayClosed? nodes with
    | none => .error .panic
    | some c => (collect es).map fun s => if c then { s with areaWays := u id :: s.areaWays } else s
  | .relation id _ tags :: es =>
    (collect es).map fun s => if isRelationArea tags then { s with areaRels := u id :: s.areaRels } else s

/-! ## Features -/

/-- the loop of `reassembleMultiPolygon`: `polygons`, `loops` so far; `none` = a way member is not a
closed way of the input, nothing is emitted -/
def assemble (areaWays : List UInt64) : List (List Int64) → List Int64 → List Member → Option (List (List Int64))
  | polygons, loops, [] => some (if loops.isEmpty then polygons else polygons ++ [loops])
  | polygons, loops, m :: ms =>
    if m.type = .way then
      let (polygons, loops) :=
        if (m.role = "outer" ∨ m.role = "") ∧ ¬ loops.isEmpty then (polygons ++ [loops], []) else (polygons, loops)
      if areaWays.contains (u m.id) then assemble areaWays polygons (loops ++ [m.id]) ms
      else none
    else assemble areaWays polygons loops ms

/-- the member ID chosen by `pbfSource.Read` (fixed code): by the member's kind and by whether *the
member* is an area way / area relation -/
def memberID (s : Sets) (m : Member) : FID :=
  match m.type with
  | .node => pointID m.id
  | .way => if s.areaWays.contains (u m.id) then wayAreaID m.id else pathID m.id
  | .relation => if s.areaRels.contains (u m.id) then relAreaID m.id else relID m.id

/-- before the fix the sets were asked about the *relation's* ID `rid` -/
def memberIDBeforeFix (s : Sets) (rid : Int64) (m : Member) : FID :=
  match m.type with
  | .node => pointID m.id
  | .way => if s.areaWays.contains (u rid) then wayAreaID m.id else pathID m.id
  | .relation => if s.areaRels.contains (u rid) then relAreaID m.id else relID m.id

/-- the features `pbfSource.Read` emits for one element (ways without nodes never get here: `collect`
has already panicked) -/
def featuresOf (s : Sets) : Element → List Feature
  | .node id lat lon tags =>
    [.generic (pointID id) (modifyOrAdd "point" (.point lat lon) (mapTags tags))]
  | .way id nodes tags =>
    let closed := wayClosed? nodes == some true
    let path := Feature.generic (pathID id)
      (modifyOrAdd "path" (.ids (nodes.map pointID)) (if closed then [] else mapTags tags))
    if closed then [path, .area (wayAreaID id) (mapTags tags) [[pathID id]]] else [path]
  | .relation id members tags =>
    if isRelationArea tags then
      match assemble s.areaWays [] [] members with
      | none => []
      | some polygons => [.area (relAreaID id) (mapTags tags) (polygons.map (·.map pathID))]
    else
      [.relation (relID id) (mapTags tags) (members.map fun m => (memberID s m, m.role))]

/-- `NewFeatureSourceFromPBF` + `Read` with one goroutine: every emitted feature, in order -/
def ingest (es : List Element) : Except Fail (List Feature) :=
  (collect es).map fun s => es.flatMap (featuresOf s)

/-! ## The basic world for a well formed input -/

/-- `Tags.GeometryLen`: a `point` tag (any value) makes the feature a point of length 1, otherwise the
length of the `path` tag's list -/
def geometryLen (ts : List FTag) : Nat :=
  if ts.any (fun t => t.key = "point") then 1
  else match ts.find? (fun t => t.key = "path") with
    | some ⟨_, .ids l⟩ => l.length
    | _ => 0

def reversePath (cw : List UInt64) : Feature → Feature
  | .generic id tags =>
    if id.type = .path ∧ cw.contains id.value then
      .generic id (tags.map fun t => match t.value with
        | .ids l => if t.key = "path" then ⟨t.key, .ids l.reverse⟩ else t
        | _ => t)
    else .generic id tags
  | f => f

/-- features by ID, a later feature replaces an earlier one with the same ID (`FeaturesByID` is a map) -/
def byID : List Feature → List Feature
  | [] => []
  | f :: fs => if fs.any (fun g => g.id = f.id) then byID fs else f :: byID fs

/-- `NewWorldFromSource` for an input in which every path and area validates: `cw` = IDs of the closed
ways whose loop is clockwise (their path is inverted) -/
def world (cw : List UInt64) (fs : List Feature) : List Feature := (byID fs).map (reversePath cw)

end B6.Model.Osm
