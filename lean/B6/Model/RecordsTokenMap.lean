import B6.Model.Varint
/-!
# L2 records — `TokenMapEncoder` / `TokenMap` (ingest/compact/encoding.go) over `encoding.ByteArrays` (core Lean only)

* `Encoder` = the hash buckets of `TokenMapEncoder` (`tokens[b][i]`, `indices[b][i]` zipped), `n` = entries added
  since the last resize.  `add` doubles the table and re-adds everything, bucket by bucket, when
  `float64(n+1)/float64(len) > 0.6`; the table length is a power of two, so the quotient is an exact dyadic
  rational and the comparison is `(n+1)*5 > 3*len` (0.6 is not dyadic; no value of the quotient lies between
  `float64(0.6)` and 0.6 for tables below 2^50 buckets).
* `encode` = the bytes `Write` produces: `ByteArraysLayout` (three little-endian `uint32`), `items+1` pointers of
  `OffsetBytes = Uint64Length(total)` bytes each, then the buckets' indices as uvarints.
* `decodeLength` = `TokenMap.Unmarshal` (`ByteArrays.Length()`), `item` = `ByteArrays.Item(i)`,
  `findPossibleIndices` = `FindPossibleIndices(token)` drained with `Next()`.
  `none` = the Go code panics (short buffer, zero items, item out of range).
-/
namespace B6.Model.RecordsTokenMap
open B6.Model.Varint

def fnvOffset : Nat := 0xcbf29ce484222325
def fnvPrime : Nat := 0x00000100000001b3
/-- `encoding.HashString`: FNV-1a, 64 bit -/
def hashString (s : Bytes) : Nat := s.foldl (fun h b => (Nat.xor h b.toNat * fnvPrime) % 2 ^ 64) fnvOffset

abbrev Entry := Bytes × BitVec 64

structure Encoder where
  buckets : List (List Entry)
  n : Nat
deriving Repr

/-- `NewTokenMapEncoder()`: one empty bucket -/
def Encoder.new : Encoder := ⟨[[]], 0⟩

/-- `TokenMapEncoder.add` -/
def addRaw (e : Encoder) (tok : Bytes) (ix : BitVec 64) : Encoder :=
  ⟨e.buckets.modify (hashString tok % e.buckets.length) (· ++ [(tok, ix)]), e.n + 1⟩

/-- the resize of `TokenMapEncoder.Add` -/
def grow (e : Encoder) : Encoder :=
  e.buckets.flatten.foldl (fun acc x => addRaw acc x.1 x.2) ⟨List.replicate (2 * e.buckets.length) [], 0⟩

/-- `TokenMapEncoder.Add` -/
def add (e : Encoder) (tok : Bytes) (ix : BitVec 64) : Encoder :=
  addRaw (if (e.n + 1) * 5 > 3 * e.buckets.length then grow e else e) tok ix

def addAll (adds : List Entry) : Encoder := adds.foldl (fun e x => add e x.1 x.2) Encoder.new

/-- the bytes of one bucket: every index as a uvarint (`eachIndex`) -/
def itemBytes (b : List Entry) : Bytes := (b.map fun x => putUvarint x.2.toNat).flatten

/-- `pointers` after `FinishReservation`: running sums, `items + 1` entries -/
def prefixSums : Nat → List Nat → List Nat
  | acc, [] => [acc]
  | acc, x :: xs => acc :: prefixSums (acc + x) xs

def le32 (v : Nat) : Bytes := marshalUint64 (v % 2 ^ 32) 4

/-- the bytes written by `TokenMapEncoder.Write` (= `Length()` bytes) -/
def encode (e : Encoder) : Bytes :=
  let items := e.buckets.map itemBytes
  let lens := items.map List.length
  let ptrs := prefixSums 0 lens
  let total := lens.foldl (· + ·) 0
  let ob := uint64Length total
  let maxLen := lens.foldl Nat.max 0
  le32 e.buckets.length ++ le32 ob ++ le32 maxLen ++ (ptrs.map fun p => marshalUint64 p ob).flatten ++ items.flatten

def rd32 (bs : Bytes) (off : Nat) : Option Nat :=
  if bs.length < off + 4 then none else some (leValue ((bs.drop off).take 4))

structure Layout where
  items : Nat
  offsetBytes : Nat
  maxItemLength : Nat

/-- `NewByteArrays(data)` → `Layout.Unmarshal` -/
def layout (data : Bytes) : Option Layout := do
  let a ← rd32 data 0
  let b ← rd32 data 4
  let c ← rd32 data 8
  pure ⟨a, b, c⟩

/-- the pointer stored at `PointerOffset(i)` -/
def pointerAt (data : Bytes) (l : Layout) (i : Nat) : Option Nat :=
  if data.length < 12 + l.offsetBytes * i then none
  else unmarshalUint64 l.offsetBytes (data.drop (12 + l.offsetBytes * i))

/-- `TokenMap.Unmarshal(buffer)` = `ByteArrays.Length()` -/
def decodeLength (data : Bytes) : Option Nat := do
  let l ← layout data
  let p ← pointerAt data l l.items
  pure (12 + l.offsetBytes * (l.items + 1) + p)

/-- `ByteArrays.Item(i)` -/
def item (data : Bytes) (i : Nat) : Option Bytes := do
  let l ← layout data
  if i ≥ l.items then none else
  let p ← pointerAt data l i
  let q ← pointerAt data l (i + 1)
  let off := 12 + l.offsetBytes * (l.items + 1)
  if p > q ∨ data.length < off + q then none
  else pure ((data.drop (off + p)).take (q - p))

/-- `TokenMapIterator.Next()` until exhausted; a broken varint never ends (`n = 0`) or panics — `none`. -/
def drain : Nat → Bytes → Option (List (BitVec 64))
  | _, [] => some []
  | 0, _ :: _ => none
  | f + 1, b :: bs =>
    match uvarint (b :: bs) with
    | none => none
    | some (v, n) => (drain f ((b :: bs).drop n)).map (BitVec.ofNat 64 v :: ·)

/-- `FindPossibleIndices(token)`, drained -/
def findPossibleIndices (data : Bytes) (tok : Bytes) : Option (List (BitVec 64)) := do
  let l ← layout data
  if l.items = 0 then none else
  let it ← item data (hashString tok % l.items)
  drain it.length it

end B6.Model.RecordsTokenMap
