import B6.Model.Varint
/-!
# L3 posting lists — `ingest/compact/encoding.go` (core Lean only, executable, total)

Mirrors, line by line, the code that exists in /repo/src/diagonal.works/b6/ingest/compact/encoding.go:

* `combine` / `splitTN`            = `CombineTypeAndNamespace` / `TypeAndNamespace.Split` (uint16: 3 type bits, 13 namespace bits)
* `Table`, `fillFromNamespaces`    = `NamespaceTable.FillFromNamespaces` (`""` prepended, sorted; `ToEncoded` = last index of a name)
* `appendStep`, `encodeFrom`, `fill` = `PostingListEncoder.Append` folded by `PostingList.Fill`
  (namespace switch → pad to the 64-byte block and record `NamespaceIndex`; a block start resets `previous`;
  a varint that would cross the block end → pad and re-encode the absolute value; padding byte `0x80`)
* `marshal` / `unmarshal`          = `PostingList.Marshal` / `NewIterator` (`PostingListHeader.Unmarshal`, ids = the rest)
* `next`                           = `Iterator.Next` (padding skip by the trailing `0x80`s of the block, namespace walk,
                                     absolute value at a block start, delta otherwise)
* `advance`                        = `Iterator.Advance` **as repaired by fixes/C08-advance-absent-namespace.patch**
                                     (`advanceOld` keeps the code before the repair for the counterexample)
* `search`                         = `sort.Search` (the loop of the Go standard library)

The encoder only ever looks at `len(p.PostingList.IDs)`, never at the bytes already written, so the model
carries the length and produces the bytes to be appended (`encodeFrom` is the right fold of `appendStep`).

An id is a pair `(TypeAndNamespace, Value)`; `Value` is a `uint64` (`< 2^64`, the arithmetic wraps like Go's).
Go panics are `.error .panic`; a varint that does not decode (`binary.Uvarint` returns `n <= 0`, impossible on
encoder output) is `.error .corrupt` — the Go code would go on with `i.i += n`, which is not modelled.
-/
namespace B6.Model.Posting
open B6.Model.Varint

inductive Err where
  | panic     -- the Go code panics (index out of range, `nt.Encode` / `nt.Decode` of an unknown namespace)
  | corrupt   -- `binary.Uvarint` failed (`n <= 0`): never on encoder output; Go's continuation is not modelled
  | fuel      -- a loop did not finish within the model's bound (never happens: see `Lemmas/Posting*`)
  deriving Repr, DecidableEq

/-- `(TypeAndNamespace, Value)` -/
abbrev Id := Nat × Nat
/-- `NamespaceIndex{TypeAndNamespace, Index}` -/
abbrev NsIndex := Nat × Nat

/-- `PostingListBlockSize` (the definitions below use the literal so that `omega` sees it) -/
def blockSize : Nat := 64
/-- `Padding = byte(128)` -/
def paddingByte : UInt8 := 128

/-! ## TypeAndNamespace -/

/-- `TypeAndNamespace(t<<13) | TypeAndNamespace(ns)` — both conversions truncate to `uint16`. -/
def combine (t ns : Nat) : Nat := ((t <<< 13) % 65536) ||| (ns % 65536)

/-- `b6.FeatureType(t >> 13), Namespace(t & ((1 << 13) - 1))` -/
def splitTN (tn : Nat) : Nat × Nat := (tn >>> 13, tn % 8192)

/-! ## Namespace table -/

/-- `NamespaceTable`: `names` = `FromEncoded`; `ToEncoded` is the map built from it (last index wins). -/
structure Table where
  names : List String
  deriving Repr

def insertSorted (s : String) : List String → List String
  | [] => [s]
  | x :: xs => if s < x then s :: x :: xs else x :: insertSorted s xs

/-- `sort.Sort(b6.Namespaces)`: the sorted sequence (equal strings are indistinguishable). -/
def sortNames : List String → List String
  | [] => []
  | x :: xs => insertSorted x (sortNames xs)

/-- `FillFromNamespaces`: `FromEncoded[0] = ""`, then the given namespaces; sorted. -/
def fillFromNamespaces (nss : List String) : Table := ⟨sortNames ("" :: nss)⟩

def lastIdxAux (s : String) : List String → Nat → Option Nat → Option Nat
  | [], _, acc => acc
  | x :: xs, i, acc => lastIdxAux s xs (i + 1) (if x = s then some i else acc)

/-- `nt.Encode(ns)`: `ToEncoded[ns]` (`for i, ns := range FromEncoded { ToEncoded[ns] = Namespace(i) }`), panic if absent. -/
def Table.encode (t : Table) (s : String) : Except Err Nat :=
  match lastIdxAux s t.names 0 none with
  | some i => .ok (i % 65536)
  | none => .error .panic

/-- `nt.Decode(e)`: panics when `e >= len(FromEncoded)`. -/
def Table.decode (t : Table) (e : Nat) : Except Err String :=
  match t.names[e]? with
  | some s => .ok s
  | none => .error .panic

/-- `b6.FeatureID` -/
structure Key where
  type : Nat
  ns : String
  value : Nat
  deriving Repr, DecidableEq

/-- `b6.FeatureID.Less` -/
def Key.less (a b : Key) : Bool :=
  if a.type = b.type then
    if a.ns = b.ns then decide (a.value < b.value) else decide (a.ns < b.ns)
  else decide (a.type < b.type)

/-- `nt.EncodeID` + `CombineTypeAndNamespace`: what the harness hands to `PostingList.Fill`. -/
def Table.encodeKey (t : Table) (k : Key) : Except Err Id :=
  match t.encode k.ns with
  | .ok e => .ok (combine k.type e, k.value)
  | .error e => .error e

/-- `Split` + `nt.Decode`: the `b6.FeatureID` the iterator reports for `(tn, value)`. -/
def Table.decodeId (t : Table) (id : Id) : Except Err Key :=
  match t.decode (splitTN id.1).2 with
  | .ok s => .ok ⟨(splitTN id.1).1, s, id.2⟩
  | .error e => .error e

/-! ## Encoder -/

/-- state of `PostingListEncoder`; `len` = `len(p.PostingList.IDs)` (`ni` is always `len(Namespaces)-1`). -/
structure Enc where
  len : Nat
  tn : Nat
  start : Nat
  previous : Nat
  deriving Repr, DecidableEq

/-- `NewPostingListEncoder` (`tn = TypeAndNamespaceInvalid`) -/
def Enc.init : Enc := ⟨0, 0, 0, 0⟩

/-- number of bytes `padIDBlock` appends -/
def padLen (len : Nat) : Nat := if len % 64 ≠ 0 then 64 - len % 64 else 0

def padBytes (len : Nat) : Bytes := List.replicate (padLen len) 128

/-- `if tnn != p.tn { … }`: bytes appended, the `NamespaceIndex` recorded, state. -/
def nsSwitch (s : Enc) (tnn : Nat) : Bytes × Option NsIndex × Enc :=
  if tnn ≠ s.tn then
    (padBytes s.len, some (tnn, s.len + padLen s.len), { s with tn := tnn, len := s.len + padLen s.len })
  else ([], none, s)

/-- `if len(IDs)%PostingListBlockSize == 0 { p.start = len(IDs); p.previous = 0 }` -/
def blockReset (s : Enc) : Enc :=
  if s.len % 64 = 0 then { s with start := s.len, previous := 0 } else s

/-- `id.Value - p.previous` on `uint64` (wraps around when `previous > value`, i.e. on unsorted input).
For `v, prev < 2^64` this is `(v + 2^64 - prev) % 2^64` (`wrapSub_eq_mod` in Lemmas/Posting); it is written
without the addition of a huge literal because the kernel's unfolding of `Nat.add _ 2^64` does not terminate
in practice. -/
def wrapSub (v prev : Nat) : Nat := if prev ≤ v then v - prev else 2 ^ 64 - (prev - v)

/-- the rest of `Append`: delta varint, or pad + absolute varint when it would cross the block end. -/
def emit (s : Enc) (v : Nat) : Bytes × Enc :=
  let d := putUvarint (wrapSub v s.previous)
  if (s.len - s.start) + d.length > 64 then
    let a := putUvarint v
    (padBytes s.len ++ a,
      { s with len := s.len + padLen s.len + a.length, start := s.len + padLen s.len, previous := v })
  else
    (d, { s with len := s.len + d.length, previous := v })

/-- `PostingListEncoder.Append(id)` -/
def appendStep (s : Enc) (id : Id) : Bytes × Option NsIndex × Enc :=
  let r1 := nsSwitch s id.1
  let r3 := emit (blockReset r1.2.2) id.2
  (r1.1 ++ r3.1, r1.2.1, r3.2)

/-- the bytes and namespace entries appended by `Append`ing `ids` one after the other from state `s`. -/
def encodeFrom : Enc → List Id → Bytes × List NsIndex
  | _, [] => ([], [])
  | s, id :: rest =>
    let r := appendStep s id
    let t := encodeFrom r.2.2 rest
    (r.1 ++ t.1, r.2.1.toList ++ t.2)

/-- `PostingListHeader` -/
structure Header where
  token : Bytes
  features : Nat
  namespaces : List NsIndex
  deriving Repr, DecidableEq

/-- `PostingList` -/
structure PostingList where
  header : Header
  ids : Bytes
  deriving Repr, DecidableEq

/-- `PostingList.Fill(token, iterator over ids)` -/
def fill (token : Bytes) (ids : List Id) : PostingList :=
  let r := encodeFrom Enc.init ids
  ⟨⟨token, ids.length, r.2⟩, r.1⟩

/-- the `(Header, bytes)` pair of DESIGN §5 -/
def encode (ids : List Id) : Header × Bytes := ((fill [] ids).header, (fill [] ids).ids)

/-! ## Marshal / Unmarshal -/

def marshalNss (nss : List NsIndex) : Bytes :=
  putUvarint nss.length ++ nss.flatMap fun e => putUvarint e.1 ++ putUvarint e.2

/-- `PostingListHeader.Marshal`: `MarshalString(Token)`, `Features`, `Namespaces`. -/
def marshalHeader (h : Header) : Bytes :=
  putUvarint h.token.length ++ h.token ++ putUvarint h.features ++ marshalNss h.namespaces

/-- `PostingList.Marshal` -/
def marshal (p : PostingList) : Bytes := marshalHeader p.header ++ p.ids

def unmarshalNss : Nat → Bytes → Option (List NsIndex × Bytes)
  | 0, bs => some ([], bs)
  | n + 1, bs =>
    match uvarint bs with
    | none => none
    | some (tn, a) =>
      match uvarint (bs.drop a) with
      | none => none
      | some (idx, b) =>
        match unmarshalNss n ((bs.drop a).drop b) with
        | none => none
        | some (r, rest) => some ((tn % 65536, idx) :: r, rest)

/-- `NewIterator`: `header.Unmarshal(buffer)`, `ids = buffer[start:]`; `none` = malformed buffer (Go: garbage or panic). -/
def unmarshal (buf : Bytes) : Option PostingList :=
  match uvarint buf with
  | none => none
  | some (l, a) =>
    let b1 := buf.drop a
    if b1.length < l then none else
    match uvarint (b1.drop l) with
    | none => none
    | some (features, b) =>
      let b2 := (b1.drop l).drop b
      match uvarint b2 with
      | none => none
      | some (n, c) =>
        match unmarshalNss n (b2.drop c) with
        | none => none
        | some (nss, rest) => some ⟨⟨b1.take l, features, nss⟩, rest⟩

/-! ## Iterator -/

/-- the mutable fields of `Iterator` (`header`, `ids`, `nt` never change) -/
structure It where
  ns : Nat
  i : Nat
  value : Nat
  deriving Repr, DecidableEq

/-- `NewIterator`: `ns: 0, i: 0` -/
def It.start : It := ⟨0, 0, 0⟩

/-- `for i.ids[end-1] == Padding { end-- }` started at `end` -/
def scanBack (ids : Bytes) : Nat → Except Err Nat
  | 0 => .error .panic
  | e + 1 =>
    match ids[e]? with
    | none => .error .panic
    | some b => if b = 128 then scanBack ids e else .ok (e + 1)

def walkIndexAux (i : Nat) : List NsIndex → Nat → Nat
  | [], ns => ns
  | e :: rest, ns => if i ≥ e.2 then walkIndexAux i rest (ns + 1) else ns

/-- `for i.ns+1 < len(Namespaces) && i.i >= Namespaces[i.ns+1].Index { i.ns++ }` -/
def walkIndex (nss : List NsIndex) (i ns : Nat) : Nat := walkIndexAux i (nss.drop (ns + 1)) ns

/-- `Iterator.Next` -/
def next (p : PostingList) (it : It) : Except Err (Bool × It) :=
  let len := p.ids.length
  if it.i ≥ len then .ok (false, it) else
  let blockEnd := (it.i / 64 + 1) * 64
  match (if blockEnd < len then scanBack p.ids blockEnd else .ok blockEnd) with
  | .error e => .error e
  | .ok end_ =>
    let i1 := if it.i = end_ then blockEnd else it.i
    if it.i = end_ ∧ blockEnd ≥ len then .ok (false, { it with i := blockEnd }) else
    let ns := walkIndex p.header.namespaces i1 it.ns
    let r := uvarintRaw (p.ids.drop i1)
    if r.2 ≤ 0 then .error .corrupt else
    let value := if i1 % 64 = 0 then r.1 else (it.value + r.1) % 2 ^ 64
    .ok (true, ⟨ns, i1 + r.2.toNat, value⟩)

/-- `(Namespaces[i.ns].TypeAndNamespace, i.value)`: what `FeatureID()` decodes; panics when `i.ns` is out of range. -/
def cur (p : PostingList) (it : It) : Except Err Id :=
  match p.header.namespaces[it.ns]? with
  | some e => .ok (e.1, it.value)
  | none => .error .panic

/-- `Iterator.FeatureID()` -/
def featureID (p : PostingList) (t : Table) (it : It) : Except Err Key :=
  match cur p it with
  | .ok id => t.decodeId id
  | .error e => .error e

def walkTNAux (nn : Nat) : List NsIndex → Nat → Nat
  | [], ns => ns
  | e :: rest, ns => if e.1 < nn then walkTNAux nn rest (ns + 1) else ns

/-- `for ns < len(Namespaces) && Namespaces[ns].TypeAndNamespace < nn { ns++ }` -/
def walkTN (nss : List NsIndex) (nn ns : Nat) : Nat := walkTNAux nn (nss.drop ns) ns

/-- loop of `sort.Search(n, f)`: `for i < j { h := int(uint(i+j) >> 1); if !f(h) { i = h + 1 } else { j = h } }` -/
def searchLoop (f : Nat → Except Err Bool) : Nat → Nat → Nat → Except Err Nat
  | 0, _, _ => .error .fuel
  | fuel + 1, i, j =>
    if i < j then
      let h := (i + j) / 2
      match f h with
      | .error e => .error e
      | .ok false => searchLoop f fuel (h + 1) j
      | .ok true => searchLoop f fuel i h
    else .ok i

/-- `sort.Search(n, f)` (`n ≤ 0` gives 0) -/
def search (n : Nat) (f : Nat → Except Err Bool) : Except Err Nat := searchLoop f (n + 1) 0 n

/-- the predicate handed to `sort.Search`: first varint of block `block+start` is `>= id.Value`
(slicing `ids[pos:]` panics when `pos > len`). -/
def blockPred (ids : Bytes) (start v : Nat) (block : Nat) : Except Err Bool :=
  if (block + start) * 64 > ids.length then .error .panic
  else .ok (decide ((uvarintRaw (ids.drop ((block + start) * 64))).1 ≥ v))

/-- `for i.Next() { if !i.FeatureID().Less(id) { return true } }`; `none` = the loop ended (`Next` returned false). -/
def scan (p : PostingList) (t : Table) (key : Key) : Nat → It → Except Err (Option It)
  | 0, _ => .error .fuel
  | fuel + 1, it =>
    match next p it with
    | .error e => .error e
    | .ok (false, _) => .ok none
    | .ok (true, it') =>
      match featureID p t it' with
      | .error e => .error e
      | .ok c => if !c.less key then .ok (some it') else scan p t key fuel it'

/-- `end` of `Advance`'s block range: `Namespaces[ns+1].Index / 64`, or `((len(ids) - 1) / 64) + 1` for the last namespace -/
def nsEndBlock (p : PostingList) (ns : Nat) : Nat :=
  match p.header.namespaces[ns + 1]? with
  | some e' => e'.2 / 64
  | none => (p.ids.length - 1) / 64 + 1

/-- the end of `Advance`: true on the id the scan stopped on, or false with the iterator restored
(`i.ns, i.i, i.value = ons, oi, ovalue`) -/
def scanResult (it : It) : Except Err (Option It) → Except Err (Bool × It)
  | .error e => .error e
  | .ok (some it') => .ok (true, it')
  | .ok none => .ok (false, it)

/-- the last part of `Advance` (the target's namespace `ns` is in the list): binary search for the block,
then scan; `e = Namespaces[ns]`. -/
def advanceSearch (p : PostingList) (t : Table) (key : Key) (it : It) (ns : Nat) (e : NsIndex) :
    Except Err (Bool × It) :=
  let ii := if ns ≠ it.ns then e.2 else it.i
  let start := ii / 64
  let end_ := nsEndBlock p ns
  match search (end_ - start) (blockPred p.ids start key.value) with
  | .error e => .error e
  | .ok j =>
    let ii' := if j > 0 then (j + start - 1) * 64 else (j + start) * 64
    scanResult it (scan p t key (p.ids.length + 1) { it with i := ii' })

/-- `Advance` after the optional first `Next`: `it` holds a current value. -/
def advanceFrom (fixed : Bool) (p : PostingList) (t : Table) (key : Key) (it : It) : Except Err (Bool × It) :=
  match featureID p t it with
  | .error e => .error e
  | .ok current =>
    -- if current := i.FeatureID(); id.Less(current) || id == current { return true }
    if key.less current || key = current then .ok (true, it) else
    match t.encode key.ns with
    | .error e => .error e
    | .ok enc =>
      let nss := p.header.namespaces
      let nn := combine key.type enc
      let ns := walkTN nss nn it.ns
      match nss[ns]? with
      | none => .ok (false, it)          -- ns == len(Namespaces)
      | some e =>
        if e.1 > nn then
          -- i.ns = ns; i.i = Namespaces[ns].Index; i.value, n = Uvarint(ids[i.i:]); (repaired: i.i += n)
          if e.2 > p.ids.length then .error .panic else
          let r := uvarintRaw (p.ids.drop e.2)
          if fixed then
            if r.2 ≤ 0 then .error .corrupt else .ok (true, ⟨ns, e.2 + r.2.toNat, r.1⟩)
          else .ok (true, ⟨ns, e.2, r.1⟩)
        else advanceSearch p t key it ns e

/-- `Iterator.Advance(key)`; `fixed = false` is the code before fixes/C08-advance-absent-namespace.patch
(the branch for a namespace that is in the table but not in the list left `i.i` on the value it had just read). -/
def advanceWith (fixed : Bool) (p : PostingList) (t : Table) (key : Key) (it0 : It) : Except Err (Bool × It) :=
  -- if i.i == 0 { if !i.Next() { return false } }
  match (if it0.i = 0 then next p it0 else .ok (true, it0)) with
  | .error e => .error e
  | .ok (false, it) => .ok (false, it)
  | .ok (true, it) => advanceFrom fixed p t key it

/-- `Iterator.Advance` (repaired code) -/
def advance (p : PostingList) (t : Table) (key : Key) (it : It) : Except Err (Bool × It) :=
  advanceWith true p t key it

/-- `Iterator.Advance` before the repair -/
def advanceOld (p : PostingList) (t : Table) (key : Key) (it : It) : Except Err (Bool × It) :=
  advanceWith false p t key it

/-! ## Draining -/

/-- call `Next` until it returns false, collecting `(TypeAndNamespace, value)`; `none` = error / out of fuel -/
def drainFuel (p : PostingList) : Nat → It → Option (List Id)
  | 0, _ => none
  | fuel + 1, it =>
    match next p it with
    | .error _ => none
    | .ok (false, _) => some []
    | .ok (true, it') =>
      match cur p it', drainFuel p fuel it' with
      | .ok id, some rest => some (id :: rest)
      | _, _ => none

/-- every successful `Next` consumes at least one byte, so `len + 1` calls suffice -/
def drain (p : PostingList) : Option (List Id) := drainFuel p (p.ids.length + 1) It.start

/-! ## The order the property speaks about -/

/-- an id as one number: `(TypeAndNamespace, value)` lexicographically (`value < 2^64`) -/
def keyNat (id : Id) : Nat := id.1 * 2 ^ 64 + id.2

/-- strictly increasing in `(TypeAndNamespace, value)` — linear-time check used by the driver -/
def sortedChain : List Id → Bool
  | [] => true
  | [_] => true
  | a :: b :: rest => decide (keyNat a < keyNat b) && sortedChain (b :: rest)

/-- the property's domain for an id list: values are `uint64`, `TypeAndNamespace` is a non-zero `uint16`
(zero = point with the invalid namespace `""`, which the encoder takes for "no namespace yet"). -/
def validId (id : Id) : Bool := decide (id.2 < 2 ^ 64) && decide (id.1 ≠ 0) && decide (id.1 < 65536)

end B6.Model.Posting
