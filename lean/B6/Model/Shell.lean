import B6.Model.FeatureID
/-!
# Model of the shell printer and parser (C20)

Mirrors, in /repo/src/diagonal.works/b6/api (with the fixes/C20-*.patch and fixes/C31-*.patch applied; a parsed
`lat, lng` has no position, as in the code — finding `latlng-span`):
* `shell.go`  `UnparseExpression` and everything under it (`unparseExpression`, `unparsePipelinedCall`,
              `unparseCall`, `unparseLiteral`, `unparseLambda`, `UnparseQuery`, `unparseQuery`,
              `unparseSubquery`, `UnparseTag`, `EscapeTagKey`, `EscapeTagValue`, `UnparseString`,
              `UnparseFeatureID` via `B6.Model.FeatureID.unparse`), at token level plus the spacing rule
              that turns the tokens into the printed text;
              `lexer.Lex` and its `lex*Literal` helpers (byte level, ASCII white space);
              the `reduce*` functions (tree shape and `Begin`/`End` of every node)
* `shell.y`   the grammar, as a recursive-descent parser over the token list for the language the printer
              produces (calls, pipelines, groups, lambdas, literals, tags, bracketed and/or queries).
              Collection braces `{k: v, …}` are never printed and are answered `unsupported`.
              goyacc's tables are not modelled; the tie runs the real parser on every generated text.

Floats are carried as their decimal text (the printer's shortest round-trip text, computed by `strconv`,
is given to the model; the lexer hands the same text back).  A point is a pair of such texts.
-/
namespace B6.Model.Shell
open B6.Model.FeatureID (Bytes FeatureID)

/-! ## trees -/

mutual
/-- tag queries: `Keyed`, `Tagged`, `Intersection`, `Union` -/
inductive Q where
  | keyed (k : Bytes)
  | tagged (k v : Bytes)
  | and (qs : QL)
  | or (qs : QL)
inductive QL where
  | nil
  | cons (q : Q) (qs : QL)
end

/-- literals the printer knows (`tag`'s value is the `String()` of the value expression) -/
inductive Lit where
  | str (s : Bytes)
  | int (i : Int)
  | float (text : Bytes)
  | point (lat lng : Bytes)
  | id (f : FeatureID)
  | tag (k v : Bytes)
  | query (q : Q)

mutual
/-- an expression without positions -/
inductive SE where
  | sym (s : Bytes)
  | lit (l : Lit)
  | call (f : SE) (args : SEL) (pipelined : Bool)
  | lambda (ps : List Bytes) (body : SE)
inductive SEL where
  | nil
  | cons (e : SE) (es : SEL)
end

mutual
inductive PK where
  | sym (s : Bytes)
  | lit (l : Lit)
  | call (f : PE) (args : PEL) (pipelined : Bool)
  | lambda (ps : List Bytes) (body : PE)
/-- a parsed expression: every node with its `Begin`/`End` -/
inductive PE where
  | mk (k : PK) (b e : Nat)
inductive PEL where
  | nil
  | cons (e : PE) (es : PEL)
end

def PE.b : PE → Nat | .mk _ b _ => b
def PE.e : PE → Nat | .mk _ _ e => e

mutual
def PE.strip : PE → SE
  | .mk k _ _ => k.strip
def PK.strip : PK → SE
  | .sym s => .sym s
  | .lit l => .lit l
  | .call f args p => .call f.strip args.strip p
  | .lambda ps body => .lambda ps body.strip
def PEL.strip : PEL → SEL
  | .nil => .nil
  | .cons e es => .cons e.strip es.strip
end

/-! ## tokens -/

inductive Tok where
  | sym (s : Bytes)
  | str (s : Bytes)
  | int (i : Int)
  | float (text : Bytes)
  | id (f : FeatureID)
  | tagKey (s : Bytes)
  | arrow
  | p (c : Nat)          -- one of `, ( ) | { } [ ] = & :` (and `>`), as its byte
  deriving DecidableEq

structure PTok where
  tok : Tok
  b : Nat
  e : Nat
  deriving DecidableEq

/-! ## printing -/

/-- `isValidSymbolRune` -/
def isSymbolRune (c : Nat) : Bool :=
  (97 ≤ c && c ≤ 122) || (65 ≤ c && c ≤ 90) || (48 ≤ c && c ≤ 57) || c == 45 || c == 58 || c == 95

def isLetter (c : Nat) : Bool := (97 ≤ c && c ≤ 122) || (65 ≤ c && c ≤ 90)

/-- a string that `%q` prints as itself between quotes: printable ASCII without `"` and `\\`
(the generator adds a few printable non-ASCII runes, which `%q` also leaves alone; see `plainByte`) -/
def plainByte (c : Nat) : Bool := (32 ≤ c && c ≤ 126 && c ≠ 34 && c ≠ 92) || c ≥ 128
def plain (s : Bytes) : Bool := s.all plainByte

/-- `EscapeTagValue`'s decision (fixed first-character test): bare when a letter followed by symbol runes -/
def valueBare : Bytes → Bool
  | [] => false
  | c :: rest => isLetter c && rest.all isSymbolRune

/-- `EscapeTagKey`'s decision: bare when a letter, `#` or `@` followed by symbol runes -/
def keyBare : Bytes → Bool
  | [] => true            -- `EscapeTagKey("")` is `""`: nothing is printed
  | c :: rest => (isLetter c || c == 35 || c == 64) && rest.all isSymbolRune

/-- the token a bare key lexes to: `#…`/`@…` → TAG_KEY, a letter → SYMBOL -/
def keyTok (k : Bytes) : Tok :=
  match k with
  | 35 :: _ => .tagKey k
  | 64 :: _ => .tagKey k
  | _ => .sym k

/-- `UnparseTag` : key, `=`, value -/
def tagToks (k v : Bytes) : List Tok :=
  (if keyBare k then [keyTok k] else [.str k]) ++ [.p 61] ++
    (if valueBare v then [.sym v] else [.str v])

mutual
/-- `unparseQuery` (with `unparseSubquery`'s brackets) -/
def Q.toks : Q → List Tok
  | .tagged k v => tagToks k v
  | .keyed k => [keyTok k]
  | .and qs => qs.toks 38
  | .or qs => qs.toks 124
/-- members joined by the operator; nested and/or members bracketed -/
def QL.toks : QL → Nat → List Tok
  | .nil, _ => []
  | .cons q .nil, _ => q.subToks
  | .cons q qs, op => q.subToks ++ [.p op] ++ qs.toks op
def Q.subToks : Q → List Tok
  | .and qs => [.p 91] ++ qs.toks 38 ++ [.p 93]
  | .or qs => [.p 91] ++ qs.toks 124 ++ [.p 93]
  | .tagged k v => tagToks k v
  | .keyed k => [keyTok k]
end

/-- `unparseLiteral` -/
def Lit.toks : Lit → List Tok
  | .str s => [.str s]
  | .int i => [.int i]
  | .float t => [.float t]
  | .point lat lng => [.float lat, .p 44, .float lng]
  | .id f => [.id f]
  | .tag k v => tagToks k v
  | .query q => [.p 91] ++ q.toks ++ [.p 93]

/-- outcome of `UnparseExpression`: the tokens, `ok == false`, or a panic (`call.Args[0]` of a pipelined
call without arguments) -/
inductive UR where
  | ok (ts : List Tok)
  | fail
  | panic

def UR.bind : UR → (List Tok → UR) → UR
  | .ok ts, f => f ts
  | .fail, _ => .fail
  | .panic, _ => .panic

@[simp] theorem UR.ok_bind (ts : List Tok) (f : List Tok → UR) : (UR.ok ts).bind f = f ts := rfl

def SEL.tail : SEL → SEL
  | .nil => .nil
  | .cons _ es => es

def lambdaHead : List Bytes → List Tok
  | [] => []
  | [p] => [.sym p]
  | p :: ps => .sym p :: .p 44 :: lambdaHead ps

/-- fixes/C20-unparse-pipeline-rhs.patch: a pipeline on the right of `|` is parenthesised -/
def pipedParen (f : SE) (ft : List Tok) : List Tok :=
  match f with
  | .call _ _ true => [Tok.p 40] ++ ft ++ [Tok.p 41]
  | _ => ft

mutual
/-- `unparseExpression(e, top)` -/
def SE.toks : SE → Bool → UR
  | .sym s, _ => .ok [.sym s]
  | .lit l, _ => .ok l.toks
  | .lambda ps body, _ =>
    (body.toks true).bind fun b => .ok ([.p 123] ++ lambdaHead ps ++ [.arrow] ++ b ++ [.p 125])
  | .call f args false, top =>
    -- `unparseCall`
    match args, top with
    | .nil, true => f.toks true
    | _, _ =>
      (f.toks false).bind fun ft => (args.toks).bind fun ats =>
        .ok (if top then ft ++ ats else [.p 40] ++ ft ++ ats ++ [.p 41])
  | .call f args true, top =>
    -- `unparsePipelinedCall`
    match args with
    | .nil => .panic
    | .cons a0 rest =>
      (a0.toks true).bind fun lhs =>
        (match rest with
         | .nil => (f.toks true).bind fun ft => .ok (pipedParen f ft)
         | _ => (f.toks false).bind fun ft => (rest.toks).bind fun ats => .ok (ft ++ ats)).bind fun rhs =>
        .ok (if top then lhs ++ [Tok.p 124] ++ rhs else [Tok.p 40] ++ lhs ++ [Tok.p 124] ++ rhs ++ [Tok.p 41])
/-- the arguments of a call, each printed with `top = false` -/
def SEL.toks : SEL → UR
  | .nil => .ok []
  | .cons e es => (e.toks false).bind fun t => (es.toks).bind fun ts => .ok (t ++ ts)
end

/-! ### tokens → text -/

def digitsOf (n : Nat) : Bytes := B6.Model.FeatureID.dec n

def hexNibble (n : Nat) : Nat := if n < 10 then 48 + n else 87 + n

/-- `strconv.Quote` (`%q`) byte by byte; bytes ≥ 0x80 are assumed to belong to printable runes, which are
kept as they are (the generator only uses such runes) -/
def quoteBody : Bytes → Bytes
  | [] => []
  | c :: cs =>
    (if c == 34 then [92, 34]
     else if c == 92 then [92, 92]
     else if c == 7 then [92, 97]
     else if c == 8 then [92, 98]
     else if c == 12 then [92, 102]
     else if c == 10 then [92, 110]
     else if c == 13 then [92, 114]
     else if c == 9 then [92, 116]
     else if c == 11 then [92, 118]
     else if c < 32 || c == 127 then [92, 120, hexNibble (c / 16), hexNibble (c % 16)]
     else [c]) ++ quoteBody cs

def Tok.text : Tok → Bytes
  | .sym s => s
  | .str s => [34] ++ quoteBody s ++ [34]
  | .int i => if i < 0 then 45 :: digitsOf i.natAbs else digitsOf i.natAbs
  | .float t => t
  | .id f => B6.Model.FeatureID.unparse f true
  | .tagKey s => s
  | .arrow => [45, 62]
  | .p c => [c]

def opens (t : Tok) : Bool := t == Tok.p 40 || t == Tok.p 123 || t == Tok.p 91
def closes (t : Tok) : Bool := t == Tok.p 41 || t == Tok.p 125 || t == Tok.p 93 || t == Tok.p 44
def isEq (t : Tok) : Bool := t == Tok.p 61

/-- Go's spacing: none after an opening bracket, before a closing bracket or comma, or around `=`;
one space everywhere else -/
def render : List Tok → Bytes
  | [] => []
  | [t] => t.text
  | t :: u :: rest =>
    t.text ++ (if opens t || closes u || isEq t || isEq u then [] else [32]) ++ render (u :: rest)

/-! ## lexing (`lexer.Lex`) -/

inductive LR where
  | ok (ts : List PTok)
  | err            -- `l.Err` set by the lexer (bad token, bad number, bad feature ID, unterminated string)
  | unsupported    -- a byte the model's lexer does not cover (non-ASCII outside a string)
  deriving DecidableEq

def isSpace (c : Nat) : Bool := c == 32 || (9 ≤ c && c ≤ 13)
def isDigitB (c : Nat) : Bool := 48 ≤ c && c ≤ 57
def isIDByte (c : Nat) : Bool := isLetter c || isDigitB c || c == 46 || c == 45 || c == 47 || c == 95
def isPunct (c : Nat) : Bool :=
  c == 44 || c == 40 || c == 41 || c == 124 || c == 62 || c == 123 || c == 125 || c == 91 || c == 93 ||
  c == 61 || c == 38 || c == 58

def spanWhile (p : Nat → Bool) : Bytes → Bytes × Bytes
  | [] => ([], [])
  | c :: cs => if p c then let (a, b) := spanWhile p cs; (c :: a, b) else ([], c :: cs)

/-- the scan of `lexNumericLiteral`: `-` only first, one `.`; `none` = the lexer's error -/
def scanNumber : Bytes → Bool → Bool → Option (Bytes × Bool × Bytes)
  | [], _, dec => some ([], dec, [])
  | c :: cs, first, dec =>
    if c == 45 then
      if first then (scanNumber cs false dec).map fun (t, d, r) => (c :: t, d, r) else none
    else if c == 46 then
      if dec then none else (scanNumber cs false true).map fun (t, d, r) => (c :: t, d, r)
    else if isDigitB c then (scanNumber cs false dec).map fun (t, d, r) => (c :: t, d, r)
    else some ([], dec, c :: cs)

/-- a decimal text `strconv.ParseFloat` accepts, as far as the printer produces them: optional `-`, digits,
`.`, digits, at least one digit overall -/
def floatTextOK (t : Bytes) : Bool :=
  let body := if t.head? == some 45 then t.drop 1 else t
  body.any isDigitB && body.all (fun c => isDigitB c || c == 46)

/-! ### runes (`utf8.DecodeRuneInString`, `unicode.IsSpace/IsLetter/IsDigit` as far as the model goes) -/

def isCont (c : Nat) : Bool := 128 ≤ c && c ≤ 191

/-- the rune at the head of a byte string and its width; `none` = `utf8.RuneError` (invalid, overlong,
surrogate or truncated), which `DecodeRuneInString` reports with width 1 -/
def decodeRune : Bytes → Option (Nat × Nat)
  | [] => none
  | c0 :: rest =>
    if c0 < 128 then some (c0, 1)
    else if 194 ≤ c0 && c0 ≤ 223 then
      match rest with
      | c1 :: _ => if isCont c1 then some ((c0 - 192) * 64 + (c1 - 128), 2) else none
      | _ => none
    else if 224 ≤ c0 && c0 ≤ 239 then
      match rest with
      | c1 :: c2 :: _ =>
        let r := (c0 - 224) * 4096 + (c1 - 128) * 64 + (c2 - 128)
        if isCont c1 && isCont c2 && 2048 ≤ r && !(55296 ≤ r && r ≤ 57343) then some (r, 3) else none
      | _ => none
    else if 240 ≤ c0 && c0 ≤ 244 then
      match rest with
      | c1 :: c2 :: c3 :: _ =>
        let r := (c0 - 240) * 262144 + (c1 - 128) * 4096 + (c2 - 128) * 64 + (c3 - 128)
        if isCont c1 && isCont c2 && isCont c3 && 65536 ≤ r && r ≤ 1114111 then some (r, 4) else none
      | _ => none
    else none

/-- `unicode.IsSpace` for runes ≥ 0x80 -/
def isSpaceRune (r : Nat) : Bool :=
  r == 133 || r == 160 || r == 5760 || (8192 ≤ r && r ≤ 8202) || r == 8232 || r == 8233 || r == 8239 ||
  r == 8287 || r == 12288

inductive RuneClass where
  | member      -- `unicode.IsLetter(r) || unicode.IsDigit(r)`: stays in a feature-ID token
  | other       -- ends the token
  | unknown     -- outside the model's table
  deriving DecidableEq

/-- a hand-written extract of the Unicode tables for runes ≥ 0x80 (the T3 facts cover the ASCII classes only;
this table is tied to the code by the run alone): Latin-1 / Latin Extended / IPA letters, basic Greek and
Cyrillic, hiragana, CJK unified ideographs, Hangul syllables, Linear B syllabary, mathematical alphanumerics
(letters); Arabic-Indic and fullwidth digits; combining diacritics, `×` `÷`, general punctuation, emoticons
(neither) -/
def runeClass (r : Nat) : RuneClass :=
  if (192 ≤ r && r ≤ 214) || (216 ≤ r && r ≤ 246) || (248 ≤ r && r ≤ 705) || (913 ≤ r && r ≤ 929) ||
     (945 ≤ r && r ≤ 969) || (1040 ≤ r && r ≤ 1103) || (12353 ≤ r && r ≤ 12438) || (19968 ≤ r && r ≤ 40869) ||
     (44032 ≤ r && r ≤ 55203) || (65536 ≤ r && r ≤ 65547) || (119808 ≤ r && r ≤ 119892) ||
     (1632 ≤ r && r ≤ 1641) || (65296 ≤ r && r ≤ 65305) then .member
  else if (768 ≤ r && r ≤ 879) || r == 215 || r == 247 || (8192 ≤ r && r ≤ 8303) || (128512 ≤ r && r ≤ 128591) ||
     r == 133 || r == 160 || r == 5760 || r == 12288 then .other
  else .unknown

/-- the scan of `lexFeatureIDLiteral`, rune by rune: the token, what follows it, and whether a rune outside the
model's table was met (`fuel` = the length of the text is always enough) -/
def spanID : Nat → Bytes → Bytes × Bytes × Bool
  | 0, s => ([], s, false)
  | _ + 1, [] => ([], [], false)
  | fuel + 1, c :: cs =>
    if c < 128 then
      if isIDByte c then
        let (a, b, u) := spanID fuel cs
        (c :: a, b, u)
      else ([], c :: cs, false)
    else
      match decodeRune (c :: cs) with
      | none => ([], c :: cs, false)                 -- RuneError is not a letter
      | some (r, w) =>
        match runeClass r with
        | .member =>
          let (a, b, u) := spanID fuel ((c :: cs).drop w)
          ((c :: cs).take w ++ a, b, u)
        | .other => ([], c :: cs, false)
        | .unknown => ([], c :: cs, true)

/-- every rune of a feature-ID token is one the lexer keeps in the token (and the model knows it) -/
def idRunesOK : Nat → Bytes → Bool
  | 0, s => s.isEmpty
  | _ + 1, [] => true
  | fuel + 1, c :: cs =>
    if c < 128 then isIDByte c && idRunesOK fuel cs
    else
      match decodeRune (c :: cs) with
      | none => false
      | some (r, w) => runeClass r == .member && idRunesOK fuel ((c :: cs).drop w)

/-- put a token in front of what the rest of the text lexes to -/
def consTok (t : Tok) (pos len : Nat) : LR → LR
  | .ok ts => .ok (⟨t, pos, pos + len⟩ :: ts)
  | r => r

def lexFuel : Nat → Bytes → Nat → LR
  | 0, _, _ => .unsupported
  | fuel + 1, s, pos =>
    match s with
    | [] => .ok []
    | c :: rest =>
      let cont (t : Tok) (len : Nat) (after : Bytes) : LR :=
        consTok t pos len (lexFuel fuel after (pos + len))
      if isSpace c then lexFuel fuel rest (pos + 1)
      else if c == 45 && rest.head? == some 62 then cont .arrow 2 (rest.drop 1)
      else if isPunct c then cont (.p c) 1 rest
      else if c == 34 then
        let (body, after) := spanWhile (· ≠ 34) rest
        match after with
        | [] => .err
        | _ :: after' => cont (.str body) (body.length + 2) after'
      else if c == 47 then
        let (body, after, unknown) := spanID s.length s
        if unknown then .unsupported else
        match B6.Model.FeatureID.parseToken body with
        | some (f, false) => cont (.id f) body.length after
        | _ => .err
      else if c == 35 || c == 64 then
        let (body, after) := spanWhile isSymbolRune rest
        cont (.tagKey (c :: body)) (body.length + 1) after
      else if isDigitB c || c == 45 || c == 46 then
        match scanNumber s true false with
        | none => .err
        | some (text, dec, after) =>
          -- a non-ASCII rune right after the number: a Unicode digit goes on with the token (and `Atoi` /
          -- `ParseFloat` reject it), anything but white space is a bad token
          if after.head?.any (· ≥ 128) && !((decodeRune after).any fun (r, _) => isSpaceRune r) then .err else
          if dec then (if floatTextOK text then cont (.float text) text.length after else .err)
          else match B6.Model.FeatureID.atoi text with
            | some i => cont (.int i) text.length after
            | none => .err
      else if isLetter c then
        let (body, after) := spanWhile isSymbolRune s
        cont (.sym body) body.length after
      else if c ≥ 128 then
        -- a non-ASCII rune outside a string: Unicode white space is skipped, anything else is a `bad token`
        match decodeRune s with
        | some (r, w) => if isSpaceRune r then lexFuel fuel (s.drop w) (pos + w) else .err
        | none => .err
      else .err

def lex (s : Bytes) : LR := lexFuel (s.length + 1) s 0

/-- the decimal texts the printer writes for floats: optional `-`, digits with exactly one `.` -/
def floatShape (t : Bytes) : Bool :=
  let body := if t.head? == some 45 then t.drop 1 else t
  body.any isDigitB && body.all (fun c => isDigitB c || c == 46) && (body.filter (· == 46)).length == 1

/-- a token whose printed text lexes back to it (given that what follows cannot continue it) -/
def Tok.lexable : Tok → Bool
  | .sym s => match s with
    | [] => false
    | c :: rest => isLetter c && rest.all isSymbolRune
  | .str s => s.all fun c => (32 ≤ c && c ≤ 126 && c ≠ 34 && c ≠ 92) || c ≥ 128
  | .int i => decide (-9223372036854775808 ≤ i) && decide (i < 9223372036854775808)
  | .float t => floatShape t
  | .id f => f.isValid && decide (f.value < 2 ^ 64) && (B6.Model.FeatureID.unparse f true).all isIDByte
  | .tagKey s => match s with
    | [] => false
    | c :: body => (c == 35 || c == 64) && body.all isSymbolRune
  | .arrow => true
  | .p c => isPunct c

/-! ## parsing (`shell.y` + the `reduce*` functions) -/

inductive PR (α : Type) where
  | ok (a : α)
  | err              -- syntax error
  | unsupported      -- collection braces and other input the printer never produces
  | fuel

def PR.bind {α β : Type} : PR α → (α → PR β) → PR β
  | .ok a, f => f a
  | .err, _ => .err
  | .unsupported, _ => .unsupported
  | .fuel, _ => .fuel

@[simp] theorem PR.ok_bind {α β : Type} (a : α) (f : α → PR β) : (PR.ok a).bind f = f a := rfl

/-- tokens that can begin an `arg` -/
def argStart : Tok → Bool
  | .sym _ | .str _ | .int _ | .float _ | .id _ | .tagKey _ => true
  | .p c => c == 40 || c == 123 || c == 91
  | .arrow => false

def PEL.lastEnd : PEL → Nat → Nat
  | .nil, d => d
  | .cons e .nil, _ => e.e
  | .cons _ es, d => es.lastEnd d

/-- `reduceCallWithArgs` -/
def mkCall (s : Bytes) (b e : Nat) (args : PEL) : PE :=
  .mk (.call (.mk (.sym s) b e) args false) b (args.lastEnd e)

/-- `Pipeline(left, right)` -/
def mkPipe (left right : PE) : PE :=
  .mk (.call right (.cons left .nil) true) left.b right.e

/-- `tagvalue: SYMBOL | STRING` -/
def tagValue? : Tok → Option Bytes
  | .sym s => some s
  | .str s => some s
  | _ => none

/-- `reduceAnd` / `reduceOr`: a two-member list -/
def mkQ (op : Nat) (a b : Q) : Q :=
  if op == 38 then .and (.cons a (.cons b .nil)) else .or (.cons a (.cons b .nil))

/-- `'{' symbols` : SYMBOL (',' SYMBOL)* ; the position of the first symbol -/
def parseSymbols : Nat → List PTok → PR (List Bytes × Nat × List PTok)
  | 0, _ => .fuel
  | fuel + 1, ts =>
    match ts with
    | ⟨.sym s, b, _⟩ :: ⟨.p 44, _, _⟩ :: rest =>
      (parseSymbols fuel rest).bind fun (ss, _, r) => .ok (s :: ss, b, r)
    | ⟨.sym s, b, _⟩ :: rest => .ok ([s], b, rest)
    | _ => .err

mutual
/-- `query_tag`, or a bracketed `query` -/
def parseQFirst : Nat → List PTok → PR ((Q × Nat × Nat) × List PTok)
  | 0, _ => .fuel
  | fuel + 1, ts =>
    match ts with
    | ⟨.p 91, _, _⟩ :: rest =>
      (parseQE fuel rest).bind fun (q, r) =>
        match r with
        | ⟨.p 93, _, _⟩ :: r' => .ok (q, r')
        | _ => .err
    | ⟨.tagKey k, b, _⟩ :: ⟨.p 61, _, _⟩ :: ⟨v, _, e⟩ :: rest =>
      match tagValue? v with
      | some v => .ok ((.tagged k v, b, e), rest)
      | none => .err
    | ⟨.sym k, b, _⟩ :: ⟨.p 61, _, _⟩ :: ⟨v, _, e⟩ :: rest =>
      match tagValue? v with
      | some v => .ok ((.tagged k v, b, e), rest)
      | none => .err
    | ⟨.tagKey k, b, e⟩ :: rest => .ok ((.keyed k, b, e), rest)
    | ⟨.sym k, b, e⟩ :: rest => .ok ((.keyed k, b, e), rest)
    | _ => .err
/-- `query_expression` (the query and its span): `&` and `|` nest to the right, without precedence -/
def parseQE : Nat → List PTok → PR ((Q × Nat × Nat) × List PTok)
  | 0, _ => .fuel
  | fuel + 1, ts =>
    (parseQFirst fuel ts).bind fun ((q, b, e), r) =>
      match r with
      | ⟨.p 38, _, _⟩ :: r' => (parseQE fuel r').bind fun ((q2, _, e2), r'') => .ok ((mkQ 38 q q2, b, e2), r'')
      | ⟨.p 124, _, _⟩ :: r' => (parseQE fuel r').bind fun ((q2, _, e2), r'') => .ok ((mkQ 124 q q2, b, e2), r'')
      | _ => .ok ((q, b, e), r)
end

mutual
/-- `pipeline` -/
def parsePipeline : Nat → List PTok → PR (PE × List PTok)
  | 0, _ => .fuel
  | fuel + 1, ts => (parseCall fuel ts).bind fun (c, r) => pipeLoop fuel c r
/-- `pipeline '|' call`, left-associative -/
def pipeLoop : Nat → PE → List PTok → PR (PE × List PTok)
  | 0, _, _ => .fuel
  | fuel + 1, left, ts =>
    match ts with
    | ⟨.p 124, _, _⟩ :: rest =>
      (parseCall fuel rest).bind fun (right, r) => pipeLoop fuel (mkPipe left right) r
    | _ => .ok (left, ts)
/-- `call: SYMBOL | SYMBOL args | expression` -/
def parseCall : Nat → List PTok → PR (PE × List PTok)
  | 0, _ => .fuel
  | fuel + 1, ts =>
    match ts with
    | ⟨.sym _, _, _⟩ :: ⟨.p 61, _, _⟩ :: _ => parseExpr fuel ts
    | ⟨.sym s, b, e⟩ :: rest => (parseArgs fuel rest).bind fun (args, r) => .ok (mkCall s b e args, r)
    | _ => parseExpr fuel ts
/-- `args`, as many as there are -/
def parseArgs : Nat → List PTok → PR (PEL × List PTok)
  | 0, _ => .fuel
  | fuel + 1, ts =>
    match ts with
    | [] => .ok (.nil, [])
    | t :: _ =>
      if argStart t.tok then
        (parseArg fuel ts).bind fun (a, r) => (parseArgs fuel r).bind fun (as, r') => .ok (.cons a as, r')
      else .ok (.nil, ts)
/-- `arg: SYMBOL | expression` -/
def parseArg : Nat → List PTok → PR (PE × List PTok)
  | 0, _ => .fuel
  | fuel + 1, ts =>
    match ts with
    | ⟨.sym _, _, _⟩ :: ⟨.p 61, _, _⟩ :: _ => parseExpr fuel ts
    | ⟨.sym s, b, e⟩ :: rest => .ok (.mk (.sym s) b e, rest)
    | _ => parseExpr fuel ts
/-- `expression` -/
def parseExpr : Nat → List PTok → PR (PE × List PTok)
  | 0, _ => .fuel
  | fuel + 1, ts =>
    match ts with
    | ⟨.float lat, _, _⟩ :: ⟨.p 44, _, _⟩ :: ⟨.float lng, _, _⟩ :: rest =>
      -- `reduceLatLng` builds the point without `Begin`/`End` (finding `latlng-span`)
      .ok (.mk (.lit (.point lat lng)) 0 0, rest)
    | ⟨.float _, _, _⟩ :: ⟨.p 44, _, _⟩ :: _ => .err
    | ⟨.float t, b, e⟩ :: rest => .ok (.mk (.lit (.float t)) b e, rest)
    | ⟨.str s, b, e⟩ :: rest => .ok (.mk (.lit (.str s)) b e, rest)
    | ⟨.int i, b, e⟩ :: rest => .ok (.mk (.lit (.int i)) b e, rest)
    | ⟨.id f, b, e⟩ :: rest => .ok (.mk (.lit (.id f)) b e, rest)
    | ⟨.tagKey k, b, _⟩ :: ⟨.p 61, _, _⟩ :: ⟨v, _, e⟩ :: rest =>
      match tagValue? v with
      | some v => .ok (.mk (.lit (.tag k v)) b e, rest)
      | none => .err
    | ⟨.sym k, b, _⟩ :: ⟨.p 61, _, _⟩ :: ⟨v, _, e⟩ :: rest =>
      match tagValue? v with
      | some v => .ok (.mk (.lit (.tag k v)) b e, rest)
      | none => .err
    | ⟨.p 40, _, _⟩ :: rest =>
      (parsePipeline fuel rest).bind fun (inner, r) =>
        match r with
        | ⟨.p 41, _, _⟩ :: r' => .ok (inner, r')
        | _ => .err
    | ⟨.p 123, _, _⟩ :: ⟨.arrow, _, _⟩ :: rest =>
      (parsePipeline fuel rest).bind fun (body, r) =>
        match r with
        | ⟨.p 125, _, _⟩ :: r' => .ok (.mk (.lambda [] body) body.b body.e, r')
        | _ => .err
    | ⟨.p 123, _, _⟩ :: ⟨.sym _, _, _⟩ :: ⟨.p 61, _, _⟩ :: _ => .unsupported      -- a collection of tags
    | ⟨.p 123, _, _⟩ :: ⟨.sym s, sb, se⟩ :: rest =>
      (parseSymbols fuel (⟨.sym s, sb, se⟩ :: rest)).bind fun (ps, b, r) =>
        match r with
        | ⟨.arrow, _, _⟩ :: r' =>
          (parsePipeline fuel r').bind fun (body, r'') =>
            match r'' with
            | ⟨.p 125, _, _⟩ :: r''' => .ok (.mk (.lambda ps body) b body.e, r''')
            | _ => .err
        | _ => .err
    | ⟨.p 123, _, _⟩ :: ⟨t, _, _⟩ :: _ =>
      -- `{` STRING / INT / FLOAT / FEATURE_ID / TAG_KEY / `(` starts a collection; anything else is an error
      match t with
      | .str _ | .int _ | .float _ | .id _ | .tagKey _ => .unsupported
      | .p 40 => .unsupported
      | _ => .err
    | ⟨.p 123, _, _⟩ :: [] => .err
    | ⟨.p 91, _, _⟩ :: rest =>
      (parseQE fuel rest).bind fun ((q, b, e), r) =>
        match r with
        | ⟨.p 93, _, _⟩ :: r' => .ok (.mk (.lit (.query q)) b e, r')
        | _ => .err
    | _ => .err
end

/-- `top: pipeline` and then the end of the input -/
def parseTop (fuel : Nat) (ts : List PTok) : PR PE :=
  (parsePipeline fuel ts).bind fun (e, r) =>
    match r with
    | [] => .ok e
    | _ => .err

/-! ## span nesting (executable) -/

mutual
/-- every node's span is non-negative and contains the spans of its children -/
def PE.nested : PE → Bool
  | .mk k b e => decide (b ≤ e) && k.nestedIn b e
def PK.nestedIn : PK → Nat → Nat → Bool
  | .sym _, _, _ => true
  | .lit _, _, _ => true
  | .call f args _, b, e => decide (b ≤ f.b) && decide (f.e ≤ e) && f.nested && args.nestedIn b e
  | .lambda _ body, b, e => decide (b ≤ body.b) && decide (body.e ≤ e) && body.nested
def PEL.nestedIn : PEL → Nat → Nat → Bool
  | .nil, _, _ => true
  | .cons x xs, b, e => decide (b ≤ x.b) && decide (x.e ≤ e) && x.nested && xs.nestedIn b e
end

mutual
/-- no `lat, lng` literal anywhere in the parsed tree (`reduceLatLng` gives those no position) -/
def PE.noPoint : PE → Bool
  | .mk k _ _ => k.noPoint
def PK.noPoint : PK → Bool
  | .sym _ => true
  | .lit (.point _ _) => false
  | .lit _ => true
  | .call f args _ => f.noPoint && args.noPoint
  | .lambda _ body => body.noPoint
def PEL.noPoint : PEL → Bool
  | .nil => true
  | .cons x xs => x.noPoint && xs.noPoint
end

/-! ## the parse-normal form of an expression, and the printable subset (executable) -/

mutual
/-- and/or lists nest to the right, a single member stands for itself -/
def Q.norm : Q → Q
  | .keyed k => .keyed k
  | .tagged k v => .tagged k v
  | .and qs => qs.norm 38
  | .or qs => qs.norm 124
def QL.norm : QL → Nat → Q
  | .nil, op => if op == 38 then .and .nil else .or .nil
  | .cons q .nil, _ => q.norm
  | .cons q qs, op => mkQ op q.norm (qs.norm op)
end

def Lit.norm : Lit → Lit
  | .query q => .query q.norm
  | l => l

mutual
/-- normal form in a call position (top level, pipeline member, group content, lambda body): a bare symbol
is a call without arguments; `a | f b …` is `f b …` applied to `a`; a call without arguments and its
function print alike -/
def SE.normC : SE → SE
  | .sym s => .call (.sym s) .nil false
  | .lit l => .lit l.norm
  | .lambda ps body => .lambda ps body.normC
  | .call f .nil false => f.normC
  | .call f args false => .call f.normA args.normA false
  | .call f .nil true => .call f.normC .nil true
  | .call f (.cons a0 .nil) true => .call f.normC (.cons a0.normC .nil) true
  | .call f (.cons a0 rest) true => .call (.call f.normA rest.normA false) (.cons a0.normC .nil) true
/-- normal form in an argument position: a symbol stays a symbol, everything else is grouped -/
def SE.normA : SE → SE
  | .sym s => .sym s
  | .lit l => .lit l.norm
  | .lambda ps body => .lambda ps body.normC
  | .call f .nil false => f.normC
  | .call f args false => .call f.normA args.normA false
  | .call f .nil true => .call f.normC .nil true
  | .call f (.cons a0 .nil) true => .call f.normC (.cons a0.normC .nil) true
  | .call f (.cons a0 rest) true => .call (.call f.normA rest.normA false) (.cons a0.normC .nil) true
def SEL.normA : SEL → SEL
  | .nil => .nil
  | .cons e es => .cons e.normA es.normA
end

/-- lexes as one SYMBOL -/
def symbolLike : Bytes → Bool
  | [] => false
  | c :: rest => isLetter c && rest.all isSymbolRune

def isSym : SE → Bool
  | .sym _ => true
  | _ => false

/-! `esc = true` admits strings and tag values that `%q` has to escape (the lexer does not undo the
escapes: finding `string-needs-escape`); `esc = false` is the printable subset proper. -/

mutual
def Q.printable (esc : Bool) : Q → Bool
  | .keyed k => k ≠ [] && keyBare k
  | .tagged k v => k ≠ [] && keyBare k && (valueBare v || plain v || esc)
  | .and qs => qs.printable esc
  | .or qs => qs.printable esc
/-- non-empty, every member printable -/
def QL.printable (esc : Bool) : QL → Bool
  | .nil => false
  | .cons q .nil => q.printable esc
  | .cons q qs => q.printable esc && qs.printable esc
end

/-- every rune of the ID's shell token is one the lexer keeps in a FEATURE_ID token -/
def idLexable (f : FeatureID) : Bool :=
  f.isValid && decide (f.value < 2 ^ 64) &&
    idRunesOK (B6.Model.FeatureID.unparse f true).length (B6.Model.FeatureID.unparse f true)

def Lit.printable (esc : Bool) : Lit → Bool
  | .str s => esc || plain s
  | .int i => decide (-9223372036854775808 ≤ i) && decide (i < 9223372036854775808)     -- a Go `int`
  | .float t => floatShape t
  | .point lat lng => floatShape lat && floatShape lng
  | .id f => idLexable f
  | .tag k v => k ≠ [] && keyBare k && (valueBare v || plain v || esc)
  | .query q => q.printable esc

mutual
/-- what the shell prints in a form that parses back: symbols and lambda parameters lex as symbols, strings
need no escapes, calls are headed by a symbol, a pipelined call has its piped argument -/
def SE.printable (esc : Bool) : SE → Bool
  | .sym s => symbolLike s
  | .lit l => l.printable esc
  | .lambda ps body => ps.all symbolLike && body.printable esc
  | .call f args false => isSym f && f.printable esc && args.printable esc
  | .call _ .nil true => false
  | .call f (.cons a0 .nil) true => f.printable esc && a0.printable esc
  | .call f (.cons a0 rest) true => isSym f && f.printable esc && a0.printable esc && rest.printable esc
def SEL.printable (esc : Bool) : SEL → Bool
  | .nil => true
  | .cons e es => e.printable esc && es.printable esc
end

end B6.Model.Shell
