import B6.Model.Tags
/-!
# Heap / aliasing model of ingest feature values — C38

`ingest.{Generic,Area,Relation,Collection}Feature` (features.go) are structs of Go slices.  Whether a
change made through one feature value is visible through another depends only on which *backing
arrays* their slices share, so the model has two levels:

* level 1 — a feature struct `Feat`, held **by value** by its owner (a caller variable, or an entry of a
  mutable world's `FeaturesByID`; no modelled operation ever makes two owners hold the same struct
  pointer: `ModifiedFeatures.Update` stores `Clone()` of a new feature and `MergeFrom`s into an existing
  one).  Its fields are slice headers `(addr, len)`; `AreaMembers.ids` — a slice of slices — is the list
  of its inner headers (the outer array is never shared: `Clone` always `make`s a new one).
* level 2 — the `Store`: backing arrays of cells, `addr` = index, capacity = the array's length.

Every operation is written as the Go code is (in-place writes, `append` within capacity, the
`copy`+`append`/truncate idiom of the `MergeFrom`s, `RemoveTag`'s in-place deletion loop re-used from
`B6.Model.Tags`), after the `fix:` patches C38-*.  The pre-fix `Clone`/`MergeFrom` bodies are kept in
`namespace Old` for the counterexample theorems.

A third level: a tag whose VALUE is a list (`b6.Expressions` — a path's points) is a `Cell.ltag` holding
the header of the list, which lives in the value store `Vals`; copying Tag structs shares the list, as in Go;
`ModifyOrAddTagAt` / `b6.Set` (`tagsSetAt`, `setList`) allocate a new list, as written.
Not modelled: other tag values, IDs, polygons, collection keys/values are opaque immutable strings;
`invertPoints` (reverses a path's points in place, only under `InvertClockwisePaths`);
the exact amount of spare capacity `append` leaves on re-allocation (`growPad`: doubling; unobservable
unless two live slices share an array, which is what `Sep` excludes); validation, search index and reference table of the worlds
(C12/C13/C15); `SetTags`/`SetPathIDs` are given fresh literals (they store the caller's slice as is).
-/
namespace B6.Model.FeatureHeap

structure Slice where
  addr : Nat
  len : Nat
deriving DecidableEq, Repr

/-- an array element: a `Tag{Key,Value}` / `RelationMember{ID,Role}`, or a scalar (feature ID, polygon
pointer — `""` is nil —, collection key or value) -/
inductive Cell where
  | pair (a b : String)
  | scalar (s : String)
  /-- a tag whose value is a LIST (`b6.Expressions`, e.g. a path's points): the Tag struct holds the header of
  the list's backing array, which lives in the value store `Vals` — copying the Tag (`Tags.Clone`, `copy`,
  `append`) copies the header and so SHARES the list, exactly as the Go code does -/
  | ltag (k : String) (v : Slice)
deriving DecidableEq, Repr

abbrev Store := List (List Cell)

/-! ## slice primitives (`none` = Go panic, or a dangling header — which no operation produces) -/

/-- `make` + fill / a slice literal: a new backing array, `cap = len` -/
def alloc (st : Store) (cs : List Cell) : Store × Slice := (st ++ [cs], ⟨st.length, cs.length⟩)

/-- the visible elements; a nil slice is empty -/
def cells (st : Store) : Option Slice → Option (List Cell)
  | none => some []
  | some s =>
    match st[s.addr]? with
    | none => none
    | some arr => if s.len ≤ arr.length then some (arr.take s.len) else none

def slen : Option Slice → Nat
  | none => 0
  | some s => s.len

/-- `s[i] = c` (index checked against `len`) -/
def write (st : Store) (s : Option Slice) (i : Nat) (c : Cell) : Option Store :=
  match s with
  | none => none
  | some s =>
    match st[s.addr]? with
    | none => none
    | some arr =>
      if i < s.len ∧ s.len ≤ arr.length then some (st.set s.addr (arr.set i c)) else none

/-- a new backing array with `extra` zeroed spare elements behind the visible ones (`cap = len + extra`) -/
def allocCap (st : Store) (cs pad : List Cell) : Store × Slice := (st ++ [cs ++ pad], ⟨st.length, cs.length⟩)

def zeroLike : Cell → Cell
  | .pair _ _ => .pair "" ""
  | .ltag _ _ => .pair "" ""
  | .scalar _ => .scalar ""

/-- spare capacity Go's `growslice` leaves when `append` has to re-allocate (small slices: the capacity at
least doubles; size-class rounding and the ≥256-element regime are not reproduced — no theorem depends on
the amount, `append_cells`/`mergeInto_cells` hold for every capacity) -/
def growPad (oldCap needed : Nat) (cs : List Cell) : List Cell :=
  List.replicate (max (2 * oldCap) needed - needed) (zeroLike (cs.headD (.scalar "")))

/-- `append(s, cs...)`: in place when `len + |cs| ≤ cap` — the classic aliasing slip: another header over
the same array sees (or loses) the written elements — else a new, larger array -/
def append (st : Store) (s : Option Slice) (cs : List Cell) : Option (Store × Option Slice) :=
  match s with
  | none => if cs = [] then some (st, none) else some ((alloc st cs).1, some (alloc st cs).2)
  | some s =>
    match st[s.addr]? with
    | none => none
    | some arr =>
      if s.len ≤ arr.length then
        if s.len + cs.length ≤ arr.length then
          some (st.set s.addr (arr.take s.len ++ cs ++ arr.drop (s.len + cs.length)),
                some ⟨s.addr, s.len + cs.length⟩)
        else some ((allocCap st (arr.take s.len ++ cs) (growPad arr.length (s.len + cs.length) cs)).1,
                   some (allocCap st (arr.take s.len ++ cs) (growPad arr.length (s.len + cs.length) cs)).2)
      else none

/-- the idiom of `Tags.MergeFrom`, `RelationFeature.MergeFrom`, `AreaMembers.MergeFrom`:
`i := copy(dst, src); if i < len(src) { dst = append(dst, src[i:]...) } else { dst = dst[0:len(src)] }` -/
def mergeInto (st : Store) (dst : Option Slice) (src : List Cell) : Option (Store × Option Slice) :=
  match dst with
  | none => append st none src
  | some d =>
    match st[d.addr]? with
    | none => none
    | some arr =>
      if d.len ≤ arr.length then
        if min d.len src.length < src.length then
          append (st.set d.addr (src.take (min d.len src.length) ++ arr.drop (min d.len src.length)))
            (some d) (src.drop (min d.len src.length))
        else
          some (st.set d.addr (src.take (min d.len src.length) ++ arr.drop (min d.len src.length)),
                some ⟨d.addr, src.length⟩)
      else none

/-- `make([]T, len(s)); copy(...)` — `Tags.Clone`, the members/polygons/inner-ids copies: always a new
array, also for a nil slice -/
def cloneMake (st : Store) (s : Option Slice) : Option (Store × Option Slice) :=
  match cells st s with
  | none => none
  | some cs => some ((alloc st cs).1, some (alloc st cs).2)

/-- `slices.Clone(s)`: nil stays nil -/
def cloneKeepNil (st : Store) (s : Option Slice) : Option (Store × Option Slice) :=
  match s with
  | none => some (st, none)
  | some _ => cloneMake st s

/-! ## tag list operations on a heap slice (world.go `Tags`) -/

def Cell.key : Cell → Option String
  | .pair a _ => some a
  | .ltag k _ => some k
  | .scalar _ => none

/-- index of the first tag with the key -/
def findKey (k : String) : List Cell → Option Nat
  | [] => none
  | c :: rest => if c.key = some k then some 0 else (findKey k rest).map (· + 1)

/-- `Tags.ModifyOrAddTag`: in-place write of the value, or `AddTag` (= `append`) -/
def tagsSet (st : Store) (t : Option Slice) (k v : String) : Option (Store × Option Slice) :=
  match cells st t with
  | none => none
  | some cs =>
    match findKey k cs with
    | some i => (write st t i (.pair k v)).map (·, t)
    | none => append st t [.pair k v]

/-- the tags of a backing array as (key, position) pairs: `RemoveTag` only looks at keys and moves whole
Tag structs, so the loop of `B6.Model.Tags` is run on these and the structs are put back by position -/
def keyedIdx : List Cell → Nat → Option (List (String × String))
  | [], _ => some []
  | c :: rest, i =>
    match c.key, keyedIdx rest (i + 1) with
    | some k, some r => some ((k, toString i) :: r)
    | _, _ => none

def decodeAll (arr : List Cell) : List (String × String) → Option (List Cell)
  | [] => some []
  | p :: ps =>
    match p.2.toNat? with
    | none => none
    | some i =>
      match arr[i]?, decodeAll arr ps with
      | some c, some r => some (c :: r)
      | _, _ => none

/-- `Tags.RemoveTag`: the in-place deletion loop of `B6.Model.Tags` run on the backing array -/
def tagsRemove (st : Store) (t : Option Slice) (k : String) : Option (Store × Option Slice) :=
  match t with
  | none => some (st, none)
  | some s =>
    match st[s.addr]? with
    | none => none
    | some arr =>
      match keyedIdx arr 0 with
      | none => none
      | some back =>
        if s.len ≤ back.length then
          match (B6.Model.Tags.GoSlice.mk back s.len).removeTag k with
          | none => none
          | some g =>
            match decodeAll arr g.back with
            | none => none
            | some cs => some (st.set s.addr cs, some ⟨s.addr, g.len⟩)
        else none

/-- `Tags.RemoveTags`: one `RemoveTag` per key -/
def tagsRemoveMany (st : Store) (t : Option Slice) : List String → Option (Store × Option Slice)
  | [] => some (st, t)
  | k :: ks =>
    match tagsRemove st t k with
    | none => none
    | some r => tagsRemoveMany r.1 r.2 ks

/-! ## feature structs -/

inductive Kind where
  | generic | area | relation | collection
deriving DecidableEq, Repr

structure Feat where
  kind : Kind
  id : String
  tags : Option Slice := none
  /-- `AreaMembers.ids`: the inner slice headers (`none` = nil = "this member is a polygon") -/
  ids : List (Option Slice) := []
  /-- `AreaMembers.polygons` (scalar cells, `""` = nil pointer) -/
  polygons : Option Slice := none
  /-- `RelationFeature.Members` (pair cells) -/
  members : Option Slice := none
  keys : Option Slice := none
  values : Option Slice := none
  sorted : Bool := false
deriving DecidableEq, Repr

def addrs : Option Slice → List Nat
  | none => []
  | some s => [s.addr]

/-- the backing arrays a feature's slices point into — everything an operation on it may write -/
def fp (f : Feat) : List Nat :=
  addrs f.tags ++ addrs f.polygons ++ addrs f.members ++ addrs f.keys ++ addrs f.values
    ++ f.ids.flatMap addrs

/-- what can be observed of a feature value -/
structure View where
  kind : Kind
  id : String
  tags : List Cell
  ids : List (Option (List Cell))
  polygons : List Cell
  members : List Cell
  keys : List Cell
  values : List Cell
  sorted : Bool
deriving DecidableEq, Repr

def viewIds (st : Store) : List (Option Slice) → Option (List (Option (List Cell)))
  | [] => some []
  | none :: rest => (viewIds st rest).map (none :: ·)
  | some s :: rest =>
    match cells st (some s), viewIds st rest with
    | some cs, some r => some (some cs :: r)
    | _, _ => none

def view (st : Store) (f : Feat) : Option View :=
  match cells st f.tags, viewIds st f.ids, cells st f.polygons, cells st f.members,
        cells st f.keys, cells st f.values with
  | some t, some i, some p, some m, some k, some v =>
    some { kind := f.kind, id := f.id, tags := t, ids := i, polygons := p, members := m,
           keys := k, values := v, sorted := f.sorted }
  | _, _, _, _, _, _ => none

/-! ## `Clone` (features.go, after fix C38-area-clone-deep / C38-collection-copy) -/

/-- `AreaMembers.Clone`, the loop over `a.ids`: every non-nil inner slice is copied -/
def cloneInner (st : Store) : List (Option Slice) → Option (Store × List (Option Slice))
  | [] => some (st, [])
  | none :: rest => (cloneInner st rest).map fun r => (r.1, none :: r.2)
  | some s :: rest =>
    match cloneMake st (some s) with
    | none => none
    | some a => (cloneInner a.1 rest).map fun r => (r.1, a.2 :: r.2)

def cloneFeat (st : Store) (f : Feat) : Option (Store × Feat) :=
  match cloneMake st f.tags with
  | none => none
  | some t =>
    match f.kind with
    | .generic => some (t.1, { kind := .generic, id := f.id, tags := t.2 })
    | .area =>
      match cloneInner t.1 f.ids with
      | none => none
      | some i =>
        match cloneMake i.1 f.polygons with
        | none => none
        | some p => some (p.1, { kind := .area, id := f.id, tags := t.2, ids := i.2, polygons := p.2 })
    | .relation =>
      match cloneMake t.1 f.members with
      | none => none
      | some m => some (m.1, { kind := .relation, id := f.id, tags := t.2, members := m.2 })
    | .collection =>
      match cloneKeepNil t.1 f.keys with
      | none => none
      | some k =>
        match cloneKeepNil k.1 f.values with
        | none => none
        | some v => some (v.1, { kind := .collection, id := f.id, tags := t.2, keys := k.2,
                                  values := v.2, sorted := f.sorted })

/-! ## `MergeFrom` (receiver `e` — in the worlds: the stored feature — takes the value of `o`) -/

/-- `AreaMembers.MergeFrom`, first part: bring `a.ids` to the length of `other.ids`
(`append(a.ids, make([]FeatureID, len(other.ids[i])))` for the missing ones, else truncate) -/
def growIds (st : Store) (mine : List (Option Slice)) : List (Option Slice) → Store × List (Option Slice)
  | [] => (st, mine)
  | o :: rest =>
    let a := alloc st (List.replicate (slen o) (Cell.scalar "0"))
    growIds a.1 (mine ++ [some a.2]) rest

/-- second part, the loop `for i, ids := range other.ids`: nil stays nil (fix C38-area-merge-polygon-member),
otherwise the copy/append/truncate idiom into the receiver's own inner array.  `mine`/`theirs` are the
not yet visited parts of both lists (same length after `growIds`). -/
def mergeInner (st : Store) : List (Option Slice) → List (Option Slice) → Option (Store × List (Option Slice))
  | [], _ => some (st, [])
  | _ :: _, [] => none
  | m :: mine, o :: theirs =>
    match o with
    | none => (mergeInner st mine theirs).map fun r => (r.1, none :: r.2)
    | some os =>
      match cells st (some os) with
      | none => none
      | some src =>
        match mergeInto st m src with
        | none => none
        | some a => (mergeInner a.1 mine theirs).map fun r => (r.1, a.2 :: r.2)

def mergeAreaMembers (st : Store) (e o : Feat) : Option (Store × List (Option Slice) × Option Slice) :=
  let g : Store × List (Option Slice) :=
    if e.ids.length < o.ids.length then growIds st e.ids (o.ids.drop e.ids.length)
    else (st, e.ids.take o.ids.length)
  match mergeInner g.1 g.2 o.ids with
  | none => none
  | some i =>
    match cells i.1 o.polygons with
    | none => none
    | some ps =>
      match mergeInto i.1 e.polygons ps with
      | none => none
      | some p => some (p.1, i.2, p.2)

def mergeFrom (st : Store) (e o : Feat) : Option (Store × Feat) :=
  match e.kind with
  | .generic =>
    -- f.Tags.MergeFrom(other.AllTags().Clone())
    match cloneMake st o.tags with
    | none => none
    | some c =>
      match cells c.1 c.2 with
      | none => none
      | some src =>
        match mergeInto c.1 e.tags src with
        | none => none
        | some t => some (t.1, { e with id := o.id, tags := t.2 })
  | k =>
    if o.kind ≠ k then none else   -- panic("Expected a …Feature")
    match cells st o.tags with
    | none => none
    | some src =>
      match mergeInto st e.tags src with
      | none => none
      | some t =>
        match k with
        | .generic => none
        | .area =>
          match mergeAreaMembers t.1 e o with
          | none => none
          | some r => some (r.1, { e with id := o.id, tags := t.2, ids := r.2.1, polygons := r.2.2 })
        | .relation =>
          match cells t.1 o.members with
          | none => none
          | some ms =>
            match mergeInto t.1 e.members ms with
            | none => none
            | some m => some (m.1, { e with id := o.id, tags := t.2, members := m.2 })
        | .collection =>
          match cloneKeepNil t.1 o.keys with
          | none => none
          | some ks =>
            match cloneKeepNil ks.1 o.values with
            | none => none
            | some vs =>
              some (vs.1, { e with id := o.id, tags := t.2, keys := ks.2, values := vs.2, sorted := o.sorted })

/-! ## the mutators of the feature API -/

inductive Mut where
  | setID (id : String)
  | setTags (lit : List (String × String))
  | addTag (k v : String)
  | setTag (k v : String)
  | rmTag (k : String)
  | rmTags (ks : List String)
  | rmAllTags
  /-- `SetPathIDs(i, lit)` with a fresh slice -/
  | setPathIDs (i : Nat) (lit : List String)
  | setPathID (i j : Nat) (id : String)
  | setPolygon (i : Nat) (p : String)
  /-- `r.Members[i] = RelationMember{id, role}` -/
  | setMember (i : Nat) (id role : String)
  | appendMember (id role : String)
  | setKey (i : Nat) (k : String)
  | setValue (i : Nat) (v : String)
  /-- `c.Keys = append(c.Keys, k); c.Values = append(c.Values, v)` -/
  | appendKV (k v : String)
  | sort
deriving Repr, DecidableEq

def scalarOf : Cell → String
  | .scalar s => s
  | .pair a _ => a
  | .ltag k _ => k

/-- stable sort of (key, value) rows by key -/
def sortRows (rows : List (Cell × Cell)) : List (Cell × Cell) :=
  rows.mergeSort fun a b => !(scalarOf b.1 < scalarOf a.1)

/-- the text of `FeatureIDInvalid` in the harness rendering -/
def invalidID : String := "!"

def mutate (st : Store) (f : Feat) : Mut → Option (Store × Feat)
  | .setID id => some (st, { f with id := id })
  | .setTags lit =>
    let a := alloc st (lit.map fun p => Cell.pair p.1 p.2)
    some (a.1, { f with tags := some a.2 })
  | .addTag k v => (append st f.tags [.pair k v]).map fun r => (r.1, { f with tags := r.2 })
  | .setTag k v => (tagsSet st f.tags k v).map fun r => (r.1, { f with tags := r.2 })
  | .rmTag k => (tagsRemove st f.tags k).map fun r => (r.1, { f with tags := r.2 })
  | .rmTags ks => (tagsRemoveMany st f.tags ks).map fun r => (r.1, { f with tags := r.2 })
  | .rmAllTags =>
    let a := alloc st []
    some (a.1, { f with tags := some a.2 })
  | .setPathIDs i lit =>
    if f.kind ≠ .area ∨ ¬ i < f.ids.length then none else
    let a := alloc st (lit.map Cell.scalar)
    (write a.1 f.polygons i (.scalar "")).map fun st' => (st', { f with ids := f.ids.set i (some a.2) })
  | .setPathID i j id =>
    if f.kind ≠ .area then none else
    match f.ids[i]? with
    | none => none
    | some cur =>
      -- for len(a.ids[i]) <= j { a.ids[i] = append(a.ids[i], FeatureIDInvalid) }
      match append st cur (List.replicate (j + 1 - slen cur) (Cell.scalar invalidID)) with
      | none => none
      | some g =>
        match write g.1 g.2 j (.scalar id) with
        | none => none
        | some st1 =>
          (write st1 f.polygons i (.scalar "")).map fun st' => (st', { f with ids := f.ids.set i g.2 })
  | .setPolygon i p =>
    if f.kind ≠ .area ∨ ¬ i < f.ids.length then none else
    (write st f.polygons i (.scalar p)).map fun st' => (st', { f with ids := f.ids.set i none })
  | .setMember i id role =>
    if f.kind ≠ .relation then none else
    (write st f.members i (.pair id role)).map fun st' => (st', f)
  | .appendMember id role =>
    if f.kind ≠ .relation then none else
    (append st f.members [.pair id role]).map fun r => (r.1, { f with members := r.2 })
  | .setKey i k =>
    if f.kind ≠ .collection then none else (write st f.keys i (.scalar k)).map fun st' => (st', f)
  | .setValue i v =>
    if f.kind ≠ .collection then none else (write st f.values i (.scalar v)).map fun st' => (st', f)
  | .appendKV k v =>
    if f.kind ≠ .collection then none else
    match append st f.keys [.scalar k] with
    | none => none
    | some ks => (append ks.1 f.values [.scalar v]).map fun vs => (vs.1, { f with keys := ks.2, values := vs.2 })
  | .sort =>
    if f.kind ≠ .collection then none else
    match cells st f.keys, cells st f.values with
    | some ks, some vs =>
      if ks.length ≠ vs.length then none else   -- Swap would index Values out of range
      let rows := sortRows (ks.zip vs)
      match mergeInto st f.keys (rows.map (·.1)) with
      | none => none
      | some a =>
        (mergeInto a.1 f.values (rows.map (·.2))).map fun b => (b.1, { f with keys := a.2, values := b.2, sorted := true })
    | _, _ => none

/-! ## list-valued tags (`b6.Expressions` values; `Tags.ModifyOrAddTagAt`, `b6.Set`) -/

/-- the store of the lists that are tag VALUES.  Go's types keep it apart from `Store` (a `[]AnyExpression`
never aliases a `[]Tag`, `[]FeatureID`, …).  No operation of the feature API writes into an existing array
of it: `b6.Set` always `make`s a new one. -/
abbrev Vals := List (List String)

/-- the visible elements of a list value -/
def resolveV (vals : Vals) (h : Slice) : Option (List String) :=
  match vals[h.addr]? with
  | none => none
  | some arr => if h.len ≤ arr.length then some (arr.take h.len) else none

/-- `b6.Set(s, e, i)` as written: `r := make([]AnyExpression, max(len(es), i+1)); copy(r, es); r[i] = e` -/
def setList (vals : Vals) (es : List String) (i : Nat) (e : String) : Vals × Slice :=
  let r := (es ++ List.replicate (i + 1 - es.length) "").set i e
  (vals ++ [r], ⟨vals.length, r.length⟩)

/-- first tag with the key whose value is a list (`ExpressionType() == ExpressionTypeExpressions`) -/
def findListKey (k : String) : List Cell → Option (Nat × Slice)
  | [] => none
  | .ltag k' h :: rest =>
    if k' = k then some (0, h) else (findListKey k rest).map fun r => (r.1 + 1, r.2)
  | _ :: rest => (findListKey k rest).map fun r => (r.1 + 1, r.2)

/-- `Tags.ModifyOrAddTagAt(Tag{k, e}, i)` -/
def tagsSetAt (st : Store) (vals : Vals) (t : Option Slice) (k : String) (i : Nat) (e : String) :
    Option (Store × Vals × Option Slice) :=
  match cells st t with
  | none => none
  | some cs =>
    match findListKey k cs with
    | some (j, h) =>
      match resolveV vals h with
      | none => none
      | some es =>
        let r := setList vals es i e
        (write st t j (.ltag k r.2)).map fun st' => (st', r.1, t)
    | none =>
      let r := setList vals [] i e
      (append st t [.ltag k r.2]).map fun a => (a.1, r.1, a.2)

/-- `ModifyOrAddTag(Tag{k, NewExpressions(lit)})` where the caller built `lit` with `spare` unused capacity
(as after earlier `append`s) -/
def tagsSetList (st : Store) (vals : Vals) (t : Option Slice) (k : String) (lit : List String) (spare : Nat) :
    Option (Store × Vals × Option Slice) :=
  let h : Slice := ⟨vals.length, lit.length⟩
  let vals' := vals ++ [lit ++ List.replicate spare ""]
  match cells st t with
  | none => none
  | some cs =>
    match findKey k cs with
    | some j => (write st t j (.ltag k h)).map fun st' => (st', vals', t)
    | none => (append st t [.ltag k h]).map fun a => (a.1, vals', a.2)

/-- the mutators that involve a list value -/
inductive MutV where
  | setTagAt (k : String) (i : Nat) (e : String)
  | setTagList (k : String) (lit : List String) (spare : Nat)
deriving Repr, DecidableEq

def mutateV (st : Store) (vals : Vals) (f : Feat) : MutV → Option (Store × Vals × Feat)
  | .setTagAt k i e => (tagsSetAt st vals f.tags k i e).map fun r => (r.1, r.2.1, { f with tags := r.2.2 })
  | .setTagList k lit spare =>
    (tagsSetList st vals f.tags k lit spare).map fun r => (r.1, r.2.1, { f with tags := r.2.2 })

/-- what the caller's constructors give: `&GenericFeature{ID: id}`, `NewAreaFeature(n)`,
`NewRelationFeature(n)`, `&CollectionFeature{CollectionID: id}` -/
def newFeat (st : Store) (kind : Kind) (id : String) (n : Nat) : Store × Feat :=
  match kind with
  | .generic => (st, { kind := .generic, id := id })
  | .area =>
    let p := alloc st (List.replicate n (Cell.scalar ""))
    (p.1, { kind := .area, id := id, ids := List.replicate n none, polygons := some p.2 })
  | .relation =>
    let m := alloc st (List.replicate n (Cell.pair "0" ""))
    (m.1, { kind := .relation, id := id, members := some m.2 })
  | .collection => (st, { kind := .collection, id := id })

/-! ## `NewFeatureFromWorld` (`New{Generic,Area,Relation,Collection}FeatureFromWorld`) -/

/-- the polygons array `NewAreaFeatureFromWorld` builds: `SetPathIDs` leaves nil where the member has
paths, `SetPolygon(i, a.Polygon(i))` copies the pointer otherwise -/
def fromWorldPolygons : List (Option Slice) → List Cell → List Cell
  | [], _ => []
  | _ :: ids, [] => Cell.scalar "" :: fromWorldPolygons ids []
  | some _ :: ids, _ :: ps => Cell.scalar "" :: fromWorldPolygons ids ps
  | none :: ids, p :: ps => p :: fromWorldPolygons ids ps

/-- the copy a caller (or `MutableOverlayWorld.AddTag` for a base feature) takes of a feature of a world:
everything is built afresh — `AllTags().Clone()`, `make`d path-id lists, `NewRelationFeature(n)` filled
member by member, keys and values `append`ed one by one (nil when there are none) -/
def fromWorld (st : Store) (w : Feat) : Option (Store × Feat) :=
  match cloneMake st w.tags with
  | none => none
  | some t =>
    match w.kind with
    | .generic => some (t.1, { kind := .generic, id := w.id, tags := t.2 })
    | .area =>
      match cloneInner t.1 w.ids with
      | none => none
      | some i =>
        match cells i.1 w.polygons with
        | none => none
        | some ps =>
          if ps.length ≠ w.ids.length then none else
          let p := alloc i.1 (fromWorldPolygons w.ids ps)
          some (p.1, { kind := .area, id := w.id, tags := t.2, ids := i.2, polygons := some p.2 })
    | .relation =>
      match cloneMake t.1 w.members with
      | none => none
      | some m => some (m.1, { kind := .relation, id := w.id, tags := t.2, members := m.2 })
    | .collection =>
      match cells t.1 w.keys, cells t.1 w.values with
      | some ks, some vs =>
        if ks.length ≠ vs.length then none else
        if ks = [] then some (t.1, { kind := .collection, id := w.id, tags := t.2, sorted := w.sorted }) else
        let k := alloc t.1 ks
        let v := alloc k.1 vs
        some (v.1, { kind := .collection, id := w.id, tags := t.2, keys := some k.2, values := some v.2,
                     sorted := w.sorted })
      | _, _ => none

/-! ## a mutable world and its callers -/

structure State where
  st : Store := []
  /-- the lists that are tag values (append-only) -/
  vals : Vals := []
  /-- `FeaturesByID` of the world: at most one entry per (kind, id) -/
  world : List Feat := []
  /-- feature values held by callers -/
  vars : List Feat := []
deriving Repr

inductive Op where
  | new (kind : Kind) (id : String) (n : Nat)
  /-- `vars.push(vars[i].Clone())` -/
  | clone (i : Nat)
  | upd (i : Nat) (m : Mut)
  /-- a mutator involving a list-valued tag (`ModifyOrAddTagAt`, …) on `vars[i]` -/
  | updV (i : Nat) (m : MutV)
  /-- `vars[i].MergeFrom(vars[j])` -/
  | merge (i j : Nat)
  /-- `world.AddFeature(vars[i])` — `ModifiedFeatures.Update`: `MergeFrom` into the existing entry, else store `Clone()` -/
  | add (i : Nat)
  /-- `world.AddTag(id, k=v)` on a stored feature (in-place `ModifyOrAddTag`) -/
  | wtag (kind : Kind) (id k v : String)
  /-- `world.RemoveTag(id, k)` on a stored feature (in-place `RemoveTag`) -/
  | wrm (kind : Kind) (id k : String)
  /-- `vars.push(NewFeatureFromWorld(world.FindFeatureByID(id)))` -/
  | fromWorld (kind : Kind) (id : String)
deriving Repr, DecidableEq

def findEntry (kind : Kind) (id : String) : List Feat → Option Nat
  | [] => none
  | f :: rest => if f.kind = kind ∧ f.id = id then some 0 else (findEntry kind id rest).map (· + 1)

def step (s : State) : Op → Option State
  | .new kind id n =>
    let r := newFeat s.st kind id n
    some { s with st := r.1, vars := s.vars ++ [r.2] }
  | .clone i =>
    match s.vars[i]? with
    | none => none
    | some f => (cloneFeat s.st f).map fun r => { s with st := r.1, vars := s.vars ++ [r.2] }
  | .upd i m =>
    match s.vars[i]? with
    | none => none
    | some f => (mutate s.st f m).map fun r => { s with st := r.1, vars := s.vars.set i r.2 }
  | .updV i m =>
    match s.vars[i]? with
    | none => none
    | some f =>
      (mutateV s.st s.vals f m).map fun r => { s with st := r.1, vals := r.2.1, vars := s.vars.set i r.2.2 }
  | .merge i j =>
    match s.vars[i]?, s.vars[j]? with
    | some e, some o =>
      if i = j then none else
      (mergeFrom s.st e o).map fun r => { s with st := r.1, vars := s.vars.set i r.2 }
    | _, _ => none
  | .add i =>
    match s.vars[i]? with
    | none => none
    | some f =>
      match findEntry f.kind f.id s.world with
      | some w =>
        match s.world[w]? with
        | none => none
        | some e => (mergeFrom s.st e f).map fun r => { s with st := r.1, world := s.world.set w r.2 }
      | none => (cloneFeat s.st f).map fun r => { s with st := r.1, world := s.world ++ [r.2] }
  | .wtag kind id k v =>
    match findEntry kind id s.world with
    | none => none
    | some w =>
      match s.world[w]? with
      | none => none
      | some e => (mutate s.st e (.setTag k v)).map fun r => { s with st := r.1, world := s.world.set w r.2 }
  | .wrm kind id k =>
    match findEntry kind id s.world with
    | none => none
    | some w =>
      match s.world[w]? with
      | none => none
      | some e => (mutate s.st e (.rmTag k)).map fun r => { s with st := r.1, world := s.world.set w r.2 }

  | .fromWorld kind id =>
    match findEntry kind id s.world with
    | none => none
    | some w =>
      match s.world[w]? with
      | none => none
      | some e => (fromWorld s.st e).map fun r => { s with st := r.1, vars := s.vars ++ [r.2] }

def run (s : State) : List Op → Option State
  | [] => some s
  | op :: ops =>
    match step s op with
    | none => none
    | some s' => run s' ops

/-! ## the code before the fixes (for the counterexample theorems only) -/
namespace Old

/-- `AreaMembers.Clone` as it was: `copy(clone.ids, a.ids)` — the inner slices are shared -/
def cloneFeat (st : Store) (f : Feat) : Option (Store × Feat) :=
  match cloneMake st f.tags with
  | none => none
  | some t =>
    match f.kind with
    | .area =>
      match cloneMake t.1 f.polygons with
      | none => none
      | some p => some (p.1, { kind := .area, id := f.id, tags := t.2, ids := f.ids, polygons := p.2 })
    | .collection =>
      some (t.1, { kind := .collection, id := f.id, tags := t.2, keys := f.keys, values := f.values,
                   sorted := f.sorted })
    | _ => B6.Model.FeatureHeap.cloneFeat st f

/-- `CollectionFeature.MergeFrom` as it was: `c.Tags = other.Tags; c.Keys = other.Keys; …` -/
def mergeCollection (e o : Feat) : Feat :=
  { e with id := o.id, tags := o.tags, keys := o.keys, values := o.values, sorted := o.sorted }

/-- the loop of `AreaMembers.MergeFrom` as it was: a nil `ids` (polygon member) went through
`copy`/truncate like any other, leaving `a.ids[i][0:0]` — non-nil when the receiver had (or `make` gave) a slice -/
def mergeInner (st : Store) : List (Option Slice) → List (Option Slice) → Option (Store × List (Option Slice))
  | [], _ => some (st, [])
  | _ :: _, [] => none
  | m :: mine, o :: theirs =>
    match cells st o with
    | none => none
    | some src =>
      match mergeInto st m src with
      | none => none
      | some a => (mergeInner a.1 mine theirs).map fun r => (r.1, a.2 :: r.2)

def mergeAreaMembers (st : Store) (e o : Feat) : Option (Store × List (Option Slice) × Option Slice) :=
  let g : Store × List (Option Slice) :=
    if e.ids.length < o.ids.length then growIds st e.ids (o.ids.drop e.ids.length)
    else (st, e.ids.take o.ids.length)
  match mergeInner g.1 g.2 o.ids with
  | none => none
  | some i =>
    match cells i.1 o.polygons with
    | none => none
    | some ps =>
      match mergeInto i.1 e.polygons ps with
      | none => none
      | some p => some (p.1, i.2, p.2)

end Old

end B6.Model.FeatureHeap
