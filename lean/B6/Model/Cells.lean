/-!
# Model of the spatial token functions (search/spatial.go) — the combinatorial half of C04

An S2 cell id is modelled as its face and the list of child positions from the face cell down:
`level = path.length`, the parent drops the last position, an ancestor is a proper prefix.
(Go: `s2.CellID.Face()`, `.Level()`, `.ChildPosition(l)`, `.Parent(level-1)`; the harness translates.)

* `tokensForCoveringWith skip0` mirrors `TokensForCovering` + `cellIDAncestorTokens`
  (`skip0 = true` is the code as found: `if cell.Level() == 0 { continue }`; `false` is the repaired code).
* `rewriteSpatialQuery` mirrors `RewriteSpatialQuery`.
* `findFeatures` mirrors the intersects* iterators: candidates of the rewritten union, filtered by `Matches`.

Tokens are compared as sets (the Go code iterates over maps).
-/
namespace B6.Model.Cells

structure Cell where
  face : Fin 6
  path : List (Fin 4)
deriving DecidableEq, Repr

namespace Cell

def level (c : Cell) : Nat := c.path.length

/-- the ancestor `k` levels up (`k ≤ level`): Go `id.Parent(id.Level()-k)` -/
def up (c : Cell) (k : Nat) : Cell := ⟨c.face, c.path.take (c.level - k)⟩

/-- Go: `if id.Level() != 0 { … id.Parent(id.Level()-1) … }` -/
def parent? (c : Cell) : Option Cell :=
  if c.level = 0 then none else some (c.up 1)

/-- `a` is a proper ancestor of `c`: same face, proper prefix of the child positions. -/
def IsAncestor (a c : Cell) : Prop :=
  a.face = c.face ∧ a.path <+: c.path ∧ a.path.length < c.path.length

instance (a c : Cell) : Decidable (IsAncestor a c) := by
  unfold IsAncestor; exact inferInstance

/-- two cells intersect iff they are equal or one contains the other (S2 cells are nested or disjoint) -/
def Intersects (a b : Cell) : Prop := a = b ∨ IsAncestor a b ∨ IsAncestor b a

instance (a b : Cell) : Decidable (Intersects a b) := by
  unfold Intersects; exact inferInstance

end Cell

inductive Token where
  | s2 (c : Cell)   -- "s2:<token>"  : the cell itself is in the covering
  | a2 (c : Cell)   -- "a2:<token>"  : the cell is a proper ancestor of a covering cell
deriving DecidableEq, Repr

/-- set semantics of a Go `map[CellID]struct{}` filled in list order -/
def dedup {α} [DecidableEq α] : List α → List α
  | [] => []
  | x :: xs => if x ∈ xs then dedup xs else x :: dedup xs

/-- one round of `cellIDAncestorTokens`: the set of parents of the non-face cells -/
def parents (cells : List Cell) : List Cell := dedup (cells.filterMap Cell.parent?)

/-- the `for len(cells) > 0` loop; `fuel` bounds the number of rounds (levels only go down) -/
def ancestorTokensAux : Nat → List Cell → List Token
  | 0, _ => []
  | fuel + 1, cells =>
    if cells.isEmpty then [] else
    let ps := parents cells
    ps.map Token.a2 ++ ancestorTokensAux fuel ps

def maxLevel (cells : List Cell) : Nat := cells.foldr (fun c m => max c.level m) 0

def cellIDAncestorTokens (covering : List Cell) : List Token :=
  ancestorTokensAux (maxLevel covering + 1) covering

/-- `TokensForCovering`; `skip0` = the `if cell.Level() == 0 { continue }` of the code as found -/
def tokensForCoveringWith (skip0 : Bool) (covering : List Cell) : List Token :=
  ((covering.filter fun c => !(skip0 && c.level == 0)).map Token.s2) ++ cellIDAncestorTokens covering

/-- the repaired code (fixes/C04-index-level0-cells.patch): every covering cell gets its `s2:` token -/
def tokensForCovering (covering : List Cell) : List Token := tokensForCoveringWith false covering

/-- the inner `for { ids[id]; if id.Level()==0 {break}; id = id.Parent(level-1) }` loop -/
def chain : Nat → Cell → List Cell
  | 0, c => [c]
  | n + 1, c => c :: (match c.parent? with
      | none => []
      | some p => chain n p)

def selfAndAncestors (c : Cell) : List Cell := chain c.level c

/-- `RewriteSpatialQuery`: `a2:` of every query cell, `s2:` of every query cell and all its ancestors -/
def rewriteSpatialQuery (q : List Cell) : List Token :=
  q.map Token.a2 ++ (dedup (q.flatMap selfAndAncestors)).map Token.s2

def shares (ts rs : List Token) : Bool := ts.any fun t => decide (t ∈ rs)

/-- an indexed feature: id and the covering its tokens were computed from -/
abbrev Indexed (ι : Type) := ι × List Cell

/-- features on the posting lists of the rewritten query (a union of `All{token}`) -/
def candidates {ι} (skip0 : Bool) (feats : List (Indexed ι)) (q : List Cell) : List (Indexed ι) :=
  feats.filter fun f => shares (tokensForCoveringWith skip0 f.2) (rewriteSpatialQuery q)

/-- the intersects* iterators: `Next` skips candidates whose `Matches` is false -/
def findFeaturesWith {ι} (skip0 : Bool) (m : ι → Bool) (feats : List (Indexed ι)) (q : List Cell) : List (Indexed ι) :=
  (candidates skip0 feats q).filter fun f => m f.1

def findFeatures {ι} (m : ι → Bool) (feats : List (Indexed ι)) (q : List Cell) : List (Indexed ι) :=
  findFeaturesWith false m feats q

/-- some feature cell and some query cell intersect (what the S2 covering contract gives for a true match) -/
def coveringsMeet (f q : List Cell) : Bool :=
  f.any fun a => q.any fun b => decide (Cell.Intersects a b)

end B6.Model.Cells
