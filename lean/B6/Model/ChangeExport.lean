import B6.Model.Mutable
/-!
# Model of the change export / import (ingest/yaml.go, expression.go, world.go) — C18

Part A — the text layer, as functions on strings.
* `infer` mirrors `b6.ExpressionFromString`: a string containing `;` is a list of parts, each part (and a
  string without `;`) is a lat,lng (`LatLngFromString`: split at the first comma, `strings.TrimSpace`,
  `strconv.ParseFloat` on both halves), else a feature id (`FeatureIDFromString` + `IsValid`), else a string.
* `encode` / `decode` mirror `Expression.MarshalYAML` / `UnmarshalYAML` (after
  `fixes/C18-export-values-explicit.patch`): ints natively, floats natively unless integral, strings bare only
  if `infer` reads them back as a string, lists as their `;`-joined rendering, everything else (and the
  exceptions) in the explicit one-key form `{string: …}`, `{float: …}`, `{point: …}`, `{id: …}`.  YAML itself
  is the identity on typed scalars, except for the slip of yaml.v2 that a bare or quoted scalar `null` / `~`
  is never handed to an `Unmarshaler` (`prepare`), which makes the document undecodable — the reason the
  strings `null` and `~` are written in the explicit form too (`fixes/C18-export-null-string.patch`).
* coordinates are E7 integers (`nan`, `±inf`, `big` beyond 1e10 degrees): the model does not follow float
  rounding below that.

Part B — the documents: `export` (one `{id, add, remove}` document per feature with modified tags, then the
overlay's features sorted by the number of transitive referrers), `importDocs` (per document `AddFeature`,
then `AddTag*`, `RemoveTag*`) on a state machine `St` for `MutableOverlayWorld` restricted to what the export
reads and the import writes: the overlay's feature table and `ModifiedTags`, over an arbitrary base.
Features carry ALL their tags (the `point` / `path` geometry lives in tags, as in the code) plus a body for
areas, relations and collections.  The search index is not part of this model (C12's); `m.references` is taken
to be the references of the current overlay features (C15's).  Validation enters as the structural skeleton
`validate` with S2 (loop validity, orientation) left open (`Verd.s2`).
-/
namespace B6.Model.ChangeExport
open B6.Model.Mutable (Id Key)

/-! ## Part A: values and the text layer -/

/-- a scalar tag value / collection literal -/
inductive Atom where
  | str (s : String)
  | int (n : Int)
  /-- IEEE bits as 16 hex digits, or `nan` -/
  | flt (bits : String)
  /-- E7 coordinate tokens -/
  | pt (lat lng : String)
  /-- raw `b6.FeatureType` number, namespace, value -/
  | fid (t : Nat) (ns : String) (v : Nat)
  | other (s : String)
deriving DecidableEq, Repr, Inhabited

/-- a tag value: a scalar or a `b6.Expressions` list -/
inductive V where
  | atom (a : Atom)
  | list (as : List Atom)
deriving DecidableEq, Repr, Inhabited

/-- three-valued parse results: `unknown` = outside what the model decides (never generated) -/
inductive Parse (α : Type) where
  | ok (a : α)
  | no
  | unknown
deriving DecidableEq, Repr

/-- `unicode.IsSpace` -/
def isGoSpace (c : Char) : Bool :=
  c == '\t' || c == '\n' || c.toNat == 0x0b || c.toNat == 0x0c || c == '\r' || c == ' ' ||
  c.toNat == 0x85 || c.toNat == 0xa0 || c.toNat == 0x1680 || (0x2000 ≤ c.toNat && c.toNat ≤ 0x200a) ||
  c.toNat == 0x2028 || c.toNat == 0x2029 || c.toNat == 0x202f || c.toNat == 0x205f || c.toNat == 0x3000

def dropSpace : List Char → List Char
  | [] => []
  | c :: r => if isGoSpace c then dropSpace r else c :: r

/-- `strings.TrimSpace` -/
def trimSpace (l : List Char) : List Char := (dropSpace (dropSpace l).reverse).reverse

def isDigit (c : Char) : Bool := '0' ≤ c && c ≤ '9'
def digitVal (c : Char) : Nat := c.toNat - '0'.toNat

def lowerAscii (c : Char) : Char := if 'A' ≤ c && c ≤ 'Z' then Char.ofNat (c.toNat + 32) else c

/-- leading digits: (value accumulated onto `acc`, number of digits, rest) -/
def takeDigits : List Char → Nat → Nat → Nat × Nat × List Char
  | [], acc, n => (acc, n, [])
  | c :: r, acc, n => if isDigit c then takeDigits r (acc * 10 + digitVal c) (n + 1) else (acc, n, c :: r)

/-- a float literal as `strconv.ParseFloat` reads it -/
inductive FloatLit where
  /-- (-1)^neg · mant · 10^exp10 -/
  | num (neg : Bool) (mant : Nat) (exp10 : Int)
  | inf (neg : Bool)
  | nan
deriving DecidableEq, Repr

def splitSign : List Char → Bool × Bool × List Char
  | '+' :: r => (true, false, r)
  | '-' :: r => (true, true, r)
  | l => (false, false, l)

/-- the decimal grammar of `readFloat`: digits with at most one `.`, at least one digit, then optionally
`e`/`E`, a sign and at least one digit; the whole string must be consumed -/
def parseDecimal (neg : Bool) (l : List Char) : Option FloatLit :=
  let (m1, n1, r1) := takeDigits l 0 0
  let (m2, n2, r2) := match r1 with
    | '.' :: r => takeDigits r m1 0
    | _ => (m1, 0, r1)
  if n1 + n2 == 0 then none else
  match r2 with
  | [] => some (.num neg m2 (-(n2 : Int)))
  | c :: r =>
    if c == 'e' || c == 'E' then
      let (_, eneg, r3) := splitSign r
      let (e, ne, r4) := takeDigits r3 0 0
      if ne == 0 || !r4.isEmpty then none
      else some (.num neg m2 ((if eneg then -(e : Int) else (e : Int)) - (n2 : Int)))
    else none

/-- `strconv.ParseFloat(s, 64)` accepting the string: decimal literals, `inf` / `infinity` with an optional
sign, `nan` without one (all case-insensitive). Hex floats and `_` separators are `unknown`; out-of-range
values are rejected like Go (`ErrRange`), undecided within a factor 10 of the limit. -/
def parseFloat (l : List Char) : Parse FloatLit :=
  let (signed, neg, body) := splitSign l
  let low := body.map lowerAscii
  if low == "inf".toList || low == "infinity".toList then .ok (.inf neg)
  else if !signed && low == "nan".toList then .ok .nan
  else match parseDecimal neg body with
    | some (.num n m e) =>
      if m == 0 then .ok (.num n m e) else
      let adj : Int := ((Nat.toDigits 10 m).length : Int) + e
      if adj ≥ 310 then .no else if adj == 309 then .unknown else .ok (.num n m e)
    | some f => .ok f
    | none =>
      if l.contains '_' || low.take 2 == "0x".toList then .unknown else .no

/-- round-half-away-from-zero of mant · 10^(exp10+7) -/
def e7OfNum (mant : Nat) (exp10 : Int) : Nat :=
  let e := exp10 + 7
  if e ≥ 0 then mant * 10 ^ e.toNat
  else
    let d := 10 ^ (-e).toNat
    (2 * mant + d) / (2 * d)

/-- the coordinate token the harness prints for the parsed degrees -/
def coordTok : FloatLit → String
  | .nan => "nan"
  | .inf false => "+inf"
  | .inf true => "-inf"
  | .num neg m e =>
    let n := e7OfNum m e
    if n > 10 ^ 17 then "big"
    else if neg && n != 0 then "-" ++ toString n else toString n

/-- split at the first comma -/
def splitComma : List Char → Option (List Char × List Char)
  | [] => none
  | c :: r => if c == ',' then some ([], r) else (splitComma r).map (fun (a, b) => (c :: a, b))

/-- `b6.LatLngFromString` -/
def latLng (l : List Char) : Parse (String × String) :=
  match splitComma l with
  | none => .no
  | some (a, b) =>
    match parseFloat (trimSpace a) with
    | .no => .no
    | .unknown => .unknown
    | .ok la =>
      match parseFloat (trimSpace b) with
      | .no => .no
      | .unknown => .unknown
      | .ok lo => .ok (coordTok la, coordTok lo)

/-- `FeatureType.String()` by number; 4 is `FeatureTypeInvalid` -/
def typeNames : List (String × Nat) :=
  [("point", 0), ("path", 1), ("area", 2), ("relation", 3), ("collection", 5), ("expression", 6)]

def typeOfName (s : String) : Option Nat := Mutable.AMap.get typeNames s

def typeName (t : Nat) : String :=
  match typeNames.find? (fun e => e.2 == t) with
  | some e => e.1
  | none => "invalid"

/-- split at the first `/` -/
def splitSlash : List Char → Option (List Char × List Char)
  | [] => none
  | c :: r => if c == '/' then some ([], r) else (splitSlash r).map (fun (a, b) => (c :: a, b))

/-- split at the last `/` -/
def splitLastSlash (l : List Char) : Option (List Char × List Char) :=
  (splitSlash l.reverse).map (fun (a, b) => (b.reverse, a.reverse))

/-- `strconv.ParseUint(s, 10, 64)` -/
def parseUint (l : List Char) : Option Nat :=
  if l.isEmpty || !l.all isDigit then none
  else
    let n := (takeDigits l 0 0).1
    if n < 2 ^ 64 then some n else none

/-- `b6.FeatureIDFromString` followed by `IsValid` -/
def featureId (l : List Char) : Option (Nat × String × Nat) :=
  let l := match l with
    | '/' :: r => r
    | _ => l
  match splitSlash l with
  | none => none
  | some (ty, rest) =>
    match splitLastSlash rest with
    | none => none
    | some (ns, v) =>
      match typeOfName (String.ofList ty), parseUint v with
      | some t, some n => if ns.isEmpty then none else some (t, String.ofList ns, n)
      | _, _ => none

/-- `ExpressionFromString` on a string without `;` -/
def inferAtom (l : List Char) : Parse Atom :=
  match latLng l with
  | .ok (la, lo) => .ok (.pt la lo)
  | .unknown => .unknown
  | .no =>
    match featureId l with
    | some (t, ns, v) => .ok (.fid t ns v)
    | none => .ok (.str (String.ofList l))

/-- `strings.Split(s, ";")` -/
def splitSemi : List Char → List (List Char)
  | [] => [[]]
  | c :: r =>
    if c == ';' then [] :: splitSemi r
    else match splitSemi r with
      | [] => [[c]]
      | p :: ps => (c :: p) :: ps

def parseAll {α : Type} : List (Parse α) → Parse (List α)
  | [] => .ok []
  | .ok a :: r => match parseAll r with
    | .ok as => .ok (a :: as)
    | .no => .no
    | .unknown => .unknown
  | .no :: _ => .no
  | .unknown :: _ => .unknown

/-- `b6.ExpressionFromString` -/
def infer (s : String) : Parse V :=
  if s.toList.contains ';' then
    match parseAll ((splitSemi s.toList).map inferAtom) with
    | .ok as => .ok (.list as)
    | .no => .no
    | .unknown => .unknown
  else match inferAtom s.toList with
    | .ok a => .ok (.atom a)
    | .no => .no
    | .unknown => .unknown

/-- E7 token as a decimal literal with seven fractional digits (what the model uses for
`LatLngToString`; the code prints the shortest float, which reads back to the same E7 value) -/
def coordText (tok : String) : String :=
  if tok == "nan" then "NaN" else if tok == "+inf" then "+Inf" else if tok == "-inf" then "-Inf"
  else if tok == "big" then "1e300"
  else
    let (neg, digits) := match tok.toList with
      | '-' :: r => (true, r)
      | l => (false, l)
    let padded := List.replicate (8 - digits.length) '0' ++ digits
    let ip := padded.take (padded.length - 7)
    let fp := padded.drop (padded.length - 7)
    String.ofList ((if neg then ['-'] else []) ++ ip ++ ['.'] ++ fp)

/-- `AnyExpression.String()` -/
def renderAtom : Atom → String
  | .str s => s
  | .int n => toString n
  | .flt b => "f" ++ b
  | .pt la lo => coordText la ++ "," ++ coordText lo
  | .fid t ns v => typeName t ++ "/" ++ ns ++ "/" ++ toString v
  | .other s => s

def render : V → String
  | .atom a => renderAtom a
  | .list as => ";".intercalate (as.map renderAtom)

/-- a YAML value as the decoder sees it: native scalars or the explicit one-key map -/
inductive YVal where
  | plain (s : String)
  | int (n : Int)
  | flt (bits : String)
  | explicit (field : String) (a : Atom)
deriving DecidableEq, Repr

/-- whether IEEE bits (16 hex digits) denote an integral value or an infinity (`f == math.Trunc(f)`) -/
def hexVal (c : Char) : Nat :=
  if isDigit c then digitVal c else if 'a' ≤ c && c ≤ 'f' then c.toNat - 'a'.toNat + 10 else 0

def integralBits (b : String) : Bool :=
  if b == "nan" then false else
  let n := b.toList.foldl (fun acc c => acc * 16 + hexVal c) 0
  let ex := (n / 2 ^ 52) % 2048
  let frac := n % 2 ^ 52
  if ex == 2047 then frac == 0
  else if ex == 0 then frac == 0
  else
    -- value = (2^52 + frac) · 2^(ex - 1075)
    if ex ≥ 1075 then true
    else if 1075 - ex > 52 then false
    else (2 ^ 52 + frac) % 2 ^ (1075 - ex) == 0

/-- yaml.v2 `prepare`: a scalar whose text is `null` or `~` is treated as null and never reaches
`Expression.UnmarshalYAML`, even when it was written quoted; the
explicit form `{string: …}` is read from the generic value instead (`explicitStringYAML`) -/
def yamlNull (s : String) : Bool := s == "null" || s == "~"

/-- `Expression.MarshalYAML` -/
def encode : V → YVal
  | .atom (.str s) =>
    match infer s with
    | .ok (.atom (.str _)) => if yamlNull s then .explicit "string" (.str s) else .plain s
    | _ => .explicit "string" (.str s)
  | .atom (.int n) => .int n
  | .atom (.flt b) => if integralBits b then .explicit "float" (.flt b) else .flt b
  | .atom (.pt la lo) => .explicit "point" (.pt la lo)
  | .atom (.fid t ns v) => .explicit "id" (.fid t ns v)
  | .atom (.other s) => .explicit "other" (.other s)
  | .list as => .plain (render (.list as))

/-- `Expression.UnmarshalYAML`; `none` = the document cannot be decoded -/
def decode : YVal → Option (Parse V)
  | .plain s => if yamlNull s then none else some (infer s)
  | .int n => some (.ok (.atom (.int n)))
  | .flt b => some (.ok (.atom (.flt b)))
  | .explicit _ a => some (.ok (.atom a))

def unrendered : Atom → Bool
  | .flt _ => true
  | .other _ => true
  | _ => false

/-- a value through export and import (the `%f` rendering of a float inside a list is not modelled) -/
def reinfer (v : V) : Option (Parse V) :=
  match v with
  | .list as => if as.any unrendered then some .unknown else decode (encode v)
  | _ => decode (encode v)

/-- the same for a collection key / value (`Literal.MarshalYAML` / `UnmarshalYAML`) -/
def reinferAtom (a : Atom) : Option (Parse V) := reinfer (.atom a)

/-- what the text layer did before the fix (every string written bare, every float natively) -/
def encodeBare : V → YVal
  | .atom (.str s) => .plain s
  | .atom (.flt b) => .flt b
  | v => encode v

/-- what a bare float did before the fix: YAML writes an integral float without a decimal point and reads it
back as an int (`none` = the model does not say: magnitudes of 2^63 and above) -/
def bareFloatReadsAsInt (b : String) : Bool := integralBits b && b != "7ff0000000000000" && b != "fff0000000000000"

/-! ## Part B: features, the overlay state, export and import -/

abbrev Tag := Key × V

inductive Poly where
  /-- the closed paths of one polygon -/
  | ids (ps : List Id)
  /-- a literal polygon: loops of E7 vertices -/
  | lit (loops : List (List (String × String)))
deriving DecidableEq, Repr

inductive Body where
  /-- `GenericFeature` (points, paths): everything is in the tags -/
  | generic
  | area (ps : List Poly)
  | relation (ms : List (Id × String))
  | collection (es : List (Atom × Atom))
deriving DecidableEq, Repr, Inhabited

/-- an `ingest.Feature` -/
structure Feat where
  id : Id
  tags : List Tag
  body : Body
deriving DecidableEq, Repr

/-- the feature ids of the harness: digit · 1000 + value in one namespace; digit 0 point, 1 path, 2 area,
3 relation, 4 collection -/
def NS : String := "diagonal.works/ns/verif"
def idType (id : Id) : Nat := id / 1000
def outsideId : Id := 900000

def digitOfType (t : Nat) : Option Nat :=
  if t ≤ 3 then some t else if t == 5 then some 4 else none

/-- the model id of a feature id (`outsideId` when it is not one of the universe's) -/
def fidId (t : Nat) (ns : String) (v : Nat) : Id :=
  match digitOfType t with
  | some d => if ns == NS && v < 1000 then d * 1000 + v else outsideId
  | none => outsideId

/-- `FeatureID.IsValid` -/
def fidValid (t : Nat) (ns : String) : Bool := ns != "" && t != 4

/-! ### tags (`b6.Tags`) and `ModifiedTags` -/

/-- `Tags.ModifyOrAddTag` -/
def tagSet : List Tag → Tag → List Tag
  | [], t => [t]
  | (k, v) :: r, t => if k = t.1 then (k, t.2) :: r else (k, v) :: tagSet r t

/-- `Tags.RemoveTag` (key-distinct lists) -/
def tagRemove (ts : List Tag) (k : Key) : List Tag := Mutable.AMap.erase ts k

inductive VMod where
  | set (v : V)
  | del
deriving DecidableEq, Repr

abbrev VMods := List (Key × VMod)

def modExisting (mods : VMods) (t : Tag) : Option Tag :=
  match Mutable.AMap.get mods t.1 with
  | some (.set v) => some (t.1, v)
  | some .del => none
  | none => some t

def modNew (mods : VMods) (orig : List Tag) (e : Key × VMod) : Option Tag :=
  match Mutable.AMap.get mods e.1 with
  | some (.set v) => if (Mutable.AMap.get orig e.1).isNone then some (e.1, v) else none
  | _ => none

/-- `modifyTags` -/
def applyMods (mods : VMods) (orig : List Tag) : List Tag :=
  orig.filterMap (modExisting mods) ++ mods.filterMap (modNew mods orig)

/-- `modifyTag` -/
def modLookup : Option VMod → Option V → Option V
  | some (.set v), _ => some v
  | some .del, _ => none
  | none, o => o

def modsOf (mods : List (Id × VMods)) (id : Id) : VMods :=
  match Mutable.AMap.get mods id with
  | some m => m
  | none => []

def modsSet (mods : List (Id × VMods)) (id : Id) (k : Key) (m : VMod) : List (Id × VMods) :=
  Mutable.AMap.set mods id (Mutable.AMap.set (modsOf mods id) k m)

/-! ### references -/

/-- the elements of the `path` tag (`Tags.Get(PathTag)` valid and a list) -/
def pathElems (tags : List Tag) : Option (List Atom) :=
  match Mutable.AMap.get tags "path" with
  | some (.list as) => some as
  | _ => none

def atomRef : Atom → Option Id
  | .fid t ns v => if fidValid t ns then some (fidId t ns v) else none
  | _ => none

/-- the path ids of one polygon of an area (none for a literal polygon) -/
def polyPaths : Poly → List Id
  | .ids l => l
  | .lit _ => []

/-- `Feature.References()` as ids -/
def refsOf (f : Feat) : List Id :=
  match f.body with
  | .generic => match pathElems f.tags with
    | some as => as.filterMap atomRef
    | none => []
  | .area ps => ps.flatMap polyPaths
  | .relation ms => ms.map (·.1)
  | .collection es => es.filterMap fun e => match e.1 with
    | .fid t ns v => some (fidId t ns v)
    | _ => none

/-- whether the references of the feature are `IndexedFeatureID`s (one map key per target) -/
def indexedRefs (f : Feat) : Bool :=
  match f.body with
  | .generic => true
  | _ => false

/-! ### the world -/

/-- the base world: lookup and `FindReferences` (transitive referrers that exist) -/
structure Base where
  find : Id → Option Feat
  refs : Id → List Id

/-- the private tables of one `MutableOverlayWorld` the export reads -/
structure St where
  feats : List (Id × Feat)
  mods : List (Id × VMods)
deriving Repr

def St.empty : St := ⟨[], []⟩

/-- `MutableOverlayWorld.FindFeatureByID` -/
def St.find (b : Base) (s : St) (id : Id) : Option Feat :=
  match Mutable.AMap.get s.feats id with
  | some f => some f
  | none => (b.find id).map fun f => { f with tags := applyMods (modsOf s.mods id) f.tags }

/-- `FindLocationByID` succeeds: the feature is a generic one with a `point` tag -/
def hasLoc (find : Id → Option Feat) (id : Id) : Bool :=
  match find id with
  | some f => (Mutable.AMap.get f.tags "point").isSome && f.body == .generic
  | none => false

def dedupIds : List Id → List Id
  | [] => []
  | x :: r => if r.contains x then dedupIds r else x :: dedupIds r

/-- the sources `m.references` records for a target: overlay features that refer to it -/
def direct (s : St) (tgt : Id) : List Id :=
  s.feats.filterMap fun e => if (refsOf e.2).contains tgt then some e.2.id else none

/-- `FeatureReferencesByID.FindReferences` as source ids -/
def closure (s : St) : Nat → Id → List Id
  | 0, _ => []
  | n + 1, id => direct s id ++ (direct s id).flatMap (closure s n)

def St.fuel (s : St) : Nat := s.feats.length + 1

/-- `MutableOverlayWorld.FindReferences(id)`, untyped -/
def St.referrers (b : Base) (s : St) (id : Id) : List Id :=
  let br := (b.refs id).filter (fun r => !Mutable.AMap.contains s.feats r)
  let all := br ++ br.flatMap (closure s s.fuel) ++ closure s s.fuel id
  (dedupIds all).filter (fun r => (s.find b r).isSome)

/-! ### validation (validate.go), S2 left open -/

inductive Verd where
  | ok
  /-- a reference of the feature itself cannot be resolved -/
  | missing
  /-- the feature itself is structurally invalid -/
  | fail
  /-- a feature that refers to it would become invalid -/
  | referrer
  /-- structurally fine; S2 decides (loop validity, orientation) -/
  | s2
deriving DecidableEq, Repr

def isPt : Atom → Bool
  | .pt _ _ => true
  | _ => false

/-- `Tags.ClosedPath`: the first element and the element at index (number of id elements − 1) are the same
valid id -/
def closedPath (as : List Atom) : Bool :=
  let n := (as.filterMap atomRef).length
  match as.head?, as[n - 1]? with
  | some a, some z => (atomRef a).isSome && atomRef a == atomRef z && n ≥ 1
  | _, _ => false

/-- a path element that is an id without a location -/
def missingRef (loc : Id → Bool) (a : Atom) : Bool :=
  match atomRef a with
  | some id => !loc id
  | none => false

/-- `ValidatePath` -/
def validatePath (loc : Id → Bool) (tags : List Tag) : Verd :=
  if (Mutable.AMap.get tags "point").isSome then .fail else
  match pathElems tags with
  | none => .fail
  | some as =>
    if as.length < 2 then .fail
    else if as.any (fun a => !isPt a && (atomRef a).isNone) then .fail
    else if as.any (missingRef loc) then .missing
    else if closedPath as then .s2 else .ok

/-- `ValidateArea` on one path id: the path exists, its end points resolve, `ValidatePathForArea` -/
def validateAreaPath (find : Id → Option Feat) (id : Id) : Verd :=
  match find id with
  | none => .missing
  | some p =>
    if (Mutable.AMap.get p.tags "point").isSome then .fail else
    match pathElems p.tags with
    | none => .fail
    | some as =>
      let ends := [as.head?, as.getLast?].filterMap (fun a => a.bind atomRef)
      if ends.any (fun r => !hasLoc find r) then .fail
      else if as.length < 3 then .fail
      else if as.head? != as.getLast? then .fail
      else .ok

def Verd.isErr : Verd → Bool
  | .missing => true
  | .fail => true
  | .referrer => true
  | _ => false

def validateArea (find : Id → Option Feat) (ps : List Poly) : Verd :=
  let vs := (ps.flatMap polyPaths).map (validateAreaPath find)
  if vs.contains .missing then .missing else if vs.contains .fail then .fail else .ok

/-- `ValidateFeature` -/
def validateFeature (find : Id → Option Feat) (f : Feat) : Verd :=
  if idType f.id == 1 then validatePath (hasLoc find) f.tags
  else if idType f.id == 2 then
    match f.body with
    | .area ps => validateArea find ps
    | _ => .ok
  else .ok

/-- the answer of `AddFeature`: the feature in the current world, then its referrers in the world where it
has replaced the existing one -/
def St.validateAdd (b : Base) (s : St) (f : Feat) : Verd :=
  match validateFeature (s.find b) f with
  | .missing => .missing
  | .fail => .fail
  | own =>
    let find' : Id → Option Feat := fun id => if id = f.id then some f else s.find b id
    let rs := ((s.referrers b f.id).filterMap (s.find b)).map (validateFeature find')
    if rs.any Verd.isErr then .referrer
    else if own == .s2 || rs.contains .s2 then .s2 else .ok

/-! ### mutations -/

/-- `MutableOverlayWorld.AddTag`; the error (no such feature) leaves the world unchanged -/
def St.addTag (b : Base) (s : St) (id : Id) (t : Tag) : St :=
  match Mutable.AMap.get s.feats id with
  | some f => { s with feats := Mutable.AMap.set s.feats id { f with tags := tagSet f.tags t } }
  | none =>
    match s.find b id with
    | none => s
    | some f =>
      if Mutable.indexedKey t.1 || (idType id == 0 && f.tags.length == 1) then
        { feats := Mutable.AMap.set s.feats id { f with tags := tagSet f.tags t },
          mods := Mutable.AMap.erase s.mods id }
      else { s with mods := modsSet s.mods id t.1 (.set t.2) }

/-- `MutableOverlayWorld.RemoveTag` -/
def St.removeTag (b : Base) (s : St) (id : Id) (k : Key) : St :=
  match Mutable.AMap.get s.feats id with
  | some f => { s with feats := Mutable.AMap.set s.feats id { f with tags := tagRemove f.tags k } }
  | none =>
    match s.find b id with
    | none => s
    | some f =>
      match Mutable.AMap.get f.tags k with
      | none => s
      | some _ =>
        if Mutable.indexedKey k || (idType id == 0 && f.tags.length == 2) then
          { feats := Mutable.AMap.set s.feats id { f with tags := tagRemove f.tags k },
            mods := Mutable.AMap.erase s.mods id }
        else { s with mods := modsSet s.mods id k .del }

/-- whether `AddTag` / `RemoveTag` answer with an error -/
def St.tagErr (b : Base) (s : St) (id : Id) : Bool := (s.find b id).isNone

/-- `NewModifiedFeaturesWithCopies`: a referrer that only lives in the base is copied into the overlay as
the world shows it -/
def copyStep (newId : Id) (feats : List (Id × Feat)) (r : Feat) : List (Id × Feat) :=
  if Mutable.AMap.contains feats r.id || r.id == newId then feats else Mutable.AMap.set feats r.id r

/-- an accepted `AddFeature`: copies, replacement, `delete(m.tags, id)` -/
def St.commit (s : St) (f : Feat) (referrers : List Feat) : St :=
  { feats := Mutable.AMap.set (referrers.foldl (copyStep f.id) s.feats) f.id f,
    mods := Mutable.AMap.erase s.mods f.id }

def St.addFeature (b : Base) (s : St) (f : Feat) : St :=
  s.commit f ((s.referrers b f.id).filterMap (s.find b))

/-! ### export (`ExportChangesAsYAML`) -/

inductive Doc where
  /-- `{id, add, remove}` -/
  | mods (id : Id) (add : List Tag) (remove : List Key)
  /-- a feature: `{id, tags}`, `{id, area, tags}`, `{id, relation, tags}`, `{id, collection, tags}` -/
  | feat (f : Feat)
deriving DecidableEq, Repr

def sets (m : VMods) : List Tag :=
  m.filterMap fun e => match e.2 with
    | .set v => some (e.1, v)
    | .del => none

def dels (m : VMods) : List Key :=
  m.filterMap fun e => match e.2 with
    | .set _ => none
    | .del => some e.1

def exportMods (ms : List (Id × VMods)) : List Doc :=
  ms.filterMap fun e => if e.2.isEmpty then none else some (.mods e.1 (sets e.2) (dels e.2))

def exportFeats (s : St) (ord : List Id) : List Doc :=
  ord.filterMap fun id => (Mutable.AMap.get s.feats id).map Doc.feat

/-- the exported documents for an order of the overlay's features -/
def exportDocs (s : St) (ord : List Id) : List Doc := exportMods s.mods ++ exportFeats s ord

/-- the keys of the map `FindReferences` fills: one per (target, source) for indexed references, one per
source otherwise -/
abbrev RefKey := Id × Option Id

def directKeys (s : St) (tgt : Id) : List RefKey :=
  s.feats.filterMap fun e =>
    if (refsOf e.2).contains tgt then some (e.2.id, if indexedRefs e.2 then some tgt else none) else none

def reach (s : St) : Nat → Id → List RefKey
  | 0, _ => []
  | n + 1, t => directKeys s t ++ (directKeys s t).flatMap (fun k => reach s n k.1)

def dedupKeys : List RefKey → List RefKey
  | [] => []
  | x :: r => if r.contains x then dedupKeys r else x :: dedupKeys r

/-- the sort key of `feedFeatures` with `FeedReferencesFirst`: `len(r.FindReferences(id))` -/
def rank (s : St) (id : Id) : Nat := (dedupKeys (reach s s.fuel id)).length

def insertByRank (s : St) (id : Id) : List Id → List Id
  | [] => [id]
  | y :: r =>
    if rank s id > rank s y || (rank s id == rank s y && id < y) then id :: y :: r
    else y :: insertByRank s id r

/-- one of the orders the export can produce: rank descending, ties by id -/
def exportOrder (s : St) : List Id :=
  (Mutable.AMap.keys s.feats).foldl (fun acc id => insertByRank s id acc) []

/-! ### the text layer on documents -/

inductive TextErr where
  /-- yaml.v2 cannot decode the document: `Apply` stops with an error -/
  | undecodable
  /-- outside what the model of the text layer decides -/
  | unknown
deriving DecidableEq, Repr

def textValue (v : V) : Except TextErr V :=
  match reinfer v with
  | none => .error .undecodable
  | some (.ok v') => .ok v'
  | some _ => .error .unknown

def textTags : List Tag → Except TextErr (List Tag)
  | [] => .ok []
  | t :: r => do
    let v ← textValue t.2
    let r' ← textTags r
    pure ((t.1, v) :: r')

def textAtom (a : Atom) : Except TextErr Atom :=
  match textValue (.atom a) with
  | .ok (.atom a') => .ok a'
  | .ok (.list _) => .error .unknown
  | .error e => .error e

def textPairs : List (Atom × Atom) → Except TextErr (List (Atom × Atom))
  | [] => .ok []
  | e :: r => do
    let k ← textAtom e.1
    let v ← textAtom e.2
    let r' ← textPairs r
    pure ((k, v) :: r')

def textBody : Body → Except TextErr Body
  | .collection es => do
    let es' ← textPairs es
    pure (.collection es')
  | b => .ok b

/-- a document through `yaml.Encoder` and `yaml.Decoder` -/
def textDoc : Doc → Except TextErr Doc
  | .mods id add rm => do
    let add' ← textTags add
    pure (.mods id add' rm)
  | .feat f => do
    let tags ← textTags f.tags
    let body ← textBody f.body
    pure (.feat { f with tags := tags, body := body })

/-! ### whether an ingested collection is sorted by key (`newCollectionFeatureFromYAML`) -/

/-- a finite float or an infinity as m · 2^e (`none` for NaN) -/
def fltVal (b : String) : Option (Int × Int) :=
  if b == "nan" then none else
  let n : Nat := b.toList.foldl (fun acc c => acc * 16 + hexVal c) 0
  let neg : Bool := n / 2 ^ 63 == 1
  let ex : Nat := (n / 2 ^ 52) % 2048
  let frac : Nat := n % 2 ^ 52
  let sign : Int := if neg then -1 else 1
  if ex == 2047 then (if frac == 0 then some (sign, 5000) else none)
  else if ex == 0 then some (sign * Int.ofNat frac, -1074)
  else some (sign * Int.ofNat (2 ^ 52 + frac), Int.ofNat ex - 1075)

/-- m1 · 2^e1 < m2 · 2^e2 -/
def scaledLt (a b : Int × Int) : Bool :=
  let e := min a.2 b.2
  a.1 * 2 ^ (a.2 - e).toNat < b.1 * 2 ^ (b.2 - e).toNat

/-- `b6.Less` on collection literals; `none` = the error "can't compare": an int compares with ints only,
a float with floats and ints, a string with strings, a feature id with feature ids, nothing else at all -/
def atomLess (a b : Atom) : Option Bool :=
  match a, b with
  | .int x, .int y => some (x < y)
  | .flt x, .flt y => match fltVal x, fltVal y with
    | some u, some v => some (scaledLt u v)
    | _, _ => some false
  | .flt x, .int y => match fltVal x with
    | some u => some (scaledLt u (y, 0))
    | none => some false
  | .str x, .str y => some (x < y)
  | .fid t ns v, .fid t' ns' v' =>
    some (if t == t' then (if ns == ns' then v < v' else ns < ns') else t < t')
  | _, _ => none

/-- the `sorted` flag of an ingested collection (after `fixes/C18-collection-sorted-mixed-keys.patch`): no
key is less than its predecessor, and neighbours compare in either order -/
def keysSorted : List Atom → Bool
  | a :: b :: r =>
    (match atomLess b a, atomLess a b with
      | some false, some _ => true
      | _, _ => false) && keysSorted (b :: r)
  | _ => true

/-! ### import (`ingestedYAML.Apply`) -/

/-- one document: `AddFeature` (its answer is `acc`), then `AddTag` for every added tag, `RemoveTag` for
every removed key (their errors are ignored). `none` = `Apply` returns the error. -/
def importDoc (b : Base) (acc : St → Feat → Bool) (s : St) : Doc → Option St
  | .feat f => if acc s f then some (s.addFeature b f) else none
  | .mods id add rm =>
    some (rm.foldl (fun s k => s.removeTag b id k) (add.foldl (fun s t => s.addTag b id t) s))

def importDocs (b : Base) (acc : St → Feat → Bool) : St → List Doc → Option St
  | s, [] => some s
  | s, d :: r =>
    match importDoc b acc s d with
    | some s' => importDocs b acc s' r
    | none => none

/-- one document with `AddFeature` accepted -/
def rebuildDoc (b : Base) (s : St) : Doc → St
  | .feat f => s.addFeature b f
  | .mods id add rm => rm.foldl (fun s k => s.removeTag b id k) (add.foldl (fun s t => s.addTag b id t) s)

/-- the world rebuilt from a list of documents: the base plus what they say -/
def rebuild (b : Base) (s : St) (docs : List Doc) : St := docs.foldl (rebuildDoc b) s

/-- **when `Apply` gets through**: every feature document is accepted by `AddFeature` in the world rebuilt
from the documents before it -/
def docsValid (b : Base) (acc : St → Feat → Bool) : St → List Doc → Bool
  | _, [] => true
  | s, .feat f :: r => acc s f && docsValid b acc (s.addFeature b f) r
  | s, .mods id add rm :: r => docsValid b acc (rebuildDoc b s (.mods id add rm)) r

/-- the same as a condition on the exporting world `s` (and the order its features are listed in) -/
def applyGetsThrough (b : Base) (acc : St → Feat → Bool) (s : St) (ord : List Id) : Bool :=
  docsValid b acc St.empty (exportDocs s ord)

/-! ### validation with an oracle for S2 -/

/-- the coordinates of a path element: a literal, or the `point` tag of the feature referred to -/
def elemCoord (find : Id → Option Feat) : Atom → Option (String × String)
  | .pt la lo => some (la, lo)
  | a => match atomRef a with
    | some id => match find id with
      | some f => match Mutable.AMap.get f.tags "point" with
        | some (.atom (.pt la lo)) => some (la, lo)
        | _ => none
      | none => none
    | none => none

/-- the vertices `ValidatePath` hands to S2 for a closed path: all but the last element -/
def loopCoords (find : Id → Option Feat) (tags : List Tag) : Option (List (String × String)) :=
  match pathElems tags with
  | some as => as.dropLast.mapM (elemCoord find)
  | none => none

/-- `ValidateFeature` with `loopOK` answering for S2 (`loop.Validate() == nil && loop.Area() <= 2π`) -/
def validateFeatureO (loopOK : List (String × String) → Bool) (find : Id → Option Feat) (f : Feat) : Verd :=
  match validateFeature find f with
  | .s2 => match loopCoords find f.tags with
    | some cs => if loopOK cs then .ok else .fail
    | none => .fail
  | v => v

/-- `AddFeature`'s answer with the oracle: `ok`, or why not -/
def St.validateAddO (loopOK : List (String × String) → Bool) (b : Base) (s : St) (f : Feat) : Verd :=
  match validateFeatureO loopOK (s.find b) f with
  | .ok =>
    let find' : Id → Option Feat := fun id => if id = f.id then some f else s.find b id
    let rs := ((s.referrers b f.id).filterMap (s.find b)).map (validateFeatureO loopOK find')
    if rs.all (· == .ok) then .ok else .referrer
  | v => v

def St.accepts (loopOK : List (String × String) → Bool) (b : Base) (s : St) (f : Feat) : Bool :=
  s.validateAddO loopOK b f == .ok

/-! ### a concrete base: `BasicMutableWorld` filled with features -/

def baseTable (fs : List Feat) : List (Id × Feat) := fs.foldl (fun m f => Mutable.AMap.set m f.id f) []

def baseOf (fs : List Feat) : Base :=
  let st : St := ⟨baseTable fs, []⟩
  { find := fun id => Mutable.AMap.get st.feats id,
    refs := fun id => (dedupIds (closure st st.fuel id)).filter (fun r => Mutable.AMap.contains st.feats r) }

end B6.Model.ChangeExport
