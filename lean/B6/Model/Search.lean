import B6.Spec.SearchQuery
import B6.Model.Posting
/-!
# Model of the search iterators (C06, shared layer L4)

Mirrors /repo/src/diagonal.works/b6/search: `array.go` (`arrayIndexIterator`), `search.go` (`emptyIterator`,
`All`), `union.go` (`union`), `intersection.go` (`intersection`), `range.go` (`keyRange`), `prefix.go`
(`tokenPrefix`), and `merged.go` (`mergedFeatures`, the k-way merge of b6.Features used by C03).

Values and keys are naturals (b6 uses feature IDs; the drivers embed them order-preservingly).

What is abstracted:
* `sort.Search` in `arrayIndexIterator.Advance` is "least index at or after the cursor whose element is
  `≥ key`" (`lowerBound`) — `sort.Search` itself is trusted (DESIGN §3).
* the binary heap of `union`/`mergedFeatures` is a list of the live children; the heap top is the first
  child with the least value (ties between equal values are not observable: they carry the same key).
* the tree-index leaf (`treeListIterator`) is the same sorted-list cursor with `EstimateLength` = list
  length; its pointer structure is C07's model.  The compact posting-list leaf (`compact.Iterator`) is the
  same cursor too; its byte-level model is C08's `B6.Model.Posting`, connected by `Lemmas/SearchPosting.lean`.
* loops of the Go code run on explicit fuel; running out is the explicit outcome `Err.fuel`
  (`intersection_terminates`, `union_refines` show it never happens when the children behave).
Go panics are the explicit outcome `Err.panic`; `Value()` is `none` where Go panics or returns nil.
-/
namespace B6.Model.Search
open B6.Spec.Cursor B6.Spec.SearchQuery

/-! ## Leaves: `arrayIndexIterator` (and the tree-index iterator, by its contract) -/

/-- `pos = i + 1` of the Go field `i` (`i = -1` before the first call). -/
structure Leaf where
  kind : LeafKind
  xs : List Nat
  pos : Nat
  deriving Repr, DecidableEq

/-- least index `j ≥ i` with `xs[j] ≥ k` (`xs.length` if none) — what `sort.Search` returns on a sorted list -/
def lowerBound (xs : List Nat) (i : Nat) (k : Nat) : Nat :=
  i + ((xs.drop i).takeWhile (· < k)).length

namespace Leaf

/-- `if a.i+1 >= len(a.list) { return false }; a.i++; return true` -/
def next (l : Leaf) : Bool × Leaf :=
  if l.pos ≥ l.xs.length then (false, l) else (true, { l with pos := l.pos + 1 })

/-- `if a.i < 0 { a.i = 0 }; a.i += sort.Search(...); return a.i < len(a.list)` -/
def advance (k : Nat) (l : Leaf) : Bool × Leaf :=
  let j := lowerBound l.xs (l.pos - 1) k
  (decide (j < l.xs.length), { l with pos := j + 1 })

/-- `a.list[a.i]` — panics (`none`) before the first call and past the end -/
def value (l : Leaf) : Option Nat := if l.pos = 0 then none else l.xs[l.pos - 1]?

/-- array: `len(a.list) - a.i`; tree: `t.list.length` -/
def estimate (l : Leaf) : Nat :=
  match l.kind with
  | .array => l.xs.length + 1 - l.pos
  | .tree => l.xs.length
  | .compact => l.xs.length     -- not used: compact indices hand out `Iter.pleaf`

def ops : IterOps Leaf where
  next l := .ok l.next
  advance k l := .ok (l.advance k)
  value := value
  estimate := estimate

end Leaf

/-- `emptyIterator` -/
def emptyOps : IterOps Unit where
  next _ := .ok (false, ())
  advance _ _ := .ok (false, ())
  value _ := none
  estimate _ := 0

/-! ## Union -/

/-- split a list at its first element with the least key (the heap top) -/
def splitMin {α : Type} (key : α → Nat) : List α → Option (List α × α × List α)
  | [] => none
  | a :: l =>
    match splitMin key l with
    | none => some ([], a, [])
    | some (pre, m, post) => if key a ≤ key m then some ([], a, l) else some (a :: pre, m, post)

/-- `union`: before `start()` the slice holds every child; afterwards the heap of the children that are
still live, each with the value it is on. -/
inductive UnionState (σ : Type) where
  | fresh (its : List σ)
  | live (l : List (σ × Nat))
  deriving Repr

namespace Union
variable {σ : Type}

/-- `union.start`: call `Next` on every child, keep those that returned true -/
def start (ops : IterOps σ) : List σ → Except Err (List (σ × Nat))
  | [] => .ok []
  | s :: rest =>
    match ops.next s with
    | .ok (true, s') =>
      match ops.value s' with
      | some v =>
        match start ops rest with
        | .ok l => .ok ((s', v) :: l)
        | .error e => .error e
      | none => .error .panic
    | .ok (false, _) => start ops rest
    | .error e => .error e

/-- the two heap loops of `union.Next` / `union.Advance`: while the heap is not empty and `cond` holds of
the top's value, `step` the top and `heap.Fix` it, or `heap.Pop` it when it is exhausted -/
def loop (ops : IterOps σ) (cond : Nat → Bool) (step : σ → Res σ) :
    Nat → List (σ × Nat) → Except Err (List (σ × Nat))
  | 0, _ => .error .fuel
  | f + 1, l =>
    match splitMin (·.2) l with
    | none => .ok []
    | some (pre, (s, v), post) =>
      if cond v then
        match step s with
        | .ok (true, s') =>
          match ops.value s' with
          | some v' => loop ops cond step f (pre ++ (s', v') :: post)
          | none => .error .panic
        | .ok (false, _) => loop ops cond step f (pre ++ post)
        | .error e => .error e
      else .ok l

def finish (r : Except Err (List (σ × Nat))) : Res (UnionState σ) :=
  match r with
  | .ok l => .ok (!l.isEmpty, .live l)
  | .error e => .error e

def next (ops : IterOps σ) : UnionState σ → Res (UnionState σ)
  | .fresh its => finish (start ops its)
  | .live l =>
    match splitMin (·.2) l with
    | none => .ok (false, .live [])
    | some (_, (_, cur), _) => finish (loop ops (· == cur) ops.next (l.length + 1) l)

def advanceLive (ops : IterOps σ) (to : Nat) (l : List (σ × Nat)) : Res (UnionState σ) :=
  finish (loop ops (· < to) (ops.advance to) (l.length + 1) l)

def advance (ops : IterOps σ) (to : Nat) : UnionState σ → Res (UnionState σ)
  | .fresh its =>
    match start ops its with
    | .ok l => advanceLive ops to l
    | .error e => .error e
  | .live l => advanceLive ops to l

/-- `u.iterators[0].Value()`; before `start()` the children have no value yet -/
def value : UnionState σ → Option Nat
  | .fresh _ => none
  | .live l => (splitMin (·.2) l).map (·.2.1.2)

/-- maximum of the children's estimates (0 when there is none) -/
def estimate (ops : IterOps σ) : UnionState σ → Nat
  | .fresh its => its.foldl (fun m s => max m (ops.estimate s)) 0
  | .live l => l.foldl (fun m s => max m (ops.estimate s.1)) 0

def ops (o : IterOps σ) : IterOps (UnionState σ) where
  next := next o
  advance := advance o
  value := value
  estimate := estimate o
  dom := o.dom

end Union

/-! ## Intersection -/

inductive ScanRes (σ : Type) where
  | allEqual (others : List σ)                 -- every other child sits on the lead's value
  | exhausted (lead : σ) (others : List σ)     -- some `Advance` returned false
  | restart (lead : σ) (others : List σ)       -- a child was ahead; the lead was advanced to it (`break`)
  | err (e : Err)

namespace Inter
variable {σ : Type}

/-- stable insertion sort by `EstimateLength` (`sort.Stable(byEstimatedLength(iterators))`; the result of
a stable sort does not depend on the algorithm) -/
def insertBy (est : σ → Nat) (a : σ) : List σ → List σ
  | [] => [a]
  | b :: l => if est b < est a then b :: insertBy est a l else a :: b :: l

def sortBy (est : σ → Nat) : List σ → List σ
  | [] => []
  | a :: l => insertBy est a (sortBy est l)

/-- the inner `for i := 1; i < len(in.iterators); i++` of `advanceToNextIntersecion`; `v` is the lead's value -/
def scan (ops : IterOps σ) (lead : σ) (v : Nat) : List σ → ScanRes σ
  | [] => .allEqual []
  | c :: rest =>
    match ops.advance v c with
    | .ok (false, c') => .exhausted lead (c' :: rest)
    | .ok (true, c') =>
      match ops.value c' with
      | none => .err .panic
      | some w =>
        if w = v then
          match scan ops lead v rest with
          | .allEqual r => .allEqual (c' :: r)
          | .exhausted l r => .exhausted l (c' :: r)
          | .restart l r => .restart l (c' :: r)
          | .err e => .err e
        else
          match ops.advance w lead with
          | .ok (false, l') => .exhausted l' (c' :: rest)
          | .ok (true, l') => .restart l' (c' :: rest)
          | .error e => .err e
    | .error e => .err e

/-- the outer `for {}` of `advanceToNextIntersecion` -/
def leapfrog (ops : IterOps σ) : Nat → σ → List σ → Res (List σ)
  | 0, _, _ => .error .fuel
  | f + 1, lead, others =>
    match ops.value lead with
    | none => .error .panic
    | some v =>
      match scan ops lead v others with
      | .allEqual o => .ok (true, lead :: o)
      | .exhausted l o => .ok (false, l :: o)
      | .restart l o => leapfrog ops f l o
      | .err e => .error e

/-- `in.iterators[0]` panics on an intersection without children -/
def next (ops : IterOps σ) (fuel : Nat) : List σ → Res (List σ)
  | [] => .error .panic
  | lead :: others =>
    match ops.next lead with
    | .ok (true, l') => leapfrog ops fuel l' others
    | .ok (false, l') => .ok (false, l' :: others)
    | .error e => .error e

def advance (ops : IterOps σ) (fuel : Nat) (to : Nat) : List σ → Res (List σ)
  | [] => .error .panic
  | lead :: others =>
    match ops.advance to lead with
    | .ok (true, l') => leapfrog ops fuel l' others
    | .ok (false, l') => .ok (false, l' :: others)
    | .error e => .error e

def value (ops : IterOps σ) : List σ → Option Nat
  | [] => none
  | lead :: _ => ops.value lead

def estimate (ops : IterOps σ) : List σ → Nat
  | [] => 0
  | lead :: _ => ops.estimate lead

/-- `newIntersection` -/
def new (ops : IterOps σ) (its : List σ) : List σ := sortBy ops.estimate its

def ops (o : IterOps σ) (fuel : Nat) : IterOps (List σ) where
  next := next o fuel
  advance := advance o fuel
  value := value o
  estimate := estimate o
  dom := o.dom

end Inter

/-! ## Key range -/

structure RangeState (σ : Type) where
  it : σ
  b : Nat
  e : Nat
  started : Bool
  deriving Repr

namespace Range
variable {σ : Type}

/-- `ok && CompareKey(k.iterator.Value(), k.end) == ComparisonLess` -/
def finish (ops : IterOps σ) (st : RangeState σ) (r : Res σ) : Res (RangeState σ) :=
  match r with
  | .ok (true, it') =>
    match ops.value it' with
    | some v => .ok (decide (v < st.e), { st with it := it', started := true })
    | none => .error .panic
  | .ok (false, it') => .ok (false, { st with it := it', started := true })
  | .error e => .error e

def next (ops : IterOps σ) (st : RangeState σ) : Res (RangeState σ) :=
  if st.started then finish ops st (ops.next st.it) else finish ops st (ops.advance st.b st.it)

def advance (ops : IterOps σ) (k : Nat) (st : RangeState σ) : Res (RangeState σ) :=
  if st.started then finish ops st (ops.advance k st.it)
  else
    match ops.advance st.b st.it with
    | .ok (true, it') => finish ops st (ops.advance k it')
    | .ok (false, it') => .ok (false, { st with it := it', started := true })
    | .error e => .error e

def ops (o : IterOps σ) : IterOps (RangeState σ) where
  next := next o
  advance := advance o
  value st := o.value st.it
  estimate st := o.estimate st.it
  dom := o.dom

end Range

/-! ## k-way merge of feature streams (`b6.MergeFeatures`, merged.go) — children only have `Next` -/

namespace Merged
variable {σ : Type}

/-- `do { step the top } while (heap not empty && top == current)` -/
def loop (ops : IterOps σ) (cur : Nat) : Nat → List (σ × Nat) → Except Err (List (σ × Nat))
  | 0, _ => .error .fuel
  | f + 1, l =>
    match splitMin (·.2) l with
    | none => .error .panic      -- `m.features[0]` on an empty heap
    | some (pre, (s, _), post) =>
      let continue_ (l' : List (σ × Nat)) : Except Err (List (σ × Nat)) :=
        match splitMin (·.2) l' with
        | none => .ok []
        | some (_, (_, v'), _) => if v' = cur then loop ops cur f l' else .ok l'
      match ops.next s with
      | .ok (true, s') =>
        match ops.value s' with
        | some v' => continue_ (pre ++ (s', v') :: post)
        | none => .error .panic
      | .ok (false, _) => continue_ (pre ++ post)
      | .error e => .error e

def next (ops : IterOps σ) : UnionState σ → Res (UnionState σ)
  | .fresh its => Union.finish (Union.start ops its)
  | .live l =>
    match splitMin (·.2) l with
    | none => .ok (false, .live [])
    | some (_, (_, cur), _) => Union.finish (loop ops cur (l.length + 1) l)

end Merged

/-! ## The closed iterator type and its operations -/

inductive Iter where
  | empty
  | leaf (l : Leaf)
  | union (st : UnionState Iter)
  | inter (its : List Iter)
  | range (st : RangeState Iter)
  | tprefix (it : Iter)          -- `tokenPrefix{iterator: NewUnion(...)}`
  /-- `compact.Iterator` over one posting list (C08's byte-level model), with the file's namespace table -/
  | pleaf (names : List String) (pl : B6.Model.Posting.PostingList) (it : B6.Model.Posting.It)

def liftRes {τ σ : Type} (emb : τ → σ) : Res τ → Res σ
  | .ok (b, t) => .ok (b, emb t)
  | .error e => .error e

def liftPostingErr : B6.Model.Posting.Err → Err
  | .panic => .panic
  | .corrupt => .panic
  | .fuel => .fuel

/-- the `b6.FeatureID` of the key `TypeAndNamespace * 2^64 + value` (`NamespaceTable.DecodeID`; = `Posting.keyOf`) -/
def postingKey (names : List String) (k : Nat) : B6.Model.Posting.Key :=
  ⟨(k / 2 ^ 64) / 8192, names[(k / 2 ^ 64) % 8192]?.getD "", k % 2 ^ 64⟩

def pleafLift (names : List String) (pl : B6.Model.Posting.PostingList)
    (r : Except B6.Model.Posting.Err (Bool × B6.Model.Posting.It)) : Res Iter :=
  match r with
  | .ok p => .ok (p.1, .pleaf names pl p.2)
  | .error e => .error (liftPostingErr e)

def pleafValue (pl : B6.Model.Posting.PostingList) (it : B6.Model.Posting.It) : Option Nat :=
  match B6.Model.Posting.cur pl it with
  | .ok id => some (B6.Model.Posting.keyNat id)
  | .error _ => none

/-- Operations on `Iter` for iterator trees of nesting depth `≤ d`; `fuel` bounds the leapfrog loop of every
intersection in the tree; `K` is the key domain (`IterOps.dom`; a proposition, it does not influence the
computation).  A tree deeper than `d` answers `Err.fuel`. -/
def ops (K : Nat → Prop) (fuel : Nat) : Nat → IterOps Iter
  | 0 =>
    { next := fun
        | .empty => .ok (false, .empty)
        | .leaf l => .ok (l.next.1, .leaf l.next.2)
        | .pleaf names pl it => pleafLift names pl (B6.Model.Posting.next pl it)
        | _ => .error .fuel
      advance := fun k it =>
        match it with
        | .empty => .ok (false, .empty)
        | .leaf l => .ok ((l.advance k).1, .leaf (l.advance k).2)
        | .pleaf names pl it =>
          pleafLift names pl (B6.Model.Posting.advance pl ⟨names⟩ (postingKey names k) it)
        | _ => .error .fuel
      value := fun
        | .leaf l => l.value
        | .pleaf _ pl it => pleafValue pl it
        | _ => none
      estimate := fun
        | .leaf l => l.estimate
        | .pleaf _ pl it => (pl.ids.length - it.i) / 3
        | _ => 0
      dom := K }
  | d + 1 =>
    let sub := ops K fuel d
    { next := fun
        | .empty => .ok (false, .empty)
        | .leaf l => .ok (l.next.1, .leaf l.next.2)
        | .pleaf names pl it => pleafLift names pl (B6.Model.Posting.next pl it)
        | .union st => liftRes .union (Union.next sub st)
        | .inter its => liftRes .inter (Inter.next sub fuel its)
        | .range st => liftRes .range (Range.next sub st)
        | .tprefix it => liftRes .tprefix (sub.next it)
      advance := fun k it =>
        match it with
        | .empty => .ok (false, .empty)
        | .leaf l => .ok ((l.advance k).1, .leaf (l.advance k).2)
        | .pleaf names pl it =>
          pleafLift names pl (B6.Model.Posting.advance pl ⟨names⟩ (postingKey names k) it)
        | .union st => liftRes .union (Union.advance sub k st)
        | .inter its => liftRes .inter (Inter.advance sub fuel k its)
        | .range st => liftRes .range (Range.advance sub k st)
        | .tprefix it => liftRes .tprefix (sub.advance k it)
      value := fun
        | .empty => none
        | .leaf l => l.value
        | .pleaf _ pl it => pleafValue pl it
        | .union st => Union.value st
        | .inter its => Inter.value sub its
        | .range st => sub.value st.it
        | .tprefix it => sub.value it
      estimate := fun
        | .empty => 0
        | .leaf l => l.estimate
        | .pleaf _ pl it => (pl.ids.length - it.i) / 3
        | .union st => Union.estimate sub st
        | .inter its => Inter.estimate sub its
        | .range st => sub.estimate st.it
        | .tprefix it => sub.estimate it
      dom := K }

/-! ## Queries and their compilation (`search.Query.Compile`) -/

/-- key `TypeAndNamespace * 2^64 + value` → `(TypeAndNamespace, value)` -/
def unkey (k : Nat) : B6.Model.Posting.Id := (k / 2 ^ 64, k % 2 ^ 64)

/-- the iterator an index hands out for one posting list: an array / tree cursor, or — compact — the
`compact.Iterator` over the bytes `PostingList.Fill` writes for the list -/
def mkLeaf (ix : Index) (xs : List Nat) : Iter :=
  match ix.kind with
  | .compact => .pleaf ix.names (B6.Model.Posting.fill [] (xs.map unkey)) B6.Model.Posting.It.start
  | k => .leaf ⟨k, xs, 0⟩

/-- `index.Begin(token)` -/
def indexBegin (ix : Index) (t : Token) : Iter :=
  match ix.lookup t with
  | some xs => mkLeaf ix xs
  | none => .empty

/-- `tokens.Advance(prefix)` then `for strings.HasPrefix(tokens.Token(), prefix) { …; tokens.Next() }`:
`none` when `Advance` returns false, else the posting lists of the run of tokens with the prefix. -/
def prefixRun (ix : Index) (p : Token) : Option (List (Token × List Nat)) :=
  match ix.lists.dropWhile (fun e => decide (e.1 < p)) with
  | [] => none
  | l => some (l.takeWhile (fun e => p.isPrefixOf e.1))

mutual
/-- nesting depth of the iterator tree the query compiles to -/
def depth : SQuery → Nat
  | .empty => 0
  | .all _ => 0
  | .union qs => depthList qs + 1
  | .inter qs => depthList qs + 1
  | .keyRange _ _ q => depth q + 1
  | .tokenPrefix _ => 2
def depthList : List SQuery → Nat
  | [] => 0
  | q :: qs => max (depth q) (depthList qs)
end

mutual
/-- `Query.Compile(index)` -/
def compile (fuel : Nat) (ix : Index) : SQuery → Iter
  | .empty => .empty
  | .all t => indexBegin ix t
  | .union qs => .union (.fresh (compileList fuel ix qs))
  | .inter qs => .inter (Inter.new (ops (fun _ => True) fuel (depthList qs)) (compileList fuel ix qs))
  | .keyRange b e q => .range ⟨compile fuel ix q, b, e, false⟩
  | .tokenPrefix p =>
    match prefixRun ix p with
    | none => .empty
    | some run => .tprefix (.union (.fresh (run.map fun e => mkLeaf ix e.2)))
def compileList (fuel : Nat) (ix : Index) : List SQuery → List Iter
  | [] => []
  | q :: qs => compile fuel ix q :: compileList fuel ix qs
end

end B6.Model.Search
