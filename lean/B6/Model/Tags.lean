import B6.Spec.OrderedMap
/-!
# Model of `b6.Tags` (world.go) — C39

`Tags` is a Go slice of `Tag{Key, Value}`.  Values are opaque strings here (the property is about
the list structure).  The in-loop deletion of `RemoveTag`

    for i, tag := range *t { if tag.Key == key { *t = append((*t)[:i], (*t)[i+1:]...) } }

is modelled on a Go-slice model (backing array + length): `range` evaluates the slice header once,
so `i` runs over the ORIGINAL length and `tag` is read from the CURRENT backing array at `i`.
-/
namespace B6.Model.Tags

abbrev Tag := String × String
abbrev Tags := List Tag

/-- `Tags.Get`: first tag with the key (Go returns `InvalidTag()` when absent). -/
def get (t : Tags) (k : String) : Option String :=
  match t with
  | [] => none
  | (k', v) :: rest => if k' = k then some v else get rest k

/-- `Tags.AddTag`: plain append. -/
def addTag (t : Tags) (tag : Tag) : Tags := t ++ [tag]

/-- the loop of `ModifyOrAddTag`: replace the value of the first tag with the key. `none` = not found. -/
def modify (t : Tags) (tag : Tag) : Option (Tags × String) :=
  match t with
  | [] => none
  | (k', v) :: rest =>
    if k' = tag.1 then some ((k', tag.2) :: rest, v)
    else match modify rest tag with
      | none => none
      | some (rest', old) => some ((k', v) :: rest', old)

/-- `Tags.ModifyOrAddTag`: returns the new list, whether it modified, and the old value. -/
def modifyOrAddTag (t : Tags) (tag : Tag) : Tags × Bool × String :=
  match modify t tag with
  | some (t', old) => (t', true, old)
  | none => (addTag t tag, false, "")

/-! ## Go-slice level -/

/-- A Go slice header over a backing array: `len ≤ back.length` (capacity = `back.length`). -/
structure GoSlice where
  back : List Tag
  len : Nat
deriving Repr, DecidableEq

def GoSlice.toList (s : GoSlice) : Tags := s.back.take s.len

def GoSlice.ofList (t : Tags) : GoSlice := ⟨t, t.length⟩

/-- `*t = append((*t)[:i], (*t)[i+1:]...)`; `none` = Go's slice-bounds panic (`i+1 > len`). -/
def GoSlice.cut (s : GoSlice) (i : Nat) : Option GoSlice :=
  if i + 1 > s.len then none else
  let tail := (s.back.drop (i + 1)).take (s.len - (i + 1))
  some { back := s.back.take i ++ tail ++ s.back.drop (s.len - 1), len := s.len - 1 }

/-- the body of `RemoveTag` for index `i`, `i+1`, …, `n-1` (`n` = the length when `range` started). -/
def removeLoop (k : String) (n : Nat) : (fuel : Nat) → (i : Nat) → GoSlice → Option GoSlice
  | 0, _, s => some s
  | fuel + 1, i, s =>
    if i ≥ n then some s else
    match s.back[i]? with
    | none => none   -- cannot happen: the backing array never shrinks
    | some tag =>
      if tag.1 = k then
        match s.cut i with
        | none => none
        | some s' => removeLoop k n fuel (i + 1) s'
      else removeLoop k n fuel (i + 1) s

/-- `Tags.RemoveTag` as written, on a slice header with arbitrary spare capacity (`range` fixes
`n = len` before the first iteration). `none` = panic. -/
def GoSlice.removeTag (s : GoSlice) (k : String) : Option GoSlice :=
  removeLoop k s.len s.len 0 s

/-- `Tags.RemoveTag` as written, on the value of a slice with `cap = len`. `none` = panic.
(`remove_tag_slice_spec` shows spare capacity makes no difference.) -/
def removeTag (t : Tags) (k : String) : Option Tags :=
  ((GoSlice.ofList t).removeTag k).map GoSlice.toList

/-- `Tags.RemoveTags` (after the `fix:` commit): one `RemoveTag` per key, in order. -/
def removeTags (t : Tags) (ks : List String) : Option Tags :=
  ks.foldlM removeTag t

/-- `Tags.Clone`: a fresh copy. -/
def clone (t : Tags) : Tags := t

/-- `Tags.MergeFrom`: the receiver becomes a copy of `other`. -/
def mergeFrom (_t : Tags) (other : Tags) : Tags := other

/-! ## Operation sequences -/

open B6.Spec.OrderedMap (Op Out)

/-- one API call on the model; `none` = the call panics -/
def step (t : Tags) : Op → Option (Tags × Out)
  | .get k => some (t, .found (get t k))
  | .set tag =>
    let r := modifyOrAddTag t tag
    some (r.1, .modified r.2.1 r.2.2)
  | .add tag => some (addTag t tag, .unit)
  | .rm k => (removeTag t k).map (·, .unit)
  | .rms ks => (removeTags t ks).map (·, .unit)
  | .merge o => some (mergeFrom t o, .unit)
  | .clone => some (clone t, .unit)

/-- run an operation sequence; `none` as soon as one call panics -/
def run (t : Tags) : List Op → Option (Tags × List Out)
  | [] => some (t, [])
  | op :: ops =>
    match step t op with
    | none => none
    | some (t', o) =>
      match run t' ops with
      | none => none
      | some (t'', os) => some (t'', o :: os)

end B6.Model.Tags
