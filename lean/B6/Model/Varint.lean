/-!
# L0 varint — Go `encoding/binary` varints, fixed-width little-endian integers, zigzag (core Lean only)

Shared layer (C08, C09, C10, C11, C27 import this read-only).  Executable, total, structural
recursion only (so `decide`/`rfl` can run the definitions on literals).

* `putUvarint v`            = the bytes `binary.PutUvarint(buf, v)` writes (`v : Nat`, meant for `v < 2^64`).
* `uvarintRaw bs`           = exactly what `binary.Uvarint(bs)` returns: `(value, n)` with `n > 0` bytes read,
                              `n = 0` buffer too small (value 0), `n < 0` overflow after `-n` bytes (value 0).
* `uvarint bs`              = `some (value, bytesRead)` on success, `none` on truncation / overflow.
* `putVarint x` / `varint`  = `binary.PutVarint` / `binary.Varint` on `BitVec 64` (two's-complement int64).
* `marshalUint64 v l`, `unmarshalUint64 l buf`, `uint64Length v` = `encoding.MarshalUint64` etc. (ints.go).
* `zigzagEncode` / `zigzagDecode` on `BitVec 64` = `encoding.ZigzagEncode/ZigzagDecode` (ints.go; the decode
  mirrors the repaired code: logical shift, see fixes/C10-zigzag-decode.patch).

The lemmas (prefix-code property etc.) are in `B6/Lemmas/Varint.lean`.
-/
namespace B6.Model.Varint

abbrev Bytes := List UInt8

/-! ## Uvarint -/

/-- `binary.PutUvarint` with `fuel` continuation bytes still allowed.  `putUvarint` uses fuel 9, which
is exact for every `v < 2^64` (at most 9 continuation bytes + 1 final byte). -/
def putUvarintFuel : (fuel : Nat) → (v : Nat) → Bytes
  | 0, v => [v.toUInt8]
  | f + 1, v => if v < 128 then [v.toUInt8] else (v % 128 + 128).toUInt8 :: putUvarintFuel f (v / 128)

/-- bytes written by `binary.PutUvarint(buf, v)` for `v < 2^64`. -/
def putUvarint (v : Nat) : Bytes := putUvarintFuel 9 v

/-- `binary.MaxVarintLen64` -/
def maxVarintLen64 : Nat := 10

/-- loop of `binary.Uvarint`: `s` = shift, `x` = accumulator, `i` = index of the byte looked at. -/
def uvarintRawAux : Bytes → (s x i : Nat) → Nat × Int
  | [], _, _, _ => (0, 0)
  | b :: bs, s, x, i =>
    if i = 10 then (0, -((i : Int) + 1))
    else if b.toNat < 128 then
      if i = 9 ∧ b.toNat > 1 then (0, -((i : Int) + 1)) else (x + b.toNat * 2 ^ s, (i : Int) + 1)
    else uvarintRawAux bs (s + 7) (x + (b.toNat - 128) * 2 ^ s) (i + 1)

/-- exactly the pair `binary.Uvarint(bs)` returns. -/
def uvarintRaw (bs : Bytes) : Nat × Int := uvarintRawAux bs 0 0 0

/-- `binary.Uvarint` as an option: `(value, bytes read)`; `none` = buffer too small or 64-bit overflow. -/
def uvarint (bs : Bytes) : Option (Nat × Nat) :=
  let r := uvarintRaw bs
  if r.2 > 0 then some (r.1, r.2.toNat) else none

/-! ## Varint (signed) on two's-complement 64-bit values -/

/-- the `uint64` that `binary.PutVarint` hands to `PutUvarint`: `ux := uint64(x) << 1; if x < 0 { ux = ^ux }` -/
def varintZig (x : BitVec 64) : BitVec 64 :=
  if x.msb then ~~~(x <<< 1) else x <<< 1

/-- what `binary.Varint` does to the decoded `uint64`: `x := int64(ux >> 1); if ux&1 != 0 { x = ^x }` -/
def varintZag (ux : BitVec 64) : BitVec 64 :=
  if ux &&& 1#64 ≠ 0#64 then ~~~(ux >>> 1) else ux >>> 1

def putVarint (x : BitVec 64) : Bytes := putUvarint (varintZig x).toNat

/-- exactly `binary.Varint(bs)` (it continues in the presence of an error, like the Go code). -/
def varintRaw (bs : Bytes) : BitVec 64 × Int :=
  let r := uvarintRaw bs
  (varintZag (BitVec.ofNat 64 r.1), r.2)

def varint (bs : Bytes) : Option (BitVec 64 × Nat) :=
  match uvarint bs with
  | some (ux, n) => some (varintZag (BitVec.ofNat 64 ux), n)
  | none => none

/-- `int64` argument given as an `Int` (wraps like a Go conversion). -/
def putVarintInt (x : Int) : Bytes := putVarint (BitVec.ofInt 64 x)

def varintInt (bs : Bytes) : Option (Int × Nat) :=
  match varint bs with
  | some (x, n) => some (x.toInt, n)
  | none => none

/-! ## Fixed-width little-endian integers (encoding/ints.go) -/

/-- `encoding.Uint64Length`: bytes needed for `v` (1..8). -/
def uint64Length (v : Nat) : Nat :=
  if v < 2 ^ 8 then 1 else if v < 2 ^ 16 then 2 else if v < 2 ^ 24 then 3 else if v < 2 ^ 32 then 4
  else if v < 2 ^ 40 then 5 else if v < 2 ^ 48 then 6 else if v < 2 ^ 56 then 7 else 8

/-- the `l` bytes `encoding.MarshalUint64(v, l, buffer)` writes: `byte(v & 0xff); v >>= 8`, `l` times. -/
def marshalUint64 (v : Nat) : (l : Nat) → Bytes
  | 0 => []
  | l + 1 => (v % 256).toUInt8 :: marshalUint64 (v / 256) l

/-- little-endian value of a byte list (unbounded). -/
def leValue : Bytes → Nat
  | [] => 0
  | b :: bs => b.toNat + 256 * leValue bs

/-- `encoding.UnmarshalUint64(l, buffer)`; `none` = Go panics (`l = 0` indexes `buffer[-1]`, `l > len`
indexes past the end).  The Go accumulator is a `uint64`, hence the `% 2^64` (only visible for `l > 8`). -/
def unmarshalUint64 (l : Nat) (buf : Bytes) : Option Nat :=
  if l = 0 ∨ buf.length < l then none else some (leValue (buf.take l) % 2 ^ 64)

/-! ## Zigzag (encoding/ints.go) -/

/-- `ZigzagEncode(value int64) uint64 = uint64(value<<1) ^ uint64(value>>63)` (`>>` arithmetic on int64). -/
def zigzagEncode (x : BitVec 64) : BitVec 64 := (x <<< 1) ^^^ (x.sshiftRight 63)

/-- `ZigzagDecode(value uint64) int64 = int64(value>>1) ^ -int64(value&1)` (repaired code: logical shift). -/
def zigzagDecode (v : BitVec 64) : BitVec 64 := (v >>> 1) ^^^ (-(v &&& 1#64))

/-- the code before the repair: `(int64(value) >> 1) ^ (-(int64(value) & 1))` — arithmetic shift. -/
def zigzagDecodeArith (v : BitVec 64) : BitVec 64 := (v.sshiftRight 1) ^^^ (-(v &&& 1#64))

/-! ## `BitVec 64` conveniences -/

def putUvarint64 (v : BitVec 64) : Bytes := putUvarint v.toNat

def uvarint64 (bs : Bytes) : Option (BitVec 64 × Nat) :=
  match uvarint bs with
  | some (v, n) => some (BitVec.ofNat 64 v, n)
  | none => none

end B6.Model.Varint
