import B6.Lemmas.RefOverlay
/-!
C15: `BasicMutableWorld.AddFeature` and `MutableOverlayWorld.AddFeature` / `Snapshot` keep the reference
index the inverse of the features (and the overlay's copy discipline `UpClosed`), for every history.
-/
namespace B6.Lemmas.RefWorld
open B6.Model.RefIndex B6.Spec.Referrers B6.Lemmas.RefIndex B6.Lemmas.RefDfs B6.Lemmas.RefOverlay

/-- no two features share an ID -/
def Uniq (fs : List Feature) : Prop := (fs.map (·.id)).Nodup

theorem uniq_eq {fs : List Feature} (hu : Uniq fs) {g h : Feature} (hg : g ∈ fs) (hh : h ∈ fs) (e : g.id = h.id) :
    g = h := by
  induction fs with
  | nil => cases hg
  | cons a l ih =>
    unfold Uniq at hu
    simp only [List.map_cons, List.nodup_cons] at hu
    rcases List.mem_cons.mp hg with rfl | hg' <;> rcases List.mem_cons.mp hh with rfl | hh'
    · rfl
    · exact absurd (List.mem_map.mpr ⟨h, hh', e.symm⟩) hu.1
    · exact absurd (List.mem_map.mpr ⟨g, hg', e⟩) hu.1
    · exact ih hu.2 hg' hh'

theorem findFeature_some {fs : List Feature} {id : Id} {f : Feature} (h : findFeature fs id = some f) :
    f ∈ fs ∧ f.id = id := by
  unfold findFeature at h
  exact ⟨List.mem_of_find?_eq_some h, by simpa using List.find?_some h⟩

theorem findFeature_of_mem {fs : List Feature} (hu : Uniq fs) {f : Feature} (hf : f ∈ fs) :
    findFeature fs f.id = some f := by
  cases h : findFeature fs f.id with
  | none =>
    have := (hasFeature_iff fs f.id).mpr ⟨f, hf, rfl⟩
    simp [hasFeature, h] at this
  | some g =>
    obtain ⟨hg, hid⟩ := findFeature_some h
    rw [uniq_eq hu hg hf hid]

theorem mem_put {fs : List Feature} (hu : Uniq fs) {f g : Feature} :
    g ∈ putFeature fs f ↔ (g = f ∨ (g ∈ fs ∧ g.id ≠ f.id)) := by
  induction fs with
  | nil => simp [putFeature]
  | cons a l ih =>
    have hu' := hu
    unfold Uniq at hu'
    simp only [List.map_cons, List.nodup_cons] at hu'
    simp only [putFeature]
    by_cases ha : a.id = f.id
    · simp only [ha, ↓reduceIte, List.mem_cons]
      constructor
      · rintro (h | h)
        · exact Or.inl h
        · refine Or.inr ⟨Or.inr h, ?_⟩
          intro e
          exact hu'.1 (List.mem_map.mpr ⟨g, h, by rw [e, ha]⟩)
      · rintro (h | ⟨h1 | h1, h2⟩)
        · exact Or.inl h
        · subst h1; exact absurd ha h2
        · exact Or.inr h1
    · simp only [ha, ↓reduceIte, List.mem_cons, ih hu'.2]
      constructor
      · rintro (h | h | ⟨h1, h2⟩)
        · subst h; exact Or.inr ⟨Or.inl rfl, ha⟩
        · exact Or.inl h
        · exact Or.inr ⟨Or.inr h1, h2⟩
      · rintro (h | ⟨h1 | h1, h2⟩)
        · exact Or.inr (Or.inl h)
        · exact Or.inl h1
        · exact Or.inr (Or.inr ⟨h1, h2⟩)

theorem put_ids_perm (fs : List Feature) (f : Feature) :
    ∀ i, i ∈ (putFeature fs f).map (·.id) ↔ (i = f.id ∨ i ∈ fs.map (·.id)) := by
  intro i
  induction fs with
  | nil => simp [putFeature]
  | cons a l ih =>
    simp only [putFeature]
    by_cases ha : a.id = f.id
    · simp only [ha, ↓reduceIte, List.map_cons, List.mem_cons]
      constructor
      · rintro (h | h); exact Or.inl h; exact Or.inr (Or.inr h)
      · rintro (h | h | h); exact Or.inl h; exact Or.inl h; exact Or.inr h
    · simp only [ha, ↓reduceIte, List.map_cons, List.mem_cons, ih]
      constructor
      · rintro (h | h | h); exact Or.inr (Or.inl h); exact Or.inl h; exact Or.inr (Or.inr h)
      · rintro (h | h | h); exact Or.inr (Or.inl h); exact Or.inl h; exact Or.inr (Or.inr h)

theorem uniq_put {fs : List Feature} (hu : Uniq fs) (f : Feature) : Uniq (putFeature fs f) := by
  induction fs with
  | nil => simp [putFeature, Uniq]
  | cons a l ih =>
    have hu' := hu
    unfold Uniq at hu'
    simp only [List.map_cons, List.nodup_cons] at hu'
    simp only [putFeature]
    by_cases ha : a.id = f.id
    · simp only [ha, ↓reduceIte]
      unfold Uniq
      simp only [List.map_cons, List.nodup_cons]
      exact ⟨by rw [← ha]; exact hu'.1, hu'.2⟩
    · simp only [ha, ↓reduceIte]
      unfold Uniq
      simp only [List.map_cons, List.nodup_cons]
      refine ⟨?_, ih hu'.2⟩
      intro hm
      rcases (put_ids_perm l f a.id).mp hm with h | h
      · exact ha h
      · exact hu'.1 h

/-- `removeAll` of versions that are the only ones of their IDs -/
theorem removeAll_inv : ∀ (R : List Feature) (ix : Index) (S : List Feature), Inv ix S →
    (∀ g ∈ R, ∀ h ∈ S, h.id = g.id → h = g) →
    ∃ ix', removeAll ix R = some ix' ∧ Inv ix' (S.filter fun h => decide (h.id ∉ R.map (·.id))) := by
  intro R
  induction R with
  | nil => intro ix S hi _; exact ⟨ix, rfl, Inv_congr (by intro g; simp) hi⟩
  | cons g R ih =>
    intro ix S hi hR
    obtain ⟨ix1, h1, hi1⟩ := Inv_remove hi g (fun h hh e => hR g List.mem_cons_self h hh e)
    obtain ⟨ix2, h2, hi2⟩ := ih ix1 _ hi1 (fun g' hg' h hh e =>
      hR g' (List.mem_cons_of_mem _ hg') h (List.mem_filter.mp hh).1 e)
    refine ⟨ix2, by simp only [removeAll, h1]; exact h2, ?_⟩
    apply Inv_congr _ hi2
    intro x
    simp only [List.mem_filter, List.map_cons, List.mem_cons, decide_eq_true_eq, not_or]
    constructor
    · rintro ⟨⟨h1, h2⟩, h3⟩; exact ⟨h1, h2, h3⟩
    · rintro ⟨h1, h2, h3⟩; exact ⟨⟨h1, h2⟩, h3⟩

theorem mem_current {fs : List Feature} {ids : List Id} {g : Feature} (h : g ∈ current fs ids) :
    g ∈ fs ∧ g.id ∈ ids := by
  unfold current at h
  obtain ⟨i, hi, hf⟩ := List.mem_filterMap.mp h
  obtain ⟨h1, h2⟩ := findFeature_some hf
  exact ⟨h1, by rw [h2]; exact hi⟩

theorem current_mem {fs : List Feature} (hu : Uniq fs) {ids : List Id} {g : Feature} (hg : g ∈ fs) (hi : g.id ∈ ids) :
    g ∈ current fs ids :=
  List.mem_filterMap.mpr ⟨g.id, hi, findFeature_of_mem hu hg⟩

/-- the invariant of a basic mutable world -/
def WInv (w : World) : Prop := Inv w.ix w.feats ∧ Uniq w.feats

/-- **`BasicMutableWorld.AddFeature` (`ModifiedFeatures.Update`) keeps the index the inverse of the
features** — and never panics in `RemoveFeature`. -/
theorem world_add_inv (w : World) (f : Feature) (hw : WInv w) :
    ∃ w', w.add f = some w' ∧ WInv w' ∧ w'.feats = putFeature w.feats f := by
  obtain ⟨hi, hu⟩ := hw
  obtain ⟨refIds, hfind, _, _⟩ := basicFind_spec hi f.id []
  unfold World.add
  simp only [hfind]
  -- the versions whose references are removed all live in the world
  have hR : ∀ g ∈ (findFeature w.feats f.id).toList ++ current w.feats refIds, g ∈ w.feats := by
    intro g hg
    rcases List.mem_append.mp hg with hg | hg
    · cases hf : findFeature w.feats f.id with
      | none => simp [hf] at hg
      | some e => simp only [hf, Option.toList_some, List.mem_singleton] at hg; subst hg; exact (findFeature_some hf).1
    · exact (mem_current hg).1
  obtain ⟨ix1, h1, hi1⟩ := removeAll_inv _ w.ix w.feats hi
    (fun g hg h hh e => uniq_eq hu hh (hR g hg) e)
  simp only [h1]
  refine ⟨_, rfl, ⟨?_, uniq_put hu f⟩, rfl⟩
  have hu' := uniq_put hu f
  have hi2 := Inv_fill_aux (f :: current (putFeature w.feats f) refIds) ix1 _ hi1
  apply Inv_congr _ hi2
  intro g
  rw [mem_put hu]
  simp only [List.mem_append, List.mem_reverse, List.mem_cons, List.mem_filter, decide_eq_true_eq]
  constructor
  · rintro ((h | h) | ⟨h1', h2'⟩)
    · exact Or.inl h
    · exact (mem_put hu).mp (mem_current h).1
    · by_cases hgf : g.id = f.id
      · exfalso
        apply h2'
        have hex := findFeature_of_mem hu h1'
        rw [hgf] at hex
        simp [hex]
      · exact Or.inr ⟨h1', hgf⟩
  · rintro (h | ⟨h1', h2'⟩)
    · exact Or.inl (Or.inl h)
    · by_cases hin : g.id ∈ refIds
      · exact Or.inl (Or.inr (current_mem hu' ((mem_put hu).mpr (Or.inr ⟨h1', h2'⟩)) hin))
      · refine Or.inr ⟨h1', ?_⟩
        intro hm
        obtain ⟨x, hx, hxid⟩ := List.mem_map.mp hm
        rcases List.mem_append.mp hx with hx | hx
        · cases hf : findFeature w.feats f.id with
          | none => simp [hf] at hx
          | some e =>
            simp only [hf, Option.toList_some, List.mem_singleton] at hx
            subst hx
            exact h2' (by rw [← hxid]; exact (findFeature_some hf).2)
        · exact hin (by rw [← hxid]; exact (mem_current hx).2)

/-! ## MutableOverlayWorld.AddFeature -/

theorem has_false_iff (fs : List Feature) (id : Id) : hasFeature fs id = false ↔ ∀ g ∈ fs, g.id ≠ id := by
  constructor
  · intro h g hg e
    have := (hasFeature_iff fs id).mpr ⟨g, hg, e⟩
    rw [h] at this; cases this
  · intro h
    cases hh : hasFeature fs id with
    | false => rfl
    | true => obtain ⟨g, hg, e⟩ := (hasFeature_iff fs id).mp hh; exact absurd e (h g hg)

theorem fold_put (L : List Feature) : ∀ (fs : List Feature), Uniq fs → Uniq L →
    (∀ c ∈ L, hasFeature fs c.id = false) →
    Uniq (L.foldl putFeature fs) ∧ ∀ g, g ∈ L.foldl putFeature fs ↔ (g ∈ fs ∨ g ∈ L) := by
  induction L with
  | nil => intro fs hu _ _; exact ⟨hu, by simp⟩
  | cons c L ih =>
    intro fs hu hL hno
    have hL' := hL
    unfold Uniq at hL'
    simp only [List.map_cons, List.nodup_cons] at hL'
    have hc := (has_false_iff fs c.id).mp (hno c List.mem_cons_self)
    have hno1 : ∀ c' ∈ L, hasFeature (putFeature fs c) c'.id = false := by
      intro c' hc'
      rw [has_false_iff]
      intro g hg e
      rcases (mem_put hu).mp hg with rfl | ⟨hg, _⟩
      · exact hL'.1 (List.mem_map.mpr ⟨c', hc', e.symm⟩)
      · exact (has_false_iff fs c'.id).mp (hno c' (List.mem_cons_of_mem _ hc')) g hg e
    obtain ⟨h1, h2⟩ := ih (putFeature fs c) (uniq_put hu c) hL'.2 hno1
    refine ⟨h1, ?_⟩
    intro g
    simp only [List.foldl_cons]
    rw [h2 g, mem_put hu]
    constructor
    · rintro ((h | ⟨h, _⟩) | h)
      · exact Or.inr (by rw [h]; exact List.mem_cons_self)
      · exact Or.inl h
      · exact Or.inr (List.mem_cons_of_mem _ h)
    · rintro (h | h)
      · exact Or.inl (Or.inr ⟨h, hc g h⟩)
      · rcases List.mem_cons.mp h with h | h
        · exact Or.inl (Or.inl h)
        · exact Or.inr h

theorem filterMap_ids_sublist (base : List Feature) : ∀ (l : List Id),
    ((l.filterMap (findFeature base)).map (·.id)).Sublist l := by
  intro l
  induction l with
  | nil => exact List.Sublist.refl _
  | cons r l ih =>
    simp only [List.filterMap_cons]
    cases h : findFeature base r with
    | none => exact ih.cons _
    | some c =>
      simp only [List.map_cons]
      rw [(findFeature_some h).2]
      exact ih.cons_cons _

/-- the invariant of a mutable overlay world over a flat base -/
def OInv (o : Overlay) : Prop := Inv o.ix o.feats ∧ Uniq o.feats ∧ Uniq o.base ∧ UpClosed o

theorem oinv_init (base : List Feature) (hb : Uniq base) : OInv ⟨base, [], []⟩ :=
  ⟨Inv_empty, by simp [Uniq], hb, by intro y _ _ t _; rfl⟩

/-- `MutableOverlayWorld.FindReferences` answers, without repetitions, in every state -/
theorem find_terminates (o : Overlay) (id : Id) (typed : List Nat) :
    ∃ L, o.find id typed = some L ∧ L.Nodup := by
  obtain ⟨B, hB, _, _⟩ := basicFind_spec (Inv_fill o.base) id []
  obtain ⟨A, hA, _⟩ := fold_collect o.ix typed (B.filter (fun b => !hasFeature o.feats b)) []
  obtain ⟨R, hR, _⟩ := findReferences_spec o.ix id typed
  have hcollect : o.collect id typed = some (A ++ R) := by
    simp only [Overlay.collect, baseFind, hB, hA, hR]
  exact ⟨dedup (((A ++ R).filter o.has).filter (typeOk typed)), by simp only [Overlay.find, hcollect], nodup_dedup _⟩

/-- the reference maintenance of `MutableOverlayWorld.AddFeature` keeps the overlay's index the inverse
of the overlay's features in EVERY state (no copy discipline needed for this part) -/
theorem overlay_add_index (o : Overlay) (f : Feature) (hi : Inv o.ix o.feats) (hu : Uniq o.feats)
    (hub : Uniq o.base) :
    ∃ o', o.add f = some o' ∧ Inv o'.ix o'.feats ∧ Uniq o'.feats ∧ o'.base = o.base := by
  obtain ⟨refIds, hfind, hnd⟩ := find_terminates o f.id []
  unfold Overlay.add
  simp only [hfind]
  -- names
  generalize hin : refIds.filter (hasFeature o.feats) = inOverlay
  generalize hcp : (refIds.filter (fun r => !hasFeature o.feats r && decide (r ≠ f.id))).filterMap (findFeature o.base) = copies
  have hcopy : ∀ c, c ∈ copies ↔ (c ∈ o.base ∧ c.id ∈ refIds ∧ hasFeature o.feats c.id = false ∧ c.id ≠ f.id) := by
    intro c
    rw [← hcp, List.mem_filterMap]
    constructor
    · rintro ⟨r, hr, hf⟩
      obtain ⟨h1, h2⟩ := findFeature_some hf
      obtain ⟨hr1, hr2⟩ := List.mem_filter.mp hr
      simp only [Bool.and_eq_true, Bool.not_eq_true', decide_eq_true_eq] at hr2
      subst h2
      exact ⟨h1, hr1, hr2.1, hr2.2⟩
    · rintro ⟨h1, h2, h3, h4⟩
      exact ⟨c.id, List.mem_filter.mpr ⟨h2, by simp [h3, h4]⟩, findFeature_of_mem hub h1⟩
  have hcopies_uniq : Uniq copies := by
    unfold Uniq
    rw [← hcp]
    exact List.Nodup.sublist (filterMap_ids_sublist o.base _) (List.Nodup.sublist List.filter_sublist hnd)
  have hR : ∀ g ∈ (findFeature o.feats f.id).toList ++ current o.feats inOverlay, g ∈ o.feats := by
    intro g hg
    rcases List.mem_append.mp hg with hg | hg
    · cases hf : findFeature o.feats f.id with
      | none => simp [hf] at hg
      | some e => simp only [hf, Option.toList_some, List.mem_singleton] at hg; subst hg; exact (findFeature_some hf).1
    · exact (mem_current hg).1
  obtain ⟨ix1, h1, hi1⟩ := removeAll_inv _ o.ix o.feats hi (fun g hg h hh e => uniq_eq hu hh (hR g hg) e)
  simp only [h1]
  obtain ⟨hu1, hm1⟩ := fold_put copies o.feats hu hcopies_uniq (fun c hc => ((hcopy c).mp hc).2.2.1)
  have hu' := uniq_put hu1 f
  have hmem' : ∀ g, g ∈ putFeature (copies.foldl putFeature o.feats) f ↔
      (g = f ∨ ((g ∈ o.feats ∨ g ∈ copies) ∧ g.id ≠ f.id)) := by
    intro g; rw [mem_put hu1, hm1 g]
  refine ⟨_, rfl, ?_, hu', rfl⟩
  · -- the index
    have hi2 := Inv_fill_aux (f :: (current (putFeature (copies.foldl putFeature o.feats) f) inOverlay ++ copies)) ix1 _ hi1
    apply Inv_congr _ hi2
    intro g
    rw [hmem' g]
    simp only [List.mem_append, List.mem_reverse, List.mem_cons, List.mem_filter, decide_eq_true_eq]
    constructor
    · rintro ((h | h | h) | ⟨h1', h2'⟩)
      · exact Or.inl h
      · exact (hmem' g).mp (mem_current h).1
      · exact Or.inr ⟨Or.inr h, ((hcopy g).mp h).2.2.2⟩
      · by_cases hgf : g.id = f.id
        · exfalso
          apply h2'
          have hex := findFeature_of_mem hu h1'
          rw [hgf] at hex
          simp [hex]
        · exact Or.inr ⟨Or.inl h1', hgf⟩
    · rintro (h | ⟨h1' | h1', h2'⟩)
      · exact Or.inl (Or.inl h)
      · by_cases hino : g.id ∈ inOverlay
        · exact Or.inl (Or.inr (Or.inl (current_mem hu' ((hmem' g).mpr (Or.inr ⟨Or.inl h1', h2'⟩)) hino)))
        · refine Or.inr ⟨h1', ?_⟩
          intro hm
          obtain ⟨x, hx, hxid⟩ := List.mem_map.mp hm
          rcases List.mem_append.mp hx with hx | hx
          · cases hf : findFeature o.feats f.id with
            | none => simp [hf] at hx
            | some e =>
              simp only [hf, Option.toList_some, List.mem_singleton] at hx
              subst hx
              exact h2' (by rw [← hxid]; exact (findFeature_some hf).2)
          · exact hino (by rw [← hxid]; exact (mem_current hx).2)
      · exact Or.inl (Or.inr (Or.inr h1'))

/-- `AddTag` / `RemoveTag` copying a base-only feature into the overlay (searchable tag): the copy is
indexed, so the overlay's index stays the inverse of the overlay's features -/
theorem copyUp_index (o : Overlay) (id : Id) (hi : Inv o.ix o.feats) (hu : Uniq o.feats) :
    Inv (o.copyUp id).ix (o.copyUp id).feats ∧ Uniq (o.copyUp id).feats ∧ (o.copyUp id).base = o.base := by
  unfold Overlay.copyUp
  cases h1 : findFeature o.feats id with
  | some g => exact ⟨hi, hu, rfl⟩
  | none =>
    cases h2 : findFeature o.base id with
    | none => exact ⟨hi, hu, rfl⟩
    | some f =>
      refine ⟨?_, uniq_put hu f, rfl⟩
      apply Inv_congr _ (Inv_add hi f)
      intro g
      rw [mem_put hu]
      have hfid := (findFeature_some h2).2
      constructor
      · intro hg
        rcases List.mem_cons.mp hg with rfl | hg
        · exact Or.inl rfl
        · refine Or.inr ⟨hg, ?_⟩
          intro e
          have := findFeature_of_mem hu hg
          rw [e, hfid, h1] at this; cases this
      · rintro (rfl | ⟨hg, _⟩)
        · exact List.mem_cons_self
        · exact List.mem_cons_of_mem _ hg

/-- **`MutableOverlayWorld.AddFeature` keeps the overlay's index the inverse of the overlay's
features and the copy discipline `UpClosed`.** -/
theorem overlay_add_inv (o : Overlay) (f : Feature) (ho : OInv o) :
    ∃ o', o.add f = some o' ∧ OInv o' ∧ o'.base = o.base := by
  obtain ⟨hi, hu, hub, hup⟩ := ho
  obtain ⟨refIds, hfind, hnd, hspec⟩ := overlay_find_spec o hi hup f.id []
  have hspec' : ∀ s, s ∈ refIds ↔ ReachPlus o.merged f.id s := by
    intro s; rw [hspec s]; simp [typeOk]
  unfold Overlay.add
  simp only [hfind]
  -- names
  generalize hin : refIds.filter (hasFeature o.feats) = inOverlay
  generalize hcp : (refIds.filter (fun r => !hasFeature o.feats r && decide (r ≠ f.id))).filterMap (findFeature o.base) = copies
  have hcopy : ∀ c, c ∈ copies ↔ (c ∈ o.base ∧ c.id ∈ refIds ∧ hasFeature o.feats c.id = false ∧ c.id ≠ f.id) := by
    intro c
    rw [← hcp, List.mem_filterMap]
    constructor
    · rintro ⟨r, hr, hf⟩
      obtain ⟨h1, h2⟩ := findFeature_some hf
      obtain ⟨hr1, hr2⟩ := List.mem_filter.mp hr
      simp only [Bool.and_eq_true, Bool.not_eq_true', decide_eq_true_eq] at hr2
      subst h2
      exact ⟨h1, hr1, hr2.1, hr2.2⟩
    · rintro ⟨h1, h2, h3, h4⟩
      exact ⟨c.id, List.mem_filter.mpr ⟨h2, by simp [h3, h4]⟩, findFeature_of_mem hub h1⟩
  have hcopies_uniq : Uniq copies := by
    unfold Uniq
    rw [← hcp]
    exact List.Nodup.sublist (filterMap_ids_sublist o.base _) (List.Nodup.sublist List.filter_sublist hnd)
  have hR : ∀ g ∈ (findFeature o.feats f.id).toList ++ current o.feats inOverlay, g ∈ o.feats := by
    intro g hg
    rcases List.mem_append.mp hg with hg | hg
    · cases hf : findFeature o.feats f.id with
      | none => simp [hf] at hg
      | some e => simp only [hf, Option.toList_some, List.mem_singleton] at hg; subst hg; exact (findFeature_some hf).1
    · exact (mem_current hg).1
  obtain ⟨ix1, h1, hi1⟩ := removeAll_inv _ o.ix o.feats hi (fun g hg h hh e => uniq_eq hu hh (hR g hg) e)
  simp only [h1]
  obtain ⟨hu1, hm1⟩ := fold_put copies o.feats hu hcopies_uniq (fun c hc => ((hcopy c).mp hc).2.2.1)
  have hu' := uniq_put hu1 f
  have hmem' : ∀ g, g ∈ putFeature (copies.foldl putFeature o.feats) f ↔
      (g = f ∨ ((g ∈ o.feats ∨ g ∈ copies) ∧ g.id ≠ f.id)) := by
    intro g; rw [mem_put hu1, hm1 g]
  refine ⟨_, rfl, ⟨?_, hu', hub, ?_⟩, rfl⟩
  · -- the index
    have hi2 := Inv_fill_aux (f :: (current (putFeature (copies.foldl putFeature o.feats) f) inOverlay ++ copies)) ix1 _ hi1
    apply Inv_congr _ hi2
    intro g
    rw [hmem' g]
    simp only [List.mem_append, List.mem_reverse, List.mem_cons, List.mem_filter, decide_eq_true_eq]
    constructor
    · rintro ((h | h | h) | ⟨h1', h2'⟩)
      · exact Or.inl h
      · exact (hmem' g).mp (mem_current h).1
      · exact Or.inr ⟨Or.inr h, ((hcopy g).mp h).2.2.2⟩
      · by_cases hgf : g.id = f.id
        · exfalso
          apply h2'
          have hex := findFeature_of_mem hu h1'
          rw [hgf] at hex
          simp [hex]
        · exact Or.inr ⟨Or.inl h1', hgf⟩
    · rintro (h | ⟨h1' | h1', h2'⟩)
      · exact Or.inl (Or.inl h)
      · by_cases hino : g.id ∈ inOverlay
        · exact Or.inl (Or.inr (Or.inl (current_mem hu' ((hmem' g).mpr (Or.inr ⟨Or.inl h1', h2'⟩)) hino)))
        · refine Or.inr ⟨h1', ?_⟩
          intro hm
          obtain ⟨x, hx, hxid⟩ := List.mem_map.mp hm
          rcases List.mem_append.mp hx with hx | hx
          · cases hf : findFeature o.feats f.id with
            | none => simp [hf] at hx
            | some e =>
              simp only [hf, Option.toList_some, List.mem_singleton] at hx
              subst hx
              exact h2' (by rw [← hxid]; exact (findFeature_some hf).2)
          · exact hino (by rw [← hxid]; exact (mem_current hx).2)
      · exact Or.inl (Or.inr (Or.inr h1'))
  · -- the copy discipline
    intro y hy hysh t ht
    simp only at hysh ⊢
    rw [has_false_iff] at hysh ⊢
    have hy_feats : hasFeature o.feats y.id = false := by
      rw [has_false_iff]
      intro g hg e
      by_cases hgf : g.id = f.id
      · exact hysh f ((hmem' f).mpr (Or.inl rfl)) (by rw [← hgf]; exact e)
      · exact hysh g ((hmem' g).mpr (Or.inr ⟨Or.inl hg, hgf⟩)) e
    have hy_merged : y ∈ o.merged := (mem_merged o y).mpr (Or.inr ⟨hy, hy_feats⟩)
    have hy_notf : y.id ≠ f.id := fun e => hysh f ((hmem' f).mpr (Or.inl rfl)) e.symm
    -- if `y` were a referrer of `f.id` in the layered world it would have been copied
    have hnotref : ¬ ReachPlus o.merged f.id y.id := by
      intro hr
      have hyc : y ∈ copies := (hcopy y).mpr ⟨hy, (hspec' y.id).mpr hr, hy_feats, hy_notf⟩
      exact hysh y ((hmem' y).mpr (Or.inr ⟨Or.inr hyc, hy_notf⟩)) rfl
    intro g hg e
    rcases (hmem' g).mp hg with rfl | ⟨hg' | hg', _⟩
    · -- t = f.id: y references the new feature's ID directly
      exact hnotref (.direct ⟨y, hy_merged, rfl, by rw [e]; exact ht⟩)
    · -- t already lived in the overlay
      have := hup y hy hy_feats t ht
      rw [has_false_iff] at this
      exact this g hg' e
    · -- t is one of the copied referrers
      have hgr : ReachPlus o.merged f.id g.id := (hspec' g.id).mp ((hcopy g).mp hg').2.1
      exact hnotref (.step hgr ⟨y, hy_merged, rfl, by rw [e]; exact ht⟩)

/-- every history of `AddFeature` on a mutable overlay world -/
def runAdds : Overlay → List Feature → Option Overlay
  | o, [] => some o
  | o, f :: fs => match o.add f with
    | some o' => runAdds o' fs
    | none => none

theorem runAdds_inv : ∀ (fs : List Feature) (o : Overlay), OInv o → ∃ o', runAdds o fs = some o' ∧ OInv o' := by
  intro fs
  induction fs with
  | nil => intro o ho; exact ⟨o, rfl, ho⟩
  | cons f fs ih =>
    intro o ho
    obtain ⟨o1, h1, ho1, _⟩ := overlay_add_inv o f ho
    obtain ⟨o2, h2, ho2⟩ := ih o1 ho1
    exact ⟨o2, by simp only [runAdds, h1]; exact h2, ho2⟩

def runWorldAdds : World → List Feature → Option World
  | w, [] => some w
  | w, f :: fs => match w.add f with
    | some w' => runWorldAdds w' fs
    | none => none

theorem runWorldAdds_inv : ∀ (fs : List Feature) (w : World), WInv w → ∃ w', runWorldAdds w fs = some w' ∧ WInv w' := by
  intro fs
  induction fs with
  | nil => intro w hw; exact ⟨w, rfl, hw⟩
  | cons f fs ih =>
    intro w hw
    obtain ⟨w1, h1, hw1, _⟩ := world_add_inv w f hw
    obtain ⟨w2, h2, hw2⟩ := ih w1 hw1
    exact ⟨w2, by simp only [runWorldAdds, h1]; exact h2, hw2⟩

theorem uniq_merged (o : Overlay) (hu : Uniq o.feats) (hb : Uniq o.base) : Uniq o.merged := by
  unfold Uniq Overlay.merged at *
  rw [List.map_append, List.nodup_append]
  refine ⟨hu, List.Nodup.sublist (List.Sublist.map _ List.filter_sublist) hb, ?_⟩
  intro a ha b hb' e
  subst e
  obtain ⟨g, hg, hgid⟩ := List.mem_map.mp ha
  obtain ⟨y, hy, hyid⟩ := List.mem_map.mp hb'
  have hsh := (List.mem_filter.mp hy).2
  have : hasFeature o.feats y.id = true := (hasFeature_iff _ _).mpr ⟨g, hg, by rw [hgid, hyid]⟩
  simp [this] at hsh

/-- edits of a mutable overlay world: `AddFeature` and `Snapshot` -/
inductive OOp where
  | add (f : Feature)
  | snap

def runOOps : Overlay → List OOp → Option Overlay
  | o, [] => some o
  | o, .add f :: ops => match o.add f with
    | some o' => runOOps o' ops
    | none => none
  | o, .snap :: ops => runOOps o.snapshot ops

theorem runOOps_inv : ∀ (ops : List OOp) (o : Overlay), OInv o → ∃ o', runOOps o ops = some o' ∧ OInv o' := by
  intro ops
  induction ops with
  | nil => intro o ho; exact ⟨o, rfl, ho⟩
  | cons op ops ih =>
    intro o ho
    cases op with
    | add f =>
      obtain ⟨o1, h1, ho1, _⟩ := overlay_add_inv o f ho
      obtain ⟨o2, h2, ho2⟩ := ih o1 ho1
      exact ⟨o2, by simp only [runOOps, h1]; exact h2, ho2⟩
    | snap =>
      obtain ⟨o2, h2, ho2⟩ := ih o.snapshot (oinv_init _ (uniq_merged o ho.2.1 ho.2.2.1))
      exact ⟨o2, by simp only [runOOps]; exact h2, ho2⟩

/-- edits of a mutable overlay world including the tag edits that copy a base feature up -/
inductive TOp where
  | add (f : Feature)
  | snap
  | copyUp (id : Id)

def runTOps : Overlay → List TOp → Option Overlay
  | o, [] => some o
  | o, .add f :: ops => match o.add f with
    | some o' => runTOps o' ops
    | none => none
  | o, .snap :: ops => runTOps o.snapshot ops
  | o, .copyUp id :: ops => runTOps (o.copyUp id) ops

theorem runTOps_index : ∀ (ops : List TOp) (o : Overlay), Inv o.ix o.feats → Uniq o.feats → Uniq o.base →
    ∃ o', runTOps o ops = some o' ∧ Inv o'.ix o'.feats ∧ Uniq o'.feats ∧ Uniq o'.base := by
  intro ops
  induction ops with
  | nil => intro o h1 h2 h3; exact ⟨o, rfl, h1, h2, h3⟩
  | cons op ops ih =>
    intro o h1 h2 h3
    cases op with
    | add f =>
      obtain ⟨o1, e1, i1, u1, b1⟩ := overlay_add_index o f h1 h2 h3
      obtain ⟨o2, e2, r⟩ := ih o1 i1 u1 (by rw [b1]; exact h3)
      exact ⟨o2, by simp only [runTOps, e1]; exact e2, r⟩
    | snap =>
      obtain ⟨o2, e2, r⟩ := ih o.snapshot Inv_empty (by simp [Uniq, Overlay.snapshot]) (uniq_merged o h2 h3)
      exact ⟨o2, by simp only [runTOps]; exact e2, r⟩
    | copyUp id =>
      obtain ⟨i1, u1, b1⟩ := copyUp_index o id h1 h2
      obtain ⟨o2, e2, r⟩ := ih (o.copyUp id) i1 u1 (by rw [b1]; exact h3)
      exact ⟨o2, by simp only [runTOps]; exact e2, r⟩

end B6.Lemmas.RefWorld
