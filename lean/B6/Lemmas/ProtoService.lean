import B6.Model.Proto.Service
/-!
Invariants of the lock-protocol model of the b6 service (C40).
Part 1: the RWMutex bookkeeping (`LockInv`) and the per-client phase discipline (`phaseOk`).
-/
namespace B6.Lemmas.ProtoService
open B6.Model.Proto B6.Model.Proto.Service

/-- holds the read lock -/
def isReader (c : Client) : Bool :=
  c.pc == Pc.find || c.pc == Pc.eval || c.pc == Pc.upRUnlock || c.pc == Pc.finalRUnlock

/-- holds the write lock -/
def isWriter (c : Client) : Bool := c.pc == Pc.apply || c.pc == Pc.wunlock

structure LockInv (s : State) : Prop where
  readers : s.readers = s.clients.countP isReader
  writers : s.clients.countP isWriter = (if s.writer then 1 else 0)
  excl : s.writer = true → s.readers = 0

/-- which program counters a request passes through, and what the client knows there -/
def phaseOk (c : Client) : Bool :=
  match c.req, c.pc with
  | .query _, .rlock | .query _, .find => c.obj.isNone && !c.logged
  | .query _, .eval | .query _, .finalRUnlock | .query _, .done => c.obj.isSome && c.logged
  | .change _ _, .rlock | .change _ _, .find => c.obj.isNone && !c.logged
  | .change _ _, .eval | .change _ _, .upRUnlock | .change _ _, .wlock | .change _ _, .apply => c.obj.isSome
  | .change _ _, .wunlock | .change _ _, .rlock2 | .change _ _, .finalRUnlock | .change _ _, .done =>
      c.obj.isSome && c.logged
  | .delete _, .mapop | .list, .mapop => c.obj.isNone && !c.logged
  | .delete _, .done | .list, .done => c.logged
  | _, _ => false

theorem countP_set' {α} (p : α → Bool) (l : List α) (i : Nat) (a b : α) (h : l[i]? = some a) :
    (l.set i b).countP p + (if p a then 1 else 0) = l.countP p + (if p b then 1 else 0) := by
  have hi : i < l.length := (List.getElem?_eq_some_iff.mp h).1
  have ha : l[i] = a := (List.getElem?_eq_some_iff.mp h).2
  rw [List.countP_set hi, ha]
  have : (if p a = true then 1 else 0) ≤ l.countP p := by
    split
    · rename_i hp
      have : a ∈ l := ha ▸ List.getElem_mem hi
      exact List.countP_pos_iff.mpr ⟨a, this, hp⟩
    · omega
  omega

theorem countP_flush (p : Client → Bool) (hp : ∀ c b, p { c with logged := b } = p c) (cs : List Client) (o : Nat) :
    (flushHolders cs o).countP p = cs.countP p := by
  unfold flushHolders
  rw [List.countP_map]
  congr 1
  funext c
  simp only [Function.comp]
  split
  · exact hp c true
  · rfl

theorem isReader_logged (c : Client) (b : Bool) : isReader { c with logged := b } = isReader c := rfl
theorem isWriter_logged (c : Client) (b : Bool) : isWriter { c with logged := b } = isWriter c := rfl

theorem isReader_flushElem (c : Client) (o : Nat) :
    isReader (if c.obj = some o ∧ c.logged = false then { c with logged := true } else c) = isReader c := by
  split <;> rfl
theorem isWriter_flushElem (c : Client) (o : Nat) :
    isWriter (if c.obj = some o ∧ c.logged = false then { c with logged := true } else c) = isWriter c := by
  split <;> rfl

theorem flush_getElem? (cs : List Client) (o i : Nat) (c : Client) (h : cs[i]? = some c) :
    (flushHolders cs o)[i]? = some (if c.obj = some o ∧ c.logged = false then { c with logged := true } else c) := by
  unfold flushHolders
  rw [List.getElem?_map, h]; rfl

/-- the shape of every step: client `i` moves from `c` to `c'`; everything else in the client list is as
before except for ghost flags -/
theorem lockInv_step (pref : Bool) (s s' : State) (h : LockInv s) (hs : s' ∈ step pref s) : LockInv s' := by
  obtain ⟨i, c, hc, hs⟩ := mem_forWorkers.mp hs
  have key : ∀ (c0 c' : Client) (cs : List Client) (r : Nat) (w : Bool),
      cs[i]? = some c0 → cs.countP isReader = s.clients.countP isReader → cs.countP isWriter = s.clients.countP isWriter →
      (r + (if isReader c0 then 1 else 0) = s.readers + (if isReader c' then 1 else 0)) →
      ((if w then 1 else 0) + (if isWriter c0 then 1 else 0) = (if s.writer then 1 else 0) + (if isWriter c' then 1 else 0)) →
      (w = true → r = 0) →
      ∀ s'', s''.readers = r → s''.writer = w → s''.clients = cs.set i c' → LockInv s'' := by
    intro c0 c' cs r w hci hr hw hrr hww hex s'' e1 e2 e3
    have h1 := countP_set' isReader cs i c0 c' hci
    have h2 := countP_set' isWriter cs i c0 c' hci
    have hR := h.readers
    have hW := h.writers
    refine ⟨?_, ?_, ?_⟩
    · rw [e1, e3]; omega
    · rw [e2, e3]; omega
    · rw [e1, e2]; exact hex
  unfold clientStep at hs
  cases hpc : c.pc <;> simp only [hpc] at hs
  · -- rlock
    simp only [mem_guard] at hs
    obtain ⟨hg, rfl⟩ := hs
    have hw : s.writer = false := by simp [canRLock] at hg; exact hg.1
    exact key c _ s.clients (s.readers + 1) s.writer hc rfl rfl (by simp [isReader, hpc]) (by simp [isWriter, hpc])
      (by simp [hw]) _ rfl rfl rfl
  · -- find
    cases hreq : c.req <;> simp only [hreq] at hs
    · split at hs <;> simp at hs <;> subst hs <;>
        exact key c _ s.clients s.readers s.writer hc rfl rfl (by simp [isReader, hpc]) (by simp [isWriter, hpc])
          h.excl _ rfl rfl rfl
    · split at hs <;> simp at hs <;> subst hs <;>
        exact key c _ s.clients s.readers s.writer hc rfl rfl (by simp [isReader, hpc]) (by simp [isWriter, hpc])
          h.excl _ rfl rfl rfl
    · simp at hs
    · simp at hs
  · -- eval
    split at hs
    · simp at hs; subst hs
      exact key c _ s.clients s.readers s.writer hc rfl rfl (by simp [isReader, hpc]) (by simp [isWriter, hpc])
        h.excl _ rfl rfl rfl
    · split at hs
      · simp at hs; subst hs
        exact key c _ s.clients s.readers s.writer hc rfl rfl (by simp [isReader, hpc]) (by simp [isWriter, hpc])
          h.excl _ rfl rfl rfl
      · simp at hs
    · simp at hs
  · -- upRUnlock
    simp at hs; subst hs
    have hpos : 0 < s.readers := by
      rw [h.readers]
      exact List.countP_pos_iff.mpr ⟨c, List.mem_of_getElem? hc, by simp [isReader, hpc]⟩
    exact key c _ s.clients (s.readers - 1) s.writer hc rfl rfl (by simp [isReader, hpc]; omega) (by simp [isWriter, hpc])
      (fun hw => by have := h.excl hw; omega) _ rfl rfl rfl
  · -- wlock
    simp only [mem_guard] at hs
    obtain ⟨hg, rfl⟩ := hs
    simp [canLock] at hg
    exact key c _ s.clients s.readers true hc rfl rfl (by simp [isReader, hpc]) (by simp [isWriter, hpc, hg.1])
      (fun _ => hg.2) _ rfl rfl rfl
  · -- apply
    split at hs
    · split at hs
      · simp at hs; subst hs
        exact key c _ s.clients s.readers s.writer hc rfl rfl (by simp [isReader, hpc]) (by simp [isWriter, hpc])
          h.excl _ rfl rfl rfl
      · simp at hs
    · simp at hs
  · -- wunlock
    simp at hs; subst hs
    have hw : s.writer = true := by
      have := h.writers
      have hpos : 0 < s.clients.countP isWriter :=
        List.countP_pos_iff.mpr ⟨c, List.mem_of_getElem? hc, by simp [isWriter, hpc]⟩
      cases hsw : s.writer
      · rw [hsw] at this; simp only [Bool.false_eq_true, ↓reduceIte] at this; omega
      · rfl
    exact key c _ s.clients s.readers false hc rfl rfl (by simp [isReader, hpc]) (by simp [isWriter, hpc, hw])
      (by simp) _ rfl rfl rfl
  · -- rlock2
    simp only [mem_guard] at hs
    obtain ⟨hg, rfl⟩ := hs
    have hw : s.writer = false := by simp [canRLock] at hg; exact hg.1
    exact key c _ s.clients (s.readers + 1) s.writer hc rfl rfl (by simp [isReader, hpc]) (by simp [isWriter, hpc])
      (by simp [hw]) _ rfl rfl rfl
  · -- finalRUnlock
    simp at hs; subst hs
    have hpos : 0 < s.readers := by
      rw [h.readers]
      exact List.countP_pos_iff.mpr ⟨c, List.mem_of_getElem? hc, by simp [isReader, hpc]⟩
    exact key c _ s.clients (s.readers - 1) s.writer hc rfl rfl (by simp [isReader, hpc]; omega) (by simp [isWriter, hpc])
      (fun hw => by have := h.excl hw; omega) _ rfl rfl rfl
  · -- mapop
    cases hreq : c.req <;> simp only [hreq] at hs
    · simp at hs
    · simp at hs
    · split at hs
      · rename_i o ho
        simp at hs; subst hs
        refine key _ _ (flushHolders s.clients o) s.readers s.writer (flush_getElem? _ _ _ _ hc)
          (countP_flush _ isReader_logged _ _) (countP_flush _ isWriter_logged _ _) ?_ ?_ h.excl _ rfl rfl rfl
        · rw [isReader_flushElem]; simp [isReader, hpc]
        · rw [isWriter_flushElem]; simp [isWriter, hpc]
      · simp at hs; subst hs
        exact key c _ s.clients s.readers s.writer hc rfl rfl (by simp [isReader, hpc]) (by simp [isWriter, hpc])
          h.excl _ rfl rfl rfl
    · simp at hs; subst hs
      exact key c _ s.clients s.readers s.writer hc rfl rfl (by simp [isReader, hpc]) (by simp [isWriter, hpc])
        h.excl _ rfl rfl rfl
  · -- done
    simp at hs

/-! ## Part 2: maps, views, the reference run -/

theorem mfind_append (m : List (Nat × Nat)) (w o wid : Nat) :
    mfind (m ++ [(w, o)]) wid = match mfind m wid with
      | some x => some x
      | none => if w = wid then some o else none := by
  induction m with
  | nil => simp [mfind]
  | cons p rest ih =>
    obtain ⟨i, x⟩ := p
    simp only [List.cons_append, mfind]
    by_cases h : i = wid
    · simp [h]
    · simp [h, ih]

theorem mfind_erase (m : List (Nat × Nat)) (w wid : Nat) :
    mfind (merase m w) wid = if wid = w then none else mfind m wid := by
  induction m with
  | nil => simp [merase, mfind]
  | cons p rest ih =>
    obtain ⟨i, x⟩ := p
    unfold merase at ih ⊢
    by_cases hi : i = w
    · simp [List.filter, hi, ih, mfind]
      by_cases h2 : wid = w
      · simp [h2]
      · have : ¬ w = wid := fun e => h2 e.symm
        simp [h2, this]
    · have hb : ((i, x).1 != w) = true := by simp [hi]
      simp only [List.filter, hb, mfind, ih]
      by_cases h2 : i = wid
      · have : ¬ wid = w := by rw [← h2]; exact hi
        simp [h2, this]
      · simp [h2]

theorem vfind_vset (v : View) (wid : Nat) (w : World) (wid' : Nat) :
    vfind (vset v wid w) wid' = if wid = wid' then some w else vfind v wid' := by
  induction v with
  | nil => simp [vset, vfind]
  | cons p rest ih =>
    obtain ⟨i, x⟩ := p
    unfold vset
    by_cases h : i = wid
    · simp only [h, ↓reduceIte, vfind]
      by_cases h2 : wid = wid' <;> simp [h2]
    · simp only [h, ↓reduceIte, vfind, ih]
      by_cases h2 : i = wid'
      · have : ¬ wid = wid' := by rw [← h2]; exact fun e => h e.symm
        simp [h2, this]
      · simp [h2]

theorem vfind_verase (v : View) (wid wid' : Nat) :
    vfind (verase v wid) wid' = if wid' = wid then none else vfind v wid' := by
  induction v with
  | nil => simp [verase, vfind]
  | cons p rest ih =>
    obtain ⟨i, x⟩ := p
    unfold verase at ih ⊢
    by_cases hi : i = wid
    · simp [List.filter, hi, ih, vfind]
      by_cases h2 : wid' = wid
      · simp [h2]
      · have : ¬ wid = wid' := fun e => h2 e.symm
        simp [h2, this]
    · have hb : ((i, x).1 != wid) = true := by simp [hi]
      simp only [List.filter, hb, vfind, ih]
      by_cases h2 : i = wid'
      · have : ¬ wid' = wid := by rw [← h2]; exact hi
        simp [h2, this]
      · simp [h2]

/-- which world a request touches -/
def Req.wid? : Req → Option Nat
  | .query w => some w
  | .change w _ => some w
  | .delete w => some w
  | .list => none

theorem serialStep_other (base : World) (A : View) (r : Req) (wid' : Nat) (h : Req.wid? r ≠ some wid') :
    vfind (serialStep base A r) wid' = vfind A wid' := by
  cases r with
  | query w =>
    have : ¬ w = wid' := fun e => h (by simp [Req.wid?, e])
    simp only [serialStep]
    split
    · rfl
    · rw [vfind_vset]; simp [this]
  | change w rs =>
    have : ¬ w = wid' := fun e => h (by simp [Req.wid?, e])
    simp only [serialStep]
    split <;> (rw [vfind_vset]; simp [this])
  | delete w =>
    have : ¬ wid' = w := fun e => h (by simp [Req.wid?, e])
    simp only [serialStep]
    rw [vfind_verase]; simp [this]
  | list => rfl

theorem serialStep_query (base : World) (A : View) (wid : Nat) :
    vfind (serialStep base A (.query wid)) wid = match vfind A wid with
      | some w => some w
      | none => some base := by
  simp only [serialStep]
  split
  · rename_i w h; simp [h]
  · rename_i h; rw [vfind_vset]; simp [h]

theorem serialStep_change (base : World) (A : View) (wid : Nat) (rs : List Rule) :
    vfind (serialStep base A (.change wid rs)) wid = match vfind A wid with
      | some w => some (applyWrites w (evalRules w rs))
      | none => some (applyWrites base (evalRules base rs)) := by
  simp only [serialStep]
  split
  · rename_i w h; rw [vfind_vset]; simp [h]
  · rename_i h; rw [vfind_vset]; simp [h]

theorem serialRun_append (base : World) (A : View) (l : List Req) (r : Req) :
    serialRun base A (l ++ [r]) = serialStep base (serialRun base A l) r := by
  simp [serialRun, List.foldl_append]

theorem serialRun_append' (base : World) (A : View) (l l' : List Req) :
    serialRun base A (l ++ l') = serialRun base (serialRun base A l) l' := by
  simp [serialRun, List.foldl_append]

theorem serialRun_other (base : World) (l : List Req) : ∀ (A : View) (wid' : Nat),
    (∀ r ∈ l, Req.wid? r ≠ some wid') → vfind (serialRun base A l) wid' = vfind A wid' := by
  induction l with
  | nil => intro A wid' _; rfl
  | cons r rest ih =>
    intro A wid' h
    simp only [serialRun, List.foldl_cons]
    have := ih (serialStep base A r) wid' (fun r' hr' => h r' (List.mem_cons_of_mem _ hr'))
    simp only [serialRun] at this
    rw [this, serialStep_other _ _ _ _ (h r (List.mem_cons_self ..))]

/-- the doomed changes of world `wid` followed by its deletion: `wid` is gone, nothing else moved -/
theorem serialRun_doomed (base : World) (A : View) (ds : List Req) (wid wid' : Nat)
    (hds : ∀ r ∈ ds, Req.wid? r = some wid) :
    vfind (serialRun base A (ds ++ [.delete wid])) wid' = if wid' = wid then none else vfind A wid' := by
  rw [serialRun_append]
  simp only [serialStep]
  rw [vfind_verase]
  by_cases h : wid' = wid
  · simp [h]
  · simp only [h, ↓reduceIte]
    apply serialRun_other
    intro r hr
    rw [hds r hr]
    intro e
    exact h (Option.some.inj e).symm

/-! ## Part 3: guards that nobody else writes are stable -/

theorem wget_wset (w : World) (k : Key) (v : Val) (k' : Key) :
    wget (wset w k v) k' = if k = k' then some v else wget w k' := by
  induction w with
  | nil => simp [wset, wget]
  | cons p rest ih =>
    obtain ⟨i, x⟩ := p
    unfold wset
    by_cases h : i = k
    · simp only [h, ↓reduceIte, wget]
      by_cases h2 : k = k' <;> simp [h2]
    · simp only [h, ↓reduceIte, wget, ih]
      by_cases h2 : i = k'
      · have : ¬ k = k' := by rw [← h2]; exact fun e => h e.symm
        simp [h2, this]
      · simp [h2]

theorem wget_wdel (w : World) (k k' : Key) :
    wget (wdel w k) k' = if k' = k then none else wget w k' := by
  induction w with
  | nil => simp [wdel, wget]
  | cons p rest ih =>
    obtain ⟨i, x⟩ := p
    unfold wdel at ih ⊢
    by_cases hi : i = k
    · simp [List.filter, hi, ih, wget]
      by_cases h2 : k' = k
      · simp [h2]
      · have : ¬ k = k' := fun e => h2 e.symm
        simp [h2, this]
    · have hb : ((i, x).1 != k) = true := by simp [hi]
      simp only [List.filter, hb, wget, ih]
      by_cases h2 : i = k'
      · have : ¬ k' = k := by rw [← h2]; exact hi
        simp [h2, this]
      · simp [h2]

theorem wget_applyWrite_other (w : World) (wr : Write) (k : Key) (h : wr.key ≠ k) :
    wget (applyWrite w wr) k = wget w k := by
  cases wr with
  | set k0 v => simp [applyWrite, wget_wset, Write.key] at h ⊢; simp [h]
  | del k0 =>
    simp [applyWrite, wget_wdel, Write.key] at h ⊢
    intro e; exact absurd e.symm h
  | fail k0 => rfl

theorem wget_applyWrites_other (ws : List Write) : ∀ (w : World) (k : Key), (∀ wr ∈ ws, wr.key ≠ k) →
    wget (applyWrites w ws) k = wget w k := by
  induction ws with
  | nil => intro w k _; rfl
  | cons wr rest ih =>
    intro w k h
    have hrest := fun x hx => h x (List.mem_cons_of_mem _ hx)
    cases wr with
    | fail k0 => rfl
    | set k0 v =>
      simp only [applyWrites]
      rw [ih _ k hrest, wget_applyWrite_other _ _ _ (h _ (List.mem_cons_self ..))]
    | del k0 =>
      simp only [applyWrites]
      rw [ih _ k hrest, wget_applyWrite_other _ _ _ (h _ (List.mem_cons_self ..))]

theorem evalRules_congr (rs : List Rule) (w w' : World)
    (h : ∀ k ∈ guardKeys rs, wget w' k = wget w k) : evalRules w' rs = evalRules w rs := by
  induction rs with
  | nil => rfl
  | cons r rest ih =>
    have hrest : ∀ k ∈ guardKeys rest, wget w' k = wget w k := by
      intro k hk
      apply h
      simp only [guardKeys, List.filterMap_cons] at hk ⊢
      split
      · exact hk
      · exact List.mem_cons_of_mem _ hk
    have hg : guardHolds w' r.guard = guardHolds w r.guard := by
      cases hgd : r.guard with
      | none => rfl
      | some p =>
        obtain ⟨k, b⟩ := p
        have : wget w' k = wget w k := by
          apply h
          simp [guardKeys, hgd]
        simp [guardHolds, this]
    simp only [evalRules, hg, ih hrest]

theorem evalRules_keys (w : World) (rs : List Rule) : ∀ wr ∈ evalRules w rs, wr.key ∈ writeKeys rs := by
  induction rs with
  | nil => intro wr h; simp [evalRules] at h
  | cons r rest ih =>
    intro wr h
    simp only [evalRules] at h
    simp only [writeKeys, List.map_cons, List.mem_cons]
    split at h
    · rcases List.mem_cons.mp h with h | h
      · left; rw [h]
      · right; exact ih wr h
    · right; exact ih wr h

theorem conflicts_false {w : Nat} {r1 r2 : List Rule} (h : conflicts (.change w r1) (.change w r2) = false) :
    ∀ k ∈ guardKeys r1, k ∉ writeKeys r2 := by
  intro k hk hw
  simp only [conflicts, beq_self_eq_true, Bool.true_and] at h
  have : (guardKeys r1).any (fun k => (writeKeys r2).contains k) = true :=
    List.any_eq_true.mpr ⟨k, hk, by simpa using hw⟩
  rw [h] at this
  exact absurd this (by simp)

/-- a change computed from `w` stays what it is when another request of a conflict-free set writes `w` -/
theorem evalRules_stable {wid : Nat} {r1 r2 : List Rule} (h : conflicts (.change wid r1) (.change wid r2) = false)
    (w w2 : World) : evalRules (applyWrites w (evalRules w2 r2)) r1 = evalRules w r1 := by
  apply evalRules_congr
  intro k hk
  apply wget_applyWrites_other
  intro wr hwr e
  exact conflicts_false h k hk (e ▸ evalRules_keys w2 r2 wr hwr)

theorem conflictFree_get : ∀ (l : List Req), conflictFree l = true → ∀ (i j : Nat) (a b : Req), i ≠ j →
    l[i]? = some a → l[j]? = some b → conflicts a b = false := by
  intro l
  induction l with
  | nil => intro _ i j a b _ hi; simp at hi
  | cons r rest ih =>
    intro h i j a b hij hi hj
    simp only [conflictFree, Bool.and_eq_true, List.all_eq_true] at h
    obtain ⟨hall, hrest⟩ := h
    cases i with
    | zero =>
      cases j with
      | zero => exact absurd rfl hij
      | succ j =>
        simp at hi hj
        have := hall b (List.mem_of_getElem? hj)
        simp at this
        rw [← hi]; exact this.1
    | succ i =>
      cases j with
      | zero =>
        simp at hi hj
        have := hall a (List.mem_of_getElem? hi)
        simp at this
        rw [← hj]; exact this.2
      | succ j =>
        simp at hi hj
        exact ih hrest i j a b (fun e => hij (by rw [e])) hi hj

end B6.Lemmas.ProtoService
