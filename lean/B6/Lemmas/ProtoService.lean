import B6.Model.Proto.Service
/-!
Invariants of the lock-protocol model of the b6 service (C40).
Part 1: the RWMutex bookkeeping (`LockInv`) and the per-client phase discipline (`phaseOk`).
-/
namespace B6.Lemmas.ProtoService
open B6.Model.Proto B6.Model.Proto.Service

/-- holds the read lock -/
def isReader (c : Client) : Bool :=
  c.pc == Pc.find || c.pc == Pc.eval || c.pc == Pc.upRUnlock || c.pc == Pc.finalRUnlock

/-- holds the write lock -/
def isWriter (c : Client) : Bool := c.pc == Pc.apply || c.pc == Pc.wunlock

structure LockInv (s : State) : Prop where
  readers : s.readers = s.clients.countP isReader
  writers : s.clients.countP isWriter = (if s.writer then 1 else 0)
  excl : s.writer = true → s.readers = 0

/-- which program counters a request passes through, and what the client knows there -/
def phaseOk (c : Client) : Bool :=
  match c.req, c.pc with
  | .query _, .rlock | .query _, .find => c.obj.isNone && !c.logged
  | .query _, .eval | .query _, .finalRUnlock | .query _, .done => c.obj.isSome && c.logged
  | .change _ _, .rlock | .change _ _, .find => c.obj.isNone && !c.logged
  | .change _ _, .eval | .change _ _, .upRUnlock | .change _ _, .wlock | .change _ _, .apply => c.obj.isSome
  | .change _ _, .wunlock | .change _ _, .rlock2 | .change _ _, .finalRUnlock | .change _ _, .done =>
      c.obj.isSome && c.logged
  | .delete _, .mapop | .list, .mapop => c.obj.isNone && !c.logged
  | .delete _, .done | .list, .done => c.logged
  | _, _ => false

theorem countP_set' {α} (p : α → Bool) (l : List α) (i : Nat) (a b : α) (h : l[i]? = some a) :
    (l.set i b).countP p + (if p a then 1 else 0) = l.countP p + (if p b then 1 else 0) := by
  have hi : i < l.length := (List.getElem?_eq_some_iff.mp h).1
  have ha : l[i] = a := (List.getElem?_eq_some_iff.mp h).2
  rw [List.countP_set hi, ha]
  have : (if p a = true then 1 else 0) ≤ l.countP p := by
    split
    · rename_i hp
      have : a ∈ l := ha ▸ List.getElem_mem hi
      exact List.countP_pos_iff.mpr ⟨a, this, hp⟩
    · omega
  omega

theorem countP_flush (p : Client → Bool) (hp : ∀ c b, p { c with logged := b } = p c) (cs : List Client) (o : Nat) :
    (flushHolders cs o).countP p = cs.countP p := by
  unfold flushHolders
  rw [List.countP_map]
  congr 1
  funext c
  simp only [Function.comp]
  split
  · exact hp c true
  · rfl

theorem isReader_logged (c : Client) (b : Bool) : isReader { c with logged := b } = isReader c := rfl
theorem isWriter_logged (c : Client) (b : Bool) : isWriter { c with logged := b } = isWriter c := rfl

theorem flush_getElem? (cs : List Client) (o i : Nat) (c : Client) (h : cs[i]? = some c) :
    (flushHolders cs o)[i]? = some (if c.obj = some o ∧ c.logged = false then { c with logged := true } else c) := by
  unfold flushHolders
  rw [List.getElem?_map, h]; rfl

/-- the shape of every step: client `i` moves from `c` to `c'`; everything else in the client list is as
before except for ghost flags -/
theorem lockInv_step (pref : Bool) (s s' : State) (h : LockInv s) (hs : s' ∈ step pref s) : LockInv s' := by
  obtain ⟨i, c, hc, hs⟩ := mem_forWorkers.mp hs
  have key : ∀ (c' : Client) (cs : List Client) (r : Nat) (w : Bool),
      cs[i]? = some c → cs.countP isReader = s.clients.countP isReader → cs.countP isWriter = s.clients.countP isWriter →
      (r + (if isReader c then 1 else 0) = s.readers + (if isReader c' then 1 else 0)) →
      ((if w then 1 else 0) + (if isWriter c then 1 else 0) = (if s.writer then 1 else 0) + (if isWriter c' then 1 else 0)) →
      (w = true → r = 0) →
      ∀ s'', s''.readers = r → s''.writer = w → s''.clients = cs.set i c' → LockInv s'' := by
    intro c' cs r w hci hr hw hrr hww hex s'' e1 e2 e3
    have h1 := countP_set' isReader cs i c c' hci
    have h2 := countP_set' isWriter cs i c c' hci
    have hR := h.readers
    have hW := h.writers
    refine ⟨?_, ?_, ?_⟩
    · rw [e1, e3]; omega
    · rw [e2, e3]
      cases w <;> cases hsw : s.writer <;> simp [hsw] at hww hW ⊢ <;> omega
    · rw [e1, e2]; exact hex
  unfold clientStep at hs
  cases hpc : c.pc <;> simp only [hpc] at hs
  · -- rlock
    simp only [mem_guard] at hs
    obtain ⟨hg, rfl⟩ := hs
    have hw : s.writer = false := by simp [canRLock] at hg; exact hg.1
    exact key _ s.clients (s.readers + 1) s.writer hc rfl rfl (by simp [isReader, hpc]) (by simp [isWriter, hpc])
      (by simp [hw]) _ rfl rfl rfl
  · -- find
    cases hreq : c.req <;> simp only [hreq] at hs
    · split at hs <;> simp at hs <;> subst hs <;>
        exact key _ s.clients s.readers s.writer hc rfl rfl (by simp [isReader, hpc]) (by simp [isWriter, hpc])
          h.excl _ rfl rfl rfl
    · split at hs <;> simp at hs <;> subst hs <;>
        exact key _ s.clients s.readers s.writer hc rfl rfl (by simp [isReader, hpc]) (by simp [isWriter, hpc])
          h.excl _ rfl rfl rfl
    · simp at hs
    · simp at hs
  · -- eval
    split at hs
    · simp at hs; subst hs
      exact key _ s.clients s.readers s.writer hc rfl rfl (by simp [isReader, hpc]) (by simp [isWriter, hpc])
        h.excl _ rfl rfl rfl
    · split at hs
      · simp at hs; subst hs
        exact key _ s.clients s.readers s.writer hc rfl rfl (by simp [isReader, hpc]) (by simp [isWriter, hpc])
          h.excl _ rfl rfl rfl
      · simp at hs
    · simp at hs
  · -- upRUnlock
    simp at hs; subst hs
    have hpos : 0 < s.readers := by
      rw [h.readers]
      exact List.countP_pos_iff.mpr ⟨c, List.mem_of_getElem? hc, by simp [isReader, hpc]⟩
    exact key _ s.clients (s.readers - 1) s.writer hc rfl rfl (by simp [isReader, hpc]; omega) (by simp [isWriter, hpc])
      (fun hw => by have := h.excl hw; omega) _ rfl rfl rfl
  · -- wlock
    simp only [mem_guard] at hs
    obtain ⟨hg, rfl⟩ := hs
    simp [canLock] at hg
    exact key _ s.clients s.readers true hc rfl rfl (by simp [isReader, hpc]) (by simp [isWriter, hpc, hg.1])
      (fun _ => hg.2) _ rfl rfl rfl
  · -- apply
    split at hs
    · split at hs
      · simp at hs; subst hs
        exact key _ s.clients s.readers s.writer hc rfl rfl (by simp [isReader, hpc]) (by simp [isWriter, hpc])
          h.excl _ rfl rfl rfl
      · simp at hs
    · simp at hs
  · -- wunlock
    simp at hs; subst hs
    have hw : s.writer = true := by
      have := h.writers
      have hpos : 0 < s.clients.countP isWriter :=
        List.countP_pos_iff.mpr ⟨c, List.mem_of_getElem? hc, by simp [isWriter, hpc]⟩
      cases hsw : s.writer
      · simp [hsw] at this; omega
      · rfl
    exact key _ s.clients s.readers false hc rfl rfl (by simp [isReader, hpc]) (by simp [isWriter, hpc, hw])
      (by simp) _ rfl rfl rfl
  · -- rlock2
    simp only [mem_guard] at hs
    obtain ⟨hg, rfl⟩ := hs
    have hw : s.writer = false := by simp [canRLock] at hg; exact hg.1
    exact key _ s.clients (s.readers + 1) s.writer hc rfl rfl (by simp [isReader, hpc]) (by simp [isWriter, hpc])
      (by simp [hw]) _ rfl rfl rfl
  · -- finalRUnlock
    simp at hs; subst hs
    have hpos : 0 < s.readers := by
      rw [h.readers]
      exact List.countP_pos_iff.mpr ⟨c, List.mem_of_getElem? hc, by simp [isReader, hpc]⟩
    exact key _ s.clients (s.readers - 1) s.writer hc rfl rfl (by simp [isReader, hpc]; omega) (by simp [isWriter, hpc])
      (fun hw => by have := h.excl hw; omega) _ rfl rfl rfl
  · -- mapop
    cases hreq : c.req <;> simp only [hreq] at hs
    · simp at hs
    · simp at hs
    · split at hs
      · rename_i o ho
        simp at hs; subst hs
        refine key { c with pc := .done, logged := true } (flushHolders s.clients o) s.readers s.writer ?_
          (countP_flush _ isReader_logged _ _) (countP_flush _ isWriter_logged _ _) ?_ ?_ h.excl _ rfl rfl rfl
        · rw [flush_getElem? _ _ _ _ hc]
          sorry
        · sorry
        · sorry
      · simp at hs; subst hs
        exact key _ s.clients s.readers s.writer hc rfl rfl (by simp [isReader, hpc]) (by simp [isWriter, hpc])
          h.excl _ rfl rfl rfl
    · simp at hs; subst hs
      exact key _ s.clients s.readers s.writer hc rfl rfl (by simp [isReader, hpc]) (by simp [isWriter, hpc])
        h.excl _ rfl rfl rfl
  · -- done
    simp at hs

end B6.Lemmas.ProtoService
