import B6.Lemmas.TagQuery
/-!
# The index built from a feature list satisfies `IndexInv`; the k-way merge follows the union (C03)
-/
namespace B6.Lemmas.TagQuery
open B6.Spec.Cursor B6.Spec.SearchQuery B6.Spec.TagQuery B6.Model.Search B6.Model.FeatureSearch
open B6.Lemmas.Search

/-! ## `buildIndex` -/

/-- posting list of a token in a raw entry list -/
def getL (l : List (Token × List Nat)) (t : Token) : List Nat :=
  match (l.find? (fun e => e.1 == t)).map (·.2) with
  | some xs => xs
  | none => []

theorem get_eq_getL (ix : Index) (t : Token) : ix.get t = getL ix.lists t := rfl

theorem getL_cons (a : Token × List Nat) (l : List (Token × List Nat)) (t : Token) :
    getL (a :: l) t = if a.1 = t then a.2 else getL l t := by
  unfold getL
  rw [List.find?_cons]
  by_cases h : a.1 = t
  · simp [h]
  · have : (a.1 == t) = false := by simpa using h
    simp [this, h]

theorem tok_total {a b : Token} (h1 : ¬ a < b) (h2 : a ≠ b) : b < a :=
  Std.lt_of_le_of_ne (List.not_lt.1 h1) (Ne.symm h2)

def EntriesOK (l : List (Token × List Nat)) : Prop :=
  (l.map (·.1)).Pairwise (· < ·) ∧ ∀ e ∈ l, StrictSorted e.2

theorem getL_nil_of_lt : ∀ (l : List (Token × List Nat)) (t : Token), (∀ e ∈ l, t < e.1) → getL l t = []
  | [], _, _ => rfl
  | a :: l, t, h => by
    rw [getL_cons]
    have hlt := h a (by simp)
    have : a.1 ≠ t := by intro he; rw [he] at hlt; exact List.lt_irrefl _ hlt
    rw [if_neg this]
    exact getL_nil_of_lt l t (fun e he => h e (List.mem_cons_of_mem _ he))

theorem insertPosting_tokens (id : Nat) (t : Token) : ∀ (l : List (Token × List Nat)) (e : Token × List Nat),
    e ∈ insertPosting id t l → e.1 = t ∨ ∃ e' ∈ l, e'.1 = e.1
  | [], e, h => by simp [insertPosting] at h; left; rw [h]
  | (t', l') :: rest, e, h => by
    unfold insertPosting at h
    split at h
    · rcases List.mem_cons.1 h with rfl | h
      · left; rfl
      · right; exact ⟨e, h, rfl⟩
    · split at h
      · rcases List.mem_cons.1 h with rfl | h
        · right; exact ⟨(t', l'), by simp, rfl⟩
        · right; exact ⟨e, List.mem_cons_of_mem _ h, rfl⟩
      · rcases List.mem_cons.1 h with rfl | h
        · right; exact ⟨(t', l'), by simp, rfl⟩
        · rcases insertPosting_tokens id t rest e h with h1 | ⟨e', he', h2⟩
          · left; exact h1
          · right; exact ⟨e', List.mem_cons_of_mem _ he', h2⟩

theorem insertPosting_spec (id : Nat) (t : Token) : ∀ (l : List (Token × List Nat)), EntriesOK l →
    EntriesOK (insertPosting id t l) ∧
    ∀ t' x, x ∈ getL (insertPosting id t l) t' ↔ (t' = t ∧ x = id) ∨ x ∈ getL l t'
  | [], _ => by
    refine ⟨⟨by simp [insertPosting], ?_⟩, ?_⟩
    · intro e he; simp [insertPosting] at he; rw [he]; simp [StrictSorted]
    · intro t' x
      simp only [insertPosting, getL_cons]
      by_cases h : t = t'
      · simp [h, getL]
      · have : ¬ t' = t := fun h' => h h'.symm
        simp [h, this, getL]
  | (t', l') :: rest, hok => by
    obtain ⟨hs, hl⟩ := hok
    rw [List.map_cons, List.pairwise_cons] at hs
    have hrest : EntriesOK rest := ⟨hs.2, fun e he => hl e (List.mem_cons_of_mem _ he)⟩
    unfold insertPosting
    by_cases h1 : t < t'
    · rw [if_pos h1]
      have hall : ∀ e ∈ (t', l') :: rest, t < e.1 := by
        intro e he
        rcases List.mem_cons.1 he with rfl | he
        · exact h1
        · exact List.lt_trans h1 (hs.1 e.1 (List.mem_map.2 ⟨e, he, rfl⟩))
      refine ⟨⟨?_, ?_⟩, ?_⟩
      · rw [List.map_cons, List.pairwise_cons]
        refine ⟨?_, by rw [List.map_cons, List.pairwise_cons]; exact hs⟩
        intro b hb
        obtain ⟨e, he, rfl⟩ := List.mem_map.1 hb
        exact hall e he
      · intro e he
        rcases List.mem_cons.1 he with rfl | he
        · simp [StrictSorted]
        · exact hl e he
      · intro t'' x
        rw [getL_cons]
        by_cases h : t = t''
        · subst h
          simp only [↓reduceIte, List.mem_singleton, true_and]
          rw [getL_nil_of_lt _ t hall]; simp
        · have : ¬ t'' = t := fun h' => h h'.symm
          simp [h, this]
    · rw [if_neg h1]
      by_cases h2 : t = t'
      · rw [if_pos h2]
        subst h2
        refine ⟨⟨?_, ?_⟩, ?_⟩
        · rw [List.map_cons, List.pairwise_cons]; exact hs
        · intro e he
          rcases List.mem_cons.1 he with rfl | he
          · exact insertSorted_sorted id l' (hl (t, l') (by simp))
          · exact hl e (List.mem_cons_of_mem _ he)
        · intro t'' x
          rw [getL_cons, getL_cons]
          by_cases h : t = t''
          · subst h
            simp only [↓reduceIte, mem_insertSorted, true_and]
          · have : ¬ t'' = t := fun h' => h h'.symm
            simp [h, this]
      · rw [if_neg h2]
        have h3 : t' < t := tok_total h1 h2
        obtain ⟨ih1, ih2⟩ := insertPosting_spec id t rest hrest
        refine ⟨⟨?_, ?_⟩, ?_⟩
        · rw [List.map_cons, List.pairwise_cons]
          refine ⟨?_, ih1.1⟩
          intro b hb
          obtain ⟨e, he, rfl⟩ := List.mem_map.1 hb
          rcases insertPosting_tokens id t rest e he with h | ⟨e', he', h⟩
          · rw [h]; exact h3
          · rw [← h]; exact hs.1 e'.1 (List.mem_map.2 ⟨e', he', rfl⟩)
        · intro e he
          rcases List.mem_cons.1 he with rfl | he
          · exact hl _ (by simp)
          · exact ih1.2 e he
        · intro t'' x
          rw [getL_cons, getL_cons]
          by_cases h : t' = t''
          · subst h
            have : ¬ t' = t := fun h' => h2 h'.symm
            simp [this]
          · simp only [h, ↓reduceIte]
            exact ih2 t'' x

theorem foldl_insertPosting_spec (id : Nat) : ∀ (ts : List Token) (l : List (Token × List Nat)), EntriesOK l →
    EntriesOK (ts.foldl (fun ls t => insertPosting id t ls) l) ∧
    ∀ t' x, x ∈ getL (ts.foldl (fun ls t => insertPosting id t ls) l) t' ↔ (t' ∈ ts ∧ x = id) ∨ x ∈ getL l t'
  | [], l, hok => ⟨hok, by simp⟩
  | t :: ts, l, hok => by
    obtain ⟨h1, h2⟩ := insertPosting_spec id t l hok
    obtain ⟨h3, h4⟩ := foldl_insertPosting_spec id ts (insertPosting id t l) h1
    refine ⟨h3, fun t' x => ?_⟩
    rw [List.foldl_cons, h4, h2]
    simp only [List.mem_cons]
    constructor
    · rintro (⟨h, rfl⟩ | ⟨rfl, rfl⟩ | h)
      · exact Or.inl ⟨Or.inr h, rfl⟩
      · exact Or.inl ⟨Or.inl rfl, rfl⟩
      · exact Or.inr h
    · rintro (⟨rfl | h, rfl⟩ | h)
      · exact Or.inr (Or.inl ⟨rfl, rfl⟩)
      · exact Or.inl ⟨h, rfl⟩
      · exact Or.inr (Or.inr h)

theorem foldl_addFeature_spec : ∀ (fs : List Feature) (l : List (Token × List Nat)), EntriesOK l →
    EntriesOK (fs.foldl addFeature l) ∧
    ∀ t x, x ∈ getL (fs.foldl addFeature l) t ↔ (∃ f ∈ fs, f.id = x ∧ t ∈ tokensFor f) ∨ x ∈ getL l t
  | [], l, hok => ⟨hok, by simp⟩
  | f :: fs, l, hok => by
    obtain ⟨h1, h2⟩ := foldl_insertPosting_spec f.id (tokensFor f) l hok
    obtain ⟨h3, h4⟩ := foldl_addFeature_spec fs (addFeature l f) h1
    refine ⟨h3, fun t x => ?_⟩
    rw [List.foldl_cons, h4]
    unfold addFeature
    rw [h2]
    simp only [List.mem_cons, exists_eq_or_imp]
    constructor
    · rintro (h | ⟨h, rfl⟩ | h)
      · exact Or.inl (Or.inr h)
      · exact Or.inl (Or.inl ⟨rfl, h⟩)
      · exact Or.inr h
    · rintro ((⟨rfl, h⟩ | h) | h)
      · exact Or.inr (Or.inl ⟨h, rfl⟩)
      · exact Or.inl h
      · exact Or.inr (Or.inr h)

/-- the index built from `fs` by the tokenisation rule holds exactly the postings `IndexInv` asks for -/
theorem buildIndex_inv (kind : LeafKind) (fs : List Feature) (names : List String := []) :
    IndexInv fs (buildIndex kind fs names) := by
  obtain ⟨h1, h2⟩ := foldl_addFeature_spec fs [] ⟨by simp, by simp⟩
  refine ⟨h1, fun t x => ?_⟩
  rw [get_eq_getL]
  show x ∈ getL (fs.foldl addFeature []) t ↔ _
  rw [h2]
  simp [getL]

/-! ## `mergedFeatures` follows `union` on `Next` -/

section merged
variable {σ : Type} (o : IterOps σ)

theorem merged_loop_of_union (cur : Nat) : ∀ (f : Nat) (l r : List (σ × Nat)),
    Union.loop o (· == cur) o.next f l = .ok r →
    (∃ pre s post, splitMin (·.2) l = some (pre, (s, cur), post)) →
    Merged.loop o cur f l = .ok r
  | 0, _, _, h, _ => by simp [Union.loop] at h
  | f + 1, l, r, h, ⟨pre, s, post, hs⟩ => by
    -- what happens after the top was stepped: the same in both loops
    have hcont : ∀ l', Union.loop o (· == cur) o.next f l' = .ok r →
        (match splitMin (·.2) l' with
          | none => (.ok [] : Except Err (List (σ × Nat)))
          | some (_, (_, v'), _) => if v' = cur then Merged.loop o cur f l' else .ok l') = .ok r := by
      intro l' h'
      cases f with
      | zero => simp [Union.loop] at h'
      | succ f' =>
        cases hs' : splitMin (·.2) l' with
        | none =>
          simp only [Union.loop, hs'] at h'
          simpa using h'
        | some p =>
          obtain ⟨pre', ⟨s', v'⟩, post'⟩ := p
          simp only
          by_cases hv : v' = cur
          · rw [if_pos hv]
            subst hv
            exact merged_loop_of_union v' (f' + 1) l' r h' ⟨pre', s', post', hs'⟩
          · rw [if_neg hv]
            simp only [Union.loop, hs'] at h'
            have : (v' == cur) = false := by simpa using hv
            simpa [this] using h'
    simp only [Union.loop, hs, beq_self_eq_true, ↓reduceIte] at h
    simp only [Merged.loop, hs]
    cases hn : o.next s with
    | error e => rw [hn] at h; simp at h
    | ok p =>
      obtain ⟨b, s'⟩ := p
      rw [hn] at h
      cases b with
      | false => exact hcont _ h
      | true =>
        cases hv : o.value s' with
        | none => simp [hv] at h
        | some v' =>
          simp only [hv] at h ⊢
          exact hcont _ h

theorem merged_next_of_union (st : UnionState σ) (r : Bool × UnionState σ)
    (h : Union.next o st = .ok r) : Merged.next o st = .ok r := by
  cases st with
  | fresh its => exact h
  | live l =>
    simp only [Union.next, Merged.next] at h ⊢
    cases hs : splitMin (·.2) l with
    | none => rw [hs] at h; exact h
    | some p =>
      obtain ⟨pre, ⟨s, cur⟩, post⟩ := p
      rw [hs] at h
      simp only at h ⊢
      cases hl : Union.loop o (· == cur) o.next (l.length + 1) l with
      | error e => rw [hl] at h; simp [Union.finish] at h
      | ok l' =>
        rw [merged_loop_of_union o cur _ l l' hl ⟨pre, s, post, hs⟩]
        rw [hl] at h; exact h

/-- `b6.MergeFeatures` as an iterator: only `Next` exists -/
def mergedOps : IterOps (UnionState σ) where
  next := Merged.next o
  advance _ _ := .error .panic
  value := Union.value
  estimate _ := 0

theorem merged_run (n : Nat) : ∀ (st : UnionState σ) (c : Cursor), RefinesAt (Union.ops o) st c →
    runImpl (mergedOps o) st (List.replicate n Call.next) = some (runSpec c (List.replicate n Call.next)) := by
  induction n with
  | zero => intro st c _; rfl
  | succ n ih =>
    intro st c h
    obtain ⟨st', h1, h2⟩ := h.next
    have hm : Merged.next o st = .ok (c.next.1, st') := merged_next_of_union o st _ h1
    simp only [List.replicate_succ, runImpl, runSpec, mergedOps, hm]
    cases hb : c.next.1 with
    | false => simp
    | true =>
      have hr := h2 hb
      have hv : Union.value st' = c.next.2.cur := by
        have := hr.value (cur_isSome_of_true_next h.wf hb)
        exact this
      simp only [↓reduceIte, hv]
      have := ih st' c.next.2 hr
      simp only [mergedOps] at this
      rw [this]; rfl

end merged

end B6.Lemmas.TagQuery
