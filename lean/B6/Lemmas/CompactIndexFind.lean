import B6.Lemmas.CompactIndexBuild
/-!
# C01 lemmas, part 6: `find` of every kept path / area / relation of an accepted source

`build` succeeded + `Accepts` ⇒ `find ix f.id = some (some (canon fs f))` for every feature of type 1–3:
placement (`placed`) + routing (`lookup_of_unique`) + the record theorems.
-/
namespace B6.Model.CompactIndex
open B6.Model.Varint B6.Model.Records
open B6.Model.Containers (Entry)

theorem findSome?_all_eq {α β : Type} (f : α → Option β) (a : α) (y : β) : ∀ l : List α,
    (∀ x ∈ l, x = a) → a ∈ l → f a = some y → l.findSome? f = some y := by
  intro l hall hmem hfa
  cases l with
  | nil => simp at hmem
  | cons x xs =>
    have : x = a := hall x (by simp)
    subst this
    simp [hfa]

theorem lookupIn_holds (b : Block) (id : FID) (e : Entry) (h : Holds b id e) : lookupIn b id = some (b, e) := by
  have hff : findFirst b.entries id.val = some e := by
    unfold findFirst
    exact find?_unique _ b.entries e h.mem (by simp [h.id_eq]) (fun e' he' hp => h.unique e' he' (by simpa using hp))
  have htag := h.tag
  unfold lookupIn
  by_cases h0 : id.typ = 0
  · simp only [h0, if_true] at htag
    simp [h0, hff, htag]
  · simp only [h0, if_false] at htag
    have hfft : findFirstWithTag b.entries id.val 0#64 = some e := by
      unfold findFirstWithTag
      exact find?_unique _ b.entries e h.mem (by simp [h.id_eq, htag])
        (fun e' he' hp => h.unique e' he' (by
          simp only [Bool.and_eq_true, beq_iff_eq] at hp
          exact hp.1))
    by_cases h2 : id.typ = 2
    · have hne := h.nonempty h2
      simp [h2, hfft, hne]
    · split
      · rename_i heq; exact absurd heq h0
      · rename_i heq; exact absurd heq h2
      · simp [hfft]

/-- routing by membership: one block of the type carries the namespace, and every such block is that block -/
theorem lookup_of_unique (ix : Index) (id : FID) (n : Nat) (hn : nsEncode ix.nt id.ns = some n) (b : Block) (e : Entry)
    (hmem : b ∈ ix.blocks) (htyp : b.typ = id.typ) (hhdr : nssGet b.hdr id.typ = ns16 n)
    (huniq : ∀ b' ∈ ix.blocks, b'.typ = id.typ → nssGet b'.hdr id.typ = ns16 n → b' = b)
    (h : Holds b id e) : lookup ix id = some (b, e) := by
  unfold lookup blocksFor
  simp only [hn]
  refine findSome?_all_eq _ b (b, e) _ ?_ ?_ (lookupIn_holds b id e h)
  · intro x hx
    have ⟨hx1, hx2⟩ := List.mem_filter.mp hx
    simp only [Bool.and_eq_true, beq_iff_eq] at hx2
    exact huniq x hx1 hx2.1 hx2.2
  · exact List.mem_filter.mpr ⟨hmem, by simp [htyp, hhdr]⟩

/-! ## what `Accepts` says about one feature -/

theorem invertTag_ok (x : FTag) (hx : x.val.ok = true) : (invertTag x).val.ok = true := by
  obtain ⟨k, v⟩ := x
  cases v with
  | list l =>
    simp only [invertTag]
    split
    · simp only [Val.ok, List.all_eq_true] at hx ⊢
      intro e he
      exact hx e (List.mem_reverse.mp he)
    · exact hx
  | str s => exact hx
  | pt p => exact hx
  | fid i => exact hx

theorem invertTags_ok : ∀ ts : List FTag, (∀ t ∈ ts, t.val.ok = true) → ∀ t ∈ invertTags ts, t.val.ok = true := by
  intro ts
  induction ts with
  | nil => intro _ t ht; simp [invertTags] at ht
  | cons x xs ih =>
    intro h t ht
    unfold invertTags at ht
    split at ht
    · rcases List.mem_cons.mp ht with rfl | ht'
      · exact invertTag_ok x (h x (by simp))
      · exact h t (by simp [ht'])
    · rcases List.mem_cons.mp ht with rfl | ht'
      · exact h t (by simp)
      · exact ih (fun y hy => h y (by simp [hy])) t ht'

theorem validated_tags_ok (fs : List Feature) (f : Feature) (h : ∀ t ∈ f.tags, t.val.ok = true) :
    ∀ t ∈ (validated fs f).tags, t.val.ok = true := by
  unfold validated
  split
  · exact invertTags_ok f.tags h
  · exact h

theorem validated_of_not_path (fs : List Feature) (f : Feature) (h : f.id.typ ≠ 1) : validated fs f = f := by
  unfold validated
  have : (f.id.typ == 1) = false := by simpa using h
  simp [this]

theorem areaRecord_ne_nil (c : Ctx) (fs : List Feature) (g : Feature) (data : Bytes)
    (h : areaRecord c fs g = .ok data) : data ≠ [] := by
  unfold areaRecord at h
  cases hts : toCompactTags c g with
  | none => simp [hts, bind, Except.bind] at h
  | some ts =>
    cases hg : areaGeometry c g with
    | error e => simp [hts, hg, bind, Except.bind] at h
    | ok geo =>
      cases hrels : refsOf c (relationsOfMember fs g.id) with
      | error e => simp [hts, hg, hrels, bind, Except.bind] at h
      | ok rels =>
        simp only [hts, hg, hrels, orPanic_some, bind, Except.bind, orPanic_ok] at h
        unfold Area.marshal at h
        split at h
        · simp only [Option.some.injEq] at h
          subst h
          intro hnil
          simp only [Area.enc, Tags.enc, List.append_assoc, List.append_eq_nil_iff] at hnil
          exact putUvarint_ne_nil _ hnil.1
        · simp at h

/-- what `Accepts` gives for the whole source -/
structure AcceptsFacts (strs : List Str) (fs : List Feature) : Prop where
  distinct : idsDistinct fs = true
  ok : ∀ f ∈ fs, featureOK fs f = true
  strings : ∀ s ∈ fs.flatMap stringsOf, strs.contains s = true
  strs : strs.length < 2 ^ 48
  small : (nsTable fs).length ≤ 8192
  nofid : hasFidTag fs = false
  len : fs.length < 2 ^ 48

theorem accepts_facts (strs : List Str) (fs : List Feature) (h : Accepts strs fs = true) : AcceptsFacts strs fs := by
  simp only [Accepts, Bool.and_eq_true, decide_eq_true_eq, List.all_eq_true, Bool.not_eq_true'] at h
  obtain ⟨⟨⟨⟨⟨⟨⟨⟨h1, h2⟩, h3⟩, h4⟩, h5⟩, h6⟩, h7⟩, _⟩, _⟩ := h
  exact ⟨h1, h2, h4, h5, h6, h3, h7⟩

theorem ctxOK_of_built (strs : List Str) (fs : List Feature) (ix : Index) (c : Ctx) (hb : Built strs fs ix c)
    (hs : strs.length < 2 ^ 48) (hsmall : (nsTable fs).length ≤ 8192) : CtxOK c := by
  have hc := hb.hctx
  have hnt : c.nt = nsTable fs := by rw [hc]
  have hst : c.strs = strs := by rw [hc]
  refine ⟨⟨by rw [hnt]; exact hsmall, by rw [hnt]; exact nsTable_zero fs⟩, by rw [hst]; omega, by rw [hnt]; exact hb.hosm⟩

/-- **paths, areas, relations**: after a successful build of an accepted source, `FindFeatureByID` returns
every one of them in canonical form -/
theorem find_kept (strs : List Str) (fs : List Feature) (ix : Index) (hbuild : build strs fs = .ok ix)
    (hacc : Accepts strs fs = true) (f : Feature) (hf : f ∈ fs) (ht : f.id.typ = 1 ∨ f.id.typ = 2 ∨ f.id.typ = 3) :
    find ix f.id = some (some (canon fs f)) := by
  have hA := accepts_facts strs fs hacc
  obtain ⟨c, hb⟩ := build_built strs fs ix hbuild
  have hc := ctxOK_of_built strs fs ix c hb hA.strs hA.small
  have hnt : ix.nt = c.nt := by rw [hb.hnt, hb.hctx]
  have hst : ix.strs = c.strs := by rw [hb.hstrs, hb.hctx]
  have hOK := hA.ok f hf
  unfold featureOK at hOK
  simp only [Bool.and_eq_true, decide_eq_true_eq] at hOK
  obtain ⟨⟨⟨_, _⟩, hsize⟩, hmatch⟩ := hOK
  -- the feature is kept
  have hk : kept fs f = true := by
    unfold kept
    rcases ht with h | h | h <;> simp only [h] at hmatch ⊢
    · simp only [Bool.and_eq_true] at hmatch; exact hmatch.1.1.2
    · simp only [Bool.and_eq_true] at hmatch; exact hmatch.1.2
  obtain ⟨n, b, e, hn, hbm, hbt, hbh, huniq, hem, heid, hetag, herec, heuniq⟩ :=
    placed strs fs ix c hb hA.small hA.distinct f hf ht hk
  have hne : f.id.typ = 2 → e.data ≠ [] := by
    intro h2
    rw [h2] at herec
    exact areaRecord_ne_nil c fs _ e.data herec
  have hholds : Holds b f.id e := ⟨hem, heid, heuniq, by
    have : f.id.typ ≠ 0 := by rcases ht with h | h | h <;> omega
    simp [this, hetag], hne⟩
  have hhdr : nssGet b.hdr f.id.typ = ns16 n := by rw [hbh]; exact nssGet_blockHeader c _ n ht
  have hlook := lookup_of_unique ix f.id n hn b e hbm hbt hhdr huniq hholds
  unfold find
  rw [hlook]
  simp only [Option.map_some, Option.some.injEq]
  rw [hnt, hst, hbh]
  unfold canon
  rcases ht with h | h | h
  · -- path
    simp only [h] at hmatch herec ⊢
    simp only [Bool.and_eq_true, List.all_eq_true] at hmatch
    have hvals := validated_tags_ok fs f hmatch.1.1.1.1
    have := path_record_roundtrip c hc fs (validated fs f) hvals e.data herec (blockHeader c 1 n) f.id h
    rw [this, validated_id]
  · -- area
    simp only [h] at hmatch herec ⊢
    simp only [Bool.and_eq_true, List.all_eq_true] at hmatch
    have hv : validated fs f = f := validated_of_not_path fs f (by omega)
    rw [hv] at herec ⊢
    unfold sizeOK at hsize
    simp only [Bool.and_eq_true, decide_eq_true_eq, List.all_eq_true] at hsize
    have hpolys : ∀ p ∈ f.polys, polyOK p := by
      intro p hp
      have h1 := hmatch.2 p hp
      have h2 := hsize.2 p hp
      cases p with
      | paths ids =>
        simp only [Bool.and_eq_true, Bool.not_eq_true', List.all_eq_true, beq_iff_eq] at h1
        refine ⟨by intro hnil; rw [hnil] at h1; simp at h1, ?_⟩
        intro id hid
        have := (h1.2 id hid).1
        omega
      | loops ls =>
        simp only [Bool.and_eq_true, decide_eq_true_eq] at h2
        show ls.flatten.length < 2 ^ 64
        omega
    have hfl : (f.polys.filterMap pathsOf).flatten.length < 2 ^ 64 := by
      have := hsize.1.1.2
      omega
    exact area_record_roundtrip c hc fs f hmatch.1.1 hpolys hfl e.data herec n f.id h
  · -- relation
    simp only [h] at hmatch herec ⊢
    simp only [Bool.and_eq_true, List.all_eq_true, decide_eq_true_eq] at hmatch
    have hv : validated fs f = f := validated_of_not_path fs f (by omega)
    rw [hv] at herec ⊢
    have hms : ∀ m ∈ f.members, m.id.typ < 4 := fun m hm => (hmatch.2 m hm).1.2
    rw [hnt] at hn
    exact relation_record_roundtrip c hc fs f hmatch.1 hms e.data herec n hn f.id h

end B6.Model.CompactIndex
