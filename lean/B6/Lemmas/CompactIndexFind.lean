import B6.Lemmas.CompactIndexBuild
/-!
# C01 lemmas, part 6: `find` of every kept path / area / relation of an accepted source

`build` succeeded + `Accepts` ⇒ `find ix f.id = some (some (canon fs f))` for every feature of type 1–3:
placement (`placed`) + routing (`lookup_of_unique`) + the record theorems.
-/
namespace B6.Model.CompactIndex
open B6.Model.Varint B6.Model.Records
open B6.Model.Containers (Entry)

theorem findSome?_all_eq {α β : Type} (f : α → Option β) (a : α) (y : β) : ∀ l : List α,
    (∀ x ∈ l, x = a) → a ∈ l → f a = some y → l.findSome? f = some y := by
  intro l hall hmem hfa
  cases l with
  | nil => simp at hmem
  | cons x xs =>
    have : x = a := hall x (by simp)
    subst this
    simp [hfa]

theorem lookupIn_holds (b : Block) (id : FID) (e : Entry) (h : Holds b id e) : lookupIn b id = some (b, e) := by
  have hff : findFirst b.entries id.val = some e := by
    unfold findFirst
    exact find?_unique _ b.entries e h.mem (by simp [h.id_eq]) (fun e' he' hp => h.unique e' he' (by simpa using hp))
  have htag := h.tag
  unfold lookupIn
  by_cases h0 : id.typ = 0
  · simp only [h0, if_true] at htag
    simp [h0, hff, htag]
  · simp only [h0, if_false] at htag
    have hfft : findFirstWithTag b.entries id.val 0#64 = some e := by
      unfold findFirstWithTag
      exact find?_unique _ b.entries e h.mem (by simp [h.id_eq, htag])
        (fun e' he' hp => h.unique e' he' (by
          simp only [Bool.and_eq_true, beq_iff_eq] at hp
          exact hp.1))
    by_cases h2 : id.typ = 2
    · have hne := h.nonempty h2
      simp [h2, hfft, hne]
    · split
      · rename_i heq; exact absurd heq h0
      · rename_i heq; exact absurd heq h2
      · simp [hfft]

/-- routing by membership: one block of the type carries the namespace, and every such block is that block -/
theorem lookup_of_unique (ix : Index) (id : FID) (n : Nat) (hn : nsEncode ix.nt id.ns = some n) (b : Block) (e : Entry)
    (hmem : b ∈ ix.blocks) (htyp : b.typ = id.typ) (hhdr : nssGet b.hdr id.typ = ns16 n)
    (huniq : ∀ b' ∈ ix.blocks, b'.typ = id.typ → nssGet b'.hdr id.typ = ns16 n → b' = b)
    (h : Holds b id e) : lookup ix id = some (b, e) := by
  unfold lookup blocksFor
  simp only [hn]
  refine findSome?_all_eq _ b (b, e) _ ?_ ?_ (lookupIn_holds b id e h)
  · intro x hx
    have ⟨hx1, hx2⟩ := List.mem_filter.mp hx
    simp only [Bool.and_eq_true, beq_iff_eq] at hx2
    exact huniq x hx1 hx2.1 hx2.2
  · exact List.mem_filter.mpr ⟨hmem, by simp [htyp, hhdr]⟩

/-! ## what `Accepts` says about one feature -/

theorem invertTag_ok (x : FTag) (hx : x.val.ok = true) : (invertTag x).val.ok = true := by
  obtain ⟨k, v⟩ := x
  cases v with
  | list l =>
    simp only [invertTag]
    split
    · simp only [Val.ok, List.all_eq_true] at hx ⊢
      intro e he
      exact hx e (List.mem_reverse.mp he)
    · exact hx
  | str s => exact hx
  | pt p => exact hx
  | fid i => exact hx

theorem invertTags_ok : ∀ ts : List FTag, (∀ t ∈ ts, t.val.ok = true) → ∀ t ∈ invertTags ts, t.val.ok = true := by
  intro ts
  induction ts with
  | nil => intro _ t ht; simp [invertTags] at ht
  | cons x xs ih =>
    intro h t ht
    unfold invertTags at ht
    split at ht
    · rcases List.mem_cons.mp ht with rfl | ht'
      · exact invertTag_ok x (h x (by simp))
      · exact h t (by simp [ht'])
    · rcases List.mem_cons.mp ht with rfl | ht'
      · exact h t (by simp)
      · exact ih (fun y hy => h y (by simp [hy])) t ht'

theorem validated_tags_ok (fs : List Feature) (f : Feature) (h : ∀ t ∈ f.tags, t.val.ok = true) :
    ∀ t ∈ (validated fs f).tags, t.val.ok = true := by
  unfold validated
  split
  · exact invertTags_ok f.tags h
  · exact h

theorem validated_of_not_path (fs : List Feature) (f : Feature) (h : f.id.typ ≠ 1) : validated fs f = f := by
  unfold validated
  have : (f.id.typ == 1) = false := by simpa using h
  simp [this]

end B6.Model.CompactIndex
