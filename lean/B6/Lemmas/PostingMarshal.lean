import B6.Model.Posting
import B6.Lemmas.Varint
import B6.Lemmas.Posting
/-!
# Posting lists, part 5: `NewIterator` reads back what `PostingList.Marshal` wrote

`unmarshal (marshal p) = some p` whenever the header fields fit their Go types (`uint64` lengths / counts / indices,
`uint16` TypeAndNamespace).
-/
namespace B6.Model.Posting
open B6.Model.Varint

theorem drop_putUvarint (v : Nat) (rest : Bytes) : (putUvarint v ++ rest).drop (putUvarint v).length = rest := by
  simp

theorem unmarshalNss_marshal : ∀ (nss : List NsIndex) (rest : Bytes),
    (∀ e ∈ nss, e.1 < 65536 ∧ e.2 < 2 ^ 64) →
    unmarshalNss nss.length (nss.flatMap (fun e => putUvarint e.1 ++ putUvarint e.2) ++ rest) = some (nss, rest) := by
  intro nss
  induction nss with
  | nil => intro rest _; rfl
  | cons e nss ih =>
    intro rest h
    obtain ⟨h1, h2⟩ := h e (by simp)
    have ih' := ih rest (fun x hx => h x (by simp [hx]))
    simp only [List.flatMap_cons, List.length_cons, List.append_assoc]
    unfold unmarshalNss
    rw [uvarint_putUvarint_append e.1 (by omega)]
    simp only [drop_putUvarint]
    rw [uvarint_putUvarint_append e.2 h2]
    simp only [drop_putUvarint]
    rw [ih']
    have : e.1 % 65536 = e.1 := Nat.mod_eq_of_lt h1
    simp only [this]

/-- **`NewIterator(Marshal(p))` sees `p`** -/
theorem unmarshal_marshal (p : PostingList) (h1 : p.header.token.length < 2 ^ 64) (h2 : p.header.features < 2 ^ 64)
    (h3 : p.header.namespaces.length < 2 ^ 64)
    (h4 : ∀ e ∈ p.header.namespaces, e.1 < 65536 ∧ e.2 < 2 ^ 64) : unmarshal (marshal p) = some p := by
  obtain ⟨⟨token, features, nss⟩, ids⟩ := p
  simp only at h1 h2 h3 h4
  unfold unmarshal marshal marshalHeader marshalNss
  simp only [List.append_assoc]
  rw [uvarint_putUvarint_append _ h1]
  simp only [drop_putUvarint]
  have hlt : ¬ (token ++ (putUvarint features ++ (putUvarint nss.length ++
      (nss.flatMap (fun e => putUvarint e.1 ++ putUvarint e.2) ++ ids)))).length < token.length := by
    simp only [List.length_append]; omega
  rw [if_neg hlt]
  have hdrop : (token ++ (putUvarint features ++ (putUvarint nss.length ++
      (nss.flatMap (fun e => putUvarint e.1 ++ putUvarint e.2) ++ ids)))).drop token.length
      = putUvarint features ++ (putUvarint nss.length ++
      (nss.flatMap (fun e => putUvarint e.1 ++ putUvarint e.2) ++ ids)) := by simp
  have htake : (token ++ (putUvarint features ++ (putUvarint nss.length ++
      (nss.flatMap (fun e => putUvarint e.1 ++ putUvarint e.2) ++ ids)))).take token.length = token := by simp
  rw [hdrop, htake, uvarint_putUvarint_append _ h2]
  simp only [drop_putUvarint]
  rw [uvarint_putUvarint_append _ h3]
  simp only [drop_putUvarint]
  rw [unmarshalNss_marshal nss ids h4]

/-! ## the header `Fill` produces fits the wire types -/

theorem encodeFrom_nss_tn : ∀ (rest : List Id) (s : Enc) (e : NsIndex),
    e ∈ (encodeFrom s rest).2 → ∃ id ∈ rest, e.1 = id.1 := by
  intro rest
  induction rest with
  | nil => intro s e he; simp [encodeFrom] at he
  | cons id rest ih =>
    intro s e he
    rw [encodeFrom_cons] at he
    dsimp only at he
    rcases List.mem_append.1 he with h | h
    · refine ⟨id, by simp, ?_⟩
      by_cases hf : FreshCond s id
      · rw [appendStep_fresh hf] at h
        dsimp only at h
        split at h
        · simp only [Option.toList_some, List.mem_singleton] at h
          rw [h]
        · simp at h
      · rw [appendStep_delta hf] at h
        simp at h
    · obtain ⟨id', h1, h2⟩ := ih _ e h
      exact ⟨id', by simp [h1], h2⟩

theorem sorted_length_le {nss : List NsIndex} (hs : NssSorted nss) {B : Nat} (hB : ∀ e ∈ nss, e.2 < B) :
    nss.length ≤ B := by
  have key : ∀ i (hi : i < nss.length), i ≤ nss[i].2 := by
    intro i
    induction i with
    | zero => intro _; exact Nat.zero_le _
    | succ i ih =>
      intro hi
      have h1 := ih (by omega)
      have := List.pairwise_iff_getElem.1 hs i (i + 1) (by omega) hi (by omega)
      omega
  by_cases h0 : nss.length = 0
  · omega
  · have hl : nss.length - 1 < nss.length := by omega
    have h1 := key (nss.length - 1) hl
    have h2 := hB nss[nss.length - 1] (List.getElem_mem hl)
    omega

/-- **the marshalled bytes iterate to the ids**: `NewIterator(Marshal(Fill(ids)))` drains to `ids`. -/
theorem drain_unmarshal_marshal_fill (token : Bytes) (ids : List Id) (hv : ValidIds ids) (hs : SortedIds ids)
    (htn : ∀ id ∈ ids, id.1 < 65536) (htok : token.length < 2 ^ 64) (hcount : ids.length < 2 ^ 64)
    (hbuf : (fill token ids).ids.length < 2 ^ 64) :
    (unmarshal (marshal (fill token ids))).bind drain = some ids := by
  have hin := fill_nss_inRange token ids
  have h4 : ∀ e ∈ (fill token ids).header.namespaces, e.1 < 65536 ∧ e.2 < 2 ^ 64 := by
    intro e he
    obtain ⟨id, hid, heq⟩ := encodeFrom_nss_tn ids Enc.init e he
    have := hin e he
    exact ⟨by rw [heq]; exact htn id hid, by omega⟩
  have h3 : (fill token ids).header.namespaces.length < 2 ^ 64 := by
    have := sorted_length_le (fill_nss_sorted token ids) hin
    omega
  rw [unmarshal_marshal (fill token ids) htok hcount h3 h4]
  exact drain_fill token ids hv hs

end B6.Model.Posting
