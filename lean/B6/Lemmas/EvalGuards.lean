import B6.Model.EvalGuards
import B6.Lemmas.VM
/-!
Lemmas for C23: the decoder, the interpreter and `Simplify` never produce the outcome `panic`;
`Simplify` keeps lambda-free programs lambda-free.
-/
namespace B6.Lemmas.EvalGuards
open B6.Model B6.Model.EvalGuards

/-- an outcome that is a value or an error (or "the model ran out of fuel"), not a panic -/
def NoPanic {α : Type} (r : Res α) : Prop := r ≠ .error .panic

theorem noPanic_ok {α} (a : α) : NoPanic (.ok a : Res α) := by simp [NoPanic]
theorem noPanic_err {α} : NoPanic (.error .error : Res α) := by simp [NoPanic]
theorem noPanic_fuel {α} : NoPanic (.error .fuel : Res α) := by simp [NoPanic]

/-! ### decoding -/

mutual
  theorem decodeQuery_noPanic : ∀ (q : PQuery), NoPanic (decodeQuery q)
    | .unset | .all | .empty | .keyed _ | .tagged _ _ | .cap _ _ | .point _ | .feature _ _ _ | .other _ => by
      simp [decodeQuery, NoPanic]
    | .typed _ none => by simp [decodeQuery, NoPanic]
    | .typed t (some c) => by
      have ih := decodeQuery_noPanic c
      simp only [decodeQuery]
      cases h : decodeQuery c with
      | ok q => simp [NoPanic]
      | error e => simp [NoPanic, h] at ih ⊢; exact ih
    | .inter qs => by
      have ih := decodeQueries_noPanic qs
      simp only [decodeQuery]
      cases h : decodeQueries qs with
      | ok q => simp [NoPanic]
      | error e => simp [NoPanic, h] at ih ⊢; exact ih
    | .union qs => by
      have ih := decodeQueries_noPanic qs
      simp only [decodeQuery]
      cases h : decodeQueries qs with
      | ok q => simp [NoPanic]
      | error e => simp [NoPanic, h] at ih ⊢; exact ih
  theorem decodeQueries_noPanic : ∀ (qs : List PQuery), NoPanic (decodeQueries qs)
    | [] => by simp [decodeQueries, NoPanic]
    | q :: qs => by
      have ih1 := decodeQuery_noPanic q
      have ih2 := decodeQueries_noPanic qs
      simp only [decodeQueries]
      cases h1 : decodeQuery q with
      | ok r =>
        cases h2 : decodeQueries qs with
        | ok rs => simp [NoPanic]
        | error e => simp [NoPanic, h2] at ih2 ⊢; exact ih2
      | error e => simp [NoPanic, h1] at ih1 ⊢; exact ih1
end

mutual
  theorem decodeLit_noPanic : ∀ (l : PLit), NoPanic (decodeLit l)
    | .unset | .int _ | .str _ | .featureID _ _ _ | .geojson | .feature | .pair | .appliedChange | .other _ _ => by
      simp [decodeLit, NoPanic]
    | .query q => by
      have ih := decodeQuery_noPanic q
      simp only [decodeLit]
      cases h : decodeQuery q with
      | ok r => simp [NoPanic]
      | error e => simp [NoPanic, h] at ih ⊢; exact ih
    | .collection ks vs => by
      have ih1 := decodeLits_noPanic ks
      have ih2 := decodeLits_noPanic vs
      simp only [decodeLit]
      split
      · simp [NoPanic]
      · cases h1 : decodeLits ks with
        | ok r =>
          cases h2 : decodeLits vs with
          | ok rs => simp [NoPanic]
          | error e => simp [NoPanic, h2] at ih2 ⊢; exact ih2
        | error e => simp [NoPanic, h1] at ih1 ⊢; exact ih1
  theorem decodeLits_noPanic : ∀ (ls : List PLit), NoPanic (decodeLits ls)
    | [] => by simp [decodeLits, NoPanic]
    | l :: ls => by
      have ih1 := decodeLit_noPanic l
      have ih2 := decodeLits_noPanic ls
      simp only [decodeLits]
      cases h1 : decodeLit l with
      | ok r =>
        cases h2 : decodeLits ls with
        | ok rs => simp [NoPanic]
        | error e => simp [NoPanic, h2] at ih2 ⊢; exact ih2
      | error e => simp [NoPanic, h1] at ih1 ⊢; exact ih1
end

mutual
  theorem decodeNode_noPanic : ∀ (n : PNode), NoPanic (decodeNode n)
    | .unset | .sym _ => by simp [decodeNode, NoPanic]
    | .lit l => by
      have ih := decodeLit_noPanic l
      simp only [decodeNode]
      cases h : decodeLit l with
      | ok r => simp [NoPanic]
      | error e => simp [NoPanic, h] at ih ⊢; exact ih
    | .call none _ _ => by simp [decodeNode, NoPanic]
    | .call (some fn) args p => by
      have ih1 := decodeNode_noPanic fn
      have ih2 := decodeNodes_noPanic args
      simp only [decodeNode]
      cases h1 : decodeNode fn with
      | error e => simp [NoPanic, h1] at ih1 ⊢; exact ih1
      | ok f =>
        cases h2 : decodeNodes args with
        | ok as => simp [NoPanic]
        | error e => simp [NoPanic, h2] at ih2 ⊢; exact ih2
    | .lam _ none => by simp [decodeNode, NoPanic]
    | .lam ps (some body) => by
      have ih := decodeNode_noPanic body
      simp only [decodeNode]
      cases h : decodeNode body with
      | ok r => simp [NoPanic]
      | error e => simp [NoPanic, h] at ih ⊢; exact ih
  theorem decodeNodes_noPanic : ∀ (ns : List PNode), NoPanic (decodeNodes ns)
    | [] => by simp [decodeNodes, NoPanic]
    | n :: ns => by
      have ih1 := decodeNode_noPanic n
      have ih2 := decodeNodes_noPanic ns
      simp only [decodeNodes]
      cases h1 : decodeNode n with
      | error e => simp [NoPanic, h1] at ih1 ⊢; exact ih1
      | ok r =>
        cases h2 : decodeNodes ns with
        | ok rs => simp [NoPanic]
        | error e => simp [NoPanic, h2] at ih2 ⊢; exact ih2
end

theorem decode_noPanic : ∀ (req : Option PNode), NoPanic (decode req)
  | none => by simp [decode, NoPanic]
  | some n => by simpa [decode] using decodeNode_noPanic n

/-! ### the reference interpreter never panics -/

theorem convert_noPanic (t : Ty) (v : Val) : NoPanic (convert t v) := by
  unfold convert
  split <;> first
    | (simp [NoPanic]; done)
    | (simp only [NoPanic]; split <;> simp)

theorem convertAll_noPanic : ∀ (ts : List Ty) (vs : List Val), NoPanic (convertAll ts vs)
  | [], [] => by simp [convertAll, NoPanic]
  | [], _ :: _ => by simp [convertAll, NoPanic]
  | _ :: _, [] => by simp [convertAll, NoPanic]
  | t :: ts, v :: vs => by
    have h1 := convert_noPanic t v
    have h2 := convertAll_noPanic ts vs
    simp only [convertAll, bind, Except.bind]
    cases hc : convert t v with
    | error e => simp [NoPanic, hc] at h1 ⊢; exact h1
    | ok c =>
      cases hcs : convertAll ts vs with
      | error e => simp [NoPanic, hcs] at h2 ⊢; exact h2
      | ok cs => simp [NoPanic, pure, Except.pure]

mutual
  theorem evalWith_noPanic (app : Val → List Val → Res Val) (happ : ∀ f args, NoPanic (app f args)) :
      ∀ (env : Env) (e : Expr), NoPanic (evalWith app env e)
    | env, .sym s => by
      simp only [evalWith]
      cases env.lookup s with
      | some v => simp [NoPanic]
      | none => cases Builtin.ofName s <;> simp [NoPanic]
    | _, .lit _ => by simp [evalWith, NoPanic]
    | _, .lam _ _ => by simp [evalWith, NoPanic]
    | env, .call f args _ => by
      have ihA := evalArgs_noPanic app happ env args
      simp only [evalWith]
      cases hA : evalArgs app env args with
      | error e => simp [NoPanic, hA] at ihA ⊢; exact ihA
      | ok vs =>
        cases f with
        | sym s =>
          simp only []
          cases Builtin.ofName s with
          | some b => exact happ _ _
          | none => simp [NoPanic]
        | lit l => simp [NoPanic]
        | lam ps b =>
          have ihF := evalWith_noPanic app happ env (.lam ps b)
          simp only []
          cases hF : evalWith app env (.lam ps b) with
          | error e => simp [NoPanic, hF] at ihF ⊢; exact ihF
          | ok fv =>
            simp only []
            split
            · exact happ _ _
            · simp [NoPanic]
        | call g gs p =>
          have ihF := evalWith_noPanic app happ env (.call g gs p)
          simp only []
          cases hF : evalWith app env (.call g gs p) with
          | error e => simp [NoPanic, hF] at ihF ⊢; exact ihF
          | ok fv =>
            simp only []
            split
            · exact happ _ _
            · simp [NoPanic]
  theorem evalArgs_noPanic (app : Val → List Val → Res Val) (happ : ∀ f args, NoPanic (app f args)) :
      ∀ (env : Env) (as : List Expr), NoPanic (evalArgs app env as)
    | _, [] => by simp [evalArgs, NoPanic]
    | env, a :: as => by
      have ih1 := evalWith_noPanic app happ env a
      have ih2 := evalArgs_noPanic app happ env as
      simp only [evalArgs]
      cases h1 : evalWith app env a with
      | error e => simp [NoPanic, h1] at ih1 ⊢; exact ih1
      | ok v =>
        cases h2 : evalArgs app env as with
        | error e => simp [NoPanic, h2] at ih2 ⊢; exact ih2
        | ok vs => simp [NoPanic]
end

theorem applyFn_noPanic : ∀ (fuel : Nat) (f : Val) (args : List Val), NoPanic (applyFn fuel f args)
  | 0, _, _ => by simp [applyFn, NoPanic]
  | fuel + 1, f, args => by
    have ih := applyFn_noPanic fuel
    cases f with
    | builtin b =>
      simp only [applyFn]
      split
      · simp [NoPanic]
      · split
        · have hc := convertAll_noPanic (b.paramsAt args.length) args
          cases hcs : convertAll (b.paramsAt args.length) args with
          | error e => simp [NoPanic, hcs] at hc ⊢; exact hc
          | ok cs =>
            simp only []
            cases b.step cs with
            | value v => simp [NoPanic]
            | fail => simp [NoPanic]
            | tail g xs => exact ih g xs
        · simp [NoPanic]
    | closure ps body env =>
      simp only [applyFn]
      split
      · exact evalWith_noPanic _ (ih) _ _
      · split <;> simp [NoPanic]
    | part g bs snap =>
      simp only [applyFn]
      cases g.arity with
      | none => simp [NoPanic]
      | some m =>
        simp only []
        split
        · exact ih _ _
        · split <;> simp [NoPanic]
    | int _ => simp [applyFn, NoPanic]
    | str _ => simp [applyFn, NoPanic]
    | query _ => simp [applyFn, NoPanic]
    | other _ _ => simp [applyFn, NoPanic]
    | pair _ _ => simp [applyFn, NoPanic]
    | lam _ _ => simp [applyFn, NoPanic]

theorem interp_noPanic (fuel : Nat) (e : Expr) : NoPanic (interp fuel e) := by
  unfold interp
  split
  · exact evalWith_noPanic _ (applyFn_noPanic fuel) _ _
  · simp [NoPanic]

/-! ### `Simplify` keeps lambda-free programs lambda-free -/

open Simplify in
theorem pickFunction_lambdaFree (argc : String → Option Nat) (f f' mf : Expr)
    (h1 : f'.lambdaFree = true) (h2 : mf.lambdaFree = true) : (pickFunction argc f f' mf).lambdaFree = true := by
  unfold pickFunction
  split
  · exact h1
  · split
    · exact h1
    · exact h2
  · exact h1

open Simplify in
theorem simpArgsWith_lambdaFree (simp : Expr → Option (Expr × Expr))
    (hs : ∀ e s m, e.lambdaFree = true → simp e = some (s, m) → s.lambdaFree = true ∧ m.lambdaFree = true) :
    ∀ (as as' : List Expr), Expr.lambdaFrees as = true → simpArgsWith simp as = some as' → Expr.lambdaFrees as' = true
  | [], as', _, h => by
    simp [simpArgsWith] at h; subst h; rfl
  | a :: as, as', hl, h => by
    simp only [Expr.lambdaFrees, Bool.and_eq_true] at hl
    simp only [simpArgsWith] at h
    cases h1 : simp a with
    | none => simp [h1] at h
    | some r =>
      obtain ⟨a', ma⟩ := r
      cases h2 : simpArgsWith simp as with
      | none => simp [h1, h2] at h
      | some rest =>
        simp [h1, h2] at h
        subst h
        have := hs a a' ma hl.1 h1
        have ih := simpArgsWith_lambdaFree simp hs as rest hl.2 h2
        simp [Expr.lambdaFrees, this.1, ih]

open Simplify in
theorem postCall_lambdaFree (argc : String → Option Nat) (simp : Expr → Option (Expr × Expr))
    (f : Expr) (args : List Expr) (p : Bool) (s : Expr)
    (hf : f.lambdaFree = true) (ha : Expr.lambdaFrees args = true)
    (h : postCall argc simp f args p = some s) : s.lambdaFree = true := by
  unfold postCall at h
  split at h
  · -- [], .sym s
    split at h
    · split at h <;> (injection h with h; subst h; simp [Expr.lambdaFree, Expr.lambdaFrees])
    · injection h with h; subst h; simp [Expr.lambdaFree, Expr.lambdaFrees]
  · -- [], .lam [] body : impossible
    simp [Expr.lambdaFree] at hf
  · -- _, .sym s
    split at h
    · injection h with h; subst h; simp [Expr.lambdaFree]
    · injection h with h; subst h; simp [Expr.lambdaFree, ha]
  · injection h with h; subst h; simp [Expr.lambdaFree, hf, ha]

open Simplify in
theorem simplifyBoth_lambdaFree (argc : String → Option Nat) :
    ∀ (fuel : Nat) (e s m : Expr), e.lambdaFree = true → simplifyBoth argc fuel e = some (s, m) →
      s.lambdaFree = true ∧ m.lambdaFree = true
  | 0, _, _, _, _, h => by simp [simplifyBoth] at h
  | fuel + 1, e, s, m, hl, h => by
    have ih := simplifyBoth_lambdaFree argc fuel
    cases e with
    | sym x => simp [simplifyBoth] at h; obtain ⟨rfl, rfl⟩ := h; simp [Expr.lambdaFree]
    | lit l =>
      cases l with
      | query q => simp [simplifyBoth] at h; obtain ⟨rfl, rfl⟩ := h; simp [Expr.lambdaFree]
      | int i => simp [simplifyBoth] at h; obtain ⟨rfl, rfl⟩ := h; simp [Expr.lambdaFree]
      | str i => simp [simplifyBoth] at h; obtain ⟨rfl, rfl⟩ := h; simp [Expr.lambdaFree]
      | other k t => simp [simplifyBoth] at h; obtain ⟨rfl, rfl⟩ := h; simp [Expr.lambdaFree]
    | lam ps b => simp [Expr.lambdaFree] at hl
    | call f args p =>
      simp only [Expr.lambdaFree, Bool.and_eq_true] at hl
      simp only [simplifyBoth, simpCall] at h
      cases h1 : simplifyBoth argc fuel f with
      | none => simp [h1] at h
      | some r =>
        obtain ⟨f', mf⟩ := r
        cases h2 : simpArgsWith (simplifyBoth argc fuel) args with
        | none => simp [h1, h2] at h
        | some args' =>
          simp only [h1, h2, Option.map_eq_some_iff] at h
          obtain ⟨s', hp, hs⟩ := h
          injection hs with hs1 hs2
          subst hs1; subst hs2
          have hf := ih f f' mf hl.1 h1
          have ha := simpArgsWith_lambdaFree _ ih args args' hl.2 h2
          refine ⟨postCall_lambdaFree argc _ _ args' p _ (pickFunction_lambdaFree argc f f' mf hf.1 hf.2) ha hp, ?_⟩
          simp [Expr.lambdaFree, hf.2, ha]

theorem simplify_lambdaFree (e s : Expr) (hl : e.lambdaFree = true) (h : simplify e = some s) : s.lambdaFree = true := by
  unfold simplify simplifyWith at h
  cases h1 : Simplify.simplifyBoth Simplify.tableArgcV (e.size + 1) e with
  | none => simp [h1] at h
  | some r =>
    obtain ⟨s', m⟩ := r
    simp [h1] at h
    subst h
    exact (simplifyBoth_lambdaFree _ _ e s' m hl h1).1

end B6.Lemmas.EvalGuards
