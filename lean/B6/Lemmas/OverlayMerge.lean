import B6.Model.OverlayWorld
/-!
Simulation proof for the merge iterator `overlayFeatures` (ingest/overlay.go) — C16:
`mergeIter_eq`: the iterator yields exactly `merge overlay (base without the filtered IDs)`.
-/
namespace B6.Lemmas.OverlayMerge
open B6.Model.OverlayWorld

variable {α : Type}

/-- the base elements the filter lets through -/
def keepBase (filter : Id → Bool) (l : List (Id × α)) : List (Id × α) := l.filter fun z => !filter z.1

theorem advLoop_spec (filter : Id → Bool) : ∀ (r : List (Id × α)) (old : Id),
    match keepBase filter r with
    | [] => ∃ id, advLoop filter old r = (⟨[], none⟩, false, id)
    | y :: ys => ∃ r', advLoop filter old r = (⟨r', some y⟩, true, y.1) ∧ keepBase filter r' = ys := by
  intro r
  induction r with
  | nil => intro old; exact ⟨old, rfl⟩
  | cons x xs ih =>
    intro old
    by_cases hx : filter x.1 = true
    · have : keepBase filter (x :: xs) = keepBase filter xs := by simp [keepBase, hx]
      rw [this]
      simp only [advLoop, hx, ↓reduceIte]
      exact ih x.1
    · have hx' : filter x.1 = false := by simpa using hx
      have : keepBase filter (x :: xs) = x :: keepBase filter xs := by simp [keepBase, hx']
      rw [this]
      simp only [advLoop, hx', Bool.false_eq_true, ↓reduceIte]
      exact ⟨xs, rfl, rfl⟩

/-- a started iterator whose current overlay / base elements are the heads of `ovL` / `baseL` -/
structure Abs (filter : Id → Bool) (o : OF α) (ovL baseL : List (Id × α)) : Prop where
  started : o.started = true
  ov : match ovL with
    | [] => o.overlayOK = false
    | x :: xs => o.overlayOK = true ∧ o.overlay.cur = some x ∧ o.overlay.rest = xs ∧ o.overlayID = x.1
  base : match baseL with
    | [] => o.baseOK = false
    | y :: ys => o.baseOK = true ∧ o.base.cur = some y ∧ o.baseID = y.1 ∧ keepBase filter o.base.rest = ys

/-- what remains after the current (minimum) element -/
def popMin : List (Id × α) → List (Id × α) → List (Id × α) × List (Id × α)
  | [], [] => ([], [])
  | [], _ :: ys => ([], ys)
  | _ :: xs, [] => (xs, [])
  | x :: xs, y :: ys => if idLt x.1 y.1 then (xs, y :: ys) else (x :: xs, ys)

theorem merge_popMin (ovL baseL : List (Id × α)) :
    merge (popMin ovL baseL).1 (popMin ovL baseL).2 = (merge ovL baseL).tail := by
  cases ovL with
  | nil => cases baseL <;> simp [popMin, merge]
  | cons x xs =>
    cases baseL with
    | nil =>
      simp only [popMin]
      cases xs <;> simp [merge]
    | cons y ys =>
      simp only [popMin]
      rw [merge]
      by_cases h : idLt x.1 y.1 = true <;> simp [h]

theorem abs_advanceOverlay {filter : Id → Bool} {o : OF α} {x : Id × α} {xs baseL : List (Id × α)}
    (h : Abs filter o (x :: xs) baseL) : Abs filter o.advanceOverlay xs baseL := by
  obtain ⟨hs, ⟨h1, h2, h3, h4⟩, hb⟩ := h
  unfold OF.advanceOverlay
  rw [h3]
  cases xs with
  | nil => exact ⟨hs, rfl, hb⟩
  | cons x' xs' => exact ⟨hs, ⟨rfl, rfl, rfl, rfl⟩, hb⟩

theorem abs_advanceBase {filter : Id → Bool} {o : OF α} {y : Id × α} {ys ovL : List (Id × α)}
    (h : Abs filter o ovL (y :: ys)) : Abs filter (o.advanceBase filter) ovL ys := by
  obtain ⟨hs, ho, ⟨h1, h2, h3, h4⟩⟩ := h
  unfold OF.advanceBase
  simp only [h1, ↓reduceIte]
  have := advLoop_spec filter o.base.rest o.baseID
  rw [h4] at this
  cases ys with
  | nil =>
    obtain ⟨id, he⟩ := this
    rw [he]
    exact ⟨hs, ho, rfl⟩
  | cons y' ys' =>
    obtain ⟨r', he, hk⟩ := this
    rw [he]
    exact ⟨hs, ho, ⟨rfl, rfl, rfl, hk⟩⟩

theorem abs_advanceBase_nil {filter : Id → Bool} {o : OF α} {ovL : List (Id × α)}
    (h : Abs filter o ovL []) : Abs filter (o.advanceBase filter) ovL [] := by
  obtain ⟨hs, ho, hb⟩ := h
  unfold OF.advanceBase
  simp only at hb
  simp only [hb, Bool.false_eq_true, ↓reduceIte]
  exact ⟨hs, ho, hb⟩

theorem abs_ok {filter : Id → Bool} {o : OF α} {L1 L2 : List (Id × α)} (h : Abs filter o L1 L2) :
    (o.overlayOK || o.baseOK) = !(L1.isEmpty && L2.isEmpty) := by
  obtain ⟨_, ho, hb⟩ := h
  cases L1 <;> cases L2 <;> simp_all

theorem abs_next {filter : Id → Bool} {o : OF α} {L1 L2 : List (Id × α)} (h : Abs filter o L1 L2)
    (hf : ∀ x ∈ L1, filter x.1 = true) (hb : ∀ y ∈ L2, filter y.1 = false) :
    Abs filter (o.next filter).1 (popMin L1 L2).1 (popMin L1 L2).2 := by
  have hs := h.started
  cases L1 with
  | nil =>
    have ho : o.overlayOK = false := h.ov
    cases L2 with
    | nil =>
      simp only [OF.next, hs, ho, Bool.not_true, Bool.false_eq_true, ↓reduceIte, popMin]
      exact abs_advanceBase_nil h
    | cons y ys =>
      simp only [OF.next, hs, ho, Bool.not_true, Bool.false_eq_true, ↓reduceIte, popMin]
      exact abs_advanceBase h
  | cons x xs =>
    obtain ⟨ho1, ho2, ho3, ho4⟩ := h.ov
    cases L2 with
    | nil =>
      have hbk : o.baseOK = false := h.base
      simp only [OF.next, hs, ho1, hbk, Bool.not_true, Bool.false_eq_true, ↓reduceIte, popMin]
      exact abs_advanceOverlay h
    | cons y ys =>
      obtain ⟨hb1, hb2, hb3, hb4⟩ := h.base
      simp only [OF.next, hs, ho1, hb1, Bool.not_true, Bool.false_eq_true, ↓reduceIte, popMin, ho4, hb3]
      by_cases hlt : idLt x.1 y.1 = true
      · simp only [hlt, ↓reduceIte]
        exact abs_advanceOverlay h
      · simp only [hlt, Bool.false_eq_true, ↓reduceIte]
        have hne : ¬ x.1 = y.1 := by
          intro e
          have h1 := hf x List.mem_cons_self
          have h2 := hb y List.mem_cons_self
          rw [e, h2] at h1; cases h1
        simp only [hne, ↓reduceIte]
        exact abs_advanceBase h

theorem abs_head {filter : Id → Bool} {o : OF α} {L1 L2 : List (Id × α)} (h : Abs filter o L1 L2) :
    match merge L1 L2 with
    | [] => True
    | e :: _ => o.featureID = e.1 ∧ o.feature = some e.2.1 ∧ o.fromOverlay = e.2.2 := by
  cases L1 with
  | nil =>
    have ho : o.overlayOK = false := h.ov
    cases L2 with
    | nil => simp [merge]
    | cons y ys =>
      obtain ⟨hb1, hb2, hb3, hb4⟩ := h.base
      simp [merge, OF.featureID, OF.feature, OF.fromOverlay, ho, hb2, hb3]
  | cons x xs =>
    obtain ⟨ho1, ho2, ho3, ho4⟩ := h.ov
    cases L2 with
    | nil =>
      have hbk : o.baseOK = false := h.base
      simp [merge, OF.featureID, OF.feature, OF.fromOverlay, ho1, hbk, ho2, ho4]
    | cons y ys =>
      obtain ⟨hb1, hb2, hb3, hb4⟩ := h.base
      rw [merge]
      by_cases hlt : idLt x.1 y.1 = true
      · simp [OF.featureID, OF.feature, OF.fromOverlay, ho1, hb1, ho2, ho4, hb3, hlt]
      · simp [OF.featureID, OF.feature, OF.fromOverlay, ho1, hb1, hb2, ho4, hb3, hlt]

theorem popMin_sub1 (L1 L2 : List (Id × α)) : ∀ x ∈ (popMin L1 L2).1, x ∈ L1 := by
  intro x hx
  cases L1 with
  | nil => cases L2 <;> simp [popMin] at hx
  | cons a as =>
    cases L2 with
    | nil => simp only [popMin] at hx; exact List.mem_cons_of_mem _ hx
    | cons b bs =>
      simp only [popMin] at hx
      split at hx
      · exact List.mem_cons_of_mem _ hx
      · exact hx

theorem popMin_sub2 (L1 L2 : List (Id × α)) : ∀ x ∈ (popMin L1 L2).2, x ∈ L2 := by
  intro x hx
  cases L1 with
  | nil =>
    cases L2 with
    | nil => simp [popMin] at hx
    | cons b bs => simp only [popMin] at hx; exact List.mem_cons_of_mem _ hx
  | cons a as =>
    cases L2 with
    | nil => simp [popMin] at hx
    | cons b bs =>
      simp only [popMin] at hx
      split at hx
      · exact hx
      · exact List.mem_cons_of_mem _ hx

theorem popMin_length (L1 L2 : List (Id × α)) :
    (popMin L1 L2).1.length + (popMin L1 L2).2.length = L1.length + L2.length - 1 := by
  cases L1 with
  | nil => cases L2 <;> simp [popMin]
  | cons a as =>
    cases L2 with
    | nil => simp [popMin]
    | cons b bs =>
      simp only [popMin]
      split <;> simp <;> omega

theorem merge_nil_iff (L1 L2 : List (Id × α)) : merge L1 L2 = [] ↔ (L1.isEmpty && L2.isEmpty) = true := by
  cases L1 with
  | nil => cases L2 <;> simp [merge]
  | cons a as =>
    cases L2 with
    | nil => simp [merge]
    | cons b bs => rw [merge]; split <;> simp

theorem drain_abs (filter : Id → Bool) : ∀ (fuel : Nat) (o : OF α) (L1 L2 : List (Id × α)),
    Abs filter o L1 L2 → (∀ x ∈ L1, filter x.1 = true) → (∀ y ∈ L2, filter y.1 = false) →
    L1.length + L2.length < fuel → OF.drain filter fuel o = some (merge L1 L2).tail := by
  intro fuel
  induction fuel with
  | zero => intro o L1 L2 _ _ _ h; omega
  | succ fuel ih =>
    intro o L1 L2 h hf hb hlen
    have hnext := abs_next h hf hb
    have hok := abs_ok hnext
    have hhead := abs_head hnext
    have hf' : ∀ x ∈ (popMin L1 L2).1, filter x.1 = true := fun x hx => hf x (popMin_sub1 L1 L2 x hx)
    have hb' : ∀ y ∈ (popMin L1 L2).2, filter y.1 = false := fun y hy => hb y (popMin_sub2 L1 L2 y hy)
    rw [← merge_popMin]
    simp only [OF.drain]
    have hok2 : (o.next filter).2 = ((o.next filter).1.overlayOK || (o.next filter).1.baseOK) := by
      simp [OF.next]
    rw [hok2, hok]
    cases hm : merge (popMin L1 L2).1 (popMin L1 L2).2 with
    | nil =>
      have := (merge_nil_iff _ _).mp hm
      simp [this]
    | cons e rest =>
      have hne : ((popMin L1 L2).1.isEmpty && (popMin L1 L2).2.isEmpty) = false := by
        cases hc : ((popMin L1 L2).1.isEmpty && (popMin L1 L2).2.isEmpty) with
        | false => rfl
        | true => rw [(merge_nil_iff _ _).mpr hc] at hm; cases hm
      rw [hm] at hhead
      obtain ⟨h1, h2, h3⟩ := hhead
      have hpos : 0 < (popMin L1 L2).1.length + (popMin L1 L2).2.length := by
        cases h1' : (popMin L1 L2).1 with
        | cons a as => simp only [List.length_cons]; omega
        | nil =>
          cases h2' : (popMin L1 L2).2 with
          | cons b bs => simp only [List.length_cons]; omega
          | nil => simp [h1', h2'] at hne
      have hrec := ih _ _ _ hnext hf' hb' (by have := popMin_length L1 L2; omega)
      rw [hm] at hrec
      simp only [hne, Bool.not_false, ↓reduceIte, h2, hrec, h1, h3, List.tail_cons]

theorem abs_init (filter : Id → Bool) (base ov : List (Id × α)) :
    Abs filter ((OF.init base ov).next filter).1 ov (keepBase filter base) := by
  simp only [OF.next, OF.init, Bool.not_false, ↓reduceIte]
  have hadv := advLoop_spec filter base (0, 0)
  cases ov with
  | nil =>
    simp only [OF.advanceOverlay, OF.advanceBase, ↓reduceIte]
    cases hk : keepBase filter base with
    | nil =>
      rw [hk] at hadv
      obtain ⟨id, he⟩ := hadv
      rw [he]
      exact ⟨rfl, rfl, rfl⟩
    | cons y ys =>
      rw [hk] at hadv
      obtain ⟨r', he, hk'⟩ := hadv
      rw [he]
      exact ⟨rfl, rfl, ⟨rfl, rfl, rfl, hk'⟩⟩
  | cons x xs =>
    simp only [OF.advanceOverlay, OF.advanceBase, ↓reduceIte]
    cases hk : keepBase filter base with
    | nil =>
      rw [hk] at hadv
      obtain ⟨id, he⟩ := hadv
      rw [he]
      exact ⟨rfl, ⟨rfl, rfl, rfl, rfl⟩, rfl⟩
    | cons y ys =>
      rw [hk] at hadv
      obtain ⟨r', he, hk'⟩ := hadv
      rw [he]
      exact ⟨rfl, ⟨rfl, rfl, rfl, rfl⟩, ⟨rfl, rfl, rfl, hk'⟩⟩

/-- the iterator yields exactly the merge of the overlay's sequence with the base's sequence minus the
filtered IDs — for ALL sequences, provided every overlay ID is in the filter. -/
theorem mergeIter_eq (filter : Id → Bool) (base ov : List (Id × α)) (hf : ∀ x ∈ ov, filter x.1 = true) :
    mergeIter filter base ov = some (merge ov (keepBase filter base)) := by
  have hinit := abs_init filter base ov
  have hb : ∀ y ∈ keepBase filter base, filter y.1 = false := by
    intro y hy
    have := (List.mem_filter.mp hy).2
    simpa using this
  have hok := abs_ok hinit
  have hhead := abs_head hinit
  have hlen : (keepBase filter base).length ≤ base.length := List.length_filter_le _ _
  have hdrain := drain_abs filter (base.length + ov.length + 1) _ _ _ hinit hf hb (by omega)
  unfold mergeIter
  show OF.drain filter ((base.length + ov.length + 1) + 1) _ = _
  generalize base.length + ov.length + 1 = n at hdrain ⊢
  simp only [OF.drain]
  have hok2 : ((OF.init base ov).next filter).2 =
      (((OF.init base ov).next filter).1.overlayOK || ((OF.init base ov).next filter).1.baseOK) := by
    simp [OF.next]
  rw [hok2, hok]
  cases hm : merge ov (keepBase filter base) with
  | nil =>
    have := (merge_nil_iff _ _).mp hm
    simp [this]
  | cons e rest =>
    have hne : (ov.isEmpty && (keepBase filter base).isEmpty) = false := by
      cases hc : (ov.isEmpty && (keepBase filter base).isEmpty) with
      | false => rfl
      | true => rw [(merge_nil_iff _ _).mpr hc] at hm; cases hm
    rw [hm] at hhead hdrain
    obtain ⟨h1, h2, h3⟩ := hhead
    simp only [hne, Bool.not_false, ↓reduceIte, h2, hdrain, h1, h3, List.tail_cons]

end B6.Lemmas.OverlayMerge
