import B6.Model.Locksets
/-! Invariants for the C35 models: lock ownership = statically held locks; the fill-once cell; the LRU. -/
namespace B6.Lemmas.Locksets
open B6.Model.Proto B6.Model.Locksets

/-! ## locksets -/

def upd (held : List Nat) (a : Action) : List Nat :=
  match a with
  | .acq l => l :: held
  | .rel l => held.erase l
  | _ => held

theorem heldAfter_snoc (as : List Action) (a : Action) : heldAfter (as ++ [a]) = upd (heldAfter as) a := by
  unfold heldAfter
  rw [List.foldl_append]
  cases a <;> rfl

theorem take_next (t : Thread) (a : Action) (h : t.next = some a) :
    t.prog.take (t.pc + 1) = t.prog.take t.pc ++ [a] := by
  unfold Thread.next at h
  rw [List.take_add_one, h]; rfl

structure LInv (progs : List (List Action)) (s : LState) : Prop where
  shape : s.threads.map (·.prog) = progs
  own : ∀ (l i : Nat), s.owner l = some i ↔ ∃ t, s.threads[i]? = some t ∧ l ∈ heldAfter (t.prog.take t.pc)
  nodup : ∀ (i : Nat) (t : Thread), s.threads[i]? = some t → (heldAfter (t.prog.take t.pc)).Nodup

theorem linv_init (progs : List (List Action)) : LInv progs (linit progs) := by
  refine ⟨by simp [linit, Function.comp_def], ?_, ?_⟩
  · intro l i
    simp only [linit, List.getElem?_map]
    constructor
    · intro h; simp at h
    · rintro ⟨t, ht, hl⟩
      cases hp : progs[i]? with
      | none => simp [hp] at ht
      | some p => simp [hp] at ht; subst ht; simp [heldAfter] at hl
  · intro i t ht
    simp only [linit, List.getElem?_map] at ht
    cases hp : progs[i]? with
    | none => simp [hp] at ht
    | some p => simp [hp] at ht; subst ht; simp [heldAfter]

theorem set_cases {α} {l : List α} {i j : Nat} {c c' cj : α} (hc : l[i]? = some c)
    (h : (l.set i c')[j]? = some cj) : (j = i ∧ cj = c') ∨ (j ≠ i ∧ l[j]? = some cj) := by
  rw [List.getElem?_set] at h
  by_cases e : i = j
  · have hi : i < l.length := (List.getElem?_eq_some_iff.mp hc).1
    simp [e] at h
    rw [← e] at h
    simp [hi] at h
    exact Or.inl ⟨e.symm, h.symm⟩
  · simp [e] at h
    exact Or.inr ⟨fun x => e x.symm, h⟩

theorem set_self {α} {l : List α} {i : Nat} {c c' : α} (hc : l[i]? = some c) : (l.set i c')[i]? = some c' :=
  List.getElem?_set_self (List.getElem?_eq_some_iff.mp hc).1

theorem set_other {α} {l : List α} {i j : Nat} {c' : α} (h : j ≠ i) : (l.set i c')[j]? = l[j]? :=
  List.getElem?_set_ne (fun e => h e.symm)

theorem map_prog_set (ts : List Thread) (i : Nat) (t : Thread) (h : ts[i]? = some t) :
    (ts.set i { t with pc := t.pc + 1 }).map (·.prog) = ts.map (·.prog) := by
  induction ts generalizing i with
  | nil => simp at h
  | cons x rest ih =>
    cases i with
    | zero => simp at h; simp [h]
    | succ i => simp at h; simp [ih i h]

theorem linv_step (progs : List (List Action)) (s s' : LState) (h : LInv progs s) (hs : s' ∈ lstep s) :
    LInv progs s' := by
  obtain ⟨i, t, ht, hs⟩ := mem_forWorkers.mp hs
  unfold threadStep at hs
  cases hn : t.next with
  | none => simp [hn] at hs
  | some a =>
    have htk := take_next t a hn
    -- what the other threads and thread `i` hold afterwards, in terms of `upd`
    have heldNew : heldAfter (t.prog.take (t.pc + 1)) = upd (heldAfter (t.prog.take t.pc)) a := by
      rw [htk, heldAfter_snoc]
    have hnd := h.nodup i t ht
    cases a with
    | acq l =>
      simp only [hn, mem_guard] at hs
      obtain ⟨hfree, rfl⟩ := hs
      have hnot : ∀ (j : Nat) (tj : Thread), s.threads[j]? = some tj → l ∉ heldAfter (tj.prog.take tj.pc) := by
        intro j tj hj hl
        have := (h.own l j).mpr ⟨tj, hj, hl⟩
        rw [hfree] at this; simp at this
      refine ⟨?_, ?_, ?_⟩
      · simp only [advance]; rw [map_prog_set _ _ _ ht]; exact h.shape
      · intro l' j
        simp only [advance]
        constructor
        · intro ho
          by_cases e : l' = l
          · subst e
            simp at ho; subst ho
            exact ⟨_, set_self ht, by simp only [heldNew, upd]; simp⟩
          · simp [e] at ho
            obtain ⟨tj, hj, hl⟩ := (h.own l' j).mp ho
            by_cases e2 : j = i
            · subst e2
              rw [ht] at hj; simp at hj; subst hj
              exact ⟨_, set_self ht, by simp only [heldNew, upd]; exact List.mem_cons_of_mem _ hl⟩
            · exact ⟨tj, by rw [set_other e2]; exact hj, hl⟩
        · rintro ⟨tj, hj, hl⟩
          rcases set_cases ht hj with ⟨rfl, rfl⟩ | ⟨hji, hj⟩
          · simp only [heldNew, upd, List.mem_cons] at hl
            by_cases e : l' = l
            · simp [e]
            · simp only [e, ↓reduceIte]
              rcases hl with hl | hl
              · exact absurd hl e
              · exact (h.own l' j).mpr ⟨t, ht, hl⟩
          · by_cases e : l' = l
            · subst e; exact absurd hl (hnot j tj hj)
            · simp only [e, ↓reduceIte]; exact (h.own l' j).mpr ⟨tj, hj, hl⟩
      · intro j tj hj
        simp only [advance] at hj
        rcases set_cases ht hj with ⟨rfl, rfl⟩ | ⟨_, hj⟩
        · simp only [heldNew, upd]
          exact List.nodup_cons.mpr ⟨hnot j t ht, hnd⟩
        · exact h.nodup j tj hj
    | rel l =>
      simp only [hn, mem_guard] at hs
      obtain ⟨hown, rfl⟩ := hs
      refine ⟨?_, ?_, ?_⟩
      · simp only [advance]; rw [map_prog_set _ _ _ ht]; exact h.shape
      · intro l' j
        simp only [advance]
        constructor
        · intro ho
          by_cases e : l' = l
          · simp [e] at ho
          · simp [e] at ho
            obtain ⟨tj, hj, hl⟩ := (h.own l' j).mp ho
            by_cases e2 : j = i
            · subst e2
              rw [ht] at hj; simp at hj; subst hj
              exact ⟨_, set_self ht, by simp only [heldNew, upd]; exact (List.mem_erase_of_ne e).mpr hl⟩
            · exact ⟨tj, by rw [set_other e2]; exact hj, hl⟩
        · rintro ⟨tj, hj, hl⟩
          rcases set_cases ht hj with ⟨rfl, rfl⟩ | ⟨hji, hj⟩
          · simp only [heldNew, upd] at hl
            have := (List.Nodup.mem_erase_iff hnd).mp hl
            simp only [this.1, ↓reduceIte]
            exact (h.own l' j).mpr ⟨t, ht, this.2⟩
          · by_cases e : l' = l
            · subst e
              have := (h.own l' j).mpr ⟨tj, hj, hl⟩
              rw [hown] at this; simp at this; exact absurd this.symm hji
            · simp only [e, ↓reduceIte]; exact (h.own l' j).mpr ⟨tj, hj, hl⟩
      · intro j tj hj
        simp only [advance] at hj
        rcases set_cases ht hj with ⟨rfl, rfl⟩ | ⟨_, hj⟩
        · simp only [heldNew, upd]; exact hnd.erase _
        · exact h.nodup j tj hj
    | read x =>
      simp only [hn] at hs
      simp at hs; subst hs
      refine ⟨?_, ?_, ?_⟩
      · simp only [advance]; rw [map_prog_set _ _ _ ht]; exact h.shape
      · intro l' j
        simp only [advance]
        constructor
        · intro ho
          obtain ⟨tj, hj, hl⟩ := (h.own l' j).mp ho
          by_cases e2 : j = i
          · subst e2
            rw [ht] at hj; simp at hj; subst hj
            exact ⟨_, set_self ht, by simp only [heldNew, upd]; exact hl⟩
          · exact ⟨tj, by rw [set_other e2]; exact hj, hl⟩
        · rintro ⟨tj, hj, hl⟩
          rcases set_cases ht hj with ⟨rfl, rfl⟩ | ⟨_, hj⟩
          · simp only [heldNew, upd] at hl; exact (h.own l' j).mpr ⟨t, ht, hl⟩
          · exact (h.own l' j).mpr ⟨tj, hj, hl⟩
      · intro j tj hj
        simp only [advance] at hj
        rcases set_cases ht hj with ⟨rfl, rfl⟩ | ⟨_, hj⟩
        · simp only [heldNew, upd]; exact hnd
        · exact h.nodup j tj hj
    | write x =>
      simp only [hn] at hs
      simp at hs; subst hs
      refine ⟨?_, ?_, ?_⟩
      · simp only [advance]; rw [map_prog_set _ _ _ ht]; exact h.shape
      · intro l' j
        simp only [advance]
        constructor
        · intro ho
          obtain ⟨tj, hj, hl⟩ := (h.own l' j).mp ho
          by_cases e2 : j = i
          · subst e2
            rw [ht] at hj; simp at hj; subst hj
            exact ⟨_, set_self ht, by simp only [heldNew, upd]; exact hl⟩
          · exact ⟨tj, by rw [set_other e2]; exact hj, hl⟩
        · rintro ⟨tj, hj, hl⟩
          rcases set_cases ht hj with ⟨rfl, rfl⟩ | ⟨_, hj⟩
          · simp only [heldNew, upd] at hl; exact (h.own l' j).mpr ⟨t, ht, hl⟩
          · exact (h.own l' j).mpr ⟨tj, hj, hl⟩
      · intro j tj hj
        simp only [advance] at hj
        rcases set_cases ht hj with ⟨rfl, rfl⟩ | ⟨_, hj⟩
        · simp only [heldNew, upd]; exact hnd
        · exact h.nodup j tj hj

/-! ## the fill-once cell -/

def inCS (pc : CPc) : Bool := pc == .check || pc == .fill || pc == .ret || pc == .unlock

structure CellInv (compute : Nat) (s : CellState) : Prop where
  hold : ∀ (j : Nat) (c : Caller), s.callers[j]? = some c → (inCS c.pc = true ↔ s.holder = some j)
  val : s.cell = none ∨ s.cell = some compute
  once : (s.cell = none → s.writes = 0) ∧ (s.cell ≠ none → s.writes = 1)
  fillpc : ∀ (j : Nat) (c : Caller), s.callers[j]? = some c → c.pc = .fill → s.cell = none
  retpc : ∀ (j : Nat) (c : Caller), s.callers[j]? = some c → c.pc = .ret → s.cell = some compute
  res : ∀ (j : Nat) (c : Caller), s.callers[j]? = some c → (c.pc = .unlock ∨ c.pc = .done) → c.result = some compute

theorem cellInv_init (compute n : Nat) : CellInv compute (cellInit n) := by
  have hpc : ∀ (j : Nat) (c : Caller), (cellInit n).callers[j]? = some c → c.pc = .lock := by
    intro j c hj
    simp only [cellInit] at hj
    have := List.mem_of_getElem? hj
    rw [List.mem_replicate] at this
    rw [this.2]
  refine ⟨?_, Or.inl rfl, ⟨fun _ => rfl, fun h => absurd rfl h⟩, ?_, ?_, ?_⟩
  · intro j c hj; simp [inCS, hpc j c hj, cellInit]
  · intro j c hj hp; rw [hpc j c hj] at hp; simp at hp
  · intro j c hj hp; rw [hpc j c hj] at hp; simp at hp
  · intro j c hj hp; rw [hpc j c hj] at hp; simp at hp

theorem cellInv_step (compute : Nat) (s s' : CellState) (h : CellInv compute s) (hs : s' ∈ cellStep compute s) :
    CellInv compute s' := by
  obtain ⟨i, c, hc, hs⟩ := mem_forWorkers.mp hs
  have hci := h.hold i c hc
  have others : inCS c.pc = true → ∀ (j : Nat) (cj : Caller), j ≠ i → s.callers[j]? = some cj → inCS cj.pc = false := by
    intro hin j cj hji hj
    have := hci.mp hin
    cases hcs : inCS cj.pc
    · rfl
    · have h2 := (h.hold j cj hj).mp hcs
      rw [this] at h2; simp at h2; exact absurd h2.symm hji
  unfold cellCallerStep at hs
  cases hpc : c.pc <;> simp only [hpc] at hs
  · -- lock
    simp only [mem_guard] at hs
    obtain ⟨hnone, rfl⟩ := hs
    refine ⟨?_, h.val, h.once, ?_, ?_, ?_⟩
    · intro j cj hj
      rcases set_cases hc hj with ⟨rfl, rfl⟩ | ⟨hji, hj⟩
      · simp [inCS]
      · have := h.hold j cj hj
        rw [hnone] at this; simp at this
        simp [this]; exact fun e => hji e.symm
    · intro j cj hj hp
      rcases set_cases hc hj with ⟨_, rfl⟩ | ⟨_, hj⟩
      · simp at hp
      · exact h.fillpc j cj hj hp
    · intro j cj hj hp
      rcases set_cases hc hj with ⟨_, rfl⟩ | ⟨_, hj⟩
      · simp at hp
      · exact h.retpc j cj hj hp
    · intro j cj hj hp
      rcases set_cases hc hj with ⟨_, rfl⟩ | ⟨_, hj⟩
      · simp at hp
      · exact h.res j cj hj hp
  · -- check
    have hin : inCS c.pc = true := by simp [inCS, hpc]
    have hhold := hci.mp hin
    split at hs
    · rename_i hcell
      simp at hs; subst hs
      refine ⟨?_, h.val, h.once, ?_, ?_, ?_⟩
      · intro j cj hj
        rcases set_cases hc hj with ⟨rfl, rfl⟩ | ⟨hji, hj⟩
        · simp [inCS, hhold]
        · exact h.hold j cj hj
      · intro j cj hj hp
        rcases set_cases hc hj with ⟨_, rfl⟩ | ⟨_, hj⟩
        · exact hcell
        · exact h.fillpc j cj hj hp
      · intro j cj hj hp
        rcases set_cases hc hj with ⟨_, rfl⟩ | ⟨_, hj⟩
        · simp at hp
        · exact h.retpc j cj hj hp
      · intro j cj hj hp
        rcases set_cases hc hj with ⟨_, rfl⟩ | ⟨_, hj⟩
        · simp at hp
        · exact h.res j cj hj hp
    · rename_i v hcell
      simp at hs; subst hs
      refine ⟨?_, h.val, h.once, ?_, ?_, ?_⟩
      · intro j cj hj
        rcases set_cases hc hj with ⟨rfl, rfl⟩ | ⟨hji, hj⟩
        · simp [inCS, hhold]
        · exact h.hold j cj hj
      · intro j cj hj hp
        rcases set_cases hc hj with ⟨_, rfl⟩ | ⟨_, hj⟩
        · simp at hp
        · exact h.fillpc j cj hj hp
      · intro j cj hj hp
        rcases set_cases hc hj with ⟨_, rfl⟩ | ⟨_, hj⟩
        · rcases h.val with hv | hv
          · rw [hv] at hcell; simp at hcell
          · exact hv
        · exact h.retpc j cj hj hp
      · intro j cj hj hp
        rcases set_cases hc hj with ⟨_, rfl⟩ | ⟨_, hj⟩
        · simp at hp
        · exact h.res j cj hj hp
  · -- fill
    have hin : inCS c.pc = true := by simp [inCS, hpc]
    have hhold := hci.mp hin
    have hnone := h.fillpc i c hc hpc
    simp at hs; subst hs
    refine ⟨?_, Or.inr rfl, ⟨fun x => by simp at x, fun _ => by simp [h.once.1 hnone]⟩, ?_, ?_, ?_⟩
    · intro j cj hj
      rcases set_cases hc hj with ⟨rfl, rfl⟩ | ⟨hji, hj⟩
      · simp [inCS, hhold]
      · exact h.hold j cj hj
    · intro j cj hj hp
      rcases set_cases hc hj with ⟨_, rfl⟩ | ⟨hji, hj⟩
      · simp at hp
      · have := others hin j cj hji hj; simp [inCS, hp] at this
    · intro j cj hj hp
      rcases set_cases hc hj with ⟨_, rfl⟩ | ⟨hji, hj⟩
      · rfl
      · have := others hin j cj hji hj; simp [inCS, hp] at this
    · intro j cj hj hp
      rcases set_cases hc hj with ⟨_, rfl⟩ | ⟨_, hj⟩
      · simp at hp
      · exact h.res j cj hj hp
  · -- ret
    have hin : inCS c.pc = true := by simp [inCS, hpc]
    have hhold := hci.mp hin
    have hval := h.retpc i c hc hpc
    simp at hs; subst hs
    refine ⟨?_, h.val, h.once, ?_, ?_, ?_⟩
    · intro j cj hj
      rcases set_cases hc hj with ⟨rfl, rfl⟩ | ⟨hji, hj⟩
      · simp [inCS, hhold]
      · exact h.hold j cj hj
    · intro j cj hj hp
      rcases set_cases hc hj with ⟨_, rfl⟩ | ⟨_, hj⟩
      · simp at hp
      · exact h.fillpc j cj hj hp
    · intro j cj hj hp
      rcases set_cases hc hj with ⟨_, rfl⟩ | ⟨_, hj⟩
      · simp at hp
      · exact h.retpc j cj hj hp
    · intro j cj hj hp
      rcases set_cases hc hj with ⟨_, rfl⟩ | ⟨_, hj⟩
      · exact hval
      · exact h.res j cj hj hp
  · -- unlock
    have hin : inCS c.pc = true := by simp [inCS, hpc]
    have hres := h.res i c hc (Or.inl hpc)
    simp at hs; subst hs
    refine ⟨?_, h.val, h.once, ?_, ?_, ?_⟩
    · intro j cj hj
      rcases set_cases hc hj with ⟨rfl, rfl⟩ | ⟨hji, hj⟩
      · simp [inCS]
      · have := others hin j cj hji hj; simp [this]
    · intro j cj hj hp
      rcases set_cases hc hj with ⟨_, rfl⟩ | ⟨_, hj⟩
      · simp at hp
      · exact h.fillpc j cj hj hp
    · intro j cj hj hp
      rcases set_cases hc hj with ⟨_, rfl⟩ | ⟨_, hj⟩
      · simp at hp
      · exact h.retpc j cj hj hp
    · intro j cj hj hp
      rcases set_cases hc hj with ⟨_, rfl⟩ | ⟨_, hj⟩
      · exact hres
      · exact h.res j cj hj hp
  · simp at hs

/-! ## the LRU -/

structure LruInv (cap : Nat) (find : Nat → Option Nat) (s : LruState) : Prop where
  entries : ∀ p ∈ s.cache, find p.1 = some p.2
  size : s.cache.length ≤ cap
  results : ∀ (j : Nat) (q : Querier), s.queriers[j]? = some q → ∀ r ∈ q.results, r.2 = find r.1
  adding : ∀ (j : Nat) (q : Querier) (v : Nat), s.queriers[j]? = some q → q.pc = .add v →
    ∃ id rest, q.todo = id :: rest ∧ find id = some v

theorem cacheGet_some {P : Nat × Nat → Prop} {c : Cache} {id v : Nat} {c' : Cache} (h : cacheGet c id = some (v, c'))
    (hc : ∀ p ∈ c, P p) (hp : ∀ v', (id, v') ∈ c → P (id, v')) :
    (id, v) ∈ c ∧ (∀ p ∈ c', P p) ∧ c'.length ≤ c.length := by
  unfold cacheGet at h
  cases hf : c.find? (fun p => p.1 == id) with
  | none => simp [hf] at h
  | some p =>
    obtain ⟨i, x⟩ := p
    simp [hf] at h
    obtain ⟨rfl, rfl⟩ := h
    have hm := List.mem_of_find?_eq_some hf
    have hi : i = id := by simpa using List.find?_some hf
    subst hi
    refine ⟨hm, ?_, ?_⟩
    · intro p hp'
      rcases List.mem_cons.mp hp' with rfl | hp'
      · exact hp _ hm
      · exact hc p (List.mem_filter.mp hp').1
    · simp only [List.length_cons]
      have h1 : (List.filter (fun p => p.1 != i) c).length + (List.filter (fun p => !(p.1 != i)) c).length = c.length := by
        have := (List.filter_append_perm (fun p : Nat × Nat => p.1 != i) c).length_eq
        simpa using this
      have h2 : 0 < (List.filter (fun p => !(p.1 != i)) c).length := by
        apply List.length_pos_of_mem (a := (i, x))
        exact List.mem_filter.mpr ⟨hm, by simp⟩
      omega

theorem lruInv_init (cap : Nat) (find : Nat → Option Nat) (todos : List (List Nat)) :
    LruInv cap find (lruInit todos) := by
  have hq : ∀ (j : Nat) (q : Querier), (lruInit todos).queriers[j]? = some q → q.pc = .get ∧ q.results = [] := by
    intro j q hj
    simp only [lruInit, List.getElem?_map] at hj
    cases ht : todos[j]? with
    | none => simp [ht] at hj
    | some t => simp [ht] at hj; subst hj; exact ⟨rfl, rfl⟩
  refine ⟨by simp [lruInit], by simp [lruInit], ?_, ?_⟩
  · intro j q hj r hr; rw [(hq j q hj).2] at hr; simp at hr
  · intro j q v hj hp; rw [(hq j q hj).1] at hp; simp at hp

theorem lruInv_step (cap : Nat) (find : Nat → Option Nat) (s s' : LruState) (h : LruInv cap find s)
    (hs : s' ∈ lruStep cap find s) : LruInv cap find s' := by
  obtain ⟨i, q, hq, hs⟩ := mem_forWorkers.mp hs
  have hres := h.results i q hq
  unfold lruQuerierStep at hs
  split at hs
  · simp at hs
  · -- get
    rename_i id rest htodo hpc
    split at hs
    · rename_i v c' hget
      simp at hs; subst hs
      obtain ⟨hm, hall, hlen⟩ := cacheGet_some (P := fun (p : Nat × Nat) => find p.1 = some p.2) hget h.entries
        (fun v' hv' => h.entries _ hv')
      refine ⟨hall, Nat.le_trans hlen h.size, ?_, ?_⟩
      · intro j qj hj r hr
        rcases set_cases hq hj with ⟨_, rfl⟩ | ⟨_, hj⟩
        · simp only [List.mem_append, List.mem_singleton] at hr
          rcases hr with hr | rfl
          · exact hres r hr
          · exact (h.entries _ hm).symm
        · exact h.results j qj hj r hr
      · intro j qj v' hj hp
        rcases set_cases hq hj with ⟨_, rfl⟩ | ⟨_, hj⟩
        · simp at hp
        · exact h.adding j qj v' hj hp
    · simp at hs; subst hs
      refine ⟨h.entries, h.size, ?_, ?_⟩
      · intro j qj hj r hr
        rcases set_cases hq hj with ⟨_, rfl⟩ | ⟨_, hj⟩
        · exact hres r hr
        · exact h.results j qj hj r hr
      · intro j qj v' hj hp
        rcases set_cases hq hj with ⟨_, rfl⟩ | ⟨_, hj⟩
        · simp at hp
        · exact h.adding j qj v' hj hp
  · -- compute
    rename_i id rest htodo hpc
    split at hs
    · rename_i v hfind
      simp at hs; subst hs
      refine ⟨h.entries, h.size, ?_, ?_⟩
      · intro j qj hj r hr
        rcases set_cases hq hj with ⟨_, rfl⟩ | ⟨_, hj⟩
        · exact hres r hr
        · exact h.results j qj hj r hr
      · intro j qj v' hj hp
        rcases set_cases hq hj with ⟨_, rfl⟩ | ⟨_, hj⟩
        · simp at hp; subst hp
          exact ⟨id, rest, htodo, hfind⟩
        · exact h.adding j qj v' hj hp
    · rename_i hfind
      simp at hs; subst hs
      refine ⟨h.entries, h.size, ?_, ?_⟩
      · intro j qj hj r hr
        rcases set_cases hq hj with ⟨_, rfl⟩ | ⟨_, hj⟩
        · simp only [List.mem_append, List.mem_singleton] at hr
          rcases hr with hr | rfl
          · exact hres r hr
          · exact hfind.symm
        · exact h.results j qj hj r hr
      · intro j qj v' hj hp
        rcases set_cases hq hj with ⟨_, rfl⟩ | ⟨_, hj⟩
        · simp at hp
        · exact h.adding j qj v' hj hp
  · -- add
    rename_i id rest v htodo hpc
    obtain ⟨id', rest', htodo', hfind⟩ := h.adding i q v hq hpc
    rw [htodo] at htodo'
    simp at htodo'
    obtain ⟨rfl, rfl⟩ := htodo'
    simp at hs; subst hs
    refine ⟨?_, ?_, ?_, ?_⟩
    · intro p hp
      simp only [cacheAdd] at hp
      have := List.mem_of_mem_take hp
      rcases List.mem_cons.mp this with rfl | hp'
      · exact hfind
      · exact h.entries p (List.mem_filter.mp hp').1
    · simp only [cacheAdd, List.length_take]; omega
    · intro j qj hj r hr
      rcases set_cases hq hj with ⟨_, rfl⟩ | ⟨_, hj⟩
      · simp only [List.mem_append, List.mem_singleton] at hr
        rcases hr with hr | rfl
        · exact hres r hr
        · exact hfind.symm
      · exact h.results j qj hj r hr
    · intro j qj v' hj hp
      rcases set_cases hq hj with ⟨_, rfl⟩ | ⟨_, hj⟩
      · simp at hp
      · exact h.adding j qj v' hj hp
  · simp at hs

end B6.Lemmas.Locksets
