import B6.Lemmas.CompactIndexBuildOk
/-!
# C01 lemmas, part 11: `EachFeature` reports no id twice

The namespace table is strictly sorted (so decoding a block header's namespace is injective), the blocks of one
type carry pairwise different header namespaces, the ids within a block are pairwise different, and iteration is
a permutation of a block's entries.
-/
namespace B6.Model.CompactIndex
open B6.Model.Varint B6.Model.Records
open B6.Model.Containers (Entry)

/-! ## Go's string order on byte lists -/

theorem strLt_irrefl : ∀ a : Str, strLt a a = false := by
  intro a
  induction a with
  | nil => rfl
  | cons x xs ih =>
    have : ¬ x < x := by simp [UInt8.lt_iff_toNat_lt]
    simp [strLt, this, ih]

theorem strLt_trans : ∀ a b c : Str, strLt a b = true → strLt b c = true → strLt a c = true := by
  intro a
  induction a with
  | nil =>
    intro b c hab hbc
    cases b with
    | nil => simp [strLt] at hab
    | cons y ys =>
      cases c with
      | nil => simp [strLt] at hbc
      | cons z zs => rfl
  | cons x xs ih =>
    intro b c hab hbc
    cases b with
    | nil => simp [strLt] at hab
    | cons y ys =>
      cases c with
      | nil => simp [strLt] at hbc
      | cons z zs =>
        simp only [strLt, UInt8.lt_iff_toNat_lt] at hab hbc ⊢
        by_cases h1 : x.toNat < y.toNat
        · by_cases h2 : y.toNat < z.toNat
          · have : x.toNat < z.toNat := by omega
            simp [this]
          · by_cases h3 : z.toNat < y.toNat
            · simp [h2, h3] at hbc
            · have : x.toNat < z.toNat := by omega
              simp [this]
        · by_cases h1' : y.toNat < x.toNat
          · simp [h1, h1'] at hab
          · simp only [h1, h1', if_false] at hab
            by_cases h2 : y.toNat < z.toNat
            · have : x.toNat < z.toNat := by omega
              simp [this]
            · by_cases h3 : z.toNat < y.toNat
              · simp [h2, h3] at hbc
              · simp only [h2, h3, if_false] at hbc
                have e1 : ¬ x.toNat < z.toNat := by omega
                have e2 : ¬ z.toNat < x.toNat := by omega
                simp only [e1, e2, if_false]
                exact ih ys zs hab hbc

theorem strLt_total : ∀ a b : Str, a ≠ b → strLt a b = true ∨ strLt b a = true := by
  intro a
  induction a with
  | nil =>
    intro b hne
    cases b with
    | nil => exact absurd rfl hne
    | cons y ys => exact Or.inl rfl
  | cons x xs ih =>
    intro b hne
    cases b with
    | nil => exact Or.inr rfl
    | cons y ys =>
      simp only [strLt, UInt8.lt_iff_toNat_lt]
      by_cases h1 : x.toNat < y.toNat
      · simp [h1]
      · by_cases h2 : y.toNat < x.toNat
        · simp [h1, h2]
        · have hxy : x = y := UInt8.toNat_inj.mp (by omega)
          subst hxy
          have : xs ≠ ys := fun h => hne (by rw [h])
          simp only [h1, if_false]
          exact ih ys this

/-! ## the namespace table is strictly sorted -/

def StrSorted (l : List Str) : Prop := l.Pairwise fun a b => strLt a b = true

theorem insertNs_sorted (s : Str) : ∀ l : List Str, StrSorted l → StrSorted (insertNs s l) := by
  intro l
  induction l with
  | nil => intro _; simp [insertNs, StrSorted]
  | cons x xs ih =>
    intro h
    unfold StrSorted at h ih ⊢
    rw [List.pairwise_cons] at h
    unfold insertNs
    by_cases h1 : (s == x) = true
    · simp only [h1, if_true]
      exact List.pairwise_cons.mpr h
    · simp only [h1, Bool.false_eq_true, if_false]
      by_cases h2 : strLt s x = true
      · simp only [h2, if_true]
        refine List.pairwise_cons.mpr ⟨?_, List.pairwise_cons.mpr h⟩
        intro y hy
        rcases List.mem_cons.mp hy with rfl | hy
        · exact h2
        · exact strLt_trans s x y h2 (h.1 y hy)
      · simp only [h2, Bool.false_eq_true, if_false]
        have hne : s ≠ x := by intro e; subst e; simp at h1
        have hxs : strLt x s = true := by
          rcases strLt_total s x hne with h' | h'
          · exact absurd h' h2
          · exact h'
        refine List.pairwise_cons.mpr ⟨?_, ih h.2⟩
        intro y hy
        rcases (mem_insertNs s y xs).mp hy with rfl | hy
        · exact hxs
        · exact h.1 y hy

theorem nsTable_nodup (fs : List Feature) : (nsTable fs).Nodup := by
  have hs : StrSorted (nsTable fs) := by
    unfold nsTable
    generalize ([] :: nsOsmNode :: nsOsmWay :: nsOsmRel :: fs.flatMap mentioned) = l
    induction l with
    | nil => simp [StrSorted]
    | cons x xs ih => exact insertNs_sorted x _ ih
  unfold StrSorted at hs
  refine hs.imp ?_
  intro a b hab heq
  subst heq
  rw [strLt_irrefl] at hab
  simp at hab

/-- two positions of the table holding the same namespace are the same position -/
theorem nsTable_index_inj (fs : List Feature) (i j : Nat) (s : Str) (hi : (nsTable fs)[i]? = some s)
    (hj : (nsTable fs)[j]? = some s) : i = j := by
  have hnd := nsTable_nodup fs
  have hi' : i < (nsTable fs).length := by
    rcases Nat.lt_or_ge i (nsTable fs).length with h | h
    · exact h
    · simp [List.getElem?_eq_none h] at hi
  have hj' : j < (nsTable fs).length := by
    rcases Nat.lt_or_ge j (nsTable fs).length with h | h
    · exact h
    · simp [List.getElem?_eq_none h] at hj
  rw [List.getElem?_eq_getElem hi'] at hi
  rw [List.getElem?_eq_getElem hj'] at hj
  exact (List.getElem_inj (h₀ := hi') (h₁ := hj') hnd).mp (by rw [Option.some.inj hi, Option.some.inj hj])

/-! ## iteration is a permutation; ids within a block are distinct -/

theorem iterInsert_perm (bits : Nat) (e : Entry) : ∀ l : List Entry, (iterInsert bits e l).Perm (e :: l) := by
  intro l
  induction l with
  | nil => exact List.Perm.refl _
  | cons x xs ih =>
    unfold iterInsert
    split
    · exact List.Perm.refl _
    · exact ((List.Perm.cons x ih).trans (List.Perm.swap e x xs))

theorem iterIds_perm (b : Block) : (iterIds b).Perm b.entries := by
  unfold iterIds
  generalize b.entries = l
  induction l with
  | nil => exact List.Perm.refl _
  | cons x xs ih =>
    simp only [List.foldr_cons]
    exact (iterInsert_perm b.bits x _).trans (List.Perm.cons x ih)

theorem dedupVals_nodup : ∀ l : List (BitVec 64), (dedupVals l).Nodup := by
  intro l
  induction l with
  | nil => simp [dedupVals]
  | cons x xs ih =>
    simp only [dedupVals]
    refine List.pairwise_cons.mpr ⟨?_, ih.filter _⟩
    intro y hy
    have := (List.mem_filter.mp hy).2
    simpa [bne_iff_ne] using Ne.symm (by simpa using this)

/-- ids pairwise different -/
def DistinctIds (es : List Entry) : Prop := es.Pairwise fun e e' => e.id ≠ e'.id

theorem mapM_except_pairwise {α β ε : Type} (f : α → Except ε β) (R : α → α → Prop) (S : β → β → Prop)
    (H : ∀ a a' b b', R a a' → f a = .ok b → f a' = .ok b' → S b b') :
    ∀ (xs : List α) (ys : List β), xs.Pairwise R → xs.mapM f = .ok ys → ys.Pairwise S := by
  intro xs
  induction xs with
  | nil => intro ys _ h; simp [List.mapM_nil, pure, Except.pure] at h; subst h; simp
  | cons x xs ih =>
    intro ys hR h
    rw [List.mapM_cons] at h
    cases hx : f x with
    | error e => simp [hx, bind, Except.bind] at h
    | ok y =>
      cases hxs : xs.mapM f with
      | error e => simp [hx, hxs, bind, Except.bind] at h
      | ok ys' =>
        simp [hx, hxs, bind, Except.bind, pure, Except.pure] at h
        subst h
        rw [List.pairwise_cons] at hR
        refine List.pairwise_cons.mpr ⟨?_, ih ys' hR.2 hxs⟩
        intro y' hy'
        obtain ⟨x', hx', hfx'⟩ := (mapM_except_mem f xs ys' hxs).1 y' hy'
        exact H x x' y y' (hR.1 x' hx') hx hfx'

theorem idsDistinct_pairwise : ∀ fs : List Feature, idsDistinct fs = true → fs.Pairwise fun f g => f.id ≠ g.id := by
  intro fs
  induction fs with
  | nil => intro _; simp
  | cons x xs ih =>
    intro h
    simp only [idsDistinct, Bool.and_eq_true, List.all_eq_true, bne_iff_ne] at h
    exact List.pairwise_cons.mpr ⟨fun g hg => Ne.symm (h.1 g hg), ih h.2⟩

theorem pointBlock_distinct (c : Ctx) (fs : List Feature) (scr : List (Str × BitVec 64 × Scratch)) (n : Nat) (ns : Str)
    (b : Block) (h : pointBlock c fs scr n ns = some b) : DistinctIds b.entries := by
  unfold pointBlock at h
  simp only at h
  split at h
  · simp at h
  · simp only [Option.some.injEq] at h
    subst h
    unfold DistinctIds
    simp only [List.pairwise_map, combine_id]
    exact dedupVals_nodup _

theorem featureBlock_distinct (c : Ctx) (fs : List Feature) (hd : idsDistinct fs = true) (t n : Nat) (ns : Str) (b : Block)
    (h : featureBlock c fs t n ns = .ok (some b)) : DistinctIds b.entries := by
  have ⟨_, _, hes⟩ := featureBlock_some c fs t n ns b h
  refine mapM_except_pairwise (entryOf c fs t) (fun g g' => g.id.val ≠ g'.id.val) _ ?_ _ _ ?_ hes
  · intro g g' e e' hgg he he'
    rw [(entryOf_spec c fs t g e he).1, (entryOf_spec c fs t g' e' he').1]
    exact hgg
  · unfold keptOf
    rw [List.pairwise_map]
    refine List.pairwise_filter.mpr ((idsDistinct_pairwise fs hd).imp ?_)
    intro f f' hne hp hp'
    simp only [Bool.and_eq_true, beq_iff_eq] at hp hp'
    rw [validated_id, validated_id]
    intro hv
    apply hne
    cases hfi : f.id with
    | mk t1 n1 v1 =>
      cases hfj : f'.id with
      | mk t2 n2 v2 =>
        rw [hfi] at hp hv
        rw [hfj] at hp' hv
        simp only at hp hp' hv
        rw [hp.1.1, hp.1.2, hp'.1.1, hp'.1.2, hv]

/-! ## blocks of one type carry pairwise different namespaces -/

def Sep (b1 b2 : Block) : Prop := b1.typ = b2.typ → nssGet b1.hdr b1.typ ≠ nssGet b2.hdr b1.typ

theorem blockNamespaces_pairwise (nt : List Str) : (blockNamespaces nt).Pairwise fun k k' => k.1 ≠ k'.1 := by
  unfold blockNamespaces
  refine List.Pairwise.of_map Prod.fst (fun a b h => h) ?_
  rw [List.map_fst_zip (by simp)]
  exact List.nodup_range

theorem blockNamespaces_lt (nt : List Str) (k : Nat × Str) (hk : k ∈ blockNamespaces nt) : k.1 < nt.length := by
  have := (mem_blockNamespaces nt k.1 k.2).mp hk
  rcases Nat.lt_or_ge k.1 nt.length with h | h
  · exact h
  · simp [List.getElem?_eq_none h] at this

theorem pointBlock_hdr (c : Ctx) (fs : List Feature) (scr : List (Str × BitVec 64 × Scratch)) (n : Nat) (ns : Str)
    (b : Block) (h : pointBlock c fs scr n ns = some b) : b.typ = 0 ∧ b.hdr = blockHeader c 0 n := by
  unfold pointBlock at h
  simp only at h
  split at h
  · simp at h
  · simp only [Option.some.injEq] at h
    subst h
    exact ⟨rfl, rfl⟩

theorem blockKeys_pairwise (nt : List Str) :
    (blockKeys nt).Pairwise fun k k' => ¬ (k.1 = k'.1 ∧ k.2.1 = k'.2.1) := by
  unfold blockKeys
  rw [List.pairwise_flatMap]
  constructor
  · intro k _
    obtain ⟨n, ns⟩ := k
    simp
  · refine (blockNamespaces_pairwise nt).imp ?_
    intro k k' hne x hx y hy
    obtain ⟨n, ns⟩ := k
    obtain ⟨n', ns'⟩ := k'
    simp only [List.mem_cons, List.not_mem_nil, or_false] at hx hy
    simp only at hne
    rcases hx with rfl | rfl | rfl <;> rcases hy with rfl | rfl | rfl <;> simp [hne]

theorem build_sep (strs : List Str) (fs : List Feature) (ix : Index) (h : build strs fs = .ok ix)
    (hsmall : (nsTable fs).length ≤ 8192) : ix.blocks.Pairwise Sep := by
  unfold build at h
  split at h
  · simp at h
  · cases hosm : osmNamespaces (nsTable fs) with
    | none => simp [hosm, bind, Except.bind] at h
    | some osm =>
      simp only [hosm, orPanic_some, bind, Except.bind] at h
      cases hscr : fs.mapM (scratchOf ⟨nsTable fs, strs, osm⟩ fs) with
      | error e => simp [hscr] at h
      | ok scr =>
        simp only [hscr] at h
        cases hrest : (blockKeys (nsTable fs)).mapM
            (fun k => featureBlock ⟨nsTable fs, strs, osm⟩ fs k.1 k.2.1 k.2.2) with
        | error e => simp [hrest] at h
        | ok rest =>
          simp only [hrest, pure, Except.pure, Except.ok.injEq] at h
          subst h
          simp only
          rw [List.pairwise_append]
          refine ⟨?_, ?_, ?_⟩
          · -- point blocks
            rw [List.pairwise_filterMap]
            have hkn : (blockNamespaces (nsTable fs)).Pairwise fun k k' =>
                k ∈ blockNamespaces (nsTable fs) ∧ k' ∈ blockNamespaces (nsTable fs) ∧ k.1 ≠ k'.1 :=
              List.Pairwise.and_mem.mp (blockNamespaces_pairwise (nsTable fs))
            refine hkn.imp ?_
            intro k k' ⟨hk, hk', hne⟩ b hb b' hb' _
            obtain ⟨n, ns⟩ := k
            obtain ⟨n', ns'⟩ := k'
            have ⟨h1, h2⟩ := pointBlock_hdr _ fs _ n ns b hb
            have ⟨_, h2'⟩ := pointBlock_hdr _ fs _ n' ns' b' hb'
            rw [h1, h2, h2']
            intro heq
            have hl := blockNamespaces_lt _ _ hk
            have hl' := blockNamespaces_lt _ _ hk'
            simp only at hl hl' hne
            exact hne (ns16_inj n n' (by omega) (by omega) heq)
          · -- path / area / relation blocks
            rw [List.pairwise_filterMap]
            have hkeys : (blockKeys (nsTable fs)).Pairwise fun k k' =>
                k ∈ blockKeys (nsTable fs) ∧ k' ∈ blockKeys (nsTable fs) ∧ ¬ (k.1 = k'.1 ∧ k.2.1 = k'.2.1) :=
              List.Pairwise.and_mem.mp (blockKeys_pairwise (nsTable fs))
            refine mapM_except_pairwise _ _ _ ?_ _ _ hkeys hrest
            intro k k' ob ob' ⟨hk, hk', hne⟩ hfk hfk' b hb b' hb' htyp
            simp only [id] at hb hb'
            subst hb hb'
            obtain ⟨t, n, ns⟩ := k
            obtain ⟨t', n', ns'⟩ := k'
            simp only at hfk hfk' hne
            have ⟨h1, h2, _⟩ := featureBlock_some _ fs t n ns b hfk
            have ⟨h1', h2', _⟩ := featureBlock_some _ fs t' n' ns' b' hfk'
            have hkk := (mem_blockKeys _ _).mp hk
            have hkk' := (mem_blockKeys _ _).mp hk'
            simp only at hkk hkk'
            have htt : t = t' := by rw [← h1, ← h1', htyp]
            subst htt
            rw [h1, h2, h2', nssGet_blockHeader _ t n hkk.1, nssGet_blockHeader _ t n' hkk.1]
            intro heq
            have hl : n < (nsTable fs).length := by
              rcases Nat.lt_or_ge n (nsTable fs).length with h | h
              · exact h
              · simp [List.getElem?_eq_none h] at hkk
            have hl' : n' < (nsTable fs).length := by
              rcases Nat.lt_or_ge n' (nsTable fs).length with h | h
              · exact h
              · simp [List.getElem?_eq_none h] at hkk'
            exact hne ⟨rfl, ns16_inj n n' (by omega) (by omega) heq⟩
          · -- a point block and another block have different types
            intro a ha b hb htyp
            exfalso
            simp only [List.mem_filterMap] at ha hb
            obtain ⟨⟨n, ns⟩, _, hpa⟩ := ha
            obtain ⟨ob, hob, hid⟩ := hb
            simp only [id] at hid
            subst hid
            have h0 := (pointBlock_hdr _ fs _ n ns a hpa).1
            obtain ⟨k, hk, hfk⟩ := (mapM_except_mem _ _ rest hrest).1 _ hob
            have ⟨h1, _, _⟩ := featureBlock_some _ fs k.1 k.2.1 k.2.2 b hfk
            have := ((mem_blockKeys _ k).mp hk).1
            rw [← h1, ← htyp, h0] at this
            omega

/-! ## no id twice -/

/-- the id `EachFeature` reports for an entry -/
def reportOf (ix : Index) (t : Nat) (b : Block) (e : Entry) : Option FID :=
  if t == 0 && e.tag == 2#64 then none
  else (nsDecode ix.nt (nssGet b.hdr t).toNat).map fun ns => ⟨t, ns, e.id⟩

theorem each_eq (ix : Index) : each ix = [0, 1, 2, 3].flatMap fun t =>
    (ix.blocks.filter (·.typ == t)).flatMap fun b => (iterIds b).filterMap (reportOf ix t b) := rfl

theorem reportOf_spec (ix : Index) (t : Nat) (b : Block) (e : Entry) (x : FID) (h : reportOf ix t b e = some x) :
    x.typ = t ∧ x.val = e.id ∧ nsDecode ix.nt (nssGet b.hdr t).toNat = some x.ns := by
  unfold reportOf at h
  split at h
  · simp at h
  · simp only [Option.map_eq_some_iff] at h
    obtain ⟨ns, hns, rfl⟩ := h
    exact ⟨rfl, rfl, hns⟩

theorem blocks_distinct (strs : List Str) (fs : List Feature) (ix : Index) (c : Ctx)
    (scr : List (List (Str × BitVec 64 × Scratch))) (hb : Built strs fs ix c) (hp : BuiltPoints fs ix c scr)
    (hd : idsDistinct fs = true) : ∀ b ∈ ix.blocks, DistinctIds b.entries := by
  intro b hbm
  rcases hb.hblocks b hbm with h0 | ⟨k, _, hfk⟩
  · obtain ⟨n, ns, _, hpb⟩ := hp.hpts b hbm h0
    exact pointBlock_distinct c fs _ n ns b hpb
  · exact featureBlock_distinct c fs hd k.1 k.2.1 k.2.2 b hfk

/-- **`EachFeature` reports no id twice** (after a successful build of a source with distinct ids) -/
theorem each_nodup (strs : List Str) (fs : List Feature) (ix : Index) (hbuild : build strs fs = .ok ix)
    (hd : idsDistinct fs = true) (hsmall : (nsTable fs).length ≤ 8192) : (each ix).Nodup := by
  obtain ⟨c, scr, hb, hp⟩ := build_points strs fs ix hbuild
  have hsep := build_sep strs fs ix hbuild hsmall
  have hdist := blocks_distinct strs fs ix c scr hb hp hd
  rw [each_eq]
  unfold List.Nodup
  rw [List.pairwise_flatMap]
  constructor
  · -- one type
    intro t _
    rw [List.pairwise_flatMap]
    constructor
    · -- one block
      intro b hbf
      have hbm := (List.mem_filter.mp hbf).1
      rw [List.pairwise_filterMap]
      have hents : (iterIds b).Pairwise fun e e' => e.id ≠ e'.id :=
        (iterIds_perm b).symm.pairwise (hdist b hbm) (fun h => Ne.symm h)
      refine hents.imp ?_
      intro e e' hne x hx y hy hxy
      have h1 := (reportOf_spec ix t b e x hx).2.1
      have h2 := (reportOf_spec ix t b e' y hy).2.1
      apply hne
      rw [← h1, ← h2, hxy]
    · -- two blocks of the type
      rw [List.pairwise_filter]
      refine hsep.imp ?_
      intro b1 b2 hs hp1 hp2 x hx y hy hxy
      simp only [beq_iff_eq] at hp1 hp2
      simp only [List.mem_filterMap] at hx hy
      obtain ⟨e, _, hxe⟩ := hx
      obtain ⟨e', _, hye⟩ := hy
      have h1 := (reportOf_spec ix t b1 e x hxe).2.2
      have h2 := (reportOf_spec ix t b2 e' y hye).2.2
      rw [hxy] at h1
      unfold nsDecode at h1 h2
      rw [hb.hnt] at h1 h2
      have := nsTable_index_inj fs _ _ _ h1 h2
      have heq : nssGet b1.hdr t = nssGet b2.hdr t := BitVec.eq_of_toNat_eq this
      exact hs (by rw [hp1, hp2]) (by rw [hp1]; exact heq)
  · -- two types
    have htyp : ∀ t, ∀ x ∈ (ix.blocks.filter (·.typ == t)).flatMap (fun b => (iterIds b).filterMap (reportOf ix t b)),
        x.typ = t := by
      intro t x hx
      simp only [List.mem_flatMap, List.mem_filterMap] at hx
      obtain ⟨b, _, e, _, hxe⟩ := hx
      exact (reportOf_spec ix t b e x hxe).1
    have h4 : ([0, 1, 2, 3] : List Nat).Pairwise (· ≠ ·) := by decide
    refine h4.imp ?_
    intro t1 t2 hne x hx y hy hxy
    have a := htyp t1 x hx
    have b := htyp t2 y hy
    rw [hxy] at a
    exact hne (a.symm.trans b)

/-- **`EachFeature` enumerates the source exactly**: a duplicate free permutation of the ids -/
theorem each_perm (strs : List Str) (fs : List Feature) (ix : Index) (hbuild : build strs fs = .ok ix)
    (hacc : Accepts strs fs = true) : (each ix).Perm (fs.map (·.id)) ∧ (each ix).Nodup := by
  have hA := accepts_facts strs fs hacc
  have hnd := each_nodup strs fs ix hbuild hA.distinct hA.small
  refine ⟨?_, hnd⟩
  have hnd2 : (fs.map (·.id)).Nodup := by
    unfold List.Nodup
    rw [List.pairwise_map]
    exact idsDistinct_pairwise fs hA.distinct
  rw [List.perm_ext_iff_of_nodup hnd hnd2]
  intro x
  constructor
  · intro hx
    obtain ⟨f, hf, rfl⟩ := each_sound strs fs ix hbuild hA.small x hx
    exact List.mem_map.mpr ⟨f, hf, rfl⟩
  · intro hx
    obtain ⟨f, hf, rfl⟩ := List.mem_map.mp hx
    exact each_complete strs fs ix hbuild hacc f hf

end B6.Model.CompactIndex
