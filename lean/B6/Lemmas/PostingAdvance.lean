import B6.Lemmas.Posting
import B6.Lemmas.PostingTable
/-!
# Posting lists, part 3: canonical cursor states, `sort.Search`, the scan loop of `Advance`

* `Ctx pl tbl ids`   — everything known about an encoder output `pl` of the sorted valid list `ids` and a good table.
* `Canon pl ids it done rest` — the iterator state `it` is the one reached by reading exactly `done` (`ids = done ++ rest`):
  the layout of `rest` starts at `it.i`, `it.value`/`it.ns` describe the last id of `done`, and the first id of the
  block `it.i` lies in is known to be in `done`.
* `canon_next`, `canon_end` — `Next` moves between canonical states / returns false at the end.
* `atBlock_canon` — `Next` from a block start with stale namespace / value lands in a canonical state.
* `searchLoop_spec` — the invariant of `sort.Search` that `Advance` needs (`r = 0 ∨ ¬ f (r-1)`), no monotonicity assumed.
* `scan_canon`, `scan_atBlock` — the loop `for i.Next() { if !i.FeatureID().Less(id) { return true } }`.
-/
namespace B6.Model.Posting
open B6.Model.Varint

/-! ## `sort.Search` -/

theorem searchLoop_spec (f : Nat → Except Err Bool) (n : Nat) (hf : ∀ h, h < n → ∃ b, f h = .ok b) :
    ∀ fuel i j, j - i < fuel → i ≤ j → j ≤ n → (0 < i → f (i - 1) = .ok false) →
    ∃ r, searchLoop f fuel i j = .ok r ∧ r ≤ n ∧ (0 < r → f (r - 1) = .ok false) := by
  intro fuel
  induction fuel with
  | zero => intro i j h; omega
  | succ fuel ih =>
    intro i j hfu hij hjn hinv
    unfold searchLoop
    by_cases hlt : i < j
    · rw [if_pos hlt]
      have hh : (i + j) / 2 < n := by omega
      obtain ⟨b, hb⟩ := hf _ hh
      cases b with
      | false =>
        simp only [hb]
        exact ih ((i + j) / 2 + 1) j (by omega) (by omega) hjn (fun _ => by
          have : (i + j) / 2 + 1 - 1 = (i + j) / 2 := by omega
          rw [this]; exact hb)
      | true =>
        simp only [hb]
        exact ih i ((i + j) / 2) (by omega) (by omega) (by omega) hinv
    · rw [if_neg hlt]
      exact ⟨i, rfl, by omega, hinv⟩

theorem search_spec (f : Nat → Except Err Bool) (n : Nat) (hf : ∀ h, h < n → ∃ b, f h = .ok b) :
    ∃ r, search n f = .ok r ∧ r ≤ n ∧ (0 < r → f (r - 1) = .ok false) := by
  unfold search
  exact searchLoop_spec f n hf (n + 1) 0 n (by omega) (Nat.zero_le _) (Nat.le_refl _) (fun h => by omega)

/-! ## order facts -/

theorem idLt_trans {a b c : Id} (h1 : idLt a b) (h2 : idLt b c) : idLt a c := by
  unfold idLt at *; omega

theorem idLt_irrefl (a : Id) : ¬ idLt a a := by unfold idLt; omega

theorem not_idLt {a b : Id} (h : ¬ idLt a b) : b = a ∨ idLt b a := by
  unfold idLt at *
  by_cases h1 : b.1 = a.1
  · by_cases h2 : b.2 = a.2
    · left; exact Prod.ext h1 h2
    · right; omega
  · right; omega

theorem sorted_split {a b : List Id} (h : SortedIds (a ++ b)) : ∀ x ∈ a, ∀ y ∈ b, idLt x y := by
  unfold SortedIds at h
  rw [List.pairwise_append] at h
  exact h.2.2

/-! ## context and canonical states -/

/-- what is known about the posting list `pl` built from `ids`, and the namespace table -/
structure Ctx (pl : PostingList) (tbl : Table) (ids : List Id) : Prop where
  lay : Lay pl.ids pl.header.namespaces 0 0 0 ids
  sortedNs : NssSorted pl.header.namespaces
  aligned : ∀ e ∈ pl.header.namespaces, e.2 % 64 = 0
  inRange : ∀ e ∈ pl.header.namespaces, e.2 < pl.ids.length
  sorted : SortedIds ids
  valid : ValidIds ids
  tblOK : TableOK tbl
  tnOK : ∀ id ∈ ids, TnOK tbl id.1

/-- `it` is the state of an iterator that has read exactly `done` -/
structure Canon (pl : PostingList) (ids : List Id) (it : It) (done rest : List Id) : Prop where
  split : ids = done ++ rest
  lay : Lay pl.ids pl.header.namespaces it.i it.value it.ns rest
  start : done = [] → it = It.start
  cur : ∀ c, done.getLast? = some c →
    it.value = c.2 ∧ (∃ idx, pl.header.namespaces[it.ns]? = some (c.1, idx) ∧ idx ≤ it.i) ∧ 0 < it.i
  block : ∀ c, done.getLast? = some c → it.i % 64 ≠ 0 →
    ∃ aB idB cB, ids = aB ++ idB :: cB ∧
      AtBlock pl.ids pl.header.namespaces (it.i / 64 * 64) it.ns idB cB ∧ aB.length < done.length
  nextNs : ∀ c, done.getLast? = some c → ∀ e, pl.header.namespaces[it.ns + 1]? = some e → it.i ≤ e.2

theorem canon_start {pl : PostingList} {tbl : Table} {ids : List Id} (ctx : Ctx pl tbl ids) :
    Canon pl ids It.start [] ids where
  split := rfl
  lay := ctx.lay
  start := fun _ => rfl
  cur := fun c h => by simp at h
  block := fun c h => by simp at h
  nextNs := fun c h => by simp at h

theorem canon_cur {pl : PostingList} {ids : List Id} {it : It} {done rest : List Id} {c : Id}
    (hc : Canon pl ids it done rest) (hl : done.getLast? = some c) : cur pl it = .ok c := by
  obtain ⟨hv, ⟨idx, hk, _⟩, _⟩ := hc.cur c hl
  unfold B6.Model.Posting.cur
  rw [hk]
  simp only [hv]

theorem canon_end {pl : PostingList} {ids : List Id} {it : It} {done : List Id}
    (hc : Canon pl ids it done []) : next pl it = .ok (false, it) := by
  have h := hc.lay
  unfold Lay at h
  unfold next
  have : it.i ≥ pl.ids.length := by omega
  simp only [this, if_true]

theorem canon_next {pl : PostingList} {tbl : Table} {ids : List Id} (ctx : Ctx pl tbl ids)
    {it : It} {done rest : List Id} {id : Id} (hc : Canon pl ids it done (id :: rest)) :
    ∃ it', next pl it = .ok (true, it') ∧ cur pl it' = .ok id ∧ Canon pl ids it' (done ++ [id]) rest := by
  obtain ⟨k, p, prev⟩ := it
  have hlay : Lay pl.ids pl.header.namespaces p prev k (id :: rest) := hc.lay
  obtain ⟨p', k', hn, ⟨idx, hk', hidx⟩, hkk, hpp, hrest, hcase⟩ := next_lay ctx.sortedNs hlay
  refine ⟨⟨k', p', id.2⟩, hn, ?_, ?_⟩
  · unfold B6.Model.Posting.cur; simp only [hk']
  · refine ⟨by rw [hc.split]; simp, hrest, fun h => by simp at h, ?_, ?_, ?_⟩
    · intro c hl
      simp only [List.getLast?_append, List.getLast?_singleton, Option.some_or, Option.some.injEq] at hl
      subst hl
      exact ⟨rfl, ⟨idx, hk', hidx⟩, by simp only; omega⟩
    rotate_left
    · intro c hl e he
      simp only at he ⊢
      have hal := ctx.aligned e (List.mem_of_getElem? he)
      rcases hcase with ⟨hp64, hk'k, hle, hnx⟩ | ⟨hat, hp'⟩
      · rw [hk'k] at he
        have := hnx e he
        omega
      · have hn10 := putUvarint_length_le id.2
        have := hat.2.2.2.2.1 e he
        have hmod := padLen_mod p
        omega
    · intro c hl h64
      simp only at h64
      rcases hcase with ⟨hp64, hk'k, hle, _⟩ | ⟨hat, hp'⟩
      · -- same block as before
        have hdone : done ≠ [] := by
          intro h0
          have := hc.start h0
          simp only [It.start, It.mk.injEq] at this
          omega
        obtain ⟨c0, hc0⟩ : ∃ c0, done.getLast? = some c0 := by
          cases hd : done.getLast? with
          | none => rw [List.getLast?_eq_none_iff] at hd; exact absurd hd hdone
          | some c0 => exact ⟨c0, rfl⟩
        obtain ⟨aB, idB, cB, h1, h2, h3⟩ := hc.block c0 hc0 hp64
        simp only at h2
        refine ⟨aB, idB, cB, h1, ?_, by simp only [List.length_append, List.length_singleton]; omega⟩
        have : p' / 64 * 64 = p / 64 * 64 := by omega
        simp only
        rw [this, hk'k]; exact h2
      · -- the id just read starts its block
        have hn10 := putUvarint_length_le id.2
        have hmod := padLen_mod p
        refine ⟨done, id, rest, hc.split, ?_, by simp⟩
        have : p' / 64 * 64 = p + padLen p := by omega
        simp only
        rw [this]; exact hat

/-- `Next` from a block start (stale namespace index / value) lands in the canonical state after the block's first id -/
theorem atBlock_canon {pl : PostingList} {tbl : Table} {ids : List Id} (ctx : Ctx pl tbl ids)
    {aB cB : List Id} {idB : Id} {q k' : Nat} (hsplit : ids = aB ++ idB :: cB)
    (hat : AtBlock pl.ids pl.header.namespaces q k' idB cB) (k0 val : Nat) (hk : k0 ≤ k') :
    next pl ⟨k0, q, val⟩ = .ok (true, ⟨k', q + (putUvarint idB.2).length, idB.2⟩) ∧
      cur pl ⟨k', q + (putUvarint idB.2).length, idB.2⟩ = .ok idB ∧
      Canon pl ids ⟨k', q + (putUvarint idB.2).length, idB.2⟩ (aB ++ [idB]) cB := by
  have hn := next_atBlock ctx.sortedNs hat k0 val hk
  have hat' := hat
  obtain ⟨hq, hv, hp, ⟨idx, hk', hidx⟩, hnext, hrest⟩ := hat
  have hn1 := putUvarint_length_pos idB.2
  have hn10 := putUvarint_length_le idB.2
  refine ⟨hn, ?_, ?_⟩
  · unfold B6.Model.Posting.cur; simp only [hk']
  · refine ⟨by rw [hsplit]; simp, hrest, fun h => by simp at h, ?_, ?_, ?_⟩
    · intro c hl
      simp only [List.getLast?_append, List.getLast?_singleton, Option.some_or, Option.some.injEq] at hl
      subst hl
      exact ⟨rfl, ⟨idx, hk', by simp only; omega⟩, by simp only; omega⟩
    rotate_left
    · intro c hl e he
      simp only at he ⊢
      have hal := ctx.aligned e (List.mem_of_getElem? he)
      have := hnext e he
      omega
    · intro c hl h64
      refine ⟨aB, idB, cB, hsplit, ?_, by simp⟩
      have : (q + (putUvarint idB.2).length) / 64 * 64 = q := by omega
      simp only
      rw [this]; exact hat'

/-! ## the scan loop -/

/-- what the scan loop started in `it0` does on the remaining ids `l` (`done` already read): it stops on the
first id that is not `< T`, in its canonical state; or runs off the end. -/
def ScanSpec (pl : PostingList) (tbl : Table) (ids : List Id) (T : Id) (it0 : It) (fuel : Nat)
    (done l : List Id) : Prop :=
  (∀ x hi, l.dropWhile (fun x => decide (idLt x T)) = x :: hi →
    ∃ it', scan pl tbl (keyOf tbl T) fuel it0 = .ok (some it') ∧ cur pl it' = .ok x ∧
      Canon pl ids it' (done ++ l.takeWhile (fun x => decide (idLt x T)) ++ [x]) hi) ∧
  (l.dropWhile (fun x => decide (idLt x T)) = [] → scan pl tbl (keyOf tbl T) fuel it0 = .ok none)

theorem scan_step {pl : PostingList} {tbl : Table} {ids : List Id} (ctx : Ctx pl tbl ids)
    {T : Id} (hT : TnOK tbl T.1) {it0 it' : It} {fuel : Nat} {done rest : List Id} {id : Id}
    (hn : next pl it0 = .ok (true, it')) (hcur : cur pl it' = .ok id) (hid : TnOK tbl id.1)
    (hcanon : Canon pl ids it' (done ++ [id]) rest)
    (hrec : ScanSpec pl tbl ids T it' fuel (done ++ [id]) rest) :
    ScanSpec pl tbl ids T it0 (fuel + 1) done (id :: rest) := by
  have hfid : featureID pl tbl it' = .ok (keyOf tbl id) := by
    unfold featureID; rw [hcur]; exact decodeId_ok hid
  have hless : (keyOf tbl id).less (keyOf tbl T) = decide (idLt id T) := less_keyOf ctx.tblOK hid hT
  by_cases hlt : idLt id T
  · have hd : (id :: rest).dropWhile (fun x => decide (idLt x T)) = rest.dropWhile (fun x => decide (idLt x T)) := by
      rw [List.dropWhile_cons]; simp [hlt]
    have ht : (id :: rest).takeWhile (fun x => decide (idLt x T)) = id :: rest.takeWhile (fun x => decide (idLt x T)) := by
      rw [List.takeWhile_cons]; simp [hlt]
    have hs : scan pl tbl (keyOf tbl T) (fuel + 1) it0 = scan pl tbl (keyOf tbl T) fuel it' := by
      conv => lhs; unfold scan
      simp only [hn, hfid, hless, hlt, decide_true, Bool.not_true]
      rfl
    refine ⟨?_, ?_⟩
    · intro x hi hx
      rw [hd] at hx
      obtain ⟨it'', h1, h2, h3⟩ := hrec.1 x hi hx
      refine ⟨it'', by rw [hs]; exact h1, h2, ?_⟩
      rw [ht]
      simpa [List.append_assoc] using h3
    · intro hx
      rw [hd] at hx
      rw [hs]; exact hrec.2 hx
  · have hd : (id :: rest).dropWhile (fun x => decide (idLt x T)) = id :: rest := by
      rw [List.dropWhile_cons]; simp [hlt]
    have ht : (id :: rest).takeWhile (fun x => decide (idLt x T)) = [] := by
      rw [List.takeWhile_cons]; simp [hlt]
    have hs : scan pl tbl (keyOf tbl T) (fuel + 1) it0 = .ok (some it') := by
      conv => lhs; unfold scan
      simp only [hn, hfid, hless, hlt, decide_false, Bool.not_false, if_true]
    refine ⟨?_, ?_⟩
    · intro x hi hx
      rw [hd] at hx
      simp only [List.cons.injEq] at hx
      obtain ⟨hx1, hx2⟩ := hx
      subst hx1; subst hx2
      refine ⟨it', hs, hcur, ?_⟩
      rw [ht]
      simpa using hcanon
    · intro hx
      rw [hd] at hx
      simp at hx

theorem mem_of_split {ids done rest : List Id} {id : Id} (h : ids = done ++ id :: rest) : id ∈ ids := by
  rw [h]; simp

theorem scan_canon {pl : PostingList} {tbl : Table} {ids : List Id} (ctx : Ctx pl tbl ids)
    {T : Id} (hT : TnOK tbl T.1) :
    ∀ (rest done : List Id) (it : It) (fuel : Nat), Canon pl ids it done rest → rest.length < fuel →
      ScanSpec pl tbl ids T it fuel done rest := by
  intro rest
  induction rest with
  | nil =>
    intro done it fuel hc hf
    cases fuel with
    | zero => simp at hf
    | succ fuel =>
      refine ⟨fun x hi hx => by simp at hx, fun _ => ?_⟩
      unfold scan
      rw [canon_end hc]
  | cons id rest ih =>
    intro done it fuel hc hf
    cases fuel with
    | zero => simp at hf
    | succ fuel =>
      obtain ⟨it', hn, hcur, hcanon⟩ := canon_next ctx hc
      have hid : TnOK tbl id.1 := ctx.tnOK id (mem_of_split hc.split)
      exact scan_step ctx hT hn hcur hid hcanon
        (ih (done ++ [id]) it' fuel hcanon (by simp only [List.length_cons] at hf; omega))

theorem scan_atBlock {pl : PostingList} {tbl : Table} {ids : List Id} (ctx : Ctx pl tbl ids)
    {T : Id} (hT : TnOK tbl T.1) {aB cB : List Id} {idB : Id} {q k' : Nat} (hsplit : ids = aB ++ idB :: cB)
    (hat : AtBlock pl.ids pl.header.namespaces q k' idB cB) (k0 val : Nat) (hk : k0 ≤ k')
    (fuel : Nat) (hf : cB.length + 1 < fuel) :
    ScanSpec pl tbl ids T ⟨k0, q, val⟩ fuel aB (idB :: cB) := by
  cases fuel with
  | zero => omega
  | succ fuel =>
    obtain ⟨hn, hcur, hcanon⟩ := atBlock_canon ctx hsplit hat k0 val hk
    have hid : TnOK tbl idB.1 := ctx.tnOK idB (mem_of_split hsplit)
    exact scan_step ctx hT hn hcur hid hcanon
      (scan_canon ctx hT cB (aB ++ [idB]) _ fuel hcanon (by omega))

end B6.Model.Posting
