import B6.Lemmas.RecordsBase
/-!
# Round-trip lemmas, part 3: tag values (`inferValueType` dispatch), Tag, Tags, Member, Members.
-/
namespace B6.Model.Records
open B6.Model.Varint

/-- the dispatch of `inferValueType` on a buffer that starts with the uvarint `w` -/
theorem valueDec_peek (tns : BitVec 16) (w : Nat) (hw : w < 2 ^ 64) (tail rest : Bytes) :
    Value.dec tns (putUvarint w ++ tail ++ rest) =
      (if w % 4 = 0 then (Int.dec.map Value.int) (putUvarint w ++ tail ++ rest)
       else if w % 4 = 1 then (LatLng.dec.map Value.point) (putUvarint w ++ tail ++ rest)
       else if w % 4 = 2 then
        (if geometryEncoding (w / 4) = 1 then (LatLngs.dec.map Value.latlngs) (putUvarint w ++ tail ++ rest)
         else if geometryEncoding (w / 4) = 0 then ((References.dec tns).map Value.refs) (putUvarint w ++ tail ++ rest)
         else ((RefLLs.dec tns).map Value.mixed) (putUvarint w ++ tail ++ rest))
       else none) := by
  have := uvarint_putUvarint_append w hw (tail ++ rest)
  rw [← List.append_assoc] at this
  simp only [Value.dec, this]

theorem rt_tagValue (tns : BitVec 16) (v : Value) (hok : v.ok = true) (hc : v.canonical = true) :
    RT (v.enc tns) (Value.dec tns) v := by
  intro rest
  cases v with
  | int x =>
    simp only [Value.ok, valueTypeOk_iff] at hok
    obtain ⟨a, b, c⟩ := encodeValueType_spec 0 x.toNat (by omega) hok
    have := valueDec_peek tns (encodeValueType 0 x.toNat) a [] rest
    simp only [List.append_nil] at this
    simp only [Value.enc, this, c, if_true]
    have h := RT.map Value.int (RT.map (BitVec.ofNat 64) ((rt_value _ a).congr rfl b)) rest
    simpa [Int.dec] using h
  | point ll =>
    have hw := latWord_lt ll
    obtain ⟨a, _, c⟩ := encodeValueType_spec 1 ll.latWord (by omega) (by omega)
    have := valueDec_peek tns (encodeValueType 1 ll.latWord) a (putU32 ll.lng) rest
    simp only [Value.enc, LatLng.enc, this, c]
    simp only [show ¬ (1 = 0) by omega, if_false, if_true]
    exact RT.map Value.point (rt_latlng ll) rest
  | latlngs l =>
    simp only [Value.ok] at hok
    obtain ⟨h1, _, h3⟩ := lenOk_spec 1 l.length (by omega) hok
    obtain ⟨a, b, c⟩ := encodeValueType_spec 2 (encodeGeometry 1 l.length) (by omega) h1
    have := valueDec_peek tns (encodeValueType 2 (encodeGeometry 1 l.length)) a (LatLngs.encBody l) rest
    simp only [Value.enc, LatLngs.enc, this, c, b, h3]
    simp only [show ¬ (2 = 0) by omega, show ¬ (2 = 1) by omega, if_false, if_true]
    exact RT.map Value.latlngs (rt_latlngs l hok) rest
  | refs l =>
    simp only [Value.ok] at hok
    obtain ⟨h1, _, h3⟩ := lenOk_spec 0 l.length (by omega) hok
    obtain ⟨a, b, c⟩ := encodeValueType_spec 2 (encodeGeometry 0 l.length) (by omega) h1
    have := valueDec_peek tns (encodeValueType 2 (encodeGeometry 0 l.length)) a (References.encBody tns l) rest
    simp only [Value.enc, References.enc, this, c, b, h3]
    simp only [show ¬ (2 = 0) by omega, show ¬ (2 = 1) by omega, show ¬ (0 = 1) by omega, if_false, if_true]
    exact RT.map Value.refs (rt_references tns l hok) rest
  | mixed l =>
    simp only [Value.ok] at hok
    simp only [Value.canonical, List.all_eq_true] at hc
    obtain ⟨h1, _, h3⟩ := lenOk_spec 2 l.length (by omega) hok
    obtain ⟨a, b, c⟩ := encodeValueType_spec 2 (encodeGeometry 2 l.length) (by omega) h1
    have := valueDec_peek tns (encodeValueType 2 (encodeGeometry 2 l.length)) a
      (Bits.enc (l.map RefLL.isRef) ++ encEach (RefLLs.encStep tns) (0#64, LatLng.zero) l) rest
    have hh := RT.map Value.mixed (rt_refLLs tns l hok hc) rest
    simp only [RefLLs.enc, List.append_assoc] at hh this ⊢
    simp only [Value.enc, RefLLs.enc, List.append_assoc, this, c, b, h3]
    simp only [show ¬ (2 = 0) by omega, show ¬ (2 = 1) by omega, if_false, if_true]
    exact hh

theorem rt_tag (tns : BitVec 16) (t : Tag) (hok : t.value.ok = true) (hc : t.value.canonical = true) :
    RT (Tag.enc tns t) (Tag.dec tns) t := by
  unfold Tag.enc Tag.dec
  refine (RT.andThen (rt_uvarint _ t.key.isLt) (RT.map _ (rt_tagValue tns t.value hok hc))).congr rfl ?_
  cases t; simp

theorem rt_tags (tns : BitVec 16) (ts : List Tag) (hok : Tags.ok ts = true) (hc : Tags.canonical ts = true) :
    RT (Tags.enc tns ts) (Tags.dec tns) ts := by
  simp only [Tags.ok, Bool.and_eq_true, decide_eq_true_eq, List.all_eq_true] at hok
  simp only [Tags.canonical, List.all_eq_true] at hc
  unfold Tags.enc Tags.dec
  refine RT.andThen (rt_count _ hok.1) ?_
  exact RT.times (fun t => t.value.ok = true ∧ t.value.canonical = true) _ _
    (fun _ t ht => RT.map (fun t => (t, ())) (rt_tag tns t ht.1 ht.2)) ts () (fun t ht => ⟨hok.2 t ht, hc t ht⟩)

/-! ## Members -/

theorem memberWord_spec (m : Member) (hok : m.ok = true) (ht : m.typeOk = true) :
    m.word < 2 ^ 64 ∧ m.word % 4 = m.type.toNat ∧ m.word / 4 = m.role.toNat := by
  simp only [Member.ok, beq_iff_eq] at hok
  simp only [Member.typeOk, decide_eq_true_eq] at ht
  have hr : m.role.toNat < 2 ^ 62 := by omega
  have e : m.role.toNat * 4 % 2 ^ 64 = m.role.toNat <<< 2 := by
    rw [Nat.shiftLeft_eq]; exact Nat.mod_eq_of_lt (by omega)
  have := Nat.shiftLeft_add_eq_or_of_lt (i := 2) (b := m.type.toNat) (by omega) m.role.toNat
  unfold Member.word
  rw [e, ← this, Nat.shiftLeft_eq]
  omega

theorem rt_member (p : BitVec 16) (m : Member) (hok : m.fits = true) :
    RT (Member.enc p m) (Member.dec p) m := by
  simp only [Member.fits, Bool.and_eq_true] at hok
  obtain ⟨a, b, c⟩ := memberWord_spec m hok.1 hok.2
  unfold Member.enc Member.dec
  refine (RT.andThen (rt_uvarint _ a) (RT.map _ (rt_reference p m.id))).congr rfl ?_
  rw [b, c]
  cases m; simp

theorem rt_members (p : BitVec 16) (ms : List Member) (hok : Members.ok ms = true) :
    RT (Members.enc p ms) (Members.dec p) ms := by
  simp only [Members.ok, Bool.and_eq_true, decide_eq_true_eq, List.all_eq_true] at hok
  unfold Members.enc Members.dec
  refine RT.andThen (rt_count _ hok.1) ?_
  exact RT.times (fun m => m.fits = true) _ _
    (fun _ m hm => RT.map (fun m => (m, ())) (rt_member p m hm)) ms () (fun m hm => hok.2 m hm)

end B6.Model.Records
