import B6.Model.Proto.MapParallel
/-! Invariants of the `map-parallel` protocol model (helper lemmas for `Props/C25.lean`). -/
namespace B6.Model.Proto.MapParallel
open B6.Model.Proto

/-! ### membership in `step`, case by case -/

theorem mem_step {c : Cfg} {s s' : St} : s' ∈ step c s ↔ s.fin = none ∧
    ( s' ∈ dispStep c s
    ∨ (s.disp = D.exited ∧ allExited s ∧ s.stored = false ∧ s' = { s with merr := s.gerr, stored := true })
    ∨ (s.stored = true ∧ s.outClosed = false ∧ s' = { s with outClosed := true })
    ∨ s' ∈ consumerStep c s
    ∨ (∃ j l, s.lanes[j]? = some l ∧ s' ∈ workerStep c s j l)) := by
  unfold step
  cases hr : s.fin with
  | some r => simp
  | none =>
    simp only [Option.isSome_none, Bool.false_eq_true, ↓reduceIte, List.mem_append, mem_forWorkers, mem_guard, true_and]
    constructor
    · rintro ((((h | h) | h) | h) | h)
      · exact Or.inl h
      · exact Or.inr (Or.inl ⟨h.1.1, h.1.2.1, h.1.2.2, h.2⟩)
      · exact Or.inr (Or.inr (Or.inl ⟨h.1.1, h.1.2, h.2⟩))
      · exact Or.inr (Or.inr (Or.inr (Or.inl h)))
      · exact Or.inr (Or.inr (Or.inr (Or.inr h)))
    · rintro (h | h | h | h | h)
      · exact Or.inl (Or.inl (Or.inl (Or.inl h)))
      · exact Or.inl (Or.inl (Or.inl (Or.inr ⟨⟨h.1, h.2.1, h.2.2.1⟩, h.2.2.2⟩)))
      · exact Or.inl (Or.inl (Or.inr ⟨⟨h.1, h.2.1⟩, h.2.2⟩))
      · exact Or.inl (Or.inr h)
      · exact Or.inr h

/-- the driver's cheap successor list is sound -/
theorem mem_stepsAt {c : Cfg} {s s' : St} {j : Nat} (h : s' ∈ stepsAt c s j) : s' ∈ step c s := by
  unfold stepsAt at h
  split at h
  · simp at h
  · next hf =>
    have hr : s.fin = none := by cases e : s.fin <;> simp_all
    simp only [List.mem_append, mem_guard] at h
    refine mem_step.mpr ⟨hr, ?_⟩
    rcases h with (((h | h) | h) | h) | h
    · exact Or.inl h
    · exact Or.inr (Or.inl ⟨h.1.1, h.1.2.1, h.1.2.2, h.2⟩)
    · exact Or.inr (Or.inr (Or.inl ⟨h.1.1, h.1.2, h.2⟩))
    · exact Or.inr (Or.inr (Or.inr (Or.inl h)))
    · split at h
      · next l hl => exact Or.inr (Or.inr (Or.inr (Or.inr ⟨j, l, hl, h⟩)))
      · simp at h

theorem mem_dispStep {c : Cfg} {s s' : St} (h : s' ∈ dispStep c s) :
    (s.disp = D.running ∧ s.write < c.N ∧ ∃ l, s.lanes[s.write % c.n]? = some l ∧ l.inq = none ∧
        s' = { s with lanes := s.lanes.set (s.write % c.n) { l with inq := some s.write }, write := s.write + 1 })
    ∨ (s.disp = D.running ∧ s.write < c.N ∧ s.gerr.isSome = true ∧ s' = { s with disp := D.closing })
    ∨ (s.disp = D.running ∧ ¬ s.write < c.N ∧ s' = { s with disp := D.closing })
    ∨ (s.disp = D.closing ∧
        s' = { s with disp := D.exited, inClosed := true, gerr := (if s.gerr.isSome then s.gerr else (if c.srcFails then some c.N else none)) }) := by
  unfold dispStep at h
  split at h
  · next hd =>
    split at h
    · next hw =>
      simp only [List.mem_append, mem_guard] at h
      rcases h with h | h
      · split at h
        · next l hl => simp only [mem_guard] at h; exact Or.inl ⟨hd, hw, l, hl, h.1, h.2⟩
        · simp at h
      · exact Or.inr (Or.inl ⟨hd, hw, h.1, h.2⟩)
    · next hw => simp only [List.mem_singleton] at h; exact Or.inr (Or.inr (Or.inl ⟨hd, hw, h⟩))
  · next hd => simp only [List.mem_singleton] at h; exact Or.inr (Or.inr (Or.inr ⟨hd, h⟩))
  · simp at h

theorem mem_consumerStep {c : Cfg} {s s' : St} (h : s' ∈ consumerStep c s) :
    ∃ l, s.lanes[s.read % c.n]? = some l ∧
      ( (∃ k, l.outq = some k ∧ s' = { s with lanes := s.lanes.set (s.read % c.n) { l with outq := none },
                                               out := s.out ++ [k], read := s.read + 1 })
      ∨ (l.outq = none ∧ s.outClosed = true ∧ s' = { s with fin := some s.merr })) := by
  unfold consumerStep at h
  split at h
  · next l hl =>
    refine ⟨l, hl, ?_⟩
    split at h
    · next k hk => simp only [List.mem_singleton] at h; exact Or.inl ⟨k, hk, h⟩
    · next hk => simp only [mem_guard] at h; exact Or.inr ⟨hk, h.1, h.2⟩
  · simp at h

theorem mem_workerStep {c : Cfg} {s s' : St} {j : Nat} {l : Lane} (h : s' ∈ workerStep c s j l) :
    (∃ k, l.wk = Wk.idle ∧ l.inq = some k ∧ s' = setLane s j { l with inq := none, wk := Wk.busy k })
    ∨ (l.wk = Wk.idle ∧ l.inq = none ∧ s.inClosed = true ∧ s' = setLane s j { l with wk := Wk.exited })
    ∨ (∃ k, l.wk = Wk.busy k ∧ c.fails k = true ∧ s' = setLane s j { l with wk := Wk.failing k })
    ∨ (∃ k, l.wk = Wk.busy k ∧ c.fails k = false ∧ s' = setLane s j { l with wk := Wk.holding k })
    ∨ (∃ k, l.wk = Wk.holding k ∧ l.outq = none ∧ s' = setLane s j { l with wk := Wk.idle, outq := some k })
    ∨ (∃ k, l.wk = Wk.holding k ∧ s.gerr.isSome = true ∧ s' = setLane s j { l with wk := Wk.exited })
    ∨ (∃ k, l.wk = Wk.failing k ∧
        s' = { s with lanes := s.lanes.set j { l with wk := Wk.exited }, gerr := if s.gerr.isSome then s.gerr else some k }) := by
  unfold workerStep at h
  split at h
  · next hw =>
    split at h
    · next k hk => simp only [List.mem_singleton] at h; exact Or.inl ⟨k, hw, hk, h⟩
    · next hk => simp only [mem_guard] at h; exact Or.inr (Or.inl ⟨hw, hk, h.1, h.2⟩)
  · next k hw =>
    simp only [List.mem_singleton] at h
    by_cases hf : c.fails k = true
    · simp only [hf, ↓reduceIte] at h; exact Or.inr (Or.inr (Or.inl ⟨k, hw, hf, h⟩))
    · have hf' : c.fails k = false := by simpa using hf
      simp only [hf', Bool.false_eq_true, ↓reduceIte] at h
      exact Or.inr (Or.inr (Or.inr (Or.inl ⟨k, hw, hf', h⟩)))
  · next k hw =>
    simp only [List.mem_append, mem_guard] at h
    rcases h with h | h
    · exact Or.inr (Or.inr (Or.inr (Or.inr (Or.inl ⟨k, hw, h.1, h.2⟩))))
    · exact Or.inr (Or.inr (Or.inr (Or.inr (Or.inr (Or.inl ⟨k, hw, h.1, h.2⟩)))))
  · next k hw =>
    simp only [List.mem_singleton] at h
    exact Or.inr (Or.inr (Or.inr (Or.inr (Or.inr (Or.inr ⟨k, hw, h⟩)))))
  · simp at h

/-! ### arithmetic -/

theorem mod_unique {a b n : Nat} (hm : a % n = b % n) (h1 : a ≤ b) (h2 : b < a + n) : a = b := by
  have h0 : (b - a) % n = 0 := Nat.sub_mod_eq_zero_of_mod_eq hm.symm
  have h3 : (b - a) % n = b - a := Nat.mod_eq_of_lt (by omega)
  omega

theorem sub_mod_self' {k n : Nat} (h : n ≤ k) : (k - n) % n = k % n := by
  have e : k = (k - n) + n := by omega
  conv => rhs; rw [e, Nat.add_mod_right]

/-! ### the lane invariant -/

def Wk.item : Wk → List Nat
  | .busy k => [k]
  | .holding k => [k]
  | .failing k => [k]
  | .idle => []
  | .exited => []

/-- the items of a lane in the order in which they will reach the consumer -/
def Lane.pipe (l : Lane) : List Nat := l.outq.toList ++ l.wk.item ++ l.inq.toList

/-- what holds of lane `j` when the consumer has taken `rd` values, the dispatcher has sent `wr` items, the
group's error is `ge` and `ic` says whether the `in` channels are closed -/
structure LaneOK (c : Cfg) (rd wr : Nat) (ge : Option Nat) (ic : Bool) (j : Nat) (l : Lane) : Prop where
  /-- item `k` only travels through lane `k % n`, and is between the consumer and the dispatcher -/
  A : ∀ k ∈ l.pipe, k % c.n = j ∧ rd ≤ k ∧ k < wr
  /-- in order -/
  B : l.pipe.Pairwise (· < ·)
  /-- nothing is lost as long as the worker has not given up -/
  C : (l.wk ≠ Wk.exited ∨ ge = none) → ∀ k, rd ≤ k → k < wr → k % c.n = j → k ∈ l.pipe
  /-- a worker only leaves without an error when its channel is closed and empty -/
  D : l.wk = Wk.exited → ge = none → l.inq = none ∧ ic = true
  /-- the value in `out[j]` is the next one the consumer expects from this lane -/
  E : ∀ k, l.outq = some k → k < rd + c.n
  H1 : ∀ k, l.outq = some k → c.fails k = false
  H2 : ∀ k, l.wk = Wk.holding k → c.fails k = false
  H3 : ∀ k, l.wk = Wk.failing k → c.fails k = true

theorem LaneOK.write_succ {c : Cfg} {rd wr : Nat} {ge : Option Nat} {ic : Bool} {j : Nat} {l : Lane}
    (h : LaneOK c rd wr ge ic j l) (hj : wr % c.n ≠ j) : LaneOK c rd (wr + 1) ge ic j l where
  A := fun k hk => ⟨(h.A k hk).1, (h.A k hk).2.1, by have := (h.A k hk).2.2; omega⟩
  B := h.B
  C := fun hw k h1 h2 h3 => by
    have : k ≠ wr := by rintro rfl; exact hj h3
    exact h.C hw k h1 (by omega) h3
  D := h.D
  E := h.E
  H1 := h.H1
  H2 := h.H2
  H3 := h.H3

theorem LaneOK.read_succ {c : Cfg} {rd wr : Nat} {ge : Option Nat} {ic : Bool} {j : Nat} {l : Lane}
    (h : LaneOK c rd wr ge ic j l) (hj : rd % c.n ≠ j) : LaneOK c (rd + 1) wr ge ic j l where
  A := fun k hk => by
    obtain ⟨h1, h2, h3⟩ := h.A k hk
    have : k ≠ rd := by rintro rfl; exact hj h1
    exact ⟨h1, by omega, h3⟩
  B := h.B
  C := fun hw k h1 h2 h3 => h.C hw k (by omega) h2 h3
  D := h.D
  E := fun k hk => by have := h.E k hk; omega
  H1 := h.H1
  H2 := h.H2
  H3 := h.H3

theorem LaneOK.gerr_set {c : Cfg} {rd wr : Nat} {ge : Option Nat} {ic : Bool} {j : Nat} {l : Lane}
    (h : LaneOK c rd wr ge ic j l) (e : Nat) : LaneOK c rd wr (some e) ic j l where
  A := h.A
  B := h.B
  C := fun hw => by
    rcases hw with hw | hw
    · exact h.C (Or.inl hw)
    · cases hw
  D := fun _ hg => by cases hg
  E := h.E
  H1 := h.H1
  H2 := h.H2
  H3 := h.H3

theorem LaneOK.in_closed {c : Cfg} {rd wr : Nat} {ge : Option Nat} {ic : Bool} {j : Nat} {l : Lane}
    (h : LaneOK c rd wr ge ic j l) : LaneOK c rd wr ge true j l where
  A := h.A
  B := h.B
  C := h.C
  D := fun hw hg => ⟨(h.D hw hg).1, rfl⟩
  E := h.E
  H1 := h.H1
  H2 := h.H2
  H3 := h.H3

/-- the worker moves on without changing what is in the lane -/
theorem LaneOK.same_pipe {c : Cfg} {rd wr : Nat} {ge : Option Nat} {ic : Bool} {j : Nat} {l l' : Lane}
    (h : LaneOK c rd wr ge ic j l) (hp : l'.pipe = l.pipe) (ho : l'.outq = l.outq)
    (hw : l.wk ≠ Wk.exited)
    (hD : l'.wk = Wk.exited → ge = none → l'.inq = none ∧ ic = true)
    (h2 : ∀ k, l'.wk = Wk.holding k → c.fails k = false)
    (h3 : ∀ k, l'.wk = Wk.failing k → c.fails k = true) : LaneOK c rd wr ge ic j l' where
  A := by rw [hp]; exact h.A
  B := by rw [hp]; exact h.B
  C := fun _ => by rw [hp]; exact h.C (Or.inl hw)
  D := hD
  E := by rw [ho]; exact h.E
  H1 := by rw [ho]; exact h.H1
  H2 := h2
  H3 := h3

/-! ### the global invariant -/

structure Inv (c : Cfg) (s : St) : Prop where
  len : s.lanes.length = c.n
  lanes : ∀ (j : Nat) (l : Lane), s.lanes[j]? = some l → LaneOK c s.read s.write s.gerr s.inClosed j l
  wle : s.write ≤ c.N
  rle : s.read ≤ s.write
  out : s.out = List.range s.read
  okout : ∀ k, k < s.read → c.fails k = false
  dispc : s.inClosed = true ↔ s.disp = D.exited
  dispF : s.disp ≠ D.running → s.gerr = none → s.write = c.N
  gerrI : ∀ e, s.gerr = some e → (c.fails e = true ∧ e < c.N) ∨ (c.srcFails = true ∧ e = c.N)
  /-- once the dispatcher has returned, a failure of the source is on record (unless another error came first) -/
  srcI : s.disp = D.exited → c.srcFails = true → s.gerr ≠ none
  /-- `m.err` is assigned after every goroutine of the group has returned, and holds the group's error -/
  closer : s.stored = true → s.disp = D.exited ∧ allExited s ∧ s.merr = s.gerr
  /-- a consumer can only see a closed `out[i]` after `m.err` has been assigned -/
  closed : s.outClosed = true → s.stored = true
  finI : ∀ r, s.fin = some r → r = s.gerr ∧ s.outClosed = true ∧
    ∀ l, s.lanes[s.read % c.n]? = some l → l.outq = none

theorem lanes_set {P : Nat → Lane → Prop} {lanes : List Lane} {j0 : Nat} {l' : Lane}
    (hP' : P j0 l') (hother : ∀ (j : Nat) (l : Lane), j ≠ j0 → lanes[j]? = some l → P j l) :
    ∀ (j : Nat) (l : Lane), (lanes.set j0 l')[j]? = some l → P j l := by
  intro j l h
  rcases getElem?_set_some h with ⟨rfl, rfl⟩ | ⟨hne, e⟩
  · exact hP'
  · exact hother j l hne e

theorem allExited_set {s : St} {j : Nat} {l : Lane} (hl : s.lanes[j]? = some l) (hw : l.wk ≠ Wk.exited)
    (h : allExited s) : False := hw (h l (List.mem_of_getElem? hl))

theorem inv_init (c : Cfg) : Inv c (init c) where
  len := by simp [init]
  lanes := by
    intro j l h
    simp only [init, List.getElem?_replicate] at h
    split at h
    · cases h
      exact { A := by simp [Lane.pipe, Wk.item], B := by simp [Lane.pipe, Wk.item],
              C := by intro _ k h1 h2; simp [init] at h2,
              D := by simp, E := by simp, H1 := by simp, H2 := by simp, H3 := by simp }
    · cases h
  wle := by simp [init]
  rle := by simp [init]
  out := by simp [init]
  okout := by simp [init]
  dispc := by simp [init]
  dispF := by simp [init]
  gerrI := by simp [init]
  srcI := by simp [init]
  closer := by simp [init]
  closed := by simp [init]
  finI := by simp [init]

theorem inv_disp {c : Cfg} {s s' : St} (I : Inv c s) (hfin : s.fin = none)
    (h : s' ∈ dispStep c s) : Inv c s' := by
  have hfin' : ∀ r, s.fin = some r → False := by intro r e; rw [hfin] at e; cases e
  rcases mem_dispStep h with ⟨hd, hw, l0, hl0, hinq, rfl⟩ | ⟨hd, hw, hg, rfl⟩ | ⟨hd, hw, rfl⟩ | ⟨hd, rfl⟩
  · -- the dispatcher sends item `write` into in[write % n]
    have L0 := I.lanes _ _ hl0
    have notclosed : s.inClosed = false := by
      cases hic : s.inClosed with
      | false => rfl
      | true => have := I.dispc.mp hic; rw [hd] at this; cases this
    refine { len := by simp [I.len], lanes := ?_, wle := by simp only; omega, rle := by have := I.rle; simp only; omega,
             out := I.out, okout := I.okout, dispc := I.dispc,
             dispF := (by intro h; exact absurd hd h), gerrI := I.gerrI,
             srcI := (by intro h; simp only at h; rw [hd] at h; cases h),
             closer := ?_, closed := I.closed, finI := fun r e => (hfin' r e).elim }
    · show ∀ (j : Nat) (l : Lane), (s.lanes.set (s.write % c.n) { l0 with inq := some s.write })[j]? = some l →
        LaneOK c s.read (s.write + 1) s.gerr s.inClosed j l
      refine lanes_set ?_ ?_
      · -- the lane that receives the item
        have hp : ({ l0 with inq := some s.write } : Lane).pipe = l0.pipe ++ [s.write] := by
          simp [Lane.pipe, hinq]
        exact {
          A := by
            intro k hk; rw [hp, List.mem_append] at hk
            rcases hk with hk | hk
            · obtain ⟨h1, h2, h3⟩ := L0.A k hk; exact ⟨h1, h2, by omega⟩
            · simp only [List.mem_singleton] at hk; subst hk; exact ⟨rfl, I.rle, by omega⟩
          B := by
            rw [hp, List.pairwise_append]
            refine ⟨L0.B, by simp, ?_⟩
            intro a ha b hb; simp only [List.mem_singleton] at hb; subst hb; exact (L0.A a ha).2.2
          C := by
            intro hwk k h1 h2 h3; rw [hp, List.mem_append]
            by_cases hk : k = s.write
            · right; simp [hk]
            · left; exact L0.C hwk k h1 (by omega) h3
          D := by
            intro hwk hg; have := (L0.D hwk hg).2; rw [notclosed] at this; cases this
          E := L0.E, H1 := L0.H1, H2 := L0.H2, H3 := L0.H3 }
      · intro j l hne hl
        exact (I.lanes j l hl).write_succ (fun e => hne e.symm)
    · intro ho; have := (I.closer ho).1; rw [hd] at this; cases this
  · -- the dispatcher sees the cancellation
    have notclosed : s.inClosed = false := by
      cases hic : s.inClosed with
      | false => rfl
      | true => have := I.dispc.mp hic; rw [hd] at this; cases this
    exact { len := I.len, lanes := I.lanes, wle := I.wle, rle := I.rle, out := I.out, okout := I.okout,
            dispc := by simp [notclosed],
            dispF := (by intro _ hg'; rw [hg'] at hg; cases hg),
            gerrI := I.gerrI, srcI := (by intro h; cases h),
            closer := (by intro ho; have := (I.closer ho).1; rw [hd] at this; cases this), closed := I.closed,
            finI := fun r e => (hfin' r e).elim }
  · -- the input is exhausted
    have notclosed : s.inClosed = false := by
      cases hic : s.inClosed with
      | false => rfl
      | true => have := I.dispc.mp hic; rw [hd] at this; cases this
    exact { len := I.len, lanes := I.lanes, wle := I.wle, rle := I.rle, out := I.out, okout := I.okout,
            dispc := by simp [notclosed],
            dispF := (by intro _ _; have := I.wle; simp only; omega),
            gerrI := I.gerrI, srcI := (by intro h; cases h),
            closer := (by intro ho; have := (I.closer ho).1; rw [hd] at this; cases this), closed := I.closed,
            finI := fun r e => (hfin' r e).elim }
  · -- the dispatcher closes every in[i] and returns its error (the source's, unless it was cancelled)
    have hcases : (if s.gerr.isSome then s.gerr else if c.srcFails then some c.N else none) = s.gerr ∨
        (s.gerr = none ∧ c.srcFails = true ∧
          (if s.gerr.isSome then s.gerr else if c.srcFails then some c.N else none) = some c.N) := by
      cases hg : s.gerr with
      | some e => left; simp
      | none =>
        cases hs : c.srcFails with
        | true => right; simp
        | false => left; simp
    rcases hcases with hge | ⟨hgn, hsf, hge⟩
    · exact { len := I.len, lanes := by simp only; rw [hge]; exact fun j l hl => (I.lanes j l hl).in_closed,
              wle := I.wle, rle := I.rle, out := I.out, okout := I.okout, dispc := by simp,
              dispF := (by intro _ hg; simp only at hg; rw [hge] at hg; exact I.dispF (by rw [hd]; simp) hg),
              gerrI := (by simp only; rw [hge]; exact I.gerrI),
              srcI := (by
                intro _ hsf hg; simp only at hg; rw [hge] at hg
                -- the loop was not left through the Done arm (nothing is cancelled), so the source's error is
                -- what the dispatcher returns: the `if` above cannot have kept `none`
                have : (if s.gerr.isSome then s.gerr else if c.srcFails then some c.N else none) = some c.N := by
                  simp [hg, hsf]
                rw [hge, hg] at this; cases this),
              closer := (by intro ho; have := (I.closer ho).1; rw [hd] at this; cases this), closed := I.closed,
              finI := fun r e => (hfin' r e).elim }
    · exact { len := I.len, lanes := by simp only; rw [hge]; exact fun j l hl => ((I.lanes j l hl).in_closed).gerr_set c.N,
              wle := I.wle, rle := I.rle, out := I.out, okout := I.okout, dispc := by simp,
              dispF := (by intro _ hg; simp only at hg; rw [hge] at hg; cases hg),
              gerrI := (by simp only; rw [hge]; intro e he; cases he; exact Or.inr ⟨hsf, rfl⟩),
              srcI := (by intro _ _ hg; simp only at hg; rw [hge] at hg; cases hg),
              closer := (by intro ho; have := (I.closer ho).1; rw [hd] at this; cases this), closed := I.closed,
              finI := fun r e => (hfin' r e).elim }

theorem inv_store {c : Cfg} {s : St} (I : Inv c s) (hfin : s.fin = none)
    (hd : s.disp = D.exited) (ha : allExited s) :
    Inv c { s with merr := s.gerr, stored := true } :=
  { len := I.len, lanes := I.lanes, wle := I.wle, rle := I.rle, out := I.out, okout := I.okout, dispc := I.dispc,
    dispF := I.dispF, gerrI := I.gerrI, srcI := I.srcI, closer := fun _ => ⟨hd, ha, rfl⟩,
    closed := fun _ => rfl,
    finI := by intro r e; rw [hfin] at e; cases e }

theorem inv_close {c : Cfg} {s : St} (I : Inv c s) (hfin : s.fin = none) (hs : s.stored = true) :
    Inv c { s with outClosed := true } :=
  { len := I.len, lanes := I.lanes, wle := I.wle, rle := I.rle, out := I.out, okout := I.okout, dispc := I.dispc,
    dispF := I.dispF, gerrI := I.gerrI, srcI := I.srcI, closer := I.closer, closed := fun _ => hs,
    finI := by intro r e; rw [hfin] at e; cases e }

theorem inv_consumer {c : Cfg} {s s' : St} (I : Inv c s) (hfin : s.fin = none)
    (h : s' ∈ consumerStep c s) : Inv c s' := by
  have hfin' : ∀ r, s.fin = some r → False := by intro r e; rw [hfin] at e; cases e
  obtain ⟨l0, hl0, h⟩ := mem_consumerStep h
  have L0 := I.lanes _ _ hl0
  rcases h with ⟨k, hk, rfl⟩ | ⟨hk, ho, rfl⟩
  · -- the consumer takes the value in out[read % n]: it is item `read`
    have hkp : k ∈ l0.pipe := by simp [Lane.pipe, hk]
    obtain ⟨a1, a2, a3⟩ := L0.A k hkp
    have hkr : s.read = k := mod_unique a1.symm a2 (L0.E k hk)
    subst hkr
    have hp : l0.pipe = s.read :: ({ l0 with outq := none } : Lane).pipe := by simp [Lane.pipe, hk]
    have hB := L0.B; rw [hp, List.pairwise_cons] at hB
    refine { len := by simp [I.len], lanes := ?_, wle := I.wle, rle := by simp only; omega,
             out := by simp only; rw [I.out, List.range_succ],
             okout := ?_, dispc := I.dispc, dispF := I.dispF, gerrI := I.gerrI, srcI := I.srcI,
             closer := ?_, closed := I.closed, finI := fun r e => (hfin' r e).elim }
    · show ∀ (j : Nat) (l : Lane), (s.lanes.set (s.read % c.n) { l0 with outq := none })[j]? = some l →
        LaneOK c (s.read + 1) s.write s.gerr s.inClosed j l
      refine lanes_set ?_ ?_
      · exact {
          A := by
            intro k' hk'
            obtain ⟨h1, h2, h3⟩ := L0.A k' (by rw [hp]; exact List.mem_cons_of_mem _ hk')
            have := hB.1 k' hk'
            exact ⟨h1, by omega, h3⟩
          B := hB.2
          C := by
            intro hwk k' h1 h2 h3
            have := L0.C hwk k' (by omega) h2 h3
            rw [hp, List.mem_cons] at this
            rcases this with e | e
            · omega
            · exact e
          D := L0.D
          E := by simp
          H1 := by simp
          H2 := L0.H2
          H3 := L0.H3 }
      · intro j l hne hl
        exact (I.lanes j l hl).read_succ (fun e => hne e.symm)
    · intro k' hk'
      by_cases e : k' = s.read
      · subst e; exact L0.H1 _ hk
      · exact I.okout k' (by simp only at hk'; omega)
    · intro ho
      obtain ⟨h1, h2, h3⟩ := I.closer ho
      refine ⟨h1, ?_, h3⟩
      intro l hl
      rcases mem_set_cases hl with rfl | hl
      · exact h2 l0 (List.mem_of_getElem? hl0)
      · exact h2 l hl
  · -- out[read % n] is closed and empty: Next() returns (false, m.err)
    exact { len := I.len, lanes := I.lanes, wle := I.wle, rle := I.rle, out := I.out, okout := I.okout,
            dispc := I.dispc, dispF := I.dispF, gerrI := I.gerrI, srcI := I.srcI, closer := I.closer, closed := I.closed,
            finI := by
              intro r e; simp only [Option.some.injEq] at e
              refine ⟨by rw [← e]; exact (I.closer (I.closed ho)).2.2, ho, ?_⟩
              intro l hl; simp only at hl; rw [hl0] at hl; cases hl; exact hk }

/-- a worker step that only replaces lane `j` -/
theorem inv_setLane {c : Cfg} {s : St} {j : Nat} {l l' : Lane} (I : Inv c s) (hfin : s.fin = none)
    (hl : s.lanes[j]? = some l) (hw : l.wk ≠ Wk.exited)
    (hL : LaneOK c s.read s.write s.gerr s.inClosed j l') : Inv c (setLane s j l') :=
  { len := by simp [setLane, I.len]
    lanes := by
      show ∀ (j' : Nat) (l'' : Lane), (s.lanes.set j l')[j']? = some l'' → LaneOK c s.read s.write s.gerr s.inClosed j' l''
      exact lanes_set hL (fun j' l'' _ h => I.lanes j' l'' h)
    wle := I.wle, rle := I.rle, out := I.out, okout := I.okout, dispc := I.dispc, dispF := I.dispF, gerrI := I.gerrI
    srcI := I.srcI
    closer := fun ho => (allExited_set hl hw (I.closer ho).2.1).elim
    closed := I.closed
    finI := by intro r e; simp only [setLane] at e; rw [hfin] at e; cases e }

theorem inv_worker {c : Cfg} {s s' : St} {j : Nat} {l : Lane} (hn : 0 < c.n) (I : Inv c s) (hfin : s.fin = none)
    (hl : s.lanes[j]? = some l) (h : s' ∈ workerStep c s j l) : Inv c s' := by
  have L := I.lanes j l hl
  rcases mem_workerStep h with ⟨k, hw, hk, rfl⟩ | ⟨hw, hk, hc, rfl⟩ | ⟨k, hw, hf, rfl⟩ | ⟨k, hw, hf, rfl⟩ |
    ⟨k, hw, ho, rfl⟩ | ⟨k, hw, hg, rfl⟩ | ⟨k, hw, rfl⟩
  · -- receive from in[j]
    refine inv_setLane I hfin hl (by rw [hw]; simp) ?_
    exact L.same_pipe (by simp [Lane.pipe, Wk.item, hw, hk]) rfl (by rw [hw]; simp) (by simp) (by simp) (by simp)
  · -- in[j] is closed and empty: return nil
    refine inv_setLane I hfin hl (by rw [hw]; simp) ?_
    exact L.same_pipe (by simp [Lane.pipe, Wk.item, hw]) rfl (by rw [hw]; simp) (fun _ _ => ⟨hk, hc⟩) (by simp) (by simp)
  · -- f fails
    refine inv_setLane I hfin hl (by rw [hw]; simp) ?_
    exact L.same_pipe (by simp [Lane.pipe, Wk.item, hw]) rfl (by rw [hw]; simp) (by simp) (by simp)
      (by intro k' e; cases e; exact hf)
  · -- f succeeds
    refine inv_setLane I hfin hl (by rw [hw]; simp) ?_
    exact L.same_pipe (by simp [Lane.pipe, Wk.item, hw]) rfl (by rw [hw]; simp) (by simp)
      (by intro k' e; cases e; exact hf) (by simp)
  · -- the result goes into out[j]
    refine inv_setLane I hfin hl (by rw [hw]; simp) ?_
    have hp : ({ l with wk := Wk.idle, outq := some k } : Lane).pipe = l.pipe := by
      simp [Lane.pipe, Wk.item, hw, ho]
    have hpk : l.pipe = k :: l.inq.toList := by simp [Lane.pipe, Wk.item, hw, ho]
    exact {
      A := by rw [hp]; exact L.A
      B := by rw [hp]; exact L.B
      C := fun _ => by rw [hp]; exact L.C (Or.inl (by rw [hw]; simp))
      D := by simp
      E := by
        intro k' e; simp only [Option.some.injEq] at e; subst e
        obtain ⟨a1, a2, a3⟩ := L.A k (by rw [hpk]; simp)
        rcases Nat.lt_or_ge k (s.read + c.n) with hlt | hge
        · exact hlt
        · exfalso
          have hm : (k - c.n) % c.n = j := by rw [sub_mod_self' (by omega)]; exact a1
          have hin := L.C (Or.inl (by rw [hw]; simp)) (k - c.n) (by omega) (by omega) hm
          have hB := L.B
          rw [hpk] at hin hB
          rw [List.pairwise_cons] at hB
          rcases List.mem_cons.mp hin with e | e
          · omega
          · have := hB.1 _ e; omega
      H1 := by intro k' e; simp only [Option.some.injEq] at e; subst e; exact L.H2 k hw
      H2 := by simp
      H3 := by simp }
  · -- cancelled: the result is dropped, return nil
    refine inv_setLane I hfin hl (by rw [hw]; simp) ?_
    have hsub : ({ l with wk := Wk.exited } : Lane).pipe.Sublist l.pipe :=
      List.Sublist.append (List.Sublist.append (List.Sublist.refl _) (List.nil_sublist _)) (List.Sublist.refl _)
    have hgn : s.gerr ≠ none := by intro e; rw [e] at hg; cases hg
    exact {
      A := fun k' hk' => L.A k' (hsub.subset hk')
      B := L.B.sublist hsub
      C := by rintro (h | h); · exact (h rfl).elim
              · exact (hgn h).elim
      D := fun _ h => (hgn h).elim
      E := L.E, H1 := L.H1, H2 := by simp, H3 := by simp }
  · -- return err: the group keeps the first error and cancels
    have hsub : ({ l with wk := Wk.exited } : Lane).pipe.Sublist l.pipe :=
      List.Sublist.append (List.Sublist.append (List.Sublist.refl _) (List.nil_sublist _)) (List.Sublist.refl _)
    have hkp : k ∈ l.pipe := by simp [Lane.pipe, Wk.item, hw]
    obtain ⟨e', hge⟩ : ∃ e', (if s.gerr.isSome then s.gerr else some k) = some e' := by
      cases hgg : s.gerr with
      | none => exact ⟨k, by simp⟩
      | some e => exact ⟨e, by simp⟩
    have hmono : ∀ (j' : Nat) (l'' : Lane), LaneOK c s.read s.write s.gerr s.inClosed j' l'' →
        LaneOK c s.read s.write (some e') s.inClosed j' l'' := fun _ _ h => h.gerr_set e'
    refine { len := by simp [I.len], lanes := ?_, wle := I.wle, rle := I.rle, out := I.out, okout := I.okout,
             dispc := I.dispc, dispF := ?_, gerrI := ?_, srcI := (by intro _ _ hg; simp only at hg; rw [hge] at hg; cases hg),
             closer := ?_, closed := I.closed, finI := ?_ }
    · show ∀ (j' : Nat) (l'' : Lane), (s.lanes.set j { l with wk := Wk.exited })[j']? = some l'' →
        LaneOK c s.read s.write (if s.gerr.isSome then s.gerr else some k) s.inClosed j' l''
      rw [hge]
      refine lanes_set ?_ (fun j' l'' _ h => hmono j' l'' (I.lanes j' l'' h))
      exact {
        A := fun k' hk' => L.A k' (hsub.subset hk')
        B := L.B.sublist hsub
        C := by rintro (h | h); · exact (h rfl).elim
                · cases h
        D := fun _ h => by cases h
        E := L.E, H1 := L.H1, H2 := by simp, H3 := by simp }
    · intro _ hg; simp only at hg; rw [hge] at hg; cases hg
    · intro e he; simp only at he
      cases hgg : s.gerr with
      | none =>
        rw [hgg] at he; simp at he; subst he
        exact Or.inl ⟨L.H3 k hw, by have := (L.A k hkp).2.2; have := I.wle; omega⟩
      | some e0 =>
        rw [hgg] at he; simp at he; subst he
        exact I.gerrI _ hgg
    · intro ho; exact (allExited_set hl (by rw [hw]; simp) (I.closer ho).2.1).elim
    · intro r e; simp only at e; rw [hfin] at e; cases e

theorem inv_step {c : Cfg} (hn : 0 < c.n) {s s' : St} (I : Inv c s) (h : s' ∈ step c s) : Inv c s' := by
  obtain ⟨hfin, h⟩ := mem_step.mp h
  rcases h with h | ⟨hd, ha, hs, rfl⟩ | ⟨hs, _, rfl⟩ | h | ⟨j, l, hl, h⟩
  · exact inv_disp I hfin h
  · exact inv_store I hfin hd ha
  · exact inv_close I hfin hs
  · exact inv_consumer I hfin h
  · exact inv_worker hn I hfin hl h

theorem inv_reachable {c : Cfg} (hn : 0 < c.n) {s : St} (h : Reachable (step c) (init c) s) : Inv c s :=
  Reachable.invariant (Inv c) (inv_init c) (fun _ _ I hm => inv_step hn I hm) s h

/-! ### a measure that every step decreases -/

def Wk.weight : Wk → Nat
  | .idle => 1
  | .busy _ => 4
  | .holding _ => 3
  | .failing _ => 3
  | .exited => 0

def Lane.weight (l : Lane) : Nat :=
  (if l.inq.isSome then 4 else 0) + l.wk.weight + (if l.outq.isSome then 1 else 0)

def D.weight : D → Nat
  | .running => 2
  | .closing => 1
  | .exited => 0

def flag (b : Bool) : Nat := if b then 0 else 1

/-- 5 per item not yet dispatched, 4 / 3 / 2 / 1 per item in `in` / being computed / computed / in `out`,
1 per worker that has not returned, plus the dispatcher, the closer and the consumer's last step -/
def measure (c : Cfg) (s : St) : Nat :=
  5 * (c.N - s.write) + (s.lanes.map Lane.weight).sum + s.disp.weight
    + flag s.stored + flag s.outClosed + flag s.fin.isSome

theorem sum_map_set {α : Type} (f : α → Nat) : ∀ (l : List α) (i : Nat) (a b : α), l[i]? = some a →
    ((l.set i b).map f).sum + f a = (l.map f).sum + f b := by
  intro l
  induction l with
  | nil => intro i a b h; simp at h
  | cons x xs ih =>
    intro i a b h
    cases i with
    | zero =>
      simp only [List.getElem?_cons_zero, Option.some.injEq] at h; subst h
      simp only [List.set, List.map_cons, List.sum_cons]; omega
    | succ i =>
      simp only [List.getElem?_cons_succ] at h
      have := ih i a b h
      simp only [List.set, List.map_cons, List.sum_cons]; omega

theorem lane_weight_eq (l : Lane) :
    Lane.weight l = (if l.inq.isSome then 4 else 0) + l.wk.weight + (if l.outq.isSome then 1 else 0) := rfl

theorem measure_step {c : Cfg} {s s' : St} (h : s' ∈ step c s) : measure c s' < measure c s := by
  obtain ⟨hfin, h⟩ := mem_step.mp h
  rcases h with h | ⟨hd, ha, ho, rfl⟩ | ⟨_, ho, rfl⟩ | h | ⟨j, l, hl, h⟩
  · rcases mem_dispStep h with ⟨hd, hw, l0, hl0, hinq, rfl⟩ | ⟨hd, hw, hg, rfl⟩ | ⟨hd, hw, rfl⟩ | ⟨hd, rfl⟩
    · have := sum_map_set Lane.weight s.lanes (s.write % c.n) l0 { l0 with inq := some s.write } hl0
      rw [lane_weight_eq l0, lane_weight_eq { l0 with inq := some s.write }] at this
      simp only [hinq, Option.isSome_none, Option.isSome_some, ↓reduceIte, Bool.false_eq_true] at this
      simp only [measure]; omega
    · simp only [measure, hd, D.weight]; omega
    · simp only [measure, hd, D.weight]; omega
    · simp only [measure, hd, D.weight]; omega
  · simp only [measure, ho, flag]; simp
  · simp only [measure, ho, flag]; simp
  · obtain ⟨l0, hl0, h⟩ := mem_consumerStep h
    rcases h with ⟨k, hk, rfl⟩ | ⟨hk, ho, rfl⟩
    · have := sum_map_set Lane.weight s.lanes (s.read % c.n) l0 { l0 with outq := none } hl0
      rw [lane_weight_eq l0, lane_weight_eq { l0 with outq := none }] at this
      simp only [hk, Option.isSome_none, Option.isSome_some, ↓reduceIte, Bool.false_eq_true] at this
      simp only [measure]; omega
    · simp only [measure, hfin, flag]; simp
  · have key : ∀ l' : Lane, l'.weight < l.weight →
        measure c (setLane s j l') < measure c s := by
      intro l' hlt
      have := sum_map_set Lane.weight s.lanes j l l' hl
      simp only [measure, setLane]; omega
    rcases mem_workerStep h with ⟨k, hw, hk, rfl⟩ | ⟨hw, hk, hc, rfl⟩ | ⟨k, hw, hf, rfl⟩ | ⟨k, hw, hf, rfl⟩ |
      ⟨k, hw, ho, rfl⟩ | ⟨k, hw, hg, rfl⟩ | ⟨k, hw, rfl⟩
    · exact key _ (by rw [lane_weight_eq l, lane_weight_eq]; simp [hw, hk, Wk.weight])
    · exact key _ (by rw [lane_weight_eq l, lane_weight_eq]; simp [hw, Wk.weight])
    · exact key _ (by rw [lane_weight_eq l, lane_weight_eq]; simp [hw, Wk.weight])
    · exact key _ (by rw [lane_weight_eq l, lane_weight_eq]; simp [hw, Wk.weight])
    · exact key _ (by rw [lane_weight_eq l, lane_weight_eq]; simp [hw, ho, Wk.weight])
    · exact key _ (by rw [lane_weight_eq l, lane_weight_eq]; simp [hw, Wk.weight])
    · have := key { l with wk := Wk.exited } (by rw [lane_weight_eq l, lane_weight_eq]; simp [hw, Wk.weight])
      simp only [measure, setLane] at this ⊢; exact this

end B6.Model.Proto.MapParallel
