import B6.Lemmas.CompactIndexEachSound
/-!
# C01 lemmas, part 10: the build does not panic on an accepted source

Every `orPanic` of `build` succeeds under `Accepts`: every string is in the table, every namespace in the
namespace table, every length fits its word, every list value fits the path's geometry encoding, and every point a
relation lists lies in a namespace that has a point block.
-/
namespace B6.Model.CompactIndex
open B6.Model.Varint B6.Model.Records
open B6.Model.Containers (Entry)

/-! ## totality of `mapM` -/

theorem mapM_some_of_forall {α β : Type} (f : α → Option β) : ∀ xs : List α, (∀ x ∈ xs, ∃ y, f x = some y) →
    ∃ ys, xs.mapM f = some ys := by
  intro xs
  induction xs with
  | nil => intro _; exact ⟨[], by simp⟩
  | cons x xs ih =>
    intro h
    obtain ⟨y, hy⟩ := h x (by simp)
    obtain ⟨ys, hys⟩ := ih (fun x' hx' => h x' (by simp [hx']))
    exact ⟨y :: ys, by simp [List.mapM_cons, hy, hys]⟩

theorem mapM_none_exists {α β : Type} (f : α → Option β) : ∀ xs : List α, xs.mapM f = none → ∃ x ∈ xs, f x = none := by
  intro xs
  induction xs with
  | nil => intro h; simp at h
  | cons x xs ih =>
    intro h
    rw [List.mapM_cons] at h
    cases hx : f x with
    | none => exact ⟨x, by simp, hx⟩
    | some y =>
      cases hxs : xs.mapM f with
      | none =>
        obtain ⟨x', hx', hfx'⟩ := ih hxs
        exact ⟨x', by simp [hx'], hfx'⟩
      | some ys => simp [hx, hxs] at h

theorem mapM_some_length {α β : Type} (f : α → Option β) : ∀ (xs : List α) (ys : List β), xs.mapM f = some ys →
    ys.length = xs.length := by
  intro xs
  induction xs with
  | nil => intro ys h; simp at h; subst h; rfl
  | cons x xs ih =>
    intro ys h
    rw [List.mapM_cons] at h
    cases hx : f x with
    | none => simp [hx] at h
    | some y =>
      cases hxs : xs.mapM f with
      | none => simp [hx, hxs] at h
      | some ys' =>
        simp [hx, hxs] at h
        subst h
        simp [ih ys' hxs]

theorem mapM_except_ok_of_forall {α β ε : Type} (f : α → Except ε β) : ∀ xs : List α, (∀ x ∈ xs, ∃ y, f x = .ok y) →
    ∃ ys, xs.mapM f = .ok ys := by
  intro xs
  induction xs with
  | nil => intro _; exact ⟨[], by simp [List.mapM_nil, pure, Except.pure]⟩
  | cons x xs ih =>
    intro h
    obtain ⟨y, hy⟩ := h x (by simp)
    obtain ⟨ys, hys⟩ := ih (fun x' hx' => h x' (by simp [hx']))
    exact ⟨y :: ys, by simp [List.mapM_cons, hy, hys, bind, Except.bind, pure, Except.pure]⟩

/-! ## tables -/

theorem strId_of_mem (strs : List Str) (s : Str) (h : strs.contains s = true) :
    ∃ i, strId strs s = some i ∧ i < strs.length := by
  have hm : s ∈ strs := by simpa using h
  obtain ⟨i, hi⟩ := findIdx?_of_mem s strs hm
  exact ⟨i, hi, findIdx?_lt _ strs i hi⟩

theorem mkRef_of_mem (nt : List Str) (id : FID) (h : id.ns ∈ nt) : ∃ r, mkRef nt id = some r := by
  obtain ⟨n, hn⟩ := nsEncode_of_mem nt id.ns h
  simp [mkRef, hn]

theorem lenOk_of_small (e l : Nat) (he : e ≤ 2) (hl : l < 2 ^ 48) : lenOk e l = true := by
  simp only [lenOk, Bool.and_eq_true, decide_eq_true_eq, valueTypeOk_iff]
  refine ⟨by omega, ?_⟩
  rcases e with _ | _ | _ | e
  · simp only [encodeGeometry]; omega
  · simp only [encodeGeometry]; omega
  · simp only [encodeGeometry]; omega
  · omega

/-! ## tag values -/

theorem geomEncoding_cases (xs : List Elem) :
    (geomEncoding xs = 2) ∨ (geomEncoding xs = 0 ∧ ∀ x ∈ xs, x.isValidRef = true) ∨
      (geomEncoding xs = 1 ∧ ∀ x ∈ xs, x.isValidRef = false) := by
  unfold geomEncoding
  simp only
  by_cases hr : xs.any Elem.isValidRef = true
  · by_cases hl : (xs.any fun e => !e.isValidRef) = true
    · simp [hr, hl]
    · refine Or.inr (Or.inl ⟨by simp [hr, hl], ?_⟩)
      intro x hx
      cases hv : x.isValidRef with
      | true => rfl
      | false =>
        exfalso
        apply hl
        exact List.any_eq_true.mpr ⟨x, hx, by simp [hv]⟩
  · refine Or.inr (Or.inr ⟨by simp [hr], ?_⟩)
    intro x hx
    cases hv : x.isValidRef with
    | false => rfl
    | true => exact absurd (List.any_eq_true.mpr ⟨x, hx, hv⟩) hr

/-- a list value whose elements all occur in the path's geometry fits the path's encoding -/
theorem listValue_total (c : Ctx) (xs ys : List Elem) (hsub : ∀ y ∈ ys, y ∈ xs)
    (hok : ∀ x ∈ xs, match x with
      | .ref id => id.ok = true ∧ id.ns ∈ c.nt
      | .ll _ => True)
    (hlen : ys.length < 2 ^ 48) :
    ∃ cv, toCompactValue c (some (geomEncoding xs)) (.list ys) = some cv ∧ cv.ok = true := by
  have hrefs : ∀ y ∈ ys, ∀ id, y = Elem.ref id → ∃ r, mkRef c.nt id = some r := by
    intro y hy id hid
    subst hid
    have := hok _ (hsub _ hy)
    exact mkRef_of_mem c.nt id this.2
  have hvalid : ∀ y ∈ ys, ∀ id, y = Elem.ref id → (Elem.ref id).isValidRef = true := by
    intro y hy id hid
    subst hid
    have := (hok _ (hsub _ hy)).1
    simp only [FID.ok, Bool.and_eq_true] at this
    exact this.2
  cases h : toCompactValue c (some (geomEncoding xs)) (.list ys) with
  | some cv =>
    refine ⟨cv, rfl, ?_⟩
    unfold toCompactValue at h
    rcases geomEncoding_cases xs with h2 | ⟨h0, _⟩ | ⟨h1, _⟩
    · simp only [h2, Option.map_eq_some_iff] at h
      obtain ⟨l, hl, rfl⟩ := h
      have := mapM_some_length _ _ _ hl
      simp only [Value.ok, RefLLs.ok, this]
      exact lenOk_of_small 2 _ (by omega) hlen
    · simp only [h0, Option.map_eq_some_iff] at h
      obtain ⟨l, hl, rfl⟩ := h
      have := mapM_some_length _ _ _ hl
      simp only [Value.ok, References.ok, this]
      exact lenOk_of_small 0 _ (by omega) hlen
    · simp only [h1, Option.map_eq_some_iff] at h
      obtain ⟨l, hl, rfl⟩ := h
      have := mapM_some_length _ _ _ hl
      simp only [Value.ok, LatLngs.ok, this]
      exact lenOk_of_small 1 _ (by omega) hlen
  | none =>
    exfalso
    unfold toCompactValue at h
    rcases geomEncoding_cases xs with h2 | ⟨h0, hall⟩ | ⟨h1, hall⟩
    · simp only [h2, Option.map_eq_none_iff] at h
      obtain ⟨y, hy, hfy⟩ := mapM_none_exists _ _ h
      cases y with
      | ll p => simp at hfy
      | ref id =>
        obtain ⟨r, hr⟩ := hrefs _ hy id rfl
        simp [hr] at hfy
    · simp only [h0, Option.map_eq_none_iff] at h
      obtain ⟨y, hy, hfy⟩ := mapM_none_exists _ _ h
      cases y with
      | ll p =>
        have := hall _ (hsub _ hy)
        simp [Elem.isValidRef] at this
      | ref id =>
        obtain ⟨r, hr⟩ := hrefs _ hy id rfl
        simp [hr] at hfy
    · simp only [h1, Option.map_eq_none_iff] at h
      obtain ⟨y, hy, hfy⟩ := mapM_none_exists _ _ h
      cases y with
      | ll p => simp at hfy
      | ref id =>
        have h1' := hall _ (hsub _ hy)
        have h2' := hvalid _ hy id rfl
        rw [h1'] at h2'
        simp at h2'

theorem plainValue_total (c : Ctx) (hs : c.strs.length < 2 ^ 48) (e : Option Nat) (v : Val) (hv : v.plain = true)
    (hstr : ∀ s, v = .str s → c.strs.contains s = true) :
    ∃ cv, toCompactValue c e v = some cv ∧ cv.ok = true := by
  cases v with
  | str s =>
    obtain ⟨i, hi, hlt⟩ := strId_of_mem c.strs s (hstr s rfl)
    refine ⟨.int (BitVec.ofNat 64 i), by simp [toCompactValue, hi], ?_⟩
    simp only [Value.ok, valueTypeOk_iff, BitVec.toNat_ofNat]
    omega
  | pt p => exact ⟨.point p, rfl, latlng_ok p⟩
  | fid i => simp [Val.plain] at hv
  | list xs => simp [Val.plain] at hv

/-! ## tags -/

theorem tags_total (c : Ctx) (f : Feature) (hlen : f.tags.length < 2 ^ 48)
    (hval : ∀ t ∈ f.tags, (∃ i, strId c.strs t.key = some i) ∧
      ∃ cv, toCompactValue c (tagEncoding f) t.val = some cv ∧ cv.ok = true) :
    ∃ ts, toCompactTags c f = some ts ∧ Tags.ok ts = true := by
  cases h : toCompactTags c f with
  | none =>
    exfalso
    unfold toCompactTags at h
    obtain ⟨t, ht, hft⟩ := mapM_none_exists _ _ h
    obtain ⟨⟨i, hi⟩, cv, hcv, _⟩ := hval t ht
    simp [hi, hcv] at hft
  | some ts =>
    refine ⟨ts, rfl, ?_⟩
    have hl : ts.length = f.tags.length := mapM_some_length _ _ _ h
    simp only [Tags.ok, Bool.and_eq_true, decide_eq_true_eq, List.all_eq_true]
    refine ⟨by omega, ?_⟩
    refine mapM_forall _ (fun (t : Tag) => t.value.ok = true) f.tags ts ?_ h
    intro t ht y hty
    obtain ⟨⟨i, hi⟩, cv, hcv, hok⟩ := hval t ht
    simp [hi, hcv] at hty
    subst hty
    exact hok

/-- the strings of a feature are in the table -/
theorem tag_strings (strs : List Str) (fs : List Feature) (hstr : ∀ s ∈ fs.flatMap stringsOf, strs.contains s = true)
    (f : Feature) (hf : f ∈ fs) (t : FTag) (ht : t ∈ f.tags) :
    strs.contains t.key = true ∧ ∀ s, t.val = .str s → strs.contains s = true := by
  have hmem : ∀ s, s ∈ stringsOf f → strs.contains s = true :=
    fun s hs => hstr s (List.mem_flatMap.mpr ⟨f, hf, hs⟩)
  constructor
  · apply hmem
    unfold stringsOf
    exact List.mem_append_left _ (List.mem_flatMap.mpr ⟨t, ht, by simp⟩)
  · intro s hs
    apply hmem
    unfold stringsOf
    exact List.mem_append_left _ (List.mem_flatMap.mpr ⟨t, ht, by simp [hs]⟩)

theorem tags_total_plain (c : Ctx) (hs : c.strs.length < 2 ^ 48) (f : Feature) (hlen : f.tags.length < 2 ^ 48)
    (hplain : ∀ t ∈ f.tags, t.val.plain = true)
    (hstr : ∀ t ∈ f.tags, c.strs.contains t.key = true ∧ ∀ s, t.val = .str s → c.strs.contains s = true) :
    ∃ ts, toCompactTags c f = some ts ∧ Tags.ok ts = true := by
  refine tags_total c f hlen ?_
  intro t ht
  obtain ⟨i, hi, _⟩ := strId_of_mem c.strs t.key (hstr t ht).1
  exact ⟨⟨i, hi⟩, plainValue_total c hs _ t.val (hplain t ht) (hstr t ht).2⟩

/-! ## the tags of a (validated) path -/

structure PathTagsOK (c : Ctx) (g : Feature) : Prop where
  nopoint : getTag g.tags kPoint = none
  haspath : (getTag g.tags kPath).isSome = true
  vals : ∀ t ∈ g.tags, t.val.ok = true
  lists : ∀ t ∈ g.tags, ∀ ys, t.val = .list ys → (∀ y ∈ ys, y ∈ pathElems g) ∧ ys.length < 2 ^ 48
  elems : ∀ x ∈ pathElems g, match x with
    | .ref id => id.ok = true ∧ id.ns ∈ c.nt
    | .ll _ => True
  strs : ∀ t ∈ g.tags, c.strs.contains t.key = true ∧ ∀ s, t.val = .str s → c.strs.contains s = true
  len : g.tags.length < 2 ^ 48

theorem geomElems_of_nopoint (g : Feature) (h : getTag g.tags kPoint = none) : geomElems g = pathElems g := by
  unfold geomElems geometryLen
  simp [h]

theorem path_tags_total (c : Ctx) (hs : c.strs.length < 2 ^ 48) (g : Feature) (h : PathTagsOK c g) :
    ∃ ts, toCompactTags c g = some ts ∧ Tags.ok ts = true := by
  refine tags_total c g h.len ?_
  intro t ht
  obtain ⟨i, hi, _⟩ := strId_of_mem c.strs t.key (h.strs t ht).1
  refine ⟨⟨i, hi⟩, ?_⟩
  have henc : tagEncoding g = some (geomEncoding (pathElems g)) := by
    unfold tagEncoding
    simp [h.haspath, geomElems_of_nopoint g h.nopoint]
  cases hv : t.val with
  | str s => exact plainValue_total c hs _ _ rfl (fun s' hs' => (h.strs t ht).2 s' (by rw [hv, hs']))
  | pt p => exact plainValue_total c hs _ _ rfl (fun s' hs' => by simp at hs')
  | fid i =>
    have := h.vals t ht
    rw [hv] at this
    simp [Val.ok] at this
  | list ys =>
    rw [henc]
    have ⟨hsub, hlen⟩ := h.lists t ht ys hv
    exact listValue_total c (pathElems g) ys hsub h.elems hlen

/-! ### inversion keeps the tags well formed -/

theorem invertTag_key (t : FTag) : (invertTag t).key = t.key := by
  unfold invertTag
  split
  · split <;> rfl
  · rfl

theorem mem_invertTags : ∀ (ts : List FTag) (t' : FTag), t' ∈ invertTags ts → ∃ t ∈ ts, t' = t ∨ t' = invertTag t := by
  intro ts
  induction ts with
  | nil => intro t' h; simp [invertTags] at h
  | cons x xs ih =>
    intro t' h
    unfold invertTags at h
    split at h
    · rcases List.mem_cons.mp h with rfl | h'
      · exact ⟨x, by simp, Or.inr rfl⟩
      · exact ⟨t', by simp [h'], Or.inl rfl⟩
    · rcases List.mem_cons.mp h with rfl | h'
      · exact ⟨t', by simp, Or.inl rfl⟩
      · obtain ⟨t, ht, hh⟩ := ih t' h'
        exact ⟨t, by simp [ht], hh⟩

theorem invertTags_length : ∀ ts : List FTag, (invertTags ts).length = ts.length := by
  intro ts
  induction ts with
  | nil => rfl
  | cons x xs ih =>
    unfold invertTags
    split <;> simp [ih]

/-- the value of a tag after `invertTag`: a list is reversed or kept, anything else is kept -/
theorem invertTag_val (t : FTag) : (invertTag t).val = t.val ∨ ∃ xs, t.val = .list xs ∧ (invertTag t).val = .list xs.reverse := by
  unfold invertTag
  split
  · rename_i xs hxs
    split
    · exact Or.inr ⟨xs, hxs, rfl⟩
    · exact Or.inl rfl
  · exact Or.inl rfl

theorem getTag_invertTags_other (k : Str) (hk : k ≠ kPath) : ∀ ts : List FTag, getTag (invertTags ts) k = getTag ts k := by
  intro ts
  induction ts with
  | nil => rfl
  | cons x xs ih =>
    unfold invertTags
    split
    · rename_i hx
      have hxk : x.key = kPath := eq_of_beq hx
      have h1 : (x.key == k) = false := by
        rw [hxk]
        exact beq_false_of_ne (Ne.symm hk)
      have h2 : ((invertTag x).key == k) = false := by rw [invertTag_key]; exact h1
      simp [getTag, List.find?_cons, h1, h2]
    · unfold getTag at ih ⊢
      simp only [List.find?_cons]
      split
      · rfl
      · exact ih

def invVal : Val → Val
  | .list xs => .list xs.reverse
  | v => v

theorem invertTags_cons_path (t : FTag) (ts : List FTag) (ht : (t.key == kPath) = true) :
    invertTags (t :: ts) = invertTag t :: ts := by
  simp [invertTags, ht]

theorem invertTags_cons_other (t : FTag) (ts : List FTag) (ht : (t.key == kPath) = false) :
    invertTags (t :: ts) = t :: invertTags ts := by
  simp [invertTags, ht]

theorem invertTag_val_path (t : FTag) (ht : (t.key == kPath) = true) : (invertTag t).val = invVal t.val := by
  obtain ⟨k, v⟩ := t
  cases v <;> simp_all [invertTag, invVal]

theorem getTag_invertTags_path : ∀ ts : List FTag, getTag (invertTags ts) kPath = (getTag ts kPath).map invVal := by
  intro ts
  induction ts with
  | nil => rfl
  | cons t ts ih =>
    by_cases ht : (t.key == kPath) = true
    · have h2 : ((invertTag t).key == kPath) = true := by rw [invertTag_key]; exact ht
      rw [invertTags_cons_path t ts ht]
      simp [getTag, List.find?_cons, ht, h2, invertTag_val_path t ht]
    · have ht' : (t.key == kPath) = false := by simpa using ht
      rw [invertTags_cons_other t ts ht']
      unfold getTag at ih ⊢
      simp only [List.find?_cons, ht']
      exact ih

theorem pathElems_invertTags (f : Feature) : ∀ x, x ∈ pathElems { f with tags := invertTags f.tags } ↔ x ∈ pathElems f := by
  intro x
  unfold pathElems
  simp only [getTag_invertTags_path]
  cases h : getTag f.tags kPath with
  | none => simp
  | some v => cases v <;> simp [invVal]

theorem pathTagsOK_validated (c : Ctx) (fs : List Feature) (f : Feature) (h : PathTagsOK c f) :
    PathTagsOK c (validated fs f) := by
  unfold validated
  split
  · have hel := pathElems_invertTags f
    refine ⟨?_, ?_, ?_, ?_, ?_, ?_, ?_⟩
    · show getTag (invertTags f.tags) kPoint = none
      rw [getTag_invertTags_other kPoint (by decide)]
      exact h.nopoint
    · -- the path tag is still there
      show (getTag (invertTags f.tags) kPath).isSome = true
      rw [getTag_invertTags_path]
      simpa using h.haspath
    · exact invertTags_ok f.tags h.vals
    · intro t' ht' ys hys
      obtain ⟨t, ht, hh⟩ := mem_invertTags f.tags t' ht'
      have hsub : (∀ y ∈ ys, y ∈ pathElems f) ∧ ys.length < 2 ^ 48 := by
        rcases hh with rfl | rfl
        · exact h.lists t' ht ys hys
        · rcases invertTag_val t with hv | ⟨xs, h1, h3⟩
          · exact h.lists t ht ys (by rw [← hv, hys])
          · rw [h3] at hys
            have := Val.list.inj hys
            subst this
            have ⟨a, b⟩ := h.lists t ht xs h1
            exact ⟨fun y hy => a y (List.mem_reverse.mp hy), by simpa using b⟩
      exact ⟨fun y hy => (hel y).mpr (hsub.1 y hy), hsub.2⟩
    · intro x hx
      exact h.elems x ((hel x).mp hx)
    · intro t' ht'
      obtain ⟨t, ht, hh⟩ := mem_invertTags f.tags t' ht'
      rcases hh with rfl | rfl
      · exact h.strs t' ht
      · refine ⟨by rw [invertTag_key]; exact (h.strs t ht).1, ?_⟩
        intro s hs
        rcases invertTag_val t with hv | ⟨xs, _, h3⟩
        · exact (h.strs t ht).2 s (by rw [← hv, hs])
        · rw [h3] at hs; simp at hs
    · show (invertTags f.tags).length < 2 ^ 48
      rw [invertTags_length]
      exact h.len
  · exact h

theorem getTag_mem (ts : List FTag) (k : Str) (v : Val) (h : getTag ts k = some v) : ∃ t ∈ ts, t.val = v := by
  unfold getTag at h
  simp only [Option.map_eq_some_iff] at h
  obtain ⟨t, ht, rfl⟩ := h
  exact ⟨t, List.mem_of_find?_eq_some ht, rfl⟩

/-- what `Accepts` says about a path -/
theorem pathTagsOK_of_accepts (strs : List Str) (fs : List Feature) (c : Ctx) (hnt : c.nt = nsTable fs) (hst : c.strs = strs)
    (hstr : ∀ s ∈ fs.flatMap stringsOf, strs.contains s = true)
    (f : Feature) (hf : f ∈ fs) (h1 : f.id.typ = 1) (hOK : featureOK fs f = true) : PathTagsOK c f := by
  unfold featureOK at hOK
  simp only [Bool.and_eq_true, decide_eq_true_eq, h1, List.all_eq_true] at hOK
  obtain ⟨⟨_, hsize⟩, ⟨⟨⟨⟨hvals, hnop⟩, hvalid⟩, _⟩, hlists⟩⟩ := hOK
  unfold sizeOK at hsize
  simp only [Bool.and_eq_true, decide_eq_true_eq, List.all_eq_true] at hsize
  have hnopoint : getTag f.tags kPoint = none := by simpa using hnop
  have hgeo := geomElems_of_nopoint f hnopoint
  -- the path tag
  have hlen2 : 2 ≤ (pathElems f).length := by
    unfold pathValid at hvalid
    simp only [Bool.and_eq_true, decide_eq_true_eq] at hvalid
    have := hvalid.1.1.2
    unfold geometryLen at this
    simpa [hnopoint] using this
  have hpath : ∃ xs, getTag f.tags kPath = some (.list xs) ∧ pathElems f = xs := by
    unfold pathElems at hlen2 ⊢
    cases hg : getTag f.tags kPath with
    | none => simp [hg] at hlen2
    | some v =>
      cases v with
      | list xs => exact ⟨xs, rfl, rfl⟩
      | str s => simp [hg] at hlen2
      | pt p => simp [hg] at hlen2
      | fid i => simp [hg] at hlen2
  obtain ⟨xs, hgx, hpx⟩ := hpath
  obtain ⟨tp, htp, htpv⟩ := getTag_mem f.tags kPath _ hgx
  refine ⟨hnopoint, by simp [hgx], hvals, ?_, ?_, ?_, hsize.1.1.1.1.1⟩
  · intro t ht ys hys
    have h2 := hlists t ht
    have h3 := hsize.1.2 t ht
    rw [hys] at h2 h3
    simp only [Bool.and_eq_true, beq_iff_eq, decide_eq_true_eq] at h2 h3
    refine ⟨?_, h3⟩
    intro y hy
    rw [← h2.2]
    exact hy
  · intro x hx
    cases x with
    | ll p => trivial
    | ref id =>
      have hok := hvals tp htp
      rw [htpv, ← hpx] at hok
      simp only [Val.ok, List.all_eq_true] at hok
      have hidok := hok _ hx
      simp only at hidok
      refine ⟨hidok, ?_⟩
      rw [hnt]
      refine mem_nsTable fs f hf id.ns ?_
      simp only [mentioned, h1, List.mem_cons, List.mem_filterMap]
      refine Or.inr ⟨Elem.ref id, by rw [hgeo]; exact hx, ?_⟩
      simp only [FID.ok, Bool.and_eq_true] at hidok
      simp [hidok.2]
  · intro t ht
    rw [hst]
    exact tag_strings strs fs hstr f hf t ht

/-! ## reference lists -/

theorem refsOf_total (c : Ctx) (ids : List FID) (h : ∀ id ∈ ids, id.ns ∈ c.nt) :
    ∃ rs, refsOf c ids = .ok rs ∧ rs.length = ids.length := by
  obtain ⟨rs, hrs⟩ := mapM_except_ok_of_forall (fun id => orPanic "reference namespace" (mkRef c.nt id)) ids (by
    intro id hid
    obtain ⟨r, hr⟩ := mkRef_of_mem c.nt id (h id hid)
    exact ⟨r, by simp [hr]⟩)
  exact ⟨rs, hrs, mapM_except_length _ _ _ hrs⟩

theorem mem_insertFID (x y : FID) : ∀ l : List FID, y ∈ insertFID x l → y = x ∨ y ∈ l := by
  intro l
  induction l with
  | nil => simp [insertFID]
  | cons z zs ih =>
    unfold insertFID
    split
    · intro h; exact Or.inr h
    · split
      · intro h
        rcases List.mem_cons.mp h with h | h
        · exact Or.inl h
        · exact Or.inr h
      · intro h
        rcases List.mem_cons.mp h with h | h
        · exact Or.inr (by simp [h])
        · rcases ih h with h | h
          · exact Or.inl h
          · exact Or.inr (by simp [h])

theorem insertFID_length (x : FID) : ∀ l : List FID, (insertFID x l).length ≤ l.length + 1 := by
  intro l
  induction l with
  | nil => simp [insertFID]
  | cons z zs ih =>
    unfold insertFID
    split
    · simp
    · split
      · simp
      · simp only [List.length_cons]; omega

theorem sortDedupFIDs_sub : ∀ (l : List FID), (∀ y ∈ sortDedupFIDs l, y ∈ l) ∧ (sortDedupFIDs l).length ≤ l.length := by
  intro l
  induction l with
  | nil => simp [sortDedupFIDs]
  | cons x xs ih =>
    unfold sortDedupFIDs at ih ⊢
    simp only [List.foldr_cons]
    constructor
    · intro y hy
      rcases mem_insertFID x y _ hy with h | h
      · simp [h]
      · simp [ih.1 y h]
    · have := insertFID_length x (List.foldr insertFID [] xs)
      simp only [List.length_cons]
      omega

/-- the ids `FillReferences` returns for a feature are ids of features of the source: their namespaces are in
the table and there are fewer than 2^48 of them -/
theorem related_total (c : Ctx) (fs : List Feature) (hnt : c.nt = nsTable fs) (hlen : fs.length < 2 ^ 48)
    (p : Feature → Bool) :
    ∃ rs, refsOf c (sortDedupFIDs ((fs.filter p).map (·.id))) = .ok rs ∧ References.ok rs = true := by
  have ⟨hsub, hl⟩ := sortDedupFIDs_sub ((fs.filter p).map (·.id))
  obtain ⟨rs, hrs, hlen'⟩ := refsOf_total c _ (by
    intro id hid
    obtain ⟨a, ha, rfl⟩ := List.mem_map.mp (hsub id hid)
    rw [hnt]
    exact mem_nsTable fs a (List.mem_filter.mp ha).1 a.id.ns (by simp [mentioned]))
  refine ⟨rs, hrs, ?_⟩
  unfold References.ok
  apply lenOk_of_small 0 _ (by omega)
  have : ((fs.filter p).map (·.id)).length ≤ fs.length := by
    simp only [List.length_map]
    exact List.length_filter_le _ _
  omega

theorem areasOfPath_total (c : Ctx) (fs : List Feature) (hnt : c.nt = nsTable fs) (hlen : fs.length < 2 ^ 48) (id : FID) :
    ∃ rs, refsOf c (areasOfPath fs id) = .ok rs ∧ References.ok rs = true := by
  unfold areasOfPath
  exact related_total c fs hnt hlen _

theorem relationsOfMember_total (c : Ctx) (fs : List Feature) (hnt : c.nt = nsTable fs) (hlen : fs.length < 2 ^ 48) (id : FID) :
    ∃ rs, refsOf c (relationsOfMember fs id) = .ok rs ∧ References.ok rs = true := by
  unfold relationsOfMember
  exact related_total c fs hnt hlen _

/-! ## records -/

theorem pathRecord_total (c : Ctx) (fs : List Feature) (hnt : c.nt = nsTable fs) (hlen : fs.length < 2 ^ 48)
    (hs : c.strs.length < 2 ^ 48) (g : Feature) (hg : PathTagsOK c g) : ∃ d, pathRecord c fs g = .ok d := by
  obtain ⟨ts, hts, htok⟩ := path_tags_total c hs g hg
  obtain ⟨as, has, haok⟩ := areasOfPath_total c fs hnt hlen g.id
  obtain ⟨rs, hrs, hrok⟩ := relationsOfMember_total c fs hnt hlen g.id
  unfold pathRecord
  simp only [hts, has, hrs, orPanic_some, bind, Except.bind]
  have : Path.marshal c.osm ⟨ts, as, rs⟩ = some (Path.enc c.osm ⟨ts, as, rs⟩) := by
    simp [Path.marshal, Path.ok, htok, haok, hrok]
  rw [this]
  exact ⟨_, rfl⟩

theorem relationRecord_total (c : Ctx) (fs : List Feature) (hnt : c.nt = nsTable fs) (hlen : fs.length < 2 ^ 48)
    (hs : c.strs.length < 2 ^ 48) (r : Feature) (hr : r ∈ fs) (h3 : r.id.typ = 3)
    (hplain : ∀ t ∈ r.tags, t.val.plain = true)
    (hstr : ∀ s ∈ stringsOf r, c.strs.contains s = true)
    (htl : r.tags.length < 2 ^ 48) (hml : r.members.length < 2 ^ 48) (hmt : ∀ m ∈ r.members, m.id.typ < 4) :
    ∃ d, relationRecord c fs r = .ok d := by
  obtain ⟨ts, hts, htok⟩ := tags_total_plain c hs r htl hplain (by
    intro t ht
    constructor
    · apply hstr
      unfold stringsOf
      exact List.mem_append_left _ (List.mem_flatMap.mpr ⟨t, ht, by simp⟩)
    · intro s hsv
      apply hstr
      unfold stringsOf
      exact List.mem_append_left _ (List.mem_flatMap.mpr ⟨t, ht, by simp [hsv]⟩))
  obtain ⟨rs, hrs, hrok⟩ := relationsOfMember_total c fs hnt hlen r.id
  -- the members
  unfold relationRecord
  generalize hF : (fun (m : FMember) => (do
      let ref ← orPanic "member namespace" (mkRef c.nt m.id)
      let role ← orPanic "role" (strId c.strs m.role)
      pure (⟨BitVec.ofNat 64 m.id.typ, BitVec.ofNat 64 role, ref⟩ : Member) : Except BuildError Member)) = F
  have hFok : ∀ m ∈ r.members, ∃ y, F m = .ok y ∧ y.fits = true := by
    intro m hm
    subst hF
    obtain ⟨ref, href⟩ := mkRef_of_mem c.nt m.id (by
      rw [hnt]
      exact mem_nsTable fs r hr m.id.ns (by
        simp only [mentioned, h3, List.mem_cons, List.mem_map]
        exact Or.inr ⟨m, hm, rfl⟩))
    obtain ⟨i, hi, hilt⟩ := strId_of_mem c.strs m.role (hstr _ (by
      unfold stringsOf
      exact List.mem_append_right _ (List.mem_map.mpr ⟨m, hm, rfl⟩)))
    refine ⟨⟨BitVec.ofNat 64 m.id.typ, BitVec.ofNat 64 i, ref⟩, by simp [href, hi, bind, Except.bind, pure, Except.pure], ?_⟩
    have := hmt m hm
    simp only [Member.fits, Member.ok, Member.typeOk, Bool.and_eq_true, beq_iff_eq, decide_eq_true_eq, BitVec.toNat_ofNat]
    omega
  obtain ⟨ms, hms⟩ := mapM_except_ok_of_forall F r.members (fun m hm => by
    obtain ⟨y, hy, _⟩ := hFok m hm
    exact ⟨y, hy⟩)
  have hmsok : Members.ok ms = true := by
    have hl := mapM_except_length F _ _ hms
    simp only [Members.ok, Bool.and_eq_true, decide_eq_true_eq, List.all_eq_true]
    refine ⟨by omega, ?_⟩
    refine mapM_forall_except F (fun y => y.fits = true) r.members ms ?_ hms
    intro m hm y hy
    obtain ⟨y', hy', hok⟩ := hFok m hm
    rw [hy] at hy'
    exact (Except.ok.inj hy') ▸ hok
  obtain ⟨n, hn⟩ := nsEncode_of_mem c.nt r.id.ns (by
    rw [hnt]; exact mem_nsTable fs r hr r.id.ns (by simp [mentioned]))
  simp only [hts, hms, hrs, hn, orPanic_some, bind, Except.bind]
  have : Relation.marshal 1#64 (blockHeader c 3 n) ⟨ts, ms, rs⟩ =
      some (Relation.enc (tnPath (blockHeader c 3 n)) (blockHeader c 3 n) ⟨ts, ms, rs⟩) := by
    simp [Relation.marshal, memberPrimary_path, Relation.ok, htok, hmsok, hrok]
  rw [this]
  exact ⟨_, rfl⟩

/-! ## areas -/

theorem bounds_length_le {α : Type} : ∀ (ls : List (List α)) (s : Nat), (bounds s ls).length ≤ ls.length := by
  intro ls
  induction ls with
  | nil => intro s; simp [bounds]
  | cons l rest ih =>
    intro s
    cases rest with
    | nil => simp [bounds]
    | cons l' rest' =>
      have := ih (s + l.length)
      simp only [bounds, List.length_cons] at this ⊢
      omega

theorem refStarts_length_le {α : Type} : ∀ (ls : List (List α)) (s : Nat), (refStarts s ls).length ≤ ls.length := by
  intro ls
  induction ls with
  | nil => intro s; simp [refStarts]
  | cons l rest ih =>
    intro s
    have := ih (s + l.length)
    simp only [refStarts, List.length_append, List.length_cons]
    split <;> simp <;> omega

/-- sizes and namespaces of one polygon -/
def polySmall (c : Ctx) : Poly → Prop
  | .paths ids => ids.length < 2 ^ 48 ∧ ∀ id ∈ ids, id.ns ∈ c.nt
  | .loops ls => ls.length < 2 ^ 48 ∧ ls.flatten.length < 2 ^ 48

theorem polygonLL_ok (ls : List (List LatLng)) (h1 : ls.length < 2 ^ 48) (h2 : ls.flatten.length < 2 ^ 48) :
    (polygonLL ls).ok = true := by
  have := bounds_length_le ls 0
  simp only [PolygonLL.ok, polygonLL, Bool.and_eq_true, decide_eq_true_eq, List.length_map, LatLngs.ok]
  exact ⟨by omega, lenOk_of_small 1 _ (by omega) h2⟩

theorem mixedF_total (c : Ctx) (p : Poly) (hp : polySmall c p) :
    ∃ q, mixedF c p = .ok q ∧ ∀ q', q = some q' → q'.ok = true := by
  cases p with
  | paths ids =>
    obtain ⟨rs, hrs, hl⟩ := refsOf_total c ids hp.2
    refine ⟨some ⟨rs, PolygonLL.zero⟩, by simp [mixedF, hrs, bind, Except.bind, pure, Except.pure], ?_⟩
    intro q' hq'
    have := Option.some.inj hq'
    subst this
    unfold PolygonMixed.ok PolygonMixed.isRef
    split
    · simp only [References.ok]
      exact lenOk_of_small 0 _ (by omega) (by have := hp.1; omega)
    · show PolygonLL.zero.ok = true
      decide
  | loops ls =>
    refine ⟨_, rfl, ?_⟩
    intro q' hq'
    split at hq'
    · have := Option.some.inj hq'
      subst this
      simp only [PolygonMixed.ok, PolygonMixed.isRef, List.isEmpty_nil, Bool.not_true, Bool.false_eq_true, if_false]
      exact polygonLL_ok ls hp.1 hp.2
    · simp at hq'

theorem areaGeometry_total (c : Ctx) (a : Feature) (hpl : a.polys.length < 2 ^ 48)
    (hflat : (a.polys.filterMap pathsOf).flatten.length < 2 ^ 48) (hp : ∀ p ∈ a.polys, polySmall c p) :
    ∃ g, areaGeometry c a = .ok g ∧ g.ok = true := by
  unfold areaGeometry
  simp only
  split
  · -- mixed
    obtain ⟨qs, hqs⟩ := mapM_except_ok_of_forall (mixedF c) a.polys (fun p hpm => by
      obtain ⟨q, hq, _⟩ := mixedF_total c p (hp p hpm)
      exact ⟨q, hq⟩)
    refine ⟨.mixed (qs.filterMap id), by simp [hqs, bind, Except.bind, pure, Except.pure], ?_⟩
    have hl := mapM_except_length _ _ _ hqs
    have hfl : (qs.filterMap id).length ≤ qs.length := List.length_filterMap_le _ _
    simp only [AreaGeometry.ok, AreaGeomMixed.ok, Bool.and_eq_true, decide_eq_true_eq, List.all_eq_true]
    refine ⟨by omega, ?_⟩
    intro q' hq'
    simp only [List.mem_filterMap, id] at hq'
    obtain ⟨oq, hoq, rfl⟩ := hq'
    have ⟨hm1, _⟩ := mapM_except_mem _ _ _ hqs
    obtain ⟨p, hpm, hfp⟩ := hm1 _ hoq
    obtain ⟨q, hq, hqok⟩ := mixedF_total c p (hp p hpm)
    rw [hfp] at hq
    have := Except.ok.inj hq
    exact hqok q' this.symm
  · split
    · -- references
      obtain ⟨rs, hrs, hl⟩ := refsOf_total c (a.polys.filterMap pathsOf).flatten (by
        intro id hid
        obtain ⟨ids, hids, hid'⟩ := List.mem_flatten.mp hid
        obtain ⟨p, hpm, hpp⟩ := List.mem_filterMap.mp hids
        cases p with
        | loops ls => simp [pathsOf] at hpp
        | paths ids' =>
          simp only [pathsOf, Option.some.injEq] at hpp
          subst hpp
          exact (hp _ hpm).2 id hid')
      refine ⟨_, by simp [hrs, bind, Except.bind, pure, Except.pure]; rfl, ?_⟩
      have h1 := refStarts_length_le (a.polys.filterMap pathsOf) 0
      have h2 : (a.polys.filterMap pathsOf).length ≤ a.polys.length := List.length_filterMap_le _ _
      simp only [AreaGeometry.ok, AreaGeomRefs.ok, Bool.and_eq_true, decide_eq_true_eq, List.length_map, References.ok]
      exact ⟨by omega, lenOk_of_small 0 _ (by omega) (by omega)⟩
    · -- explicit loops
      refine ⟨_, rfl, ?_⟩
      simp only [AreaGeometry.ok, AreaGeomLL.ok, Bool.and_eq_true, decide_eq_true_eq, List.all_eq_true]
      have h1 : (((a.polys.filterMap loopsOf).map polygonLL).filter polygonValid).length ≤ a.polys.length := by
        refine Nat.le_trans (List.length_filter_le _ _) ?_
        simp only [List.length_map]
        exact List.length_filterMap_le _ _
      refine ⟨by omega, ?_⟩
      intro q hq
      have hq' := (List.mem_filter.mp hq).1
      obtain ⟨ls, hls, rfl⟩ := List.mem_map.mp hq'
      obtain ⟨p, hpm, hpp⟩ := List.mem_filterMap.mp hls
      cases p with
      | paths ids => simp [loopsOf] at hpp
      | loops ls' =>
        simp only [loopsOf, Option.some.injEq] at hpp
        subst hpp
        exact polygonLL_ok _ (hp _ hpm).1 (hp _ hpm).2

theorem plain_strings (c : Ctx) (f : Feature) (hstr : ∀ s ∈ stringsOf f, c.strs.contains s = true) :
    ∀ t ∈ f.tags, c.strs.contains t.key = true ∧ ∀ s, t.val = .str s → c.strs.contains s = true := by
  intro t ht
  constructor
  · apply hstr
    unfold stringsOf
    exact List.mem_append_left _ (List.mem_flatMap.mpr ⟨t, ht, by simp⟩)
  · intro s hsv
    apply hstr
    unfold stringsOf
    exact List.mem_append_left _ (List.mem_flatMap.mpr ⟨t, ht, by simp [hsv]⟩)

theorem areaRecord_total (c : Ctx) (fs : List Feature) (hnt : c.nt = nsTable fs) (hlen : fs.length < 2 ^ 48)
    (hs : c.strs.length < 2 ^ 48) (a : Feature)
    (hplain : ∀ t ∈ a.tags, t.val.plain = true) (hstr : ∀ s ∈ stringsOf a, c.strs.contains s = true)
    (htl : a.tags.length < 2 ^ 48) (hpl : a.polys.length < 2 ^ 48)
    (hflat : (a.polys.filterMap pathsOf).flatten.length < 2 ^ 48) (hp : ∀ p ∈ a.polys, polySmall c p) :
    ∃ d, areaRecord c fs a = .ok d := by
  obtain ⟨ts, hts, htok⟩ := tags_total_plain c hs a htl hplain (plain_strings c a hstr)
  obtain ⟨g, hg, hgok⟩ := areaGeometry_total c a hpl hflat hp
  obtain ⟨rs, hrs, hrok⟩ := relationsOfMember_total c fs hnt hlen a.id
  unfold areaRecord
  simp only [hts, hg, hrs, orPanic_some, bind, Except.bind]
  have : Area.marshal c.osm ⟨ts, g, rs⟩ = some (Area.enc c.osm ⟨ts, g, rs⟩) := by
    simp [Area.marshal, Area.ok, htok, hgok, hrok]
  rw [this]
  exact ⟨_, rfl⟩

/-! ## the point scratch pass -/

theorem scratchOf_total (strs : List Str) (fs : List Feature) (c : Ctx) (hnt : c.nt = nsTable fs) (hst : c.strs = strs)
    (hs : strs.length < 2 ^ 48) (hstr : ∀ s ∈ fs.flatMap stringsOf, strs.contains s = true)
    (f : Feature) (hf : f ∈ fs) (hOK : featureOK fs f = true) : ∃ l, scratchOf c fs f = .ok l := by
  have hidns : f.id.ns ∈ c.nt := by rw [hnt]; exact mem_nsTable fs f hf f.id.ns (by simp [mentioned])
  unfold featureOK at hOK
  simp only [Bool.and_eq_true, decide_eq_true_eq] at hOK
  obtain ⟨⟨_, hsize⟩, hmatch⟩ := hOK
  unfold sizeOK at hsize
  simp only [Bool.and_eq_true, decide_eq_true_eq, List.all_eq_true] at hsize
  unfold scratchOf
  split
  · -- point
    rename_i h0
    simp only [h0, Bool.and_eq_true, List.all_eq_true] at hmatch
    obtain ⟨ts, hts, htok⟩ := tags_total_plain c (by rw [hst]; exact hs) f hsize.1.1.1.1.1 hmatch.1 (by
      intro t ht
      rw [hst]
      exact tag_strings strs fs hstr f hf t ht)
    simp [hts, htok, bind, Except.bind, pure, Except.pure]
  · -- path
    obtain ⟨r, hr⟩ := mkRef_of_mem c.nt f.id hidns
    simp [hr, bind, Except.bind, pure, Except.pure]
  · -- relation
    rename_i h3
    simp only [h3, Bool.and_eq_true, List.all_eq_true, decide_eq_true_eq, Bool.or_eq_true, bne_iff_ne] at hmatch
    obtain ⟨r, hr⟩ := mkRef_of_mem c.nt f.id hidns
    simp only [hr, orPanic_some, bind, Except.bind]
    obtain ⟨l, hl⟩ := mapM_except_ok_of_forall (fun (m : FMember) =>
        if blockCount fs m.id.ns 0 = 0 then (Except.error (BuildError.panic "No builder for type point") : Except BuildError _)
        else pure (m.id.ns, m.id.val, Scratch.rel r)) (f.members.filter (·.id.typ == 0)) (by
      intro m hm
      have ⟨hmm, hm0⟩ := List.mem_filter.mp hm
      simp only [beq_iff_eq] at hm0
      have := (hmatch.2 m hmm).2
      have hpos : 0 < blockCount fs m.id.ns 0 := by
        rcases this with h | h
        · exact absurd hm0 h
        · exact h
      have hne : ¬ blockCount fs m.id.ns 0 = 0 := by omega
      exact ⟨(m.id.ns, m.id.val, Scratch.rel r), by simp [hne, pure, Except.pure]⟩)
    exact ⟨l, hl⟩
  · exact ⟨[], rfl⟩

/-! ## the feature blocks and the build -/

theorem entryOf_total (strs : List Str) (fs : List Feature) (c : Ctx) (hnt : c.nt = nsTable fs) (hst : c.strs = strs)
    (hA : AcceptsFacts strs fs) (t : Nat) (ht : t = 1 ∨ t = 2 ∨ t = 3) (ns : Str) (g : Feature) (hg : g ∈ keptOf fs t ns) :
    ∃ e, entryOf c fs t g = .ok e := by
  unfold keptOf at hg
  obtain ⟨f, hf, rfl⟩ := List.mem_map.mp hg
  have ⟨hfm, hfp⟩ := List.mem_filter.mp hf
  simp only [Bool.and_eq_true, beq_iff_eq] at hfp
  have hOK := hA.ok f hfm
  have hs : c.strs.length < 2 ^ 48 := by rw [hst]; exact hA.strs
  have hstrs : ∀ s ∈ stringsOf f, c.strs.contains s = true := by
    intro s hsm
    rw [hst]
    exact hA.strings s (List.mem_flatMap.mpr ⟨f, hfm, hsm⟩)
  have hrec : ∃ d, recordOf c fs t (validated fs f) = .ok d := by
    rcases ht with rfl | rfl | rfl
    · -- path
      have hp := pathTagsOK_validated c fs f (pathTagsOK_of_accepts strs fs c hnt hst hA.strings f hfm hfp.1.1 hOK)
      exact pathRecord_total c fs hnt hA.len hs _ hp
    · -- area
      have hv : validated fs f = f := validated_of_not_path fs f (by rw [hfp.1.1]; omega)
      rw [hv]
      unfold featureOK at hOK
      simp only [Bool.and_eq_true, decide_eq_true_eq, hfp.1.1, List.all_eq_true] at hOK
      obtain ⟨⟨_, hsize⟩, ⟨⟨hplain, _⟩, hpolys⟩⟩ := hOK
      unfold sizeOK at hsize
      simp only [Bool.and_eq_true, decide_eq_true_eq, List.all_eq_true] at hsize
      refine areaRecord_total c fs hnt hA.len hs f hplain hstrs hsize.1.1.1.1.1 hsize.1.1.1.2 hsize.1.1.2 ?_
      intro p hp
      have h1 := hsize.2 p hp
      cases p with
      | paths ids =>
        simp only [decide_eq_true_eq] at h1
        refine ⟨h1, ?_⟩
        intro id hid
        rw [hnt]
        refine mem_nsTable fs f hfm id.ns ?_
        simp only [mentioned, hfp.1.1, List.mem_cons, List.mem_flatMap]
        exact Or.inr ⟨Poly.paths ids, hp, List.mem_map.mpr ⟨id, hid, rfl⟩⟩
      | loops ls =>
        simp only [Bool.and_eq_true, decide_eq_true_eq] at h1
        exact h1
    · -- relation
      have hv : validated fs f = f := validated_of_not_path fs f (by rw [hfp.1.1]; omega)
      rw [hv]
      unfold featureOK at hOK
      simp only [Bool.and_eq_true, decide_eq_true_eq, hfp.1.1, List.all_eq_true] at hOK
      obtain ⟨⟨_, hsize⟩, ⟨hplain, hmem⟩⟩ := hOK
      unfold sizeOK at hsize
      simp only [Bool.and_eq_true, decide_eq_true_eq, List.all_eq_true] at hsize
      exact relationRecord_total c fs hnt hA.len hs f hfm hfp.1.1 hplain hstrs hsize.1.1.1.1.1 hsize.1.1.1.1.2
        (fun m hm => (hmem m hm).1.2)
  obtain ⟨d, hd⟩ := hrec
  exact ⟨⟨(validated fs f).id.val, 0#64, d⟩, by simp [entryOf, hd, bind, Except.bind, pure, Except.pure]⟩

theorem featureBlock_total (strs : List Str) (fs : List Feature) (c : Ctx) (hnt : c.nt = nsTable fs) (hst : c.strs = strs)
    (hA : AcceptsFacts strs fs) (t : Nat) (ht : t = 1 ∨ t = 2 ∨ t = 3) (n : Nat) (ns : Str) :
    ∃ ob, featureBlock c fs t n ns = .ok ob := by
  unfold featureBlock
  split
  · exact ⟨none, rfl⟩
  · obtain ⟨es, hes⟩ := mapM_except_ok_of_forall (entryOf c fs t) (keptOf fs t ns)
      (fun g hg => entryOf_total strs fs c hnt hst hA t ht ns g hg)
    exact ⟨_, by simp [hes, bind, Except.bind, pure, Except.pure]; rfl⟩

/-- **the build does not panic on an accepted source** -/
theorem build_ok (strs : List Str) (fs : List Feature) (hacc : Accepts strs fs = true) : ∃ ix, build strs fs = .ok ix := by
  have hA := accepts_facts strs fs hacc
  have hosm : ∃ osm, osmNamespaces (nsTable fs) = some osm := by
    have hin : ∀ s, s = nsOsmNode ∨ s = nsOsmWay ∨ s = nsOsmRel → s ∈ nsTable fs := by
      intro s hs
      unfold nsTable
      rw [mem_foldr_insertNs]
      rcases hs with rfl | rfl | rfl <;> simp
    obtain ⟨a, ha⟩ := nsEncode_of_mem _ _ (hin nsOsmNode (Or.inl rfl))
    obtain ⟨b, hb⟩ := nsEncode_of_mem _ _ (hin nsOsmWay (Or.inr (Or.inl rfl)))
    obtain ⟨d, hd⟩ := nsEncode_of_mem _ _ (hin nsOsmRel (Or.inr (Or.inr rfl)))
    exact ⟨_, by simp [osmNamespaces, ha, hb, hd]; rfl⟩
  obtain ⟨osm, hosm⟩ := hosm
  obtain ⟨scr, hscr⟩ := mapM_except_ok_of_forall (scratchOf ⟨nsTable fs, strs, osm⟩ fs) fs
    (fun f hf => scratchOf_total strs fs ⟨nsTable fs, strs, osm⟩ rfl rfl hA.strs hA.strings f hf (hA.ok f hf))
  obtain ⟨rest, hrest⟩ := mapM_except_ok_of_forall
    (fun (k : Nat × Nat × Str) => featureBlock ⟨nsTable fs, strs, osm⟩ fs k.1 k.2.1 k.2.2) (blockKeys (nsTable fs))
    (fun k hk => featureBlock_total strs fs ⟨nsTable fs, strs, osm⟩ rfl rfl hA k.1 ((mem_blockKeys _ k).mp hk).1 k.2.1 k.2.2)
  unfold build
  simp only [hA.nofid, Bool.false_eq_true, if_false, hosm, orPanic_some, bind, Except.bind, hscr, hrest, pure, Except.pure]
  exact ⟨_, rfl⟩

end B6.Model.CompactIndex
