import B6.Model.Shell
/-! Helper lemmas for C20: what the model parser does on the token lists the model printer produces. -/
set_option linter.unusedSimpArgs false
namespace B6.Lemmas.Shell
open B6.Model.Shell B6.Model.FeatureID

variable {esc : Bool}

/-- the tokens of a positioned token list -/
def toksOf (pts : List PTok) : List Tok := pts.map (·.tok)

def headTok (ts : List PTok) : Option Tok := ts.head?.map (·.tok)

/-- what may follow an argument: not `=` (which would turn a symbol into a tag key) and not `,`
(which would turn a float into a lat,lng) -/
def FollowA (rest : List PTok) : Prop := headTok rest ≠ some (.p 61) ∧ headTok rest ≠ some (.p 44)

/-- what may follow a call: additionally nothing that starts a further argument -/
def FollowC (rest : List PTok) : Prop :=
  FollowA rest ∧ ∀ t, headTok rest = some t → argStart t = false

theorem toksOf_append (a b : List PTok) : toksOf (a ++ b) = toksOf a ++ toksOf b := by
  simp [toksOf]

theorem toksOf_eq_append {pts : List PTok} {a b : List Tok} (h : toksOf pts = a ++ b) :
    ∃ p q, pts = p ++ q ∧ toksOf p = a ∧ toksOf q = b := by
  simp only [toksOf] at h
  obtain ⟨p, q, rfl, hp, hq⟩ := List.map_eq_append_iff.mp h
  exact ⟨p, q, rfl, hp, hq⟩

theorem toksOf_eq_cons {pts : List PTok} {t : Tok} {ts : List Tok} (h : toksOf pts = t :: ts) :
    ∃ b e q, pts = ⟨t, b, e⟩ :: q ∧ toksOf q = ts := by
  cases pts with
  | nil => simp [toksOf] at h
  | cons x q =>
    obtain ⟨tok, b, e⟩ := x
    simp only [toksOf, List.map_cons, List.cons.injEq] at h
    exact ⟨b, e, q, by rw [h.1], h.2⟩

theorem toksOf_eq_nil {pts : List PTok} (h : toksOf pts = []) : pts = [] := by
  cases pts with
  | nil => rfl
  | cons x q => simp [toksOf] at h

/-! ## tags -/

theorem keyTok_cases (k : Bytes) : keyTok k = .tagKey k ∨ keyTok k = .sym k := by
  unfold keyTok
  split <;> simp

theorem tagValue_of_value (v : Bytes) :
    tagValue? (if valueBare v then Tok.sym v else Tok.str v) = some v := by
  split <;> rfl

/-- the three tokens of a printable tag -/
theorem tagToks_printable (k v : Bytes) (hk : keyBare k = true) :
    tagToks k v = [keyTok k, .p 61, if valueBare v then .sym v else .str v] := by
  simp [tagToks, hk]
  split <;> rfl

/-! ## queries -/

/-- the rest begins with `]` -/
def EndsQ (rest : List PTok) : Prop := headTok rest = some (.p 93)
/-- after a query member: `]`, `&` or `|` -/
def FollowQ (rest : List PTok) : Prop :=
  headTok rest = some (.p 93) ∨ headTok rest = some (.p 38) ∨ headTok rest = some (.p 124)

theorem followQ_cases {rest : List PTok} (h : FollowQ rest) :
    ∃ c b e r, rest = ⟨.p c, b, e⟩ :: r ∧ (c = 93 ∨ c = 38 ∨ c = 124) := by
  cases rest with
  | nil => simp [FollowQ, headTok] at h
  | cons x r =>
    obtain ⟨tok, b, e⟩ := x
    simp only [FollowQ, headTok, List.head?_cons, Option.map_some, Option.some.injEq] at h
    rcases h with h | h | h <;> subst h
    · exact ⟨93, b, e, r, rfl, Or.inl rfl⟩
    · exact ⟨38, b, e, r, rfl, Or.inr (Or.inl rfl)⟩
    · exact ⟨124, b, e, r, rfl, Or.inr (Or.inr rfl)⟩

theorem endsQ_cases {rest : List PTok} (h : EndsQ rest) : ∃ b e r, rest = ⟨.p 93, b, e⟩ :: r := by
  cases rest with
  | nil => simp [EndsQ, headTok] at h
  | cons x r =>
    obtain ⟨tok, b, e⟩ := x
    simp only [EndsQ, headTok, List.head?_cons, Option.map_some, Option.some.injEq] at h
    subst h
    exact ⟨b, e, r, rfl⟩

/-- a printable `key=value` as a query member -/
theorem qfirst_tagged (k v : Bytes) (hk : keyBare k = true) (pre : List PTok)
    (hpre : toksOf pre = tagToks k v) (rest : List PTok) :
    ∃ b e, ∀ F, parseQFirst (F + 1) (pre ++ rest) = .ok ((.tagged k v, b, e), rest) := by
  rw [tagToks_printable k v hk] at hpre
  obtain ⟨b1, e1, q1, rfl, h1⟩ := toksOf_eq_cons hpre
  obtain ⟨b2, e2, q2, rfl, h2⟩ := toksOf_eq_cons h1
  obtain ⟨b3, e3, q3, rfl, h3⟩ := toksOf_eq_cons h2
  have := toksOf_eq_nil h3
  subst this
  refine ⟨b1, e3, fun F => ?_⟩
  rcases keyTok_cases k with hkt | hkt <;> rw [hkt] <;>
    simp only [List.cons_append, List.nil_append, parseQFirst, tagValue_of_value]

/-- a printable key as a query member -/
theorem qfirst_keyed (k : Bytes) (pre : List PTok) (hpre : toksOf pre = [keyTok k]) (rest : List PTok)
    (hf : FollowQ rest) :
    ∃ b e, ∀ F, parseQFirst (F + 1) (pre ++ rest) = .ok ((.keyed k, b, e), rest) := by
  obtain ⟨b1, e1, q1, rfl, h1⟩ := toksOf_eq_cons hpre
  have := toksOf_eq_nil h1
  subst this
  obtain ⟨c, b, e, r, rfl, hc⟩ := followQ_cases hf
  refine ⟨b1, e1, fun F => ?_⟩
  rcases keyTok_cases k with hkt | hkt <;> rw [hkt] <;> rcases hc with rfl | rfl | rfl <;> rfl

mutual
theorem q_first : ∀ (q : Q), q.printable esc = true → ∀ (pre : List PTok), toksOf pre = q.subToks →
    ∀ rest, FollowQ rest → ∃ n b e, ∀ F, parseQFirst (F + n) (pre ++ rest) = .ok ((q.norm, b, e), rest)
  | .keyed k, _, pre, hpre, rest, hf => by
    obtain ⟨b, e, h⟩ := qfirst_keyed k pre hpre rest hf
    exact ⟨1, b, e, h⟩
  | .tagged k v, hp, pre, hpre, rest, _ => by
    simp only [Q.printable, Bool.and_eq_true] at hp
    obtain ⟨b, e, h⟩ := qfirst_tagged k v hp.1.2 pre hpre rest
    exact ⟨1, b, e, h⟩
  | .and qs, hp, pre, hpre, rest, _ => by
    simp only [Q.printable] at hp
    simp only [Q.subToks, List.append_assoc, List.cons_append, List.nil_append] at hpre
    obtain ⟨b1, e1, q1, rfl, h1⟩ := toksOf_eq_cons hpre
    obtain ⟨inner, close, rfl, hin, hcl⟩ := toksOf_eq_append h1
    obtain ⟨b2, e2, q2, rfl, h2⟩ := toksOf_eq_cons hcl
    have := toksOf_eq_nil h2
    subst this
    obtain ⟨n, b, e, h⟩ := q_list qs 38 (Or.inl rfl) hp inner hin (⟨.p 93, b2, e2⟩ :: rest) (by simp [EndsQ, headTok])
    refine ⟨n + 1, b, e, fun F => ?_⟩
    have hF := h F
    rw [show F + (n + 1) = (F + n) + 1 from rfl]
    simp only [List.cons_append, List.append_assoc, List.nil_append, parseQFirst, hF, PR.ok_bind, Q.norm]
  | .or qs, hp, pre, hpre, rest, _ => by
    simp only [Q.printable] at hp
    simp only [Q.subToks, List.append_assoc, List.cons_append, List.nil_append] at hpre
    obtain ⟨b1, e1, q1, rfl, h1⟩ := toksOf_eq_cons hpre
    obtain ⟨inner, close, rfl, hin, hcl⟩ := toksOf_eq_append h1
    obtain ⟨b2, e2, q2, rfl, h2⟩ := toksOf_eq_cons hcl
    have := toksOf_eq_nil h2
    subst this
    obtain ⟨n, b, e, h⟩ := q_list qs 124 (Or.inr rfl) hp inner hin (⟨.p 93, b2, e2⟩ :: rest) (by simp [EndsQ, headTok])
    refine ⟨n + 1, b, e, fun F => ?_⟩
    have hF := h F
    rw [show F + (n + 1) = (F + n) + 1 from rfl]
    simp only [List.cons_append, List.append_assoc, List.nil_append, parseQFirst, hF, PR.ok_bind, Q.norm]
theorem q_list : ∀ (qs : QL) (op : Nat), (op = 38 ∨ op = 124) → qs.printable esc = true →
    ∀ (pre : List PTok), toksOf pre = qs.toks op → ∀ rest, EndsQ rest →
    ∃ n b e, ∀ F, parseQE (F + n) (pre ++ rest) = .ok ((qs.norm op, b, e), rest)
  | .nil, _, _, hp, _, _, _, _ => by simp [QL.printable] at hp
  | .cons q .nil, op, _, hp, pre, hpre, rest, hr => by
    simp only [QL.printable] at hp
    simp only [QL.toks] at hpre
    obtain ⟨b2, e2, r, rfl⟩ := endsQ_cases hr
    obtain ⟨n, b, e, h⟩ := q_first q hp pre hpre (⟨.p 93, b2, e2⟩ :: r) (Or.inl (by simp [headTok]))
    refine ⟨n + 1, b, e, fun F => ?_⟩
    have hF := h F
    rw [show F + (n + 1) = (F + n) + 1 from rfl]
    simp only [parseQE, hF, PR.ok_bind, QL.norm]
  | .cons q (.cons q' qs'), op, hop, hp, pre, hpre, rest, hr => by
    simp only [QL.printable, Bool.and_eq_true] at hp
    simp only [QL.toks, List.append_assoc] at hpre
    obtain ⟨p1, p23, rfl, h1, h23⟩ := toksOf_eq_append hpre
    obtain ⟨bo, eo, p3, rfl, h3⟩ := toksOf_eq_cons h23
    have hp2 : (QL.cons q' qs').printable esc = true := by
      simpa only [QL.printable, Bool.and_eq_true] using hp.2
    obtain ⟨n2, b2, e2, h2⟩ := q_list (.cons q' qs') op hop hp2 p3 (by simpa [QL.toks] using h3) rest hr
    have hfq : FollowQ (⟨.p op, bo, eo⟩ :: (p3 ++ rest)) := by
      rcases hop with rfl | rfl
      · exact Or.inr (Or.inl (by simp [headTok]))
      · exact Or.inr (Or.inr (by simp [headTok]))
    obtain ⟨n1, b1, e1, h1'⟩ := q_first q hp.1 p1 h1 _ hfq
    refine ⟨n1 + n2 + 1, b1, e2, fun F => ?_⟩
    have hA := h1' (F + n2)
    have hB := h2 (F + n1)
    have e1' : F + (n1 + n2 + 1) = (F + n2 + n1) + 1 := by omega
    have e2' : F + n2 + n1 = F + n1 + n2 := by omega
    rw [e1']
    simp only [List.append_assoc, List.cons_append, List.nil_append, parseQE, hA, PR.ok_bind]
    rcases hop with rfl | rfl
    · simp only [e2', hB, PR.ok_bind, QL.norm]
    · simp only [e2', hB, PR.ok_bind, QL.norm]
end

/-- the inside of a printed query literal, up to the closing bracket -/
theorem q_top (q : Q) (hp : q.printable esc = true) (pre : List PTok) (hpre : toksOf pre = q.toks)
    (rest : List PTok) (hr : EndsQ rest) :
    ∃ n b e, ∀ F, parseQE (F + n) (pre ++ rest) = .ok ((q.norm, b, e), rest) := by
  cases q with
  | keyed k =>
    obtain ⟨b2, e2, r, rfl⟩ := endsQ_cases hr
    obtain ⟨n, b, e, h⟩ := q_first (.keyed k) hp pre (by simpa [Q.toks, Q.subToks] using hpre)
      (⟨.p 93, b2, e2⟩ :: r) (Or.inl (by simp [headTok]))
    refine ⟨n + 1, b, e, fun F => ?_⟩
    have hF := h F
    rw [show F + (n + 1) = (F + n) + 1 from rfl]
    simp only [parseQE, hF, PR.ok_bind]
  | tagged k v =>
    obtain ⟨b2, e2, r, rfl⟩ := endsQ_cases hr
    obtain ⟨n, b, e, h⟩ := q_first (.tagged k v) hp pre (by simpa [Q.toks, Q.subToks] using hpre)
      (⟨.p 93, b2, e2⟩ :: r) (Or.inl (by simp [headTok]))
    refine ⟨n + 1, b, e, fun F => ?_⟩
    have hF := h F
    rw [show F + (n + 1) = (F + n) + 1 from rfl]
    simp only [parseQE, hF, PR.ok_bind]
  | and qs =>
    simp only [Q.printable] at hp
    exact q_list qs 38 (Or.inl rfl) hp pre (by simpa [Q.toks] using hpre) rest hr
  | or qs =>
    simp only [Q.printable] at hp
    exact q_list qs 124 (Or.inr rfl) hp pre (by simpa [Q.toks] using hpre) rest hr

/-! ## literals -/

theorem followA_cases {rest : List PTok} (h : FollowA rest) :
    rest = [] ∨ ∃ t b e r, rest = ⟨t, b, e⟩ :: r ∧ t ≠ .p 61 ∧ t ≠ .p 44 := by
  cases rest with
  | nil => exact Or.inl rfl
  | cons x r =>
    obtain ⟨tok, b, e⟩ := x
    simp only [FollowA, headTok, List.head?_cons, Option.map_some, ne_eq, Option.some.injEq] at h
    exact Or.inr ⟨tok, b, e, r, rfl, h.1, h.2⟩

/-- a float token that is not followed by a comma is a float literal -/
theorem parseExpr_float (t : Bytes) (b e : Nat) (rest : List PTok) (hf : FollowA rest) (F : Nat) :
    parseExpr (F + 1) (⟨.float t, b, e⟩ :: rest) = .ok (.mk (.lit (.float t)) b e, rest) := by
  rcases followA_cases hf with rfl | ⟨tok, b', e', r, rfl, _, h44⟩
  · rfl
  · cases tok with
    | p c =>
      have hc : c ≠ 44 := fun hc => h44 (by rw [hc])
      simp [parseExpr, hc]
    | _ => rfl

theorem lit_parseExpr (l : Lit) (hp : l.printable esc = true) (pre : List PTok)
    (hpre : toksOf pre = l.toks) (rest : List PTok) (hf : FollowA rest) :
    ∃ n b e, ∀ F, parseExpr (F + n) (pre ++ rest) = .ok (.mk (.lit l.norm) b e, rest) := by
  cases l with
  | str s =>
    obtain ⟨b, e, q, rfl, h⟩ := toksOf_eq_cons hpre
    have := toksOf_eq_nil h; subst this
    exact ⟨1, b, e, fun F => rfl⟩
  | int i =>
    obtain ⟨b, e, q, rfl, h⟩ := toksOf_eq_cons hpre
    have := toksOf_eq_nil h; subst this
    exact ⟨1, b, e, fun F => rfl⟩
  | id f =>
    obtain ⟨b, e, q, rfl, h⟩ := toksOf_eq_cons hpre
    have := toksOf_eq_nil h; subst this
    exact ⟨1, b, e, fun F => rfl⟩
  | float t =>
    obtain ⟨b, e, q, rfl, h⟩ := toksOf_eq_cons hpre
    have := toksOf_eq_nil h; subst this
    exact ⟨1, b, e, fun F => parseExpr_float t b e rest hf F⟩
  | point lat lng =>
    obtain ⟨b1, e1, q1, rfl, h1⟩ := toksOf_eq_cons hpre
    obtain ⟨b2, e2, q2, rfl, h2⟩ := toksOf_eq_cons h1
    obtain ⟨b3, e3, q3, rfl, h3⟩ := toksOf_eq_cons h2
    have := toksOf_eq_nil h3; subst this
    exact ⟨1, 0, 0, fun F => rfl⟩
  | tag k v =>
    simp only [Lit.printable, Bool.and_eq_true] at hp
    simp only [Lit.toks] at hpre
    rw [tagToks_printable k v hp.1.2] at hpre
    obtain ⟨b1, e1, q1, rfl, h1⟩ := toksOf_eq_cons hpre
    obtain ⟨b2, e2, q2, rfl, h2⟩ := toksOf_eq_cons h1
    obtain ⟨b3, e3, q3, rfl, h3⟩ := toksOf_eq_cons h2
    have := toksOf_eq_nil h3; subst this
    refine ⟨1, b1, e3, fun F => ?_⟩
    rcases keyTok_cases k with hkt | hkt <;> rw [hkt] <;>
      simp only [List.cons_append, List.nil_append, parseExpr, tagValue_of_value, Lit.norm]
  | query q =>
    simp only [Lit.printable] at hp
    simp only [Lit.toks, List.cons_append, List.nil_append] at hpre
    obtain ⟨b1, e1, q1, rfl, h1⟩ := toksOf_eq_cons hpre
    obtain ⟨inner, close, rfl, hin, hcl⟩ := toksOf_eq_append h1
    obtain ⟨b2, e2, q2, rfl, h2⟩ := toksOf_eq_cons hcl
    have := toksOf_eq_nil h2; subst this
    obtain ⟨n, b, e, h⟩ := q_top q hp inner hin (⟨.p 93, b2, e2⟩ :: rest) (by simp [EndsQ, headTok])
    refine ⟨n + 1, b, e, fun F => ?_⟩
    have hF := h F
    rw [show F + (n + 1) = (F + n) + 1 from rfl]
    simp only [List.cons_append, List.append_assoc, List.nil_append, parseExpr, hF, PR.ok_bind, Lit.norm]

/-- the first token of a printed literal -/
def litHead (l : Lit) : Tok :=
  match l with
  | .str s => .str s
  | .int i => .int i
  | .float t => .float t
  | .point lat _ => .float lat
  | .id f => .id f
  | .tag k _ => keyTok k
  | .query _ => .p 91

/-- `parseArg` and `parseCall` hand anything that is not a bare symbol to `parseExpr` -/
theorem parseArg_lit (l : Lit) (hp : l.printable esc = true) (pre : List PTok)
    (hpre : toksOf pre = l.toks) (rest : List PTok) (F : Nat) :
    parseArg (F + 1) (pre ++ rest) = parseExpr F (pre ++ rest) ∧
    parseCall (F + 1) (pre ++ rest) = parseExpr F (pre ++ rest) := by
  cases l with
  | tag k v =>
    simp only [Lit.printable, Bool.and_eq_true] at hp
    simp only [Lit.toks] at hpre
    rw [tagToks_printable k v hp.1.2] at hpre
    obtain ⟨b1, e1, q1, rfl, h1⟩ := toksOf_eq_cons hpre
    obtain ⟨b2, e2, q2, rfl, h2⟩ := toksOf_eq_cons h1
    rcases keyTok_cases k with hkt | hkt <;> rw [hkt] <;> exact ⟨rfl, rfl⟩
  | query q =>
    simp only [Lit.toks, List.cons_append, List.nil_append] at hpre
    obtain ⟨b1, e1, q1, rfl, h1⟩ := toksOf_eq_cons hpre
    exact ⟨rfl, rfl⟩
  | str s => obtain ⟨b, e, q, rfl, h⟩ := toksOf_eq_cons hpre; exact ⟨rfl, rfl⟩
  | int i => obtain ⟨b, e, q, rfl, h⟩ := toksOf_eq_cons hpre; exact ⟨rfl, rfl⟩
  | id f => obtain ⟨b, e, q, rfl, h⟩ := toksOf_eq_cons hpre; exact ⟨rfl, rfl⟩
  | float t => obtain ⟨b, e, q, rfl, h⟩ := toksOf_eq_cons hpre; exact ⟨rfl, rfl⟩
  | point lat lng => obtain ⟨b, e, q, rfl, h⟩ := toksOf_eq_cons hpre; exact ⟨rfl, rfl⟩

/-! ## the parser's loops at their stopping points -/

theorem followC_cases {rest : List PTok} (h : FollowC rest) :
    rest = [] ∨ ∃ t b e r, rest = ⟨t, b, e⟩ :: r ∧ t ≠ .p 61 ∧ t ≠ .p 44 ∧ argStart t = false := by
  rcases followA_cases h.1 with rfl | ⟨t, b, e, r, rfl, h1, h2⟩
  · exact Or.inl rfl
  · exact Or.inr ⟨t, b, e, r, rfl, h1, h2, h.2 t (by simp [headTok])⟩

theorem FollowC.toA {rest : List PTok} (h : FollowC rest) : FollowA rest := h.1

/-- a token that starts an argument is neither `=` nor `,` -/
theorem followA_of_argStart (t : Tok) (b e : Nat) (r : List PTok) (h : argStart t = true) :
    FollowA (⟨t, b, e⟩ :: r) := by
  constructor <;> (simp only [headTok, List.head?_cons, Option.map_some, ne_eq, Option.some.injEq]; intro hc; subst hc; simp [argStart] at h)

theorem followC_close (c : Nat) (hc : c = 41 ∨ c = 125 ∨ c = 124) (b e : Nat) (r : List PTok) :
    FollowC (⟨.p c, b, e⟩ :: r) := by
  refine ⟨⟨?_, ?_⟩, ?_⟩
  · simp only [headTok, List.head?_cons, Option.map_some, ne_eq, Option.some.injEq, Tok.p.injEq]; omega
  · simp only [headTok, List.head?_cons, Option.map_some, ne_eq, Option.some.injEq, Tok.p.injEq]; omega
  · intro t ht
    simp only [headTok, List.head?_cons, Option.map_some, Option.some.injEq] at ht
    subst ht
    rcases hc with rfl | rfl | rfl <;> rfl

/-- a bare symbol in argument position -/
theorem parseArg_sym (s : Bytes) (b e : Nat) (rest : List PTok) (hf : FollowA rest) (F : Nat) :
    parseArg (F + 1) (⟨.sym s, b, e⟩ :: rest) = .ok (.mk (.sym s) b e, rest) := by
  rcases followA_cases hf with rfl | ⟨tok, b', e', r, rfl, h61, _⟩
  · rfl
  · cases tok with
    | p c =>
      have hc : c ≠ 61 := fun hc => h61 (by rw [hc])
      simp [parseArg, hc]
    | _ => rfl

/-- no further argument -/
theorem parseArgs_stop (rest : List PTok) (hf : FollowC rest) (F : Nat) :
    parseArgs (F + 1) rest = .ok (.nil, rest) := by
  rcases followC_cases hf with rfl | ⟨tok, b', e', r, rfl, _, _, ha⟩
  · rfl
  · simp [parseArgs, ha]

/-- a symbol followed by something other than `=` heads a call -/
theorem parseCall_sym (s : Bytes) (b e : Nat) (ts : List PTok) (hf : FollowA ts) (F : Nat) :
    parseCall (F + 1) (⟨.sym s, b, e⟩ :: ts) =
      (parseArgs F ts).bind fun (args, r) => .ok (mkCall s b e args, r) := by
  rcases followA_cases hf with rfl | ⟨tok, b', e', r, rfl, h61, _⟩
  · rfl
  · cases tok with
    | p c =>
      have hc : c ≠ 61 := fun hc => h61 (by rw [hc])
      simp [parseCall, hc]
    | _ => rfl

/-- the pipeline loop ends where no `|` follows -/
theorem pipeLoop_stop (left : PE) (rest : List PTok) (h : headTok rest ≠ some (.p 124)) (F : Nat) :
    pipeLoop (F + 1) left rest = .ok (left, rest) := by
  cases rest with
  | nil => rfl
  | cons x r =>
    obtain ⟨tok, b, e⟩ := x
    simp only [headTok, List.head?_cons, Option.map_some, ne_eq, Option.some.injEq] at h
    cases tok with
    | p c =>
      have hc : c ≠ 124 := fun hc => h (by rw [hc])
      simp [pipeLoop, hc]
    | _ => rfl

/-- the parameter list of a lambda -/
theorem parseSymbols_head : ∀ (ps : List Bytes), ps ≠ [] → ∀ (pre : List PTok), toksOf pre = lambdaHead ps →
    ∀ (ab ae : Nat) (r : List PTok),
    ∃ b, ∀ F, parseSymbols (F + ps.length) (pre ++ ⟨.arrow, ab, ae⟩ :: r) = .ok (ps, b, ⟨.arrow, ab, ae⟩ :: r)
  | [], h, _, _, _, _, _ => absurd rfl h
  | [p], _, pre, hpre, ab, ae, r => by
    obtain ⟨b, e, q, rfl, h⟩ := toksOf_eq_cons hpre
    have := toksOf_eq_nil h; subst this
    exact ⟨b, fun F => rfl⟩
  | p :: p' :: ps, _, pre, hpre, ab, ae, r => by
    simp only [lambdaHead] at hpre
    obtain ⟨b1, e1, q1, rfl, h1⟩ := toksOf_eq_cons hpre
    obtain ⟨b2, e2, q2, rfl, h2⟩ := toksOf_eq_cons h1
    obtain ⟨b', h'⟩ := parseSymbols_head (p' :: ps) (by simp) q2 h2 ab ae r
    refine ⟨b1, fun F => ?_⟩
    have hF := h' F
    rw [show F + (p :: p' :: ps).length = (F + (p' :: ps).length) + 1 by simp; omega]
    simp only [List.cons_append, parseSymbols, hF, PR.ok_bind]

theorem UR.bind_ok (r : UR) (g : List Tok → UR) (ts : List Tok) (h : r.bind g = .ok ts) :
    ∃ x, r = .ok x ∧ g x = .ok ts := by
  cases r with
  | ok x => exact ⟨x, rfl, h⟩
  | fail => simp [UR.bind] at h
  | panic => simp [UR.bind] at h

/-- the first token of an expression printed in argument position starts an argument -/
theorem toksA_head : ∀ (e : SE), e.printable esc = true → ∀ ts, e.toks false = .ok ts →
    ∃ t r, ts = t :: r ∧ argStart t = true := by
  intro e hp ts h
  cases e with
  | sym s => simp only [SE.toks, UR.ok.injEq] at h; subst h; exact ⟨_, _, rfl, rfl⟩
  | lit l =>
    simp only [SE.toks, UR.ok.injEq] at h; subst h
    simp only [SE.printable] at hp
    cases l with
    | str s => exact ⟨_, _, rfl, rfl⟩
    | int i => exact ⟨_, _, rfl, rfl⟩
    | float t => exact ⟨_, _, rfl, rfl⟩
    | point a b => exact ⟨_, _, rfl, rfl⟩
    | id f => exact ⟨_, _, rfl, rfl⟩
    | query q => exact ⟨_, _, rfl, rfl⟩
    | tag k v =>
      simp only [Lit.printable, Bool.and_eq_true] at hp
      simp only [Lit.toks, tagToks_printable k v hp.1.2]
      rcases keyTok_cases k with hk | hk <;> rw [hk] <;> exact ⟨_, _, rfl, rfl⟩
  | lambda ps body =>
    simp only [SE.toks] at h
    obtain ⟨bt, _, h⟩ := UR.bind_ok _ _ _ h
    simp only [UR.ok.injEq] at h; subst h; exact ⟨_, _, rfl, rfl⟩
  | call f args p =>
    cases p with
    | false =>
      cases args with
      | nil =>
        simp only [SE.toks] at h
        obtain ⟨ft, _, h⟩ := UR.bind_ok _ _ _ h
        obtain ⟨at', _, h⟩ := UR.bind_ok _ _ _ h
        simp only [Bool.false_eq_true, ↓reduceIte, UR.ok.injEq] at h; subst h; exact ⟨_, _, rfl, rfl⟩
      | cons a as =>
        simp only [SE.toks] at h
        obtain ⟨ft, _, h⟩ := UR.bind_ok _ _ _ h
        obtain ⟨at', _, h⟩ := UR.bind_ok _ _ _ h
        simp only [Bool.false_eq_true, ↓reduceIte, UR.ok.injEq] at h; subst h; exact ⟨_, _, rfl, rfl⟩
    | true =>
      cases args with
      | nil => simp [SE.printable] at hp
      | cons a0 rest =>
        simp only [SE.toks] at h
        obtain ⟨lhs, _, h⟩ := UR.bind_ok _ _ _ h
        obtain ⟨rhs, _, h⟩ := UR.bind_ok _ _ _ h
        simp only [Bool.false_eq_true, ↓reduceIte, UR.ok.injEq] at h; subst h; exact ⟨_, _, rfl, rfl⟩

theorem toksArgs_head (e : SE) (es : SEL) (hp : (SEL.cons e es).printable esc = true) (ts : List Tok)
    (h : (SEL.cons e es).toks = .ok ts) : ∃ t r, ts = t :: r ∧ argStart t = true := by
  simp only [SEL.printable, Bool.and_eq_true] at hp
  simp only [SEL.toks] at h
  obtain ⟨t1, ht1, h⟩ := UR.bind_ok _ _ _ h
  obtain ⟨t2, _, h⟩ := UR.bind_ok _ _ _ h
  simp only [UR.ok.injEq] at h; subst h
  obtain ⟨t, r, rfl, hs⟩ := toksA_head e hp.1 t1 ht1
  exact ⟨t, r ++ t2, rfl, hs⟩

/-! ## the statements proved by induction over the expression -/

def notPiped : SE → Bool
  | .call _ _ true => false
  | _ => true

/-- printed in argument position, the expression is read back by `parseArg` as its `normA` -/
def StmtA (e : SE) : Prop :=
  ∀ ts, e.toks false = .ok ts → ∀ pre, toksOf pre = ts → ∀ rest, FollowA rest →
    ∃ n pe, PE.strip pe = e.normA ∧ ∀ F, parseArg (F + n) (pre ++ rest) = .ok (pe, rest)

/-- printed at the top level, an expression that is not a pipeline is read back by `parseCall` as its `normC` -/
def StmtC (e : SE) : Prop :=
  ∀ ts, e.toks true = .ok ts → ∀ pre, toksOf pre = ts → ∀ rest, FollowC rest →
    ∃ n pe, PE.strip pe = e.normC ∧ ∀ F, parseCall (F + n) (pre ++ rest) = .ok (pe, rest)

/-- printed at the top level, any expression is read by `parsePipeline` as `k` members that fold to its `normC`,
after which the pipeline loop goes on with whatever follows -/
def StmtP (e : SE) : Prop :=
  ∀ ts, e.toks true = .ok ts → ∀ pre, toksOf pre = ts → ∀ rest, FollowC rest →
    ∃ k n pe, PE.strip pe = e.normC ∧ ∀ F, parsePipeline (F + n + k) (pre ++ rest) = pipeLoop (F + n) pe rest

def StmtArgs (es : SEL) : Prop :=
  ∀ ts, es.toks = .ok ts → ∀ pre, toksOf pre = ts → ∀ rest, FollowC rest →
    ∃ n pels, PEL.strip pels = es.normA ∧ ∀ F, parseArgs (F + n) (pre ++ rest) = .ok (pels, rest)

theorem stmtP_of_C (e : SE) (h : StmtC e) : StmtP e := by
  intro ts hts pre hpre rest hr
  obtain ⟨n, pe, hs, hp⟩ := h ts hts pre hpre rest hr
  refine ⟨1, n, pe, hs, fun F => ?_⟩
  rw [show F + n + 1 = (F + n) + 1 from rfl]
  simp only [parsePipeline, hp F, PR.ok_bind]

/-- a parenthesised pipeline, as `expression: group` -/
theorem paren_of_P (e : SE) (h : StmtP e) (ts : List Tok) (hts : e.toks true = .ok ts) (pre : List PTok)
    (hpre : toksOf pre = [Tok.p 40] ++ ts ++ [Tok.p 41]) (rest : List PTok) :
    ∃ n pe, PE.strip pe = e.normC ∧ ∀ F,
      parseExpr (F + n) (pre ++ rest) = .ok (pe, rest) ∧
      parseArg (F + n + 1) (pre ++ rest) = .ok (pe, rest) ∧
      parseCall (F + n + 1) (pre ++ rest) = .ok (pe, rest) := by
  simp only [List.cons_append, List.nil_append] at hpre
  obtain ⟨b1, e1, q1, rfl, h1⟩ := toksOf_eq_cons hpre
  obtain ⟨inner, close, rfl, hin, hcl⟩ := toksOf_eq_append h1
  obtain ⟨b2, e2, q2, rfl, h2⟩ := toksOf_eq_cons hcl
  have := toksOf_eq_nil h2; subst this
  obtain ⟨k, n, pe, hs, hp⟩ := h ts hts inner hin (⟨.p 41, b2, e2⟩ :: rest) (followC_close 41 (Or.inl rfl) b2 e2 rest)
  have key : ∀ F, parseExpr (F + (n + k + 2)) (⟨.p 40, b1, e1⟩ :: (inner ++ [⟨.p 41, b2, e2⟩]) ++ rest) = .ok (pe, rest) := by
    intro F
    have hF := hp (F + 1)
    rw [show F + (n + k + 2) = (F + 1 + n + k) + 1 by omega]
    simp only [List.cons_append, List.append_assoc, List.nil_append, parseExpr, hF]
    rw [show F + 1 + n = (F + n) + 1 by omega, pipeLoop_stop pe _ (by simp [headTok]) (F + n)]
    simp only [PR.ok_bind]
  refine ⟨n + k + 2, pe, hs, fun F => ⟨key F, ?_, ?_⟩⟩
  · have := key F
    rw [show F + (n + k + 2) + 1 = (F + (n + k + 2)) + 1 from rfl]
    simpa only [List.cons_append, parseArg] using this
  · have := key F
    rw [show F + (n + k + 2) + 1 = (F + (n + k + 2)) + 1 from rfl]
    simpa only [List.cons_append, parseCall] using this

/-- a printed lambda, as `expression: lambda` -/
theorem lambda_parse (ps : List Bytes) (body : SE) (h : StmtP body) (bt : List Tok)
    (hbt : body.toks true = .ok bt) (pre : List PTok)
    (hpre : toksOf pre = [Tok.p 123] ++ lambdaHead ps ++ [Tok.arrow] ++ bt ++ [Tok.p 125]) (rest : List PTok) :
    ∃ n pe, PE.strip pe = .lambda ps body.normC ∧ ∀ F,
      parseExpr (F + n) (pre ++ rest) = .ok (pe, rest) ∧
      parseArg (F + n + 1) (pre ++ rest) = .ok (pe, rest) ∧
      parseCall (F + n + 1) (pre ++ rest) = .ok (pe, rest) := by
  simp only [List.cons_append, List.nil_append, List.append_assoc] at hpre
  obtain ⟨b0, e0, q0, rfl, h0⟩ := toksOf_eq_cons hpre
  obtain ⟨hd, tl, rfl, hhd, htl⟩ := toksOf_eq_append h0
  obtain ⟨ab, ae, q1, rfl, h1⟩ := toksOf_eq_cons htl
  obtain ⟨bpre, close, rfl, hb, hcl⟩ := toksOf_eq_append h1
  obtain ⟨b2, e2, q2, rfl, h2⟩ := toksOf_eq_cons hcl
  have := toksOf_eq_nil h2; subst this
  obtain ⟨k, n, peB, hs, hp⟩ := h bt hbt bpre hb (⟨.p 125, b2, e2⟩ :: rest) (followC_close 125 (Or.inr (Or.inl rfl)) b2 e2 rest)
  have loop : ∀ G, pipeLoop (G + 1) peB (⟨.p 125, b2, e2⟩ :: rest) = .ok (peB, ⟨.p 125, b2, e2⟩ :: rest) :=
    fun G => pipeLoop_stop peB _ (by simp [headTok]) G
  cases ps with
  | nil =>
    have := toksOf_eq_nil (by simpa [lambdaHead] using hhd); subst this
    have key : ∀ F, parseExpr (F + (n + k + 2))
        (⟨.p 123, b0, e0⟩ :: ([] ++ ⟨.arrow, ab, ae⟩ :: (bpre ++ [⟨.p 125, b2, e2⟩])) ++ rest)
        = .ok (.mk (.lambda [] peB) peB.b peB.e, rest) := by
      intro F
      have hF := hp (F + 1)
      rw [show F + (n + k + 2) = (F + 1 + n + k) + 1 by omega]
      simp only [List.cons_append, List.append_assoc, List.nil_append, parseExpr, hF]
      rw [show F + 1 + n = (F + n) + 1 by omega, loop]
      simp only [PR.ok_bind]
    refine ⟨n + k + 2, .mk (.lambda [] peB) peB.b peB.e, by simp only [PE.strip, PK.strip, hs], fun F => ⟨key F, ?_, ?_⟩⟩
    · have := key F
      rw [show F + (n + k + 2) + 1 = (F + (n + k + 2)) + 1 from rfl]
      simpa only [List.cons_append, parseArg] using this
    · have := key F
      rw [show F + (n + k + 2) + 1 = (F + (n + k + 2)) + 1 from rfl]
      simpa only [List.cons_append, parseCall] using this
  | cons p ps' =>
    obtain ⟨sb, hsym⟩ := parseSymbols_head (p :: ps') (by simp) hd hhd ab ae (bpre ++ [⟨.p 125, b2, e2⟩] ++ rest)
    -- the first parameter and what follows it
    have hd2 : ∃ sb' se' hd', hd = ⟨.sym p, sb', se'⟩ :: hd' ∧
        (hd' = [] ∨ ∃ cb ce hd'', hd' = ⟨.p 44, cb, ce⟩ :: hd'') := by
      cases ps' with
      | nil =>
        obtain ⟨sb', se', hd', rfl, hh⟩ := toksOf_eq_cons (by simpa [lambdaHead] using hhd)
        exact ⟨sb', se', hd', rfl, Or.inl (toksOf_eq_nil hh)⟩
      | cons p' ps'' =>
        simp only [lambdaHead] at hhd
        obtain ⟨sb', se', hd', rfl, hh⟩ := toksOf_eq_cons hhd
        obtain ⟨cb, ce, hd'', rfl, _⟩ := toksOf_eq_cons hh
        exact ⟨sb', se', _, rfl, Or.inr ⟨cb, ce, hd'', rfl⟩⟩
    obtain ⟨sb', se', hd', rfl, hthird⟩ := hd2
    have key : ∀ F, parseExpr (F + (n + k + (p :: ps').length + 2))
        (⟨.p 123, b0, e0⟩ :: ((⟨.sym p, sb', se'⟩ :: hd') ++ ⟨.arrow, ab, ae⟩ :: (bpre ++ [⟨.p 125, b2, e2⟩])) ++ rest)
        = .ok (.mk (.lambda (p :: ps') peB) sb peB.e, rest) := by
      intro F
      have hS := hsym (F + 1 + n + k)
      have hF := hp (F + (p :: ps').length + 1)
      rw [show F + (n + k + (p :: ps').length + 2) = (F + 1 + n + k + (p :: ps').length) + 1 by omega]
      have e2' : F + 1 + n + k + (p :: ps').length = F + (p :: ps').length + 1 + n + k := by omega
      rcases hthird with rfl | ⟨cb, ce, hd'', rfl⟩
      · simp only [List.cons_append, List.append_assoc, List.nil_append] at hS ⊢
        simp only [parseExpr, hS, PR.ok_bind]
        rw [e2', hF, show F + (p :: ps').length + 1 + n = (F + (p :: ps').length + n) + 1 by omega, loop]
        simp only [PR.ok_bind]
      · simp only [List.cons_append, List.append_assoc, List.nil_append] at hS ⊢
        simp only [parseExpr, hS, PR.ok_bind]
        rw [e2', hF, show F + (p :: ps').length + 1 + n = (F + (p :: ps').length + n) + 1 by omega, loop]
        simp only [PR.ok_bind]
    refine ⟨n + k + (p :: ps').length + 2, .mk (.lambda (p :: ps') peB) sb peB.e,
      by simp only [PE.strip, PK.strip, hs], fun F => ⟨key F, ?_, ?_⟩⟩
    · have := key F
      rw [show F + (n + k + (p :: ps').length + 2) + 1 = (F + (n + k + (p :: ps').length + 2)) + 1 from rfl]
      simpa only [List.cons_append, parseArg] using this
    · have := key F
      rw [show F + (n + k + (p :: ps').length + 2) + 1 = (F + (n + k + (p :: ps').length + 2)) + 1 from rfl]
      simpa only [List.cons_append, parseCall] using this

/-! ## the induction -/

theorem stmtC_sym (s : Bytes) : StmtC (.sym s) := by
  intro ts hts pre hpre rest hr
  simp only [SE.toks, UR.ok.injEq] at hts; subst hts
  obtain ⟨b, e, q, rfl, h⟩ := toksOf_eq_cons hpre
  have := toksOf_eq_nil h; subst this
  refine ⟨2, mkCall s b e .nil, rfl, fun F => ?_⟩
  rw [show F + 2 = (F + 1) + 1 from rfl]
  simp only [List.cons_append, List.nil_append, parseCall_sym s b e rest hr.1 (F + 1),
    parseArgs_stop rest hr F, PR.ok_bind]

theorem stmtA_sym (s : Bytes) : StmtA (.sym s) := by
  intro ts hts pre hpre rest hr
  simp only [SE.toks, UR.ok.injEq] at hts; subst hts
  obtain ⟨b, e, q, rfl, h⟩ := toksOf_eq_cons hpre
  have := toksOf_eq_nil h; subst this
  exact ⟨1, .mk (.sym s) b e, rfl, fun F => parseArg_sym s b e rest hr F⟩

/-- one more member of a pipeline -/
theorem pipe_compose (p0 rpre rest : List PTok) (bo eo k0 n0 nR : Nat) (pe0 peR : PE)
    (h0 : ∀ F, parsePipeline (F + n0 + k0) (p0 ++ (⟨.p 124, bo, eo⟩ :: (rpre ++ rest)))
      = pipeLoop (F + n0) pe0 (⟨.p 124, bo, eo⟩ :: (rpre ++ rest)))
    (hR : ∀ F, parseCall (F + nR) (rpre ++ rest) = .ok (peR, rest)) :
    ∀ F, parsePipeline (F + (n0 + nR) + (k0 + 1)) (p0 ++ (⟨.p 124, bo, eo⟩ :: (rpre ++ rest)))
      = pipeLoop (F + (n0 + nR)) (mkPipe pe0 peR) rest := by
  intro F
  have h0' := h0 (F + nR + 1)
  have hR' := hR (F + n0)
  rw [show F + (n0 + nR) + (k0 + 1) = F + nR + 1 + n0 + k0 by omega, h0',
    show F + nR + 1 + n0 = (F + n0 + nR) + 1 by omega]
  simp only [pipeLoop, hR', PR.ok_bind]
  rw [show F + n0 + nR = F + (n0 + nR) by omega]

theorem pipedParen_notPiped (f : SE) (h : notPiped f = true) (ft : List Tok) : pipedParen f ft = ft := by
  cases f with
  | call g gs gp => cases gp <;> simp_all [notPiped, pipedParen]
  | _ => rfl

theorem pipedParen_piped (f : SE) (h : notPiped f = false) (ft : List Tok) :
    pipedParen f ft = [Tok.p 40] ++ ft ++ [Tok.p 41] := by
  cases f with
  | call g gs gp => cases gp <;> simp_all [notPiped, pipedParen]
  | _ => simp [notPiped] at h

theorem isSym_eq (f : SE) (h : isSym f = true) : ∃ s, f = .sym s := by
  cases f <;> simp_all [isSym]

theorem followA_append_of_head (p2 rest : List PTok) (hr : FollowA rest)
    (h : toksOf p2 = [] ∨ ∃ t r, toksOf p2 = t :: r ∧ argStart t = true) : FollowA (p2 ++ rest) := by
  rcases h with h | ⟨t, r, h, ha⟩
  · have := toksOf_eq_nil h; subst this; simpa using hr
  · obtain ⟨b, e, q, rfl, _⟩ := toksOf_eq_cons h
    exact followA_of_argStart t b e _ ha

mutual
theorem se_all : ∀ (e : SE), e.printable esc = true →
    StmtA e ∧ (notPiped e = true → StmtC e) ∧ StmtP e
  | .sym s, _ => ⟨stmtA_sym s, fun _ => stmtC_sym s, stmtP_of_C _ (stmtC_sym s)⟩
  | .lit l, hp => by
    simp only [SE.printable] at hp
    have hC : StmtC (.lit l) := by
      intro ts hts pre hpre rest hr
      simp only [SE.toks, UR.ok.injEq] at hts; subst hts
      obtain ⟨n, b, e, h⟩ := lit_parseExpr l hp pre hpre rest hr.1
      refine ⟨n + 1, .mk (.lit l.norm) b e, rfl, fun F => ?_⟩
      rw [show F + (n + 1) = (F + n) + 1 from rfl, (parseArg_lit l hp pre hpre rest (F + n)).2]
      exact h F
    refine ⟨?_, fun _ => hC, stmtP_of_C _ hC⟩
    intro ts hts pre hpre rest hr
    simp only [SE.toks, UR.ok.injEq] at hts; subst hts
    obtain ⟨n, b, e, h⟩ := lit_parseExpr l hp pre hpre rest hr
    refine ⟨n + 1, .mk (.lit l.norm) b e, rfl, fun F => ?_⟩
    rw [show F + (n + 1) = (F + n) + 1 from rfl, (parseArg_lit l hp pre hpre rest (F + n)).1]
    exact h F
  | .lambda ps body, hp => by
    simp only [SE.printable, Bool.and_eq_true] at hp
    have hB := (se_all body hp.2).2.2
    have hC : StmtC (.lambda ps body) := by
      intro ts hts pre hpre rest _
      simp only [SE.toks] at hts
      obtain ⟨bt, hbt, hts⟩ := UR.bind_ok _ _ _ hts
      simp only [UR.ok.injEq] at hts; subst hts
      obtain ⟨n, pe, hs, h⟩ := lambda_parse ps body hB bt hbt pre hpre rest
      exact ⟨n + 1, pe, by rw [hs]; rfl, fun F => (h F).2.2⟩
    refine ⟨?_, fun _ => hC, stmtP_of_C _ hC⟩
    intro ts hts pre hpre rest _
    simp only [SE.toks] at hts
    obtain ⟨bt, hbt, hts⟩ := UR.bind_ok _ _ _ hts
    simp only [UR.ok.injEq] at hts; subst hts
    obtain ⟨n, pe, hs, h⟩ := lambda_parse ps body hB bt hbt pre hpre rest
    exact ⟨n + 1, pe, by rw [hs]; rfl, fun F => (h F).2.1⟩
  | .call f .nil false, hp => by
    simp only [SE.printable, Bool.and_eq_true] at hp
    obtain ⟨s, rfl⟩ := isSym_eq f hp.1.1
    have hC : StmtC (.call (.sym s) .nil false) := by
      intro ts hts pre hpre rest hr
      simp only [SE.toks] at hts
      exact stmtC_sym s ts hts pre hpre rest hr
    have hP := stmtP_of_C _ hC
    refine ⟨?_, fun _ => hC, hP⟩
    intro ts hts pre hpre rest _
    simp only [SE.toks, UR.ok_bind, SEL.toks, Bool.false_eq_true, ↓reduceIte, UR.ok.injEq,
      List.append_nil] at hts
    subst hts
    obtain ⟨n, pe, hs, h⟩ := paren_of_P _ hP [.sym s] (by simp only [SE.toks]) pre (by simpa using hpre) rest
    exact ⟨n + 1, pe, hs, fun F => (h F).2.1⟩
  | .call f (.cons a as) false, hp => by
    simp only [SE.printable, Bool.and_eq_true] at hp
    obtain ⟨s, rfl⟩ := isSym_eq f hp.1.1
    have hArgs := sel_all (.cons a as) hp.2
    have hC : StmtC (.call (.sym s) (.cons a as) false) := by
      intro ts hts pre hpre rest hr
      simp only [SE.toks, UR.ok_bind] at hts
      obtain ⟨ats, hats, hts⟩ := UR.bind_ok _ _ _ hts
      simp only [↓reduceIte, UR.ok.injEq] at hts; subst hts
      simp only [List.cons_append, List.nil_append] at hpre
      obtain ⟨b, e, apre, rfl, hap⟩ := toksOf_eq_cons hpre
      obtain ⟨n, pels, hs, h⟩ := hArgs ats hats apre hap rest hr
      obtain ⟨t, r, hhead, hstart⟩ := toksArgs_head a as hp.2 ats hats
      have hfa : FollowA (apre ++ rest) :=
        followA_append_of_head apre rest hr.1 (Or.inr ⟨t, r, by rw [hap, hhead], hstart⟩)
      refine ⟨n + 1, mkCall s b e pels, ?_, fun F => ?_⟩
      · simp only [mkCall, PE.strip, PK.strip, hs, SE.normC, SE.normA]
      · rw [show F + (n + 1) = (F + n) + 1 from rfl]
        simp only [List.cons_append, parseCall_sym s b e _ hfa (F + n), h F, PR.ok_bind]
    have hP := stmtP_of_C _ hC
    refine ⟨?_, fun _ => hC, hP⟩
    intro ts hts pre hpre rest _
    simp only [SE.toks, UR.ok_bind] at hts
    obtain ⟨ats, hats, hts⟩ := UR.bind_ok _ _ _ hts
    simp only [Bool.false_eq_true, ↓reduceIte, UR.ok.injEq] at hts; subst hts
    obtain ⟨n, pe, hs, h⟩ := paren_of_P _ hP ([.sym s] ++ ats)
      (by simp only [SE.toks, UR.ok_bind, hats, ↓reduceIte]) pre (by simpa using hpre) rest
    exact ⟨n + 1, pe, by rw [hs]; rfl, fun F => (h F).2.1⟩
  | .call _ .nil true, hp => by simp [SE.printable] at hp
  | .call f (.cons a0 .nil) true, hp => by
    simp only [SE.printable, Bool.and_eq_true] at hp
    have h0 := (se_all a0 hp.2).2.2
    have hf := se_all f hp.1
    have hP : StmtP (.call f (.cons a0 .nil) true) := by
      intro ts hts pre hpre rest hr
      simp only [SE.toks] at hts
      obtain ⟨lhs, hlhs, hts⟩ := UR.bind_ok _ _ _ hts
      obtain ⟨rhs, hrhs, hts⟩ := UR.bind_ok _ _ _ hts
      simp only [↓reduceIte, UR.ok.injEq] at hts; subst hts
      obtain ⟨ft, hft, hrhs⟩ := UR.bind_ok _ _ _ hrhs
      simp only [List.append_assoc, List.cons_append, List.nil_append] at hpre
      obtain ⟨p0, p1, rfl, hp0, hp1⟩ := toksOf_eq_append hpre
      obtain ⟨bo, eo, rpre, rfl, hrp⟩ := toksOf_eq_cons hp1
      obtain ⟨k0, n0, pe0, hs0, h0'⟩ := h0 lhs hlhs p0 hp0 (⟨.p 124, bo, eo⟩ :: (rpre ++ rest))
        (followC_close 124 (Or.inr (Or.inr rfl)) bo eo _)
      -- the right-hand member
      have hR : ∃ nR peR, PE.strip peR = f.normC ∧ ∀ F, parseCall (F + nR) (rpre ++ rest) = .ok (peR, rest) := by
        cases hfp : notPiped f with
        | true =>
          rw [pipedParen_notPiped f hfp] at hrhs
          simp only [UR.ok.injEq] at hrhs; subst hrhs
          exact hf.2.1 hfp ft hft rpre hrp rest hr
        | false =>
          rw [pipedParen_piped f hfp] at hrhs
          simp only [UR.ok.injEq] at hrhs; subst hrhs
          obtain ⟨n, pe, hs, h⟩ := paren_of_P f hf.2.2 ft hft rpre hrp rest
          exact ⟨n + 1, pe, hs, fun F => (h F).2.2⟩
      obtain ⟨nR, peR, hsR, hR'⟩ := hR
      refine ⟨k0 + 1, n0 + nR, mkPipe pe0 peR, ?_, ?_⟩
      · simp only [mkPipe, PE.strip, PK.strip, PEL.strip, hs0, hsR, SE.normC]
      · intro F
        have := pipe_compose p0 rpre rest bo eo k0 n0 nR pe0 peR h0' hR' F
        simpa only [List.append_assoc, List.cons_append] using this
    refine ⟨?_, fun h => by simp [notPiped] at h, hP⟩
    intro ts hts pre hpre rest _
    simp only [SE.toks] at hts
    obtain ⟨lhs, hlhs, hts⟩ := UR.bind_ok _ _ _ hts
    obtain ⟨rhs, hrhs, hts⟩ := UR.bind_ok _ _ _ hts
    simp only [Bool.false_eq_true, ↓reduceIte, UR.ok.injEq] at hts; subst hts
    obtain ⟨n, pe, hs, h⟩ := paren_of_P _ hP (lhs ++ [Tok.p 124] ++ rhs)
      (by simp only [SE.toks, hlhs, UR.ok_bind, hrhs, ↓reduceIte]) pre (by simpa using hpre) rest
    exact ⟨n + 1, pe, by rw [hs]; rfl, fun F => (h F).2.1⟩
  | .call f (.cons a0 (.cons a1 as)) true, hp => by
    simp only [SE.printable, Bool.and_eq_true] at hp
    obtain ⟨s, rfl⟩ := isSym_eq f hp.1.1.1
    have h0 := (se_all a0 hp.1.2).2.2
    have hArgs := sel_all (.cons a1 as) hp.2
    have hP : StmtP (.call (.sym s) (.cons a0 (.cons a1 as)) true) := by
      intro ts hts pre hpre rest hr
      simp only [SE.toks] at hts
      obtain ⟨lhs, hlhs, hts⟩ := UR.bind_ok _ _ _ hts
      obtain ⟨rhs, hrhs, hts⟩ := UR.bind_ok _ _ _ hts
      simp only [↓reduceIte, UR.ok.injEq] at hts; subst hts
      simp only [UR.ok_bind] at hrhs
      obtain ⟨ats, hats, hrhs⟩ := UR.bind_ok _ _ _ hrhs
      simp only [UR.ok.injEq] at hrhs; subst hrhs
      simp only [List.append_assoc, List.cons_append, List.nil_append] at hpre
      obtain ⟨p0, p1, rfl, hp0, hp1⟩ := toksOf_eq_append hpre
      obtain ⟨bo, eo, rpre, rfl, hrp⟩ := toksOf_eq_cons hp1
      obtain ⟨sb, se, apre, rfl, hap⟩ := toksOf_eq_cons hrp
      obtain ⟨k0, n0, pe0, hs0, h0'⟩ := h0 lhs hlhs p0 hp0 (⟨.p 124, bo, eo⟩ :: ((⟨.sym s, sb, se⟩ :: apre) ++ rest))
        (followC_close 124 (Or.inr (Or.inr rfl)) bo eo _)
      obtain ⟨n, pels, hs, h⟩ := hArgs ats hats apre hap rest hr
      obtain ⟨t, r, hhead, hstart⟩ := toksArgs_head a1 as hp.2 ats hats
      have hfa : FollowA (apre ++ rest) :=
        followA_append_of_head apre rest hr.1 (Or.inr ⟨t, r, by rw [hap, hhead], hstart⟩)
      have hR' : ∀ F, parseCall (F + (n + 1)) ((⟨.sym s, sb, se⟩ :: apre) ++ rest) = .ok (mkCall s sb se pels, rest) := by
        intro F
        rw [show F + (n + 1) = (F + n) + 1 from rfl]
        simp only [List.cons_append, parseCall_sym s sb se _ hfa (F + n), h F, PR.ok_bind]
      refine ⟨k0 + 1, n0 + (n + 1), mkPipe pe0 (mkCall s sb se pels), ?_, ?_⟩
      · simp only [mkPipe, mkCall, PE.strip, PK.strip, PEL.strip, hs0, hs, SE.normC, SE.normA]
      · intro F
        have := pipe_compose p0 (⟨.sym s, sb, se⟩ :: apre) rest bo eo k0 n0 (n + 1) pe0 _ h0' hR' F
        simpa only [List.append_assoc, List.cons_append] using this
    refine ⟨?_, fun h => by simp [notPiped] at h, hP⟩
    intro ts hts pre hpre rest _
    simp only [SE.toks] at hts
    obtain ⟨lhs, hlhs, hts⟩ := UR.bind_ok _ _ _ hts
    obtain ⟨rhs, hrhs, hts⟩ := UR.bind_ok _ _ _ hts
    simp only [Bool.false_eq_true, ↓reduceIte, UR.ok.injEq] at hts; subst hts
    obtain ⟨n, pe, hs, h⟩ := paren_of_P _ hP (lhs ++ [Tok.p 124] ++ rhs)
      (by simp only [SE.toks, hlhs, UR.ok_bind, hrhs, ↓reduceIte]) pre (by simpa using hpre) rest
    exact ⟨n + 1, pe, by rw [hs]; rfl, fun F => (h F).2.1⟩
theorem sel_all : ∀ (es : SEL), es.printable esc = true → StmtArgs es
  | .nil, _ => by
    intro ts hts pre hpre rest hr
    simp only [SEL.toks, UR.ok.injEq] at hts; subst hts
    have := toksOf_eq_nil hpre; subst this
    exact ⟨1, .nil, rfl, fun F => parseArgs_stop rest hr F⟩
  | .cons e es, hp => by
    have hp' := hp
    simp only [SEL.printable, Bool.and_eq_true] at hp
    have hA := (se_all e hp.1).1
    have hRest := sel_all es hp.2
    intro ts hts pre hpre rest hr
    obtain ⟨t, r, hhead, hstart⟩ := toksArgs_head e es hp' ts hts
    simp only [SEL.toks] at hts
    obtain ⟨t1, ht1, hts⟩ := UR.bind_ok _ _ _ hts
    obtain ⟨t2, ht2, hts⟩ := UR.bind_ok _ _ _ hts
    simp only [UR.ok.injEq] at hts; subst hts
    obtain ⟨p1, p2, rfl, hp1, hp2⟩ := toksOf_eq_append hpre
    -- what follows the first argument: the next argument, or the end of the call
    have hfa : FollowA (p2 ++ rest) := by
      cases es with
      | nil =>
        simp only [SEL.toks, UR.ok.injEq] at ht2; subst ht2
        exact followA_append_of_head p2 rest hr.1 (Or.inl hp2)
      | cons e' es' =>
        obtain ⟨t', r', hh, hs'⟩ := toksArgs_head e' es' hp.2 t2 ht2
        exact followA_append_of_head p2 rest hr.1 (Or.inr ⟨t', r', by rw [hp2, hh], hs'⟩)
    obtain ⟨n1, pe, hs1, h1⟩ := hA t1 ht1 p1 hp1 (p2 ++ rest) hfa
    obtain ⟨n2, pels, hs2, h2⟩ := hRest t2 ht2 p2 hp2 rest hr
    -- the first token of the whole list starts an argument
    obtain ⟨b0, e0, q0, hp1c, _⟩ : ∃ b0 e0 q0, p1 ++ p2 = ⟨t, b0, e0⟩ :: q0 ∧ True := by
      obtain ⟨b0, e0, q0, h, _⟩ := toksOf_eq_cons (pts := p1 ++ p2) (by rw [toksOf_append, hp1, hp2, hhead])
      exact ⟨b0, e0, q0, h, trivial⟩
    refine ⟨n1 + n2 + 1, .cons pe pels, by simp only [PEL.strip, hs1, hs2, SEL.normA], fun F => ?_⟩
    have hA' := h1 (F + n2)
    have hB' := h2 (F + n1)
    rw [show F + (n1 + n2 + 1) = (F + n2 + n1) + 1 by omega]
    have hcons : (p1 ++ p2) ++ rest = ⟨t, b0, e0⟩ :: (q0 ++ rest) := by rw [hp1c]; rfl
    rw [hcons]
    simp only [parseArgs, hstart, ↓reduceIte]
    rw [← hcons, List.append_assoc, hA']
    simp only [PR.ok_bind]
    rw [show F + n2 + n1 = F + n1 + n2 by omega, hB']
    simp only [PR.ok_bind]
end

end B6.Lemmas.Shell
