import B6.Model.RecordsTokenMap
import B6.Lemmas.Varint
/-!
# TokenMap lemmas: the hash-bucket invariant of `TokenMapEncoder` through `Add` and its resize, and the
bucket byte strings read back by the iterator, the `ByteArrays` layout / pointer table / data area written by
`Write` and read by `Unmarshal`, `Item`, `FindPossibleIndices` (kernel-only proofs, no Mathlib).
-/
namespace B6.Model.RecordsTokenMap
open B6.Model.Varint

/-- every entry sits in the bucket its token hashes to -/
def Inv (e : Encoder) : Prop :=
  0 < e.buckets.length ∧ ∀ (b : Nat) (hb : b < e.buckets.length), ∀ x ∈ e.buckets[b], hashString x.1 % e.buckets.length = b

/-- `x` is stored in some bucket -/
def InB (e : Encoder) (x : Entry) : Prop := ∃ (b : Nat) (hb : b < e.buckets.length), x ∈ e.buckets[b]

theorem addRaw_length (e : Encoder) (t : Bytes) (i : BitVec 64) : (addRaw e t i).buckets.length = e.buckets.length := by
  simp [addRaw]

theorem addRaw_getElem (e : Encoder) (t : Bytes) (i : BitVec 64) (b : Nat) (hb : b < e.buckets.length) :
    (addRaw e t i).buckets[b]'(by rw [addRaw_length]; exact hb) =
      if hashString t % e.buckets.length = b then e.buckets[b] ++ [(t, i)] else e.buckets[b] := by
  simp only [addRaw, List.getElem_modify]

theorem addRaw_inv (e : Encoder) (t : Bytes) (i : BitVec 64) (h : Inv e) : Inv (addRaw e t i) := by
  obtain ⟨hpos, hb⟩ := h
  refine ⟨by rw [addRaw_length]; exact hpos, ?_⟩
  intro b hb' x hx
  rw [addRaw_length] at hb' ⊢
  rw [addRaw_getElem e t i b hb'] at hx
  split at hx
  · rename_i heq
    rcases List.mem_append.mp hx with hx | hx
    · exact hb b hb' x hx
    · simp only [List.mem_singleton] at hx
      rw [hx]; exact heq
  · exact hb b hb' x hx

theorem addRaw_mem (e : Encoder) (t : Bytes) (i : BitVec 64) (h : Inv e) (y : Entry) :
    InB (addRaw e t i) y ↔ InB e y ∨ y = (t, i) := by
  obtain ⟨hpos, _⟩ := h
  constructor
  · rintro ⟨b, hb, hy⟩
    have hb' : b < e.buckets.length := by rw [addRaw_length] at hb; exact hb
    rw [addRaw_getElem e t i b hb'] at hy
    split at hy
    · rcases List.mem_append.mp hy with hy | hy
      · exact Or.inl ⟨b, hb', hy⟩
      · exact Or.inr (List.mem_singleton.mp hy)
    · exact Or.inl ⟨b, hb', hy⟩
  · rintro (⟨b, hb, hy⟩ | rfl)
    · refine ⟨b, by rw [addRaw_length]; exact hb, ?_⟩
      rw [addRaw_getElem e t i b hb]
      split
      · exact List.mem_append_left _ hy
      · exact hy
    · have hlt : hashString t % e.buckets.length < e.buckets.length := Nat.mod_lt _ hpos
      refine ⟨hashString t % e.buckets.length, by rw [addRaw_length]; exact hlt, ?_⟩
      rw [addRaw_getElem e t i _ hlt, if_pos rfl]
      exact List.mem_append_right _ (List.mem_singleton.mpr rfl)

theorem foldl_addRaw (l : List Entry) : ∀ (e : Encoder), Inv e →
    Inv (l.foldl (fun acc x => addRaw acc x.1 x.2) e) ∧
    ∀ y, InB (l.foldl (fun acc x => addRaw acc x.1 x.2) e) y ↔ InB e y ∨ y ∈ l := by
  induction l with
  | nil => intro e h; exact ⟨h, fun y => by simp⟩
  | cons x xs ih =>
    intro e h
    have h1 := addRaw_inv e x.1 x.2 h
    obtain ⟨a, b⟩ := ih _ h1
    refine ⟨a, fun y => ?_⟩
    simp only [List.foldl_cons]
    rw [b y, addRaw_mem e x.1 x.2 h y, List.mem_cons]
    constructor
    · rintro ((h | h) | h)
      · exact Or.inl h
      · exact Or.inr (Or.inl h)
      · exact Or.inr (Or.inr h)
    · rintro (h | h | h)
      · exact Or.inl (Or.inl h)
      · exact Or.inl (Or.inr h)
      · exact Or.inr h

theorem inB_iff_flatten (e : Encoder) (y : Entry) : InB e y ↔ y ∈ e.buckets.flatten := by
  simp only [InB, List.mem_flatten]
  constructor
  · rintro ⟨b, hb, hy⟩
    exact ⟨e.buckets[b], List.getElem_mem hb, hy⟩
  · rintro ⟨l, hl, hy⟩
    obtain ⟨b, hb, rfl⟩ := List.mem_iff_getElem.mp hl
    exact ⟨b, hb, hy⟩

theorem empty_inv (n : Nat) (hn : 0 < n) : Inv ⟨List.replicate n [], 0⟩ := by
  refine ⟨by simpa using hn, ?_⟩
  intro b hb x hx
  simp at hx

theorem empty_inB (n : Nat) (y : Entry) : ¬ InB ⟨List.replicate n [], 0⟩ y := by
  rintro ⟨b, hb, hy⟩
  simp at hy

theorem grow_spec (e : Encoder) (h : Inv e) : Inv (grow e) ∧ ∀ y, InB (grow e) y ↔ InB e y := by
  obtain ⟨a, b⟩ := foldl_addRaw e.buckets.flatten ⟨List.replicate (2 * e.buckets.length) [], 0⟩
    (empty_inv _ (by have := h.1; omega))
  refine ⟨a, fun y => ?_⟩
  unfold grow
  rw [b y, inB_iff_flatten e y]
  constructor
  · rintro (h | h)
    · exact absurd h (empty_inB _ y)
    · exact h
  · exact Or.inr

theorem add_spec (e : Encoder) (t : Bytes) (i : BitVec 64) (h : Inv e) :
    Inv (add e t i) ∧ ∀ y, InB (add e t i) y ↔ InB e y ∨ y = (t, i) := by
  unfold add
  split
  · obtain ⟨a, b⟩ := grow_spec e h
    exact ⟨addRaw_inv _ t i a, fun y => by rw [addRaw_mem _ t i a y, b y]⟩
  · exact ⟨addRaw_inv _ t i h, addRaw_mem e t i h⟩

theorem new_inv : Inv Encoder.new := ⟨by simp [Encoder.new], by
  intro b hb x hx
  simp only [Encoder.new, List.length_cons, List.length_nil] at hb
  have : b = 0 := by omega
  subst this
  simp [Encoder.new] at hx⟩

theorem addAll_spec (adds : List Entry) : Inv (addAll adds) ∧ ∀ y, InB (addAll adds) y ↔ y ∈ adds := by
  have key : ∀ (l : List Entry) (e : Encoder), Inv e →
      Inv (l.foldl (fun e x => add e x.1 x.2) e) ∧ ∀ y, InB (l.foldl (fun e x => add e x.1 x.2) e) y ↔ InB e y ∨ y ∈ l := by
    intro l
    induction l with
    | nil => intro e h; exact ⟨h, fun y => by simp⟩
    | cons x xs ih =>
      intro e h
      obtain ⟨h1, h2⟩ := add_spec e x.1 x.2 h
      obtain ⟨a, b⟩ := ih _ h1
      refine ⟨a, fun y => ?_⟩
      simp only [List.foldl_cons]
      rw [b y, h2 y, List.mem_cons]
      constructor
      · rintro ((h | h) | h)
        · exact Or.inl h
        · exact Or.inr (Or.inl h)
        · exact Or.inr (Or.inr h)
      · rintro (h | h | h)
        · exact Or.inl (Or.inl h)
        · exact Or.inl (Or.inr h)
        · exact Or.inr h
  obtain ⟨a, b⟩ := key adds Encoder.new new_inv
  refine ⟨a, fun y => ?_⟩
  unfold addAll
  rw [b y]
  constructor
  · rintro (⟨b, hb, hy⟩ | h)
    · simp only [Encoder.new, List.length_cons, List.length_nil] at hb
      have : b = 0 := by omega
      subst this
      simp [Encoder.new] at hy
    · exact h
  · exact Or.inr

/-- **encoder level `tokenmap_find`**: after any sequence of `Add`s (resizes included), every added
`(token, index)` is stored in the bucket `HashString(token) % len(buckets)` — the bucket
`FindPossibleIndices(token)` reads. -/
theorem added_in_hash_bucket (adds : List Entry) (y : Entry) (hy : y ∈ adds) :
    ∃ hb : hashString y.1 % (addAll adds).buckets.length < (addAll adds).buckets.length,
      y ∈ (addAll adds).buckets[hashString y.1 % (addAll adds).buckets.length] := by
  obtain ⟨⟨hpos, hinv⟩, hmem⟩ := addAll_spec adds
  obtain ⟨b, hb, hin⟩ := (hmem y).mpr hy
  have := hinv b hb y hin
  refine ⟨Nat.mod_lt _ hpos, ?_⟩
  simp only [this]
  exact hin

/-! ## draining a bucket's bytes -/

theorem itemBytes_cons (x : Entry) (xs : List Entry) : itemBytes (x :: xs) = putUvarint x.2.toNat ++ itemBytes xs := by
  simp [itemBytes]

/-- the iterator over the bytes of a bucket yields exactly the bucket's indices, in order -/
theorem drain_itemBytes (l : List Entry) : ∀ (f : Nat), (itemBytes l).length ≤ f →
    drain f (itemBytes l) = some (l.map (·.2)) := by
  induction l with
  | nil => intro f _; cases f <;> rfl
  | cons x xs ih =>
    intro f hf
    rw [itemBytes_cons] at hf ⊢
    have hpos := putUvarint_length_pos x.2.toNat
    have hu := uvarint_putUvarint_append x.2.toNat x.2.isLt (itemBytes xs)
    cases hp : putUvarint x.2.toNat with
    | nil => rw [hp] at hpos; simp at hpos
    | cons b bs =>
      rw [hp] at hu hf
      simp only [List.length_append, List.length_cons] at hf
      cases f with
      | zero => omega
      | succ f =>
        simp only [List.cons_append, drain]
        simp only [List.cons_append] at hu
        rw [hu]
        have hd : (b :: (bs ++ itemBytes xs)).drop (b :: bs).length = itemBytes xs := by
          have := List.drop_left (l₁ := b :: bs) (l₂ := itemBytes xs)
          simpa using this
        simp only [hd]
        rw [ih f (by omega)]
        simp

/-! ## the ByteArrays serialisation -/

theorem foldl_add_eq (l : List Nat) : ∀ a, l.foldl (· + ·) a = a + l.sum := by
  induction l with
  | nil => intro a; simp
  | cons x xs ih => intro a; simp [ih]; omega

theorem prefixSums_length (l : List Nat) : ∀ a, (prefixSums a l).length = l.length + 1 := by
  induction l with
  | nil => intro a; rfl
  | cons x xs ih => intro a; simp [prefixSums, ih]

theorem prefixSums_getElem (l : List Nat) : ∀ (a i : Nat) (hi : i < (prefixSums a l).length),
    (prefixSums a l)[i] = a + (l.take i).sum := by
  induction l with
  | nil =>
    intro a i hi
    simp only [prefixSums, List.length_cons, List.length_nil] at hi
    have : i = 0 := by omega
    subst this; simp [prefixSums]
  | cons x xs ih =>
    intro a i hi
    cases i with
    | zero => simp [prefixSums]
    | succ i =>
      simp only [prefixSums, List.getElem_cons_succ, List.take_succ_cons, List.sum_cons]
      rw [ih]; omega

theorem sum_take_le (l : List Nat) (i : Nat) : (l.take i).sum ≤ l.sum := by
  induction l generalizing i with
  | nil => simp
  | cons x xs ih =>
    cases i with
    | zero => simp
    | succ i => simp only [List.take_succ_cons, List.sum_cons]; have := ih i; omega

theorem sum_take_succ (l : List Nat) (i : Nat) (hi : i < l.length) : (l.take (i + 1)).sum = (l.take i).sum + l[i] := by
  induction l generalizing i with
  | nil => simp at hi
  | cons x xs ih =>
    cases i with
    | zero => simp
    | succ i =>
      simp only [List.take_succ_cons, List.sum_cons, List.getElem_cons_succ]
      rw [ih i (by simpa using hi)]; omega

/-- fixed-width table: entry `i` starts at byte `w*i` -/
theorem drop_table (w : Nat) (xs : List Nat) : ∀ (i : Nat) (hi : i < xs.length) (tail : Bytes),
    ((xs.map fun p => marshalUint64 p w).flatten ++ tail).drop (w * i) =
      marshalUint64 xs[i] w ++ (((xs.drop (i + 1)).map fun p => marshalUint64 p w).flatten ++ tail) := by
  induction xs with
  | nil => intro i hi; simp at hi
  | cons x xs ih =>
    intro i hi tail
    cases i with
    | zero => simp
    | succ i =>
      have hl : (marshalUint64 x w).length = w := marshalUint64_length x w
      have : w * (i + 1) = (marshalUint64 x w).length + w * i := by rw [hl, Nat.mul_succ]; omega
      simp only [List.map_cons, List.flatten_cons, List.append_assoc, this]
      rw [← List.drop_drop, List.drop_left]
      simpa using ih i (by simpa using hi) tail

theorem table_length (w : Nat) (xs : List Nat) : ((xs.map fun p => marshalUint64 p w).flatten).length = w * xs.length := by
  induction xs with
  | nil => simp
  | cons x xs ih => simp [marshalUint64_length, ih, Nat.mul_succ]; omega

/-- the data area: item `i` occupies `[sum of earlier lengths, + its length)` -/
theorem drop_take_item (items : List Bytes) : ∀ (i : Nat) (hi : i < items.length) (tail : Bytes),
    ((items.flatten ++ tail).drop ((items.map List.length).take i).sum).take items[i].length = items[i] := by
  induction items with
  | nil => intro i hi; simp at hi
  | cons x xs ih =>
    intro i hi tail
    cases i with
    | zero => simp
    | succ i =>
      simp only [List.map_cons, List.take_succ_cons, List.sum_cons, List.flatten_cons, List.append_assoc,
        List.getElem_cons_succ]
      rw [← List.drop_drop, List.drop_left]
      exact ih i (by simpa using hi) tail

theorem uint64Length_mono (a b : Nat) (h : a ≤ b) : uint64Length a ≤ uint64Length b := by
  unfold uint64Length
  repeat' split
  all_goals omega

theorem le32_length (v : Nat) : (le32 v).length = 4 := marshalUint64_length _ _

theorem leValue_le32 (v : Nat) : leValue (le32 v) = v % 2 ^ 32 := by
  unfold le32
  rw [leValue_marshalUint64]
  exact Nat.mod_eq_of_lt (by have := Nat.mod_lt v (show 2 ^ 32 > 0 by omega); omega)


theorem rd32_at (A Y : Bytes) (v : Nat) : rd32 (A ++ (le32 v ++ Y)) A.length = some (v % 2 ^ 32) := by
  have h4 := le32_length v
  unfold rd32
  rw [if_neg (by simp only [List.length_append, h4]; omega), List.drop_left,
    List.take_append_of_le_length (by omega), List.take_of_length_le (by omega), leValue_le32]

def items (e : Encoder) : List Bytes := e.buckets.map itemBytes
def lens (e : Encoder) : List Nat := (items e).map List.length
def total (e : Encoder) : Nat := (lens e).sum
def ob (e : Encoder) : Nat := uint64Length (total e)
def ptrs (e : Encoder) : List Nat := prefixSums 0 (lens e)
def table (e : Encoder) : Bytes := ((ptrs e).map fun p => marshalUint64 p (ob e)).flatten

theorem encode_eq (e : Encoder) :
    encode e = le32 e.buckets.length ++ (le32 (ob e) ++ (le32 ((lens e).foldl Nat.max 0) ++ (table e ++ (items e).flatten))) := by
  simp only [encode, table, ptrs, ob, total, lens, items, foldl_add_eq, Nat.zero_add, List.append_assoc]

theorem ptrs_length (e : Encoder) : (ptrs e).length = e.buckets.length + 1 := by
  simp [ptrs, prefixSums_length, lens, items]

theorem ptrs_getElem (e : Encoder) (i : Nat) (hi : i < (ptrs e).length) : (ptrs e)[i] = ((lens e).take i).sum := by
  simp only [ptrs]
  rw [prefixSums_getElem]; omega

theorem encode_length (e : Encoder) : (encode e).length = 12 + ob e * (e.buckets.length + 1) + total e := by
  rw [encode_eq]
  simp only [List.length_append, le32_length]
  have h1 : (table e).length = ob e * (e.buckets.length + 1) := by unfold table; rw [table_length, ptrs_length]
  have h2 : (items e).flatten.length = total e := by simp [total, lens, List.length_flatten]
  omega

/-- the table sizes the format can hold: `Items` is a `uint32`, offsets are `uint64` -/
def Fits (e : Encoder) : Prop := e.buckets.length < 2 ^ 32 ∧ total e < 2 ^ 64

theorem layout_encode (e : Encoder) (hf : Fits e) (rest : Bytes) :
    ∃ m, layout (encode e ++ rest) = some ⟨e.buckets.length, ob e, m⟩ := by
  have h1 := rd32_at [] (le32 (ob e) ++ (le32 ((lens e).foldl Nat.max 0) ++ (table e ++ (items e).flatten)) ++ rest) e.buckets.length
  have h2 := rd32_at (le32 e.buckets.length) (le32 ((lens e).foldl Nat.max 0) ++ (table e ++ (items e).flatten) ++ rest) (ob e)
  have h3 := rd32_at (le32 e.buckets.length ++ le32 (ob e)) (table e ++ (items e).flatten ++ rest) ((lens e).foldl Nat.max 0)
  have hob := uint64Length_spec (total e) hf.2
  simp only [List.length_append, le32_length, List.length_nil, List.nil_append, List.append_assoc] at h1 h2 h3
  refine ⟨(lens e).foldl Nat.max 0 % 2 ^ 32, ?_⟩
  simp only [layout, encode_eq, List.append_assoc, h1, h2, h3]
  have e1 : e.buckets.length % 2 ^ 32 = e.buckets.length := Nat.mod_eq_of_lt hf.1
  have e2 : ob e % 2 ^ 32 = ob e := Nat.mod_eq_of_lt (by unfold ob; omega)
  simp [e1, e2]

theorem pointerAt_encode (e : Encoder) (hf : Fits e) (rest : Bytes) (m i : Nat) (hi : i < e.buckets.length + 1) :
    pointerAt (encode e ++ rest) ⟨e.buckets.length, ob e, m⟩ i = some ((lens e).take i).sum := by
  have hob := uint64Length_spec (total e) hf.2
  have hi' : i < (ptrs e).length := by rw [ptrs_length]; exact hi
  have hlen := encode_length e
  have hle : ((lens e).take i).sum ≤ total e := sum_take_le _ _
  unfold pointerAt
  simp only
  rw [if_neg (by
    simp only [List.length_append, hlen]
    have : ob e * i ≤ ob e * (e.buckets.length + 1) := Nat.mul_le_mul_left _ (by omega)
    omega)]
  have hd : (encode e ++ rest).drop (12 + ob e * i) =
      marshalUint64 (ptrs e)[i] (ob e) ++ ((((ptrs e).drop (i + 1)).map fun p => marshalUint64 p (ob e)).flatten ++ ((items e).flatten ++ rest)) := by
    rw [encode_eq]
    have hh : le32 e.buckets.length ++ (le32 (ob e) ++ (le32 ((lens e).foldl Nat.max 0) ++ (table e ++ (items e).flatten))) ++ rest =
        (le32 e.buckets.length ++ (le32 (ob e) ++ le32 ((lens e).foldl Nat.max 0))) ++ (table e ++ ((items e).flatten ++ rest)) := by
      simp only [List.append_assoc]
    have h12 : 12 + ob e * i = (le32 e.buckets.length ++ (le32 (ob e) ++ le32 ((lens e).foldl Nat.max 0))).length + ob e * i := by
      simp [le32_length]
    rw [hh, h12, ← List.drop_drop, List.drop_left]
    exact drop_table (ob e) (ptrs e) i hi' ((items e).flatten ++ rest)
  rw [hd, ptrs_getElem e i hi']
  have := hf.2
  exact unmarshal_marshalUint64_append _ _ (by omega) (uint64Length_mono _ _ hle) _

/-- `TokenMap.Unmarshal` reports exactly the bytes `Write` produced … -/
theorem decodeLength_encode (e : Encoder) (hf : Fits e) (rest : Bytes) :
    decodeLength (encode e ++ rest) = some (encode e).length := by
  obtain ⟨m, hl⟩ := layout_encode e hf rest
  have hp := pointerAt_encode e hf rest m e.buckets.length (by omega)
  have ht : ((lens e).take e.buckets.length).sum = total e := by
    rw [List.take_of_length_le (by simp [lens, items])]; rfl
  simp [decodeLength, hl, hp, ht, encode_length]

/-- … and `ByteArrays.Item(i)` is the byte string of bucket `i`. -/
theorem item_encode (e : Encoder) (hf : Fits e) (rest : Bytes) (i : Nat) (hi : i < e.buckets.length) :
    item (encode e ++ rest) i = some (itemBytes e.buckets[i]) := by
  obtain ⟨m, hl⟩ := layout_encode e hf rest
  have hp := pointerAt_encode e hf rest m i (by omega)
  have hq := pointerAt_encode e hf rest m (i + 1) (by omega)
  have hil : i < (lens e).length := by simp [lens, items]; exact hi
  have hii : i < (items e).length := by simp [items]; exact hi
  have hs := sum_take_succ (lens e) i hil
  have hle : ((lens e).take (i + 1)).sum ≤ total e := sum_take_le _ _
  have hlen := encode_length e
  have hli : (lens e)[i] = (items e)[i].length := by simp [lens]
  simp only [item, hl]
  simp only [Option.bind_eq_bind, Option.bind_some, Option.pure_def]
  simp only [hp, hq, Option.bind_some]
  rw [if_neg (by omega), if_neg (by
    simp only [List.length_append, hlen]
    omega)]
  have hd : (encode e ++ rest).drop (12 + ob e * (e.buckets.length + 1) + ((lens e).take i).sum) =
      ((items e).flatten ++ rest).drop ((lens e).take i).sum := by
    rw [encode_eq]
    have hh : le32 e.buckets.length ++ (le32 (ob e) ++ (le32 ((lens e).foldl Nat.max 0) ++ (table e ++ (items e).flatten))) ++ rest =
        (le32 e.buckets.length ++ (le32 (ob e) ++ (le32 ((lens e).foldl Nat.max 0) ++ table e))) ++ ((items e).flatten ++ rest) := by
      simp only [List.append_assoc]
    have h12 : 12 + ob e * (e.buckets.length + 1) + ((lens e).take i).sum =
        (le32 e.buckets.length ++ (le32 (ob e) ++ (le32 ((lens e).foldl Nat.max 0) ++ table e))).length + ((lens e).take i).sum := by
      have h1 : (table e).length = ob e * (e.buckets.length + 1) := by unfold table; rw [table_length, ptrs_length]
      simp only [List.length_append, le32_length, h1]; omega
    rw [hh, h12, ← List.drop_drop, List.drop_left]
  rw [hd, hs]
  have := drop_take_item (items e) i hii rest
  simp only [lens] at hli ⊢
  rw [Nat.add_sub_cancel_left, List.getElem_map] 
  rw [this]
  simp [items]


/-- `FindPossibleIndices(token)` on the written table = the indices of bucket `HashString(token) % len` -/
theorem findPossibleIndices_encode (e : Encoder) (hinv : Inv e) (hf : Fits e) (rest tok : Bytes) :
    findPossibleIndices (encode e ++ rest) tok =
      some ((e.buckets[hashString tok % e.buckets.length]'(Nat.mod_lt _ hinv.1)).map (·.2)) := by
  obtain ⟨m, hl⟩ := layout_encode e hf rest
  have hpos := hinv.1
  have hi := item_encode e hf rest (hashString tok % e.buckets.length) (Nat.mod_lt _ hpos)
  simp only [findPossibleIndices, hl]
  simp only [Option.bind_eq_bind, Option.bind_some]
  rw [if_neg (by omega), hi]
  simp only [Option.bind_some]
  exact drain_itemBytes _ _ (Nat.le_refl _)

/-- **`tokenmap_find`, end to end**: write the table after any sequence of `Add`s, read it back (whatever
follows it): every added token's index is among `FindPossibleIndices(token)`. -/
theorem tokenmap_find (adds : List Entry) (hf : Fits (addAll adds)) (rest : Bytes) (y : Entry) (hy : y ∈ adds) :
    ∃ l, findPossibleIndices (encode (addAll adds) ++ rest) y.1 = some l ∧ y.2 ∈ l := by
  obtain ⟨hinv, _⟩ := addAll_spec adds
  obtain ⟨hb, hin⟩ := added_in_hash_bucket adds y hy
  refine ⟨_, findPossibleIndices_encode (addAll adds) hinv hf rest y.1, ?_⟩
  exact List.mem_map.mpr ⟨y, hin, rfl⟩

end B6.Model.RecordsTokenMap
