import B6.Model.RecordsTokenMap
import B6.Lemmas.Varint
/-!
# TokenMap lemmas: the hash-bucket invariant of `TokenMapEncoder` through `Add` and its resize, and the
bucket byte strings read back by the iterator (kernel-only proofs, no Mathlib).
-/
namespace B6.Model.RecordsTokenMap
open B6.Model.Varint

/-- every entry sits in the bucket its token hashes to -/
def Inv (e : Encoder) : Prop :=
  0 < e.buckets.length ∧ ∀ (b : Nat) (hb : b < e.buckets.length), ∀ x ∈ e.buckets[b], hashString x.1 % e.buckets.length = b

/-- `x` is stored in some bucket -/
def InB (e : Encoder) (x : Entry) : Prop := ∃ (b : Nat) (hb : b < e.buckets.length), x ∈ e.buckets[b]

theorem addRaw_length (e : Encoder) (t : Bytes) (i : BitVec 64) : (addRaw e t i).buckets.length = e.buckets.length := by
  simp [addRaw]

theorem addRaw_getElem (e : Encoder) (t : Bytes) (i : BitVec 64) (b : Nat) (hb : b < e.buckets.length) :
    (addRaw e t i).buckets[b]'(by rw [addRaw_length]; exact hb) =
      if hashString t % e.buckets.length = b then e.buckets[b] ++ [(t, i)] else e.buckets[b] := by
  simp only [addRaw, List.getElem_modify]

theorem addRaw_inv (e : Encoder) (t : Bytes) (i : BitVec 64) (h : Inv e) : Inv (addRaw e t i) := by
  obtain ⟨hpos, hb⟩ := h
  refine ⟨by rw [addRaw_length]; exact hpos, ?_⟩
  intro b hb' x hx
  rw [addRaw_length] at hb' ⊢
  rw [addRaw_getElem e t i b hb'] at hx
  split at hx
  · rename_i heq
    rcases List.mem_append.mp hx with hx | hx
    · exact hb b hb' x hx
    · simp only [List.mem_singleton] at hx
      rw [hx]; exact heq
  · exact hb b hb' x hx

theorem addRaw_mem (e : Encoder) (t : Bytes) (i : BitVec 64) (h : Inv e) (y : Entry) :
    InB (addRaw e t i) y ↔ InB e y ∨ y = (t, i) := by
  obtain ⟨hpos, _⟩ := h
  constructor
  · rintro ⟨b, hb, hy⟩
    have hb' : b < e.buckets.length := by rw [addRaw_length] at hb; exact hb
    rw [addRaw_getElem e t i b hb'] at hy
    split at hy
    · rcases List.mem_append.mp hy with hy | hy
      · exact Or.inl ⟨b, hb', hy⟩
      · exact Or.inr (List.mem_singleton.mp hy)
    · exact Or.inl ⟨b, hb', hy⟩
  · rintro (⟨b, hb, hy⟩ | rfl)
    · refine ⟨b, by rw [addRaw_length]; exact hb, ?_⟩
      rw [addRaw_getElem e t i b hb]
      split
      · exact List.mem_append_left _ hy
      · exact hy
    · have hlt : hashString t % e.buckets.length < e.buckets.length := Nat.mod_lt _ hpos
      refine ⟨hashString t % e.buckets.length, by rw [addRaw_length]; exact hlt, ?_⟩
      rw [addRaw_getElem e t i _ hlt, if_pos rfl]
      exact List.mem_append_right _ (List.mem_singleton.mpr rfl)

theorem foldl_addRaw (l : List Entry) : ∀ (e : Encoder), Inv e →
    Inv (l.foldl (fun acc x => addRaw acc x.1 x.2) e) ∧
    ∀ y, InB (l.foldl (fun acc x => addRaw acc x.1 x.2) e) y ↔ InB e y ∨ y ∈ l := by
  induction l with
  | nil => intro e h; exact ⟨h, fun y => by simp⟩
  | cons x xs ih =>
    intro e h
    have h1 := addRaw_inv e x.1 x.2 h
    obtain ⟨a, b⟩ := ih _ h1
    refine ⟨a, fun y => ?_⟩
    simp only [List.foldl_cons]
    rw [b y, addRaw_mem e x.1 x.2 h y, List.mem_cons]
    constructor
    · rintro ((h | h) | h)
      · exact Or.inl h
      · exact Or.inr (Or.inl h)
      · exact Or.inr (Or.inr h)
    · rintro (h | h | h)
      · exact Or.inl (Or.inl h)
      · exact Or.inl (Or.inr h)
      · exact Or.inr h

theorem inB_iff_flatten (e : Encoder) (y : Entry) : InB e y ↔ y ∈ e.buckets.flatten := by
  simp only [InB, List.mem_flatten]
  constructor
  · rintro ⟨b, hb, hy⟩
    exact ⟨e.buckets[b], List.getElem_mem hb, hy⟩
  · rintro ⟨l, hl, hy⟩
    obtain ⟨b, hb, rfl⟩ := List.mem_iff_getElem.mp hl
    exact ⟨b, hb, hy⟩

theorem empty_inv (n : Nat) (hn : 0 < n) : Inv ⟨List.replicate n [], 0⟩ := by
  refine ⟨by simpa using hn, ?_⟩
  intro b hb x hx
  simp at hx

theorem empty_inB (n : Nat) (y : Entry) : ¬ InB ⟨List.replicate n [], 0⟩ y := by
  rintro ⟨b, hb, hy⟩
  simp at hy

theorem grow_spec (e : Encoder) (h : Inv e) : Inv (grow e) ∧ ∀ y, InB (grow e) y ↔ InB e y := by
  obtain ⟨a, b⟩ := foldl_addRaw e.buckets.flatten ⟨List.replicate (2 * e.buckets.length) [], 0⟩
    (empty_inv _ (by have := h.1; omega))
  refine ⟨a, fun y => ?_⟩
  unfold grow
  rw [b y, inB_iff_flatten e y]
  constructor
  · rintro (h | h)
    · exact absurd h (empty_inB _ y)
    · exact h
  · exact Or.inr

theorem add_spec (e : Encoder) (t : Bytes) (i : BitVec 64) (h : Inv e) :
    Inv (add e t i) ∧ ∀ y, InB (add e t i) y ↔ InB e y ∨ y = (t, i) := by
  unfold add
  split
  · obtain ⟨a, b⟩ := grow_spec e h
    exact ⟨addRaw_inv _ t i a, fun y => by rw [addRaw_mem _ t i a y, b y]⟩
  · exact ⟨addRaw_inv _ t i h, addRaw_mem e t i h⟩

theorem new_inv : Inv Encoder.new := ⟨by simp [Encoder.new], by
  intro b hb x hx
  simp only [Encoder.new, List.length_cons, List.length_nil] at hb
  have : b = 0 := by omega
  subst this
  simp [Encoder.new] at hx⟩

theorem addAll_spec (adds : List Entry) : Inv (addAll adds) ∧ ∀ y, InB (addAll adds) y ↔ y ∈ adds := by
  have key : ∀ (l : List Entry) (e : Encoder), Inv e →
      Inv (l.foldl (fun e x => add e x.1 x.2) e) ∧ ∀ y, InB (l.foldl (fun e x => add e x.1 x.2) e) y ↔ InB e y ∨ y ∈ l := by
    intro l
    induction l with
    | nil => intro e h; exact ⟨h, fun y => by simp⟩
    | cons x xs ih =>
      intro e h
      obtain ⟨h1, h2⟩ := add_spec e x.1 x.2 h
      obtain ⟨a, b⟩ := ih _ h1
      refine ⟨a, fun y => ?_⟩
      simp only [List.foldl_cons]
      rw [b y, h2 y, List.mem_cons]
      constructor
      · rintro ((h | h) | h)
        · exact Or.inl h
        · exact Or.inr (Or.inl h)
        · exact Or.inr (Or.inr h)
      · rintro (h | h | h)
        · exact Or.inl (Or.inl h)
        · exact Or.inl (Or.inr h)
        · exact Or.inr h
  obtain ⟨a, b⟩ := key adds Encoder.new new_inv
  refine ⟨a, fun y => ?_⟩
  unfold addAll
  rw [b y]
  constructor
  · rintro (⟨b, hb, hy⟩ | h)
    · simp only [Encoder.new, List.length_cons, List.length_nil] at hb
      have : b = 0 := by omega
      subst this
      simp [Encoder.new] at hy
    · exact h
  · exact Or.inr

/-- **encoder level `tokenmap_find`**: after any sequence of `Add`s (resizes included), every added
`(token, index)` is stored in the bucket `HashString(token) % len(buckets)` — the bucket
`FindPossibleIndices(token)` reads. -/
theorem added_in_hash_bucket (adds : List Entry) (y : Entry) (hy : y ∈ adds) :
    ∃ hb : hashString y.1 % (addAll adds).buckets.length < (addAll adds).buckets.length,
      y ∈ (addAll adds).buckets[hashString y.1 % (addAll adds).buckets.length] := by
  obtain ⟨⟨hpos, hinv⟩, hmem⟩ := addAll_spec adds
  obtain ⟨b, hb, hin⟩ := (hmem y).mpr hy
  have := hinv b hb y hin
  refine ⟨Nat.mod_lt _ hpos, ?_⟩
  simp only [this]
  exact hin

/-! ## draining a bucket's bytes -/

theorem itemBytes_cons (x : Entry) (xs : List Entry) : itemBytes (x :: xs) = putUvarint x.2.toNat ++ itemBytes xs := by
  simp [itemBytes]

/-- the iterator over the bytes of a bucket yields exactly the bucket's indices, in order -/
theorem drain_itemBytes (l : List Entry) : ∀ (f : Nat), (itemBytes l).length ≤ f →
    drain f (itemBytes l) = some (l.map (·.2)) := by
  induction l with
  | nil => intro f _; cases f <;> rfl
  | cons x xs ih =>
    intro f hf
    rw [itemBytes_cons] at hf ⊢
    have hpos := putUvarint_length_pos x.2.toNat
    have hu := uvarint_putUvarint_append x.2.toNat x.2.isLt (itemBytes xs)
    cases hp : putUvarint x.2.toNat with
    | nil => rw [hp] at hpos; simp at hpos
    | cons b bs =>
      rw [hp] at hu hf
      simp only [List.length_append, List.length_cons] at hf
      cases f with
      | zero => omega
      | succ f =>
        simp only [List.cons_append, drain]
        simp only [List.cons_append] at hu
        rw [hu]
        have hd : (b :: (bs ++ itemBytes xs)).drop (b :: bs).length = itemBytes xs := by
          have := List.drop_left (l₁ := b :: bs) (l₂ := itemBytes xs)
          simpa using this
        simp only [hd]
        rw [ih f (by omega)]
        simp

end B6.Model.RecordsTokenMap
