import B6.Lemmas.VM
/-!
C21 `vm_lambda_partial`: the value relation `VR` between interpreter values (closures with environments)
and VM values (`*lambdaCall` = entry point + arity, partial calls with a register snapshot), and its
compatibility with `ConvertWithContext` (`convert_rel`) and the builtin table (`step_rel`).
-/
namespace B6.Lemmas.VMLambda
open B6.Model B6.Model.VM B6.Lemmas.VM

/-! ### the value relation between the interpreter and the VM -/

mutual
  inductive VR (code : List Instr) : Val → Val → Prop
    | int (i : Int) : VR code (.int i) (.int i)
    | str (s : String) : VR code (.str s) (.str s)
    | query (q : Query) : VR code (.query q) (.query q)
    | other (k t : String) : VR code (.other k t) (.other k t)
    | pair {a a' b b' : Val} : VR code a a' → VR code b b' → VR code (.pair a b) (.pair a' b')
    | builtin (b : Builtin) : VR code (.builtin b) (.builtin b)
    | clo {ps : List String} {b : Expr} {env : Env} {frame : Frame} {bound : List String} {pc : Nat} :
        (∀ s, bound.contains s = false → env.lookup s = none ∧ frame.lookup s = none) →
        (Expr.regScan bound ps false b).isSome = true →
        matchLamWith (fun fr js => matchExpr code fr b js) code frame ps pc = true →
        VR code (.closure ps b env) (.lam pc ps.length)
    | part {f f' : Val} {args args' : List Val} {snap : List (Nat × Val)} {m : Nat} :
        VR code f f' → f.arity = some m → f'.arity = some m → f.isCallable = true → vmCallable f' = true →
        VRs code args args' → VR code (.part f args []) (.part f' args' snap)
  inductive VRs (code : List Instr) : List Val → List Val → Prop
    | nil : VRs code [] []
    | cons {a a' : Val} {as as' : List Val} : VR code a a' → VRs code as as' → VRs code (a :: as) (a' :: as')
end

variable {code : List Instr}

theorem VRs_length : ∀ {as as' : List Val}, VRs code as as' → as.length = as'.length
  | [], _, h => by cases h; rfl
  | _ :: as, _, h => by cases h with | cons _ h2 => simp [VRs_length h2]

theorem VRs_append : ∀ {as as' bs bs' : List Val}, VRs code as as' → VRs code bs bs' → VRs code (as ++ bs) (as' ++ bs')
  | [], _, _, _, h, hb => by cases h; exact hb
  | _ :: as, _, _, _, h, hb => by cases h with | cons h1 h2 => exact .cons h1 (VRs_append h2 hb)

theorem VR_arity {v v' : Val} (h : VR code v v') : v.arity = v'.arity := by
  cases h with
  | part hf h1 h2 _ _ hargs => simp [Val.arity, h1, h2, VRs_length hargs]
  | _ => simp [Val.arity]

theorem VR_callable {v v' : Val} (h : VR code v v') : v.isCallable = vmCallable v' ∧ v'.isCallable = vmCallable v' := by
  cases h <;> simp [Val.isCallable, vmCallable]

theorem VR_literalable {v v' : Val} (h : VR code v v') : v.literalable = v'.literalable := by
  cases h <;> simp [Val.literalable]

def ResRel (code : List Instr) : Res Val → Res Val → Prop
  | .ok v, .ok v' => VR code v v'
  | .error e, .error e' => e = e'
  | _, _ => False

theorem convert_rel {t : Ty} {v v' : Val} (h : VR code v v') : ResRel code (convert t v) (convert t v') := by
  have h0 := h
  have hc := VR_callable h
  have ha := VR_arity h
  cases t with
  | any => simpa [convert, ResRel] using h
  | int => cases h <;> simp [convert, ResRel] <;> constructor
  | str => cases h <;> simp [convert, ResRel] <;> constructor
  | pair => cases h <;> simp [convert, ResRel]; exact h0
  | query => cases h <;> simp [convert, ResRel] <;> constructor
  | callable =>
    cases h <;> simp [convert, ResRel, Val.isCallable] <;> first | exact h0 | constructor
  | func n =>
    have e1 : convert (.func n) v = if (v.isCallable && v.arity == some n) = true then .ok v else .error .error := by
      cases v <;> rfl
    have e2 : convert (.func n) v' = if (v'.isCallable && v'.arity == some n) = true then .ok v' else .error .error := by
      cases v' <;> rfl
    rw [e1, e2, hc.1, hc.2, ha]
    split <;> simp [ResRel, h0]

def ResRels (code : List Instr) : Res (List Val) → Res (List Val) → Prop
  | .ok v, .ok v' => VRs code v v'
  | .error e, .error e' => e = e'
  | _, _ => False

theorem convertAll_rel : ∀ {ts : List Ty} {vs vs' : List Val}, VRs code vs vs' →
    ResRels code (convertAll ts vs) (convertAll ts vs')
  | [], _, _, h => by cases h <;> simp [convertAll, ResRels]; exact .nil
  | t :: ts, _, _, h => by
    cases h with
    | nil => simp [convertAll, ResRels]
    | cons h1 h2 =>
      have r1 := convert_rel (t := t) h1
      have r2 := convertAll_rel (ts := ts) h2
      simp only [convertAll, bind, Except.bind]
      rename_i a a' as as'
      cases hc : convert t a with
      | error e =>
        cases hc' : convert t a' with
        | error e' => simp [hc, hc', ResRel] at r1; simp [ResRels, r1]
        | ok c' => simp [hc, hc', ResRel] at r1
      | ok c =>
        cases hc' : convert t a' with
        | error e' => simp [hc, hc', ResRel] at r1
        | ok c' =>
          simp only [hc, hc', ResRel] at r1
          cases hs : convertAll ts as with
          | error e =>
            cases hs' : convertAll ts as' with
            | error e' => simp [hs, hs', ResRels] at r2; simp [ResRels, r2]
            | ok _ => simp [hs, hs', ResRels] at r2
          | ok cs =>
            cases hs' : convertAll ts as' with
            | error e' => simp [hs, hs', ResRels] at r2
            | ok cs' =>
              simp only [hs, hs', ResRels] at r2
              simp only [ResRels, pure, Except.pure]
              exact .cons r1 r2

def StepRel (code : List Instr) : Step → Step → Prop
  | .value v, .value v' => VR code v v'
  | .tail g xs, .tail g' xs' => VR code g g' ∧ VRs code xs xs'
  | .fail, .fail => True
  | _, _ => False

theorem steprel_ite (c : Prop) [Decidable c] (a b a' b' : Step) :
    StepRel code (if c then a else b) (if c then a' else b') ↔
      (if c then StepRel code a a' else StepRel code b b') := by
  split <;> simp

macro "step_tac" : tactic =>
  `(tactic| ((simp [Builtin.step, Val.literalable, steprel_ite] <;> (try simp [StepRel]) <;> (try split) <;> (try intros) <;>
      repeat (first | assumption | constructor)) <;> done))

theorem VR_cell : ∀ (v v' : Val), VR code v v' → v.cellToks = v'.cellToks
  | .int _, _, h => by cases h; rfl
  | .str _, _, h => by cases h; rfl
  | .query _, _, h => by cases h; rfl
  | .other _ _, _, h => by cases h; rfl
  | .pair a b, _, h => by
    cases h with
    | pair h1 h2 => simp [Val.cellToks, VR_cell a _ h1, VR_cell b _ h2]
  | .builtin _, _, h => by cases h; rfl
  | .closure _ _ _, _, h => by
    have := VR_arity h
    cases h; simp [Val.cellToks, Val.arity]
  | .lam _ _, _, h => by cases h
  | .part _ _ _, _, h => by
    have := VR_arity h
    cases h; simp only [Val.cellToks]; rw [this]

theorem VRs_collText : ∀ {ps ps' : List Val}, VRs code ps ps' →
    collText ps = collText ps' ∧ ps.all isPairVal = ps'.all isPairVal
  | [], _, h => by cases h; exact ⟨rfl, rfl⟩
  | p :: ps, _, h => by
    cases h with
    | cons h1 h2 =>
      obtain ⟨e1, e2⟩ := VRs_collText h2
      cases h1 with
      | pair ha hb => simp [collText, isPairVal, VR_cell _ _ ha, VR_cell _ _ hb, e1, e2]
      | _ => simp_all [collText, isPairVal]

theorem step_collection (ps : List Val) :
    Builtin.step .collection ps =
      if ps.all isPairVal then .value (.other "coll" ("_".intercalate (collText ps))) else .fail := by
  cases ps <;> simp [Builtin.step]

theorem step_call_cons (f : Val) (xs : List Val) : Builtin.step .call (f :: xs) = .tail f xs := by
  simp [Builtin.step]

theorem step_call_nil : Builtin.step .call [] = .fail := by simp [Builtin.step]

theorem step_rel_collection {cs cs' : List Val} (h : VRs code cs cs') :
    StepRel code (Builtin.step .collection cs) (Builtin.step .collection cs') := by
  obtain ⟨e1, e2⟩ := VRs_collText h
  rw [step_collection, step_collection, e1, e2]
  split <;> simp [StepRel]
  exact .other _ _

theorem step_rel_call {cs cs' : List Val} (h : VRs code cs cs') :
    StepRel code (Builtin.step .call cs) (Builtin.step .call cs') := by
  cases h with
  | nil => simp [step_call_nil, StepRel]
  | cons h1 h2 => simp only [step_call_cons, StepRel]; exact ⟨h1, h2⟩

theorem step_rel {b : Builtin} {cs cs' : List Val} (h : VRs code cs cs') :
    StepRel code (b.step cs) (b.step cs') := by
  cases b
  case collection => exact step_rel_collection h
  case call => exact step_rel_call h
  all_goals rcases h with _ | ⟨h1, _ | ⟨h2, _ | ⟨h3, _ | ⟨h4, h5⟩⟩⟩⟩ <;>
    first
    | step_tac
    | (cases h1 <;> first
        | step_tac
        | (cases h2 <;> first
            | step_tac
            | (cases h3 <;> step_tac)))

theorem step_tail_HO {b : Builtin} {cs : List Val} {g : Val} {xs : List Val} (h : b.step cs = .tail g xs) :
    b.higherOrder = true := by
  unfold Builtin.step at h
  split at h <;> (try split at h) <;> (try cases h) <;> rfl

theorem convert_callable' {v c : Val} (h : convert .callable v = .ok c) : c.isCallable = true := by
  cases v <;> simp [convert, Val.isCallable] at h <;> (try subst h) <;> simp_all [Val.isCallable]

theorem convert_func' {n : Nat} {v c : Val} (h : convert (.func n) v = .ok c) : c.isCallable = true := by
  have h' : (if (v.isCallable && v.arity == some n) = true then Except.ok v else Except.error Fail.error) = Except.ok c := by
    rw [← h]; cases v <;> rfl
  split at h'
  · rename_i hcond
    injection h' with h'
    subst h'
    simp only [Bool.and_eq_true] at hcond
    exact hcond.1
  · cases h'

theorem step_tail_callable' {b : Builtin} {args cs : List Val} {g : Val} {xs : List Val}
    (hc : convertAll (b.paramsAt args.length) args = .ok cs) (h : b.step cs = .tail g xs) : g.isCallable = true := by
  have key : ∀ t ts, b.paramsAt args.length = t :: ts → (t = .callable ∨ ∃ n, t = .func n) →
      ∀ c cs', cs = c :: cs' → c.isCallable = true := by
    intro t ts hp ht c cs' hcs
    rw [hp] at hc
    cases args with
    | nil => simp [convertAll] at hc
    | cons a as =>
      obtain ⟨c', cs'', h1, _, h3⟩ := convertAll_cons_ok hc
      rw [hcs] at h3
      injection h3 with h3 _
      subst h3
      rcases ht with rfl | ⟨n, rfl⟩
      · exact convert_callable' h1
      · exact convert_func' h1
  unfold Builtin.step at h
  split at h <;> (try split at h) <;> (try cases h) <;>
    first
    | exact key _ _ rfl (Or.inl rfl) _ _ rfl
    | exact key _ _ rfl (Or.inr ⟨_, rfl⟩) _ _ rfl

mutual
  theorem qbeq_sound : (a b : Query) → Query.beq a b = true → a = b
    | .keyed a, b, h => by cases b <;> simp_all [Query.beq]
    | .tagged a v, b, h => by cases b <;> simp_all [Query.beq]
    | .other a, b, h => by cases b <;> simp_all [Query.beq]
    | .typed t q, b, h => by
      cases b <;> simp [Query.beq] at h
      rename_i t' q'
      simp [h.1, qbeq_sound q q' h.2]
    | .inter qs, b, h => by
      cases b <;> simp [Query.beq] at h
      rename_i qs'
      simp [qbeqs_sound qs qs' h]
    | .union qs, b, h => by
      cases b <;> simp [Query.beq] at h
      rename_i qs'
      simp [qbeqs_sound qs qs' h]
  theorem qbeqs_sound : (as bs : List Query) → Query.beqs as bs = true → as = bs
    | [], [], _ => rfl
    | [], _ :: _, h => by simp [Query.beqs] at h
    | _ :: _, [], h => by simp [Query.beqs] at h
    | a :: as, b :: bs, h => by
      simp [Query.beqs] at h
      simp [qbeq_sound a b h.1, qbeqs_sound as bs h.2]
end

theorem litMatches_sound {l : Lit} {v : Val} (h : litMatches l v = true) : v = l.toVal := by
  cases l <;> cases v <;> simp [litMatches] at h <;> simp_all [Lit.toVal]
  exact (qbeq_sound _ _ h).symm

theorem VR_lit (l : Lit) : VR code l.toVal l.toVal := by
  cases l <;> simp [Lit.toVal] <;> constructor

theorem takeStores_spec : ∀ (k : Nat) (is : List Instr) (own : List Nat) (rest : List Instr),
    takeStores k is = some (own, rest) → is = own.reverse.map Instr.store ++ rest ∧ own.length = k
  | 0, is, own, rest, h => by
    simp [takeStores] at h
    obtain ⟨rfl, rfl⟩ := h
    simp
  | k + 1, [], own, rest, h => by simp [takeStores] at h
  | k + 1, i :: is, own, rest, h => by
    cases i <;> simp [takeStores] at h
    rename_i r
    cases hr : takeStores k is with
    | none => simp [hr] at h
    | some p =>
      obtain ⟨rs, rest'⟩ := p
      simp [hr] at h
      obtain ⟨rfl, rfl⟩ := h
      obtain ⟨h1, h2⟩ := takeStores_spec k is rs rest' hr
      simp [h1, h2]

end B6.Lemmas.VMLambda
