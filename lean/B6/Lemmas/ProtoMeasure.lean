import B6.Model.Proto.Basic
/-! Generic lemmas for termination measures of the protocol models (helper lemmas for `Props/C28.lean`). -/
namespace B6.Model.Proto

/-- the sum over a worker list after one worker moved from `a` to `b` -/
theorem sum_map_set' {α : Type} (f : α → Nat) : ∀ (l : List α) (i : Nat) (a b : α), l[i]? = some a →
    ((l.set i b).map f).sum + f a = (l.map f).sum + f b := by
  intro l
  induction l with
  | nil => intro i a b h; simp at h
  | cons x xs ih =>
    intro i a b h
    cases i with
    | zero =>
      simp only [List.getElem?_cons_zero, Option.some.injEq] at h; subst h
      simp only [List.set, List.map_cons, List.sum_cons]; omega
    | succ i =>
      simp only [List.getElem?_cons_succ] at h
      have := ih i a b h
      simp only [List.set, List.map_cons, List.sum_cons]; omega

/-- weight of the items `next … n-1` that the feeder has not handed out yet -/
def pending (w : Nat → Nat) (n next : Nat) : Nat := ((List.range (n - next)).map fun i => w (next + i)).sum

theorem pending_succ (w : Nat → Nat) {n next : Nat} (h : next < n) :
    pending w n next = w next + pending w n (next + 1) := by
  unfold pending
  have e : n - next = (n - (next + 1)) + 1 := by omega
  rw [e, List.range_succ_eq_map, List.map_cons, List.sum_cons, List.map_map]
  simp only [Nat.add_zero]
  congr 2
  apply List.map_congr_left
  intro i _
  simp only [Function.comp]
  congr 1; omega

/-- if every step decreases `m`, a schedule is no longer than `m` of its first state -/
theorem runSched_bounded {σ : Type} (step : σ → List σ) (m : σ → Nat)
    (hdec : ∀ s s', s' ∈ step s → m s' < m s) : ∀ (sched : List Nat) (s s' : σ),
    runSched step s sched = some s' → sched.length + m s' ≤ m s := by
  intro sched
  induction sched with
  | nil => intro s s' h; simp [runSched] at h; subst h; simp
  | cons a as ih =>
    intro s s' h
    simp only [runSched] at h
    split at h
    · next s1 hs1 =>
      have h1 := hdec s s1 (List.mem_of_getElem? hs1)
      have h2 := ih s1 s' h
      simp only [List.length_cons]; omega
    · cases h

def flag (b : Bool) : Nat := if b then 0 else 1

end B6.Model.Proto
