import B6.Lemmas.PostingAdvance
/-!
# Posting lists, part 4: `Iterator.Advance` refines "first id `≥` the target, at or after the cursor"

`advance_spec_started` / `advance_spec_start`: from a canonical state, `Advance (keyOf tbl T)`
* stays where it is when the current id is already `≥ T`;
* otherwise lands — in its canonical state — on the first remaining id that is not `< T`, or returns false
  (restoring the cursor) when there is none;
for every target `T` whose namespace is in the table (`TnOK`), whether or not that namespace occurs in the list.
-/
namespace B6.Model.Posting
open B6.Model.Varint

/-! ## `walkTN` -/

theorem walkTNAux_spec (nn : Nat) : ∀ (l : List NsIndex) (ns : Nat),
    ns ≤ walkTNAux nn l ns ∧ walkTNAux nn l ns ≤ ns + l.length ∧
    (∀ j, j < walkTNAux nn l ns - ns → ∃ e, l[j]? = some e ∧ e.1 < nn) ∧
    (∀ e, l[walkTNAux nn l ns - ns]? = some e → ¬ e.1 < nn) := by
  intro l
  induction l with
  | nil => intro ns; simp [walkTNAux]
  | cons e rest ih =>
    intro ns
    unfold walkTNAux
    by_cases h : e.1 < nn
    · rw [if_pos h]
      obtain ⟨h1, h2, h3, h4⟩ := ih (ns + 1)
      refine ⟨by omega, by simp only [List.length_cons]; omega, ?_, ?_⟩
      · intro j hj
        cases j with
        | zero => exact ⟨e, rfl, h⟩
        | succ j =>
          obtain ⟨e', he', hlt⟩ := h3 j (by omega)
          exact ⟨e', by simpa using he', hlt⟩
      · intro e' he'
        have : walkTNAux nn rest (ns + 1) - ns = (walkTNAux nn rest (ns + 1) - (ns + 1)) + 1 := by omega
        rw [this] at he'
        simp only [List.getElem?_cons_succ] at he'
        exact h4 e' he'
    · rw [if_neg h]
      refine ⟨Nat.le_refl _, by omega, fun j hj => by omega, ?_⟩
      intro e' he'
      simp only [Nat.sub_self, List.getElem?_cons_zero, Option.some.injEq] at he'
      subst he'; exact h

theorem walkTN_spec (nss : List NsIndex) (nn k0 : Nat) :
    k0 ≤ walkTN nss nn k0 ∧
    (∀ j, k0 ≤ j → j < walkTN nss nn k0 → ∃ e, nss[j]? = some e ∧ e.1 < nn) ∧
    (∀ e, nss[walkTN nss nn k0]? = some e → ¬ e.1 < nn) := by
  unfold walkTN
  obtain ⟨h1, h2, h3, h4⟩ := walkTNAux_spec nn (nss.drop k0) k0
  refine ⟨h1, ?_, ?_⟩
  · intro j hj1 hj2
    obtain ⟨e, he, hlt⟩ := h3 (j - k0) (by omega)
    rw [List.getElem?_drop] at he
    have : k0 + (j - k0) = j := by omega
    rw [this] at he
    exact ⟨e, he, hlt⟩
  · intro e he
    apply h4 e
    rw [List.getElem?_drop]
    have : k0 + (walkTNAux nn (nss.drop k0) k0 - k0) = walkTNAux nn (nss.drop k0) k0 := by omega
    rw [this]; exact he

/-! ## namespaces of the ids of a layout -/

theorem lay_mem_ns {full : Bytes} {nss : List NsIndex} : ∀ (l : List Id) (p prev k : Nat),
    Lay full nss p prev k l → ∀ x ∈ l, ∃ kx idx, k ≤ kx ∧ nss[kx]? = some (x.1, idx) := by
  intro l
  induction l with
  | nil => intro p prev k _ x hx; simp at hx
  | cons id rest ih =>
    intro p prev k h x hx
    unfold Lay at h
    obtain ⟨_, h⟩ := h
    rcases h with ⟨_, _, _, _, ⟨idx0, hk, _⟩, _, hrest⟩ | ⟨k', hkk, _, _, _, ⟨idx, hk', _⟩, _, hrest⟩
    · rcases List.mem_cons.1 hx with hx | hx
      · subst hx; exact ⟨k, idx0, Nat.le_refl _, hk⟩
      · exact ih _ _ _ hrest x hx
    · rcases List.mem_cons.1 hx with hx | hx
      · subst hx; exact ⟨k', idx, hkk, hk'⟩
      · obtain ⟨kx, idxx, h1, h2⟩ := ih _ _ _ hrest x hx
        exact ⟨kx, idxx, by omega, h2⟩

theorem nss_mono {nss : List NsIndex} (hs : NssSorted nss) {j1 j2 : Nat} {e1 e2 : NsIndex}
    (h1 : nss[j1]? = some e1) (h2 : nss[j2]? = some e2) (hle : j1 ≤ j2) : e1.2 ≤ e2.2 := by
  obtain ⟨hl1, he1⟩ := List.getElem?_eq_some_iff.1 h1
  obtain ⟨hl2, he2⟩ := List.getElem?_eq_some_iff.1 h2
  by_cases heq : j1 = j2
  · subst heq
    rw [h1] at h2; simp only [Option.some.injEq] at h2; rw [h2]; exact Nat.le_refl _
  · have := List.pairwise_iff_getElem.1 hs j1 j2 hl1 hl2 (by omega)
    rw [he1, he2] at this
    omega

theorem nss_lt_of_idx_lt {nss : List NsIndex} (hs : NssSorted nss) {j1 j2 : Nat} {e1 e2 : NsIndex}
    (h1 : nss[j1]? = some e1) (h2 : nss[j2]? = some e2) (hlt : e1.2 < e2.2) : j1 < j2 := by
  apply Classical.byContradiction
  intro hn
  have := nss_mono hs h2 h1 (by omega)
  omega

/-- the namespace index whose range contains byte `q` is unique -/
theorem ns_unique {nss : List NsIndex} (hs : NssSorted nss) {q k1 k2 : Nat} {e1 e2 : NsIndex}
    (h1 : nss[k1]? = some e1) (hq1 : e1.2 ≤ q) (hn1 : ∀ e, nss[k1 + 1]? = some e → q < e.2)
    (h2 : nss[k2]? = some e2) (hq2 : e2.2 ≤ q) (hn2 : ∀ e, nss[k2 + 1]? = some e → q < e.2) : k1 = k2 := by
  have hl1 := (List.getElem?_eq_some_iff.1 h1).1
  have hl2 := (List.getElem?_eq_some_iff.1 h2).1
  apply Classical.byContradiction
  intro hne
  rcases Nat.lt_or_gt_of_ne hne with h | h
  · have hl : k1 + 1 < nss.length := by omega
    have h3 : nss[k1 + 1]? = some nss[k1 + 1] := List.getElem?_eq_getElem hl
    have := hn1 _ h3
    have := nss_mono hs h3 h2 (by omega)
    omega
  · have hl : k2 + 1 < nss.length := by omega
    have h3 : nss[k2 + 1]? = some nss[k2 + 1] := List.getElem?_eq_getElem hl
    have := hn2 _ h3
    have := nss_mono hs h3 h1 (by omega)
    omega

/-! ## `dropWhile` / `takeWhile` bookkeeping -/

theorem dw_all {α : Type} (p : α → Bool) : ∀ (a l : List α), (∀ x ∈ a, p x = true) →
    (a ++ l).dropWhile p = l.dropWhile p ∧ (a ++ l).takeWhile p = a ++ l.takeWhile p := by
  intro a
  induction a with
  | nil => intro l _; exact ⟨rfl, rfl⟩
  | cons x a ih =>
    intro l h
    have hx := h x (by simp)
    obtain ⟨h1, h2⟩ := ih l (fun y hy => h y (by simp [hy]))
    refine ⟨?_, ?_⟩
    · rw [List.cons_append, List.dropWhile_cons, if_pos hx, h1]
    · rw [List.cons_append, List.takeWhile_cons, if_pos hx, h2]; rfl

theorem dw_stop {α : Type} (p : α → Bool) (y : α) (c : List α) (hy : p y = false) :
    (y :: c).dropWhile p = y :: c ∧ (y :: c).takeWhile p = [] := by
  refine ⟨?_, ?_⟩
  · rw [List.dropWhile_cons]; simp [hy]
  · rw [List.takeWhile_cons]; simp [hy]

theorem dw_nil {α : Type} (p : α → Bool) (l : List α) (h : ∀ x ∈ l, p x = true) : l.dropWhile p = [] := by
  have := (dw_all p l [] h).1
  simpa using this

/-- two ways of cutting the same list after prefixes that satisfy `p` give the same first failing element -/
theorem dw_two {α : Type} (p : α → Bool) {a1 l1 a2 l2 : List α} (h : a1 ++ l1 = a2 ++ l2)
    (h1 : ∀ x ∈ a1, p x = true) (h2 : ∀ x ∈ a2, p x = true) :
    l1.dropWhile p = l2.dropWhile p ∧ a1 ++ l1.takeWhile p = a2 ++ l2.takeWhile p := by
  obtain ⟨d1, t1⟩ := dw_all p a1 l1 h1
  obtain ⟨d2, t2⟩ := dw_all p a2 l2 h2
  refine ⟨?_, ?_⟩
  · rw [← d1, ← d2, h]
  · rw [← t1, ← t2, h]

/-! ## the result of `Advance`, stated on lists -/

/-- `res` is what `Advance(T)` must answer when the ids `done` (all `< T`) are behind the cursor `it0` and `l`
are ahead: land on the first id of `l` that is not `< T`, in its canonical state — or answer false and leave
the cursor where it was. -/
def AdvSpec (pl : PostingList) (ids : List Id) (T : Id) (res : Except Err (Bool × It)) (it0 : It)
    (done l : List Id) : Prop :=
  (∀ x hi, l.dropWhile (fun x => decide (idLt x T)) = x :: hi →
    ∃ it', res = .ok (true, it') ∧ cur pl it' = .ok x ∧
      Canon pl ids it' (done ++ l.takeWhile (fun x => decide (idLt x T)) ++ [x]) hi) ∧
  (l.dropWhile (fun x => decide (idLt x T)) = [] → res = .ok (false, it0))

/-- from the scan loop (started anywhere behind the first id `≥ T`) to the answer of `Advance` -/
theorem advSpec_of_scan {pl : PostingList} {tbl : Table} {ids : List Id} {T : Id} {itS it0 : It} {fuel : Nat}
    {aB lB done0 rest0 : List Id}
    (hs : ScanSpec pl tbl ids T itS fuel aB lB) (h1 : ids = aB ++ lB) (h2 : ids = done0 ++ rest0)
    (ha : ∀ x ∈ aB, idLt x T) (hd : ∀ x ∈ done0, idLt x T) :
    AdvSpec pl ids T (scanResult it0 (scan pl tbl (keyOf tbl T) fuel itS)) it0 done0 rest0 := by
  have heq : aB ++ lB = done0 ++ rest0 := by rw [← h1, ← h2]
  obtain ⟨hdw, htw⟩ := dw_two (fun x => decide (idLt x T)) heq
    (fun x hx => by simpa using ha x hx) (fun x hx => by simpa using hd x hx)
  refine ⟨?_, ?_⟩
  · intro x hi hx
    rw [← hdw] at hx
    obtain ⟨it', h3, h4, h5⟩ := hs.1 x hi hx
    refine ⟨it', by rw [h3]; rfl, h4, ?_⟩
    rw [← htw]; exact h5
  · intro hx
    rw [← hdw] at hx
    rw [hs.2 hx]; rfl

/-! ## pieces of `Advance` -/

theorem advanceSearch_eq (p : PostingList) (t : Table) (key : Key) (it : It) (ns : Nat) (e : NsIndex)
    (start j : Nat) (hstart : start = (if ns ≠ it.ns then e.2 else it.i) / 64)
    (hj : search (nsEndBlock p ns - start) (blockPred p.ids start key.value) = .ok j) :
    advanceSearch p t key it ns e =
      scanResult it (scan p t key (p.ids.length + 1)
        { it with i := if j > 0 then (j + start - 1) * 64 else (j + start) * 64 }) := by
  subst hstart
  unfold advanceSearch
  dsimp only
  rw [hj]

theorem done_lt_target {ids done0 rest0 : List Id} {c T : Id} (hs : SortedIds ids) (hsplit : ids = done0 ++ rest0)
    (hl : done0.getLast? = some c) (hcT : idLt c T) : ∀ x ∈ done0, idLt x T := by
  intro x hx
  have hd : done0.dropLast ++ [c] = done0 := by
    have hne : done0 ≠ [] := by intro h0; rw [h0] at hl; simp at hl
    have := List.dropLast_concat_getLast hne
    rw [List.getLast?_eq_some_getLast hne] at hl
    simp only [Option.some.injEq] at hl
    rw [hl] at this; exact this
  rw [← hd] at hx
  rcases List.mem_append.1 hx with h | h
  · have hs' : SortedIds (done0.dropLast ++ ([c] ++ rest0)) := by
      rw [← List.append_assoc, hd, ← hsplit]; exact hs
    have := sorted_split hs' x h c (by simp)
    exact idLt_trans this hcT
  · simp only [List.mem_singleton] at h
    subst h; exact hcT

/-- the first id of a namespace entry beyond the cursor's: found in `rest0`, everything before it is `< T`
when all the namespace entries in between have a smaller `TypeAndNamespace` -/
theorem ns_start {pl : PostingList} {tbl : Table} {ids : List Id} (ctx : Ctx pl tbl ids)
    {it : It} {done0 rest0 : List Id} {c : Id} (hc : Canon pl ids it done0 rest0) (hl : done0.getLast? = some c)
    {T : Id} {ns : Nat} {e : NsIndex} (he : pl.header.namespaces[ns]? = some e) (hlt : it.ns < ns)
    (hwalk : ∀ j, it.ns ≤ j → j < ns → ∃ e', pl.header.namespaces[j]? = some e' ∧ e'.1 < T.1) :
    ∃ a' id' c', rest0 = a' ++ id' :: c' ∧ AtBlock pl.ids pl.header.namespaces e.2 ns id' c' ∧
      (∀ x ∈ a', idLt x T) := by
  have hmem := List.mem_of_getElem? he
  have hal := ctx.aligned e hmem
  have hin := ctx.inRange e hmem
  have hlen := (List.getElem?_eq_some_iff.1 he).1
  have h1 : pl.header.namespaces[it.ns + 1]? = some pl.header.namespaces[it.ns + 1] :=
    List.getElem?_eq_getElem (by omega)
  have hi1 := hc.nextNs c hl _ h1
  have hi2 := nss_mono ctx.sortedNs h1 he (by omega)
  have hq : 64 * (e.2 / 64) = e.2 := by omega
  obtain ⟨a', id', c', k'', hsplit, hk'', hat, hbef⟩ :=
    lay_blocks rest0 it.i it.value it.ns hc.lay (e.2 / 64) (by omega) (by omega)
  rw [hq] at hat hbef
  have hat' := hat
  obtain ⟨_, _, _, ⟨idx'', hk2, hidx2⟩, hnext2, _⟩ := hat'
  have hnextns : ∀ e', pl.header.namespaces[ns + 1]? = some e' → e.2 < e'.2 := by
    intro e' he'
    have hl' := (List.getElem?_eq_some_iff.1 he').1
    have := List.pairwise_iff_getElem.1 ctx.sortedNs ns (ns + 1) hlen hl' (by omega)
    obtain ⟨_, h3⟩ := List.getElem?_eq_some_iff.1 he
    obtain ⟨_, h4⟩ := List.getElem?_eq_some_iff.1 he'
    rw [h3, h4] at this; exact this
  have hkeq : k'' = ns := ns_unique ctx.sortedNs hk2 hidx2 hnext2 he (Nat.le_refl _) hnextns
  subst hkeq
  refine ⟨a', id', c', hsplit, hat, ?_⟩
  intro x hx
  obtain ⟨kx, idx, h1', h2', h3'⟩ := hbef x hx
  have hkx : kx < k'' := nss_lt_of_idx_lt ctx.sortedNs h2' he h3'
  obtain ⟨e', he', hlt'⟩ := hwalk kx h1' hkx
  rw [h2'] at he'
  simp only [Option.some.injEq] at he'
  subst he'
  unfold idLt; left; exact hlt'

/-- reading the first varint of a block -/
theorem atBlock_first {full : Bytes} {nss : List NsIndex} {q k' : Nat} {id : Id} {rest : List Id}
    (hat : AtBlock full nss q k' id rest) :
    uvarintRaw (full.drop q) = (id.2, ((putUvarint id.2).length : Int)) := by
  obtain ⟨_, hv, ⟨post, hp⟩, _⟩ := hat
  rw [← hp]; exact uvarintRaw_putUvarint_append id.2 hv post

theorem take_prefix_mem {ids aB tailB done0 rest0 : List Id} (h1 : ids = aB ++ tailB) (h2 : ids = done0 ++ rest0)
    (hlen : aB.length < done0.length) : ∀ x ∈ aB, x ∈ done0 := by
  intro x hx
  have e1 : ids.take aB.length = aB := by rw [h1]; simp
  have e2 : ids.take aB.length = done0.take aB.length := by
    rw [h2, List.take_append_of_le_length (by omega)]
  rw [e1] at e2
  rw [e2] at hx
  exact List.mem_of_mem_take hx

/-- **the binary-search branch of `Advance`** (the target's namespace has an entry `ns` in the list) -/
theorem advanceSearch_spec {pl : PostingList} {tbl : Table} {ids : List Id} (ctx : Ctx pl tbl ids)
    {it : It} {done0 rest0 : List Id} {c : Id} (hc : Canon pl ids it done0 rest0) (hl : done0.getLast? = some c)
    {T : Id} (hT : TnOK tbl T.1) (hcT : idLt c T)
    {ns : Nat} {e : NsIndex} (he : pl.header.namespaces[ns]? = some e) (heT : e.1 = T.1) (hns : it.ns ≤ ns)
    (hwalk : ∀ j, it.ns ≤ j → j < ns → ∃ e', pl.header.namespaces[j]? = some e' ∧ e'.1 < T.1) :
    AdvSpec pl ids T (advanceSearch pl tbl (keyOf tbl T) it ns e) it done0 rest0 := by
  have hdoneT := done_lt_target ctx.sorted hc.split hl hcT
  obtain ⟨hval, ⟨idxc, hkc, hidxc⟩, hipos⟩ := hc.cur c hl
  have hlenr := lay_length rest0 it.i it.value it.ns hc.lay
  have hmem := List.mem_of_getElem? he
  have hal := ctx.aligned e hmem
  have hin := ctx.inRange e hmem
  have hnslen := (List.getElem?_eq_some_iff.1 he).1
  have hkv : (keyOf tbl T).value = T.2 := rfl
  -- the block range
  obtain ⟨start, hstart⟩ : ∃ s, s = (if ns ≠ it.ns then e.2 else it.i) / 64 := ⟨_, rfl⟩
  have hstart_le : e.2 ≤ 64 * start := by
    rw [hstart]
    by_cases hne : ns ≠ it.ns
    · rw [if_pos hne]; omega
    · rw [if_neg hne]
      have : ns = it.ns := by omega
      subst this
      rw [hkc] at he
      simp only [Option.some.injEq] at he
      have : idxc = e.2 := by rw [← he]
      omega
  have hend_lt : ∀ b, b < nsEndBlock pl ns → 64 * b < pl.ids.length ∧
      (∀ e', pl.header.namespaces[ns + 1]? = some e' → 64 * b < e'.2) := by
    intro b hb
    unfold nsEndBlock at hb
    cases hnx : pl.header.namespaces[ns + 1]? with
    | none =>
      rw [hnx] at hb
      simp only at hb
      exact ⟨by omega, fun e' he' => by simp at he'⟩
    | some e1 =>
      rw [hnx] at hb
      simp only at hb
      have := ctx.inRange e1 (List.mem_of_getElem? hnx)
      refine ⟨by omega, fun e' he' => ?_⟩
      simp only [Option.some.injEq] at he'
      subst he'; omega
  have hpred : ∀ h, h < nsEndBlock pl ns - start → ∃ b, blockPred pl.ids start (keyOf tbl T).value h = .ok b := by
    intro h hh
    have := (hend_lt (h + start) (by omega)).1
    unfold blockPred
    rw [if_neg (by omega)]
    exact ⟨_, rfl⟩
  obtain ⟨j, hj, hjn, hjf⟩ := search_spec _ _ hpred
  rw [advanceSearch_eq pl tbl (keyOf tbl T) it ns e start j hstart hj]
  -- where the scan starts, and what lies before
  have hnextns : ∀ e', pl.header.namespaces[ns + 1]? = some e' → e.2 < e'.2 := by
    intro e' he'
    have hl' := (List.getElem?_eq_some_iff.1 he').1
    have := List.pairwise_iff_getElem.1 ctx.sortedNs ns (ns + 1) hnslen hl' (by omega)
    obtain ⟨_, h3⟩ := List.getElem?_eq_some_iff.1 he
    obtain ⟨_, h4⟩ := List.getElem?_eq_some_iff.1 he'
    rw [h3, h4] at this; exact this
  by_cases hj0 : j > 0
  · -- the block before the first block whose first value is ≥ the target
    rw [if_pos hj0]
    have hb := hend_lt (j + start - 1) (by omega)
    obtain ⟨aB, idB, cB, k', hsplit, _, hat, _⟩ :=
      lay_blocks ids 0 0 0 ctx.lay (j + start - 1) (Nat.zero_le _) hb.1
    have hat' := hat
    obtain ⟨_, _, _, ⟨idx', hk2, hidx2⟩, hnext2, hrestB⟩ := hat'
    have hkeq : k' = ns :=
      ns_unique ctx.sortedNs hk2 hidx2 hnext2 he (by omega) (fun e' he' => hb.2 e' he')
    subst hkeq
    rw [hk2] at he
    simp only [Option.some.injEq] at he
    have hidB1 : idB.1 = T.1 := by rw [← heT, ← he]
    -- the predicate was false on that block: its first value is < the target's
    have hfalse := hjf hj0
    unfold blockPred at hfalse
    have hpos : j - 1 + start = j + start - 1 := by omega
    rw [hpos, if_neg (by omega)] at hfalse
    have hmul : (j + start - 1) * 64 = 64 * (j + start - 1) := Nat.mul_comm _ _
    rw [hmul, atBlock_first hat] at hfalse
    simp only [Except.ok.injEq, decide_eq_false_iff_not, hkv] at hfalse
    have hidBT : idLt idB T := by unfold idLt; right; exact ⟨hidB1, by omega⟩
    have haB : ∀ x ∈ aB, idLt x T := by
      intro x hx
      have hs' : SortedIds (aB ++ idB :: cB) := by rw [← hsplit]; exact ctx.sorted
      exact idLt_trans (sorted_split hs' x hx idB (by simp)) hidBT
    have hlenB := lay_length cB _ _ _ hrestB
    have hn1 := putUvarint_length_pos idB.2
    have hsc := scan_atBlock ctx hT hsplit hat it.ns it.value hns (pl.ids.length + 1) (by omega)
    rw [hmul]
    exact advSpec_of_scan hsc hsplit hc.split haB hdoneT
  · have hj0' : j = 0 := by omega
    subst hj0'
    rw [if_neg (by omega)]
    by_cases hne : ns ≠ it.ns
    · -- first block of the target's namespace
      have hs64 : (0 + start) * 64 = e.2 := by
        rw [hstart, if_pos hne]; omega
      rw [hs64]
      obtain ⟨a', id', c', hsplit', hat, ha'⟩ := ns_start ctx hc hl he (by omega) hwalk
      have hsplit : ids = (done0 ++ a') ++ id' :: c' := by
        rw [hc.split, hsplit']; simp
      have haB : ∀ x ∈ done0 ++ a', idLt x T := by
        intro x hx
        rcases List.mem_append.1 hx with h | h
        · exact hdoneT x h
        · exact ha' x h
      have hlenB := lay_length c' _ _ _ hat.2.2.2.2.2
      have hn1 := putUvarint_length_pos id'.2
      have hsc := scan_atBlock ctx hT hsplit hat it.ns it.value hns (pl.ids.length + 1) (by omega)
      exact advSpec_of_scan hsc hsplit hc.split haB hdoneT
    · have hnseq : ns = it.ns := by omega
      have hst : start = it.i / 64 := by rw [hstart, if_neg hne]
      by_cases h64 : it.i % 64 = 0
      · -- the cursor already stands on a block start: scan from the canonical state
        have : (0 + start) * 64 = it.i := by omega
        rw [this]
        have hsc := scan_canon ctx hT rest0 done0 it (pl.ids.length + 1) hc (by omega)
        exact advSpec_of_scan hsc hc.split hc.split hdoneT hdoneT
      · -- scan again from the start of the cursor's block
        obtain ⟨aB, idB, cB, hsplit, hat, hlenlt⟩ := hc.block c hl h64
        have : (0 + start) * 64 = it.i / 64 * 64 := by omega
        rw [this]
        have haB : ∀ x ∈ aB, idLt x T :=
          fun x hx => hdoneT x (take_prefix_mem hsplit hc.split hlenlt x hx)
        have hlenB := lay_length cB _ _ _ hat.2.2.2.2.2
        have hn1 := putUvarint_length_pos idB.2
        have hsc := scan_atBlock ctx hT hsplit hat it.ns it.value (Nat.le_refl _) (pl.ids.length + 1) (by omega)
        exact advSpec_of_scan hsc hsplit hc.split haB hdoneT

/-- **`Advance` from a started cursor** (current id `c`): stays put when `T ≤ c`; otherwise `AdvSpec`. -/
theorem advanceFrom_spec {pl : PostingList} {tbl : Table} {ids : List Id} (ctx : Ctx pl tbl ids)
    {it : It} {done0 rest0 : List Id} {c : Id} (hc : Canon pl ids it done0 rest0) (hl : done0.getLast? = some c)
    {T : Id} (hT : TnOK tbl T.1) :
    (¬ idLt c T → advanceFrom true pl tbl (keyOf tbl T) it = .ok (true, it)) ∧
    (idLt c T → AdvSpec pl ids T (advanceFrom true pl tbl (keyOf tbl T) it) it done0 rest0) := by
  have hcmem : c ∈ ids := by
    rw [hc.split]; exact List.mem_append_left _ (List.mem_of_getLast? hl)
  have hcT' : TnOK tbl c.1 := ctx.tnOK c hcmem
  have hfid : featureID pl tbl it = .ok (keyOf tbl c) := by
    unfold featureID; rw [canon_cur hc hl]; exact decodeId_ok hcT'
  have hless : (keyOf tbl T).less (keyOf tbl c) = decide (idLt T c) := less_keyOf ctx.tblOK hT hcT'
  have hkeq : (keyOf tbl T = keyOf tbl c) ↔ T = c := keyOf_inj ctx.tblOK hT hcT'
  refine ⟨?_, ?_⟩
  · intro hn
    have hcond : ((keyOf tbl T).less (keyOf tbl c) || decide (keyOf tbl T = keyOf tbl c)) = true := by
      rcases not_idLt hn with h | h
      · have : keyOf tbl T = keyOf tbl c := hkeq.2 h
        simp [this]
      · rw [hless]; simp [h]
    unfold advanceFrom
    rw [hfid]
    dsimp only
    rw [if_pos hcond]
  · intro hcT
    have hcond : ¬ (((keyOf tbl T).less (keyOf tbl c) || decide (keyOf tbl T = keyOf tbl c)) = true) := by
      have h1 : ¬ idLt T c := by unfold idLt at *; omega
      have h2 : ¬ keyOf tbl T = keyOf tbl c := by
        intro h; have := hkeq.1 h; subst this; exact idLt_irrefl _ hcT
      rw [hless]; simp [h1, h2]
    obtain ⟨henc, hcomb⟩ := encode_keyOf ctx.tblOK hT
    obtain ⟨hval, ⟨idxc, hkc, hidxc⟩, hipos⟩ := hc.cur c hl
    obtain ⟨hw1, hw2, hw3⟩ := walkTN_spec pl.header.namespaces T.1 it.ns
    have hc1 : c.1 ≤ T.1 := by unfold idLt at hcT; omega
    unfold advanceFrom
    rw [hfid]
    dsimp only
    rw [if_neg hcond, henc]
    dsimp only
    rw [hcomb]
    cases hns : pl.header.namespaces[walkTN pl.header.namespaces T.1 it.ns]? with
    | none =>
      -- every remaining namespace is smaller than the target's
      dsimp only
      have hall : ∀ x ∈ rest0, decide (idLt x T) = true := by
        intro x hx
        obtain ⟨kx, idx, h1, h2⟩ := lay_mem_ns rest0 _ _ _ hc.lay x hx
        have hkxlen := (List.getElem?_eq_some_iff.1 h2).1
        have hnone : pl.header.namespaces.length ≤ walkTN pl.header.namespaces T.1 it.ns := by
          rw [List.getElem?_eq_none_iff] at hns; exact hns
        obtain ⟨e', he', hlt'⟩ := hw2 kx h1 (by omega)
        rw [h2] at he'
        simp only [Option.some.injEq] at he'
        subst he'
        simp only [decide_eq_true_eq]
        unfold idLt; left; exact hlt'
      have hdw := dw_nil _ rest0 hall
      exact ⟨fun x hi hx => by rw [hdw] at hx; simp at hx, fun _ => rfl⟩
    | some e =>
      dsimp only
      have hnotlt := hw3 e hns
      by_cases hgt : e.1 > T.1
      · -- a namespace absent from the list: land on the first id of the next namespace present
        rw [if_pos hgt]
        have hnsne : it.ns < walkTN pl.header.namespaces T.1 it.ns := by
          apply Classical.byContradiction
          intro hh
          have : walkTN pl.header.namespaces T.1 it.ns = it.ns := by omega
          rw [this, hkc] at hns
          simp only [Option.some.injEq] at hns
          have : c.1 = e.1 := by rw [← hns]
          omega
        obtain ⟨a', id', c', hsplit', hat, ha'⟩ := ns_start ctx hc hl hns hnsne hw2
        have hin := ctx.inRange e (List.mem_of_getElem? hns)
        rw [if_neg (by omega), atBlock_first hat]
        have hn1 := putUvarint_length_pos id'.2
        have hnle : ¬ ((putUvarint id'.2).length : Int) ≤ 0 := by omega
        simp only [if_true, hnle, if_false, Int.toNat_natCast]
        have hsplit : ids = (done0 ++ a') ++ id' :: c' := by
          rw [hc.split, hsplit']; simp
        obtain ⟨_, hcur, hcanon⟩ := atBlock_canon ctx hsplit hat it.ns it.value (by omega)
        have hid'1 : id'.1 = e.1 := by
          obtain ⟨_, _, _, ⟨idx', hk2, _⟩, _, _⟩ := hat
          rw [hns] at hk2
          simp only [Option.some.injEq] at hk2
          rw [hk2]
        have hnot : decide (idLt id' T) = false := by
          simp only [decide_eq_false_iff_not]; unfold idLt; omega
        obtain ⟨hd1, ht1⟩ := dw_all (fun x => decide (idLt x T)) a' (id' :: c') (fun x hx => by simpa using ha' x hx)
        obtain ⟨hd2, ht2⟩ := dw_stop (fun x => decide (idLt x T)) id' c' hnot
        refine ⟨?_, ?_⟩
        · intro x hi hx
          rw [hsplit', hd1, hd2] at hx
          simp only [List.cons.injEq] at hx
          obtain ⟨hx1, hx2⟩ := hx
          subst hx1; subst hx2
          refine ⟨_, rfl, hcur, ?_⟩
          rw [hsplit', ht1, ht2]
          simpa [List.append_assoc] using hcanon
        · intro hx
          rw [hsplit', hd1, hd2] at hx
          simp at hx
      · rw [if_neg hgt]
        exact advanceSearch_spec ctx hc hl hT hcT hns (by omega) hw1 hw2

/-- **`Advance` from any canonical state**, for every target `T` whose namespace is in the table. -/
theorem advance_spec {pl : PostingList} {tbl : Table} {ids : List Id} (ctx : Ctx pl tbl ids)
    {it : It} {done0 rest0 : List Id} (hc : Canon pl ids it done0 rest0) {T : Id} (hT : TnOK tbl T.1) :
    (∀ c, done0.getLast? = some c → ¬ idLt c T → advance pl tbl (keyOf tbl T) it = .ok (true, it)) ∧
    ((∀ c, done0.getLast? = some c → idLt c T) →
      ∃ it1, AdvSpec pl ids T (advance pl tbl (keyOf tbl T) it) it1 done0 rest0) := by
  refine ⟨?_, ?_⟩
  · intro c hl hn
    have hpos := (hc.cur c hl).2.2
    unfold advance advanceWith
    rw [if_neg (by omega)]
    dsimp only
    exact (advanceFrom_spec ctx hc hl hT).1 hn
  · intro hlt
    cases hd : done0.getLast? with
    | some c =>
      have hpos := (hc.cur c hd).2.2
      refine ⟨it, ?_⟩
      unfold advance advanceWith
      rw [if_neg (by omega)]
      dsimp only
      exact (advanceFrom_spec ctx hc hd hT).2 (hlt c hd)
    | none =>
      -- not started: `Advance` calls `Next` first
      have hnil : done0 = [] := List.getLast?_eq_none_iff.1 hd
      subst hnil
      have hstart := hc.start rfl
      subst hstart
      cases hr : rest0 with
      | nil =>
        subst hr
        refine ⟨It.start, ?_⟩
        unfold advance advanceWith
        rw [if_pos (show It.start.i = 0 from rfl), canon_end hc]
        exact ⟨fun x hi hx => by simp at hx, fun _ => rfl⟩
      | cons id1 rest1 =>
        subst hr
        obtain ⟨it1, hn, hcur1, hc1⟩ := canon_next ctx hc
        refine ⟨it1, ?_⟩
        unfold advance advanceWith
        rw [if_pos (show It.start.i = 0 from rfl), hn]
        dsimp only
        have hl1 : ([] ++ [id1] : List Id).getLast? = some id1 := by simp
        obtain ⟨hstay, hmove⟩ := advanceFrom_spec ctx hc1 hl1 hT
        by_cases hlt1 : idLt id1 T
        · have hsp := hmove hlt1
          obtain ⟨hd1, ht1⟩ := dw_all (fun x => decide (idLt x T)) [id1] rest1 (fun x hx => by
            simp only [List.mem_singleton] at hx; subst hx; simpa using hlt1)
          refine ⟨?_, ?_⟩
          · intro x hi hx
            rw [show id1 :: rest1 = [id1] ++ rest1 from rfl, hd1] at hx
            obtain ⟨it', h1, h2, h3⟩ := hsp.1 x hi hx
            refine ⟨it', h1, h2, ?_⟩
            rw [show id1 :: rest1 = [id1] ++ rest1 from rfl, ht1]
            simpa [List.append_assoc] using h3
          · intro hx
            rw [show id1 :: rest1 = [id1] ++ rest1 from rfl, hd1] at hx
            exact hsp.2 hx
        · have hnot : decide (idLt id1 T) = false := by simpa using hlt1
          obtain ⟨hd2, ht2⟩ := dw_stop (fun x => decide (idLt x T)) id1 rest1 hnot
          refine ⟨?_, ?_⟩
          · intro x hi hx
            rw [hd2] at hx
            simp only [List.cons.injEq] at hx
            obtain ⟨hx1, hx2⟩ := hx
            subst hx1; subst hx2
            refine ⟨it1, hstay hlt1, hcur1, ?_⟩
            rw [ht2]
            simpa using hc1
          · intro hx
            rw [hd2] at hx
            simp at hx

end B6.Model.Posting
