import B6.Model.Simplify
import B6.Lemmas.InterpFuel
import B6.Lemmas.VMRel
/-!
C22 `simplify_preserves_lambda_free`, part 1: function values of lambda-free programs are chains of
partial applications over a builtin (`FnLike`); the simulation `Sim` between values (queries up to
`canon`, no more partial-application layers on the simplified side); the builtin table respects it
(`convert_sim`, `step_sim`).
-/
namespace B6.Lemmas.SimplifyFO
open B6.Model B6.Lemmas.InterpFuel

/-! ### function values of lambda-free programs, and the simulation between values

A function value of a lambda-free program is a chain of partial applications over a builtin:
`FnLike v b L` — `v` denotes builtin `b` with the trailing arguments `L` already bound.  `Sim v' v`:
`v'` is `v` up to canonical form of queries and with no more partial-application layers. -/

def depth : Val → Nat
  | .part g _ _ => depth g + 1
  | _ => 0

inductive FnLike : Val → Builtin → List Val → Prop
  | base (b : Builtin) : FnLike (.builtin b) b []
  | part {g : Val} {b : Builtin} {L bs : List Val} : FnLike g b L → bs.length + L.length < b.arity →
      FnLike (.part g bs []) b (bs ++ L)

mutual
  inductive Sim : Val → Val → Prop
    | int (i : Int) : Sim (.int i) (.int i)
    | str (s : String) : Sim (.str s) (.str s)
    | other (k t : String) : Sim (.other k t) (.other k t)
    | query {q' q : Query} : q'.canon = q.canon → Sim (.query q') (.query q)
    | pair {a' a b' b : Val} : Sim a' a → Sim b' b → Sim (.pair a' b') (.pair a b)
    | fn {v' v : Val} {b : Builtin} {L' L : List Val} : FnLike v' b L' → FnLike v b L → Sims L' L →
        depth v' ≤ depth v → (b.variadic.isSome = true → depth v = depth v') → Sim v' v
  inductive Sims : List Val → List Val → Prop
    | nil : Sims [] []
    | cons {a' a : Val} {as' as : List Val} : Sim a' a → Sims as' as → Sims (a' :: as') (a :: as)
end

theorem Sims_length : ∀ {as' as : List Val}, Sims as' as → as'.length = as.length
  | [], _, h => by cases h; rfl
  | _ :: _, _, h => by cases h with | cons _ h2 => simp [Sims_length h2]

theorem Sims_append : ∀ {as' as bs' bs : List Val}, Sims as' as → Sims bs' bs → Sims (as' ++ bs') (as ++ bs)
  | [], _, _, _, h, hb => by cases h; exact hb
  | _ :: _, _, _, _, h, hb => by cases h with | cons h1 h2 => exact .cons h1 (Sims_append h2 hb)

theorem FnLike.arity : ∀ {v : Val} {b : Builtin} {L : List Val}, FnLike v b L →
    v.arity = some (b.arity - L.length) ∧ L.length ≤ b.arity
  | _, _, _, .base b => by simp [Val.arity]
  | _, _, _, .part (g := g) (bs := bs) (L := L) hg hlt => by
    obtain ⟨h1, h2⟩ := FnLike.arity hg
    simp only [Val.arity, h1, Option.map_some, List.length_append]
    exact ⟨by congr 1; omega, by omega⟩

theorem FnLike.callable {v : Val} {b : Builtin} {L : List Val} (h : FnLike v b L) : v.isCallable = true := by
  cases h <;> rfl

theorem FnLike.det : ∀ {v : Val} {b b2 : Builtin} {L L2 : List Val}, FnLike v b L → FnLike v b2 L2 → b = b2 ∧ L = L2
  | _, _, _, _, _, .base b, h2 => by cases h2; exact ⟨rfl, rfl⟩
  | _, _, _, _, _, .part hg _, h2 => by
    cases h2 with
    | part hg2 _ =>
      obtain ⟨rfl, rfl⟩ := FnLike.det hg hg2
      exact ⟨rfl, rfl⟩

theorem FnLike.not_data {v : Val} {b : Builtin} {L : List Val} (h : FnLike v b L) :
    (∀ i, v ≠ .int i) ∧ (∀ s, v ≠ .str s) ∧ (∀ q, v ≠ .query q) ∧ (∀ k t, v ≠ .other k t) ∧ (∀ x y, v ≠ .pair x y) := by
  cases h <;> simp

theorem Sim.callable {v' v : Val} (h : Sim v' v) : v'.isCallable = v.isCallable := by
  cases h with
  | fn h1 h2 _ _ _ => rw [h1.callable, h2.callable]
  | _ => rfl

theorem Sim.arity {v' v : Val} (h : Sim v' v) : v'.arity = v.arity := by
  cases h with
  | fn h1 h2 hs _ _ => rw [h1.arity.1, h2.arity.1, Sims_length hs]
  | _ => rfl

theorem Sim.literalable {v' v : Val} (h : Sim v' v) : v'.literalable = v.literalable := by
  cases h with
  | fn h1 h2 _ _ _ => cases h1 <;> cases h2 <;> rfl
  | _ => rfl

theorem Sim.refl_builtin (b : Builtin) : Sim (.builtin b) (.builtin b) :=
  .fn (.base b) (.base b) .nil (Nat.le_refl _) (fun _ => rfl)

/-- what a caller observes, queries in canonical form -/
def cobs (v : Val) : Obs := (Simplify.canonVal v).obs

theorem Sim.cobs_eq : ∀ (v' v : Val), Sim v' v → cobs v' = cobs v
  | _, _, .int _ => rfl
  | _, _, .str _ => rfl
  | _, _, .other _ _ => rfl
  | _, _, .query (q' := q') (q := q) h => by
    show Obs.query q'.canon = Obs.query q.canon
    rw [h]
  | .pair a' b', .pair a b, .pair h1 h2 => by
    have e1 := Sim.cobs_eq a' a h1
    have e2 := Sim.cobs_eq b' b h2
    show Obs.pair (cobs a') (cobs b') = Obs.pair (cobs a) (cobs b)
    rw [e1, e2]
  | v', v, .fn h1 h2 hs hd hv => by
    have ha := (Sim.fn h1 h2 hs hd hv).arity
    cases h1 <;> cases h2 <;> exact congrArg Obs.fn ha

/-! transitivity -/

mutual
  theorem Sim.trans : ∀ {a b c : Val}, Sim a b → Sim b c → Sim a c
    | _, _, _, .int i, h => h
    | _, _, _, .str s, h => h
    | _, _, _, .other k t, h => h
    | _, _, _, .query h1, h => by
      cases h with
      | query h2 => exact .query (h1.trans h2)
      | fn f1 _ _ _ _ => exact absurd rfl (f1.not_data.2.2.1 _)
    | _, _, _, .pair h1 h2, h => by
      cases h with
      | pair g1 g2 => exact .pair (Sim.trans h1 g1) (Sim.trans h2 g2)
      | fn f1 _ _ _ _ => exact absurd rfl (f1.not_data.2.2.2.2 _ _)
    | _, _, _, .fn f1 f2 hs hd hv, h => by
      cases h with
      | fn g1 g2 gs gd gv =>
        obtain ⟨rfl, rfl⟩ := FnLike.det f2 g1
        exact .fn f1 g2 (Sims.trans hs gs) (Nat.le_trans hd gd) (fun hh => (gv hh).trans (hv hh))
      | int i => exact absurd rfl (f2.not_data.1 _)
      | str s => exact absurd rfl (f2.not_data.2.1 _)
      | other k t => exact absurd rfl (f2.not_data.2.2.2.1 _ _)
      | query _ => exact absurd rfl (f2.not_data.2.2.1 _)
      | pair _ _ => exact absurd rfl (f2.not_data.2.2.2.2 _ _)
  theorem Sims.trans : ∀ {a b c : List Val}, Sims a b → Sims b c → Sims a c
    | _, _, _, .nil, h => h
    | _, _, _, .cons h1 h2, h => by
      cases h with
      | cons g1 g2 => exact .cons (Sim.trans h1 g1) (Sims.trans h2 g2)
end

def ResSim : Res Val → Res Val → Prop
  | .ok v', .ok v => Sim v' v
  | .error e', .error e => e' = e
  | _, _ => False

def ResSims : Res (List Val) → Res (List Val) → Prop
  | .ok v', .ok v => Sims v' v
  | .error e', .error e => e' = e
  | _, _ => False

theorem ResSim.trans {a b c : Res Val} (h1 : ResSim a b) (h2 : ResSim b c) : ResSim a c := by
  cases a <;> cases b <;> cases c <;> simp_all [ResSim]
  exact Sim.trans h1 h2

theorem ResSim.ne_fuel {a b : Res Val} (h : ResSim a b) (hb : b ≠ .error .fuel) : a ≠ .error .fuel := by
  cases a <;> cases b <;> simp_all [ResSim]


/-! ### the builtin table respects the simulation -/

theorem convert_sim {t : Ty} {v' v : Val} (h : Sim v' v) : ResSim (convert t v') (convert t v) := by
  have h0 := h
  have hc := h.callable
  have ha := h.arity
  cases t with
  | any => simpa [convert, ResSim] using h
  | func n =>
    have e1 : convert (.func n) v' = if (v'.isCallable && v'.arity == some n) = true then .ok v' else .error .error := by
      cases v' <;> rfl
    have e2 : convert (.func n) v = if (v.isCallable && v.arity == some n) = true then .ok v else .error .error := by
      cases v <;> rfl
    rw [e1, e2, hc, ha]
    split <;> simp [ResSim, h0]
  | int =>
    cases h with
    | fn f1 f2 _ _ _ => cases f1 <;> cases f2 <;> simp [convert, ResSim]
    | _ => simp [convert, ResSim] <;> constructor
  | str =>
    cases h with
    | fn f1 f2 _ _ _ => cases f1 <;> cases f2 <;> simp [convert, ResSim]
    | _ => simp [convert, ResSim] <;> constructor
  | pair =>
    cases h with
    | fn f1 f2 _ _ _ => cases f1 <;> cases f2 <;> simp [convert, ResSim]
    | pair _ _ => simpa [convert, ResSim] using h0
    | _ => simp [convert, ResSim]
  | query =>
    cases h with
    | fn f1 f2 _ _ _ => cases f1 <;> cases f2 <;> simp [convert, ResSim]
    | query _ => simpa [convert, ResSim] using h0
    | _ => simp [convert, ResSim]
  | callable =>
    cases h with
    | fn f1 f2 _ _ _ => cases f1 <;> cases f2 <;> simpa [convert, ResSim, Val.isCallable] using h0
    | query _ => simpa [convert, ResSim] using Sim.refl_builtin .matchq
    | _ => simp [convert, ResSim, Val.isCallable]

theorem convertAll_sim : ∀ {ts : List Ty} {vs' vs : List Val}, Sims vs' vs →
    ResSims (convertAll ts vs') (convertAll ts vs)
  | [], _, _, h => by cases h <;> simp [convertAll, ResSims]; exact .nil
  | t :: ts, _, _, h => by
    cases h with
    | nil => simp [convertAll, ResSims]
    | cons h1 h2 =>
      have r1 := convert_sim (t := t) h1
      have r2 := convertAll_sim (ts := ts) h2
      simp only [convertAll, bind, Except.bind]
      rename_i a' a as' as
      cases hc' : convert t a' with
      | error e' =>
        cases hc : convert t a with
        | error e => simp [hc, hc', ResSim] at r1; simp [ResSims, r1]
        | ok c => simp [hc, hc', ResSim] at r1
      | ok c' =>
        cases hc : convert t a with
        | error e => simp [hc, hc', ResSim] at r1
        | ok c =>
          simp only [hc, hc', ResSim] at r1
          cases hs' : convertAll ts as' with
          | error e' =>
            cases hs : convertAll ts as with
            | error e => simp [hs, hs', ResSims] at r2; simp [ResSims, r2]
            | ok _ => simp [hs, hs', ResSims] at r2
          | ok cs' =>
            cases hs : convertAll ts as with
            | error e => simp [hs, hs', ResSims] at r2
            | ok cs =>
              simp only [hs, hs', ResSims] at r2
              simp only [ResSims, pure, Except.pure]
              exact .cons r1 r2

def StepSim : Step → Step → Prop
  | .value v', .value v => Sim v' v
  | .tail g' xs', .tail g xs => Sim g' g ∧ Sims xs' xs
  | .fail, .fail => True
  | _, _ => False

theorem stepsim_ite (c : Prop) [Decidable c] (a b a' b' : Step) :
    StepSim (if c then a else b) (if c then a' else b') ↔ (if c then StepSim a a' else StepSim b b') := by
  split <;> simp

macro "sim_close" : tactic =>
  `(tactic| repeat (first
      | assumption
      | exact Sims.nil
      | exact Sim.int _
      | exact Sim.str _
      | exact Sim.other _ _
      | exact True.intro
      | apply And.intro
      | apply Sims.cons
      | apply Sim.pair
      | (apply Sim.query; simp [Query.canon, canonInter, canonUnion, *]; done)))

macro "sstep_tac" : tactic =>
  `(tactic| ((simp [Builtin.step, Val.literalable, stepsim_ite] <;> (try simp [StepSim]) <;> (try split) <;>
      (try intros) <;> sim_close) <;> done))

def IsFn (v : Val) : Prop := (∃ b, v = .builtin b) ∨ (∃ g bs, v = .part g bs [])

theorem FnLike.isFn {v : Val} {b : Builtin} {L : List Val} (h : FnLike v b L) : IsFn v := by
  cases h
  · exact Or.inl ⟨_, rfl⟩
  · exact Or.inr ⟨_, _, rfl⟩

theorem Sim.shape {v' v : Val} (h : Sim v' v) :
    (∃ i, v' = .int i ∧ v = .int i) ∨ (∃ s, v' = .str s ∧ v = .str s) ∨ (∃ k t, v' = .other k t ∧ v = .other k t) ∨
    (∃ q' q, v' = .query q' ∧ v = .query q ∧ q'.canon = q.canon) ∨
    (∃ a' a b' b, v' = .pair a' b' ∧ v = .pair a b ∧ Sim a' a ∧ Sim b' b) ∨ (IsFn v' ∧ IsFn v) := by
  cases h with
  | int i => exact Or.inl ⟨i, rfl, rfl⟩
  | str s => exact Or.inr (Or.inl ⟨s, rfl, rfl⟩)
  | other k t => exact Or.inr (Or.inr (Or.inl ⟨k, t, rfl, rfl⟩))
  | query hq => exact Or.inr (Or.inr (Or.inr (Or.inl ⟨_, _, rfl, rfl, hq⟩)))
  | pair h1 h2 => exact Or.inr (Or.inr (Or.inr (Or.inr (Or.inl ⟨_, _, _, _, rfl, rfl, h1, h2⟩))))
  | fn f1 f2 _ _ _ => exact Or.inr (Or.inr (Or.inr (Or.inr (Or.inr ⟨f1.isFn, f2.isFn⟩))))

/-- split a `Sim` hypothesis into the constructor shapes of both values (the hypothesis is kept) -/
macro "sim_cases" h:ident : tactic =>
  `(tactic| (rcases Sim.shape $h with ⟨_, e1, e2⟩ | ⟨_, e1, e2⟩ | ⟨_, _, e1, e2⟩ | ⟨_, _, e1, e2, _⟩ |
      ⟨_, _, _, _, e1, e2, _, _⟩ | ⟨(⟨_, e1⟩ | ⟨_, _, e1⟩), (⟨_, e2⟩ | ⟨_, _, e2⟩)⟩) <;> subst_vars)

theorem Sim.cell : ∀ (v' v : Val), Sim v' v → v'.cellToks = v.cellToks
  | _, _, .int _ => rfl
  | _, _, .str _ => rfl
  | _, _, .other _ _ => rfl
  | _, _, .query _ => rfl
  | .pair a' b', .pair a b, .pair h1 h2 => by
    simp [Val.cellToks, Sim.cell a' a h1, Sim.cell b' b h2]
  | v', v, .fn h1 h2 hs hd hv => by
    have ha := (Sim.fn h1 h2 hs hd hv).arity
    cases h1 <;> cases h2 <;> simp only [Val.cellToks] <;> rw [ha]

theorem Sims_collText : ∀ {ps' ps : List Val}, Sims ps' ps →
    collText ps' = collText ps ∧ ps'.all isPairVal = ps.all isPairVal
  | [], _, h => by cases h; exact ⟨rfl, rfl⟩
  | p :: ps, _, h => by
    cases h with
    | cons h1 h2 =>
      obtain ⟨e1, e2⟩ := Sims_collText h2
      cases h1 with
      | pair ha hb => simp [collText, isPairVal, Sim.cell _ _ ha, Sim.cell _ _ hb, e1, e2]
      | fn f1 f2 _ _ _ => cases f1 <;> cases f2 <;> simp_all [collText, isPairVal]
      | _ => simp_all [collText, isPairVal]

theorem step_sim_collection {cs' cs : List Val} (h : Sims cs' cs) :
    StepSim (Builtin.step .collection cs') (Builtin.step .collection cs) := by
  obtain ⟨e1, e2⟩ := Sims_collText h
  rw [B6.Lemmas.VMLambda.step_collection, B6.Lemmas.VMLambda.step_collection, e1, e2]
  split <;> simp [StepSim]
  exact .other _ _

theorem step_sim_call {cs' cs : List Val} (h : Sims cs' cs) :
    StepSim (Builtin.step .call cs') (Builtin.step .call cs) := by
  cases h with
  | nil => simp [B6.Lemmas.VMLambda.step_call_nil, StepSim]
  | cons h1 h2 => simp only [B6.Lemmas.VMLambda.step_call_cons, StepSim]; exact ⟨h1, h2⟩

theorem step_sim {b : Builtin} {cs' cs : List Val} (h : Sims cs' cs) : StepSim (b.step cs') (b.step cs) := by
  cases b
  case collection => exact step_sim_collection h
  case call => exact step_sim_call h
  all_goals rcases h with _ | ⟨h1, _ | ⟨h2, _ | ⟨h3, _ | ⟨h4, h5⟩⟩⟩⟩ <;>
    first
    | sstep_tac
    | (sim_cases h1 <;> first
        | sstep_tac
        | (sim_cases h2 <;> first
            | sstep_tac
            | (sim_cases h3 <;> sstep_tac)))

end B6.Lemmas.SimplifyFO
