import B6.Lemmas.VMRel
/-!
C21 `vm_lambda_partial`: the simulation between the reference interpreter and the VM on programs with
lambdas, for the fragment `Expr.regSafe`, over code whose layout `VM.matchExpr` has validated.
Lemma B (`expr_sim`, structural induction on the expression) and Lemma A (`call_sim`, induction on fuel).
-/
namespace B6.Lemmas.VMLambda
open B6.Model B6.Model.VM B6.Lemmas.VM

variable {code : List Instr}

/-! ### registers -/

theorem lookup_filter_ne (regs : List (Nat × Val)) (r r' : Nat) (h : r' ≠ r) :
    (regs.filter (fun p => p.1 != r)).lookup r' = regs.lookup r' := by
  induction regs with
  | nil => rfl
  | cons p ps ih =>
    obtain ⟨k, v⟩ := p
    by_cases hk : k = r
    · subst hk
      have : (r' == k) = false := by simpa using h
      simp [List.filter, List.lookup, this, ih]
    · have hk' : (k != r) = true := by simpa using hk
      simp only [List.filter, hk', List.lookup]
      cases hh : r' == k <;> simp [ih]

theorem setReg_lookup_self (regs : List (Nat × Val)) (r : Nat) (v : Val) : (setReg regs r v).lookup r = some v := by
  simp [setReg, List.lookup]

theorem setReg_lookup_ne (regs : List (Nat × Val)) (r r' : Nat) (v : Val) (h : r' ≠ r) :
    (setReg regs r v).lookup r' = regs.lookup r' := by
  have : (r' == r) = false := by simpa using h
  simp only [setReg, List.lookup, this]
  exact lookup_filter_ne regs r r' h

def storeAll : List Nat → List Val → List (Nat × Val) → List (Nat × Val)
  | o :: os, a :: as, regs => storeAll os as (setReg regs o a)
  | _, _, regs => regs

theorem storeAll_lookup_notin : ∀ (os : List Nat) (as : List Val) (regs : List (Nat × Val)) (o : Nat),
    o ∉ os → (storeAll os as regs).lookup o = regs.lookup o
  | [], _, _, _, _ => by simp [storeAll]
  | _ :: _, [], _, _, _ => by simp [storeAll]
  | o0 :: os, a :: as, regs, o, h => by
    simp only [List.mem_cons, not_or] at h
    simp only [storeAll]
    rw [storeAll_lookup_notin os as _ o h.2, setReg_lookup_ne _ _ _ _ h.1]

theorem storeAll_lookup : ∀ (os : List Nat) (as : List Val) (regs : List (Nat × Val)),
    os.Nodup → ∀ o a, (o, a) ∈ os.zip as → (storeAll os as regs).lookup o = some a
  | [], _, _, _, _, _, h => by simp at h
  | _ :: _, [], _, _, _, _, h => by simp at h
  | o0 :: os, a0 :: as, regs, hn, o, a, h => by
    rw [List.nodup_cons] at hn
    simp only [List.zip_cons_cons, List.mem_cons, Prod.mk.injEq] at h
    simp only [storeAll]
    rcases h with ⟨rfl, rfl⟩ | h
    · rw [storeAll_lookup_notin os as _ o hn.1, setReg_lookup_self]
    · exact storeAll_lookup os as _ hn.2 o a h

theorem exec_stores (call : Val → Nat → St → Res St) (fr : Val) : ∀ (os : List Nat) (as S : List Val)
    (regs : List (Nat × Val)) (rest : List Instr), os.length = as.length → (∀ o ∈ os, o < maxArgs) →
    execList call (os.map Instr.store ++ rest) ⟨fr :: (as ++ S), regs⟩
      = execList call rest ⟨fr :: S, storeAll os as regs⟩
  | [], [], S, regs, rest, _, _ => by simp [storeAll]
  | [], _ :: _, _, _, _, h, _ => by simp at h
  | _ :: _, [], _, _, _, h, _ => by simp at h
  | o :: os, a :: as, S, regs, rest, h, ho => by
    have h1 : o < maxArgs := ho o (by simp)
    simp only [List.map_cons, List.cons_append, execList, h1, if_true, storeAll]
    exact exec_stores call fr os as S _ rest (by simpa using h) (fun o' ho' => ho o' (by simp [ho']))

/-! ### environments and frames -/

theorem lookup_zip_notin {β : Type} : ∀ (ps : List String) (xs : List β) (rest : List (String × β)) (s : String),
    ps.contains s = false → (ps.zip xs ++ rest).lookup s = rest.lookup s
  | [], _, _, _, _ => by simp
  | _ :: _, [], _, _, _ => by simp
  | p :: ps, x :: xs, rest, s, h => by
    simp only [List.contains_cons, Bool.or_eq_false_iff] at h
    simp only [List.zip_cons_cons, List.cons_append, List.lookup, h.1]
    exact lookup_zip_notin ps xs rest s h.2

/-- the first parameter named `s`: its register, its interpreter value, its VM value -/
theorem lookup_zip3 : ∀ (ps : List String) (own : List Nat) (args args' : List Val) (f : Frame) (env : Env) (s : String),
    ps.length = own.length → ps.length = args.length → VRs code args args' → ps.contains s = true →
    ∃ r v v', (ps.zip own ++ f).lookup s = some r ∧ (ps.zip args ++ env).lookup s = some v ∧
      (r, v') ∈ own.zip args' ∧ VR code v v'
  | [], _, _, _, _, _, _, _, _, _, h => by simp at h
  | _ :: _, [], _, _, _, _, _, h, _, _, _ => by simp at h
  | _ :: _, _ :: _, [], _, _, _, _, _, h, _, _ => by simp at h
  | p :: ps, o :: own, a :: args, args', f, env, s, h1, h2, hv, hs => by
    cases hv with
    | cons hv1 hv2 =>
      rename_i a' as'
      by_cases hp : (s == p) = true
      · exact ⟨o, a, a', by simp [List.lookup, hp], by simp [List.lookup, hp], by simp, hv1⟩
      · have hp' : (s == p) = false := by simpa using hp
        have hs' : ps.contains s = true := by
          simp only [List.contains_cons, hp', Bool.false_or] at hs
          exact hs
        obtain ⟨r, v, v', e1, e2, e3, e4⟩ := lookup_zip3 ps own args as' f env s (by simpa using h1) (by simpa using h2) hv2 hs'
        exact ⟨r, v, v', by simp [List.lookup, hp', e1], by simp [List.lookup, hp', e2],
          by simp [e3], e4⟩

theorem evalArgs_length {app : Val → List Val → Res Val} {env : Env} : ∀ {as : List Expr} {vs : List Val},
    evalArgs app env as = .ok vs → vs.length = as.length
  | [], vs, h => by simp [evalArgs] at h; subst h; rfl
  | a :: as, vs, h => by
    simp only [evalArgs] at h
    cases h1 : evalWith app env a with
    | error e => simp [h1] at h
    | ok v =>
      cases h2 : evalArgs app env as with
      | error e => simp [h1, h2] at h
      | ok vs' =>
        simp [h1, h2] at h
        subst h
        simp [evalArgs_length h2]

mutual
  theorem regScan_mono : (e : Expr) → ∀ (bound own : List String) (d : Bool),
      Expr.regScan bound own d e = some false → d = false
    | .sym s, bound, own, d, h => by
      simp only [Expr.regScan] at h
      cases d <;> simp_all
    | .lit _, _, _, d, h => by simpa [Expr.regScan] using h
    | .lam ps b, bound, own, d, h => by
      simp only [Expr.regScan] at h
      split at h <;> simp_all
    | .call f args p, bound, own, d, h => by
      simp only [Expr.regScan] at h
      cases ha : Expr.regScanArgs bound own d args with
      | none => simp [ha] at h
      | some d1 =>
        simp only [ha] at h
        have : d1 = false := by
          cases f with
          | sym s =>
            simp only at h
            cases hb : Builtin.ofName s with
            | none => simpa [hb] using h
            | some b => simp [hb] at h; exact h.1
          | lit _ => simpa using h
          | lam _ _ => simp only at h; split at h <;> simp_all
          | call _ _ _ => simp only at h; split at h <;> simp_all
        subst this
        exact regScanArgs_mono args bound own d ha
  theorem regScanArgs_mono : (as : List Expr) → ∀ (bound own : List String) (d : Bool),
      Expr.regScanArgs bound own d as = some false → d = false
    | [], _, _, d, h => by simpa [Expr.regScanArgs] using h
    | a :: as, bound, own, d, h => by
      simp only [Expr.regScanArgs] at h
      cases ha : Expr.regScan bound own d a with
      | none => simp [ha] at h
      | some d1 =>
        simp only [ha] at h
        have := regScanArgs_mono as bound own d1 h
        subst this
        exact regScan_mono a bound own d ha
end


/-! ### Lemma B: a compiled expression inside a lambda body (or the main target) computes `evalWith` -/

/-- the contract between `CallFromStack` and the interpreter's function application at one fuel level -/
def CallOK (code : List Instr) (call : Val → Nat → St → Res St) (app : Val → List Val → Res Val) : Prop :=
  ∀ (f f' : Val) (args args' S : List Val) (regs : List (Nat × Val)),
    VR code f f' → f.isCallable = true → VRs code args args' →
    (∀ err, app f args = .error err →
        call f' args'.length ⟨.int args'.length :: (args'.reverse ++ S), regs⟩ = .error err) ∧
    (∀ v, app f args = .ok v → ∃ v' regs', VR code v v' ∧
        (∀ b, f' = .builtin b → b.higherOrder = false → regs' = regs) ∧
        call f' args'.length ⟨.int args'.length :: (args'.reverse ++ S), regs⟩ = .ok ⟨v' :: S, regs'⟩)

/-- the registers of the running lambda hold its arguments -/
def Clean (code : List Instr) (env : Env) (frame : Frame) (own : List String) (regs : List (Nat × Val)) : Prop :=
  ∀ s, own.contains s = true → ∃ r v v', frame.lookup s = some r ∧ r < maxArgs ∧ env.lookup s = some v ∧
    regs.lookup r = some v' ∧ VR code v v'

/-- names that are neither own parameters nor parameters of an enclosing lambda are bound nowhere -/
def Outer (env : Env) (frame : Frame) (bound own : List String) : Prop :=
  ∀ s, own.contains s = false → bound.contains s = false → env.lookup s = none ∧ frame.lookup s = none

def ExprSim (code : List Instr) (call : Val → Nat → St → Res St) (app : Val → List Val → Res Val) (e : Expr) : Prop :=
  ∀ (bound own : List String) (env : Env) (frame : Frame) (d d' : Bool) (is rest : List Instr) (S : List Val)
    (regs : List (Nat × Val)),
    Expr.regScan bound own d e = some d' → matchExpr code frame e is = some rest →
    Outer env frame bound own → (d = false → Clean code env frame own regs) →
    (∀ err, evalWith app env e = .error err → execList call is ⟨S, regs⟩ = .error err) ∧
    (∀ v, evalWith app env e = .ok v → ∃ v' regs', VR code v v' ∧ (d' = false → regs' = regs) ∧
        execList call is ⟨S, regs⟩ = execList call rest ⟨v' :: S, regs'⟩)

def ArgsSim (code : List Instr) (call : Val → Nat → St → Res St) (app : Val → List Val → Res Val) (as : List Expr) : Prop :=
  ∀ (bound own : List String) (env : Env) (frame : Frame) (d d' : Bool) (is rest : List Instr) (S : List Val)
    (regs : List (Nat × Val)),
    Expr.regScanArgs bound own d as = some d' → matchArgs code frame as is = some rest →
    Outer env frame bound own → (d = false → Clean code env frame own regs) →
    (∀ err, evalArgs app env as = .error err → execList call is ⟨S, regs⟩ = .error err) ∧
    (∀ vs, evalArgs app env as = .ok vs → ∃ vs' regs', VRs code vs vs' ∧ (d' = false → regs' = regs) ∧
        execList call is ⟨S, regs⟩ = execList call rest ⟨vs'.reverse ++ S, regs'⟩)

theorem clo_of_scan {bound own ps : List String} {b : Expr} {env : Env} {frame : Frame} {pc : Nat}
    (ho : Outer env frame bound own)
    (hb : (Expr.regScan (own ++ bound) ps false b).isSome = true)
    (hm : matchLamWith (fun fr js => matchExpr code fr b js) code frame ps pc = true) :
    VR code (.closure ps b env) (.lam pc ps.length) := by
  refine VR.clo (bound := own ++ bound) ?_ hb hm
  intro s hs'
  rw [List.contains_append, Bool.or_eq_false_iff] at hs'
  exact ho s hs'.1 hs'.2

theorem scan_lam_body {bound own ps : List String} {b : Expr} {d d' : Bool}
    (hs : Expr.regScan bound own d (.lam ps b) = some d') :
    (Expr.regScan (own ++ bound) ps false b).isSome = true ∧ d' = d := by
  simp only [Expr.regScan] at hs
  cases hb : Expr.regScan (own ++ bound) ps false b with
  | none => simp [hb] at hs
  | some d2 => simp [hb] at hs; simp [hs]

mutual
  theorem expr_sim {call : Val → Nat → St → Res St} {app : Val → List Val → Res Val} (H : CallOK code call app) :
      (e : Expr) → ExprSim code call app e
    | .sym s => by
      intro bound own env frame d d' is rest S regs hs hm ho hc
      simp only [Expr.regScan] at hs
      simp only [matchExpr] at hm
      simp only [evalWith]
      by_cases hown : own.contains s = true
      · simp only [hown, if_true] at hs
        cases d with
        | true => simp at hs
        | false =>
          simp at hs
          subst hs
          obtain ⟨r, v, v', e1, e2, e3, e4, e5⟩ := hc rfl s hown
          simp only [e1] at hm
          cases is with
          | nil => simp at hm
          | cons i is' =>
            cases i <;> simp at hm
            rename_i r'
            obtain ⟨rfl, rfl⟩ := hm
            simp only [e3]
            refine ⟨(by intro err h; cases h), ?_⟩
            intro w hw
            injection hw with hw; subst hw
            exact ⟨v', regs, e5, fun _ => rfl, by simp [execList, e2, e4]⟩
      · have hown' : own.contains s = false := by simpa using hown
        simp only [hown', Bool.false_eq_true, if_false] at hs
        by_cases hbd : bound.contains s = true
        · rw [if_pos hbd] at hs; cases hs
        · have hbd' : bound.contains s = false := by simpa using hbd
          simp only [hbd', Bool.false_eq_true, if_false, Option.some.injEq] at hs
          subst hs
          obtain ⟨e1, e2⟩ := ho s hown' hbd'
          simp only [e1, e2] at hm ⊢
          cases hb : Builtin.ofName s with
          | none => simp [hb] at hm
          | some b =>
            simp only [hb] at hm ⊢
            cases is with
            | nil => simp at hm
            | cons i is' =>
              cases i <;> simp at hm
              rename_i b'
              obtain ⟨rfl, rfl⟩ := hm
              refine ⟨(by intro err h; cases h), ?_⟩
              intro w hw
              injection hw with hw; subst hw
              exact ⟨.builtin b, regs, .builtin b, fun _ => rfl, by simp [execList]⟩
    | .lit l => by
      intro bound own env frame d d' is rest S regs hs hm ho hc
      simp only [Expr.regScan, Option.some.injEq] at hs
      subst hs
      simp only [matchExpr] at hm
      simp only [evalWith]
      cases is with
      | nil => simp at hm
      | cons i is' =>
        cases i <;> simp at hm
        rename_i v0
        obtain ⟨hl, rfl⟩ := hm
        have := litMatches_sound hl
        subst this
        refine ⟨(by intro err h; cases h), ?_⟩
        intro w hw
        injection hw with hw; subst hw
        exact ⟨l.toVal, regs, VR_lit l, fun _ => rfl, by simp [execList]⟩
    | .lam ps b => by
      intro bound own env frame d d' is rest S regs hs hm ho hc
      obtain ⟨hbody, hd⟩ := scan_lam_body hs
      simp only [matchExpr] at hm
      simp only [evalWith]
      cases is with
      | nil => simp at hm
      | cons i is' =>
        cases i <;> simp at hm
        rename_i pc k
        obtain ⟨⟨rfl, hml⟩, rfl⟩ := hm
        refine ⟨(by intro err h; cases h), ?_⟩
        intro w hw
        injection hw with hw; subst hw
        exact ⟨.lam pc ps.length, regs, clo_of_scan ho hbody hml, fun _ => rfl, by simp [execList]⟩
    | .call (.sym s) args p => by
      intro bound own env frame d d' is rest S regs hs hm ho hc
      simp only [Expr.regScan] at hs
      simp only [matchExpr] at hm
      simp only [evalWith]
      cases hsa : Expr.regScanArgs bound own d args with
      | none => simp [hsa] at hs
      | some d1 =>
        cases hma : matchArgs code frame args is with
        | none => simp [hma] at hm
        | some is1 =>
          simp only [hsa] at hs
          simp only [hma] at hm
          obtain ⟨ha1, ha2⟩ := args_sim H args bound own env frame d d1 is is1 S regs hsa hma ho hc
          cases hb : Builtin.ofName s with
          | none => simp [hb] at hm
          | some b =>
            simp only [hb, Option.some.injEq] at hs hm ⊢
            cases is1 with
            | nil => simp at hm
            | cons i is' =>
              cases i <;> simp at hm
              rename_i b' n
              obtain ⟨⟨rfl, rfl⟩, rfl⟩ := hm
              cases hev : evalArgs app env args with
              | error err =>
                refine ⟨?_, by intro v h; cases h⟩
                intro err' h
                injection h with h; subst h
                exact ha1 err hev
              | ok vs =>
                obtain ⟨vs', regs1, hvs, hr1, hex⟩ := ha2 vs hev
                have hlen : args.length = vs'.length := by rw [← VRs_length hvs, evalArgs_length hev]
                obtain ⟨c1, c2⟩ := H (.builtin b) (.builtin b) vs vs' S regs1 (.builtin b) rfl hvs
                constructor
                · intro err h
                  rw [hex]
                  simp only [execList, hlen, c1 err h]
                · intro v h
                  obtain ⟨v', regs', hv, hrb, hcall⟩ := c2 v h
                  refine ⟨v', regs', hv, ?_, ?_⟩
                  · intro hd'
                    subst hs
                    simp only [Bool.or_eq_false_iff] at hd'
                    rw [hrb b rfl hd'.2, hr1 hd'.1]
                  · rw [hex]
                    simp only [execList, hlen, hcall]
    | .call (.lit l) args p => by
      intro bound own env frame d d' is rest S regs hs hm ho hc
      simp only [matchExpr] at hm
      split at hm <;> simp at hm
    | .call (.lam ps b) args p => by
      intro bound own env frame d d' is rest S regs hs hm ho hc
      rw [Expr.regScan] at hs
      rw [matchExpr] at hm
      rw [evalWith]
      simp only [evalWith]
      cases hsa : Expr.regScanArgs bound own d args with
      | none => simp [hsa] at hs
      | some d1 =>
        cases hma : matchArgs code frame args is with
        | none => simp [hma] at hm
        | some is1 =>
          simp only [hsa] at hs
          simp only [hma] at hm
          obtain ⟨ha1, ha2⟩ := args_sim H args bound own env frame d d1 is is1 S regs hsa hma ho hc
          cases hsl : Expr.regScan bound own d1 (.lam ps b) with
          | none => simp [hsl] at hs
          | some d2 =>
            simp only [hsl, Option.some.injEq] at hs
            subst hs
            cases is1 with
            | nil => simp at hm
            | cons i is' =>
              cases i <;> simp at hm
              rename_i pc k n
              obtain ⟨⟨rfl, hml⟩, rfl⟩ := hm
              simp only [matchLamAt, Bool.and_eq_true, beq_iff_eq] at hml
              obtain ⟨rfl, hml⟩ := hml
              have hclo := clo_of_scan (env := env) ho (scan_lam_body hsl).1 hml
              cases hev : evalArgs app env args with
              | error err =>
                refine ⟨?_, by intro v h; cases h⟩
                intro err' h
                injection h with h; subst h
                exact ha1 err hev
              | ok vs =>
                obtain ⟨vs', regs1, hvs, hr1, hex⟩ := ha2 vs hev
                have hlen : args.length = vs'.length := by rw [← VRs_length hvs, evalArgs_length hev]
                obtain ⟨c1, c2⟩ := H _ _ vs vs' S regs1 hclo rfl hvs
                simp only [Val.isCallable, if_true]
                constructor
                · intro err h
                  rw [hex]
                  simp only [execList, hlen, c1 err h]
                · intro v h
                  obtain ⟨v', regs', hv, _, hcall⟩ := c2 v h
                  refine ⟨v', regs', hv, (by intro h; cases h), ?_⟩
                  rw [hex]
                  simp only [execList, hlen, hcall]
    | .call (.call g gargs q) args p => by
      intro bound own env frame d d' is rest S regs hs hm ho hc
      rw [Expr.regScan] at hs
      rw [matchExpr] at hm
      rw [evalWith]
      cases hsa : Expr.regScanArgs bound own d args with
      | none => simp [hsa] at hs
      | some d1 =>
        cases hma : matchArgs code frame args is with
        | none => simp [hma] at hm
        | some is1 =>
          simp only [hsa] at hs
          simp only [hma] at hm
          obtain ⟨ha1, ha2⟩ := args_sim H args bound own env frame d d1 is is1 S regs hsa hma ho hc
          cases hsf : Expr.regScan bound own d1 (.call g gargs q) with
          | none => simp [hsf] at hs
          | some d2 =>
            simp only [hsf, Option.some.injEq] at hs
            subst hs
            cases hmf : matchExpr code frame (.call g gargs q) is1 with
            | none => simp [hmf] at hm
            | some is2 =>
              simp only [hmf] at hm
              cases is2 with
              | nil => simp at hm
              | cons i is' =>
                cases i <;> simp at hm
                rename_i n
                obtain ⟨rfl, rfl⟩ := hm
                cases hev : evalArgs app env args with
                | error err =>
                  refine ⟨?_, by intro v h; cases h⟩
                  intro err' h
                  injection h with h; subst h
                  exact ha1 err hev
                | ok vs =>
                  obtain ⟨vs', regs1, hvs, hr1, hex⟩ := ha2 vs hev
                  have hlen : args.length = vs'.length := by rw [← VRs_length hvs, evalArgs_length hev]
                  have hc1 : d1 = false → Clean code env frame own regs1 := by
                    intro hd1
                    have hd0 := regScanArgs_mono args bound own d (by rw [hsa, hd1])
                    rw [hr1 hd1]
                    exact hc hd0
                  obtain ⟨hf1, hf2⟩ := expr_sim H (.call g gargs q) bound own env frame d1 d2 is1 _
                    (vs'.reverse ++ S) regs1 hsf hmf ho hc1
                  simp only []
                  cases hef : evalWith app env (.call g gargs q) with
                  | error err =>
                    refine ⟨?_, by intro v h; cases h⟩
                    intro err' h
                    injection h with h; subst h
                    rw [hex]
                    exact hf1 err hef
                  | ok fv =>
                    obtain ⟨fv', regs2, hfv, _, hexf⟩ := hf2 fv hef
                    have hcal := VR_callable hfv
                    simp only []
                    cases hic : fv.isCallable with
                    | false =>
                      simp only [Bool.false_eq_true, if_false]
                      refine ⟨?_, by intro v h; cases h⟩
                      intro err' h
                      injection h with h; subst h
                      rw [hex, hexf]
                      have : vmCallable fv' = false := by rw [← hcal.1, hic]
                      simp [execList, this]
                    | true =>
                      have hvc : vmCallable fv' = true := by rw [← hcal.1, hic]
                      obtain ⟨c1, c2⟩ := H fv fv' vs vs' S regs2 hfv hic hvs
                      simp only [if_true]
                      constructor
                      · intro err h
                        rw [hex, hexf]
                        simp only [execList, hvc, if_true, hlen, c1 err h]
                      · intro v h
                        obtain ⟨v', regs', hv, _, hcall⟩ := c2 v h
                        refine ⟨v', regs', hv, (by intro h; cases h), ?_⟩
                        rw [hex, hexf]
                        simp only [execList, hvc, if_true, hlen, hcall]
  theorem args_sim {call : Val → Nat → St → Res St} {app : Val → List Val → Res Val} (H : CallOK code call app) :
      (as : List Expr) → ArgsSim code call app as
    | [] => by
      intro bound own env frame d d' is rest S regs hs hm ho hc
      simp only [Expr.regScanArgs, Option.some.injEq] at hs
      simp only [matchArgs, Option.some.injEq] at hm
      subst hs; subst hm
      simp only [evalArgs]
      refine ⟨(by intro err h; cases h), ?_⟩
      intro vs h
      injection h with h; subst h
      exact ⟨[], regs, .nil, fun _ => rfl, by simp⟩
    | a :: as => by
      intro bound own env frame d d' is rest S regs hs hm ho hc
      simp only [Expr.regScanArgs] at hs
      simp only [matchArgs] at hm
      simp only [evalArgs]
      cases hsa : Expr.regScan bound own d a with
      | none => simp [hsa] at hs
      | some d1 =>
        cases hma : matchExpr code frame a is with
        | none => simp [hma] at hm
        | some is1 =>
          simp only [hsa] at hs
          simp only [hma] at hm
          obtain ⟨h1, h2⟩ := expr_sim H a bound own env frame d d1 is is1 S regs hsa hma ho hc
          cases hev : evalWith app env a with
          | error err =>
            refine ⟨?_, by intro v h; cases h⟩
            intro err' h
            injection h with h; subst h
            exact h1 err hev
          | ok v =>
            obtain ⟨v', regs1, hv, hr1, hex⟩ := h2 v hev
            have hc1 : d1 = false → Clean code env frame own regs1 := by
              intro hd1
              have hd0 := regScan_mono a bound own d (by rw [hsa, hd1])
              rw [hr1 hd1]
              exact hc hd0
            obtain ⟨g1, g2⟩ := args_sim H as bound own env frame d1 d' is1 rest (v' :: S) regs1 hs hm ho hc1
            cases hes : evalArgs app env as with
            | error err =>
              refine ⟨?_, by intro v h; cases h⟩
              intro err' h
              injection h with h; subst h
              rw [hex]
              exact g1 err hes
            | ok vs =>
              refine ⟨(by intro err h; cases h), ?_⟩
              intro ws h
              injection h with h; subst h
              obtain ⟨vs', regs2, hvs, hr2, hex2⟩ := g2 vs hes
              refine ⟨v' :: vs', regs2, .cons hv hvs, ?_, ?_⟩
              · intro hd'
                have hd1 := regScanArgs_mono as bound own d1 (by rw [hs, hd'])
                rw [hr2 hd', hr1 hd1]
              · rw [hex, hex2]
                simp
end

/-! ### Lemma A: the three `CallFromStack` methods compute `applyFn` on related values -/

def Post (code : List Instr) (r : Res Val) (c : Res St) (S : List Val) (regs : List (Nat × Val)) (f' : Val) : Prop :=
  (∀ err, r = .error err → c = .error err) ∧
  (∀ v, r = .ok v → ∃ v' regs', VR code v v' ∧
      (∀ b, f' = .builtin b → b.higherOrder = false → regs' = regs) ∧ c = .ok ⟨v' :: S, regs'⟩)

theorem post_err {e : Fail} {S : List Val} {regs : List (Nat × Val)} {f' : Val} :
    Post code (.error e) (.error e) S regs f' :=
  ⟨fun _ h => by injection h with h; subst h; rfl, fun _ h => by cases h⟩

theorem post_ok {v v' : Val} {S : List Val} {regs regs' : List (Nat × Val)} {f' : Val} (hv : VR code v v')
    (hr : ∀ b, f' = .builtin b → b.higherOrder = false → regs' = regs) :
    Post code (.ok v) (.ok ⟨v' :: S, regs'⟩) S regs f' :=
  ⟨(fun _ h => by cases h), (fun w h => by injection h with h; subst h; exact ⟨v', regs', hv, hr, rfl⟩)⟩

theorem zip_reverse_mem {α β : Type} {l : List α} {l' : List β} (h : l.length = l'.length) {a : α} {b : β}
    (hm : (a, b) ∈ l.zip l') : (a, b) ∈ l.reverse.zip l'.reverse := by
  have : l.reverse.zip l'.reverse = (l.zip l').reverse := by
    unfold List.zip
    exact (List.reverse_zipWith h).symm
  rw [this]
  simpa using hm

theorem nodup_reverse' {l : List Nat} (h : l.Nodup) : l.reverse.Nodup := by
  unfold List.Nodup at *
  rw [List.pairwise_reverse]
  exact h.imp (fun hab => fun e => hab e.symm)

theorem call_sim (code : List Instr) : ∀ (fuel : Nat), CallOK code (callFromStack code fuel) (applyFn fuel) := by
  intro fuel
  induction fuel with
  | zero =>
    intro f f' args args' S regs hf hcal hargs
    simp [callFromStack, applyFn]
  | succ fuel ih =>
    intro f f' args args' S regs hf hcal hargs
    have hlen := VRs_length hargs
    have hf0 := hf
    show Post code (applyFn (fuel + 1) f args)
      (callFromStack code (fuel + 1) f' args'.length ⟨.int args'.length :: (args'.reverse ++ S), regs⟩) S regs f'
    cases hf with
    | int _ => simp [Val.isCallable] at hcal
    | str _ => simp [Val.isCallable] at hcal
    | query _ => simp [Val.isCallable] at hcal
    | other _ _ => simp [Val.isCallable] at hcal
    | pair _ _ => simp [Val.isCallable] at hcal
    | builtin b =>
      simp only [callFromStack, applyFn, splitArgs_frame, hlen]
      by_cases h1 : args'.length > b.want args'.length
      · simp only [h1, if_true]; exact post_err
      · simp only [h1, if_false]
        by_cases h2 : args'.length = b.want args'.length
        · have h2' : (args'.length == b.want args'.length) = true := by simpa using h2
          simp only [h2', if_true]
          have cr := convertAll_rel (code := code) (ts := b.paramsAt args'.length) hargs
          cases hc : convertAll (b.paramsAt args'.length) args with
          | error e =>
            cases hc' : convertAll (b.paramsAt args'.length) args' with
            | error e' => simp only [hc, hc', ResRels] at cr; subst cr; exact post_err
            | ok _ => simp [hc, hc', ResRels] at cr
          | ok cs =>
            cases hc' : convertAll (b.paramsAt args'.length) args' with
            | error e' => simp [hc, hc', ResRels] at cr
            | ok cs' =>
              simp only [hc, hc', ResRels] at cr
              have sr := step_rel (code := code) (b := b) cr
              cases hs : b.step cs with
              | value v =>
                cases hs' : b.step cs' with
                | value v' => simp only [hs, hs', StepRel] at sr ⊢; exact post_ok sr (fun _ _ _ => rfl)
                | fail => simp [hs, hs', StepRel] at sr
                | tail _ _ => simp [hs, hs', StepRel] at sr
              | fail =>
                cases hs' : b.step cs' with
                | value v' => simp [hs, hs', StepRel] at sr
                | fail => simp only [hs, hs']; exact post_err
                | tail _ _ => simp [hs, hs', StepRel] at sr
              | tail g xs =>
                cases hs' : b.step cs' with
                | value v' => simp [hs, hs', StepRel] at sr
                | fail => simp [hs, hs', StepRel] at sr
                | tail g' xs' =>
                  simp only [hs, hs', StepRel] at sr ⊢
                  obtain ⟨hg, hxs⟩ := sr
                  have hgc := step_tail_callable' (args := args) (by rw [hlen]; exact hc) hs
                  obtain ⟨i1, i2⟩ := ih g g' xs xs' (.int args'.length :: (args'.reverse ++ S)) regs hg hgc hxs
                  rw [List.cons_append]
                  cases happ : applyFn fuel g xs with
                  | error e => rw [i1 e happ]; exact post_err
                  | ok v =>
                    obtain ⟨v', regs', hv, _, hcall⟩ := i2 v happ
                    rw [hcall]
                    refine post_ok hv ?_
                    intro b' hb' hho
                    injection hb' with hb'
                    subst hb'
                    have := step_tail_HO hs'
                    simp [hho] at this
        · have h3 : (args'.length == b.want args'.length) = false := by simpa using h2
          simp only [h3, Bool.false_eq_true, if_false]
          exact post_ok (.part hf0 rfl rfl rfl rfl hargs) (fun _ _ _ => rfl)
    | clo ho hb hm =>
      rename_i ps body env frame bound pc
      simp only [callFromStack, applyFn, hlen]
      by_cases h1 : args'.length = ps.length
      · simp only [h1, beq_self_eq_true, if_true]
        unfold matchLamWith at hm
        cases hts : takeStores ps.length (List.drop pc code) with
        | none => rw [hts] at hm; cases hm
        | some p =>
          obtain ⟨own, is0⟩ := p
          rw [hts] at hm
          simp only [Bool.and_eq_true, decide_eq_true_eq, List.all_eq_true] at hm
          obtain ⟨⟨hlt, hnd⟩, hbody⟩ := hm
          obtain ⟨hcode, hol⟩ := takeStores_spec _ _ _ _ hts
          cases hmb : matchExpr code (ps.zip own ++ frame) body is0 with
          | none => simp [hmb] at hbody
          | some tl =>
            simp only [hmb] at hbody
            have htl : ∃ tl', tl = .discard :: .ret :: tl' := by
              cases tl with
              | nil => simp at hbody
              | cons i1 tl1 =>
                cases i1 <;> (try (simp at hbody; done))
                cases tl1 with
                | nil => simp at hbody
                | cons i2 tl2 =>
                  cases i2 <;> (try (simp at hbody; done))
                  exact ⟨tl2, rfl⟩
            obtain ⟨tl', rfl⟩ := htl
            cases hsc : Expr.regScan bound ps false body with
            | none => simp [hsc] at hb
            | some d' =>
              have hal : args.length = ps.length := by rw [hlen, h1]
              have houter : Outer (ps.zip args ++ env) (ps.zip own ++ frame) bound ps := by
                intro s hs1 hs2
                rw [lookup_zip_notin ps args env s hs1, lookup_zip_notin ps own frame s hs1]
                exact ho s hs2
              have hclean : Clean code (ps.zip args ++ env) (ps.zip own ++ frame) ps
                  (storeAll own.reverse args'.reverse regs) := by
                intro s hs1
                obtain ⟨r, v, v', e1, e2, e3, e4⟩ := lookup_zip3 ps own args args' frame env s hol.symm hal.symm hargs hs1
                refine ⟨r, v, v', e1, ?_, e2, ?_, e4⟩
                · have := (List.of_mem_zip e3).1
                  exact hlt r this
                · exact storeAll_lookup _ _ _ (nodup_reverse' hnd) r v' (zip_reverse_mem (by rw [hol, h1]) e3)
              obtain ⟨s1, s2⟩ := expr_sim (call := callFromStack code fuel) (app := applyFn fuel) ih body bound ps
                (ps.zip args ++ env) (ps.zip own ++ frame) false d' is0 (.discard :: .ret :: tl')
                (.int ps.length :: S) (storeAll own.reverse args'.reverse regs) hsc hmb houter (fun _ => hclean)
              have hex : execList (callFromStack code fuel) (List.drop pc code)
                  ⟨.int ps.length :: (args'.reverse ++ S), regs⟩ =
                  execList (callFromStack code fuel) is0 ⟨.int ps.length :: S, storeAll own.reverse args'.reverse regs⟩ := by
                rw [hcode]
                exact exec_stores _ _ own.reverse args'.reverse S regs is0 (by simp [hol, h1])
                  (fun o ho' => hlt o (by simpa using ho'))
              rw [hex]
              cases hev : evalWith (applyFn fuel) (ps.zip args ++ env) body with
              | error e => rw [s1 e hev]; exact post_err
              | ok v =>
                obtain ⟨v', regs', hv, _, hexb⟩ := s2 v hev
                rw [hexb]
                simp only [execList]
                exact post_ok hv (fun b hb' _ => by cases hb')
      · have h1' : (args'.length == ps.length) = false := by simpa using h1
        simp only [h1', Bool.false_eq_true, if_false]
        by_cases h2 : args'.length < ps.length
        · simp only [h2, if_true, splitArgs_frame]
          exact post_ok (.part hf0 rfl rfl rfl rfl hargs) (fun _ hb' _ => by cases hb')
        · simp only [h2, if_false]; exact post_err
    | part hg h1 h2 hgc hgv hbs =>
      rename_i g g' bs bs' snap m
      have hbl := VRs_length hbs
      simp only [callFromStack, applyFn, h1, h2, hlen, hbl]
      by_cases e1 : args'.length + bs'.length = m
      · simp only [e1, beq_self_eq_true, if_true]
        have hl2 : ¬ (bs'.reverse ++ (args'.reverse ++ S)).length < m := by
          simp only [List.length_append, List.length_reverse]; omega
        simp only [hl2, if_false]
        obtain ⟨i1, i2⟩ := ih g g' (args ++ bs) (args' ++ bs') S snap hg hgc (VRs_append hargs hbs)
        have e2 : bs'.reverse ++ (args'.reverse ++ S) = (args' ++ bs').reverse ++ S := by simp
        have e3 : (args' ++ bs').length = m := by simp [e1]
        have e4 : ((args'.length : Int) + (bs'.length : Int)) = (((args' ++ bs').length : Nat) : Int) := by simp
        rw [e2, ← e3]
        cases happ : applyFn fuel g (args ++ bs) with
        | error e =>
          have := i1 e happ
          simp only [e3] at this ⊢
          first
            | (rw [this]; exact post_err)
            | (rw [e4, e3, this]; exact post_err)
        | ok v =>
          obtain ⟨v', regs', hv, _, hcall⟩ := i2 v happ
          simp only [e3] at hcall ⊢
          first
            | (rw [hcall]; exact post_ok hv (fun b hb' _ => by cases hb'))
            | (rw [e4, e3, hcall]; exact post_ok hv (fun b hb' _ => by cases hb'))
      · have e1' : (args'.length + bs'.length == m) = false := by simpa using e1
        simp only [e1', Bool.false_eq_true, if_false]
        by_cases e2 : args'.length + bs'.length < m
        · simp only [e2, if_true, splitArgs_frame]
          refine post_ok (.part (m := m - bs.length) hf0 ?_ ?_ rfl rfl hargs) (fun b hb' _ => by cases hb')
          · simp [Val.arity, h1]
          · simp [Val.arity, h2, hbl]
        · simp only [e2, if_false]; exact post_err

theorem VR_obs : ∀ (v v' : Val), VR code v v' → v.obs = v'.obs
  | .int _, _, h => by cases h; rfl
  | .str _, _, h => by cases h; rfl
  | .query _, _, h => by cases h; rfl
  | .other _ _, _, h => by cases h; rfl
  | .pair a b, _, h => by
    cases h with
    | pair h1 h2 => simp [Val.obs, VR_obs a _ h1, VR_obs b _ h2]
  | .builtin _, _, h => by cases h; rfl
  | .closure _ _ _, _, h => by
    have := VR_arity h
    cases h; simp [Val.obs, Val.arity]
  | .lam _ _, _, h => by cases h
  | .part _ _ _, _, h => by
    have := VR_arity h
    cases h; simp only [Val.obs]; rw [this]

end B6.Lemmas.VMLambda
