import B6.Lemmas.Mutable
/-!
The search-index invariant of `MutableOverlayWorld` and its preservation (C12 `index_inv_step`), and
what `FindFeatures` returns given the invariant.
-/
namespace B6.Model.Mutable

/-- `index[t]` = the strictly increasing list of the overlay features whose current tags produce `t` -/
structure IndexInv (l : Layer) : Prop where
  sorted : ∀ t, Sorted (postings l.index t)
  mem : ∀ t id, id ∈ postings l.index t ↔ ∃ f, AMap.get l.feats id = some f ∧ t ∈ tokensFor f

/-- tag lists as OSM has them: one tag per key, no `=` inside keys -/
def TagsOK (ts : List Tag) : Prop := (ts.map (·.1)).Nodup ∧ ∀ tg ∈ ts, keyOK tg.1

def Layer.TagsOK (l : Layer) : Prop := ∀ id f, AMap.get l.feats id = some f → Mutable.TagsOK f.tags

theorem mem_tokensFor (f : Feature) (t : Token) : t ∈ tokensFor f ↔ ∃ tg ∈ f.tags, tokenForTag tg = some t := by
  simp [tokensFor, List.mem_filterMap]

theorem mem_tagSet (ts : List Tag) (tag tg : Tag) (hn : (ts.map (·.1)).Nodup) :
    tg ∈ tagSet ts tag ↔ tg = tag ∨ (tg ∈ ts ∧ tg.1 ≠ tag.1) := by
  induction ts with
  | nil => simp [tagSet]
  | cons e r ih =>
    obtain ⟨k, v⟩ := e
    simp only [List.map_cons, List.nodup_cons] at hn
    simp only [tagSet]
    by_cases hk : k = tag.1
    · simp only [hk, ↓reduceIte, List.mem_cons]
      constructor
      · rintro (h | h)
        · exact Or.inl h
        · refine Or.inr ⟨Or.inr h, fun he => hn.1 ?_⟩
          rw [hk, ← he]; exact List.mem_map_of_mem h
      · rintro (h | ⟨h | h, hne⟩)
        · exact Or.inl h
        · rw [h] at hne; exact absurd rfl hne
        · exact Or.inr h
    · simp only [hk, ↓reduceIte, List.mem_cons, ih hn.2]
      constructor
      · rintro (h | h | ⟨h, hne⟩)
        · refine Or.inr ⟨Or.inl h, ?_⟩; rw [h]; exact hk
        · exact Or.inl h
        · exact Or.inr ⟨Or.inr h, hne⟩
      · rintro (h | ⟨h | h, hne⟩)
        · exact Or.inr (Or.inl h)
        · exact Or.inl h
        · exact Or.inr (Or.inr ⟨h, hne⟩)

theorem mem_tagRemove (ts : List Tag) (k : Key) (tg : Tag) : tg ∈ tagRemove ts k ↔ tg ∈ ts ∧ tg.1 ≠ k := by
  simp [tagRemove, List.mem_filter]

theorem get_eq_some_of_mem {ts : List Tag} {k : Key} {v : Val} (hn : (ts.map (·.1)).Nodup) (h : (k, v) ∈ ts) :
    AMap.get ts k = some v := by
  induction ts with
  | nil => simp at h
  | cons e r ih =>
    obtain ⟨a, b⟩ := e
    simp only [List.map_cons, List.nodup_cons] at hn
    rw [AMap.get_cons]
    rcases List.mem_cons.1 h with he | hm
    · cases he; simp
    · have : a ≠ k := fun hak => hn.1 (by rw [hak]; exact List.mem_map_of_mem (f := (·.1)) hm)
      simp [this, ih hn.2 hm]

theorem get_none_of_keys {ts : List Tag} {k : Key} (h : AMap.get ts k = none) : ∀ tg ∈ ts, tg.1 ≠ k := by
  intro tg htg hk
  have : k ∈ AMap.keys ts := by rw [← hk]; exact List.mem_map_of_mem (f := (·.1)) htg
  rw [AMap.mem_keys_iff, h] at this
  simp at this

theorem tagsOK_tagSet {ts : List Tag} {tag : Tag} (h : TagsOK ts) (hk : keyOK tag.1) : TagsOK (tagSet ts tag) := by
  refine ⟨?_, fun tg htg => ?_⟩
  · have hn := h.1
    clear h
    induction ts with
    | nil => simp [tagSet]
    | cons e r ih =>
      obtain ⟨a, b⟩ := e
      simp only [List.map_cons, List.nodup_cons] at hn
      simp only [tagSet]
      by_cases ha : a = tag.1
      · simp only [ha, ↓reduceIte, List.map_cons, List.nodup_cons]
        rw [ha] at hn; exact hn
      · simp only [ha, ↓reduceIte, List.map_cons, List.nodup_cons]
        refine ⟨fun hm => ?_, ih hn.2⟩
        obtain ⟨tg, htg, hkk⟩ := List.mem_map.1 hm
        rcases (mem_tagSet r tag tg hn.2).1 htg with he | ⟨hm', _⟩
        · rw [he] at hkk; exact ha hkk.symm
        · exact hn.1 (by rw [← hkk]; exact List.mem_map_of_mem (f := (·.1)) hm')
  · rcases (mem_tagSet ts tag tg h.1).1 htg with he | ⟨hm, _⟩
    · rw [he]; exact hk
    · exact h.2 tg hm

theorem tagsOK_tagRemove {ts : List Tag} {k : Key} (h : TagsOK ts) : TagsOK (tagRemove ts k) := by
  refine ⟨?_, fun tg htg => h.2 tg ((mem_tagRemove ts k tg).1 htg).1⟩
  unfold tagRemove
  exact List.Nodup.sublist (List.Sublist.map _ List.filter_sublist) h.1

/-- a well-formed tag list produces every token once — so the set difference `diffTokens` of the model
is what the multiset merge of `sortAndDiffTokens` computes on the real token lists -/
theorem tokens_nodup {ts : List Tag} (h : TagsOK ts) : (ts.filterMap tokenForTag).Nodup := by
  induction ts with
  | nil => simp
  | cons e r ih =>
    have hn := h.1
    simp only [List.map_cons, List.nodup_cons] at hn
    have hr : TagsOK r := ⟨hn.2, fun tg htg => h.2 tg (List.mem_cons_of_mem _ htg)⟩
    simp only [List.filterMap_cons]
    cases ht : tokenForTag e with
    | none => exact ih hr
    | some t =>
      simp only [List.nodup_cons]
      refine ⟨fun hm => ?_, ih hr⟩
      obtain ⟨tg, htg, htok⟩ := List.mem_filterMap.1 hm
      have := token_key_inj htok ht (h.2 tg (List.mem_cons_of_mem _ htg)) (h.2 e List.mem_cons_self)
      exact hn.1 (by rw [← this]; exact List.mem_map_of_mem (f := (·.1)) htg)

/-- re-indexing one feature from the tokens it had to the tokens it has -/
theorem reindex_self {ix : List (Token × List Id)} {id : Id} {before after : List Token}
    (H : ∀ t, id ∈ postings ix t ↔ t ∈ before) (t : Token) :
    id ∈ postings (reindex ix id before after) t ↔ t ∈ after := by
  simp only [reindex, postings_indexAdd, postings_indexRemove, H, diffTokens, List.mem_filter,
    List.contains_eq_mem, Bool.not_eq_true', decide_eq_false_iff_not, and_true]
  by_cases h0 : t ∈ before <;> by_cases h1 : t ∈ after <;> simp [h0, h1]

theorem reindex_other {ix : List (Token × List Id)} {id y : Id} {before after : List Token} (hy : y ≠ id) (t : Token) :
    y ∈ postings (reindex ix id before after) t ↔ y ∈ postings ix t := by
  simp [reindex, postings_indexAdd, postings_indexRemove, hy]

theorem reindex_sorted {ix : List (Token × List Id)} {id : Id} {before after : List Token}
    (h : ∀ t, Sorted (postings ix t)) : ∀ t, Sorted (postings (reindex ix id before after) t) :=
  sorted_indexAdd _ _ _ (sorted_indexRemove _ _ _ h)

/-- what the index says about one overlay feature -/
theorem IndexInv.self {l : Layer} (h : IndexInv l) {id : Id} {f : Feature} (hf : AMap.get l.feats id = some f) (t : Token) :
    id ∈ postings l.index t ↔ t ∈ tokensFor f := by
  rw [h.mem]
  constructor
  · rintro ⟨g, hg, ht⟩; rw [hf] at hg; cases hg; exact ht
  · intro ht; exact ⟨f, hf, ht⟩

theorem IndexInv.absent {l : Layer} (h : IndexInv l) {id : Id} (hf : AMap.get l.feats id = none) (t : Token) :
    id ∉ postings l.index t := by
  rw [h.mem]
  rintro ⟨g, hg, _⟩; rw [hf] at hg; cases hg

theorem indexInv_adopt {l : Layer} {f : Feature} (h : IndexInv l) (hf : AMap.get l.feats f.id = none) :
    IndexInv (l.adopt f) := by
  refine ⟨sorted_indexAdd _ _ _ h.sorted, fun t y => ?_⟩
  simp only [Layer.adopt, postings_indexAdd, AMap.get_set]
  by_cases hy : y = f.id
  · subst hy
    have := h.absent hf t
    simp [this]
  · simp only [hy, and_false, false_or, ↓reduceIte]
    exact h.mem t y

theorem indexInv_same {l l' : Layer} (hs : l.Same l') (h : IndexInv l) : IndexInv l' := by
  refine ⟨fun t => by rw [hs.index]; exact h.sorted t, fun t y => ?_⟩
  rw [hs.index, hs.feats]; exact h.mem t y

theorem indexInv_addTag {b : View} {l l' : Layer} {id : Id} {tag : Tag}
    (hb : b.IdsOK) (hl : l.FeatsId) (hi : IndexInv l)
    (h : l.addTag b id tag = .ok l') : IndexInv l' := by
  unfold Layer.addTag at h
  cases hf : AMap.get l.feats id with
  | some f =>
    simp only [hf, Except.ok.injEq] at h
    subst h
    have hfid : f.id = id := hl id f hf
    refine ⟨reindex_sorted hi.sorted, fun t y => ?_⟩
    simp only [AMap.get_set]
    by_cases hy : y = id
    · subst hy
      simp only [↓reduceIte, Option.some.injEq, exists_eq_left']
      rw [hfid]
      exact reindex_self (fun t => hi.self hf t) t
    · simp only [hy, ↓reduceIte]
      rw [reindex_other (by rw [hfid]; exact hy)]
      exact hi.mem t y
  | none =>
    simp only [hf] at h
    cases hv : l.find b id with
    | none => simp [hv] at h
    | some fv =>
      simp only [hv] at h
      have hfid : fv.f.id = id := view_idsOK hb hl (l.loc b) id fv (by rw [find_view]; exact hv)
      split at h
      · cases h
        exact indexInv_adopt hi (by simp only [hfid]; exact hf)
      · cases h
        exact ⟨hi.sorted, hi.mem⟩

theorem indexInv_removeTag {b : View} {l l' : Layer} {id : Id} {key : Key}
    (hb : b.IdsOK) (hl : l.FeatsId) (hi : IndexInv l)
    (h : l.removeTag b id key = .ok l') : IndexInv l' := by
  unfold Layer.removeTag at h
  cases hf : AMap.get l.feats id with
  | some f =>
    simp only [hf, Except.ok.injEq] at h
    subst h
    have hfid : f.id = id := hl id f hf
    refine ⟨reindex_sorted hi.sorted, fun t y => ?_⟩
    simp only [AMap.get_set]
    by_cases hy : y = id
    · subst hy
      simp only [↓reduceIte, Option.some.injEq, exists_eq_left']
      rw [hfid]
      exact reindex_self (fun t => hi.self hf t) t
    · simp only [hy, ↓reduceIte]
      rw [reindex_other (by rw [hfid]; exact hy)]
      exact hi.mem t y
  | none =>
    simp only [hf] at h
    cases hv : l.find b id with
    | none => simp [hv] at h
    | some fv =>
      simp only [hv] at h
      have hfid : fv.f.id = id := view_idsOK hb hl (l.loc b) id fv (by rw [find_view]; exact hv)
      split at h
      · cases h; exact hi
      · split at h
        · cases h
          exact indexInv_adopt hi (by simp only [hfid]; exact hf)
        · cases h
          exact ⟨hi.sorted, hi.mem⟩

/-! ### `AddFeature` -/

theorem copy_fold2 (nid : Id) (rs : List FV) (acc : Layer × List Feature) :
    ∃ news, (rs.foldl (copyStep nid) acc).2 = acc.2 ++ news ∧
      (∀ c ∈ news, AMap.get (rs.foldl (copyStep nid) acc).1.feats c.id = some c ∧
        AMap.get acc.1.feats c.id = none ∧ c.id ≠ nid) ∧
      (∀ id g, AMap.get (rs.foldl (copyStep nid) acc).1.feats id = some g → AMap.get acc.1.feats id = none → g ∈ news) := by
  induction rs generalizing acc with
  | nil => exact ⟨[], by simp, by simp, fun id g h1 h2 => by simp at h1; rw [h1] at h2; cases h2⟩
  | cons r rest ih =>
    simp only [List.foldl_cons]
    by_cases hc : (AMap.contains acc.1.feats r.f.id || r.f.id == nid) = true
    · have hstep : copyStep nid acc r = acc := by simp [copyStep, hc]
      rw [hstep]; exact ih acc
    · have hstep : copyStep nid acc r =
          ({ acc.1 with feats := AMap.set acc.1.feats r.f.id r.f }, acc.2 ++ [r.f]) := by
        simp [copyStep, hc]
      simp only [Bool.or_eq_true, not_or, Bool.not_eq_true, beq_eq_false_iff_ne] at hc
      have hnone : AMap.get acc.1.feats r.f.id = none := by
        have := hc.1; simp [AMap.contains] at this; exact this
      rw [hstep]
      obtain ⟨news, h1, h2, h3⟩ := ih ({ acc.1 with feats := AMap.set acc.1.feats r.f.id r.f }, acc.2 ++ [r.f])
      have hkeep := (copy_fold nid rest ({ acc.1 with feats := AMap.set acc.1.feats r.f.id r.f }, acc.2 ++ [r.f])).2.1
      refine ⟨r.f :: news, by rw [h1]; simp, fun c hcm => ?_, fun id g hg hn => ?_⟩
      · rcases List.mem_cons.1 hcm with rfl | hcm
        · exact ⟨hkeep _ _ (by simp [AMap.get_set]), hnone, hc.2⟩
        · obtain ⟨a1, a2, a3⟩ := h2 c hcm
          simp only [AMap.get_set] at a2
          by_cases hid : c.id = r.f.id
          · simp [hid] at a2
          · simp only [hid, ↓reduceIte] at a2
            exact ⟨a1, a2, a3⟩
      · by_cases hid : id = r.f.id
        · have := hkeep id r.f (by simp [AMap.get_set, hid])
          rw [this] at hg; cases hg; exact List.mem_cons_self
        · exact List.mem_cons_of_mem _ (h3 id g hg (by simp [AMap.get_set, hid, hn]))

theorem mem_foldCopies (cs : List Feature) :
    ∀ (ix : List (Token × List Id)) (t : Token) (y : Id),
      (y ∈ postings (cs.foldl (fun ix c => indexAdd ix c.id (tokensFor c)) ix) t ↔
        y ∈ postings ix t ∨ ∃ c ∈ cs, c.id = y ∧ t ∈ tokensFor c) := by
  induction cs with
  | nil => intro ix t y; simp
  | cons c r ih =>
    intro ix t y
    simp only [List.foldl_cons, ih, postings_indexAdd, List.mem_cons, exists_eq_or_imp]
    constructor
    · rintro ((⟨h1, h2⟩ | h) | h)
      · exact Or.inr (Or.inl ⟨h2.symm, h1⟩)
      · exact Or.inl h
      · exact Or.inr (Or.inr h)
    · rintro (h | ⟨h1, h2⟩ | h)
      · exact Or.inl (Or.inr h)
      · exact Or.inl (Or.inl ⟨h2, h1.symm⟩)
      · exact Or.inr h

theorem sorted_foldCopies (cs : List Feature) :
    ∀ (ix : List (Token × List Id)), (∀ t, Sorted (postings ix t)) →
      ∀ t, Sorted (postings (cs.foldl (fun ix c => indexAdd ix c.id (tokensFor c)) ix) t) := by
  induction cs with
  | nil => intro ix h t; simpa using h t
  | cons c r ih =>
    intro ix h t
    simp only [List.foldl_cons]
    exact ih _ (sorted_indexAdd _ _ _ h) t

theorem existingTokens_spec {l : Layer} (hi : IndexInv l) (id : Id) (t : Token) :
    id ∈ postings l.index t ↔ t ∈ existingTokens l id := by
  unfold existingTokens
  cases he : AMap.get l.feats id with
  | some e => exact hi.self he t
  | none => simp [hi.absent he t]

theorem indexInv_commit {l : Layer} {f : Feature} {rs : List FV} (hi : IndexInv l) : IndexInv (l.commit f rs) := by
  have hc := copy_fold f.id rs (l, [])
  obtain ⟨news, hn1, hn2, hn3⟩ := copy_fold2 f.id rs (l, [])
  simp only [List.nil_append] at hn1 hc hn2 hn3
  have hidx : (copyReferrers f.id l rs).1.index = l.index := hc.1.2.1
  have hcopies : (copyReferrers f.id l rs).2 = news := hn1
  refine ⟨?_, fun t y => ?_⟩
  · intro t
    simp only [Layer.commit]
    apply sorted_foldCopies
    exact reindex_sorted (by rw [hidx]; exact hi.sorted)
  · simp only [Layer.commit, mem_foldCopies, AMap.get_set, hidx, hcopies]
    by_cases hy : y = f.id
    · subst hy
      simp only [↓reduceIte, Option.some.injEq, exists_eq_left']
      have hcopy : ¬ ∃ c ∈ news, c.id = f.id ∧ t ∈ tokensFor c := by
        rintro ⟨c, hcm, he, _⟩; exact (hn2 c hcm).2.2 he
      simp only [hcopy, or_false]
      exact reindex_self (fun t => existingTokens_spec hi f.id t) t
    · simp only [hy, ↓reduceIte, reindex_other hy]
      constructor
      · rintro (h | ⟨c, hcm, he, ht⟩)
        · obtain ⟨g, hg, ht⟩ := (hi.mem t y).1 h
          exact ⟨g, hc.2.1 y g hg, ht⟩
        · exact ⟨c, by rw [← he]; exact (hn2 c hcm).1, ht⟩
      · rintro ⟨g, hg, ht⟩
        rcases hc.2.2 y g hg with h | ⟨h1, _, r, _, _, h4⟩
        · exact Or.inl ((hi.mem t y).2 ⟨g, h, ht⟩)
        · exact Or.inr ⟨g, hn3 y g hg h1, h4, ht⟩

theorem indexInv_addFeature {b : View} {o : Oracle} {l l' : Layer} {f : Feature} {r : Option Err}
    (hi : IndexInv l) (h : l.addFeature b o f = (l', r)) : IndexInv l' := by
  rw [addFeature_eq] at h
  split at h
  · cases h; exact hi
  · split at h
    · cases h; exact indexInv_commit hi
    · split at h
      · cases h; exact indexInv_same (checkReferrers_same b o l f _) hi
      · cases h; exact indexInv_commit (indexInv_same (checkReferrers_same b o l f _) hi)

/-! ### well-formed tag lists are preserved -/

theorem filterMap_keys_sublist {α : Type} (l : List (Key × α)) (g : Key × α → Option Tag)
    (hg : ∀ e tg, g e = some tg → tg.1 = e.1) : ((l.filterMap g).map (·.1)).Sublist (l.map (·.1)) := by
  induction l with
  | nil => simp
  | cons e r ih =>
    simp only [List.filterMap_cons, List.map_cons]
    cases h : g e with
    | none => exact List.Sublist.cons _ ih
    | some tg =>
      simp only [List.map_cons]
      rw [hg e tg h]
      exact List.Sublist.cons_cons _ ih

theorem modExisting_key (mods : Mods) (e tg : Tag) (h : modExisting mods e = some tg) : tg.1 = e.1 := by
  unfold modExisting at h
  split at h
  · cases h; rfl
  · cases h
  · cases h; rfl

theorem modNew_key (mods : Mods) (orig : List Tag) (e : Key × Mod) (tg : Tag) (h : modNew mods orig e = some tg) :
    tg.1 = e.1 ∧ (AMap.get orig e.1).isNone = true := by
  unfold modNew at h
  split at h
  · split at h
    · rename_i hn; cases h; exact ⟨rfl, hn⟩
    · cases h
  · cases h

/-- modifications with one entry per key, `=`-free and plain (unindexed) keys -/
def ModsOK1 (m : Mods) : Prop := (m.map (·.1)).Nodup ∧ ∀ e ∈ m, keyOK e.1 ∧ indexedKey e.1 = false

theorem tagsOK_applyMods {m : Mods} {ts : List Tag} (hm : ModsOK1 m) (ht : TagsOK ts) : TagsOK (applyMods m ts) := by
  unfold applyMods
  refine ⟨?_, fun tg htg => ?_⟩
  · rw [List.map_append, List.nodup_append]
    refine ⟨List.Nodup.sublist (filterMap_keys_sublist ts _ (modExisting_key m)) ht.1,
            List.Nodup.sublist (filterMap_keys_sublist m _ (fun e tg h => (modNew_key m ts e tg h).1)) hm.1, ?_⟩
    intro a ha b hb hab
    obtain ⟨tga, htga, rfl⟩ := List.mem_map.1 ha
    obtain ⟨tgb, htgb, rfl⟩ := List.mem_map.1 hb
    obtain ⟨e1, he1, h1⟩ := List.mem_filterMap.1 htga
    obtain ⟨e2, he2, h2⟩ := List.mem_filterMap.1 htgb
    have k1 := modExisting_key m e1 tga h1
    have k2 := modNew_key m ts e2 tgb h2
    have : e1.1 ∈ AMap.keys ts := List.mem_map_of_mem (f := (·.1)) he1
    rw [AMap.mem_keys_iff] at this
    rw [← k1, hab, k2.1] at this
    rw [Option.isNone_iff_eq_none] at k2
    rw [k2.2] at this
    simp at this
  · rcases List.mem_append.1 htg with h | h
    · obtain ⟨e, he, h1⟩ := List.mem_filterMap.1 h
      rw [modExisting_key m e tg h1]; exact ht.2 e he
    · obtain ⟨e, he, h1⟩ := List.mem_filterMap.1 h
      rw [(modNew_key m ts e tg h1).1]; exact (hm.2 e he).1

theorem keys_erase_sublist {α β : Type} [DecidableEq α] (m : List (α × β)) (k : α) :
    ((AMap.erase m k).map (·.1)).Sublist (m.map (·.1)) :=
  List.Sublist.map _ List.filter_sublist

theorem modsOK1_set {m : Mods} {k : Key} {v : Mod} (hm : ModsOK1 m) (hk : keyOK k) (hp : indexedKey k = false) :
    ModsOK1 (AMap.set m k v) := by
  unfold AMap.set
  refine ⟨?_, fun e he => ?_⟩
  · simp only [List.map_cons, List.nodup_cons]
    refine ⟨fun hmem => ?_, List.Nodup.sublist (keys_erase_sublist m k) hm.1⟩
    have : k ∈ AMap.keys (AMap.erase m k) := hmem
    rw [AMap.mem_keys_iff, AMap.get_erase] at this
    simp at this
  · rcases List.mem_cons.1 he with rfl | he
    · exact ⟨hk, hp⟩
    · exact hm.2 e (List.mem_filter.1 he).1

theorem modsOK1_nil : ModsOK1 [] := ⟨by simp, by simp⟩

/-- every recorded modification table is well formed -/
def Layer.ModsOK (l : Layer) : Prop := ∀ id, ModsOK1 (modsOf l.mods id)

/-- the base hands out well-formed tag lists -/
def View.TagsOK (v : View) : Prop := ∀ id fv, v.find id = some fv → Mutable.TagsOK fv.f.tags

theorem find_tagsOK {b : View} {l : Layer} (hb : b.TagsOK) (hl : l.TagsOK) (hm : l.ModsOK) :
    ∀ id fv, l.find b id = some fv → Mutable.TagsOK fv.f.tags := by
  intro id fv h
  cases hf : AMap.get l.feats id with
  | some f => rw [find_overlay hf] at h; cases h; exact hl id f hf
  | none =>
    rw [find_base hf] at h
    cases hb' : b.find id with
    | none => simp [hb'] at h
    | some fv0 =>
      simp only [hb', Option.map_some, Option.some.injEq] at h
      subst h
      exact tagsOK_applyMods (hm id) (hb id fv0 hb')

theorem view_tagsOK {b : View} {l : Layer} (hb : b.TagsOK) (hl : l.TagsOK) (hm : l.ModsOK) (ll : Id → Option Pt) :
    (l.view b ll).TagsOK := fun id fv h => find_tagsOK hb hl hm id fv (by rw [find_view] at h; exact h)

/-- everything the index and search theorems need about one world object -/
structure Layer.WF (b : View) (l : Layer) : Prop where
  featsId : l.FeatsId
  index : IndexInv l
  tags : l.TagsOK
  mods : l.ModsOK

theorem wf_empty (b : View) : Layer.empty.WF b :=
  ⟨fun id f h => by simp [Layer.empty] at h,
   ⟨fun t => by simp [Layer.empty, postings, Sorted], fun t id => by simp [Layer.empty, postings]⟩,
   fun id f h => by simp [Layer.empty] at h,
   fun id => by simp [Layer.empty, modsOf]; exact modsOK1_nil⟩

theorem tagsOK_adopt {l : Layer} {f : Feature} (hl : l.TagsOK) (hf : TagsOK f.tags) : (l.adopt f).TagsOK := by
  intro id g hg
  simp only [Layer.adopt, AMap.get_set] at hg
  by_cases h : id = f.id
  · simp [h] at hg; subst hg; exact hf
  · simp [h] at hg; exact hl id g hg

theorem modsOK_adopt {l : Layer} {f : Feature} (hm : l.ModsOK) : (l.adopt f).ModsOK := by
  intro id
  simp only [Layer.adopt, modsOf_erase]
  by_cases h : id = f.id
  · simp [h]; exact modsOK1_nil
  · simp [h]; exact hm id

theorem wf_addTag {b : View} {l l' : Layer} {id : Id} {tag : Tag}
    (hb : b.IdsOK) (hbt : b.TagsOK) (hw : l.WF b) (hk : keyOK tag.1)
    (h : l.addTag b id tag = .ok l') : l'.WF b := by
  refine ⟨featsId_addTag hw.featsId h, indexInv_addTag hb hw.featsId hw.index h, ?_, ?_⟩
  · unfold Layer.addTag at h
    cases hf : AMap.get l.feats id with
    | some f =>
      simp only [hf, Except.ok.injEq] at h
      subst h
      intro id' g hg
      simp only [AMap.get_set] at hg
      by_cases hid : id' = id
      · simp [hid] at hg; subst hg; exact tagsOK_tagSet (hw.tags id f hf) hk
      · simp [hid] at hg; exact hw.tags id' g hg
    | none =>
      simp only [hf] at h
      cases hv : l.find b id with
      | none => simp [hv] at h
      | some fv =>
        simp only [hv] at h
        split at h
        · cases h; exact tagsOK_adopt hw.tags (tagsOK_tagSet (find_tagsOK hbt hw.tags hw.mods id fv hv) hk)
        · cases h; exact hw.tags
  · unfold Layer.addTag at h
    cases hf : AMap.get l.feats id with
    | some f => simp only [hf, Except.ok.injEq] at h; subst h; exact hw.mods
    | none =>
      simp only [hf] at h
      cases hv : l.find b id with
      | none => simp [hv] at h
      | some fv =>
        simp only [hv] at h
        split at h
        · cases h; exact modsOK_adopt hw.mods
        · rename_i hplain
          cases h
          intro id'
          simp only [modsOf_modsSet]
          by_cases hid : id' = id
          · simp only [hid, ↓reduceIte]
            exact modsOK1_set (hw.mods id) hk (by
              have : copyOnAdd fv.f tag.1 = false := by simpa using hplain
              simp only [copyOnAdd, Bool.or_eq_false_iff] at this; exact this.1)
          · simp only [hid, ↓reduceIte]; exact hw.mods id'

theorem wf_removeTag {b : View} {l l' : Layer} {id : Id} {key : Key}
    (hb : b.IdsOK) (hbt : b.TagsOK) (hw : l.WF b)
    (h : l.removeTag b id key = .ok l') : l'.WF b := by
  refine ⟨featsId_removeTag hw.featsId h, indexInv_removeTag hb hw.featsId hw.index h, ?_, ?_⟩
  · unfold Layer.removeTag at h
    cases hf : AMap.get l.feats id with
    | some f =>
      simp only [hf, Except.ok.injEq] at h
      subst h
      intro id' g hg
      simp only [AMap.get_set] at hg
      by_cases hid : id' = id
      · simp [hid] at hg; subst hg; exact tagsOK_tagRemove (hw.tags id f hf)
      · simp [hid] at hg; exact hw.tags id' g hg
    | none =>
      simp only [hf] at h
      cases hv : l.find b id with
      | none => simp [hv] at h
      | some fv =>
        simp only [hv] at h
        split at h
        · cases h; exact hw.tags
        · split at h
          · cases h; exact tagsOK_adopt hw.tags (tagsOK_tagRemove (find_tagsOK hbt hw.tags hw.mods id fv hv))
          · cases h; exact hw.tags
  · unfold Layer.removeTag at h
    cases hf : AMap.get l.feats id with
    | some f => simp only [hf, Except.ok.injEq] at h; subst h; exact hw.mods
    | none =>
      simp only [hf] at h
      cases hv : l.find b id with
      | none => simp [hv] at h
      | some fv =>
        simp only [hv] at h
        split at h
        · cases h; exact hw.mods
        · rename_i old hg
          split at h
          · cases h; exact modsOK_adopt hw.mods
          · rename_i hplain
            cases h
            have hkey : keyOK key := (find_tagsOK hbt hw.tags hw.mods id fv hv).2 (key, old) (AMap.get_some_mem hg)
            intro id'
            simp only [modsOf_modsSet]
            by_cases hid : id' = id
            · simp only [hid, ↓reduceIte]
              exact modsOK1_set (hw.mods id) hkey (by
                have : copyOnRemove fv.f key = false := by simpa using hplain
                simp only [copyOnRemove, Bool.or_eq_false_iff] at this; exact this.1)
            · simp only [hid, ↓reduceIte]; exact hw.mods id'

theorem wf_same {b : View} {l l' : Layer} (hs : l.Same l') (hw : l.WF b) : l'.WF b :=
  ⟨featsId_same hs hw.featsId, indexInv_same hs hw.index,
   fun id g hg => hw.tags id g (by rw [← hs.feats]; exact hg),
   fun id => by rw [hs.mods]; exact hw.mods id⟩

theorem wf_commit {b : View} {l : Layer} {f : Feature} {rs : List FV}
    (hw : l.WF b) (hf : TagsOK f.tags) (hrs : ∀ r ∈ rs, TagsOK r.f.tags) : (l.commit f rs).WF b := by
  refine ⟨featsId_commit hw.featsId, indexInv_commit hw.index, fun id g hg => ?_, fun id => ?_⟩
  · rw [commit_feats] at hg
    by_cases hid : id = f.id
    · simp [hid] at hg; subst hg; exact hf
    · simp only [hid, ↓reduceIte, copyReferrers] at hg
      rcases (copy_fold f.id rs (l, [])).2.2 id g hg with h | ⟨_, _, r, hr, h3, _⟩
      · exact hw.tags id g h
      · rw [← h3]; exact hrs r hr
  · rw [commit_mods, modsOf_erase]
    by_cases hid : id = f.id
    · simp [hid]; exact modsOK1_nil
    · simp [hid]; exact hw.mods id

theorem wf_addFeature {b : View} {o : Oracle} {l l' : Layer} {f : Feature} {r : Option Err}
    (hb : b.IdsOK) (hbt : b.TagsOK) (hw : l.WF b) (hf : TagsOK f.tags)
    (h : l.addFeature b o f = (l', r)) : l'.WF b := by
  have hrs : ∀ r ∈ l.referrers b f.id, TagsOK r.f.tags := fun r hr =>
    find_tagsOK hbt hw.tags hw.mods r.f.id r (referrers_find hb hw.featsId f.id r hr)
  rw [addFeature_eq] at h
  split at h
  · cases h; exact hw
  · split at h
    · cases h; exact wf_commit hw hf hrs
    · split at h
      · cases h; exact wf_same (checkReferrers_same b o l f _) hw
      · cases h; exact wf_commit (wf_same (checkReferrers_same b o l f _) hw) hf hrs

/-! ### whole operations -/

/-- the arguments of an operation are well formed: one tag per key, no `=` in keys -/
def changeOK : Change → Prop
  | .addFeatures fs => ∀ f ∈ fs, TagsOK f.tags
  | .addTags ts => ∀ e ∈ ts, keyOK e.2.1
  | .removeTags _ => True

def opOK : Op → Prop
  | .addFeature f => TagsOK f.tags
  | .addTag _ t => keyOK t.1
  | .removeTag _ _ => True
  | .merged cs => ∀ c ∈ cs, changeOK c

theorem wf_applyFeatures {b : View} {o : Oracle} (hb : b.IdsOK) (hbt : b.TagsOK) (fs : List Feature) :
    ∀ (l l' : Layer) (r : Option Err), l.WF b → (∀ f ∈ fs, TagsOK f.tags) → applyFeatures b o l fs = (l', r) → l'.WF b := by
  induction fs with
  | nil => intro l l' r hw _ h; simp only [applyFeatures, Prod.mk.injEq] at h; obtain ⟨rfl, _⟩ := h; exact hw
  | cons f rest ih =>
    intro l l' r hw hok h
    simp only [applyFeatures] at h
    cases hstep : l.addFeature b o f with
    | mk l1 r1 =>
      rw [hstep] at h
      have hw1 := wf_addFeature hb hbt hw (hok f List.mem_cons_self) hstep
      cases r1 with
      | none => exact ih l1 l' r hw1 (fun g hg => hok g (List.mem_cons_of_mem _ hg)) h
      | some e => simp only [Prod.mk.injEq] at h; obtain ⟨rfl, _⟩ := h; exact hw1

theorem wf_applyAddTags {b : View} (hb : b.IdsOK) (hbt : b.TagsOK) (ts : List (Id × Tag)) :
    ∀ (l l' : Layer) (r : Option Err), l.WF b → (∀ e ∈ ts, keyOK e.2.1) → applyAddTags b l ts = (l', r) → l'.WF b := by
  induction ts with
  | nil => intro l l' r hw _ h; simp only [applyAddTags, Prod.mk.injEq] at h; obtain ⟨rfl, _⟩ := h; exact hw
  | cons e rest ih =>
    intro l l' r hw hok h
    obtain ⟨id, t⟩ := e
    simp only [applyAddTags] at h
    cases hstep : l.addTag b id t with
    | ok l1 =>
      rw [hstep] at h
      exact ih l1 l' r (wf_addTag hb hbt hw (hok (id, t) List.mem_cons_self) hstep)
        (fun g hg => hok g (List.mem_cons_of_mem _ hg)) h
    | error e => rw [hstep] at h; simp only [Prod.mk.injEq] at h; obtain ⟨rfl, _⟩ := h; exact hw

theorem wf_applyRemoveTags {b : View} (hb : b.IdsOK) (hbt : b.TagsOK) (ts : List (Id × Key)) :
    ∀ (l l' : Layer) (r : Option Err), l.WF b → applyRemoveTags b l ts = (l', r) → l'.WF b := by
  induction ts with
  | nil => intro l l' r hw h; simp only [applyRemoveTags, Prod.mk.injEq] at h; obtain ⟨rfl, _⟩ := h; exact hw
  | cons e rest ih =>
    intro l l' r hw h
    obtain ⟨id, k⟩ := e
    simp only [applyRemoveTags] at h
    cases hstep : l.removeTag b id k with
    | ok l1 => rw [hstep] at h; exact ih l1 l' r (wf_removeTag hb hbt hw hstep) h
    | error e => rw [hstep] at h; simp only [Prod.mk.injEq] at h; obtain ⟨rfl, _⟩ := h; exact hw

theorem wf_applyAll {b : View} {o : Oracle} (hb : b.IdsOK) (hbt : b.TagsOK) (cs : List Change) :
    ∀ (l l' : Layer) (r : Option Err), l.WF b → (∀ c ∈ cs, changeOK c) → applyAll b o l cs = (l', r) → l'.WF b := by
  induction cs with
  | nil => intro l l' r hw _ h; simp only [applyAll, Prod.mk.injEq] at h; obtain ⟨rfl, _⟩ := h; exact hw
  | cons c rest ih =>
    intro l l' r hw hok h
    simp only [applyAll] at h
    cases hstep : c.apply b o l with
    | mk l1 r1 =>
      rw [hstep] at h
      have hw1 : l1.WF b := by
        have hc := hok c List.mem_cons_self
        cases c with
        | addFeatures fs => exact wf_applyFeatures hb hbt fs l l1 r1 hw hc hstep
        | addTags ts => exact wf_applyAddTags hb hbt ts l l1 r1 hw hc hstep
        | removeTags ts => exact wf_applyRemoveTags hb hbt ts l l1 r1 hw hstep
      cases r1 with
      | none => exact ih l1 l' r hw1 (fun g hg => hok g (List.mem_cons_of_mem _ hg)) h
      | some e => simp only [Prod.mk.injEq] at h; obtain ⟨rfl, _⟩ := h; exact hw1

theorem wf_step {b : View} {o : Oracle} {l l' : Layer} {op : Op} {r : Option Err}
    (hb : b.IdsOK) (hbt : b.TagsOK) (hw : l.WF b) (hok : opOK op) (h : l.step b o op = (l', r)) : l'.WF b := by
  cases op with
  | addFeature f => exact wf_addFeature hb hbt hw hok h
  | addTag id t =>
    simp only [Layer.step] at h
    cases hs : l.addTag b id t with
    | ok l1 => rw [hs] at h; simp only [Prod.mk.injEq] at h; obtain ⟨rfl, _⟩ := h; exact wf_addTag hb hbt hw hok hs
    | error e => rw [hs] at h; simp only [Prod.mk.injEq] at h; obtain ⟨rfl, _⟩ := h; exact hw
  | removeTag id k =>
    simp only [Layer.step] at h
    cases hs : l.removeTag b id k with
    | ok l1 => rw [hs] at h; simp only [Prod.mk.injEq] at h; obtain ⟨rfl, _⟩ := h; exact wf_removeTag hb hbt hw hs
    | error e => rw [hs] at h; simp only [Prod.mk.injEq] at h; obtain ⟨rfl, _⟩ := h; exact hw
  | merged cs =>
    simp only [Layer.step] at h
    rcases mergedApply_cases b o l cs with ⟨e, _, he, _⟩ | ⟨l1, h1, h2⟩ | ⟨l1, e, h1, h2, _⟩
    · rw [he] at h; simp only [Prod.mk.injEq] at h; obtain ⟨rfl, _⟩ := h; exact hw
    · rw [h1] at h; simp only [Prod.mk.injEq] at h; obtain ⟨rfl, _⟩ := h
      exact wf_applyAll hb hbt cs l l1 none hw hok h2
    · rw [h1] at h; simp only [Prod.mk.injEq] at h; obtain ⟨rfl, _⟩ := h
      exact wf_applyAll hb hbt cs l l1 (some e) hw hok h2

theorem wf_runOps {b : View} {o : Oracle} (hb : b.IdsOK) (hbt : b.TagsOK) (ops : List Op) :
    ∀ (l : Layer), l.WF b → (∀ op ∈ ops, opOK op) → (runOps b o l ops).1.WF b := by
  induction ops with
  | nil => intro l hw _; exact hw
  | cons op rest ih =>
    intro l hw hok
    simp only [runOps]
    exact ih _ (wf_step hb hbt hw (hok op List.mem_cons_self) rfl) (fun g hg => hok g (List.mem_cons_of_mem _ hg))

/-! ## What `FindFeatures` and `EachFeature` return -/

theorem mem_foldInsert (xs : List Id) : ∀ (acc : List Id) (y : Id),
    (y ∈ xs.foldl (fun acc id => insertSorted id acc) acc ↔ y ∈ xs ∨ y ∈ acc) := by
  induction xs with
  | nil => intro acc y; simp
  | cons a r ih =>
    intro acc y
    simp only [List.foldl_cons, ih, mem_insertSorted, List.mem_cons]
    constructor
    · rintro (h | h | h)
      · exact Or.inl (Or.inr h)
      · exact Or.inl (Or.inl h)
      · exact Or.inr h
    · rintro ((h | h) | h)
      · exact Or.inr (Or.inl h)
      · exact Or.inl h
      · exact Or.inr (Or.inr h)

theorem sorted_foldInsert (xs : List Id) : ∀ (acc : List Id), Sorted acc →
    Sorted (xs.foldl (fun acc id => insertSorted id acc) acc) := by
  induction xs with
  | nil => intro acc h; exact h
  | cons a r ih => intro acc h; exact ih _ (sorted_insertSorted _ _ h)

/-- plain-tag modifications do not change the tokens of a feature -/
theorem tokens_applyMods {m : Mods} (hm : ModsOK1 m) (ts : List Tag) (t : Token) :
    t ∈ (applyMods m ts).filterMap tokenForTag ↔ t ∈ ts.filterMap tokenForTag := by
  have hplain : ∀ k, indexedKey k = true → AMap.get m k = none := by
    intro k hk
    cases h : AMap.get m k with
    | none => rfl
    | some v =>
      have := (hm.2 (k, v) (AMap.get_some_mem h)).2
      simp only at this
      rw [hk] at this; cases this
  simp only [List.mem_filterMap]
  constructor
  · rintro ⟨tg, htg, ht⟩
    have hidx : indexedKey tg.1 = true := by rw [← tokenForTag_isSome, ht]; rfl
    unfold applyMods at htg
    rcases List.mem_append.1 htg with h | h
    · obtain ⟨e, he, h1⟩ := List.mem_filterMap.1 h
      have hk := modExisting_key m e tg h1
      unfold modExisting at h1
      rw [hplain e.1 (by rw [← hk]; exact hidx)] at h1
      simp only [Option.some.injEq] at h1
      subst h1
      exact ⟨e, he, ht⟩
    · obtain ⟨e, he, h1⟩ := List.mem_filterMap.1 h
      have hk := (modNew_key m ts e tg h1).1
      have := (hm.2 e he).2
      rw [← hk, hidx] at this; cases this
  · rintro ⟨tg, htg, ht⟩
    have hidx : indexedKey tg.1 = true := by rw [← tokenForTag_isSome, ht]; rfl
    refine ⟨tg, ?_, ht⟩
    unfold applyMods
    apply List.mem_append_left
    apply List.mem_filterMap.2
    exact ⟨tg, htg, by simp [modExisting, hplain tg.1 hidx]⟩

/-- the tag search of a world is exact -/
def View.SearchOK (v : View) : Prop :=
  ∀ t, Sorted (v.search t) ∧ ∀ id, id ∈ v.search t ↔ ∃ fv, v.find id = some fv ∧ t ∈ tokensFor fv.f

theorem search_ok {b : View} {l : Layer} (hb : b.SearchOK) (hw : l.WF b) (ll : Id → Option Pt) :
    (l.view b ll).SearchOK := by
  intro t
  show Sorted (l.search b t) ∧ ∀ id, id ∈ l.search b t ↔ ∃ fv, l.find b id = some fv ∧ t ∈ tokensFor fv.f
  unfold Layer.search
  refine ⟨sorted_foldInsert _ _ (sorted_filter _ _ (hb t).1), fun id => ?_⟩
  rw [mem_foldInsert]
  simp only [List.mem_filter, AMap.contains, Bool.not_eq_true', Option.isSome_eq_false_iff, Option.isNone_iff_eq_none]
  constructor
  · rintro (h | ⟨h1, h2⟩)
    · obtain ⟨f, hf, ht⟩ := (hw.index.mem t id).1 h
      exact ⟨_, find_overlay hf, ht⟩
    · obtain ⟨fv0, hf0, ht⟩ := ((hb t).2 id).1 h1
      refine ⟨l.wrap id fv0, by rw [find_base h2, hf0]; rfl, ?_⟩
      simp only [tokensFor, Layer.wrap] at ht ⊢
      exact (tokens_applyMods (hw.mods id) _ t).2 ht
  · rintro ⟨fv, hfv, ht⟩
    cases hf : AMap.get l.feats id with
    | some f =>
      rw [find_overlay hf] at hfv; cases hfv
      exact Or.inl ((hw.index.mem t id).2 ⟨f, hf, ht⟩)
    | none =>
      rw [find_base hf] at hfv
      cases hb0 : b.find id with
      | none => simp [hb0] at hfv
      | some fv0 =>
        simp only [hb0, Option.map_some, Option.some.injEq] at hfv
        subst hfv
        simp only [tokensFor, Layer.wrap] at ht
        exact Or.inr ⟨((hb t).2 id).2 ⟨fv0, hb0, (tokens_applyMods (hw.mods id) _ t).1 ht⟩, rfl⟩

/-- enumeration visits exactly the features the world has -/
def View.IdsExact (v : View) : Prop := ∀ id, id ∈ v.ids ↔ (v.find id).isSome = true

theorem ids_exact {b : View} {l : Layer} (hb : b.IdsExact) (ll : Id → Option Pt) : (l.view b ll).IdsExact := by
  intro id
  show id ∈ l.ids b ↔ (l.find b id).isSome = true
  simp only [Layer.ids, List.mem_append, AMap.mem_keys_iff, List.mem_filter, AMap.contains, hb id]
  cases hf : AMap.get l.feats id with
  | some f => simp [find_overlay hf]
  | none => simp [find_base hf]

end B6.Model.Mutable
