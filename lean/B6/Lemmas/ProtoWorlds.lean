import B6.Model.Proto.Worlds
import B6.Lemmas.ProtoService
/-! Invariants of the `MutableWorlds` mutex model (C40, `one_world_per_id`). -/
namespace B6.Lemmas.ProtoWorlds
open B6.Model.Proto B6.Model.Proto.Service B6.Model.Proto.Worlds B6.Lemmas.ProtoService

/-- inside the critical section of `MutableWorlds.lock` -/
def inCS (pc : Worlds.Pc) : Bool := pc == .body || pc == .insert || pc == .unlock

structure WInv (s : Worlds.State) : Prop where
  hold : ∀ (j : Nat) (c : Worlds.Client), s.clients[j]? = some c → (inCS c.pc = true ↔ s.holder = some j)
  valid : ∀ i, s.holder = some i → i < s.clients.length
  ins : ∀ (j : Nat) (c : Worlds.Client), s.clients[j]? = some c → c.pc = .insert →
    ∃ wid, c.op = .findOrCreate wid ∧ mfind s.map wid = none
  unl : ∀ (j : Nat) (c : Worlds.Client) (wid : Nat), s.clients[j]? = some c → c.pc = .unlock →
    c.op = .findOrCreate wid → ∃ o, c.result = some o ∧ mfind s.map wid = some o
  keys : (s.map.map (·.1)).Nodup

theorem mfind_mset (m : List (Nat × Nat)) (wid o w' : Nat) :
    mfind (mset m wid o) w' = if wid = w' then some o else mfind m w' := by
  induction m with
  | nil => simp [mset, mfind]
  | cons p rest ih =>
    obtain ⟨i, x⟩ := p
    unfold mset
    by_cases h : i = wid
    · simp only [h, ↓reduceIte, mfind]
      by_cases h2 : wid = w' <;> simp [h2]
    · simp only [h, ↓reduceIte, mfind, ih]
      by_cases h2 : i = w'
      · have : ¬ wid = w' := by rw [← h2]; exact fun e => h e.symm
        simp [h2, this]
      · simp [h2]

theorem mfind_none_iff (m : List (Nat × Nat)) (wid : Nat) : mfind m wid = none ↔ wid ∉ m.map (·.1) := by
  induction m with
  | nil => simp [mfind]
  | cons p rest ih =>
    obtain ⟨i, x⟩ := p
    simp only [mfind, List.map_cons, List.mem_cons]
    by_cases h : i = wid
    · simp [h]
    · simp only [h, ↓reduceIte, ih]
      constructor
      · intro hn e
        rcases e with e | e
        · exact h e.symm
        · exact hn e
      · intro hn e
        exact hn (Or.inr e)

theorem keys_mset (m : List (Nat × Nat)) (wid o : Nat) (h : (m.map (·.1)).Nodup) :
    ((mset m wid o).map (·.1)).Nodup := by
  induction m with
  | nil => simp [mset]
  | cons p rest ih =>
    obtain ⟨i, x⟩ := p
    unfold mset
    simp only [List.map_cons, List.nodup_cons] at h
    by_cases e : i = wid
    · simp only [e, ↓reduceIte, List.map_cons, List.nodup_cons]
      rw [← e]; exact h
    · simp only [e, ↓reduceIte, List.map_cons, List.nodup_cons]
      refine ⟨?_, ih h.2⟩
      intro hm
      have hn : mfind (mset rest wid o) i ≠ none := by
        rw [Ne, mfind_none_iff]; exact fun x => x hm
      rw [mfind_mset] at hn
      have : ¬ wid = i := fun x => e x.symm
      simp only [this, ↓reduceIte] at hn
      rw [Ne, mfind_none_iff] at hn
      exact hn h.1

theorem keys_merase (m : List (Nat × Nat)) (wid : Nat) (h : (m.map (·.1)).Nodup) :
    ((merase m wid).map (·.1)).Nodup := by
  unfold merase
  exact List.Nodup.sublist (List.Sublist.map _ List.filter_sublist) h

theorem wget_set_cases {l : List Worlds.Client} {i j : Nat} {c c' cj : Worlds.Client} (hc : l[i]? = some c)
    (h : (l.set i c')[j]? = some cj) : (j = i ∧ cj = c') ∨ (j ≠ i ∧ l[j]? = some cj) := by
  rw [List.getElem?_set] at h
  by_cases e : i = j
  · have hi : i < l.length := (List.getElem?_eq_some_iff.mp hc).1
    simp [e] at h
    rw [← e] at h
    simp [hi] at h
    exact Or.inl ⟨e.symm, h.symm⟩
  · simp [e] at h
    exact Or.inr ⟨fun x => e x.symm, h⟩

theorem winv_step (s s' : Worlds.State) (h : WInv s) (hs : s' ∈ Worlds.step s) : WInv s' := by
  obtain ⟨i, c, hc, hs⟩ := mem_forWorkers.mp hs
  have hi : i < s.clients.length := (List.getElem?_eq_some_iff.mp hc).1
  have hci := h.hold i c hc
  -- when client i is inside the critical section nobody else is
  have others : inCS c.pc = true → ∀ (j : Nat) (cj : Worlds.Client), j ≠ i → s.clients[j]? = some cj → inCS cj.pc = false := by
    intro hin j cj hji hj
    have := hci.mp hin
    cases hcs : inCS cj.pc
    · rfl
    · have h2 := (h.hold j cj hj).mp hcs
      rw [this] at h2; simp at h2; exact absurd h2.symm hji
  unfold Worlds.clientStep at hs
  cases hpc : c.pc <;> simp only [hpc] at hs
  · -- lock
    simp only [mem_guard] at hs
    obtain ⟨hnone, rfl⟩ := hs
    refine ⟨?_, ?_, ?_, ?_, h.keys⟩
    · intro j cj hj
      simp only [Worlds.setClient] at hj ⊢
      rcases wget_set_cases hc hj with ⟨rfl, rfl⟩ | ⟨hji, hj⟩
      · simp [inCS]
      · have := h.hold j cj hj
        rw [hnone] at this
        simp at this
        simp [this]; exact fun e => hji e.symm
    · intro i' hi'; simp [Worlds.setClient] at hi' ⊢; omega
    · intro j cj hj hp
      simp only [Worlds.setClient] at hj ⊢
      rcases wget_set_cases hc hj with ⟨_, rfl⟩ | ⟨_, hj⟩
      · simp at hp
      · exact h.ins j cj hj hp
    · intro j cj wid hj hp ho
      simp only [Worlds.setClient] at hj ⊢
      rcases wget_set_cases hc hj with ⟨_, rfl⟩ | ⟨_, hj⟩
      · simp at hp
      · exact h.unl j cj wid hj hp ho
  · -- body
    have hin : inCS c.pc = true := by simp [inCS, hpc]
    have hhold := hci.mp hin
    cases hop : c.op <;> simp only [hop] at hs
    · rename_i wid
      split at hs
      · rename_i o ho
        simp at hs; subst hs
        refine ⟨?_, (by intro i' hi'; simp [Worlds.setClient] at hi' ⊢; exact h.valid i' hi'), ?_, ?_, h.keys⟩
        · intro j cj hj
          simp only [Worlds.setClient] at hj ⊢
          rcases wget_set_cases hc hj with ⟨rfl, rfl⟩ | ⟨hji, hj⟩
          · simp [inCS, hhold]
          · exact h.hold j cj hj
        · intro j cj hj hp
          simp only [Worlds.setClient] at hj ⊢
          rcases wget_set_cases hc hj with ⟨_, rfl⟩ | ⟨_, hj⟩
          · simp at hp
          · exact h.ins j cj hj hp
        · intro j cj wid' hj hp ho'
          simp only [Worlds.setClient] at hj ⊢
          rcases wget_set_cases hc hj with ⟨_, rfl⟩ | ⟨_, hj⟩
          · simp at ho'; subst ho'; exact ⟨o, rfl, ho⟩
          · exact h.unl j cj wid' hj hp ho'
      · rename_i ho
        simp at hs; subst hs
        refine ⟨?_, (by intro i' hi'; simp [Worlds.setClient] at hi' ⊢; exact h.valid i' hi'), ?_, ?_, h.keys⟩
        · intro j cj hj
          simp only [Worlds.setClient] at hj ⊢
          rcases wget_set_cases hc hj with ⟨rfl, rfl⟩ | ⟨hji, hj⟩
          · simp [inCS, hhold]
          · exact h.hold j cj hj
        · intro j cj hj hp
          simp only [Worlds.setClient] at hj ⊢
          rcases wget_set_cases hc hj with ⟨_, rfl⟩ | ⟨_, hj⟩
          · exact ⟨wid, rfl, ho⟩
          · exact h.ins j cj hj hp
        · intro j cj wid' hj hp ho'
          simp only [Worlds.setClient] at hj ⊢
          rcases wget_set_cases hc hj with ⟨_, rfl⟩ | ⟨_, hj⟩
          · simp at hp
          · exact h.unl j cj wid' hj hp ho'
    · rename_i wid
      simp at hs; subst hs
      refine ⟨?_, (by intro i' hi'; simp [Worlds.setClient] at hi' ⊢; exact h.valid i' hi'), ?_, ?_, keys_merase _ _ h.keys⟩
      · intro j cj hj
        simp only [Worlds.setClient] at hj ⊢
        rcases wget_set_cases hc hj with ⟨rfl, rfl⟩ | ⟨hji, hj⟩
        · simp [inCS, hhold]
        · exact h.hold j cj hj
      · intro j cj hj hp
        simp only [Worlds.setClient] at hj ⊢
        rcases wget_set_cases hc hj with ⟨_, rfl⟩ | ⟨hji, hj⟩
        · simp at hp
        · have := others hin j cj hji hj; simp [inCS, hp] at this
      · intro j cj wid' hj hp ho'
        simp only [Worlds.setClient] at hj ⊢
        rcases wget_set_cases hc hj with ⟨_, rfl⟩ | ⟨hji, hj⟩
        · simp at ho'
        · have := others hin j cj hji hj; simp [inCS, hp] at this
    · simp at hs; subst hs
      refine ⟨?_, (by intro i' hi'; simp [Worlds.setClient] at hi' ⊢; exact h.valid i' hi'), ?_, ?_, h.keys⟩
      · intro j cj hj
        simp only [Worlds.setClient] at hj ⊢
        rcases wget_set_cases hc hj with ⟨rfl, rfl⟩ | ⟨hji, hj⟩
        · simp [inCS, hhold]
        · exact h.hold j cj hj
      · intro j cj hj hp
        simp only [Worlds.setClient] at hj ⊢
        rcases wget_set_cases hc hj with ⟨_, rfl⟩ | ⟨_, hj⟩
        · simp at hp
        · exact h.ins j cj hj hp
      · intro j cj wid' hj hp ho'
        simp only [Worlds.setClient] at hj ⊢
        rcases wget_set_cases hc hj with ⟨_, rfl⟩ | ⟨_, hj⟩
        · simp at ho'
        · exact h.unl j cj wid' hj hp ho'
  · -- insert
    have hin : inCS c.pc = true := by simp [inCS, hpc]
    have hhold := hci.mp hin
    obtain ⟨wid, hop, hnone⟩ := h.ins i c hc hpc
    simp only [hop] at hs
    simp at hs; subst hs
    refine ⟨?_, (by intro i' hi'; simp [Worlds.setClient] at hi' ⊢; exact h.valid i' hi'), ?_, ?_, keys_mset _ _ _ h.keys⟩
    · intro j cj hj
      simp only [Worlds.setClient] at hj ⊢
      rcases wget_set_cases hc hj with ⟨rfl, rfl⟩ | ⟨hji, hj⟩
      · simp [inCS, hhold]
      · exact h.hold j cj hj
    · intro j cj hj hp
      simp only [Worlds.setClient] at hj ⊢
      rcases wget_set_cases hc hj with ⟨_, rfl⟩ | ⟨hji, hj⟩
      · simp at hp
      · have := others hin j cj hji hj; simp [inCS, hp] at this
    · intro j cj wid' hj hp ho'
      simp only [Worlds.setClient] at hj ⊢
      rcases wget_set_cases hc hj with ⟨_, rfl⟩ | ⟨hji, hj⟩
      · simp at ho'; subst ho'
        exact ⟨s.next, rfl, by rw [mfind_mset]; simp⟩
      · have := others hin j cj hji hj; simp [inCS, hp] at this
  · -- unlock
    have hin : inCS c.pc = true := by simp [inCS, hpc]
    have hhold := hci.mp hin
    simp at hs; subst hs
    refine ⟨?_, ?_, ?_, ?_, h.keys⟩
    · intro j cj hj
      simp only [Worlds.setClient] at hj ⊢
      rcases wget_set_cases hc hj with ⟨rfl, rfl⟩ | ⟨hji, hj⟩
      · simp [inCS]
      · have := others hin j cj hji hj; simp [this]
    · intro i' hi'; simp [Worlds.setClient] at hi'
    · intro j cj hj hp
      simp only [Worlds.setClient] at hj ⊢
      rcases wget_set_cases hc hj with ⟨_, rfl⟩ | ⟨_, hj⟩
      · simp at hp
      · exact h.ins j cj hj hp
    · intro j cj wid' hj hp ho'
      simp only [Worlds.setClient] at hj ⊢
      rcases wget_set_cases hc hj with ⟨_, rfl⟩ | ⟨_, hj⟩
      · simp at hp
      · exact h.unl j cj wid' hj hp ho'
  · simp at hs

theorem winv_init (m : List (Nat × Nat)) (next : Nat) (ops : List Op) (hk : (m.map (·.1)).Nodup) :
    WInv (Worlds.init m next ops) := by
  have hpc : ∀ (j : Nat) (c : Worlds.Client), (Worlds.init m next ops).clients[j]? = some c → c.pc = .lock := by
    intro j c hj
    simp only [Worlds.init, List.getElem?_map] at hj
    cases hr : ops[j]? with
    | none => simp [hr] at hj
    | some r => simp [hr] at hj; subst hj; rfl
  refine ⟨?_, ?_, ?_, ?_, hk⟩
  · intro j c hj; simp [inCS, hpc j c hj, Worlds.init]
  · intro i hi; simp [Worlds.init] at hi
  · intro j c hj hp; rw [hpc j c hj] at hp; simp at hp
  · intro j c wid hj hp; rw [hpc j c hj] at hp; simp at hp

theorem wstep_ne_nil_of (s : Worlds.State) (i : Nat) (c : Worlds.Client) (hc : s.clients[i]? = some c)
    (h : Worlds.clientStep s i c ≠ []) : Worlds.step s ≠ [] := by
  obtain ⟨x, hx⟩ := List.exists_mem_of_ne_nil _ h
  intro e
  have : x ∈ Worlds.step s := mem_forWorkers.mpr ⟨i, c, hc, hx⟩
  rw [e] at this
  simp at this

/-- the mutex model never deadlocks: the holder of `MutableWorlds.lock` can always go on, and when nobody holds
it every unfinished caller can take it -/
theorem worlds_not_deadlocked (s : Worlds.State) (h : WInv s) :
    deadlocked Worlds.step Worlds.terminal s = false := by
  unfold deadlocked
  cases ht : Worlds.terminal s
  · simp only [Bool.not_false, Bool.and_true]
    have hne : Worlds.step s ≠ [] := by
      cases hh : s.holder with
      | some i =>
        have hi := h.valid i hh
        have hc : s.clients[i]? = some s.clients[i] := List.getElem?_eq_getElem hi
        have hin := (h.hold i _ hc).mpr hh
        apply wstep_ne_nil_of s i _ hc
        unfold Worlds.clientStep
        cases hpc : (s.clients[i]).pc <;> simp [inCS, hpc] at hin ⊢
        · cases hop : (s.clients[i]).op <;> simp
          split <;> simp
        · obtain ⟨wid, hop, _⟩ := h.ins i _ hc hpc
          simp [hop]
      | none =>
        have hnd : ∃ c ∈ s.clients, ¬ (c.pc == Worlds.Pc.done) = true := by
          unfold Worlds.terminal at ht
          exact (List.all_eq_false (p := fun c => c.pc == Worlds.Pc.done) (l := s.clients)).mp ht
        obtain ⟨c0, hm, hnd0⟩ := hnd
        obtain ⟨i0, hi0⟩ := List.getElem?_of_mem hm
        have hout : inCS c0.pc = false := by
          cases hcs : inCS c0.pc
          · rfl
          · have := (h.hold i0 c0 hi0).mp hcs; rw [hh] at this; simp at this
        apply wstep_ne_nil_of s i0 c0 hi0
        unfold Worlds.clientStep
        cases hpc : c0.pc <;> simp [inCS, hpc] at hout hnd0 ⊢
        simp [B6.Model.Proto.guard, hh]
    cases hst : Worlds.step s with
    | nil => exact absurd hst hne
    | cons _ _ => rfl
  · simp

end B6.Lemmas.ProtoWorlds
