import B6.Model.RefIndex
import B6.Spec.Referrers
/-!
Helper lemmas for C15 (`B6.Props.C15`): the assoc-list index, `addFeature` / `removeFeature`
as operations on the entry lists, termination and correctness of the explicit-stack `dfs`.
-/
namespace B6.Lemmas.RefIndex
open B6.Model.RefIndex B6.Spec.Referrers

/-! ## assoc list -/

theorem lookup_setKey (ix : Index) (t t' : Id) (rs : List Ref) :
    lookup (setKey ix t rs) t' = if t' = t then some rs else lookup ix t' := by
  induction ix with
  | nil =>
    simp only [setKey, lookup]
    by_cases h : t' = t
    · simp [h]
    · have : ¬ t = t' := fun e => h e.symm
      simp [h, this]
  | cons kv rest ih =>
    obtain ⟨k, v⟩ := kv
    simp only [setKey]
    by_cases hk : k = t
    · subst hk
      by_cases h : t' = k
      · subst h; simp [lookup]
      · have : ¬ k = t' := fun e => h e.symm
        simp [lookup, h, this]
    · simp only [hk, ↓reduceIte, lookup, ih]
      by_cases h : t' = t
      · subst h; simp [hk]
      · simp [h]

theorem entries_setKey (ix : Index) (t t' : Id) (rs : List Ref) :
    entries (setKey ix t rs) t' = if t' = t then rs else entries ix t' := by
  simp only [entries, lookup_setKey]
  by_cases h : t' = t <;> simp [h]

theorem lookup_mem {ix : Index} {t : Id} {rs : List Ref} (h : lookup ix t = some rs) : (t, rs) ∈ ix := by
  induction ix with
  | nil => simp [lookup] at h
  | cons kv rest ih =>
    obtain ⟨k, v⟩ := kv
    simp only [lookup] at h
    by_cases hk : k = t
    · simp [hk] at h; subst hk; subst h; simp
    · simp [hk] at h; exact List.mem_cons_of_mem _ (ih h)

theorem entries_none {ix : Index} {t : Id} (h : lookup ix t = none) : entries ix t = [] := by
  simp [entries, h]

theorem entries_some {ix : Index} {t : Id} {rs : List Ref} (h : lookup ix t = some rs) : entries ix t = rs := by
  simp [entries, h]

abbrev srcs (ix : Index) (t : Id) : List Id := (entries ix t).map (·.src)

/-! ## addFeature -/

theorem mkRef_src (fid : Id) (i : Nat) : (mkRef fid i).src = fid := by
  unfold mkRef; split <;> rfl

theorem srcs_addRef (ix : Index) (fid : Id) (i : Nat) (t t' : Id) :
    srcs (addRef ix fid i t) t' =
      if t' = t ∧ fid ∉ srcs ix t then srcs ix t ++ [fid] else srcs ix t' := by
  unfold addRef srcs
  cases hl : lookup ix t with
  | none =>
    simp only [entries_setKey, entries_none hl]
    by_cases h : t' = t
    · simp [h, mkRef_src]
    · simp [h]
  | some rs =>
    simp only [entries_some hl]
    by_cases hany : rs.any (fun r => decide (r.src = fid)) = true
    · simp only [hany, ↓reduceIte, entries_setKey]
      have hmem : fid ∈ rs.map (·.src) := by
        simp only [List.any_eq_true, decide_eq_true_eq] at hany
        obtain ⟨r, hr, he⟩ := hany
        exact List.mem_map.mpr ⟨r, hr, he⟩
      by_cases h : t' = t
      · subst h
        simp only [true_and, hmem, not_true_eq_false, ↓reduceIte, entries_some hl, List.map_map]
        apply List.map_congr_left
        intro r _
        simp only [Function.comp]
        split <;> rfl
      · simp [h]
    · simp only [hany, Bool.false_eq_true, ↓reduceIte, entries_setKey]
      have hmem : fid ∉ rs.map (·.src) := by
        intro hm
        apply hany
        obtain ⟨r, hr, he⟩ := List.mem_map.mp hm
        simp only [List.any_eq_true, decide_eq_true_eq]
        exact ⟨r, hr, he⟩
      by_cases h : t' = t
      · subst h
        simp [hmem, mkRef_src]
      · simp [h]

theorem srcs_addRefs (fid : Id) (ts : List Id) : ∀ (ix : Index) (i : Nat) (t' : Id),
    srcs (addRefs ix fid i ts) t' =
      if t' ∈ ts ∧ fid ∉ srcs ix t' then srcs ix t' ++ [fid] else srcs ix t' := by
  induction ts with
  | nil => intro ix i t'; simp [addRefs]
  | cons t ts ih =>
    intro ix i t'
    simp only [addRefs]
    rw [ih, srcs_addRef]
    by_cases h : t' = t
    · subst h
      by_cases hm : fid ∈ srcs ix t'
      · simp [hm]
      · simp [hm]
    · have : ¬ (t' = t ∧ fid ∉ srcs ix t) := fun c => h c.1
      rw [if_neg this]
      simp only [List.mem_cons, h, false_or]

/-- the sources recorded for a target after `AddFeature`. -/
theorem srcs_addFeature (ix : Index) (f : Feature) (t : Id) :
    srcs (addFeature ix f) t = if t ∈ f.refs ∧ f.id ∉ srcs ix t then srcs ix t ++ [f.id] else srcs ix t := by
  unfold addFeature; exact srcs_addRefs f.id f.refs ix 0 t

/-! ## the invariant -/

/-- the index is the inverse of the `References()` relation of the feature set `fs`, one entry per
(target, source). -/
def Inv (ix : Index) (fs : List Feature) : Prop :=
  (∀ t s, s ∈ srcs ix t ↔ Refers fs t s) ∧ (∀ t, (srcs ix t).Nodup)

theorem Inv_empty : Inv [] [] := by
  constructor
  · intro t s; simp [srcs, entries, lookup, Refers]
  · intro t; simp [srcs, entries, lookup]

theorem Inv_congr {ix : Index} {fs fs' : List Feature} (h : ∀ g, g ∈ fs ↔ g ∈ fs') (hi : Inv ix fs) : Inv ix fs' := by
  refine ⟨fun t s => ?_, hi.2⟩
  rw [hi.1 t s]
  constructor
  · rintro ⟨f, hf, h1, h2⟩; exact ⟨f, (h f).mp hf, h1, h2⟩
  · rintro ⟨f, hf, h1, h2⟩; exact ⟨f, (h f).mpr hf, h1, h2⟩

theorem Inv_add {ix : Index} {fs : List Feature} (hi : Inv ix fs) (f : Feature) :
    Inv (addFeature ix f) (f :: fs) := by
  constructor
  · intro t s
    rw [srcs_addFeature]
    by_cases hc : t ∈ f.refs ∧ f.id ∉ srcs ix t
    · rw [if_pos hc]
      simp only [List.mem_append, List.mem_singleton]
      constructor
      · rintro (h | h)
        · obtain ⟨g, hg, h1, h2⟩ := (hi.1 t s).mp h
          exact ⟨g, List.mem_cons_of_mem _ hg, h1, h2⟩
        · exact ⟨f, List.mem_cons_self, h.symm, hc.1⟩
      · rintro ⟨g, hg, h1, h2⟩
        rcases List.mem_cons.mp hg with rfl | hg
        · exact Or.inr h1.symm
        · exact Or.inl ((hi.1 t s).mpr ⟨g, hg, h1, h2⟩)
    · rw [if_neg hc]
      constructor
      · intro h
        obtain ⟨g, hg, h1, h2⟩ := (hi.1 t s).mp h
        exact ⟨g, List.mem_cons_of_mem _ hg, h1, h2⟩
      · rintro ⟨g, hg, h1, h2⟩
        rcases List.mem_cons.mp hg with rfl | hg
        · subst h1
          by_cases hm : g.id ∈ srcs ix t
          · exact hm
          · exact absurd ⟨h2, hm⟩ hc
        · exact (hi.1 t s).mpr ⟨g, hg, h1, h2⟩
  · intro t
    rw [srcs_addFeature]
    by_cases hc : t ∈ f.refs ∧ f.id ∉ srcs ix t
    · rw [if_pos hc]
      rw [List.nodup_append]
      refine ⟨hi.2 t, by simp, ?_⟩
      intro a ha b hb
      simp only [List.mem_singleton] at hb
      subst hb
      intro e; subst e; exact hc.2 ha
    · rw [if_neg hc]; exact hi.2 t

theorem Inv_fill_aux (L : List Feature) : ∀ (ix : Index) (S : List Feature), Inv ix S →
    Inv (L.foldl addFeature ix) (L.reverse ++ S) := by
  induction L with
  | nil => intro ix S h; simpa using h
  | cons f L ih =>
    intro ix S h
    simp only [List.foldl_cons, List.reverse_cons, List.append_assoc, List.singleton_append]
    exact ih _ _ (Inv_add h f)

theorem Inv_fill (fs : List Feature) : Inv (fill fs) fs := by
  have := Inv_fill_aux fs [] [] Inv_empty
  exact Inv_congr (by intro g; simp) this

/-! ## removeFeature (the in-loop slice deletion) -/

/-- no entry from position `n - k` on matches: the loop changes nothing -/
theorem removeLoop_miss (fid : Id) : ∀ (post pre : List Ref) (len : Nat), (∀ r ∈ post, r.src ≠ fid) →
    removeLoop fid (pre ++ post).length post.length (pre ++ post) len = some (pre ++ post, len) := by
  intro post
  induction post with
  | nil => intro pre len _; simp [removeLoop]
  | cons m post ih =>
    intro pre len h
    have hi : (pre ++ m :: post).length - (post.length + 1) = pre.length := by
      simp only [List.length_append, List.length_cons]; omega
    simp only [List.length_cons, removeLoop, hi]
    have hget : (pre ++ m :: post)[pre.length]? = some m := by simp
    rw [hget]
    have hm : m.src ≠ fid := h m List.mem_cons_self
    simp only [hm, ↓reduceIte]
    have := ih (pre ++ [m]) len (fun r hr => h r (List.mem_cons_of_mem _ hr))
    simpa using this

theorem removeLoop_hit (fid : Id) (x : Ref) (post : List Ref) (hx : x.src = fid) (hpost : ∀ r ∈ post, r.src ≠ fid) :
    ∀ (mid pre : List Ref) (k : Nat), k = mid.length + (post.length + 1) → (∀ r ∈ mid, r.src ≠ fid) →
    ∃ arr' len', removeLoop fid (pre ++ mid ++ x :: post).length k
        (pre ++ mid ++ x :: post) (pre ++ mid ++ x :: post).length = some (arr', len') ∧
      arr'.take len' = pre ++ mid ++ post := by
  intro mid
  induction mid with
  | nil =>
    intro pre k hk _
    subst hk
    simp only [List.append_nil, List.length_nil, Nat.zero_add]
    have hi : (pre ++ x :: post).length - (post.length + 1) = pre.length := by
      simp only [List.length_append, List.length_cons]; omega
    simp only [removeLoop, hi]
    have hget : (pre ++ x :: post)[pre.length]? = some x := by simp
    rw [hget]
    simp only [hx, ↓reduceIte]
    cases post with
    | nil =>
      simp only [removeLoop, List.length_nil, Nat.zero_add, List.length_append, List.length_cons,
        Nat.add_sub_cancel, ↓reduceIte]
      exact ⟨_, _, rfl, by simp⟩
    | cons p post =>
      have h1 : ¬ pre.length = (pre ++ x :: p :: post).length - 1 := by
        simp only [List.length_append, List.length_cons]; omega
      have h2 : pre.length + 1 ≤ (pre ++ x :: p :: post).length := by
        simp only [List.length_append, List.length_cons]; omega
      simp only [h1, ↓reduceIte, h2]
      have e1 : (pre ++ x :: p :: post).take pre.length = pre := by simp
      have e2 : (pre ++ x :: p :: post).drop (pre.length + 1) = p :: post := by simp
      have e3 : (pre ++ x :: p :: post).length - (pre.length + 1) = (p :: post).length := by
        simp only [List.length_append, List.length_cons]; omega
      have e4 : (pre ++ x :: p :: post).length - 1 = (pre.length + 1) + post.length := by
        simp only [List.length_append, List.length_cons]; omega
      rw [e1, e2, e3, List.take_length, e4, ← List.drop_drop, e2]
      generalize htl : (p :: post).drop post.length = tl
      have htl_len : tl.length = 1 := by rw [← htl]; simp
      have htl_mem : ∀ r ∈ tl, r.src ≠ fid := by
        intro r hr; rw [← htl] at hr; exact hpost r (List.mem_of_mem_drop hr)
      have harr : pre ++ (p :: post) ++ tl = (pre ++ [p]) ++ (post ++ tl) := by simp
      have hlen : (pre ++ x :: p :: post).length = ((pre ++ [p]) ++ (post ++ tl)).length := by
        simp only [List.length_append, List.length_cons, List.length_nil, htl_len]; omega
      have hk : (p :: post).length = (post ++ tl).length := by
        simp only [List.length_append, List.length_cons, htl_len]
      rw [harr, hlen, hk]
      rw [removeLoop_miss fid (post ++ tl) (pre ++ [p])]
      · refine ⟨_, _, rfl, ?_⟩
        have : pre.length + 1 + post.length = (pre ++ p :: post).length := by
          simp only [List.length_append, List.length_cons]; omega
        rw [this]
        have : pre ++ [p] ++ (post ++ tl) = (pre ++ p :: post) ++ tl := by simp
        rw [this, List.take_left']
        simp
      · intro r hr
        rcases List.mem_append.mp hr with hr | hr
        · exact hpost r (List.mem_cons_of_mem _ hr)
        · exact htl_mem r hr
  | cons m mid ih =>
    intro pre k hk h
    have hm : m.src ≠ fid := h m List.mem_cons_self
    obtain ⟨k', rfl⟩ : ∃ k', k = k' + 1 := ⟨mid.length + (post.length + 1), by simp only [List.length_cons] at hk; omega⟩
    have hk' : k' = mid.length + (post.length + 1) := by simp only [List.length_cons] at hk; omega
    have hi : (pre ++ (m :: mid) ++ x :: post).length - (k' + 1) = pre.length := by
      simp only [List.length_append, List.length_cons]; omega
    simp only [removeLoop]
    rw [hi]
    have hget : (pre ++ (m :: mid) ++ x :: post)[pre.length]? = some m := by simp
    rw [hget]
    simp only [hm, ↓reduceIte]
    have := ih (pre ++ [m]) k' hk' (fun r hr => h r (List.mem_cons_of_mem _ hr))
    have e : pre ++ [m] ++ mid ++ x :: post = pre ++ m :: mid ++ x :: post := by simp
    have e2 : pre ++ [m] ++ mid ++ post = pre ++ m :: mid ++ post := by simp
    rw [e, e2] at this
    exact this

def keep (fid : Id) : Ref → Bool := fun r => decide (r.src ≠ fid)

theorem removeFrom_spec (fid : Id) (rs : List Ref) (hn : (rs.map (·.src)).Nodup) :
    removeFrom fid rs = some (rs.filter (keep fid)) := by
  unfold removeFrom
  by_cases hex : ∃ x ∈ rs, x.src = fid
  · obtain ⟨x, hxm, hx⟩ := hex
    obtain ⟨s, t, rfl⟩ := List.append_of_mem hxm
    simp only [List.map_append, List.map_cons] at hn
    have hn' := List.nodup_append.mp hn
    have hs : ∀ r ∈ s, r.src ≠ fid := by
      intro r hr e
      exact hn'.2.2 r.src (List.mem_map.mpr ⟨r, hr, rfl⟩) x.src List.mem_cons_self (by rw [e, hx])
    have ht : ∀ r ∈ t, r.src ≠ fid := by
      intro r hr e
      have := (List.nodup_cons.mp hn'.2.1).1
      apply this
      rw [hx, ← e]
      exact List.mem_map.mpr ⟨r, hr, rfl⟩
    obtain ⟨arr', len', h1, h2⟩ := removeLoop_hit fid x t hx ht s [] (s ++ x :: t).length (by simp) hs
    simp only [List.nil_append] at h1 h2
    rw [h1]
    simp only [h2, List.filter_append, List.filter_cons]
    have e1 : s.filter (keep fid) = s := List.filter_eq_self.mpr (fun r hr => by simpa [keep] using hs r hr)
    have e2 : t.filter (keep fid) = t := List.filter_eq_self.mpr (fun r hr => by simpa [keep] using ht r hr)
    have e3 : keep fid x = false := by simp [keep, hx]
    simp [e1, e2, e3]
  · have hall : ∀ r ∈ rs, r.src ≠ fid := fun r hr e => hex ⟨r, hr, e⟩
    have := removeLoop_miss fid rs [] rs.length hall
    simp only [List.nil_append] at this
    rw [this]
    simp only [List.take_length]
    congr 1
    exact (List.filter_eq_self.mpr (fun r hr => by simpa [keep] using hall r hr)).symm

theorem nodup_filter_srcs {rs : List Ref} (p : Ref → Bool) (h : (rs.map (·.src)).Nodup) :
    ((rs.filter p).map (·.src)).Nodup :=
  List.Nodup.sublist (List.Sublist.map _ (List.filter_sublist)) h

theorem removeRefs_spec (fid : Id) (ts : List Id) : ∀ (ix : Index), (∀ t, (srcs ix t).Nodup) →
    ∃ ix', removeRefs ix fid ts = some ix' ∧
      ∀ t', entries ix' t' = if t' ∈ ts then (entries ix t').filter (keep fid) else entries ix t' := by
  induction ts with
  | nil => intro ix _; exact ⟨ix, rfl, by simp⟩
  | cons t ts ih =>
    intro ix hn
    simp only [removeRefs]
    cases hl : lookup ix t with
    | none =>
      obtain ⟨ix', h1, h2⟩ := ih ix hn
      refine ⟨ix', h1, ?_⟩
      intro t'
      rw [h2 t']
      by_cases ht : t' = t
      · subst ht
        simp [entries_none hl]
      · simp [ht]
    | some rs =>
      have hrs : entries ix t = rs := entries_some hl
      have hnr : (rs.map (·.src)).Nodup := by have := hn t; simpa [srcs, hrs] using this
      simp only [removeFrom_spec fid rs hnr]
      have hn2 : ∀ t', (srcs (setKey ix t (rs.filter (keep fid))) t').Nodup := by
        intro t'
        simp only [srcs, entries_setKey]
        by_cases ht : t' = t
        · simp only [ht, ↓reduceIte]; exact nodup_filter_srcs _ hnr
        · simp only [ht, ↓reduceIte]; exact hn t'
      obtain ⟨ix', h1, h2⟩ := ih _ hn2
      refine ⟨ix', h1, ?_⟩
      intro t'
      rw [h2 t', entries_setKey]
      by_cases ht : t' = t
      · subst ht
        simp only [↓reduceIte, List.mem_cons, true_or, hrs, List.filter_filter, Bool.and_self]
        split <;> rfl
      · simp [ht]

/-- `RemoveFeature` of the one version `f` of its ID (or of an ID that is not present) succeeds and
leaves the inverse of the remaining features. -/
theorem Inv_remove {ix : Index} {fs : List Feature} (hi : Inv ix fs) (f : Feature)
    (huniq : ∀ g ∈ fs, g.id = f.id → g = f) :
    ∃ ix', removeFeature ix f = some ix' ∧ Inv ix' (fs.filter fun g => decide (g.id ≠ f.id)) := by
  obtain ⟨ix', h1, h2⟩ := removeRefs_spec f.id f.refs ix hi.2
  refine ⟨ix', h1, ?_, ?_⟩
  · intro t s
    have hsr : srcs ix' t = if t ∈ f.refs then (srcs ix t).filter (fun s => decide (s ≠ f.id)) else srcs ix t := by
      simp only [srcs, h2 t]
      split
      · rw [List.filter_map]; rfl
      · rfl
    rw [hsr]
    constructor
    · intro hs
      have hs' : s ∈ srcs ix t ∧ ¬ (t ∈ f.refs ∧ s = f.id) := by
        split at hs
        · rename_i ht
          simp only [List.mem_filter, decide_eq_true_eq] at hs
          exact ⟨hs.1, fun c => hs.2 c.2⟩
        · rename_i ht
          exact ⟨hs, fun c => ht c.1⟩
      obtain ⟨g, hg, hgid, hgt⟩ := (hi.1 t s).mp hs'.1
      refine ⟨g, List.mem_filter.mpr ⟨hg, ?_⟩, hgid, hgt⟩
      simp only [decide_eq_true_eq]
      intro e
      have := huniq g hg e
      subst this
      exact hs'.2 ⟨hgt, hgid.symm⟩
    · rintro ⟨g, hg, hgid, hgt⟩
      obtain ⟨hg, hne⟩ := List.mem_filter.mp hg
      simp only [decide_eq_true_eq] at hne
      have hs : s ∈ srcs ix t := (hi.1 t s).mpr ⟨g, hg, hgid, hgt⟩
      split
      · simp only [List.mem_filter, decide_eq_true_eq]
        exact ⟨hs, by rw [← hgid]; exact hne⟩
      · exact hs
  · intro t
    simp only [srcs, h2 t]
    split
    · exact nodup_filter_srcs _ (hi.2 t)
    · exact hi.2 t


end B6.Lemmas.RefIndex
