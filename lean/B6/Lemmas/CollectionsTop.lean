import B6.Lemmas.Collections
/-!
Soundness of the executable check `isTopOfB` the C24 driver applies to the implementation's `top` answers:
whenever it accepts, the relational specification `IsTopOf` holds (for numeric values — ints or floats —
which is the only case in which `top` returns a collection).
-/
namespace B6.Lemmas.Collections
open B6.Model.Collections B6.Spec.Collections

theorem eraseFirst_perm (x : Item) : ∀ (l rest : List Item), eraseFirst x l = some rest → l.Perm (x :: rest) := by
  intro l
  induction l with
  | nil => intro rest h; simp [eraseFirst] at h
  | cons y ys ih =>
    intro rest h
    simp only [eraseFirst] at h
    by_cases e : x = y
    · simp only [e, if_true, Option.some.injEq] at h
      subst h; subst e; exact List.Perm.refl _
    · simp only [e, if_false] at h
      cases hr : eraseFirst x ys with
      | none => simp [hr] at h
      | some r =>
        simp only [hr, Option.map_some, Option.some.injEq] at h
        subst h
        exact (List.Perm.cons y (ih r hr)).trans (List.Perm.swap ..)

theorem eraseAll_perm : ∀ (out input rest : List Item), eraseAll out input = some rest →
    (out ++ rest).Perm input := by
  intro out
  induction out with
  | nil => intro input rest h; simp only [eraseAll, Option.some.injEq] at h; subst h; exact List.Perm.refl _
  | cons x xs ih =>
    intro input rest h
    simp only [eraseAll] at h
    cases he : eraseFirst x input with
    | none => simp [he] at h
    | some input' =>
      simp only [he] at h
      have h1 := eraseFirst_perm x input input' he
      have h2 := ih input' rest h
      exact (List.Perm.cons x h2).trans h1.symm

theorem sortedDesc_pairwise : ∀ (l : List Item), (∀ x ∈ l, Numeric x) → sortedDesc l = true →
    l.Pairwise (fun a b => ¬ itemLess a b = true) := by
  intro l
  induction l with
  | nil => intro _ _; exact List.Pairwise.nil
  | cons a t ih =>
    intro hnum hs
    cases t with
    | nil => simp
    | cons b rest =>
      simp only [sortedDesc, Bool.and_eq_true, Bool.not_eq_true'] at hs
      have hna : Numeric a := hnum a (List.mem_cons_self ..)
      have hnt : ∀ x ∈ b :: rest, Numeric x := fun x hx => hnum x (List.mem_cons_of_mem _ hx)
      have iht := ih hnt hs.2
      rw [List.pairwise_cons]
      refine ⟨?_, iht⟩
      intro c hc
      have hab : ¬ itemLess a b = true := by simp [hs.1]
      rcases List.mem_cons.mp hc with e | e
      · rw [e]; exact hab
      · have hbc := (List.pairwise_cons.mp iht).1 c e
        exact itemLess_trans_le hna (hnt b (List.mem_cons_self ..)) (hnt c hc) hab hbc

/-- what the driver accepts for `top` is a top selection -/
theorem isTopOfB_sound (n : Int) (input out : List Item) (hnum : ∀ x ∈ input, Numeric x)
    (h : isTopOfB n input out = true) : IsTopOf n input out := by
  unfold isTopOfB at h
  cases he : eraseAll out input with
  | none => simp [he] at h
  | some rest =>
    simp only [he, Bool.and_eq_true, beq_iff_eq, List.all_eq_true, Bool.not_eq_true'] at h
    obtain ⟨⟨hlen, hsort⟩, hrest⟩ := h
    have hperm := eraseAll_perm out input rest he
    have hnumOut : ∀ x ∈ out, Numeric x := fun x hx =>
      hnum x (hperm.mem_iff.mp (List.mem_append_left _ hx))
    refine ⟨rest, hperm, hlen, sortedDesc_pairwise out hnumOut hsort, ?_⟩
    intro r hr o ho
    simp [hrest r hr o ho]

end B6.Lemmas.Collections
