import B6.Model.Posting
/-!
# Posting lists, part 2: the namespace table is an order isomorphism

For a table whose names are strictly increasing (`FillFromNamespaces` on distinct non-empty names) and has
at most 8192 entries (13 namespace bits), `Encode`/`Decode` are inverse, `CombineTypeAndNamespace` is
`type * 8192 + index`, and `b6.FeatureID.Less` on decoded ids is the lexicographic order on
`(TypeAndNamespace, value)`.
-/
namespace B6.Model.Posting

/-- names strictly increasing (so: distinct), at most 2^13 of them -/
def TableOK (t : Table) : Prop := t.names.Pairwise (· < ·) ∧ t.names.length ≤ 8192

/-- a `TypeAndNamespace` the table can decode: 3 type bits, namespace index inside the table -/
def TnOK (t : Table) (tn : Nat) : Prop := tn / 8192 < 8 ∧ tn % 8192 < t.names.length

/-- the `b6.FeatureID` of `(tn, value)` -/
def keyOf (t : Table) (id : Id) : Key := ⟨id.1 / 8192, t.names[id.1 % 8192]?.getD "", id.2⟩

theorem combine_eq {t e : Nat} (ht : t < 8) (he : e < 8192) : combine t e = t * 8192 + e := by
  unfold combine
  have h1 : t <<< 13 = t * 8192 := by rw [Nat.shiftLeft_eq]
  have h2 : (t <<< 13) % 65536 = t <<< 13 := by rw [h1]; omega
  have h3 : e % 65536 = e := by omega
  rw [h2, h3, ← Nat.shiftLeft_add_eq_or_of_lt (show e < 2 ^ 13 by omega), h1]

theorem splitTN_eq (tn : Nat) : splitTN tn = (tn / 8192, tn % 8192) := by
  unfold splitTN
  rw [Nat.shiftRight_eq_div_pow]

theorem combine_split {tn : Nat} (h : tn / 8192 < 8) : combine (tn / 8192) (tn % 8192) = tn := by
  rw [combine_eq h (Nat.mod_lt _ (by omega))]
  omega

theorem lastIdxAux_notmem (s : String) : ∀ (l : List String) (i : Nat) (acc : Option Nat),
    s ∉ l → lastIdxAux s l i acc = acc := by
  intro l
  induction l with
  | nil => intros; rfl
  | cons x xs ih =>
    intro i acc h
    simp only [List.mem_cons, not_or] at h
    unfold lastIdxAux
    have : ¬ x = s := fun hh => h.1 hh.symm
    rw [if_neg this]
    exact ih _ _ h.2

theorem lastIdxAux_nodup (s : String) : ∀ (l : List String) (i j : Nat) (acc : Option Nat),
    l.Nodup → l[j]? = some s → lastIdxAux s l i acc = some (i + j) := by
  intro l
  induction l with
  | nil => intro i j acc _ h; simp at h
  | cons x xs ih =>
    intro i j acc hnd h
    rw [List.nodup_cons] at hnd
    unfold lastIdxAux
    cases j with
    | zero =>
      simp only [List.getElem?_cons_zero, Option.some.injEq] at h
      subst h
      rw [if_pos rfl, lastIdxAux_notmem x xs _ _ hnd.1]
      rfl
    | succ j =>
      simp only [List.getElem?_cons_succ] at h
      have hmem : s ∈ xs := List.mem_of_getElem? h
      have hne : ¬ x = s := by intro hh; subst hh; exact hnd.1 hmem
      rw [if_neg hne, ih (i + 1) j acc hnd.2 h]
      congr 1; omega

theorem pairwise_lt_nodup {l : List String} (h : l.Pairwise (· < ·)) : l.Nodup := by
  unfold List.Nodup
  exact h.imp (fun hab he => by subst he; exact String.lt_irrefl _ hab)

theorem names_lt_iff {t : Table} (ht : TableOK t) {i j : Nat} (hi : i < t.names.length) (hj : j < t.names.length) :
    t.names[i] < t.names[j] ↔ i < j := by
  constructor
  · intro h
    apply Classical.byContradiction
    intro hn
    by_cases he : i = j
    · subst he; exact String.lt_irrefl _ h
    · have : j < i := by omega
      have := List.pairwise_iff_getElem.1 ht.1 j i hj hi this
      exact String.lt_asymm h this
  · intro h
    exact List.pairwise_iff_getElem.1 ht.1 i j hi hj h

theorem names_eq_iff {t : Table} (ht : TableOK t) {i j : Nat} (hi : i < t.names.length) (hj : j < t.names.length) :
    t.names[i] = t.names[j] ↔ i = j := by
  constructor
  · intro h
    apply Classical.byContradiction
    intro hn
    rcases Nat.lt_or_gt_of_ne hn with h1 | h1
    · have := (names_lt_iff ht hi hj).2 h1
      rw [h] at this; exact String.lt_irrefl _ this
    · have := (names_lt_iff ht hj hi).2 h1
      rw [h] at this; exact String.lt_irrefl _ this
  · intro h; subst h; rfl

theorem encode_name {t : Table} (ht : TableOK t) {i : Nat} (hi : i < t.names.length) :
    t.encode t.names[i] = .ok i := by
  unfold Table.encode
  rw [lastIdxAux_nodup t.names[i] t.names 0 i none (pairwise_lt_nodup ht.1) (List.getElem?_eq_getElem hi)]
  have : (0 + i) % 65536 = i := by have := ht.2; omega
  simp only [this]

theorem keyOf_ns {t : Table} {tn : Nat} (h : TnOK t tn) (v : Nat) :
    (keyOf t (tn, v)).ns = t.names[tn % 8192]'h.2 := by
  unfold keyOf
  simp only
  rw [List.getElem?_eq_getElem h.2]; rfl

theorem decodeId_ok {t : Table} {id : Id} (h : TnOK t id.1) : t.decodeId id = .ok (keyOf t id) := by
  unfold Table.decodeId Table.decode keyOf
  rw [splitTN_eq]
  simp only
  rw [List.getElem?_eq_getElem h.2]
  rfl

/-- `nt.Encode` of the target's namespace, recombined with its type, is the target's `TypeAndNamespace` -/
theorem encode_keyOf {t : Table} (ht : TableOK t) {id : Id} (h : TnOK t id.1) :
    t.encode (keyOf t id).ns = .ok (id.1 % 8192) ∧ combine (keyOf t id).type (id.1 % 8192) = id.1 := by
  obtain ⟨tn, v⟩ := id
  refine ⟨?_, ?_⟩
  · rw [keyOf_ns h v]; exact encode_name ht h.2
  · exact combine_split h.1

/-- `b6.FeatureID.Less` on decoded ids = lexicographic order on `(TypeAndNamespace, value)` -/
theorem less_keyOf {t : Table} (ht : TableOK t) {a b : Id} (ha : TnOK t a.1) (hb : TnOK t b.1) :
    (keyOf t a).less (keyOf t b) = decide (a.1 < b.1 ∨ (a.1 = b.1 ∧ a.2 < b.2)) := by
  obtain ⟨ta, va⟩ := a
  obtain ⟨tb, vb⟩ := b
  simp only at ha hb ⊢
  unfold Key.less
  rw [keyOf_ns ha va, keyOf_ns hb vb]
  have hty : (keyOf t (ta, va)).type = ta / 8192 := rfl
  have hty' : (keyOf t (tb, vb)).type = tb / 8192 := rfl
  have hva : (keyOf t (ta, va)).value = va := rfl
  have hvb : (keyOf t (tb, vb)).value = vb := rfl
  rw [hty, hty', hva, hvb]
  by_cases h1 : ta / 8192 = tb / 8192
  · rw [if_pos h1]
    by_cases h2 : t.names[ta % 8192]'ha.2 = t.names[tb % 8192]'hb.2
    · rw [if_pos h2]
      have h3 := (names_eq_iff ht ha.2 hb.2).1 h2
      have : ta = tb := by omega
      subst this
      simp
    · rw [if_neg h2]
      have h3 : ¬ ta % 8192 = tb % 8192 := fun hh => h2 ((names_eq_iff ht ha.2 hb.2).2 hh)
      have h4 := names_lt_iff ht ha.2 hb.2
      by_cases h5 : ta % 8192 < tb % 8192
      · have : t.names[ta % 8192]'ha.2 < t.names[tb % 8192]'hb.2 := h4.2 h5
        simp only [this, decide_true]
        have : ta < tb := by omega
        simp [this]
      · have : ¬ t.names[ta % 8192]'ha.2 < t.names[tb % 8192]'hb.2 := fun hh => h5 (h4.1 hh)
        simp only [this, decide_false]
        have h6 : ¬ ta < tb := by omega
        have h7 : ¬ ta = tb := by omega
        simp [h6, h7]
  · rw [if_neg h1]
    by_cases h5 : ta / 8192 < tb / 8192
    · simp only [h5, decide_true]
      have : ta < tb := by omega
      simp [this]
    · simp only [h5, decide_false]
      have h6 : ¬ ta < tb := by omega
      have h7 : ¬ ta = tb := by omega
      simp [h6, h7]

theorem keyOf_inj {t : Table} (ht : TableOK t) {a b : Id} (ha : TnOK t a.1) (hb : TnOK t b.1) :
    keyOf t a = keyOf t b ↔ a = b := by
  constructor
  · intro h
    obtain ⟨ta, va⟩ := a
    obtain ⟨tb, vb⟩ := b
    simp only at ha hb
    have h1 : (keyOf t (ta, va)).type = (keyOf t (tb, vb)).type := by rw [h]
    have h2 : (keyOf t (ta, va)).ns = (keyOf t (tb, vb)).ns := by rw [h]
    have h3 : (keyOf t (ta, va)).value = (keyOf t (tb, vb)).value := by rw [h]
    rw [keyOf_ns ha va, keyOf_ns hb vb] at h2
    have h4 := (names_eq_iff ht ha.2 hb.2).1 h2
    have h1' : ta / 8192 = tb / 8192 := h1
    have h3' : va = vb := h3
    have : ta = tb := by omega
    rw [this, h3']
  · intro h; rw [h]

/-! ## `FillFromNamespaces` builds a good table -/

theorem string_lt_of_not_lt_of_ne {a b : String} (h1 : ¬ a < b) (h2 : a ≠ b) : b < a := by
  apply Classical.byContradiction
  intro h3
  have hab : b ≤ a := String.not_lt.1 h1
  have hba : a ≤ b := String.not_lt.1 h3
  exact h2 (String.le_antisymm hba hab)

theorem insertSorted_spec (s : String) : ∀ (l : List String), l.Pairwise (· < ·) → s ∉ l →
    (insertSorted s l).Pairwise (· < ·) ∧ (∀ y, y ∈ insertSorted s l ↔ y = s ∨ y ∈ l) ∧
    (insertSorted s l).length = l.length + 1 := by
  intro l
  induction l with
  | nil => intro _ _; simp [insertSorted]
  | cons x xs ih =>
    intro hp hn
    simp only [List.mem_cons, not_or] at hn
    rw [List.pairwise_cons] at hp
    unfold insertSorted
    by_cases hlt : s < x
    · rw [if_pos hlt]
      refine ⟨?_, by intro y; simp, by simp⟩
      rw [List.pairwise_cons]
      refine ⟨?_, List.pairwise_cons.2 hp⟩
      intro y hy
      rcases List.mem_cons.1 hy with h | h
      · subst h; exact hlt
      · exact String.lt_trans hlt (hp.1 y h)
    · rw [if_neg hlt]
      have hxs : x < s := string_lt_of_not_lt_of_ne hlt hn.1
      obtain ⟨h1, h2, h3⟩ := ih hp.2 hn.2
      refine ⟨?_, ?_, by simp [h3]⟩
      · rw [List.pairwise_cons]
        refine ⟨?_, h1⟩
        intro y hy
        rcases (h2 y).1 hy with h | h
        · subst h; exact hxs
        · exact hp.1 y h
      · intro y
        simp only [List.mem_cons, h2]
        constructor
        · rintro (h | h | h)
          · exact Or.inr (Or.inl h)
          · exact Or.inl h
          · exact Or.inr (Or.inr h)
        · rintro (h | h | h)
          · exact Or.inr (Or.inl h)
          · exact Or.inl h
          · exact Or.inr (Or.inr h)

theorem sortNames_spec : ∀ (l : List String), l.Nodup →
    (sortNames l).Pairwise (· < ·) ∧ (∀ y, y ∈ sortNames l ↔ y ∈ l) ∧ (sortNames l).length = l.length := by
  intro l
  induction l with
  | nil => intro _; simp [sortNames]
  | cons x xs ih =>
    intro hnd
    rw [List.nodup_cons] at hnd
    obtain ⟨h1, h2, h3⟩ := ih hnd.2
    unfold sortNames
    have hnot : x ∉ sortNames xs := fun h => hnd.1 ((h2 x).1 h)
    obtain ⟨g1, g2, g3⟩ := insertSorted_spec x (sortNames xs) h1 hnot
    refine ⟨g1, ?_, by rw [g3, h3]; rfl⟩
    intro y
    rw [g2, h2]; simp

/-- **`FillFromNamespaces` on distinct non-empty names gives a strictly increasing table** holding exactly
`""` and the given names. -/
theorem fillFromNamespaces_ok (nss : List String) (hnd : nss.Nodup) (hne : "" ∉ nss) (hlen : nss.length < 8192) :
    TableOK (fillFromNamespaces nss) ∧ (∀ y, y ∈ (fillFromNamespaces nss).names ↔ y = "" ∨ y ∈ nss) := by
  have hnd' : ("" :: nss).Nodup := List.nodup_cons.2 ⟨hne, hnd⟩
  obtain ⟨h1, h2, h3⟩ := sortNames_spec ("" :: nss) hnd'
  refine ⟨⟨h1, ?_⟩, ?_⟩
  · show (sortNames ("" :: nss)).length ≤ 8192
    rw [h3]; simp only [List.length_cons]; omega
  · intro y
    show y ∈ sortNames ("" :: nss) ↔ _
    rw [h2]; simp

end B6.Model.Posting
