import B6.Model.Tags
import B6.Spec.OrderedMap
/-!
Helper lemmas for C39 (`B6.Props.C39`): the Go-slice model of `b6.Tags` against the ordered-map spec.
Core Lean only.
-/
namespace B6.Lemmas.Tags
open B6.Model.Tags B6.Spec.OrderedMap

/-! ### keys / distinctness -/

theorem distinct_nil : Distinct [] := by simp [Distinct, keys]

theorem distinct_cons {e : Entry} {m : OMap} :
    Distinct (e :: m) ↔ (∀ x ∈ m, x.1 ≠ e.1) ∧ Distinct m := by
  unfold Distinct keys
  rw [List.map_cons, List.nodup_cons]
  constructor
  · rintro ⟨h1, h2⟩
    refine ⟨fun x hx heq => h1 ?_, h2⟩
    exact List.mem_map.mpr ⟨x, hx, heq⟩
  · rintro ⟨h1, h2⟩
    refine ⟨fun hmem => ?_, h2⟩
    obtain ⟨x, hx, heq⟩ := List.mem_map.mp hmem
    exact h1 x hx heq

theorem distinct_sublist {m m' : OMap} (h : m'.Sublist m) (hd : Distinct m) : Distinct m' := by
  unfold Distinct keys at *
  exact List.Nodup.sublist (List.Sublist.map _ h) hd

theorem distinct_filter (p : Entry → Bool) {m : OMap} (hd : Distinct m) : Distinct (m.filter p) :=
  distinct_sublist List.filter_sublist hd

theorem distinct_append_fresh {m : OMap} {e : Entry} (hd : Distinct m) (hf : ∀ x ∈ m, x.1 ≠ e.1) :
    Distinct (m ++ [e]) := by
  induction m with
  | nil => simp [Distinct, keys]
  | cons a m ih =>
    rw [distinct_cons] at hd
    rw [List.cons_append, distinct_cons]
    refine ⟨?_, ih hd.2 (fun x hx => hf x (List.mem_cons_of_mem _ hx))⟩
    intro x hx
    rcases List.mem_append.mp hx with hx | hx
    · exact hd.1 x hx
    · have : x = e := by simpa using hx
      subst this
      exact fun h => hf a (List.mem_cons_self ..) h.symm

theorem keys_map_preserve (f : Entry → Entry) (hf : ∀ x, (f x).1 = x.1) (m : OMap) :
    keys (m.map f) = keys m := by
  unfold keys
  rw [List.map_map]
  exact List.map_congr_left (fun x _ => hf x)

/-! ### lookup / any -/

theorem any_false_iff {m : OMap} {k : String} :
    m.any (·.1 == k) = false ↔ ∀ x ∈ m, x.1 ≠ k := by
  simp [List.any_eq_false]

theorem lookup_none_iff {m : OMap} {k : String} : lookup m k = none ↔ ∀ x ∈ m, x.1 ≠ k := by
  unfold lookup
  simp [List.find?_eq_none]

theorem lookup_cons (e : Entry) (m : OMap) (k : String) :
    lookup (e :: m) k = if e.1 = k then some e.2 else lookup m k := by
  unfold lookup
  by_cases h : e.1 = k
  · simp [h]
  · have hb : (e.1 == k) = false := by simpa using h
    simp [hb, h]

/-! ### `ModifyOrAddTag` -/

theorem modify_none_iff {t : Tags} {tag : Tag} : B6.Model.Tags.modify t tag = none ↔ ∀ x ∈ t, x.1 ≠ tag.1 := by
  induction t with
  | nil => simp [B6.Model.Tags.modify]
  | cons hd tl ih =>
    obtain ⟨k', v⟩ := hd
    by_cases h : k' = tag.1
    · simp [B6.Model.Tags.modify, h]
    · simp only [B6.Model.Tags.modify, h, ↓reduceIte]
      cases hm : B6.Model.Tags.modify tl tag with
      | none =>
        simp only [true_iff]
        intro x hx
        rcases List.mem_cons.mp hx with hx | hx
        · subst hx; exact h
        · exact (ih.mp hm) x hx
      | some r =>
        obtain ⟨rest', old⟩ := r
        simp only [reduceCtorEq, false_iff]
        intro hall
        have : B6.Model.Tags.modify tl tag = none := ih.mpr (fun x hx => hall x (List.mem_cons_of_mem _ hx))
        rw [hm] at this
        cases this

theorem map_replace_id {t : Tags} {tag : Tag} (h : ∀ x ∈ t, x.1 ≠ tag.1) :
    t.map (fun x => if x.1 == tag.1 then (x.1, tag.2) else x) = t := by
  induction t with
  | nil => rfl
  | cons a t ih =>
    have ha : (a.1 == tag.1) = false := by simpa using h a (List.mem_cons_self ..)
    rw [List.map_cons, ih (fun x hx => h x (List.mem_cons_of_mem _ hx))]
    simp [ha]

/-- on a key-distinct list the loop of `ModifyOrAddTag`, when it finds the key, is the spec's in-place
replacement and reports the previous value -/
theorem modify_some_spec {t : Tags} {tag : Tag} (hd : Distinct t) {t' : Tags} {old : String}
    (hm : B6.Model.Tags.modify t tag = some (t', old)) :
    t' = t.map (fun x => if x.1 == tag.1 then (x.1, tag.2) else x) ∧ lookup t tag.1 = some old := by
  induction t generalizing t' old with
  | nil => simp [B6.Model.Tags.modify] at hm
  | cons hd' tl ih =>
    obtain ⟨k', v⟩ := hd'
    rw [distinct_cons] at hd
    by_cases h : k' = tag.1
    · simp only [B6.Model.Tags.modify, h, ↓reduceIte, Option.some.injEq, Prod.mk.injEq] at hm
      obtain ⟨rfl, rfl⟩ := hm
      have hrest : ∀ x ∈ tl, x.1 ≠ tag.1 := fun x hx => by
        have := hd.1 x hx
        simpa [h] using this
      refine ⟨?_, ?_⟩
      · rw [List.map_cons, map_replace_id hrest]
        simp [h]
      · rw [lookup_cons]; simp [h]
    · simp only [B6.Model.Tags.modify, h, ↓reduceIte] at hm
      cases hr : B6.Model.Tags.modify tl tag with
      | none => rw [hr] at hm; cases hm
      | some r =>
        obtain ⟨rest', old'⟩ := r
        rw [hr] at hm
        simp only [Option.some.injEq, Prod.mk.injEq] at hm
        obtain ⟨rfl, rfl⟩ := hm
        obtain ⟨h1, h2⟩ := ih hd.2 hr
        have hb : (k' == tag.1) = false := by simpa using h
        refine ⟨?_, ?_⟩
        · rw [List.map_cons, ← h1]; simp [hb]
        · rw [lookup_cons]; simp [h, h2]

/-! ### `RemoveTag`: the in-place deletion loop on the Go-slice model -/

theorem filter_ne_id {t : Tags} {k : String} (h : ∀ x ∈ t, x.1 ≠ k) : t.filter (·.1 != k) = t := by
  rw [List.filter_eq_self]
  intro x hx
  simpa using h x hx

/-- Stretch of the loop in which no key matches: nothing happens.  The backing array is
`A ++ B ++ C`, the loop index stands at `|A|`, the `range` bound is `|A| + |B|`, no tag of `B` has the key. -/
theorem removeLoop_no_match (k : String) (B : List Tag) :
    ∀ (A C : List Tag) (len fuel : Nat), (∀ b ∈ B, b.1 ≠ k) →
      removeLoop k (A.length + B.length) fuel A.length ⟨A ++ B ++ C, len⟩ = some ⟨A ++ B ++ C, len⟩ := by
  induction B with
  | nil =>
    intro A C len fuel _
    cases fuel with
    | zero => rfl
    | succ f => simp [removeLoop]
  | cons b B ih =>
    intro A C len fuel hB
    cases fuel with
    | zero => rfl
    | succ f =>
      have hb : b.1 ≠ k := hB b (List.mem_cons_self ..)
      have hget : (A ++ b :: B ++ C)[A.length]? = some b := by
        rw [List.append_assoc, List.getElem?_append_right (Nat.le_refl _)]
        simp
      have hlt : ¬ (A.length ≥ A.length + (b :: B).length) := by simp
      simp only [removeLoop, hlt, ↓reduceIte, hget, hb]
      have := ih (A ++ [b]) C len f (fun x hx => hB x (List.mem_cons_of_mem _ hx))
      simp only [List.length_append, List.length_cons, List.length_nil, List.append_assoc,
        List.cons_append, List.nil_append] at this
      simp only [List.length_cons, List.append_assoc, List.cons_append]
      rw [show A.length + (B.length + 1) = A.length + (0 + 1) + B.length by omega]
      exact this

/-- the last element of a non-empty list, written so that it reduces -/
def lastOf (x : Tag) : List Tag → Tag
  | [] => x
  | y :: ys => lastOf y ys

theorem lastOf_mem (x : Tag) (l : List Tag) : lastOf x l ∈ x :: l := by
  induction l generalizing x with
  | nil => simp [lastOf]
  | cons y ys ih =>
    simp only [lastOf]
    exact List.mem_cons_of_mem _ (ih y)

theorem drop_length_lastOf (x : Tag) (l C : List Tag) :
    (x :: l ++ C).drop l.length = lastOf x l :: C := by
  induction l generalizing x with
  | nil => simp [lastOf]
  | cons y ys ih =>
    simp only [List.length_cons, lastOf]
    have := ih y
    simpa using this

/-- `append(t[:i], t[i+1:]...)` on the backing array `A ++ x :: B ++ C` with `i = |A|`, `len = |A|+|B|+1`:
the tail slides down by one and the old last element stays behind in the array. -/
theorem cut_at (A B C : List Tag) (x : Tag) :
    GoSlice.cut ⟨A ++ x :: B ++ C, A.length + (x :: B).length⟩ A.length
      = some ⟨A ++ B ++ lastOf x B :: C, A.length + B.length⟩ := by
  have h1 : ¬ (A.length + 1 > A.length + (x :: B).length) := by simp
  have htake : (A ++ x :: B ++ C).take A.length = A := by
    rw [List.append_assoc, List.take_left']; rfl
  have hdrop1 : (A ++ x :: B ++ C).drop (A.length + 1) = B ++ C := by
    rw [List.append_assoc, List.drop_length_add_append]
    simp
  have hdrop2 : (A ++ x :: B ++ C).drop (A.length + (x :: B).length - 1) = lastOf x B :: C := by
    rw [List.append_assoc, show A.length + (x :: B).length - 1 = A.length + B.length by simp,
      List.drop_length_add_append]
    exact drop_length_lastOf x B C
  have htake2 : (B ++ C).take (A.length + (x :: B).length - (A.length + 1)) = B := by
    rw [show A.length + (x :: B).length - (A.length + 1) = B.length by simp; omega]
    exact List.take_left' rfl
  simp only [GoSlice.cut, h1, ↓reduceIte, htake, hdrop1, hdrop2, htake2]
  simp

/-- **The deletion loop on key-distinct lists.**  Backing array `pre ++ suf ++ spare`, loop index at `|pre|`,
`range` bound and current length `|pre| + |suf|`, nothing removed so far (no tag of `pre` has the key), keys of
`suf` distinct.  The loop does not panic, ends with the slice `pre ++ (suf without key k)`, and keeps the
backing array's size (the stale element left behind by the shift is never matched again). -/
theorem removeLoop_spec (k : String) (suf : List Tag) :
    ∀ (pre spare : List Tag) (fuel : Nat), suf.length ≤ fuel → (∀ a ∈ pre, a.1 ≠ k) → Distinct suf →
      ∃ s', removeLoop k (pre.length + suf.length) fuel pre.length
                ⟨pre ++ suf ++ spare, pre.length + suf.length⟩ = some s'
        ∧ s'.toList = pre ++ suf.filter (·.1 != k)
        ∧ s'.back.length = (pre ++ suf ++ spare).length
        ∧ s'.len ≤ s'.back.length := by
  induction suf with
  | nil =>
    intro pre spare fuel _ _ _
    refine ⟨⟨pre ++ [] ++ spare, pre.length + 0⟩, ?_, ?_, rfl, ?_⟩
    · cases fuel with
      | zero => rfl
      | succ f => simp [removeLoop]
    · simp [GoSlice.toList]
    · simp
  | cons x suf ih =>
    intro pre spare fuel hfuel hpre hd
    rw [distinct_cons] at hd
    cases fuel with
    | zero => simp at hfuel
    | succ f =>
      have hget : (pre ++ x :: suf ++ spare)[pre.length]? = some x := by
        rw [List.append_assoc, List.getElem?_append_right (Nat.le_refl _)]
        simp
      have hlt : ¬ (pre.length ≥ pre.length + (x :: suf).length) := by simp
      by_cases hx : x.1 = k
      · -- the (only) matching tag: cut, then the rest of the loop sees no match
        have hsuf : ∀ b ∈ suf, b.1 ≠ k := fun b hb => by
          have := hd.1 b hb
          rwa [hx] at this
        simp only [removeLoop, hlt, ↓reduceIte, hget, hx, cut_at]
        -- the remaining indices |pre|+1 … |pre|+|suf| of the new backing array
        have hrest : removeLoop k (pre.length + (x :: suf).length) f (pre.length + 1)
              ⟨pre ++ suf ++ lastOf x suf :: spare, pre.length + suf.length⟩
            = some ⟨pre ++ suf ++ lastOf x suf :: spare, pre.length + suf.length⟩ := by
          cases suf with
          | nil =>
            have := removeLoop_no_match k [] (pre ++ [lastOf x []]) spare (pre.length + 0) f (by simp)
            simpa using this
          | cons y ys =>
            have hl : lastOf x (y :: ys) ∈ y :: ys := by
              simp only [lastOf]; exact lastOf_mem y ys
            have := removeLoop_no_match k (ys ++ [lastOf x (y :: ys)]) (pre ++ [y]) spare
              (pre.length + (y :: ys).length) f (by
                intro b hb
                rcases List.mem_append.mp hb with hb | hb
                · exact hsuf b (List.mem_cons_of_mem _ hb)
                · have : b = lastOf x (y :: ys) := by simpa using hb
                  rw [this]; exact hsuf _ hl)
            simp only [List.length_append, List.length_cons, List.length_nil, List.append_assoc,
              List.cons_append, List.nil_append] at this
            simp only [List.length_cons, List.append_assoc, List.cons_append]
            rw [show pre.length + (ys.length + 1 + 1) = pre.length + (0 + 1) + (ys.length + (0 + 1)) by omega]
            exact this
        refine ⟨_, hrest, ?_, ?_, ?_⟩
        · have hb : (x.1 != k) = false := by simp [hx]
          simp only [GoSlice.toList, List.filter_cons, hb, Bool.false_eq_true, ↓reduceIte,
            filter_ne_id hsuf]
          rw [← List.length_append]
          exact List.take_left' rfl
        · simp only [List.length_append, List.length_cons]; omega
        · simp only [List.length_append, List.length_cons]; omega
      · -- no match at this index: step over it
        simp only [removeLoop, hlt, ↓reduceIte, hget, hx]
        have hpre' : ∀ a ∈ pre ++ [x], a.1 ≠ k := by
          intro a ha
          rcases List.mem_append.mp ha with ha | ha
          · exact hpre a ha
          · have : a = x := by simpa using ha
            rw [this]; exact hx
        obtain ⟨s', h1, h2, h3, h4⟩ := ih (pre ++ [x]) spare f (by simpa using hfuel) hpre' hd.2
        simp only [List.length_append, List.length_cons, List.length_nil, List.append_assoc,
          List.cons_append, List.nil_append] at h1 h2 h3
        refine ⟨s', ?_, ?_, ?_, h4⟩
        · simp only [List.length_cons, List.append_assoc, List.cons_append]
          rw [show pre.length + (suf.length + 1) = pre.length + (0 + 1) + suf.length by omega]
          exact h1
        · have hb : (x.1 != k) = true := by simpa using hx
          simp only [List.filter_cons, hb, ↓reduceIte]
          exact h2
        · simp only [List.length_append, List.length_cons] at h3 ⊢
          omega

/-! ### `RemoveTags` -/

theorem removeAll_nil (m : OMap) : removeAll m [] = m := by
  unfold removeAll
  rw [List.filter_eq_self]
  intro x _
  simp

theorem removeAll_cons (m : OMap) (k : String) (ks : List String) :
    removeAll m (k :: ks) = removeAll (remove m k) ks := by
  unfold removeAll remove
  rw [List.filter_filter]
  apply List.filter_congr
  intro x _
  by_cases h : x.1 = k
  · simp [h]
  · have h' : ¬ k = x.1 := fun e => h e.symm
    simp [h, bne_iff_ne]

end B6.Lemmas.Tags
