import B6.Lemmas.CompactIndexEach
/-!
# C01 lemmas, part 9: `EachFeature` reports only ids of the source
-/
namespace B6.Model.CompactIndex
open B6.Model.Varint B6.Model.Records
open B6.Model.Containers (Entry)

theorem foldl_point_some : ∀ (es : List Scratch) (acc : Option Bytes) (d : Bytes),
    es.foldl (fun acc e => match e with
      | .point d => some d
      | _ => acc) acc = some d → acc = some d ∨ Scratch.point d ∈ es := by
  intro es
  induction es with
  | nil => intro acc d h; exact Or.inl h
  | cons x xs ih =>
    intro acc d h
    simp only [List.foldl_cons] at h
    rcases ih _ d h with h1 | h1
    · cases x with
      | point d' =>
        simp only [Option.some.injEq] at h1
        subst h1
        exact Or.inr (by simp)
      | path r => exact Or.inl h1
      | rel r => exact Or.inl h1
    · exact Or.inr (by simp [h1])

/-- a record that is not references-only was combined from a `PointTag` entry -/
theorem combine_not_refsonly (c : Ctx) (id : BitVec 64) (es : List Scratch) (h : (combine c id es).tag ≠ 2#64) :
    ∃ d, Scratch.point d ∈ es := by
  unfold combine combineWith at h
  cases hp : scratchPoint es with
  | none => simp [hp] at h
  | some d =>
    unfold scratchPoint at hp
    rcases foldl_point_some es none d hp with h1 | h1
    · simp at h1
    · exact ⟨d, h1⟩

/-- **`EachFeature` is sound**: after a successful build (ids distinct or not) everything it reports is the id
of a feature of the source -/
theorem each_sound (strs : List Str) (fs : List Feature) (ix : Index) (hbuild : build strs fs = .ok ix)
    (hsmall : (nsTable fs).length ≤ 8192) : ∀ x ∈ each ix, ∃ f ∈ fs, f.id = x := by
  obtain ⟨c, scr, hb, hp⟩ := build_points strs fs ix hbuild
  intro x hx
  unfold each at hx
  simp only [List.mem_flatMap, List.mem_filterMap] at hx
  obtain ⟨t, ht, b, hbf, e, he, hxe⟩ := hx
  have ⟨hbm, hbt⟩ := List.mem_filter.mp hbf
  simp only [beq_iff_eq] at hbt
  have hemem := (mem_iterIds b e).mp he
  split at hxe
  · simp at hxe
  · rename_i hskip
    simp only [Option.map_eq_some_iff] at hxe
    obtain ⟨ns, hns, rfl⟩ := hxe
    rcases hb.hblocks b hbm with h0 | ⟨k, hk, hfk⟩
    · -- a point block
      have ht0 : t = 0 := by rw [← hbt]; exact h0
      subst ht0
      obtain ⟨n', ns', hmem', hpb'⟩ := hp.hpts b hbm h0
      have hget' := (mem_blockNamespaces _ _ _).mp hmem'
      have hn'lt : n' < (nsTable fs).length := by
        rcases Nat.lt_or_ge n' (nsTable fs).length with h | h
        · exact h
        · simp [List.getElem?_eq_none h] at hget'
      unfold pointBlock at hpb'
      simp only at hpb'
      split at hpb'
      · simp at hpb'
      · simp only [Option.some.injEq] at hpb'
        subst hpb'
        simp only at hemem hns
        -- the namespace the header decodes to
        have hnat : (ns16 n').toNat = n' := by simp [ns16]; omega
        have hnsdec : ns = ns' := by
          have : nssGet (blockHeader c 0 n') 0 = ns16 n' := rfl
          rw [this, hnat, hb.hnt] at hns
          unfold nsDecode at hns
          rw [hget'] at hns
          exact (Option.some.inj hns).symm
        subst hnsdec
        obtain ⟨id', _, he_eq⟩ := List.mem_map.mp hemem
        have htag : e.tag ≠ 2#64 := by
          intro hc2
          simp [hc2] at hskip
        rw [← he_eq] at htag
        obtain ⟨d, hd⟩ := combine_not_refsonly c id' _ htag
        obtain ⟨y, hy, hy2⟩ := List.mem_map.mp hd
        obtain ⟨ns'', v'', s''⟩ := y
        simp only at hy2
        subst hy2
        have ⟨hy1, hyv⟩ := List.mem_filter.mp hy
        have ⟨hymem, hyns⟩ := List.mem_filter.mp hy1
        simp only [beq_iff_eq] at hyv hyns
        subst hyv hyns
        obtain ⟨l, hl, hyl⟩ := List.mem_flatten.mp hymem
        have ⟨hs1, _⟩ := mapM_except_mem _ _ _ hp.hscr
        obtain ⟨g, hg, hgl⟩ := hs1 l hl
        have ⟨hg0, hgns, hgv⟩ := scratchOf_point c fs g l hgl _ _ d hyl
        refine ⟨g, hg, ?_⟩
        rw [← he_eq, combine_id]
        cases hgi : g.id with
        | mk t1 n1 v1 =>
          rw [hgi] at hg0 hgns hgv
          simp only at hg0 hgns hgv
          rw [hg0, hgns, hgv]
    · -- a path / area / relation block
      obtain ⟨t', n', ns'⟩ := k
      simp only at hfk
      have ⟨h1, h2, hes⟩ := featureBlock_some c fs t' n' ns' b hfk
      have hkk := (mem_blockKeys _ _).mp hk
      simp only at hkk
      have htt : t' = t := by rw [← h1, hbt]
      subst htt
      have hn'lt : n' < (nsTable fs).length := by
        rcases Nat.lt_or_ge n' (nsTable fs).length with h | h
        · exact h
        · simp [List.getElem?_eq_none h] at hkk
      have hnat : (ns16 n').toNat = n' := by simp [ns16]; omega
      have hnsdec : ns = ns' := by
        rw [h2, nssGet_blockHeader c _ n' hkk.1, hnat, hb.hnt] at hns
        unfold nsDecode at hns
        rw [hkk.2] at hns
        exact (Option.some.inj hns).symm
      subst hnsdec
      have ⟨hm1, _⟩ := mapM_except_mem _ _ _ hes
      obtain ⟨g', hg', hfe'⟩ := hm1 e hemem
      have ⟨he1, _, _⟩ := entryOf_spec c fs _ _ e hfe'
      unfold keptOf at hg'
      obtain ⟨f', hf', rfl⟩ := List.mem_map.mp hg'
      have ⟨hf'mem, hf'p⟩ := List.mem_filter.mp hf'
      simp only [Bool.and_eq_true, beq_iff_eq] at hf'p
      rw [validated_id] at he1
      refine ⟨f', hf'mem, ?_⟩
      cases hfi : f'.id with
      | mk t1 n1 v1 =>
        rw [hfi] at hf'p he1
        simp only at hf'p he1
        rw [hf'p.1.1, hf'p.1.2, he1]

end B6.Model.CompactIndex
