import B6.Lemmas.OverlayWorld
/-!
C16: the breadth-first closure of `OverlayWorld.FindReferences` (fixes/C16-union-refs-closure.patch) is
exact: `bfs_spec` (invariant + termination by fuel), `union_refs_full`.
-/
namespace B6.Lemmas.OverlayBfs
open B6.Model.OverlayWorld B6.Lemmas.OverlayMerge B6.Lemmas.OverlayWorld B6.Spec.Referrers

def NodupIds (l : Layer) : Prop := (l.map (·.id)).Nodup

theorem find_of_mem {l : Layer} (hu : NodupIds l) {f : Feat} (hf : f ∈ l) : l.find f.id = some f := by
  induction l with
  | nil => cases hf
  | cons a l ih =>
    unfold NodupIds at hu
    simp only [List.map_cons, List.nodup_cons] at hu
    unfold Layer.find
    rw [List.find?_cons]
    by_cases ha : a.id = f.id
    · rcases List.mem_cons.mp hf with rfl | hfl
      · simp
      · exact absurd (List.mem_map.mpr ⟨f, hfl, ha.symm⟩) hu.1
    · rcases List.mem_cons.mp hf with rfl | hfl
      · exact absurd rfl ha
      · simp only [ha, decide_false]
        exact ih hu.2 hfl

theorem nodup_merged (w : OW) (ho : NodupIds w.overlay) (hb : NodupIds w.base) : NodupIds w.merged :=
  each_nodup w ho hb

/-- `f` is a current feature that lists `x` among its references -/
def Direct (w : OW) (x : Id) (f : Feat) : Prop := f ∈ w.merged ∧ x ∈ f.refs

theorem stepCands_mem {w : OW} (ho : NodupIds w.overlay) (hb : NodupIds w.base) {x : Id} {C : List Feat}
    (h : w.stepCands x = some C) (f : Feat) : f ∈ C ↔ Direct w x f := by
  unfold OW.stepCands at h
  cases hbf : w.base.findRefs x [] with
  | none => simp [hbf] at h
  | some B =>
    cases hof : w.overlay.findRefs x [] with
    | none => simp [hbf, hof] at h
    | some O =>
      simp only [hbf, hof, Option.some.injEq] at h
      subst h
      have hB := mem_findRefs hbf
      have hO := mem_findRefs hof
      simp only [List.mem_filter, List.mem_append, List.contains_iff_mem, Bool.not_eq_true']
      unfold Direct
      rw [show w.merged = w.each from rfl, mem_each]
      constructor
      · rintro ⟨(⟨h1, h2⟩ | h1), h3⟩
        · exact ⟨Or.inr ⟨(find_some ((hB f).mp h1).1).1, h2⟩, h3⟩
        · exact ⟨Or.inl (find_some ((hO f).mp h1).1).1, h3⟩
      · rintro ⟨(h1 | ⟨h1, h2⟩), h3⟩
        · refine ⟨Or.inr ((hO f).mpr ⟨find_of_mem ho h1, .direct ((refers_rl _ _ _).mpr ⟨f, h1, rfl, h3⟩), by simp [typeOk]⟩), h3⟩
        · refine ⟨Or.inl ⟨(hB f).mpr ⟨find_of_mem hb h1, .direct ((refers_rl _ _ _).mpr ⟨f, h1, rfl, h3⟩), by simp [typeOk]⟩, h2⟩, h3⟩

abbrev ids (l : List Feat) : List Id := l.map (·.id)

theorem visit_fold : ∀ (cands : List Feat) (acc : List Feat) (n0 : List Id),
    let r := cands.foldl visit (acc, n0)
    (∀ f ∈ r.1, f ∈ acc ∨ f ∈ cands) ∧ (∀ f ∈ acc, f ∈ r.1) ∧ (∀ c ∈ cands, c.id ∈ ids r.1) ∧
    ((ids acc).Nodup → (ids r.1).Nodup) ∧ (∀ i ∈ r.2, i ∈ n0 ∨ i ∈ ids r.1) ∧ (∀ i ∈ n0, i ∈ r.2) ∧
    (∀ f ∈ r.1, f ∈ acc ∨ f.id ∈ r.2) ∧ r.1.length + n0.length = acc.length + r.2.length := by
  intro cands
  induction cands with
  | nil =>
    intro acc n0
    show _ ∧ _ ∧ _ ∧ _ ∧ _ ∧ _ ∧ _ ∧ _
    exact ⟨fun f hf => Or.inl hf, fun f hf => hf, fun c hc => (by cases hc), fun h => h,
      fun i hi => Or.inl hi, fun i hi => hi, fun f hf => Or.inl hf, rfl⟩
  | cons c cs ih =>
    intro acc n0
    simp only [List.foldl_cons]
    by_cases hc : acc.any (fun g => decide (g.id = c.id)) = true
    · have hv : visit (acc, n0) c = (acc, n0) := by simp [visit, hc]
      rw [hv]
      obtain ⟨h1, h2, h3, h4, h5, h6, h7, h8⟩ := ih acc n0
      refine ⟨?_, h2, ?_, h4, h5, h6, h7, h8⟩
      · intro f hf
        rcases h1 f hf with h | h
        · exact Or.inl h
        · exact Or.inr (List.mem_cons_of_mem _ h)
      · intro x hx
        rcases List.mem_cons.mp hx with rfl | hx
        · simp only [List.any_eq_true, decide_eq_true_eq] at hc
          obtain ⟨g, hg, hgid⟩ := hc
          exact List.mem_map.mpr ⟨g, h2 g hg, hgid⟩
        · exact h3 x hx
    · have hv : visit (acc, n0) c = (acc ++ [c], n0 ++ [c.id]) := by simp [visit, hc]
      rw [hv]
      obtain ⟨h1, h2, h3, h4, h5, h6, h7, h8⟩ := ih (acc ++ [c]) (n0 ++ [c.id])
      have hcn : c.id ∉ ids acc := by
        intro hm
        apply hc
        obtain ⟨g, hg, hgid⟩ := List.mem_map.mp hm
        simp only [List.any_eq_true, decide_eq_true_eq]
        exact ⟨g, hg, hgid⟩
      refine ⟨?_, ?_, ?_, ?_, ?_, ?_, ?_, ?_⟩
      · intro f hf
        rcases h1 f hf with h | h
        · rcases List.mem_append.mp h with h | h
          · exact Or.inl h
          · simp only [List.mem_singleton] at h; subst h; exact Or.inr List.mem_cons_self
        · exact Or.inr (List.mem_cons_of_mem _ h)
      · intro f hf; exact h2 f (List.mem_append_left _ hf)
      · intro x hx
        rcases List.mem_cons.mp hx with rfl | hx
        · exact List.mem_map.mpr ⟨x, h2 x (List.mem_append_right _ (by simp)), rfl⟩
        · exact h3 x hx
      · intro hn
        apply h4
        simp only [ids, List.map_append, List.map_cons, List.map_nil]
        rw [List.nodup_append]
        refine ⟨hn, by simp, ?_⟩
        intro a ha b hb e
        simp only [List.mem_singleton] at hb
        subst hb; subst e
        exact hcn ha
      · intro i hi
        rcases h5 i hi with h | h
        · rcases List.mem_append.mp h with h | h
          · exact Or.inl h
          · simp only [List.mem_singleton] at h; subst h
            exact Or.inr (List.mem_map.mpr ⟨c, h2 c (List.mem_append_right _ (by simp)), rfl⟩)
        · exact Or.inr h
      · intro i hi; exact h6 i (List.mem_append_left _ hi)
      · intro f hf
        rcases h7 f hf with h | h
        · rcases List.mem_append.mp h with h | h
          · exact Or.inl h
          · simp only [List.mem_singleton] at h; subst h
            exact Or.inr (h6 f.id (List.mem_append_right _ (by simp)))
        · exact Or.inr h
      · simp only [List.length_append, List.length_cons, List.length_nil] at h8 ⊢
        omega

theorem nodup_subset_length : ∀ (l1 l2 : List Id), l1.Nodup → (∀ x ∈ l1, x ∈ l2) → l1.length ≤ l2.length := by
  intro l1
  induction l1 with
  | nil => intro l2 _ _; simp
  | cons a l1 ih =>
    intro l2 hn hs
    have hn' := List.nodup_cons.mp hn
    have ha : a ∈ l2 := hs a List.mem_cons_self
    have := ih (l2.erase a) hn'.2 (by
      intro x hx
      have hxa : x ≠ a := fun e => hn'.1 (e ▸ hx)
      exact (List.mem_erase_of_ne hxa).mpr (hs x (List.mem_cons_of_mem _ hx)))
    rw [List.length_erase_of_mem ha] at this
    have hpos : 0 < l2.length := List.length_pos_of_mem ha
    simp only [List.length_cons]
    omega

/-- the state of the loop is sound, closed up to the queue, and duplicate free -/
structure BInv (w : OW) (id : Id) (q : List Id) (acc : List Feat) : Prop where
  sound : ∀ f ∈ acc, f ∈ w.merged ∧ ReachPlus (rl w.merged) id f.id
  queue : ∀ x ∈ q, x = id ∨ x ∈ ids acc
  closed : ∀ x, (x = id ∨ x ∈ ids acc) → x ∈ q ∨ ∀ f, Direct w x f → f.id ∈ ids acc
  nodup : (ids acc).Nodup

theorem bfs_spec (w : OW) (ho : NodupIds w.overlay) (hb : NodupIds w.base) (id : Id)
    (hlayers : ∀ x, (w.stepCands x).isSome = true) :
    ∀ (fuel : Nat) (q : List Id) (acc : List Feat), BInv w id q acc →
      q.length + w.merged.length ≤ fuel + acc.length →
      ∃ R, w.bfs fuel q acc = some R ∧ BInv w id [] R := by
  intro fuel
  induction fuel with
  | zero =>
    intro q acc hinv hJ
    cases q with
    | nil => exact ⟨acc, rfl, hinv⟩
    | cons x q =>
      exfalso
      have hlen := nodup_subset_length (ids acc) (ids w.merged) hinv.nodup (by
        intro i hi
        obtain ⟨f, hf, rfl⟩ := List.mem_map.mp hi
        exact List.mem_map.mpr ⟨f, (hinv.sound f hf).1, rfl⟩)
      simp only [ids, List.length_map, List.length_cons] at hlen hJ
      omega
  | succ fuel ih =>
    intro q acc hinv hJ
    cases q with
    | nil => exact ⟨acc, rfl, hinv⟩
    | cons x q =>
      obtain ⟨C, hC⟩ := Option.isSome_iff_exists.mp (hlayers x)
      simp only [OW.bfs, hC]
      obtain ⟨h1, h2, h3, h4, h5, _, h7, h8⟩ := visit_fold C acc []
      have hCm := stepCands_mem ho hb hC
      have hx : x = id ∨ x ∈ ids acc := hinv.queue x List.mem_cons_self
      apply ih
      · constructor
        · intro f hf
          rcases h1 f hf with h | h
          · exact hinv.sound f h
          · obtain ⟨hm, hr⟩ := (hCm f).mp h
            refine ⟨hm, ?_⟩
            have hedge : Refers (rl w.merged) x f.id := (refers_rl _ _ _).mpr ⟨f, hm, rfl, hr⟩
            rcases hx with rfl | hx
            · exact .direct hedge
            · obtain ⟨g, hg, rfl⟩ := List.mem_map.mp hx
              exact .step (hinv.sound g hg).2 hedge
        · intro y hy
          rcases List.mem_append.mp hy with hy | hy
          · rcases hinv.queue y (List.mem_cons_of_mem _ hy) with h | h
            · exact Or.inl h
            · obtain ⟨g, hg, rfl⟩ := List.mem_map.mp h
              exact Or.inr (List.mem_map.mpr ⟨g, h2 g hg, rfl⟩)
          · rcases h5 y hy with h | h
            · cases h
            · exact Or.inr h
        · intro y hy
          by_cases hyx : y = x
          · subst hyx
            refine Or.inr ?_
            intro f hf
            exact h3 f ((hCm f).mpr hf)
          · have hold : (y = id ∨ y ∈ ids acc) ∨ y ∈ (C.foldl visit (acc, [])).2 := by
              rcases hy with h | h
              · exact Or.inl (Or.inl h)
              · obtain ⟨g, hg, rfl⟩ := List.mem_map.mp h
                rcases h7 g hg with h' | h'
                · exact Or.inl (Or.inr (List.mem_map.mpr ⟨g, h', rfl⟩))
                · exact Or.inr h'
            rcases hold with hold | hnew
            · rcases hinv.closed y hold with h | h
              · rcases List.mem_cons.mp h with h | h
                · exact absurd h hyx
                · exact Or.inl (List.mem_append_left _ h)
              · refine Or.inr ?_
                intro f hf
                obtain ⟨g, hg, hgid⟩ := List.mem_map.mp (h f hf)
                exact List.mem_map.mpr ⟨g, h2 g hg, hgid⟩
            · exact Or.inl (List.mem_append_right _ hnew)
        · exact h4 hinv.nodup
      · simp only [List.length_append, List.length_cons, List.length_nil] at hJ h8 ⊢
        omega

theorem closed_complete {w : OW} {id : Id} {R : List Feat} (h : BInv w id [] R) :
    ∀ s, ReachPlus (rl w.merged) id s → s ∈ ids R := by
  intro s hr
  induction hr with
  | direct hd =>
    obtain ⟨f, hf, hid, hx⟩ := (refers_rl _ _ _).mp hd
    rcases h.closed id (Or.inl rfl) with hq | hp
    · cases hq
    · rw [← hid]; exact hp f ⟨hf, hx⟩
  | step _ hd ih =>
    obtain ⟨f, hf, hid, hx⟩ := (refers_rl _ _ _).mp hd
    rcases h.closed _ (Or.inr ih) with hq | hp
    · cases hq
    · rw [← hid]; exact hp f ⟨hf, hx⟩

/-- **`OverlayWorld.FindReferences` after the closure repair**: it terminates (cycles included), and
returns exactly the referrers of `id` within the shadowed feature set, of the requested types, each
once, as their current versions — for ALL pairs of layers with distinct IDs. -/
theorem union_refs_full (w : OW) (ho : NodupIds w.overlay) (hb : NodupIds w.base)
    (hlayers : ∀ x, (w.stepCands x).isSome = true) (id : Id) (typed : List Nat) :
    ∃ R, w.findRefs id typed = some R ∧ (ids R).Nodup ∧ (∀ f ∈ R, f ∈ w.merged) ∧
      ∀ s, (∃ f ∈ R, f.id = s) ↔ (ReachPlus (rl w.merged) id s ∧ typeOk typed s = true) := by
  have hinit : BInv w id [id] [] := by
    constructor
    · intro f hf; cases hf
    · intro x hx; simp only [List.mem_singleton] at hx; exact Or.inl hx
    · intro x hx
      rcases hx with rfl | hx
      · exact Or.inl (by simp)
      · simp [ids] at hx
    · simp [ids]
  have hlen : w.merged.length ≤ w.overlay.length + w.base.length := by
    simp only [OW.merged, OW.each, List.length_append]
    have := List.length_filter_le (fun f => !w.overlay.has f.id) w.base
    omega
  obtain ⟨R0, hR0, hfin⟩ := bfs_spec w ho hb id hlayers (w.base.length + w.overlay.length + 2) [id] [] hinit
    (by simp only [List.length_cons, List.length_nil]; omega)
  refine ⟨R0.filter (fun f => typeOk typed f.id), by simp [OW.findRefs, hR0], ?_, ?_, ?_⟩
  · exact List.Nodup.sublist (List.Sublist.map _ List.filter_sublist) hfin.nodup
  · intro f hf; exact (hfin.sound f (List.mem_filter.mp hf).1).1
  · intro s
    constructor
    · rintro ⟨f, hf, rfl⟩
      obtain ⟨h1, h2⟩ := List.mem_filter.mp hf
      exact ⟨(hfin.sound f h1).2, h2⟩
    · rintro ⟨hr, ht⟩
      obtain ⟨f, hf, hid⟩ := List.mem_map.mp (closed_complete hfin s hr)
      exact ⟨f, List.mem_filter.mpr ⟨hf, by rw [hid]; exact ht⟩, hid⟩

end B6.Lemmas.OverlayBfs
