import B6.Model.Bits
import Std.Tactic.BVDecide
/-!
# Lemmas for the string packings of `B6.Model.Bits` (GB postcodes, UK ONS codes)

Kernel-only except `ons_fields` (three 64-bit field extractions, `bv_decide`).
-/
namespace B6.Lemmas.Bits
open B6.Model.Bits

/-! ## characters -/

theorem char_le_iff (a b : Char) : a ≤ b ↔ a.toNat ≤ b.toNat := by
  rw [Char.le_def, UInt32.le_iff_toNat_le]; rfl

theorem charValue_spec (c : Char) (v : Nat) (h : postcodeCharValue c = some v) :
    v < 36 ∧ postcodeValueChar v = some c := by
  unfold postcodeCharValue at h
  simp only [char_le_iff] at h
  have e0 : '0'.toNat = 48 := rfl
  have e9 : '9'.toNat = 57 := rfl
  have eA : 'A'.toNat = 65 := rfl
  have eZ : 'Z'.toNat = 90 := rfl
  rw [e0, e9, eA, eZ] at h
  unfold postcodeValueChar
  rw [e0, eA]
  split at h
  · rename_i hc
    simp only [Option.some.injEq] at h
    subst h
    have h1 : c.toNat - 48 < 10 := by omega
    have h2 : 48 + (c.toNat - 48) = c.toNat := by omega
    simp [h1, h2]; omega
  · split at h
    · rename_i hc
      simp only [Option.some.injEq] at h
      subst h
      have h1 : ¬ (c.toNat - 65 + 10 < 10) := by omega
      have h2 : c.toNat - 65 + 10 < 36 := by omega
      have h3 : 65 + (c.toNat - 65) = c.toNat := by omega
      simp [h1, h2, h3]
    · simp at h

/-! ## postcodes -/

theorem fold_isSome : ∀ (cs : List Char) (v0 : Nat), (∀ c ∈ cs, (postcodeCharValue c).isSome) →
    ∃ id, postcodeFold cs v0 = some id := by
  intro cs
  induction cs with
  | nil => intro v0 _; exact ⟨v0, rfl⟩
  | cons c cs ih =>
    intro v0 h
    have hc := h c (by simp)
    obtain ⟨v, hv⟩ := Option.isSome_iff_exists.1 hc
    obtain ⟨id, hid⟩ := ih (v0 * 64 + v) (fun c' hc' => h c' (by simp [hc']))
    exact ⟨id, by simp [postcodeFold, hv, hid]⟩

theorem fold_bound : ∀ (cs : List Char) (v0 id : Nat), postcodeFold cs v0 = some id →
    id < (v0 + 1) * 64 ^ cs.length := by
  intro cs
  induction cs with
  | nil => intro v0 id h; simp [postcodeFold] at h; subst h; simp
  | cons c cs ih =>
    intro v0 id h
    unfold postcodeFold at h
    split at h
    · rename_i v hv
      have hb := (charValue_spec c v hv).1
      have := ih _ _ h
      have e : (v0 + 1) * 64 ^ (c :: cs).length = ((v0 + 1) * 64) * 64 ^ cs.length := by
        simp [Nat.pow_succ, Nat.mul_assoc, Nat.mul_comm]
      rw [e]
      have : (v0 * 64 + v + 1) * 64 ^ cs.length ≤ ((v0 + 1) * 64) * 64 ^ cs.length :=
        Nat.mul_le_mul_right _ (by omega)
      omega
    · simp at h

theorem unfold_fold : ∀ (cs : List Char) (v0 id k : Nat) (acc : List Char), postcodeFold cs v0 = some id →
    postcodeUnfold (cs.length + k) id acc = postcodeUnfold k v0 (cs ++ acc) := by
  intro cs
  induction cs with
  | nil => intro v0 id k acc h; simp [postcodeFold] at h; subst h; simp
  | cons c cs ih =>
    intro v0 id k acc h
    unfold postcodeFold at h
    split at h
    · rename_i v hv
      have hs := charValue_spec c v hv
      have e : (c :: cs).length + k = cs.length + (k + 1) := by simp; omega
      rw [e, ih _ _ (k + 1) acc h]
      have hm : (v0 * 64 + v) % 64 = v := by omega
      have hd : (v0 * 64 + v) / 64 = v0 := by omega
      simp [postcodeUnfold, hm, hd, hs.2]
    · simp at h

theorem postcode_roundtrip (s : List Char)
    (h5 : 5 ≤ (normalizePostcode s).length) (h7 : (normalizePostcode s).length ≤ 7)
    (hc : ∀ c ∈ normalizePostcode s, (postcodeCharValue c).isSome) :
    ∃ id, pointIDFromGBPostcode s = some id ∧ postcodeFromPointID id = some (normalizePostcode s) ∧ id < 2 ^ 44 := by
  obtain ⟨id, hid⟩ := fold_isSome (normalizePostcode s) 0 hc
  have hlen : ¬ ((normalizePostcode s).length < 5 ∨ (normalizePostcode s).length > 7) := by omega
  refine ⟨id * 4 + ((normalizePostcode s).length - 5), ?_, ?_, ?_⟩
  · simp only [pointIDFromGBPostcode, hlen, if_false, hid]
  · unfold postcodeFromPointID
    have e1 : 5 + (id * 4 + ((normalizePostcode s).length - 5)) % 4 = (normalizePostcode s).length + 0 := by omega
    have e2 : (id * 4 + ((normalizePostcode s).length - 5)) / 4 = id := by omega
    rw [e1, e2, unfold_fold _ 0 id 0 [] hid]
    simp [postcodeUnfold]
  · have hb := fold_bound _ _ _ hid
    have hp : 64 ^ (normalizePostcode s).length ≤ 64 ^ 7 := Nat.pow_le_pow_right (by omega) h7
    omega

/-! ## ONS codes -/

theorem digitValue_spec (c : Char) (d : Nat) (h : digitValue c = some d) :
    d < 10 ∧ digitChar d = c ∧ c ≠ '-' ∧ c ≠ '+' := by
  unfold digitValue at h
  simp only [char_le_iff] at h
  have e0 : '0'.toNat = 48 := rfl
  have e9 : '9'.toNat = 57 := rfl
  rw [e0, e9] at h
  split at h
  · rename_i hr
    simp only [Option.some.injEq] at h
    subst h
    refine ⟨by omega, ?_, ?_, ?_⟩
    · unfold digitChar
      rw [e0]
      have : 48 + (c.toNat - 48) % 10 = c.toNat := by omega
      simp [this]
    · intro hh; subst hh; revert hr; decide
    · intro hh; subst hh; revert hr; decide
  · simp at h

/-- the three fields of an ONS id value are disjoint (64-bit, `bv_decide`). -/
theorem ons_fields (c y m : BitVec 64) (hc : c < 256#64) (hy : y < 256#64) (hm : m < 4294967296#64) :
    (((c <<< 40 ||| y <<< 32 ||| m) >>> 40) &&& 255#64) = c ∧
    (((c <<< 40 ||| y <<< 32 ||| m) >>> 32) &&& 255#64) = y ∧
    ((c <<< 40 ||| y <<< 32 ||| m) &&& 4294967295#64) = m := by
  refine ⟨?_, ?_, ?_⟩ <;> bv_decide

theorem atoi_of_digit_head (c : Char) (cs : List Char) (d : Nat) (h : digitValue c = some d) :
    atoi (c :: cs) = (atoiDigits (c :: cs) 0).map fun n => (n : Int) := by
  have hs := digitValue_spec c d h
  unfold atoi
  split
  · rename_i heq; simp at heq
  · rename_i ds heq
    simp only [List.cons.injEq] at heq
    exact absurd heq.1 hs.2.2.1
  · rename_i ds heq
    simp only [List.cons.injEq] at heq
    exact absurd heq.1 hs.2.2.2
  · rfl

theorem ons_roundtrip (c0 : Char) (ds : List Char) (year : Int)
    (hc0 : c0.toNat < 128) (hlen : ds.length = 8) (hd : ∀ c ∈ ds, (digitValue c).isSome)
    (hy0 : 1900 ≤ year) (hy1 : year ≤ 2155) :
    ∃ v, featureIDFromUKONSCode (c0 :: ds) year = some v ∧ ukONSCodeFromFeatureID v = (c0 :: ds, year) := by
  match ds, hlen, hd with
  | [c7, c6, c5, c4, c3, c2, c1, c], _, hd =>
    obtain ⟨d7, h7⟩ := Option.isSome_iff_exists.1 (hd c7 (by simp))
    obtain ⟨d6, h6⟩ := Option.isSome_iff_exists.1 (hd c6 (by simp))
    obtain ⟨d5, h5⟩ := Option.isSome_iff_exists.1 (hd c5 (by simp))
    obtain ⟨d4, h4⟩ := Option.isSome_iff_exists.1 (hd c4 (by simp))
    obtain ⟨d3, h3⟩ := Option.isSome_iff_exists.1 (hd c3 (by simp))
    obtain ⟨d2, h2⟩ := Option.isSome_iff_exists.1 (hd c2 (by simp))
    obtain ⟨d1, h1⟩ := Option.isSome_iff_exists.1 (hd c1 (by simp))
    obtain ⟨d0, h0⟩ := Option.isSome_iff_exists.1 (hd c (by simp))
    have s7 := digitValue_spec _ _ h7
    have s6 := digitValue_spec _ _ h6
    have s5 := digitValue_spec _ _ h5
    have s4 := digitValue_spec _ _ h4
    have s3 := digitValue_spec _ _ h3
    have s2 := digitValue_spec _ _ h2
    have s1 := digitValue_spec _ _ h1
    have s0 := digitValue_spec _ _ h0
    -- the number Atoi reads
    let n : Nat := ((((((((0 * 10 + d7) * 10 + d6) * 10 + d5) * 10 + d4) * 10 + d3) * 10 + d2) * 10 + d1) * 10 + d0)
    have hn : atoi [c7, c6, c5, c4, c3, c2, c1, c] = some (n : Int) := by
      rw [atoi_of_digit_head c7 _ d7 h7]
      simp [atoiDigits, h7, h6, h5, h4, h3, h2, h1, h0, n]
    have hnlt : n < 100000000 := by simp only [n]; omega
    -- the three fields as 64-bit words
    have hcw : (BitVec.ofNat 64 (c0.toNat % 256)).toNat = c0.toNat := by
      simp [BitVec.toNat_ofNat]; omega
    have hyw : ((BitVec.ofInt 8 (year - 1900)).setWidth 64).toNat = (year - 1900).toNat := by
      simp [BitVec.toNat_setWidth, BitVec.toNat_ofInt]; omega
    have hmi : BitVec.ofInt 64 (n : Int) = BitVec.ofNat 64 n := by simp
    have hmw : (BitVec.ofNat 64 n).toNat = n := by
      simp [BitVec.toNat_ofNat]; omega
    have f := ons_fields (BitVec.ofNat 64 (c0.toNat % 256)) ((BitVec.ofInt 8 (year - 1900)).setWidth 64)
      (BitVec.ofNat 64 n)
      (by rw [BitVec.lt_def, hcw]; simp; omega) (by rw [BitVec.lt_def, hyw]; simp; omega)
      (by rw [BitVec.lt_def, hmw]; simp; omega)
    refine ⟨(BitVec.ofNat 64 (c0.toNat % 256)) <<< 40 ||| ((BitVec.ofInt 8 (year - 1900)).setWidth 64) <<< 32
      ||| BitVec.ofNat 64 n, by simp only [featureIDFromUKONSCode, List.length_cons, List.length_nil, hn, hmi]; simp, ?_⟩
    simp only [ukONSCodeFromFeatureID, f.1, f.2.1, f.2.2, hcw, hyw, hmw]
    have hfmt : fmt08 n = [c7, c6, c5, c4, c3, c2, c1, c] := by
      simp only [fmt08, hnlt, if_true]
      have e7 : digitChar (n / 10000000) = c7 := by
        rw [← s7.2.1]; unfold digitChar; congr 2; simp only [n]; omega
      have e6 : digitChar (n / 1000000) = c6 := by
        rw [← s6.2.1]; unfold digitChar; congr 2; simp only [n]; omega
      have e5 : digitChar (n / 100000) = c5 := by
        rw [← s5.2.1]; unfold digitChar; congr 2; simp only [n]; omega
      have e4 : digitChar (n / 10000) = c4 := by
        rw [← s4.2.1]; unfold digitChar; congr 2; simp only [n]; omega
      have e3 : digitChar (n / 1000) = c3 := by
        rw [← s3.2.1]; unfold digitChar; congr 2; simp only [n]; omega
      have e2 : digitChar (n / 100) = c2 := by
        rw [← s2.2.1]; unfold digitChar; congr 2; simp only [n]; omega
      have e1 : digitChar (n / 10) = c1 := by
        rw [← s1.2.1]; unfold digitChar; congr 2; simp only [n]; omega
      have e0 : digitChar n = c := by
        rw [← s0.2.1]; unfold digitChar; congr 2; simp only [n]; omega
      rw [e7, e6, e5, e4, e3, e2, e1, e0]
    rw [hfmt]
    simp only [Char.ofNat_toNat, Prod.mk.injEq, true_and]
    omega

end B6.Lemmas.Bits
