import B6.Model.Bits
/-!
# Lemmas for the string packings of `B6.Model.Bits` (GB postcodes, UK ONS codes)

and kernel-only (`toNat` + `omega`) proofs of every BitVec packing of `B6.Model.Bits`.
Everything here audits to propext / Classical.choice / Quot.sound.
-/
namespace B6.Lemmas.Bits
open B6.Model.Bits

/-! ## characters -/

theorem char_le_iff (a b : Char) : a ≤ b ↔ a.toNat ≤ b.toNat := by
  rw [Char.le_def, UInt32.le_iff_toNat_le]; rfl

theorem charValue_spec (c : Char) (v : Nat) (h : postcodeCharValue c = some v) :
    v < 36 ∧ postcodeValueChar v = some c := by
  unfold postcodeCharValue at h
  simp only [char_le_iff] at h
  have e0 : '0'.toNat = 48 := rfl
  have e9 : '9'.toNat = 57 := rfl
  have eA : 'A'.toNat = 65 := rfl
  have eZ : 'Z'.toNat = 90 := rfl
  rw [e0, e9, eA, eZ] at h
  unfold postcodeValueChar
  rw [e0, eA]
  split at h
  · rename_i hc
    simp only [Option.some.injEq] at h
    subst h
    have h1 : c.toNat - 48 < 10 := by omega
    have h2 : 48 + (c.toNat - 48) = c.toNat := by omega
    simp [h1, h2]; omega
  · split at h
    · rename_i hc
      simp only [Option.some.injEq] at h
      subst h
      have h1 : ¬ (c.toNat - 65 + 10 < 10) := by omega
      have h2 : c.toNat - 65 + 10 < 36 := by omega
      have h3 : 65 + (c.toNat - 65) = c.toNat := by omega
      simp [h1, h2, h3]
    · simp at h

/-! ## postcodes -/

theorem fold_isSome : ∀ (cs : List Char) (v0 : Nat), (∀ c ∈ cs, (postcodeCharValue c).isSome) →
    ∃ id, postcodeFold cs v0 = some id := by
  intro cs
  induction cs with
  | nil => intro v0 _; exact ⟨v0, rfl⟩
  | cons c cs ih =>
    intro v0 h
    have hc := h c (by simp)
    obtain ⟨v, hv⟩ := Option.isSome_iff_exists.1 hc
    obtain ⟨id, hid⟩ := ih (v0 * 64 + v) (fun c' hc' => h c' (by simp [hc']))
    exact ⟨id, by simp [postcodeFold, hv, hid]⟩

theorem fold_bound : ∀ (cs : List Char) (v0 id : Nat), postcodeFold cs v0 = some id →
    id < (v0 + 1) * 64 ^ cs.length := by
  intro cs
  induction cs with
  | nil => intro v0 id h; simp [postcodeFold] at h; subst h; simp
  | cons c cs ih =>
    intro v0 id h
    unfold postcodeFold at h
    split at h
    · rename_i v hv
      have hb := (charValue_spec c v hv).1
      have := ih _ _ h
      have e : (v0 + 1) * 64 ^ (c :: cs).length = ((v0 + 1) * 64) * 64 ^ cs.length := by
        simp [Nat.pow_succ, Nat.mul_assoc, Nat.mul_comm]
      rw [e]
      have : (v0 * 64 + v + 1) * 64 ^ cs.length ≤ ((v0 + 1) * 64) * 64 ^ cs.length :=
        Nat.mul_le_mul_right _ (by omega)
      omega
    · simp at h

theorem unfold_fold : ∀ (cs : List Char) (v0 id k : Nat) (acc : List Char), postcodeFold cs v0 = some id →
    postcodeUnfold (cs.length + k) id acc = postcodeUnfold k v0 (cs ++ acc) := by
  intro cs
  induction cs with
  | nil => intro v0 id k acc h; simp [postcodeFold] at h; subst h; simp
  | cons c cs ih =>
    intro v0 id k acc h
    unfold postcodeFold at h
    split at h
    · rename_i v hv
      have hs := charValue_spec c v hv
      have e : (c :: cs).length + k = cs.length + (k + 1) := by simp; omega
      rw [e, ih _ _ (k + 1) acc h]
      have hm : (v0 * 64 + v) % 64 = v := by omega
      have hd : (v0 * 64 + v) / 64 = v0 := by omega
      simp [postcodeUnfold, hm, hd, hs.2]
    · simp at h

theorem postcode_roundtrip (s : List Char)
    (h5 : 5 ≤ (normalizePostcode s).length) (h7 : (normalizePostcode s).length ≤ 7)
    (hc : ∀ c ∈ normalizePostcode s, (postcodeCharValue c).isSome) :
    ∃ id, pointIDFromGBPostcode s = some id ∧ postcodeFromPointID id = some (normalizePostcode s) ∧ id < 2 ^ 44 := by
  obtain ⟨id, hid⟩ := fold_isSome (normalizePostcode s) 0 hc
  have hlen : ¬ ((normalizePostcode s).length < 5 ∨ (normalizePostcode s).length > 7) := by omega
  refine ⟨id * 4 + ((normalizePostcode s).length - 5), ?_, ?_, ?_⟩
  · simp only [pointIDFromGBPostcode, hlen, if_false, hid]
  · unfold postcodeFromPointID
    have e1 : 5 + (id * 4 + ((normalizePostcode s).length - 5)) % 4 = (normalizePostcode s).length + 0 := by omega
    have e2 : (id * 4 + ((normalizePostcode s).length - 5)) / 4 = id := by omega
    rw [e1, e2, unfold_fold _ 0 id 0 [] hid]
    simp [postcodeUnfold]
  · have hb := fold_bound _ _ _ hid
    have hp : 64 ^ (normalizePostcode s).length ≤ 64 ^ 7 := Nat.pow_le_pow_right (by omega) h7
    omega


/-! ## kernel-only toolkit for the 64-bit packings: `toNat` + `omega` -/

theorem or_toNat {w : Nat} (x y : BitVec w) (k a : Nat) (hx : x.toNat = 2 ^ k * a) (hy : y.toNat < 2 ^ k) :
    (x ||| y).toNat = 2 ^ k * a + y.toNat := by
  rw [BitVec.toNat_or, hx, ← Nat.two_pow_add_eq_or_of_lt hy]
theorem and_mask_toNat {w : Nat} (x m : BitVec w) (k : Nat) (hm : m.toNat = 2 ^ k - 1) :
    (x &&& m).toNat = x.toNat % 2 ^ k := by
  rw [BitVec.toNat_and, hm, Nat.and_two_pow_sub_one_eq_mod]
theorem shl_toNat {w : Nat} (x : BitVec w) (n : Nat) : (x <<< n).toNat = (x.toNat * 2 ^ n) % 2 ^ w := by
  rw [BitVec.toNat_shiftLeft, Nat.shiftLeft_eq]
theorem shr_toNat {w : Nat} (x : BitVec w) (n : Nat) : (x >>> n).toNat = x.toNat / 2 ^ n := by
  rw [BitVec.toNat_ushiftRight, Nat.shiftRight_eq_div_pow]

theorem one_shl_toNat (b : BitVec 64) (hb : b.toNat ≤ 63) : (1#64 <<< b).toNat = 2 ^ b.toNat := by
  rw [BitVec.shiftLeft_eq', shl_toNat]
  simp only [BitVec.toNat_ofNat, Nat.one_mul]
  have : 2 ^ b.toNat ≤ 2 ^ 63 := Nat.pow_le_pow_right (by omega) hb
  omega

theorem mask_toNat (b : BitVec 64) (hb : b.toNat ≤ 63) : ((1#64 <<< b) - 1#64).toNat = 2 ^ b.toNat - 1 := by
  rw [BitVec.toNat_sub, one_shl_toNat b hb]
  have : 2 ^ b.toNat ≤ 2 ^ 63 := Nat.pow_le_pow_right (by omega) hb
  have hpos : 0 < 2 ^ b.toNat := Nat.two_pow_pos _
  simp; omega


/-! ## value type -/





theorem bne_false_iff {w : Nat} (a b : BitVec w) : ((a != b) = false) ↔ a.toNat = b.toNat := by
  simp [bne, BitVec.toNat_inj]

/-- value type: the packed word -/
theorem vt_word (t v : BitVec 64) (ht : t < 4#64) (hv : v < 0x4000000000000000#64) :
    ((v <<< 2) ||| t).toNat = 4 * v.toNat + t.toNat := by
  have hv' : v.toNat < 2 ^ 62 := hv
  have ht' : t.toNat < 4 := ht
  have h := or_toNat (v <<< 2) t 2 v.toNat (by rw [shl_toNat]; omega) (by omega)
  omega

theorem value_type (t v : BitVec 64) (ht : t < 4#64) (hv : v < 0x4000000000000000#64) :
    ∃ e, encodeValueType t v = some e ∧ decodeValue e = v ∧ decodeValueType e = t := by
  have hv' : v.toNat < 2 ^ 62 := hv
  have ht' : t.toNat < 4 := ht
  have hw := vt_word t v ht hv
  refine ⟨(v <<< 2) ||| t, ?_, ?_, ?_⟩
  · have h : (((v <<< 2) >>> 2) != v) = false := by
      rw [bne_false_iff, shr_toNat, shl_toNat]; omega
    simp [encodeValueType, h]
  · apply BitVec.eq_of_toNat_eq
    unfold decodeValue
    rw [shr_toNat, hw]; omega
  · apply BitVec.eq_of_toNat_eq
    unfold decodeValueType
    rw [and_mask_toNat _ _ 2 (by decide), hw]; omega

theorem value_type_guard (t v : BitVec 64) :
    encodeValueType t v = none ↔ ¬ v < 0x4000000000000000#64 := by
  have hlt := v.isLt
  unfold encodeValueType
  constructor
  · intro h hv
    have hv' : v.toNat < 2 ^ 62 := hv
    have hc : (((v <<< 2) >>> 2) != v) = false := by
      rw [bne_false_iff, shr_toNat, shl_toNat]; omega
    rw [hc] at h; simp at h
  · intro h
    have hv' : ¬ v.toNat < 2 ^ 62 := h
    have hc : (((v <<< 2) >>> 2) != v) = true := by
      cases hh : (((v <<< 2) >>> 2) != v) with
      | true => rfl
      | false =>
        rw [bne_false_iff, shr_toNat, shl_toNat] at hh; omega
    simp [hc]

/-! ## geometry, type + namespace, lat/lng, ONS fields -/





theorem beq_iff_toNat {w : Nat} (a b : BitVec w) : ((a == b) = true) ↔ a.toNat = b.toNat := by
  simp [BitVec.toNat_inj]
theorem beq_false_iff_toNat {w : Nat} (a b : BitVec w) : ((a == b) = false) ↔ a.toNat ≠ b.toNat := by
  simp [BitVec.toNat_inj]

/-! geometry -/
theorem geo_words (l : BitVec 64) (hl : l < 0x4000000000000000#64) :
    (l <<< 1).toNat = 2 * l.toNat ∧ ((l <<< 2) ||| 1#64).toNat = 4 * l.toNat + 1 ∧
    ((l <<< 2) ||| 3#64).toNat = 4 * l.toNat + 3 := by
  have hl' : l.toNat < 2 ^ 62 := hl
  refine ⟨by rw [shl_toNat]; omega, ?_, ?_⟩
  · have := or_toNat (l <<< 2) 1#64 2 l.toNat (by rw [shl_toNat]; omega) (by decide)
    simp at this ⊢; omega
  · have := or_toNat (l <<< 2) 3#64 2 l.toNat (by rw [shl_toNat]; omega) (by decide)
    simp at this ⊢; omega

theorem and1 (v : BitVec 64) : (v &&& 1#64).toNat = v.toNat % 2 := and_mask_toNat v 1#64 1 (by decide)
theorem nat_and2 (n : Nat) : n &&& 2 = 2 * (n / 2 % 2) := by
  have h1 : n &&& 2 ≤ 2 := Nat.and_le_right
  have h2 : (n &&& 2) = (n &&& 2) % 2 ^ 2 := (Nat.mod_eq_of_lt (by omega)).symm
  rw [h2, Nat.and_mod_two_pow]
  have : n % 2 ^ 2 = 0 ∨ n % 2 ^ 2 = 1 ∨ n % 2 ^ 2 = 2 ∨ n % 2 ^ 2 = 3 := by omega
  rcases this with h | h | h | h <;> rw [h] <;> simp <;> omega

theorem and2_zero (v : BitVec 64) : ((v &&& 2#64) == 0#64) = (decide (v.toNat / 2 % 2 = 0)) := by
  have h : (v &&& 2#64).toNat = 2 * (v.toNat / 2 % 2) := by
    rw [BitVec.toNat_and]; exact nat_and2 v.toNat
  by_cases hz : v.toNat / 2 % 2 = 0
  · simp only [hz, decide_true]; rw [beq_iff_toNat, h, hz]; rfl
  · simp only [hz, decide_false]; rw [beq_false_iff_toNat, h]; simp; omega

theorem geometry_len (e : BitVec 8) (l : BitVec 64) (he : e < 3#8) (hl : l < 0x4000000000000000#64) :
    ∃ v, encodeGeometry e l = some v ∧ decodeGeometryLen v = l ∧ decodeGeometryEncoding v = e := by
  have hl' : l.toNat < 2 ^ 62 := hl
  obtain ⟨w0, w1, w3⟩ := geo_words l hl
  have he' : e.toNat < 3 := he
  have h3 : e = 0#8 ∨ e = 1#8 ∨ e = 2#8 := by
    have : e.toNat = 0 ∨ e.toNat = 1 ∨ e.toNat = 2 := by omega
    rcases this with h | h | h
    · left; exact BitVec.eq_of_toNat_eq h
    · right; left; exact BitVec.eq_of_toNat_eq h
    · right; right; exact BitVec.eq_of_toNat_eq h
  unfold encodeGeometry decodeGeometryLen decodeGeometryEncoding
  rcases h3 with h | h | h <;> subst h
  · have c1 : ((l <<< 1 &&& 1#64) == 0#64) = true := by rw [beq_iff_toNat, and1, w0]; simp
    refine ⟨l <<< 1, by simp, ?_, by simp [c1]⟩
    simp only [c1, if_true]
    apply BitVec.eq_of_toNat_eq; rw [shr_toNat, w0]; omega
  · have c1 : (((l <<< 2 ||| 1#64) &&& 1#64) == 0#64) = false := by
      rw [beq_false_iff_toNat, and1, w1]; simp; omega
    have c2 : (((l <<< 2 ||| 1#64) &&& 2#64) == 0#64) = true := by
      rw [and2_zero, w1]; simp; omega
    refine ⟨(l <<< 2) ||| 1#64, by simp, ?_, by simp [c1, c2]⟩
    simp only [c1]
    apply BitVec.eq_of_toNat_eq; simp only [Bool.false_eq_true, if_false]; rw [shr_toNat, w1]; omega
  · have c1 : (((l <<< 2 ||| 3#64) &&& 1#64) == 0#64) = false := by
      rw [beq_false_iff_toNat, and1, w3]; simp; omega
    have c2 : (((l <<< 2 ||| 3#64) &&& 2#64) == 0#64) = false := by
      rw [and2_zero, w3]; simp; omega
    refine ⟨(l <<< 2) ||| 3#64, by simp, ?_, by simp [c1, c2]⟩
    simp only [c1]
    apply BitVec.eq_of_toNat_eq; simp only [Bool.false_eq_true, if_false]; rw [shr_toNat, w3]; omega

/-! type + namespace -/
theorem type_ns (t : BitVec 64) (ns : BitVec 16) (ht : t < 8#64) (hns : ns < 8192#16) :
    splitTypeNs (combineTypeNs t ns) = (t, ns) := by
  have ht' : t.toNat < 8 := ht
  have hns' : ns.toNat < 8192 := hns
  have hc : (combineTypeNs t ns).toNat = 8192 * t.toNat + ns.toNat := by
    unfold combineTypeNs
    have := or_toNat ((t <<< 13).setWidth 16) ns 13 t.toNat (by
      rw [BitVec.toNat_setWidth, shl_toNat]; omega) (by omega)
    omega
  unfold splitTypeNs
  ext1
  · apply BitVec.eq_of_toNat_eq
    simp only
    rw [BitVec.toNat_setWidth, shr_toNat, hc]; omega
  · apply BitVec.eq_of_toNat_eq
    simp only
    rw [and_mask_toNat _ _ 13 (by decide), hc]; omega

/-! lat/lng -/
theorem latlng_id (lat lng : BitVec 32) : latLngFromID (newLatLngID lat lng) = (lat, lng) := by
  have h1 := lat.isLt
  have h2 := lng.isLt
  have hc : (newLatLngID lat lng).toNat = 2 ^ 32 * lat.toNat + lng.toNat := by
    unfold newLatLngID
    have := or_toNat ((lat.setWidth 64) <<< 32) (lng.setWidth 64) 32 lat.toNat (by
      rw [shl_toNat, BitVec.toNat_setWidth]; omega) (by rw [BitVec.toNat_setWidth]; omega)
    rw [BitVec.toNat_setWidth] at this
    omega
  unfold latLngFromID
  ext1
  · apply BitVec.eq_of_toNat_eq
    simp only
    rw [BitVec.toNat_setWidth, and_mask_toNat _ _ 32 (by decide), shr_toNat, hc]; omega
  · apply BitVec.eq_of_toNat_eq
    simp only
    rw [BitVec.toNat_setWidth, and_mask_toNat _ _ 32 (by decide), hc]; omega

/-! ONS fields -/
theorem ons_fields (c y m : BitVec 64) (hc : c < 256#64) (hy : y < 256#64) (hm : m < 4294967296#64) :
    (((c <<< 40 ||| y <<< 32 ||| m) >>> 40) &&& 255#64) = c ∧
    (((c <<< 40 ||| y <<< 32 ||| m) >>> 32) &&& 255#64) = y ∧
    ((c <<< 40 ||| y <<< 32 ||| m) &&& 4294967295#64) = m := by
  have hc' : c.toNat < 256 := hc
  have hy' : y.toNat < 256 := hy
  have hm' : m.toNat < 4294967296 := hm
  have w1 : (c <<< 40 ||| y <<< 32).toNat = 2 ^ 32 * (256 * c.toNat + y.toNat) := by
    have := or_toNat (c <<< 40) (y <<< 32) 40 c.toNat (by rw [shl_toNat]; omega) (by rw [shl_toNat]; omega)
    rw [this, shl_toNat]; omega
  have w : (c <<< 40 ||| y <<< 32 ||| m).toNat = 2 ^ 32 * (256 * c.toNat + y.toNat) + m.toNat :=
    or_toNat _ m 32 _ w1 (by omega)
  refine ⟨?_, ?_, ?_⟩ <;> apply BitVec.eq_of_toNat_eq
  · rw [and_mask_toNat _ _ 8 (by decide), shr_toNat, w]; omega
  · rw [and_mask_toNat _ _ 8 (by decide), shr_toNat, w]; omega
  · rw [and_mask_toNat _ _ 32 (by decide), w]; omega

/-! ## 32-bit zigzag -/


def zig32 (x : BitVec 32) : BitVec 32 := if x.msb then ~~~(x <<< 1) else x <<< 1
def zag32 (u : BitVec 32) : BitVec 32 := if u &&& 1#32 ≠ 0#32 then ~~~(u >>> 1) else u >>> 1

theorem sshiftRight31 (x : BitVec 32) :
    x.sshiftRight 31 = if x.msb then BitVec.allOnes 32 else 0#32 := by
  ext i hi
  cases h : x.msb
  · simp [BitVec.getElem_sshiftRight, h]
    intro h2
    have : i = 0 := by omega
    subst this
    simpa [BitVec.msb_eq_getLsbD_last] using h
  · simp only [BitVec.getElem_sshiftRight, h, if_true, BitVec.getElem_allOnes]
    split
    · rename_i h2
      have : i = 0 := by omega
      subst this
      simpa [BitVec.msb_eq_getLsbD_last] using h
    · rfl

theorem zigzagEncode32_eq (x : BitVec 32) : zigzagEncode32 x = zig32 x := by
  unfold zigzagEncode32 zig32
  rw [sshiftRight31]
  cases x.msb
  · simp
  · simp only [if_true]; exact BitVec.xor_allOnes

theorem and_one_cases32 (v : BitVec 32) : v &&& 1#32 = 0#32 ∨ v &&& 1#32 = 1#32 := by
  have : (v &&& 1#32).toNat = v.toNat % 2 := by simp [BitVec.toNat_and]
  rcases Nat.mod_two_eq_zero_or_one v.toNat with h | h
  · left; apply BitVec.eq_of_toNat_eq; simp [this, h]
  · right; apply BitVec.eq_of_toNat_eq; simp [this, h]

theorem neg_and_one32 (v : BitVec 32) :
    -(v &&& 1#32) = if v &&& 1#32 ≠ 0#32 then BitVec.allOnes 32 else 0#32 := by
  rcases and_one_cases32 v with h | h <;> rw [h] <;> decide

theorem zigzagDecode32_eq (v : BitVec 32) : zigzagDecode32 v = zag32 v := by
  unfold zigzagDecode32 zag32
  rw [neg_and_one32]
  split
  · exact BitVec.xor_allOnes
  · simp

theorem and_one_ne_zero_iff32 (v : BitVec 32) : v &&& 1#32 ≠ 0#32 ↔ v.toNat % 2 = 1 := by
  have e : (v &&& 1#32).toNat = v.toNat % 2 := by simp [BitVec.toNat_and]
  constructor
  · intro h
    rcases and_one_cases32 v with h0 | h1
    · exact absurd h0 h
    · rw [← e, h1]; rfl
  · intro h hz
    rw [hz] at e; simp at e; omega

theorem msb_iff32 (x : BitVec 32) : x.msb = true ↔ 2 ^ 31 ≤ x.toNat := by
  rw [BitVec.msb_eq_decide]; simp

theorem zig32_toNat (x : BitVec 32) :
    (zig32 x).toNat = if 2 ^ 31 ≤ x.toNat then 2 ^ 32 - 1 - (2 * x.toNat) % 2 ^ 32 else (2 * x.toNat) % 2 ^ 32 := by
  unfold zig32
  by_cases h : x.msb = true
  · have h' := (msb_iff32 x).1 h
    simp only [h, if_true, h', BitVec.toNat_not, BitVec.toNat_shiftLeft, Nat.shiftLeft_eq]
    omega
  · have h' : ¬ 2 ^ 31 ≤ x.toNat := fun hh => h ((msb_iff32 x).2 hh)
    rw [if_neg h, if_neg h']
    simp only [BitVec.toNat_shiftLeft, Nat.shiftLeft_eq]
    omega

theorem zag32_toNat (u : BitVec 32) :
    (zag32 u).toNat = if u.toNat % 2 = 1 then 2 ^ 32 - 1 - u.toNat / 2 else u.toNat / 2 := by
  unfold zag32
  by_cases h : u &&& 1#32 ≠ 0#32
  · have h' := (and_one_ne_zero_iff32 u).1 h
    rw [if_pos h, if_pos h']
    simp only [BitVec.toNat_not, BitVec.toNat_ushiftRight, Nat.shiftRight_eq_div_pow]
  · have h' : ¬ u.toNat % 2 = 1 := fun hh => h ((and_one_ne_zero_iff32 u).2 hh)
    rw [if_neg h, if_neg h']
    simp only [BitVec.toNat_ushiftRight, Nat.shiftRight_eq_div_pow]

theorem zigzag32_roundtrip (x : BitVec 32) : zigzagDecode32 (zigzagEncode32 x) = x := by
  rw [zigzagDecode32_eq, zigzagEncode32_eq]
  apply BitVec.eq_of_toNat_eq
  rw [zag32_toNat, zig32_toNat]
  have := x.isLt
  split <;> split <;> omega

theorem setWidth_signExtend (x : BitVec 32) : (x.signExtend 64).setWidth 32 = x := by
  ext i hi
  simp [BitVec.getLsbD_signExtend, hi]
  omega

theorem renderer_zigzag32 (x : BitVec 32) :
    rendererZigzagDecode (rendererZigzagEncode (x.signExtend 64)) = x.signExtend 64 := by
  unfold rendererZigzagDecode rendererZigzagEncode
  rw [setWidth_signExtend, zigzag32_roundtrip]

/-! ## bucket header -/
/-- the bucket header, from the one arithmetic fact that the shifted id still fits 64 bits. -/
theorem header_core (id tag b t : BitVec 64) (hb : b.toNat ≤ 63) (ht : t.toNat ≤ 63)
    (hfit : id.toNat / 2 ^ b.toNat * 2 ^ t.toNat < 2 ^ 64) (htag : tag.toNat < 2 ^ t.toNat) :
    headerUnpackID (bucketForID id b) (headerPack id tag b t) b t = id ∧
    headerUnpackTag (headerPack id tag b t) t = tag := by
  have hq : (id >>> b).toNat = id.toNat / 2 ^ b.toNat := by rw [BitVec.ushiftRight_eq', shr_toNat]
  have hqs : ((id >>> b) <<< t).toNat = 2 ^ t.toNat * (id.toNat / 2 ^ b.toNat) := by
    rw [BitVec.shiftLeft_eq', shl_toNat, hq, Nat.mod_eq_of_lt hfit, Nat.mul_comm]
  have hw : (headerPack id tag b t).toNat = 2 ^ t.toNat * (id.toNat / 2 ^ b.toNat) + tag.toNat :=
    or_toNat _ tag t.toNat _ hqs htag
  constructor
  · apply BitVec.eq_of_toNat_eq
    unfold headerUnpackID bucketForID
    have hdiv : ((headerPack id tag b t) >>> t).toNat = id.toNat / 2 ^ b.toNat := by
      rw [BitVec.ushiftRight_eq', shr_toNat, hw, Nat.mul_add_div (Nat.two_pow_pos _), Nat.div_eq_of_lt htag]
      omega
    have hle : id.toNat / 2 ^ b.toNat * 2 ^ b.toNat ≤ id.toNat := Nat.div_mul_le_self _ _
    have hsh : (((headerPack id tag b t) >>> t) <<< b).toNat = 2 ^ b.toNat * (id.toNat / 2 ^ b.toNat) := by
      rw [BitVec.shiftLeft_eq', shl_toNat, hdiv, Nat.mod_eq_of_lt (by have := id.isLt; omega), Nat.mul_comm]
    have hbk : (id &&& ((1#64 <<< b) - 1#64)).toNat = id.toNat % 2 ^ b.toNat :=
      and_mask_toNat _ _ _ (mask_toNat b hb)
    rw [BitVec.or_comm, or_toNat _ _ b.toNat _ hsh (by rw [hbk]; exact Nat.mod_lt _ (Nat.two_pow_pos _)), hbk]
    exact Nat.div_add_mod _ _
  · apply BitVec.eq_of_toNat_eq
    unfold headerUnpackTag
    rw [and_mask_toNat _ _ _ (mask_toNat t ht), hw, Nat.mul_add_mod, Nat.mod_eq_of_lt htag]

theorem header_roundtrip (id tag b t : BitVec 64) (hb : b ≤ 63#64) (htb : t ≤ b) (htag : tag < (1#64 <<< t)) :
    headerUnpackID (bucketForID id b) (headerPack id tag b t) b t = id ∧
    headerUnpackTag (headerPack id tag b t) t = tag := by
  have hb' : b.toNat ≤ 63 := hb
  have htb' : t.toNat ≤ b.toNat := htb
  have ht' : t.toNat ≤ 63 := by omega
  apply header_core id tag b t hb' ht'
  · have hlt := id.isLt
    have h1 : id.toNat / 2 ^ b.toNat * 2 ^ t.toNat ≤ id.toNat / 2 ^ b.toNat * 2 ^ b.toNat :=
      Nat.mul_le_mul_left _ (Nat.pow_le_pow_right (by omega) htb')
    have h2 : id.toNat / 2 ^ b.toNat * 2 ^ b.toNat ≤ id.toNat := Nat.div_mul_le_self _ _
    omega
  · have : tag.toNat < (1#64 <<< t).toNat := htag
    rw [one_shl_toNat t ht'] at this; exact this

theorem header_roundtrip_small_id (id tag b t : BitVec 64) (ht : t ≤ 63#64) (hbt : b < t)
    (hid : id < (1#64 <<< (64#64 - (t - b)))) (htag : tag < (1#64 <<< t)) :
    headerUnpackID (bucketForID id b) (headerPack id tag b t) b t = id ∧
    headerUnpackTag (headerPack id tag b t) t = tag := by
  have ht' : t.toNat ≤ 63 := ht
  have hbt' : b.toNat < t.toNat := hbt
  apply header_core id tag b t (by omega) ht'
  · -- id < 2^(64 - (t - b))
    have hs : (64#64 - (t - b)).toNat = 64 - (t.toNat - b.toNat) := by
      rw [BitVec.toNat_sub, BitVec.toNat_sub]; simp; omega
    have hid' : id.toNat < 2 ^ (64 - (t.toNat - b.toNat)) := by
      have : id.toNat < (1#64 <<< (64#64 - (t - b))).toNat := hid
      rw [one_shl_toNat _ (by rw [hs]; omega), hs] at this; exact this
    have e1 : 2 ^ (64 - (t.toNat - b.toNat)) = 2 ^ (64 - t.toNat) * 2 ^ b.toNat := by
      rw [← Nat.pow_add]; congr 1; omega
    have hq : id.toNat / 2 ^ b.toNat < 2 ^ (64 - t.toNat) := by
      apply Nat.div_lt_of_lt_mul; rw [Nat.mul_comm, ← e1]; exact hid'
    have e2 : 2 ^ (64 - t.toNat) * 2 ^ t.toNat = 2 ^ 64 := by
      rw [← Nat.pow_add]; congr 1; omega
    calc id.toNat / 2 ^ b.toNat * 2 ^ t.toNat < 2 ^ (64 - t.toNat) * 2 ^ t.toNat :=
          Nat.mul_lt_mul_of_pos_right hq (Nat.two_pow_pos _)
      _ = 2 ^ 64 := e2
  · have : tag.toNat < (1#64 <<< t).toNat := htag
    rw [one_shl_toNat t ht'] at this; exact this

/-! ## tile ids -/







theorem tile_id (x y z : BitVec 64) (hz : z ≤ 29#64) (hx : x < 1#64 <<< z) (hy : y < 1#64 <<< z) :
    tileIDToXYZ (tileIDFromXYZ x y z) = (x, y, z) := by
  have hz' : z.toNat ≤ 29 := hz
  have hx' : x.toNat < 2 ^ z.toNat := by
    have : x.toNat < (1#64 <<< z).toNat := hx
    rw [one_shl_toNat z (by omega)] at this; exact this
  have hy' : y.toNat < 2 ^ z.toNat := by
    have : y.toNat < (1#64 <<< z).toNat := hy
    rw [one_shl_toNat z (by omega)] at this; exact this
  -- powers of two involved
  have p1 : 2 ^ z.toNat * 2 ^ z.toNat ≤ 2 ^ 58 := by
    rw [← Nat.pow_add]; exact Nat.pow_le_pow_right (by omega) (by omega)
  have p2 : 2 ^ 59 = 2 ^ z.toNat * 2 ^ (59 - z.toNat) := by rw [← Nat.pow_add]; congr 1; omega
  have p3 : 2 ^ (59 - z.toNat) = 2 ^ z.toNat * 2 ^ (59 - 2 * z.toNat) := by rw [← Nat.pow_add]; congr 1; omega
  have hpos : 0 < 2 ^ z.toNat := Nat.two_pow_pos _
  have hyz : y.toNat * 2 ^ z.toNat < 2 ^ z.toNat * 2 ^ z.toNat := Nat.mul_lt_mul_of_pos_right hy' hpos
  have hlt59 : y.toNat * 2 ^ z.toNat + x.toNat < 2 ^ 59 := by
    have h1 : (y.toNat + 1) * 2 ^ z.toNat ≤ 2 ^ z.toNat * 2 ^ z.toNat := Nat.mul_le_mul_right _ hy'
    rw [Nat.succ_mul] at h1
    omega
  -- the packed word
  have h1 : (z <<< 59).toNat = 2 ^ 59 * z.toNat := by rw [shl_toNat]; omega
  have h2 : (y <<< z).toNat = y.toNat * 2 ^ z.toNat := by
    rw [BitVec.shiftLeft_eq', shl_toNat]; apply Nat.mod_eq_of_lt; omega
  have h3 : ((z <<< 59) ||| (y <<< z)).toNat = 2 ^ 59 * z.toNat + y.toNat * 2 ^ z.toNat :=
    by rw [or_toNat _ _ 59 _ h1 (by rw [h2]; omega), h2]
  have h3' : ((z <<< 59) ||| (y <<< z)).toNat = 2 ^ z.toNat * (2 ^ (59 - z.toNat) * z.toNat + y.toNat) := by
    rw [h3, p2, Nat.mul_add, Nat.mul_assoc, Nat.mul_comm y.toNat]
  have hw : (tileIDFromXYZ x y z).toNat = 2 ^ z.toNat * (2 ^ (59 - z.toNat) * z.toNat + y.toNat) + x.toNat :=
    or_toNat _ x z.toNat _ h3' hx'
  have hw59 : (tileIDFromXYZ x y z).toNat = 2 ^ 59 * z.toNat + (y.toNat * 2 ^ z.toNat + x.toNat) := by
    have e : 2 ^ z.toNat * (2 ^ (59 - z.toNat) * z.toNat + y.toNat) = 2 ^ 59 * z.toNat + y.toNat * 2 ^ z.toNat := by
      rw [← h3', h3]
    rw [hw, e, Nat.add_assoc]
  -- zoom
  have hzz : (tileIDFromXYZ x y z) >>> 59 = z := by
    apply BitVec.eq_of_toNat_eq
    rw [shr_toNat, hw59, Nat.mul_add_div (Nat.two_pow_pos _), Nat.div_eq_of_lt hlt59]; omega
  unfold tileIDToXYZ
  simp only [hzz]
  have hm := mask_toNat z (by omega)
  refine Prod.ext ?_ (Prod.ext ?_ rfl)
  · apply BitVec.eq_of_toNat_eq
    simp only
    rw [and_mask_toNat _ _ _ hm, hw, Nat.mul_add_mod, Nat.mod_eq_of_lt hx']
  · apply BitVec.eq_of_toNat_eq
    simp only
    rw [and_mask_toNat _ _ _ hm, BitVec.ushiftRight_eq', shr_toNat, hw, Nat.mul_add_div hpos,
      Nat.div_eq_of_lt hx', Nat.add_zero, p3, Nat.mul_assoc, Nat.mul_add_mod, Nat.mod_eq_of_lt hy']

/-! ## bucket bits for a count -/

theorem ceilLog2_spec (n : Nat) : n ≤ 2 ^ ceilLog2 n ∧ ∀ b, n ≤ 2 ^ b → ceilLog2 n ≤ b := by
  unfold ceilLog2
  split
  · rename_i h; refine ⟨by simp; omega, fun b _ => Nat.zero_le _⟩
  · rename_i h
    have hne : n - 1 ≠ 0 := by omega
    constructor
    · have := @Nat.lt_log2_self (n - 1)
      omega
    · intro b hb
      have : (n - 1).log2 < b := (Nat.log2_lt hne).2 (by omega)
      omega

/-- `bucketBitsForCount n` is the smallest `b ≥ 1` with `2^b ≥ n`. -/
theorem bucketBitsForCount_spec (n : Nat) :
    1 ≤ bucketBitsForCount n ∧ n ≤ 2 ^ bucketBitsForCount n ∧
    ∀ b, 1 ≤ b → n ≤ 2 ^ b → bucketBitsForCount n ≤ b := by
  obtain ⟨h1, h2⟩ := ceilLog2_spec n
  unfold bucketBitsForCount
  refine ⟨Nat.le_max_left _ _, ?_, ?_⟩
  · exact Nat.le_trans h1 (Nat.pow_le_pow_right (by omega) (Nat.le_max_right _ _))
  · intro b hb hn
    exact Nat.max_le.2 ⟨hb, h2 b hn⟩

/-! ## ONS codes -/

theorem digitValue_spec (c : Char) (d : Nat) (h : digitValue c = some d) :
    d < 10 ∧ digitChar d = c ∧ c ≠ '-' ∧ c ≠ '+' := by
  unfold digitValue at h
  simp only [char_le_iff] at h
  have e0 : '0'.toNat = 48 := rfl
  have e9 : '9'.toNat = 57 := rfl
  rw [e0, e9] at h
  split at h
  · rename_i hr
    simp only [Option.some.injEq] at h
    subst h
    refine ⟨by omega, ?_, ?_, ?_⟩
    · unfold digitChar
      rw [e0]
      have : 48 + (c.toNat - 48) % 10 = c.toNat := by omega
      simp [this]
    · intro hh; subst hh; revert hr; decide
    · intro hh; subst hh; revert hr; decide
  · simp at h

theorem atoi_of_digit_head (c : Char) (cs : List Char) (d : Nat) (h : digitValue c = some d) :
    atoi (c :: cs) = (atoiDigits (c :: cs) 0).map fun n => (n : Int) := by
  have hs := digitValue_spec c d h
  unfold atoi
  split
  · rename_i heq; simp at heq
  · rename_i ds heq
    simp only [List.cons.injEq] at heq
    exact absurd heq.1 hs.2.2.1
  · rename_i ds heq
    simp only [List.cons.injEq] at heq
    exact absurd heq.1 hs.2.2.2
  · rfl

theorem ons_roundtrip (c0 : Char) (ds : List Char) (year : Int)
    (hc0 : c0.toNat < 128) (hlen : ds.length = 8) (hd : ∀ c ∈ ds, (digitValue c).isSome)
    (hy0 : 1900 ≤ year) (hy1 : year ≤ 2155) :
    ∃ v, featureIDFromUKONSCode (c0 :: ds) year = some v ∧ ukONSCodeFromFeatureID v = (c0 :: ds, year) := by
  match ds, hlen, hd with
  | [c7, c6, c5, c4, c3, c2, c1, c], _, hd =>
    obtain ⟨d7, h7⟩ := Option.isSome_iff_exists.1 (hd c7 (by simp))
    obtain ⟨d6, h6⟩ := Option.isSome_iff_exists.1 (hd c6 (by simp))
    obtain ⟨d5, h5⟩ := Option.isSome_iff_exists.1 (hd c5 (by simp))
    obtain ⟨d4, h4⟩ := Option.isSome_iff_exists.1 (hd c4 (by simp))
    obtain ⟨d3, h3⟩ := Option.isSome_iff_exists.1 (hd c3 (by simp))
    obtain ⟨d2, h2⟩ := Option.isSome_iff_exists.1 (hd c2 (by simp))
    obtain ⟨d1, h1⟩ := Option.isSome_iff_exists.1 (hd c1 (by simp))
    obtain ⟨d0, h0⟩ := Option.isSome_iff_exists.1 (hd c (by simp))
    have s7 := digitValue_spec _ _ h7
    have s6 := digitValue_spec _ _ h6
    have s5 := digitValue_spec _ _ h5
    have s4 := digitValue_spec _ _ h4
    have s3 := digitValue_spec _ _ h3
    have s2 := digitValue_spec _ _ h2
    have s1 := digitValue_spec _ _ h1
    have s0 := digitValue_spec _ _ h0
    -- the number Atoi reads
    let n : Nat := ((((((((0 * 10 + d7) * 10 + d6) * 10 + d5) * 10 + d4) * 10 + d3) * 10 + d2) * 10 + d1) * 10 + d0)
    have hn : atoi [c7, c6, c5, c4, c3, c2, c1, c] = some (n : Int) := by
      rw [atoi_of_digit_head c7 _ d7 h7]
      simp [atoiDigits, h7, h6, h5, h4, h3, h2, h1, h0, n]
    have hnlt : n < 100000000 := by simp only [n]; omega
    -- the three fields as 64-bit words
    have hcw : (BitVec.ofNat 64 (c0.toNat % 256)).toNat = c0.toNat := by
      simp [BitVec.toNat_ofNat]; omega
    have hyw : ((BitVec.ofInt 8 (year - 1900)).setWidth 64).toNat = (year - 1900).toNat := by
      simp [BitVec.toNat_setWidth, BitVec.toNat_ofInt]; omega
    have hmi : BitVec.ofInt 64 (n : Int) = BitVec.ofNat 64 n := by simp
    have hmw : (BitVec.ofNat 64 n).toNat = n := by
      simp [BitVec.toNat_ofNat]; omega
    have f := ons_fields (BitVec.ofNat 64 (c0.toNat % 256)) ((BitVec.ofInt 8 (year - 1900)).setWidth 64)
      (BitVec.ofNat 64 n)
      (by rw [BitVec.lt_def, hcw]; simp; omega) (by rw [BitVec.lt_def, hyw]; simp; omega)
      (by rw [BitVec.lt_def, hmw]; simp; omega)
    refine ⟨(BitVec.ofNat 64 (c0.toNat % 256)) <<< 40 ||| ((BitVec.ofInt 8 (year - 1900)).setWidth 64) <<< 32
      ||| BitVec.ofNat 64 n, by simp only [featureIDFromUKONSCode, List.length_cons, List.length_nil, hn, hmi]; simp, ?_⟩
    simp only [ukONSCodeFromFeatureID, f.1, f.2.1, f.2.2, hcw, hyw, hmw]
    have hfmt : fmt08 n = [c7, c6, c5, c4, c3, c2, c1, c] := by
      simp only [fmt08, hnlt, if_true]
      have e7 : digitChar (n / 10000000) = c7 := by
        rw [← s7.2.1]; unfold digitChar; congr 2; simp only [n]; omega
      have e6 : digitChar (n / 1000000) = c6 := by
        rw [← s6.2.1]; unfold digitChar; congr 2; simp only [n]; omega
      have e5 : digitChar (n / 100000) = c5 := by
        rw [← s5.2.1]; unfold digitChar; congr 2; simp only [n]; omega
      have e4 : digitChar (n / 10000) = c4 := by
        rw [← s4.2.1]; unfold digitChar; congr 2; simp only [n]; omega
      have e3 : digitChar (n / 1000) = c3 := by
        rw [← s3.2.1]; unfold digitChar; congr 2; simp only [n]; omega
      have e2 : digitChar (n / 100) = c2 := by
        rw [← s2.2.1]; unfold digitChar; congr 2; simp only [n]; omega
      have e1 : digitChar (n / 10) = c1 := by
        rw [← s1.2.1]; unfold digitChar; congr 2; simp only [n]; omega
      have e0 : digitChar n = c := by
        rw [← s0.2.1]; unfold digitChar; congr 2; simp only [n]; omega
      rw [e7, e6, e5, e4, e3, e2, e1, e0]
    rw [hfmt]
    simp only [Char.ofNat_toNat, Prod.mk.injEq, true_and]
    omega

end B6.Lemmas.Bits
