import B6.Spec.MapSeq
/-! List lemmas that connect item indices with what `mapSeq` yields (helper lemmas for `Props/C25.lean`). -/
namespace B6.Spec.MapSeq

variable {α β ε : Type}

theorem length_le (f : α → Except ε β) : ∀ xs : List α, (mapSeq f xs).1.length ≤ xs.length := by
  intro xs
  induction xs with
  | nil => simp [mapSeq]
  | cons x xs ih =>
    simp only [mapSeq]
    split <;> simp <;> omega

/-- the values of the first `r` items, none of which fails, are the first `r` things `map` yields -/
theorem take_eq (f : α → Except ε β) : ∀ (xs : List α) (r : Nat), r ≤ xs.length →
    (∀ k, k < r → bad f xs k = false) →
    (List.range r).filterMap (val f xs) = (mapSeq f xs).1.take r ∧ r ≤ (mapSeq f xs).1.length := by
  intro xs
  induction xs with
  | nil => intro r hr _; have : r = 0 := by simpa using hr
           subst this; simp [mapSeq]
  | cons x xs ih =>
    intro r hr hok
    cases r with
    | zero => simp
    | succ r =>
      have h0 := hok 0 (by omega)
      have hrest : ∀ k, k < r → bad f xs k = false := by
        intro k hk; have := hok (k + 1) (by omega); simpa [bad] using this
      obtain ⟨ih1, ih2⟩ := ih r (by simpa using hr) hrest
      simp only [bad, List.getElem?_cons_zero] at h0
      cases hfx : f x with
      | error e => rw [hfx] at h0; cases h0
      | ok y =>
        have hv0 : val f (x :: xs) 0 = some y := by simp [val, hfx]
        refine ⟨?_, ?_⟩
        · rw [List.range_succ_eq_map, List.filterMap_cons, hv0, List.filterMap_map]
          simp only [mapSeq, hfx, List.take_succ_cons]
          congr 1
        · simp only [mapSeq, hfx, List.length_cons]; omega

/-- if no item fails, `map` yields a value for every item and no error -/
theorem no_error (f : α → Except ε β) : ∀ xs : List α, (∀ k, k < xs.length → bad f xs k = false) →
    (mapSeq f xs).2 = none := by
  intro xs
  induction xs with
  | nil => intro _; rfl
  | cons x xs ih =>
    intro hok
    have h0 := hok 0 (by simp)
    simp only [bad, List.getElem?_cons_zero] at h0
    cases hfx : f x with
    | error e => rw [hfx] at h0; cases h0
    | ok y =>
      simp only [mapSeq, hfx]
      apply ih
      intro k hk; have := hok (k + 1) (by simpa using hk); simpa [bad] using this

/-- if some item fails, `map` ends with an error -/
theorem has_error (f : α → Except ε β) : ∀ (xs : List α) (e : Nat), bad f xs e = true → (mapSeq f xs).2.isSome = true := by
  intro xs
  induction xs with
  | nil => intro e h; simp [bad] at h
  | cons x xs ih =>
    intro e h
    cases hfx : f x with
    | error err => simp [mapSeq, hfx]
    | ok y =>
      simp only [mapSeq, hfx]
      cases e with
      | zero => simp [bad, hfx] at h
      | succ e => exact ih e (by simpa [bad] using h)

end B6.Spec.MapSeq
